(* C06, decoders: DEFINITIONS ONLY.  Graph6Decode and Sparse6Decode completed to the graph VALUE
   they return, as graph/encoding.go builds it.

   C08's models (Codec/Model.v) stop at (n, bit list) resp. keep the graph under construction as
   an abstract sorted edge list.  Here:
   - [graph6_decode_graph]: C08's [graph6_decode] followed by NewDense(int(n), edges), edges[j] the
     byte 0/1 of bit j, with C06's statement-level model [new_dense] (count loop);
   - [sparse6_decode_graph]: the loop of C08's [sparse6_decode] ([s6_loop], same header and bit
     reading functions) run on the real SparseGraph: g := NewSparse(int(n), nil) ([new_sparse]) and
     g.AddEdge(v, x) in stream order (C05's [s_add_edge]: IsEdge test, two SortedInts.Add, counters);
   - an error return is the zero struct and the flag true; Panic / OutOfFuel as in Codec.Model.
   Codec.Model is required but not imported (its [tri], [len], [insert], [do] differ from
   Graph.Model's). *)
From Coq Require Import List ZArith Arith Bool.
From Mamba Require Import Graph.Model Graph.CtorModel.
From Mamba Require Codec.Model.
Import ListNotations.

(* ------------------------------------------------------------------ Graph6Decode *)
(* edges[j] = ((s[i+j/6]-63) & (1<<(5-j%6))) >> (5-j%6): the byte 0 or 1 *)
Definition g6_bytes (e : list bool) : list Z := map b2z e.

(* NewDense(int(n), edges) *)
Definition g6_build (n : Z) (e : list bool) : option dense :=
  new_dense (Z.to_nat n) (Some (g6_bytes e)).

(* &DenseGraph{} *)
Definition dense_zero : dense := mkDense 0 0 [] [] 0.

(* Graph6Decode as a function to the graph value: the (graph, error) pair of the Go function;
   [Codec.Model.Ok (g, false)] = (g, nil), [Codec.Model.Ok (dense_zero, true)] = (&DenseGraph{}, err) *)
Definition graph6_decode_graph (s0 : list Z) : Codec.Model.res (dense * bool) :=
  match Codec.Model.graph6_decode s0 with
  | Codec.Model.Ok (n, e) => match g6_build n e with Some g => Codec.Model.Ok (g, false) | None => Codec.Model.Panic end
  | Codec.Model.Err => Codec.Model.Ok (dense_zero, true)
  | Codec.Model.Panic => Codec.Model.Panic
  | Codec.Model.OutOfFuel => Codec.Model.OutOfFuel
  end.

(* ------------------------------------------------------------------ the model with the real SparseGraph *)
(* g.AddEdge(v, x) with int arguments: "if i == j || g.IsEdge(i, j) { return }"; IsEdge indexes
   DegreeSequence[i], [j] (a negative index panics) *)
Definition s6_add (g : sparse) (v x : Z) : Codec.Model.res sparse :=
  if (v =? x)%Z then Codec.Model.Ok g
  else if ((v <? 0) || (x <? 0))%Z then Codec.Model.Panic
  else match s_add_edge g (Z.to_nat v) (Z.to_nat x) with
       | Some g' => Codec.Model.Ok g'
       | None => Codec.Model.Panic
       end.

(* the loop of Sparse6Decode, as Codec.Model.s6_loop, carrying the SparseGraph *)
Fixpoint s6_loop_g (fuel : nat) (s : list Z) (n : Z) (k : nat) (numBits p v : Z) (g : sparse)
  : Codec.Model.res sparse :=
  if (numBits - p <? Z.of_nat k + 1)%Z then Codec.Model.Ok g else
  match fuel with
  | O => Codec.Model.OutOfFuel
  | S f =>
    Codec.Model.bind (Codec.Model.rd_bit s p) (fun b =>
    let v1 := if b then (v + 1)%Z else v in
    Codec.Model.bind (Codec.Model.rd_num s k (p + 1) 0) (fun xp =>
    let (x, p') := xp in
    if (v1 <? x)%Z then s6_loop_g f s n k numBits p' x g
    else if (v1 <? Codec.Model.s64 n)%Z then
      Codec.Model.bind (s6_add g v1 x) (fun g' => s6_loop_g f s n k numBits p' v1 g')
    else s6_loop_g f s n k numBits p' v1 g))
  end.

(* &SparseGraph{} *)
Definition sparse_zero : sparse := mkSparse 0 0 [] [].

(* Sparse6Decode as a function to the (graph, error) pair: [Codec.Model.Ok (g, false)] = (g, nil),
   [Codec.Model.Ok (sparse_zero, true)] = (&SparseGraph{}, err) *)
Definition sparse6_decode_graph_fuel (fuel : nat) (s0 : list Z) : Codec.Model.res (sparse * bool) :=
  let s := Codec.Model.strip Codec.Model.hdr_sparse6 s0 in
  match s with
  | [] => Codec.Model.Ok (sparse_zero, true)
  | c :: s1 =>
    if negb (c =? 58)%Z then Codec.Model.Ok (sparse_zero, true) else
    if negb (forallb Codec.Model.in_range s1) then Codec.Model.Ok (sparse_zero, true) else
    match s1 with
    | [] => Codec.Model.Ok (sparse_zero, true)
    | _ =>
      match Codec.Model.dec_size false s1 with
      | Codec.Model.Ok (n, i) =>
        let k := if (1 <? n)%Z then Z.to_nat (Codec.Model.bitlen (Codec.Model.u64 (n - 1))) else O in
        (* NewSparse(int(n), nil): make panics on a negative length *)
        if (Codec.Model.s64 n <? 0)%Z then Codec.Model.Panic else
        match new_sparse (Z.to_nat (Codec.Model.s64 n)) None with
        | Some g0 =>
          match s6_loop_g fuel s1 n k (6 * Codec.Model.len s1) (6 * i) 0 g0 with
          | Codec.Model.Ok g => Codec.Model.Ok (g, false)
          | Codec.Model.Err => Codec.Model.Ok (sparse_zero, true)
          | Codec.Model.Panic => Codec.Model.Panic
          | Codec.Model.OutOfFuel => Codec.Model.OutOfFuel
          end
        | None => Codec.Model.Panic
        end
      | Codec.Model.Err => Codec.Model.Ok (sparse_zero, true)
      | Codec.Model.Panic => Codec.Model.Panic
      | Codec.Model.OutOfFuel => Codec.Model.OutOfFuel
      end
    end
  end.

Definition sparse6_decode_graph (s0 : list Z) : Codec.Model.res (sparse * bool) :=
  sparse6_decode_graph_fuel (6 * length s0 + 8) s0.

