(* C06, dense side: a DenseGraph that satisfies the struct invariant [dwf] shows its abstract
   graph through every observer; NewDense establishes the invariant for every byte slice of the
   right length; AddEdge preserves it and adds exactly the edge. *)
From Coq Require Import List ZArith Arith Bool Lia.
From Mamba Require Import Graph.Model Graph.Tri Graph.Lists Graph.Abstract Graph.CtorModel Graph.CtorSpec.
Import ListNotations.

(* ------------------------------------------------------------------ small list facts *)
Lemma list_eq_map_seq (l : list Z) n f :
  length l = n -> (forall v, v < n -> nth v l 0%Z = f v) -> l = map f (seq 0 n).
Proof.
  intros Hl H. apply (nth_ext _ _ 0%Z (f 0)).
  - rewrite map_length, seq_length. auto.
  - intros v Hv. rewrite Hl in Hv. rewrite H by auto.
    rewrite map_nth, seq_nth by auto. reflexivity.
Qed.

Lemma nth_map_seq (f : nat -> Z) n v : v < n -> nth v (map f (seq 0 n)) 0%Z = f v.
Proof.
  intros Hv. rewrite (nth_indep _ _ (f 0)) by (rewrite map_length, seq_length; auto).
  rewrite map_nth, seq_nth by auto. reflexivity.
Qed.

Lemma a_degrees_length a : length (a_degrees a) = an a.
Proof. unfold a_degrees. rewrite map_length, seq_length. reflexivity. Qed.

Lemma nth_a_degrees a v : v < an a -> nth v (a_degrees a) 0%Z = a_deg a v.
Proof. intros. unfold a_degrees. apply nth_map_seq. auto. Qed.

(* ------------------------------------------------------------------ graphs with the same adjacency *)
Lemma a_deg_ext a b v : aeq a b -> a_deg a v = a_deg b v.
Proof. intros [En E]. unfold a_deg. rewrite En. apply zsum_ext. intros. rewrite E. reflexivity. Qed.

Lemma a_M_ext a b : aeq a b -> a_M a = a_M b.
Proof.
  intros [En E]. unfold a_M. rewrite En. apply zsum_ext. intros. apply zsum_ext. intros.
  rewrite E. reflexivity.
Qed.

Lemma a_degrees_ext a b : aeq a b -> a_degrees a = a_degrees b.
Proof.
  intros H. unfold a_degrees. rewrite (proj1 H). apply map_ext. intros. apply a_deg_ext. auto.
Qed.

Lemma a_neighbours_ext a b v : aeq a b -> a_neighbours a v = a_neighbours b v.
Proof.
  intros [En E]. unfold a_neighbours. rewrite En. apply filter_ext. intros. apply E.
Qed.

Lemma awf_ext a b : aeq a b -> awf a -> awf b.
Proof.
  intros [En E] W. constructor.
  - intros. rewrite <- !E. apply (awf_sym a W).
  - intros. rewrite <- E. apply (awf_irr a W).
  - intros x y H. rewrite <- En. rewrite <- E in H. eapply awf_dom; eauto.
Qed.

Lemma aeq_refl a : aeq a a. Proof. split; auto. Qed.
Lemma aeq_sym a b : aeq a b -> aeq b a. Proof. intros [H1 H2]. split; auto. Qed.
Lemma aeq_trans a b c : aeq a b -> aeq b c -> aeq a c.
Proof. intros [H1 H2] [H3 H4]. split; [lia|]. intros. rewrite H2. auto. Qed.

Lemma grep_ext g a b : aeq a b -> grep g a -> grep g b.
Proof.
  intros E [H1 H2 H3 H4 H5]. pose proof E as [En Ea]. constructor.
  - lia.
  - rewrite H2. f_equal. apply a_M_ext. auto.
  - rewrite H3. f_equal. apply a_degrees_ext. auto.
  - intros v Hv. rewrite H4 by lia. f_equal. apply a_neighbours_ext. auto.
  - intros i j Hi Hj. rewrite H5 by lia. f_equal. apply Ea.
Qed.

(* ------------------------------------------------------------------ the abstract graph of a dense graph *)
Lemma dadj_sym g x y : dadj g x y = dadj g y x.
Proof. unfold dadj. bd; auto; lia. Qed.

Lemma dadj_irr g x : dadj g x x = false.
Proof. unfold dadj. rewrite Nat.ltb_irrefl. reflexivity. Qed.

Lemma dadj_dom g x y : dadj g x y = true -> x < dn g /\ y < dn g.
Proof.
  unfold dadj. destruct (Nat.ltb_spec x y); [|destruct (Nat.ltb_spec y x)]; intros E;
    try discriminate; apply andb_true_iff in E; destruct E as [E _]; apply Nat.ltb_lt in E; lia.
Qed.

Lemma awf_dabs g : awf (dabs g).
Proof.
  constructor; cbn [adj an dabs].
  - apply dadj_sym.
  - apply dadj_irr.
  - intros x y H. apply dadj_dom in H. tauto.
Qed.

Lemma dadj_lt g x y : x < y -> y < dn g -> dadj g x y = cell g (tri y + x).
Proof.
  intros H1 H2. unfold dadj. bd; try lia. reflexivity.
Qed.

(* ------------------------------------------------------------------ observers of a well-formed dense graph *)
Lemma dwf_get g x y : dwf g -> x < y -> y < dn g ->
  d_get (darr g) (dlen g) (tri y + x) = Some (nth (tri y + x) (darr g) 0%Z).
Proof.
  intros W H1 H2. unfold d_get. pose proof (tri_bound x y (dn g) H1 H2) as Hb.
  rewrite <- (dwf_len g W) in Hb. pose proof (dwf_arr g W).
  destruct (Nat.ltb_spec (tri y + x) (dlen g)); [|lia].
  apply nth_error_nth_lt. lia.
Qed.

Lemma dwf_is_edge g i j : dwf g -> d_is_edge g i j = Some (dadj g i j).
Proof.
  intros W. unfold d_is_edge, dadj.
  destruct (Nat.leb_spec (dn g) i); cbn [orb].
  - f_equal. bd; auto; try lia.
  - destruct (Nat.leb_spec (dn g) j); cbn [orb].
    + f_equal. bd; auto; lia.
    + destruct (Nat.ltb_spec i j).
      * rewrite dwf_get by auto. destruct (Nat.ltb_spec j (dn g)); [|lia]. reflexivity.
      * destruct (Nat.ltb_spec j i); [|reflexivity].
        rewrite dwf_get by auto. destruct (Nat.ltb_spec i (dn g)); [|lia]. reflexivity.
Qed.

Lemma d_scan_filter g idx p vs :
  (forall x, In x vs ->
     d_get (darr g) (dlen g) (idx x) = Some (nth (idx x) (darr g) 0%Z) /\
     p x = (0 <? nth (idx x) (darr g) 0)%Z) ->
  d_scan g idx vs = Some (filter p vs).
Proof.
  induction vs as [|x t IH]; intros H; [reflexivity|].
  cbn [d_scan filter]. destruct (H x (or_introl eq_refl)) as [E1 E2]. rewrite E1.
  rewrite IH by (intros; apply H; right; auto). rewrite E2. reflexivity.
Qed.

Lemma seq_split3 n v : v < n -> seq 0 n = seq 0 v ++ v :: seq (S v) (n - S v).
Proof.
  intros H. replace n with (v + S (n - S v)) at 1 by lia. rewrite seq_app. reflexivity.
Qed.

Lemma dwf_neighbours g v : dwf g -> v < dn g ->
  d_neighbours g v = Some (a_neighbours (dabs g) v).
Proof.
  intros W Hv. unfold d_neighbours.
  assert (Ed : nth_error (ddeg g) v = Some (a_deg (dabs g) v)).
  { rewrite (dwf_deg g W). rewrite (nth_error_nth_lt _ _ 0%Z) by (rewrite a_degrees_length; auto).
    rewrite nth_a_degrees by auto. reflexivity. }
  rewrite Ed. pose proof (a_deg_range (dabs g) v) as R.
  destruct (Z.ltb_spec (a_deg (dabs g) v) 0); [lia|].
  rewrite (d_scan_filter g _ (dadj g v) (seq 0 v)).
  2:{ intros x Hx. apply in_seq in Hx. split; [apply dwf_get; auto; lia|].
      rewrite dadj_sym, dadj_lt by lia. reflexivity. }
  rewrite (d_scan_filter g _ (dadj g v) (seq (S v) (dn g - S v))).
  2:{ intros x Hx. apply in_seq in Hx. split; [apply dwf_get; auto; lia|].
      rewrite dadj_lt by lia. reflexivity. }
  f_equal. unfold a_neighbours. cbn [an adj dabs].
  rewrite (seq_split3 (dn g) v Hv), filter_app. cbn [filter]. rewrite dadj_irr. reflexivity.
Qed.

(* a dense graph under the invariant shows its abstract graph through the interface *)
Theorem dwf_grep g : dwf g -> grep (GD g) (dabs g).
Proof.
  intros W. constructor; cbn [g_N g_M g_degrees g_neighbours g_is_edge an dabs].
  - reflexivity.
  - unfold d_M. rewrite (dwf_m g W). reflexivity.
  - unfold d_degrees. rewrite (dwf_deg g W). reflexivity.
  - intros. apply dwf_neighbours; auto.
  - intros. apply dwf_is_edge; auto.
Qed.

Corollary dwf_gwf g : dwf g -> gwf (GD g).
Proof. intros W. exists (dabs g). split; [apply awf_dabs | apply dwf_grep; auto]. Qed.

(* ------------------------------------------------------------------ bumping two degrees *)
Lemma degrees_bump a i j deg :
  deg = a_degrees a -> i < an a -> j < an a ->
  exists d1 d2, modify deg i 1 = Some d1 /\ modify d1 j 1 = Some d2 /\
    d2 = map (fun v => a_deg a v + ind v i + ind v j)%Z (seq 0 (an a)).
Proof.
  intros -> Hi Hj.
  eexists. eexists.
  split; [apply modify_some; rewrite a_degrees_length; auto|].
  split; [apply modify_some; rewrite upd_length, a_degrees_length; auto|].
  apply list_eq_map_seq.
  - rewrite !upd_length, a_degrees_length. reflexivity.
  - intros v Hv. unfold ind.
    destruct (Nat.eqb_spec v j) as [->|Nj].
    + rewrite nth_upd_same by (rewrite upd_length, a_degrees_length; auto).
      destruct (Nat.eqb_spec j i) as [->|Ni].
      * rewrite nth_upd_same by (rewrite a_degrees_length; auto).
        rewrite nth_a_degrees by auto. cbn [b2z]. lia.
      * rewrite nth_upd_other by auto. rewrite nth_a_degrees by auto. cbn [b2z]. lia.
    + rewrite nth_upd_other by auto.
      destruct (Nat.eqb_spec v i) as [->|Ni].
      * rewrite nth_upd_same by (rewrite a_degrees_length; auto).
        rewrite nth_a_degrees by auto. cbn [b2z]. lia.
      * rewrite nth_upd_other by auto. rewrite nth_a_degrees by auto. cbn [b2z]. lia.
Qed.

Lemma degrees_add_edge a i j : awf a -> i < an a -> j < an a -> i <> j -> adj a i j = false ->
  a_degrees (a_add_edge a i j) = map (fun v => a_deg a v + ind v i + ind v j)%Z (seq 0 (an a)).
Proof.
  intros. unfold a_degrees. cbn [an a_add_edge]. apply map_ext. intros.
  apply deg_add_edge; auto.
Qed.

(* ------------------------------------------------------------------ NewDense *)
(* the graph of the cells with packed index below k *)
Definition cidx (x y : nat) : nat := if x <? y then tri y + x else tri x + y.

Definition pg (n : nat) (e : list Z) (k : nat) : agraph :=
  mkA n (fun x y => dadj (mkDense n 0 [] e (length e)) x y && (cidx x y <? k)).

Lemma awf_pg n e k : awf (pg n e k).
Proof.
  constructor; cbn [adj an pg].
  - intros x y. rewrite dadj_sym. f_equal. unfold cidx.
    destruct (Nat.ltb_spec x y), (Nat.ltb_spec y x); auto; try lia.
    assert (x = y) by lia. subst. reflexivity.
  - intros x. rewrite dadj_irr. reflexivity.
  - intros x y H. apply andb_true_iff in H. destruct H as [H _]. apply dadj_dom in H. cbn in H. tauto.
Qed.

Lemma cidx_eq i j x y : i < j -> x <> y ->
  (cidx x y = tri j + i <-> (x = i /\ y = j) \/ (x = j /\ y = i)).
Proof.
  intros Hij Hxy. unfold cidx. destruct (Nat.ltb_spec x y).
  - split.
    + intros E. destruct (tri_inj x y i j H Hij E) as [-> ->]. auto.
    + intros [[-> ->]|[-> ->]]; [reflexivity|lia].
  - assert (Hyx : y < x) by lia. split.
    + intros E. destruct (tri_inj y x i j Hyx Hij E) as [-> ->]. auto.
    + intros [[-> ->]|[-> ->]]; [lia|reflexivity].
Qed.

(* the test "{x,y} = {i,j}" of a_add_edge *)
Definition pairb (x y i j : nat) : bool := ((x =? i) && (y =? j)) || ((x =? j) && (y =? i)).

Lemma pairb_true x y i j : pairb x y i j = true <-> (x = i /\ y = j) \/ (x = j /\ y = i).
Proof. unfold pairb. rewrite orb_true_iff, !andb_true_iff, !Nat.eqb_eq. tauto. Qed.

Lemma pairb_diag x i j : i <> j -> pairb x x i j = false.
Proof.
  intros H. destruct (pairb x x i j) eqn:E; [|reflexivity]. apply pairb_true in E. lia.
Qed.

Lemma pairb_same x y i : pairb x y i i = true -> x = y.
Proof. intros E. apply pairb_true in E. lia. Qed.

Lemma pairb_cidx i j x y : i <> j -> x <> y -> pairb x y i j = (cidx x y =? cidx i j).
Proof.
  intros Hij Hxy. apply eq_iff_eq_true. rewrite pairb_true, Nat.eqb_eq.
  unfold cidx at 2. destruct (Nat.ltb_spec i j).
  - rewrite (cidx_eq i j x y) by auto. tauto.
  - rewrite (cidx_eq j i x y) by lia. tauto.
Qed.

Lemma dadj_pairb g x y i j : pairb x y i j = true -> dadj g x y = dadj g i j.
Proof.
  intros E. apply pairb_true in E. destruct E as [[-> ->]|[-> ->]]; [reflexivity|apply dadj_sym].
Qed.

Lemma pg_step n e i j : i < j -> j < n ->
  aeq (pg n e (S (tri j + i)))
      (if (0 <? nth (tri j + i) e 0)%Z then a_add_edge (pg n e (tri j + i)) i j else pg n e (tri j + i)).
Proof.
  intros Hij Hj.
  assert (Hk : cidx i j = tri j + i).
  { unfold cidx. destruct (Nat.ltb_spec i j); [reflexivity|lia]. }
  assert (Hc : forall x y, x <> y -> (cidx x y <? S (tri j + i)) =
     (cidx x y <? tri j + i) || pairb x y i j).
  { intros x y Hxy. rewrite (pairb_cidx i j x y) by lia. rewrite Hk.
    destruct (Nat.ltb_spec (cidx x y) (S (tri j + i))), (Nat.ltb_spec (cidx x y) (tri j + i)),
      (Nat.eqb_spec (cidx x y) (tri j + i)); cbn [orb]; auto; lia. }
  assert (Hd : dadj (mkDense n 0 [] e (length e)) i j = (0 <? nth (tri j + i) e 0)%Z).
  { rewrite dadj_lt by (cbn; lia). reflexivity. }
  assert (Hne : (i =? j) = false) by (apply Nat.eqb_neq; lia).
  destruct (0 <? nth (tri j + i) e 0)%Z eqn:Eb.
  - split; [reflexivity|]. intros x y. cbn [adj an pg a_add_edge]. rewrite Hne. cbn [negb andb].
    change (((x =? i) && (y =? j)) || ((x =? j) && (y =? i))) with (pairb x y i j).
    destruct (Nat.eq_dec x y) as [->|Hxy]; [rewrite dadj_irr, pairb_diag by lia; reflexivity|].
    rewrite Hc by auto.
    destruct (pairb x y i j) eqn:Eq.
    + rewrite (dadj_pairb _ x y i j Eq), Hd. rewrite !orb_true_r. reflexivity.
    + rewrite !orb_false_r. reflexivity.
  - split; [reflexivity|]. intros x y. cbn [adj an pg].
    destruct (Nat.eq_dec x y) as [->|Hxy]; [rewrite dadj_irr; reflexivity|].
    rewrite Hc by auto.
    destruct (pairb x y i j) eqn:Eq.
    + rewrite (dadj_pairb _ x y i j Eq), Hd. reflexivity.
    + rewrite orb_false_r. reflexivity.
Qed.

Lemma pg_not_yet n e i j : i < j -> adj (pg n e (tri j + i)) i j = false.
Proof.
  intros H. cbn [adj pg]. unfold cidx. destruct (Nat.ltb_spec i j); [|lia].
  rewrite Nat.ltb_irrefl. apply andb_false_r.
Qed.

Lemma pg_zero n e : aeq (pg n e 0) (a_empty n).
Proof. split; [reflexivity|]. intros. cbn. apply andb_false_r. Qed.

Lemma cidx_bound n x y : x < n -> y < n -> x <> y -> cidx x y < tri n.
Proof.
  intros. unfold cidx. destruct (Nat.ltb_spec x y); apply tri_bound; lia.
Qed.

Lemma pg_full n e : aeq (pg n e (tri n)) (dabs (mkDense n 0 [] e (length e))).
Proof.
  split; [reflexivity|]. intros x y. cbn [adj pg dabs].
  destruct (dadj _ x y) eqn:E; [|reflexivity]. cbn.
  pose proof (dadj_dom _ _ _ E) as [H1 H2]. cbn in H1, H2.
  assert (x <> y) by (intros ->; rewrite dadj_irr in E; discriminate).
  apply Nat.ltb_lt. apply cidx_bound; auto.
Qed.

Lemma a_degrees_empty n : a_degrees (a_empty n) = zeros n.
Proof.
  unfold zeros. symmetry. apply list_eq_map_seq; [apply repeat_length|].
  intros v Hv. rewrite nth_repeat0. unfold a_deg. cbn. symmetry. apply zsum_zero.
Qed.

Lemma a_M_empty n : a_M (a_empty n) = 0%Z.
Proof.
  unfold a_M. cbn. apply zsum_zero'. intros. apply zsum_zero.
Qed.

Definition nd_inv (n : nat) (e : list Z) (k : nat) (st : list Z * Z * nat) : Prop :=
  let '(deg, m, index) := st in
  index = k /\ deg = a_degrees (pg n e k) /\ m = a_M (pg n e k).

Lemma nd_cell_step n e i j st : length e = tri n -> i < j -> j < n ->
  nd_inv n e (tri j + i) st ->
  exists st', nd_cell e j st i = Some st' /\ nd_inv n e (tri j + S i) st'.
Proof.
  intros Hl Hij Hj. destruct st as [[deg m] index]. intros (-> & Hd & Hm).
  unfold nd_cell. pose proof (tri_bound i j n Hij Hj) as Hb.
  rewrite (nth_error_nth_lt _ _ 0%Z) by lia.
  pose proof (pg_step n e i j Hij Hj) as Hs. rewrite <- Nat.add_succ_r in Hs.
  destruct (0 <? nth (tri j + i) e 0)%Z.
  - destruct (degrees_bump (pg n e (tri j + i)) i j deg Hd) as (d1 & d2 & E1 & E2 & E3);
      [cbn; lia | cbn; lia |].
    rewrite E1, E2. eexists. split; [reflexivity|]. split; [lia|].
    rewrite (a_degrees_ext _ _ Hs), (a_M_ext _ _ Hs).
    rewrite degrees_add_edge, M_add_edge; auto using awf_pg, pg_not_yet; cbn; try lia.
    subst. auto.
  - eexists. split; [reflexivity|]. split; [lia|].
    rewrite (a_degrees_ext _ _ Hs), (a_M_ext _ _ Hs). auto.
Qed.

Lemma nd_count_ok n e : length e = tri n ->
  exists st, nd_count n e = Some st /\ nd_inv n e (tri n) st.
Proof.
  intros Hl. unfold nd_count.
  destruct (foldM_seq_inv (fun j st => nd_inv n e (tri j) st)
              (fun st j => foldM (nd_cell e j) (seq 0 j) st) n 0 (zeros n, 0%Z, 0)) as (st & E & H).
  - cbn [nd_inv]. rewrite tri_0. split; [reflexivity|].
    rewrite (a_degrees_ext _ _ (pg_zero n e)), (a_M_ext _ _ (pg_zero n e)).
    rewrite a_degrees_empty, a_M_empty. auto.
  - intros j st [_ Hj] HI. cbn in Hj.
    destruct (foldM_seq_inv (fun i st => nd_inv n e (tri j + i) st) (nd_cell e j) j 0 st) as (st' & E' & H').
    + rewrite Nat.add_0_r. auto.
    + intros i s [_ Hi] HI'. cbn in Hi. apply nd_cell_step; auto.
    + exists st'. split; auto. rewrite tri_S. exact H'.
  - exists st. split; auto.
Qed.

(* NewDense accepts exactly the slices of length n(n-1)/2 (and nil); the graph it returns
   satisfies the invariant and its adjacency is "the byte of the pair is positive" *)
Theorem new_dense_ok n e : length e = tri n ->
  exists g, new_dense n (Some e) = Some g /\ dwf g /\ dn g = n /\ darr g = e.
Proof.
  intros Hl. unfold new_dense. rewrite Hl, Nat.eqb_refl.
  destruct (nd_count_ok n e Hl) as ([[deg m] index] & E & (_ & Hd & Hm)). rewrite E.
  eexists. split; [reflexivity|]. split; [|split; reflexivity].
  pose proof (pg_full n e) as Hf.
  constructor; cbn [dn dm ddeg darr dlen].
  - auto.
  - lia.
  - rewrite Hd. rewrite (a_degrees_ext _ _ Hf). apply a_degrees_ext. split; reflexivity.
  - rewrite Hm. rewrite (a_M_ext _ _ Hf). apply a_M_ext. split; reflexivity.
Qed.

Theorem new_dense_rejects n e : length e <> tri n -> new_dense n (Some e) = None.
Proof. intros H. unfold new_dense. destruct (Nat.eqb_spec (length e) (tri n)); [lia|reflexivity]. Qed.

Lemma dadj_empty n x y : dadj (d_empty n) x y = false.
Proof.
  unfold dadj, cell, d_empty. cbn [dn darr]. rewrite !nth_repeat0.
  replace (0 <? 0)%Z with false by reflexivity. rewrite !andb_false_r.
  destruct (x <? y), (y <? x); reflexivity.
Qed.

Theorem d_empty_dwf n : dwf (d_empty n).
Proof.
  assert (E : aeq (dabs (d_empty n)) (a_empty n)).
  { split; [reflexivity|]. intros. cbn. apply dadj_empty. }
  constructor.
  - reflexivity.
  - cbn. rewrite repeat_length. lia.
  - rewrite (a_degrees_ext _ _ E), a_degrees_empty. reflexivity.
  - rewrite (a_M_ext _ _ E), a_M_empty. reflexivity.
Qed.

(* ------------------------------------------------------------------ AddEdge *)
Lemma cell_upd g k k' :
  k < length (darr g) ->
  (0 <? nth k' (upd (darr g) k 1%Z) 0)%Z = (k' =? k) || cell g k'.
Proof.
  intros Hk. unfold cell. destruct (Nat.eqb_spec k' k) as [->|N].
  - rewrite nth_upd_same by auto. reflexivity.
  - rewrite nth_upd_other by auto. reflexivity.
Qed.

Theorem dwf_add_edge g i j : dwf g -> i < dn g -> j < dn g ->
  exists g', d_add_edge g i j = Some g' /\ dwf g' /\ dn g' = dn g /\
             aeq (dabs g') (a_add_edge (dabs g) i j).
Proof.
  intros W Hi Hj. unfold d_add_edge.
  destruct (Nat.eqb_spec i j) as [->|Hne].
  { exists g. split; [reflexivity|]. split; [exact W|]. split; [reflexivity|]. split; [reflexivity|].
    intros x y. cbn [adj dabs a_add_edge]. rewrite Nat.eqb_refl. cbn [negb andb].
    rewrite orb_false_r. reflexivity. }
  rewrite dwf_is_edge by auto.
  destruct (dadj g i j) eqn:Ed.
  { exists g. split; [reflexivity|]. split; [exact W|]. split; [reflexivity|]. split; [reflexivity|].
    intros x y. cbn [adj dabs a_add_edge].
    change (((x =? i) && (y =? j)) || ((x =? j) && (y =? i))) with (pairb x y i j).
    destruct (pairb x y i j) eqn:Eq.
    - rewrite (dadj_pairb g x y i j Eq), Ed. reflexivity.
    - rewrite andb_false_r, orb_false_r. reflexivity. }
  destruct (degrees_bump (dabs g) i j (ddeg g) (dwf_deg g W) Hi Hj) as (d1 & d2 & E1 & E2 & E3).
  rewrite E1, E2.
  set (lo := Nat.min i j). set (hi := Nat.max i j).
  assert (Hlh : lo < hi) by (unfold lo, hi; lia).
  assert (Hhn : hi < dn g) by (unfold hi; lia).
  assert (Ek : (if i <? j then tri j + i else tri i + j) = tri hi + lo).
  { unfold lo, hi. destruct (Nat.ltb_spec i j).
    - rewrite Nat.min_l, Nat.max_r by lia. reflexivity.
    - rewrite Nat.min_r, Nat.max_l by lia. reflexivity. }
  rewrite Ek.
  pose proof (tri_bound lo hi (dn g) Hlh Hhn) as Hb. rewrite <- (dwf_len g W) in Hb.
  pose proof (dwf_arr g W) as Ha.
  unfold d_set. destruct (Nat.ltb_spec (tri hi + lo) (dlen g)); [|lia].
  rewrite set_nth_some by lia.
  eexists. split; [reflexivity|].
  set (g' := mkDense (dn g) (dm g + 1) d2 (upd (darr g) (tri hi + lo) 1%Z) (dlen g)).
  assert (Hck : cidx i j = tri hi + lo).
  { unfold cidx. rewrite Ek. reflexivity. }
  assert (Eq : aeq (dabs g') (a_add_edge (dabs g) i j)).
  { split; [reflexivity|]. intros x y. cbn [adj dabs a_add_edge].
    destruct (Nat.eqb_spec i j); [lia|]. cbn [negb andb].
    change (((x =? i) && (y =? j)) || ((x =? j) && (y =? i))) with (pairb x y i j).
    destruct (Nat.eq_dec x y) as [->|Hxy].
    { rewrite !dadj_irr, pairb_diag by auto. reflexivity. }
    rewrite (pairb_cidx i j x y) by auto. rewrite Hck.
    unfold dadj, cidx. cbn [dn darr g'].
    destruct (Nat.ltb_spec x y).
    - unfold cell at 1. cbn [darr g']. rewrite cell_upd by lia.
      destruct (Nat.eqb_spec (tri y + x) (tri hi + lo)) as [E|E].
      + apply tri_inj in E; auto. destruct E; subst. destruct (Nat.ltb_spec hi (dn g)); [|lia].
        cbn. rewrite orb_true_r. reflexivity.
      + cbn [orb]. rewrite orb_false_r. reflexivity.
    - destruct (Nat.ltb_spec y x); [|lia].
      unfold cell at 1. cbn [darr g']. rewrite cell_upd by lia.
      destruct (Nat.eqb_spec (tri x + y) (tri hi + lo)) as [E|E].
      + apply tri_inj in E; auto. destruct E; subst. destruct (Nat.ltb_spec hi (dn g)); [|lia].
        cbn. rewrite orb_true_r. reflexivity.
      + cbn [orb]. rewrite orb_false_r. reflexivity. }
  split; [|split; [reflexivity|exact Eq]].
  constructor; cbn [dn dm ddeg darr dlen g'].
  - apply (dwf_len g W).
  - rewrite upd_length. auto.
  - rewrite (a_degrees_ext _ _ Eq).
    rewrite degrees_add_edge; auto using awf_dabs.
  - rewrite (a_M_ext _ _ Eq). rewrite M_add_edge; auto using awf_dabs.
    rewrite (dwf_m g W). reflexivity.
Qed.

(* ------------------------------------------------------------------ a list of AddEdge calls *)
(* x ~ y in some pair of es (in either order), loops ignored *)
Definition in_pairs (es : list (nat * nat)) (x y : nat) : bool :=
  negb (x =? y) &&
  existsb (fun e : nat * nat => ((fst e =? x) && (snd e =? y)) || ((fst e =? y) && (snd e =? x))) es.

Theorem add_edges_ok es : forall g, dwf g ->
  (forall e, In e es -> fst e < dn g /\ snd e < dn g) ->
  exists g', add_edges g es = Some g' /\ dwf g' /\ dn g' = dn g /\
    forall x y, dadj g' x y = dadj g x y || in_pairs es x y.
Proof.
  unfold add_edges.
  induction es as [|[i j] es IH]; intros g W Hr.
  - exists g. split; [reflexivity|]. split; [exact W|]. split; [reflexivity|].
    intros. unfold in_pairs. cbn [existsb]. rewrite andb_false_r, orb_false_r. reflexivity.
  - cbn [foldM fst snd].
    destruct (Hr (i, j) (or_introl eq_refl)) as [Hi Hj]. cbn in Hi, Hj.
    destruct (dwf_add_edge g i j W Hi Hj) as (g1 & E1 & W1 & N1 & [_ A1]). rewrite E1.
    destruct (IH g1 W1) as (g2 & E2 & W2 & N2 & A2).
    { intros e He. rewrite N1. apply Hr. right. auto. }
    exists g2. split; [exact E2|]. split; [auto|]. split; [lia|].
    intros x y. rewrite A2. cbn [adj dabs a_add_edge] in A1. rewrite A1.
    unfold in_pairs. cbn [existsb fst snd]. rewrite <- orb_assoc. f_equal.
    change (((x =? i) && (y =? j)) || ((x =? j) && (y =? i))) with (pairb x y i j).
    assert (Ep : ((i =? x) && (j =? y)) || ((i =? y) && (j =? x)) = pairb x y i j).
    { apply eq_iff_eq_true. rewrite pairb_true, orb_true_iff, !andb_true_iff, !Nat.eqb_eq. lia. }
    rewrite Ep.
    destruct (pairb x y i j) eqn:Eq.
    + apply pairb_true in Eq.
      destruct (Nat.eqb_spec i j), (Nat.eqb_spec x y); cbn [negb andb orb]; auto; lia.
    + rewrite andb_false_r. reflexivity.
Qed.

Corollary add_edges_empty n es : (forall e, In e es -> fst e < n /\ snd e < n) ->
  exists g, add_edges (d_empty n) es = Some g /\ dwf g /\ dn g = n /\
    forall x y, dadj g x y = in_pairs es x y.
Proof.
  intros Hr. destruct (add_edges_ok es (d_empty n) (d_empty_dwf n) Hr) as (g & E & W & N & A).
  exists g. split; [exact E|]. split; [exact W|]. split; [exact N|].
  intros. rewrite A, dadj_empty. reflexivity.
Qed.
