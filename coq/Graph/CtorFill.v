(* C06: the constructors that fill the fields of a DenseGraph by hand (CompleteGraph, Path,
   Cycle, Star): for every accepted n the returned struct satisfies the invariant (so the
   closed-form counts written by the code are the counts of the adjacency) and the adjacency is
   the definition of the family. *)
From Coq Require Import List ZArith Arith Bool Lia.
From Mamba Require Import Graph.Model Graph.Tri Graph.Lists Graph.Abstract Graph.CtorModel Graph.CtorSpec Graph.CtorDense.
Import ListNotations.

(* ------------------------------------------------------------------ filling loops *)
Lemma fill_ok (c : Z) (idx : nat -> nat) l : forall e0,
  (forall k, In k l -> idx k < length e0) ->
  exists e, foldM (fun e k => set_nth e (idx k) c) l e0 = Some e /\ length e = length e0 /\
    (forall p, In p (map idx l) -> nth p e 0%Z = c) /\
    (forall p, ~ In p (map idx l) -> nth p e 0%Z = nth p e0 0%Z).
Proof.
  induction l as [|a t IH]; intros e0 Hr.
  - exists e0. cbn. repeat split; auto. intros p [].
  - cbn [foldM]. rewrite set_nth_some by (apply Hr; left; auto).
    destruct (IH (upd e0 (idx a) c)) as (e & E & L & H1 & H2).
    { intros k Hk. rewrite upd_length. apply Hr. right. auto. }
    exists e. split; [exact E|]. split; [rewrite L; apply upd_length|]. split.
    + intros p Hp. cbn [map] in Hp.
      destruct (in_dec Nat.eq_dec p (map idx t)) as [Hi|Hn]; [apply H1; auto|].
      destruct Hp as [<-|Hp]; [|contradiction].
      rewrite H2 by auto. apply nth_upd_same. apply Hr. left. auto.
    + intros p Hp. cbn [map] in Hp. rewrite H2 by (intros Hi; apply Hp; right; auto).
      apply nth_upd_other. intros <-. apply Hp. left. auto.
Qed.

Lemma nth_repeat_lt (a d : Z) m p : p < m -> nth p (repeat a m) d = a.
Proof. revert p. induction m; intros p H; [lia|]. destruct p; cbn; auto. apply IHm. lia. Qed.

Lemma nth_zeros p m : nth p (zeros m) 0%Z = 0%Z.
Proof. apply nth_repeat0. Qed.

(* ------------------------------------------------------------------ from cells and closed forms to the invariant *)
Lemma dadj_cells g (def : nat -> nat -> bool) :
  (forall x y, x < y -> y < dn g -> cell g (tri y + x) = def x y) ->
  (forall x y, def x y = def y x) -> (forall x, def x x = false) ->
  forall x y, x < dn g -> y < dn g -> dadj g x y = def x y.
Proof.
  intros Hc Hs Hi x y Hx Hy. unfold dadj.
  destruct (Nat.ltb_spec x y).
  - destruct (Nat.ltb_spec y (dn g)); [|lia]. cbn [andb]. apply Hc; auto.
  - destruct (Nat.ltb_spec y x).
    + destruct (Nat.ltb_spec x (dn g)); [|lia]. cbn [andb]. rewrite Hs. apply Hc; auto.
    + assert (x = y) by lia. subst. rewrite Hi. reflexivity.
Qed.

Lemma dwf_intro g (def : nat -> nat -> bool) :
  dlen g = tri (dn g) -> length (darr g) = tri (dn g) ->
  (forall x y, x < dn g -> y < dn g -> dadj g x y = def x y) ->
  length (ddeg g) = dn g ->
  (forall v, v < dn g -> nth v (ddeg g) 0%Z = zsum (fun u => b2z (def v u)) (dn g)) ->
  dm g = zsum (fun j => zsum (fun i => b2z (def i j)) j) (dn g) ->
  dwf g.
Proof.
  intros H1 H2 Ha H3 H4 H5. constructor; auto; [lia| |].
  - apply list_eq_map_seq; auto. intros v Hv. rewrite H4 by auto.
    unfold a_deg. cbn [an adj dabs]. apply zsum_ext. intros u Hu. rewrite Ha; auto.
  - rewrite H5. unfold a_M. cbn [an adj dabs]. apply zsum_ext. intros j Hj.
    apply zsum_ext. intros i Hi. rewrite Ha; auto; lia.
Qed.

(* M from the degrees (handshake) *)
Lemma M_half_degrees (def : nat -> nat -> bool) n :
  (forall x y, def x y = def y x) -> (forall x, def x x = false) ->
  (2 * zsum (fun j => zsum (fun i => b2z (def i j)) j) n =
   zsum (fun v => zsum (fun u => b2z (def v u)) n) n)%Z.
Proof. intros Hs Hi. rewrite (handshake_gen def Hs Hi n). reflexivity. Qed.

Lemma zsum_const c n : zsum (fun _ => c) n = (Z.of_nat n * c)%Z.
Proof. induction n; cbn [zsum]; [lia|]. rewrite IHn. lia. Qed.

Lemma tri_Z n : (2 * Z.of_nat (tri n) = Z.of_nat n * (Z.of_nat n - 1))%Z.
Proof.
  pose proof (tri_double n) as H. destruct n; [rewrite tri_0; lia|].
  replace (S n - 1) with n in H by lia. nia.
Qed.

(* ------------------------------------------------------------------ CompleteGraph *)
Lemma complete_deg n v : v < n -> zsum (fun u => b2z (complete_def v u)) n = (Z.of_nat n - 1)%Z.
Proof.
  intros Hv. unfold complete_def.
  rewrite (zsum_ext _ (fun u => 1 - ind u v)%Z).
  - rewrite zsum_sub, zsum_const, zsum_ind_lt by auto. lia.
  - intros u _. unfold ind. rewrite (Nat.eqb_sym u v). destruct (v =? u); reflexivity.
Qed.

Theorem complete_graph_ok n :
  exists g, complete_graph n = Some g /\ dwf g /\ dn g = n /\
    forall x y, x < n -> y < n -> dadj g x y = complete_def x y.
Proof.
  eexists. split; [reflexivity|].
  set (g := mkDense n _ _ _ _).
  assert (Ha : forall x y, x < dn g -> y < dn g -> dadj g x y = complete_def x y).
  { apply dadj_cells.
    - intros x y Hxy Hy. unfold cell. cbn [darr dn g] in *.
      rewrite nth_repeat_lt by (apply tri_bound; auto).
      unfold complete_def. destruct (Nat.eqb_spec x y); [lia|reflexivity].
    - intros. unfold complete_def. rewrite Nat.eqb_sym. reflexivity.
    - intros. unfold complete_def. rewrite Nat.eqb_refl. reflexivity. }
  split; [|split; [reflexivity|exact Ha]].
  apply (dwf_intro g complete_def); cbn [dn dm ddeg darr dlen g].
  - reflexivity.
  - apply repeat_length.
  - exact Ha.
  - apply repeat_length.
  - intros v Hv. rewrite nth_repeat_lt by auto. symmetry. apply complete_deg. auto.
  - assert (H2 := M_half_degrees complete_def n).
    rewrite (zsum_ext (fun v => zsum (fun u => b2z (complete_def v u)) n) (fun _ => Z.of_nat n - 1)%Z) in H2
      by (intros; apply complete_deg; auto).
    rewrite zsum_const in H2. pose proof (tri_Z n).
    assert (2 * zsum (fun j => zsum (fun i => b2z (complete_def i j)) j) n = 2 * Z.of_nat (tri n))%Z; [|lia].
    rewrite H2; [lia| |].
    + intros. unfold complete_def. rewrite Nat.eqb_sym. reflexivity.
    + intros. unfold complete_def. rewrite Nat.eqb_refl. reflexivity.
Qed.

(* ------------------------------------------------------------------ Path *)
Lemma zsum_pred_ind v n : zsum (fun u => b2z (S u =? v)) n = b2z ((0 <? v) && (v <=? n)).
Proof.
  induction n; cbn [zsum].
  - destruct v; reflexivity.
  - rewrite IHn. destruct (Nat.eqb_spec (S n) v), (Nat.ltb_spec 0 v), (Nat.leb_spec v n), (Nat.leb_spec v (S n));
      cbn; lia.
Qed.

Lemma zsum_pos_count n : zsum (fun j => b2z (0 <? j)) n = (Z.of_nat n - b2z (0 <? n)%nat)%Z.
Proof.
  induction n; cbn [zsum]; [reflexivity|]. rewrite IHn, Nat2Z.inj_succ.
  destruct (Nat.ltb_spec 0 n), (Nat.ltb_spec 0 (S n)); cbn [b2z]; lia.
Qed.

Lemma path_def_sym x y : path_def x y = path_def y x.
Proof. unfold path_def. apply orb_comm. Qed.

Lemma path_def_irr x : path_def x x = false.
Proof. unfold path_def. destruct (Nat.eqb_spec (S x) x); [lia|reflexivity]. Qed.

Lemma path_deg n v : v < n ->
  zsum (fun u => b2z (path_def v u)) n = (b2z (S v <? n)%nat + b2z (0 <? v)%nat)%Z.
Proof.
  intros Hv. unfold path_def.
  rewrite (zsum_ext _ (fun u => ind u (S v) + b2z (S u =? v)%nat)%Z).
  - rewrite zsum_add, zsum_ind, zsum_pred_ind.
    destruct (Nat.leb_spec v n); [|lia]. rewrite andb_true_r. reflexivity.
  - intros u _. unfold ind. rewrite (Nat.eqb_sym u (S v)).
    apply b2z_orb_disj. destruct (Nat.eqb_spec (S v) u), (Nat.eqb_spec (S u) v); auto; lia.
Qed.

Lemma path_M n :
  zsum (fun j => zsum (fun i => b2z (path_def i j)) j) n = (Z.of_nat n - b2z (0 <? n)%nat)%Z.
Proof.
  rewrite <- zsum_pos_count. apply zsum_ext. intros j _.
  rewrite (zsum_ext _ (fun i => b2z (S i =? j))).
  - rewrite zsum_pred_ind, Nat.leb_refl, andb_true_r. reflexivity.
  - intros i Hi. unfold path_def. destruct (Nat.eqb_spec (S j) i); [lia|]. rewrite orb_false_r. reflexivity.
Qed.

(* the cells written by the loop of Path and Cycle *)
Lemma path_edges_ok n :
  exists e, path_edges n = Some e /\ length e = tri n /\
    forall x y, x < y -> y < n -> nth (tri y + x) e 0%Z = b2z (S x =? y).
Proof.
  unfold path_edges.
  destruct (fill_ok 1%Z (fun i => tri (S i) + i) (seq 0 (n - 1)) (zeros (tri n))) as (e & E & L & H1 & H2).
  { intros k Hk. apply in_seq in Hk. unfold zeros. rewrite repeat_length. apply tri_bound; lia. }
  exists e. split; [exact E|]. split; [rewrite L; apply repeat_length|].
  intros x y Hxy Hy. destruct (Nat.eqb_spec (S x) y) as [<-|Hne].
  - apply H1. apply in_map_iff. exists x. split; auto. apply in_seq. lia.
  - rewrite H2; [apply nth_zeros|]. intros Hi. apply in_map_iff in Hi. destruct Hi as (k & Ek & _).
    apply tri_inj in Ek; lia.
Qed.

Theorem path_ok n :
  exists g, path n = Some g /\ dwf g /\ dn g = n /\
    forall x y, x < n -> y < n -> dadj g x y = path_def x y.
Proof.
  unfold path. destruct (path_edges_ok n) as (e & E & L & Hc). rewrite E.
  assert (Hcell : forall m deg, let g := mkDense n m deg e (tri n) in
            forall x y, x < dn g -> y < dn g -> dadj g x y = path_def x y).
  { intros m deg g. apply dadj_cells; [|apply path_def_sym|apply path_def_irr].
    intros x y Hxy Hy. unfold cell. cbn [darr dn g] in *. rewrite Hc by auto.
    unfold path_def. destruct (Nat.eqb_spec (S x) y), (Nat.eqb_spec (S y) x); cbn; auto; lia. }
  destruct (Nat.ltb_spec 1 n) as [Hn|Hn].
  - rewrite set_nth_some by (unfold zeros; rewrite repeat_length; lia).
    rewrite set_nth_some by (rewrite upd_length; unfold zeros; rewrite repeat_length; lia).
    set (d2 := upd (upd (zeros n) 0 1%Z) (n - 1) 1%Z).
    destruct (fill_ok 2%Z (fun i => i) (seq 1 (n - 2)) d2) as (d3 & E3 & L3 & H1 & H2).
    { intros k Hk. apply in_seq in Hk. unfold d2, zeros. rewrite !upd_length, repeat_length. lia. }
    rewrite map_id in H1, H2. rewrite E3.
    assert (Ld : length d2 = n) by (unfold d2, zeros; rewrite !upd_length, repeat_length; auto).
    eexists. split; [reflexivity|]. split; [|split; [reflexivity|apply Hcell]].
    apply (dwf_intro _ path_def); cbn [dn dm ddeg darr dlen];
      [reflexivity|exact L|apply Hcell|lia| |].
    + intros v Hv. rewrite path_deg by auto.
      destruct (in_dec Nat.eq_dec v (seq 1 (n - 2))) as [Hi|Hi].
      * rewrite H1 by auto. apply in_seq in Hi.
        destruct (Nat.ltb_spec (S v) n), (Nat.ltb_spec 0 v); cbn; lia.
      * rewrite H2 by auto. rewrite in_seq in Hi. unfold d2.
        destruct (Nat.eq_dec v (n - 1)) as [->|Hv1].
        -- rewrite nth_upd_same by (rewrite upd_length; unfold zeros; rewrite repeat_length; lia).
           destruct (Nat.ltb_spec (S (n - 1)) n), (Nat.ltb_spec 0 (n - 1)); cbn; lia.
        -- rewrite nth_upd_other by auto. assert (v = 0) by lia. subst v.
           rewrite nth_upd_same by (unfold zeros; rewrite repeat_length; lia).
           destruct (Nat.ltb_spec 1 n); cbn; lia.
    + rewrite path_M. destruct (Nat.ltb_spec 0 n); cbn; lia.
  - eexists. split; [reflexivity|]. split; [|split; [reflexivity|apply Hcell]].
    apply (dwf_intro _ path_def); cbn [dn dm ddeg darr dlen];
      [reflexivity|exact L|apply Hcell|apply repeat_length| |].
    + intros v Hv. rewrite path_deg by auto. rewrite nth_zeros.
      destruct (Nat.ltb_spec (S v) n), (Nat.ltb_spec 0 v); cbn; lia.
    + rewrite path_M. destruct (Nat.ltb_spec 0 n); cbn; lia.
Qed.

(* ------------------------------------------------------------------ Cycle *)
Definition succm (n x : nat) : nat := if S x =? n then 0 else S x.

Lemma succ_mod n x : x < n -> S x mod n = succm n x.
Proof.
  intros H. unfold succm. destruct (Nat.eqb_spec (S x) n) as [<-|Hne].
  - apply Nat.mod_same. lia.
  - apply Nat.mod_small. lia.
Qed.

Lemma cycle_def_succm n x y : x < n -> y < n ->
  cycle_def n x y = (succm n x =? y) || (succm n y =? x).
Proof. intros. unfold cycle_def. rewrite !succ_mod by auto. reflexivity. Qed.

Lemma cycle_deg n v : 3 <= n -> v < n -> zsum (fun u => b2z (cycle_def n v u)) n = 2%Z.
Proof.
  intros Hn Hv.
  rewrite (zsum_ext _ (fun u => ind u (succm n v) + ind u (if v =? 0 then n - 1 else v - 1)%nat)%Z).
  - rewrite zsum_add, !zsum_ind_lt; [lia| |].
    + destruct (Nat.eqb_spec v 0); lia.
    + unfold succm. destruct (Nat.eqb_spec (S v) n); lia.
  - intros u Hu. rewrite cycle_def_succm by auto. unfold ind, succm.
    destruct (Nat.eqb_spec (S v) n), (Nat.eqb_spec (S u) n), (Nat.eqb_spec v 0);
      repeat match goal with |- context [Nat.eqb ?a ?b] => destruct (Nat.eqb_spec a b) end;
      cbn; lia.
Qed.

Theorem cycle_ok n : 3 <= n ->
  exists g, cycle n = Some g /\ dwf g /\ dn g = n /\
    forall x y, x < n -> y < n -> dadj g x y = cycle_def n x y.
Proof.
  intros Hn. unfold cycle. destruct (Nat.ltb_spec n 3); [lia|].
  destruct (path_edges_ok n) as (e & E & L & Hc). rewrite E.
  assert (Hb : tri (n - 1) < length e).
  { rewrite L. replace (tri (n - 1)) with (tri (n - 1) + 0) by lia. apply tri_bound; lia. }
  rewrite set_nth_some by auto.
  eexists. split; [reflexivity|].
  set (g := mkDense n _ _ _ _).
  assert (Ha : forall x y, x < dn g -> y < dn g -> dadj g x y = cycle_def n x y).
  { intros x y Hx Hy. cbn [dn g] in Hx, Hy. rewrite cycle_def_succm by auto. revert x y Hx Hy.
    apply (dadj_cells g (fun x y => (succm n x =? y) || (succm n y =? x))).
    - intros x y Hxy Hy. unfold cell. cbn [darr dn g] in *.
      destruct (Nat.eq_dec (tri y + x) (tri (n - 1))) as [Eq|Ne].
      + rewrite Eq, nth_upd_same by auto.
        replace (tri (n - 1)) with (tri (n - 1) + 0) in Eq by lia.
        apply tri_inj in Eq; try lia. destruct Eq; subst. unfold succm.
        destruct (Nat.eqb_spec (S (n - 1)) n); [|lia]. rewrite Nat.eqb_refl, orb_true_r. reflexivity.
      + rewrite nth_upd_other by auto. rewrite Hc by auto. unfold succm.
        destruct (Nat.eqb_spec (S x) y) as [<-|Hxy'].
        * destruct (Nat.eqb_spec (S x) n); [lia|]. rewrite Nat.eqb_refl. reflexivity.
        * symmetry. destruct (Nat.eqb_spec (S x) n), (Nat.eqb_spec (S y) n); subst;
            repeat match goal with |- context [Nat.eqb ?a ?b] => destruct (Nat.eqb_spec a b) end;
            cbn; auto; try lia.
          exfalso. apply Ne. replace (S y - 1) with y by lia. subst. lia.
    - intros. apply orb_comm.
    - intros x. unfold succm. destruct (Nat.eqb_spec (S x) n);
        repeat match goal with |- context [Nat.eqb ?a ?b] => destruct (Nat.eqb_spec a b) end; cbn; auto; lia. }
  split; [|split; [reflexivity|exact Ha]].
  apply (dwf_intro g (cycle_def n)); cbn [dn dm ddeg darr dlen g].
  - reflexivity.
  - rewrite upd_length. auto.
  - exact Ha.
  - apply repeat_length.
  - intros v Hv. rewrite nth_repeat_lt by auto. symmetry. apply cycle_deg; auto.
  - assert (H2 := M_half_degrees (cycle_def n) n).
    rewrite (zsum_ext (fun v => zsum (fun u => b2z (cycle_def n v u)) n) (fun _ => 2%Z)) in H2
      by (intros; apply cycle_deg; auto).
    rewrite zsum_const in H2.
    assert (2 * zsum (fun j => zsum (fun i => b2z (cycle_def n i j)) j) n = 2 * Z.of_nat n)%Z; [|lia].
    rewrite H2; [lia| |].
    + intros. unfold cycle_def. apply orb_comm.
    + intros x. unfold cycle_def.
      destruct (Nat.eqb_spec (S x mod n) x) as [Eq|]; [|reflexivity].
      exfalso. destruct (Nat.lt_ge_cases x n) as [Hx|Hx].
      * rewrite succ_mod in Eq by auto. unfold succm in Eq. destruct (Nat.eqb_spec (S x) n); lia.
      * pose proof (Nat.mod_upper_bound (S x) n). lia.
Qed.

(* ------------------------------------------------------------------ Star *)
Lemma star_def_sym x y : star_def x y = star_def y x.
Proof. unfold star_def. apply orb_comm. Qed.

Lemma star_def_irr x : star_def x x = false.
Proof. unfold star_def. destruct (x =? 0); reflexivity. Qed.

Lemma star_deg n v : v < n ->
  zsum (fun u => b2z (star_def v u)) n = if v =? 0 then (Z.of_nat n - 1)%Z else 1%Z.
Proof.
  intros Hv. unfold star_def. destruct (Nat.eqb_spec v 0) as [->|Hv0].
  - rewrite (zsum_ext _ (fun u => 1 - ind u 0)%Z).
    + rewrite zsum_sub, zsum_const, zsum_ind_lt by auto. lia.
    + intros u _. unfold ind. destruct (u =? 0); reflexivity.
  - rewrite (zsum_ext _ (fun u => ind u 0)).
    + apply zsum_ind_lt. lia.
    + intros u _. unfold ind. destruct (u =? 0); reflexivity.
Qed.

Theorem star_ok n :
  exists g, star n = Some g /\ dwf g /\ dn g = n /\
    forall x y, x < n -> y < n -> dadj g x y = star_def x y.
Proof.
  unfold star.
  destruct (fill_ok 1%Z (fun i => tri i) (seq 1 (n - 1)) (zeros (tri n))) as (e & E & L & H1 & H2).
  { intros k Hk. apply in_seq in Hk. unfold zeros. rewrite repeat_length.
    replace (tri k) with (tri k + 0) by lia. apply tri_bound; lia. }
  rewrite E. unfold zeros in L. rewrite repeat_length in L.
  assert (Hcell : forall m deg, let g := mkDense n m deg e (tri n) in
            forall x y, x < dn g -> y < dn g -> dadj g x y = star_def x y).
  { intros m deg g. apply dadj_cells; [|apply star_def_sym|apply star_def_irr].
    intros x y Hxy Hy. unfold cell. cbn [darr dn g] in *. unfold star_def.
    destruct (Nat.eqb_spec y 0); [lia|]. rewrite andb_false_l, orb_false_r, andb_true_r.
    destruct (Nat.eqb_spec x 0) as [->|Hx0].
    - rewrite H1; [reflexivity|]. apply in_map_iff. exists y. split; [lia|]. apply in_seq. lia.
    - rewrite H2; [rewrite nth_zeros; reflexivity|]. intros Hi. apply in_map_iff in Hi. destruct Hi as (k & Ek & Hk).
      apply in_seq in Hk. replace (tri k) with (tri k + 0) in Ek by lia. apply tri_inj in Ek; lia. }
  destruct (Nat.ltb_spec 0 n) as [Hn|Hn].
  - rewrite set_nth_some by (unfold zeros; rewrite repeat_length; lia).
    destruct (fill_ok 1%Z (fun i => i) (seq 1 (n - 1)) (upd (zeros n) 0 (Z.of_nat n - 1)%Z)) as (d2 & E2 & L2 & D1 & D2).
    { intros k Hk. apply in_seq in Hk. unfold zeros. rewrite upd_length, repeat_length. lia. }
    rewrite map_id in D1, D2. rewrite E2.
    assert (Ld : length d2 = n) by (rewrite L2; unfold zeros; rewrite upd_length, repeat_length; auto).
    eexists. split; [reflexivity|]. split; [|split; [reflexivity|apply Hcell]].
    apply (dwf_intro _ star_def); cbn [dn dm ddeg darr dlen];
      [reflexivity|exact L|apply Hcell|exact Ld| |].
    + intros v Hv. rewrite star_deg by auto.
      destruct (Nat.eqb_spec v 0) as [->|Hv0].
      * rewrite D2 by (rewrite in_seq; lia). apply nth_upd_same. unfold zeros. rewrite repeat_length. lia.
      * apply D1. apply in_seq. lia.
    + assert (H3 := M_half_degrees star_def n star_def_sym star_def_irr).
      rewrite (zsum_ext (fun v => zsum (fun u => b2z (star_def v u)) n)
                 (fun v => 1 + ind v 0 * (Z.of_nat n - 2))%Z) in H3.
      * rewrite zsum_add, zsum_const in H3.
        rewrite (zsum_ext (fun v => ind v 0 * (Z.of_nat n - 2))%Z (fun v => (Z.of_nat n - 2) * ind v 0)%Z) in H3
          by (intros; lia).
        rewrite zsum_scale, zsum_ind_lt in H3 by auto. lia.
      * intros v Hv. rewrite star_deg by auto. unfold ind. destruct (v =? 0); cbn [b2z]; lia.
  - assert (n = 0) by lia. subst.
    eexists. split; [reflexivity|]. split; [|split; [reflexivity|apply Hcell]].
    apply (dwf_intro _ star_def); cbn [dn dm ddeg darr dlen];
      [reflexivity|exact L|apply Hcell|reflexivity|intros; lia|reflexivity].
Qed.
