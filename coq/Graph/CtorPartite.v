(* C06: CompletePartiteGraph(nums...) for every list of part sizes: the struct satisfies the
   invariant and two vertices are adjacent exactly when they lie in different parts. *)
From Coq Require Import List ZArith Arith Bool Lia.
From Mamba Require Import Graph.Model Graph.Tri Graph.Lists Graph.Abstract Graph.CtorModel Graph.CtorSpec Graph.CtorDense Graph.CtorFill.
Import ListNotations.

(* ------------------------------------------------------------------ loops *)
Lemma foldM_app {A S} (f : S -> A -> option S) l1 l2 s :
  foldM f (l1 ++ l2) s = match foldM f l1 s with Some s' => foldM f l2 s' | None => None end.
Proof.
  revert s. induction l1; intros s; cbn [app foldM]; [reflexivity|].
  destruct (f s a); auto.
Qed.

Lemma foldM_flat_map {A B S} (f : S -> B -> option S) (g : A -> list B) l s :
  foldM f (flat_map g l) s = foldM (fun s x => foldM f (g x) s) l s.
Proof.
  revert s. induction l; intros s; cbn [flat_map foldM]; [reflexivity|].
  rewrite foldM_app. destruct (foldM f (g a) s); auto.
Qed.

Lemma foldM_map {A B S} (f : S -> B -> option S) (h : A -> B) l s :
  foldM f (map h l) s = foldM (fun s x => f s (h x)) l s.
Proof.
  revert s. induction l; intros s; cbn [map foldM]; [reflexivity|]. destruct (f s (h a)); auto.
Qed.

Lemma foldM_ext {A S} (f g : S -> A -> option S) l s :
  (forall s x, f s x = g s x) -> foldM f l s = foldM g l s.
Proof.
  intros H. revert s. induction l; intros s; cbn [foldM]; [reflexivity|]. rewrite H.
  destruct (g s a); auto.
Qed.

(* cells set to 1 and counted *)
Lemma fill_count_ok (idx : nat * nat -> nat) l : forall e0 (m0 : Z),
  (forall k, In k l -> idx k < length e0) ->
  exists e, foldM (fun (st : list Z * Z) k =>
                     let (e, m) := st in do e' <- set_nth e (idx k) 1%Z; Some (e', (m + 1)%Z)) l (e0, m0)
            = Some (e, (m0 + Z.of_nat (length l))%Z) /\ length e = length e0 /\
    (forall p, In p (map idx l) -> nth p e 0%Z = 1%Z) /\
    (forall p, ~ In p (map idx l) -> nth p e 0%Z = nth p e0 0%Z).
Proof.
  induction l as [|a t IH]; intros e0 m0 Hr.
  - exists e0. cbn. replace (m0 + 0)%Z with m0 by lia. repeat split; auto. intros p [].
  - cbn [foldM]. rewrite set_nth_some by (apply Hr; left; auto).
    destruct (IH (upd e0 (idx a) 1%Z) (m0 + 1)%Z) as (e & E & L & H1 & H2).
    { intros k Hk. rewrite upd_length. apply Hr. right. auto. }
    exists e. split; [rewrite E; f_equal; f_equal; cbn [length]; lia|].
    split; [rewrite L; apply upd_length|]. split.
    + intros p Hp. cbn [map] in Hp.
      destruct (in_dec Nat.eq_dec p (map idx t)) as [Hi|Hn]; [apply H1; auto|].
      destruct Hp as [<-|Hp]; [|contradiction].
      rewrite H2 by auto. apply nth_upd_same. apply Hr. left. auto.
    + intros p Hp. cbn [map] in Hp. rewrite H2 by (intros Hi; apply Hp; right; auto).
      apply nth_upd_other. intros <-. apply Hp. left. auto.
Qed.

(* ------------------------------------------------------------------ zsum over a sum of ranges *)
Lemma zsum_app f a b : zsum f (a + b) = (zsum f a + zsum (fun i => f (a + i)%nat) b)%Z.
Proof.
  induction b; [rewrite Nat.add_0_r; cbn [zsum]; lia|].
  rewrite Nat.add_succ_r. cbn [zsum]. rewrite IHb. lia.
Qed.

(* ------------------------------------------------------------------ parts *)
Lemma list_sum_cons a t : list_sum (a :: t) = a + list_sum t.
Proof. reflexivity. Qed.
Lemma list_sum_nil : list_sum [] = 0.
Proof. reflexivity. Qed.

Lemma part_of_lt nums x : x < list_sum nums -> part_of nums x < length nums.
Proof.
  revert x. induction nums as [|a t IH]; intros x H; [cbn in H; lia|].
  rewrite list_sum_cons in H. cbn [part_of length].
  destruct (Nat.ltb_spec x a); [lia|]. apply -> Nat.succ_lt_mono. apply IH. lia.
Qed.

Lemma part_of_app_l pre r x : x < list_sum pre -> part_of (pre ++ r) x = part_of pre x.
Proof.
  revert x. induction pre as [|a t IH]; intros x H; [cbn in H; lia|].
  rewrite list_sum_cons in H. cbn [part_of app].
  destruct (Nat.ltb_spec x a); [reflexivity|]. f_equal. apply IH. lia.
Qed.

Lemma part_of_app_r pre r x : list_sum pre <= x ->
  part_of (pre ++ r) x = length pre + part_of r (x - list_sum pre).
Proof.
  revert x. induction pre as [|a t IH]; intros x H.
  - cbn [app length list_sum fold_right]. rewrite Nat.sub_0_r. reflexivity.
  - rewrite list_sum_cons in *. cbn [part_of app length].
    destruct (Nat.ltb_spec x a); [lia|]. rewrite IH by lia.
    replace (x - a - list_sum t) with (x - (a + list_sum t)) by lia. lia.
Qed.

Lemma nth_app_mid {A} (pre : list A) v post d : nth (length pre) (pre ++ v :: post) d = v.
Proof. rewrite app_nth2 by lia. rewrite Nat.sub_diag. reflexivity. Qed.

Lemma list_sum_app l1 l2 : list_sum (l1 ++ l2) = list_sum l1 + list_sum l2.
Proof. induction l1; [reflexivity|]. cbn [app]. rewrite !list_sum_cons, IHl1. lia. Qed.

Lemma partite_def_sym nums x y : partite_def nums x y = partite_def nums y x.
Proof. unfold partite_def. rewrite Nat.eqb_sym. reflexivity. Qed.

Lemma partite_def_irr nums x : partite_def nums x x = false.
Proof. unfold partite_def. rewrite Nat.eqb_refl. reflexivity. Qed.

(* the number of vertices in part p *)
Lemma part_count nums : forall p,
  zsum (fun u => b2z (part_of nums u =? p)) (list_sum nums) = Z.of_nat (nth p nums 0).
Proof.
  induction nums as [|a t IH]; intros p.
  - destruct p; reflexivity.
  - rewrite list_sum_cons. cbn [part_of]. rewrite zsum_app.
    rewrite (zsum_ext _ (fun _ => b2z (0 =? p)) a).
    2:{ intros u Hu. destruct (Nat.ltb_spec u a); [reflexivity|lia]. }
    rewrite (zsum_ext (fun i => b2z ((if a + i <? a then 0 else S (part_of t (a + i - a))) =? p))
                      (fun i => b2z (S (part_of t i) =? p)) (list_sum t)).
    2:{ intros u Hu. destruct (Nat.ltb_spec (a + u) a); [lia|]. replace (a + u - a) with u by lia. reflexivity. }
    rewrite zsum_const. destruct p as [|p]; cbn [nth Nat.eqb b2z].
    + rewrite zsum_zero. lia.
    + rewrite IH. lia.
Qed.

Lemma partite_deg nums v : v < list_sum nums ->
  zsum (fun u => b2z (partite_def nums v u)) (list_sum nums) =
  (Z.of_nat (list_sum nums) - Z.of_nat (nth (part_of nums v) nums 0%nat))%Z.
Proof.
  intros Hv. unfold partite_def.
  rewrite (zsum_ext _ (fun u => 1 - b2z (part_of nums u =? part_of nums v)%nat)%Z).
  - rewrite zsum_sub, zsum_const, part_count. lia.
  - intros u _. rewrite (Nat.eqb_sym (part_of nums v)). destruct (part_of nums u =? part_of nums v); reflexivity.
Qed.

(* the number of pairs in different parts *)
Fixpoint cross (nums : list nat) : Z :=
  match nums with
  | [] => 0%Z
  | a :: t => (Z.of_nat a * Z.of_nat (list_sum t) + cross t)%Z
  end.

Lemma partite_M nums :
  zsum (fun j => zsum (fun i => b2z (partite_def nums i j)) j) (list_sum nums) = cross nums.
Proof.
  induction nums as [|a t IH]; [reflexivity|]. rewrite list_sum_cons. cbn [cross]. rewrite zsum_app.
  rewrite (zsum_zero' _ a).
  2:{ intros j Hj. apply zsum_zero'. intros i Hi. unfold partite_def. cbn [part_of].
      destruct (Nat.ltb_spec i a), (Nat.ltb_spec j a); try lia. reflexivity. }
  rewrite (zsum_ext _ (fun j => Z.of_nat a + zsum (fun i => b2z (partite_def t i j)) j)%Z).
  - rewrite zsum_add, zsum_const, IH. lia.
  - intros j Hj. rewrite zsum_app.
    rewrite (zsum_ext _ (fun _ => 1%Z) a).
    2:{ intros i Hi. unfold partite_def. cbn [part_of].
        destruct (Nat.ltb_spec i a), (Nat.ltb_spec (a + j) a); try lia. reflexivity. }
    rewrite zsum_const. f_equal; [lia|]. apply zsum_ext. intros i Hi.
    unfold partite_def. cbn [part_of].
    destruct (Nat.ltb_spec (a + i) a), (Nat.ltb_spec (a + j) a); try lia.
    replace (a + i - a) with i by lia. replace (a + j - a) with j by lia. reflexivity.
Qed.

(* what the code adds to m: v * (n - en) per part *)
Fixpoint msum (n s : nat) (nums : list nat) : Z :=
  match nums with
  | [] => 0%Z
  | v :: t => (Z.of_nat (v * (n - (s + v))) + msum n (s + v) t)%Z
  end.

Lemma msum_cross nums : forall n s, n = s + list_sum nums -> msum n s nums = cross nums.
Proof.
  induction nums as [|a t IH]; intros n s H; [reflexivity|]. rewrite list_sum_cons in H. cbn [msum cross].
  rewrite (IH n (s + a)) by lia. replace (n - (s + a)) with (list_sum t) by lia. lia.
Qed.

Lemma msum_app n s l1 l2 : msum n s (l1 ++ l2) = (msum n s l1 + msum n (s + list_sum l1) l2)%Z.
Proof.
  revert s. induction l1 as [|a t IH]; intros s; cbn [app msum]; rewrite ?list_sum_cons, ?list_sum_nil.
  - rewrite Nat.add_0_r. lia.
  - rewrite IH. replace (s + a + list_sum t) with (s + (a + list_sum t)) by lia. lia.
Qed.

(* ------------------------------------------------------------------ one part *)
Definition pinv (nums : list nat) (n : nat) (pre : list nat) (st : list Z * list Z * Z * nat) : Prop :=
  let '(e, deg, m, start) := st in
  start = list_sum pre /\ length e = tri n /\ length deg = n /\
  (forall x y, x < y -> y < n ->
     nth (tri y + x) e 0%Z = b2z ((x <? start) && negb (part_of nums x =? part_of nums y))) /\
  (forall i, i < n ->
     nth i deg 0%Z = if i <? start then (Z.of_nat n - Z.of_nat (nth (part_of nums i) nums 0%nat))%Z else 0%Z) /\
  m = msum n 0 pre.

Lemma partite_part_ok nums n pre v post st :
  nums = pre ++ v :: post -> n = list_sum nums -> pinv nums n pre st ->
  exists st', partite_part n st v = Some st' /\ pinv nums n (pre ++ [v]) st'.
Proof.
  intros Hnums Hn. destruct st as [[[e deg] m] start]. intros (Hs & Le & Ld & Hc & Hd & Hm).
  unfold partite_part.
  assert (Hsum : n = start + v + list_sum post).
  { rewrite Hn, Hnums, list_sum_app, list_sum_cons. lia. }
  (* the degrees of the part *)
  destruct (fill_ok (Z.of_nat n - Z.of_nat v)%Z (fun i => i) (seq start v) deg) as (deg' & E1 & L1 & D1 & D2).
  { intros k Hk. apply in_seq in Hk. lia. }
  rewrite map_id in D1, D2. rewrite E1.
  (* the cells of the part, as one flat loop *)
  set (en := start + v).
  set (ps := flat_map (fun k => map (fun j => (j, k)) (seq start v)) (seq en (n - en))).
  set (idx := fun p : nat * nat => tri (snd p) + fst p).
  destruct (fill_count_ok idx ps e m) as (e' & E2 & L2 & C1 & C2).
  { intros [j k] Hk. unfold ps in Hk. apply in_flat_map in Hk. destruct Hk as (k' & Hk' & Hj).
    apply in_map_iff in Hj. destruct Hj as (j' & Ej & Hj'). inversion Ej; subst j' k'.
    apply in_seq in Hk'. apply in_seq in Hj'. unfold idx. cbn [fst snd]. rewrite Le.
    apply tri_bound; unfold en in *; lia. }
  assert (E2' : foldM (fun st k =>
                    foldM (fun (st : list Z * Z) j =>
                             let (e, m) := st in
                             do e' <- set_nth e (tri k + j) 1%Z; Some (e', (m + 1)%Z))
                          (seq start v) st)
                 (seq en (n - en)) (e, m) = Some (e', (m + Z.of_nat (length ps))%Z)).
  { rewrite <- E2. unfold ps. rewrite foldM_flat_map. apply foldM_ext. intros s k.
    rewrite foldM_map. apply foldM_ext. intros [e0 m0] j. reflexivity. }
  rewrite E2'. cbn [fst snd].
  eexists. split; [reflexivity|].
  assert (Hlen : length ps = v * (n - en)).
  { assert (H : forall l0 : list nat, length (flat_map (fun k => map (fun j => (j, k)) (seq start v)) l0) = v * length l0).
    { induction l0; cbn [flat_map length]; [lia|]. rewrite app_length, map_length, seq_length, IHl0. lia. }
    unfold ps. rewrite H, seq_length. reflexivity. }
  (* membership in the written cells *)
  assert (Hin : forall x y, x < y -> y < n ->
            (In (tri y + x) (map idx ps) <-> (start <= x < en /\ en <= y))).
  { intros x y Hxy Hy. split.
    - intros Hi. apply in_map_iff in Hi. destruct Hi as ([j k] & Ei & Hp). unfold idx in Ei. cbn [fst snd] in Ei.
      unfold ps in Hp. apply in_flat_map in Hp. destruct Hp as (k' & Hk' & Hj).
      apply in_map_iff in Hj. destruct Hj as (j' & Ej & Hj'). inversion Ej; subst j' k'.
      apply in_seq in Hk'. apply in_seq in Hj'.
      apply tri_inj in Ei; unfold en in *; try lia.
    - intros [Hx Hy']. apply in_map_iff. exists (x, y). split; [reflexivity|].
      unfold ps. apply in_flat_map. exists y. split; [apply in_seq; lia|].
      apply in_map_iff. exists x. split; [reflexivity|]. apply in_seq. unfold en in *. lia. }
  (* parts of the vertices around the current part *)
  assert (Pcur : forall x, start <= x < en -> part_of nums x = length pre).
  { intros x Hx. rewrite Hnums, part_of_app_r by lia. cbn [part_of].
    destruct (Nat.ltb_spec (x - list_sum pre) v); unfold en in *; lia. }
  assert (Pafter : forall y, en <= y -> length pre < part_of nums y).
  { intros y Hy. rewrite Hnums, part_of_app_r by (unfold en in *; lia). cbn [part_of].
    destruct (Nat.ltb_spec (y - list_sum pre) v); unfold en in *; lia. }
  unfold pinv. rewrite list_sum_app, list_sum_cons, list_sum_nil.
  split; [unfold en; lia|]. split; [lia|]. split; [lia|]. split; [|split].
  - intros x y Hxy Hy.
    destruct (in_dec Nat.eq_dec (tri y + x) (map idx ps)) as [Hi|Hi].
    + rewrite C1 by auto. apply Hin in Hi; auto. destruct Hi as [Hx Hy'].
      pose proof (Pcur x Hx). pose proof (Pafter y Hy').
      destruct (Nat.ltb_spec x en); [|unfold en in *; lia].
      destruct (Nat.eqb_spec (part_of nums x) (part_of nums y)); [lia|reflexivity].
    + rewrite C2 by auto. rewrite Hc by auto. rewrite Hin in Hi by auto.
      destruct (Nat.ltb_spec x start), (Nat.ltb_spec x en); try lia; cbn [andb]; auto.
      assert (Hx : start <= x < en) by (unfold en; lia).
      assert (Hy' : start <= y < en) by lia.
      rewrite (Pcur x Hx), (Pcur y Hy'), Nat.eqb_refl. reflexivity.
  - intros i Hi.
    destruct (in_dec Nat.eq_dec i (seq start v)) as [Hs'|Hs'].
    + rewrite D1 by auto. apply in_seq in Hs'.
      destruct (Nat.ltb_spec i en); [|lia].
      rewrite Pcur by (unfold en; lia). rewrite Hnums, nth_app_mid. reflexivity.
    + rewrite D2 by auto. rewrite Hd by auto. rewrite in_seq in Hs'.
      destruct (Nat.ltb_spec i start), (Nat.ltb_spec i en); auto; lia.
  - rewrite msum_app. cbn [msum]. rewrite Hm, Hlen, <- Hs. cbn [Nat.add]. unfold en. lia.
Qed.

Theorem complete_partite_ok nums :
  exists g, complete_partite nums = Some g /\ dwf g /\ dn g = list_sum nums /\
    forall x y, x < list_sum nums -> y < list_sum nums -> dadj g x y = partite_def nums x y.
Proof.
  unfold complete_partite. set (n := list_sum nums).
  destruct (foldM_list_inv (pinv nums n) (partite_part n) nums [] (zeros (tri n), zeros n, 0%Z, 0))
    as (st & E & H).
  - cbn [pinv msum]. rewrite list_sum_nil. unfold zeros. rewrite !repeat_length.
    split; [reflexivity|]. split; [reflexivity|]. split; [reflexivity|]. split; [|split; [|reflexivity]].
    + intros. rewrite nth_repeat0. reflexivity.
    + intros. rewrite nth_repeat0. reflexivity.
  - intros p x q s Hp _ HI. apply (partite_part_ok nums n p x q s); auto.
  - rewrite E. cbn [app] in H. destruct st as [[[e deg] m] start].
    destruct H as (Hs & Le & Ld & Hc & Hd & Hm). fold n in Hs.
    eexists. split; [reflexivity|].
    set (g := mkDense n m deg e (tri n)).
    assert (Ha : forall x y, x < dn g -> y < dn g -> dadj g x y = partite_def nums x y).
    { apply dadj_cells; [|apply partite_def_sym|apply partite_def_irr].
      intros x y Hxy Hy. unfold cell. cbn [darr dn g] in *. rewrite Hc by auto.
      destruct (Nat.ltb_spec x start); [|lia]. cbn [andb]. unfold partite_def.
      destruct (part_of nums x =? part_of nums y); reflexivity. }
    split; [|split; [reflexivity|exact Ha]].
    apply (dwf_intro g (partite_def nums)); cbn [dn dm ddeg darr dlen g].
    + reflexivity.
    + exact Le.
    + exact Ha.
    + exact Ld.
    + intros v Hv. rewrite Hd by auto. destruct (Nat.ltb_spec v start); [|lia].
      symmetry. apply partite_deg. auto.
    + rewrite Hm. unfold n. rewrite partite_M. apply msum_cross. reflexivity.
Qed.
