(* Every finite history of edit operations with valid arguments, over a store of several graphs,
   runs without panic on DenseGraph and on SparseGraph, and all observers of every graph in the
   store equal those of the abstract run, hence each other. *)
From Coq Require Import List ZArith Arith Bool Lia Sorted.
From Mamba Require Import Graph.Model Graph.Lists Graph.Tri Graph.Abstract Graph.Dense
  Graph.DenseRemove Graph.DenseInduced Graph.SparseLists Graph.Sparse Graph.SparseInduced.
Import ListNotations.

(* ---------------------------------------------------------------- valid histories, abstract run *)
(* every operation of the history has valid arguments for the graph it is applied to (the sizes
   are those of the abstract run) and addresses an existing store entry *)
Fixpoint hvalid (st : list agraph) (h : list (nat * op)) : Prop :=
  match h with
  | [] => True
  | (k, o) :: h' =>
    match nth_error st k with
    | Some a => op_valid (an a) o /\
                hvalid (upd st k (fst (a_step a o)) ++ opt_list (snd (a_step a o))) h'
    | None => False
    end
  end.

Fixpoint hvalidb (st : list agraph) (h : list (nat * op)) : bool :=
  match h with
  | [] => true
  | (k, o) :: h' =>
    match nth_error st k with
    | Some a => op_validb (an a) o &&
                hvalidb (upd st k (fst (a_step a o)) ++ opt_list (snd (a_step a o))) h'
    | None => false
    end
  end.

Lemma hvalidb_spec h : forall st, hvalidb st h = true <-> hvalid st h.
Proof.
  induction h as [|[k o] h IH]; intros st; simpl; [tauto|].
  destruct (nth_error st k); [|split; [discriminate|tauto]].
  rewrite andb_true_iff, op_validb_spec, IH. tauto.
Qed.

Fixpoint arun (st : list agraph) (h : list (nat * op)) : list agraph :=
  match h with
  | [] => st
  | (k, o) :: h' =>
    match nth_error st k with
    | Some a => arun (upd st k (fst (a_step a o)) ++ opt_list (snd (a_step a o))) h'
    | None => st
    end
  end.

Lemma arun_run h : forall st, hvalid st h -> run a_step' st h = Some (arun st h).
Proof.
  induction h as [|[k o] h IH]; intros st H; simpl in *; auto.
  destruct (nth_error st k) as [a|]; [|tauto]. unfold a_step'.
  destruct (a_step a o) as [a' new]. simpl in *. apply IH. tauto.
Qed.

Lemma arun_awf h : forall st, Forall awf st -> hvalid st h -> Forall awf (arun st h).
Proof.
  induction h as [|[k o] h IH]; intros st F H; simpl in *; auto.
  destruct (nth_error st k) as [a|] eqn:E; [|tauto]. destruct H as [Hv H].
  apply IH; auto.
  assert (Wa : awf a). { rewrite Forall_forall in F. apply F. eapply nth_error_In; eauto. }
  destruct (awf_step a o Wa Hv) as [W1 W2].
  apply Forall_app. split.
  - clear -F W1. revert k. induction F; intros [|k]; simpl; auto.
  - destruct (snd (a_step a o)); simpl; auto.
Qed.

(* ---------------------------------------------------------------- simulation over a store *)
Definition orel {G} (R : G -> agraph -> Prop) (x : option G) (y : option agraph) : Prop :=
  match x, y with
  | Some g, Some a => R g a
  | None, None => True
  | _, _ => False
  end.

Lemma Forall2_nth_error_r {A B} (R : A -> B -> Prop) l1 l2 k b :
  Forall2 R l1 l2 -> nth_error l2 k = Some b -> exists a, nth_error l1 k = Some a /\ R a b.
Proof.
  intros F. revert k. induction F; intros [|k] Hk; simpl in *; try discriminate.
  - inversion Hk; subst. eauto.
  - auto.
Qed.

Lemma Forall2_upd {A B} (R : A -> B -> Prop) l1 l2 k a b :
  Forall2 R l1 l2 -> R a b -> Forall2 R (upd l1 k a) (upd l2 k b).
Proof. intros F Hab. revert k. induction F; intros [|k]; simpl; auto. Qed.

Lemma Forall2_opt {A} (R : A -> agraph -> Prop) x y : orel R x y -> Forall2 R (opt_list x) (opt_list y).
Proof. destruct x, y; simpl; intros; try tauto; auto. Qed.

Definition simulates {G} (R : G -> agraph -> Prop) (step : G -> op -> option (G * option G)) : Prop :=
  forall g a o, R g a -> op_valid (an a) o ->
    exists g' new, step g o = Some (g', new) /\
      R g' (fst (a_step a o)) /\ orel R new (snd (a_step a o)).

Lemma run_sim {G} (R : G -> agraph -> Prop) step : simulates R step ->
  forall h st ast, Forall2 R st ast -> hvalid ast h ->
    exists st', run step st h = Some st' /\ Forall2 R st' (arun ast h).
Proof.
  intros Hsim. induction h as [|[k o] h IH]; intros st ast F H; simpl in *.
  - eauto.
  - destruct (nth_error ast k) as [a|] eqn:E; [|tauto]. destruct H as [Hv H].
    destruct (Forall2_nth_error_r R st ast k a F E) as (g & Eg & Rga). rewrite Eg.
    destruct (Hsim g a o Rga Hv) as (g' & new & Es & R1 & R2). rewrite Es.
    apply IH; auto. apply Forall2_app.
    + apply Forall2_upd; auto.
    + apply Forall2_opt; auto.
Qed.

(* ---------------------------------------------------------------- one step, dense and sparse *)
Lemma d_step_sim : simulates Rd d_step.
Proof.
  intros g a o R Hv. destruct o; simpl in *.
  - destruct Hv as [H1 H2]. destruct (d_add_vertex_ok g a nbrs R H1 H2) as (g' & E & R').
    rewrite E. eexists. eexists. split; [reflexivity|]. simpl. auto.
  - destruct (d_remove_vertex_ok g a v R Hv) as (g' & E & R').
    rewrite E. eexists. eexists. split; [reflexivity|]. simpl. auto.
  - destruct Hv as [H1 H2]. destruct (d_add_edge_ok g a i j R H1 H2) as (g' & E & R').
    rewrite E. eexists. eexists. split; [reflexivity|]. simpl. auto.
  - destruct Hv as [H1 H2]. destruct (d_remove_edge_ok g a i j R H1 H2) as (g' & E & R').
    rewrite E. eexists. eexists. split; [reflexivity|]. simpl. auto.
  - eexists. eexists. split; [reflexivity|]. simpl. split; auto. apply Rd_copy; auto.
  - destruct Hv as [H1 H2]. destruct (d_induced_ok g a V R H2) as (h & E & R').
    rewrite E. eexists. eexists. split; [reflexivity|]. simpl. auto.
Qed.

Lemma s_step_sim : simulates Rs s_step.
Proof.
  intros g a o R Hv. destruct o; simpl in *.
  - destruct Hv as [H1 H2]. destruct (s_add_vertex_ok g a nbrs R H1 H2) as (g' & E & R').
    rewrite E. eexists. eexists. split; [reflexivity|]. simpl. auto.
  - destruct (s_remove_vertex_ok g a v R Hv) as (g' & E & R').
    rewrite E. eexists. eexists. split; [reflexivity|]. simpl. auto.
  - destruct Hv as [H1 H2]. destruct (s_add_edge_ok g a i j R H1 H2) as (g' & E & R').
    rewrite E. eexists. eexists. split; [reflexivity|]. simpl. auto.
  - destruct Hv as [H1 H2]. destruct (s_remove_edge_ok g a i j R H1 H2) as (g' & E & R').
    rewrite E. eexists. eexists. split; [reflexivity|]. simpl. auto.
  - eexists. eexists. split; [reflexivity|]. simpl. split; auto.
  - destruct Hv as [H1 H2]. destruct (s_induced_ok g a V R H1 H2) as (h & E & R').
    rewrite E. eexists. eexists. split; [reflexivity|]. simpl. auto.
Qed.

(* ---------------------------------------------------------------- observers *)
(* all observers of the dense graph g equal those of the abstract graph a; IsEdge is total
   (false outside the vertex range, as the Go code answers) *)
Definition d_obs (g : dense) (a : agraph) : Prop :=
  d_N g = a_N a /\ d_M g = a_M a /\ d_degrees g = a_degrees a /\
  (forall i j, d_is_edge g i j = Some (a_is_edge a i j)) /\
  (forall v, v < a_N a -> d_neighbours g v = Some (a_neighbours a v)).

(* all observers of the sparse graph g equal those of a (vertices in range: the Go code indexes
   its slices with them) *)
Definition s_obs (g : sparse) (a : agraph) : Prop :=
  s_N g = a_N a /\ s_M g = a_M a /\ s_degrees g = a_degrees a /\
  (forall i j, i < a_N a -> j < a_N a -> s_is_edge g i j = Some (a_is_edge a i j)) /\
  (forall v, v < a_N a -> s_neighbours g v = Some (a_neighbours a v)).

(* the observers of a dense and of a sparse graph agree, without panic, and the common
   neighbour lists are strictly ascending *)
Definition ds_obs (g : dense) (s : sparse) : Prop :=
  d_N g = s_N s /\ d_M g = s_M s /\ d_degrees g = s_degrees s /\
  (forall i j, i < d_N g -> j < d_N g ->
     exists b, d_is_edge g i j = Some b /\ s_is_edge s i j = Some b) /\
  (forall v, v < d_N g ->
     exists l, d_neighbours g v = Some l /\ s_neighbours s v = Some l /\ StronglySorted lt l).

Lemma Rd_obs g a : Rd g a -> d_obs g a.
Proof.
  intros R. unfold d_obs, d_N, d_M, a_N, a_is_edge. split; [apply (rd_n g a R)|].
  split; [apply (rd_m g a R)|]. split; [apply d_degrees_ok; auto|]. split.
  - intros. apply d_is_edge_ok; auto.
  - intros. apply d_neighbours_ok; auto.
Qed.

Lemma Rs_obs g a : Rs g a -> s_obs g a.
Proof.
  intros R. unfold s_obs, s_N, s_M, a_N, a_is_edge. split; [apply (rs_n g a R)|].
  split; [apply (rs_m g a R)|]. split; [apply s_degrees_ok; auto|]. split.
  - intros. apply s_is_edge_ok; auto.
  - intros. apply s_neighbours_ok; auto.
Qed.

Lemma obs_compose g s a : d_obs g a -> s_obs s a -> ds_obs g s.
Proof.
  intros (D1 & D2 & D3 & D4 & D5) (S1 & S2 & S3 & S4 & S5). unfold ds_obs.
  split; [congruence|]. split; [congruence|]. split; [congruence|]. rewrite D1. split.
  - intros i j Hi Hj. exists (a_is_edge a i j). auto.
  - intros v Hv. exists (a_neighbours a v). split; auto. split; auto. apply a_neighbours_sorted.
Qed.

Lemma Forall2_impl {A B} (R R' : A -> B -> Prop) l1 l2 :
  (forall x y, R x y -> R' x y) -> Forall2 R l1 l2 -> Forall2 R' l1 l2.
Proof. intros H F. induction F; constructor; auto. Qed.

Lemma Forall2_compose {A B C} (R1 : A -> C -> Prop) (R2 : B -> C -> Prop) (R : A -> B -> Prop)
  l1 l2 l3 : (forall x y z, R1 x z -> R2 y z -> R x y) ->
  Forall2 R1 l1 l3 -> Forall2 R2 l2 l3 -> Forall2 R l1 l2.
Proof.
  intros H F1. revert l2. induction F1; intros l2' F2; inversion F2; subst; constructor; eauto.
Qed.

(* ---------------------------------------------------------------- the history theorems *)
Theorem dense_history dst ast h : Forall2 Rd dst ast -> hvalid ast h ->
  exists dst', run d_step dst h = Some dst' /\
    run a_step' ast h = Some (arun ast h) /\
    Forall2 Rd dst' (arun ast h) /\ Forall2 d_obs dst' (arun ast h).
Proof.
  intros F H. destruct (run_sim Rd d_step d_step_sim h dst ast F H) as (dst' & E & F').
  exists dst'. split; auto. split; [apply arun_run; auto|]. split; auto.
  eapply Forall2_impl; [|exact F']. apply Rd_obs.
Qed.

Theorem sparse_history sst ast h : Forall2 Rs sst ast -> hvalid ast h ->
  exists sst', run s_step sst h = Some sst' /\
    run a_step' ast h = Some (arun ast h) /\
    Forall2 Rs sst' (arun ast h) /\ Forall2 s_obs sst' (arun ast h).
Proof.
  intros F H. destruct (run_sim Rs s_step s_step_sim h sst ast F H) as (sst' & E & F').
  exists sst'. split; auto. split; [apply arun_run; auto|]. split; auto.
  eapply Forall2_impl; [|exact F']. apply Rs_obs.
Qed.

Theorem dense_sparse_history dst sst ast h :
  Forall2 Rd dst ast -> Forall2 Rs sst ast -> hvalid ast h ->
  exists dst' sst', run d_step dst h = Some dst' /\ run s_step sst h = Some sst' /\
    Forall2 ds_obs dst' sst'.
Proof.
  intros Fd Fs H.
  destruct (dense_history dst ast h Fd H) as (dst' & E1 & _ & _ & O1).
  destruct (sparse_history sst ast h Fs H) as (sst' & E2 & _ & _ & O2).
  exists dst', sst'. split; auto. split; auto.
  eapply Forall2_compose; [|exact O1|exact O2]. intros x y z. apply obs_compose.
Qed.

(* from empty graphs (NewDense(n, nil), NewSparse(n, nil)) *)
Corollary empty_history n0 h : hvalid [a_empty n0] h ->
  exists dst sst, run d_step [d_empty n0] h = Some dst /\ run s_step [s_empty n0] h = Some sst /\
    run a_step' [a_empty n0] h = Some (arun [a_empty n0] h) /\
    Forall2 d_obs dst (arun [a_empty n0] h) /\ Forall2 s_obs sst (arun [a_empty n0] h) /\
    Forall2 ds_obs dst sst.
Proof.
  intros H.
  assert (Fd : Forall2 Rd [d_empty n0] [a_empty n0]) by (constructor; [apply Rd_empty|constructor]).
  assert (Fs : Forall2 Rs [s_empty n0] [a_empty n0]) by (constructor; [apply Rs_empty|constructor]).
  destruct (dense_history _ _ h Fd H) as (dst' & E1 & Ea & _ & O1).
  destruct (sparse_history _ _ h Fs H) as (sst' & E2 & _ & _ & O2).
  exists dst', sst'. repeat split; auto.
  eapply Forall2_compose; [|exact O1|exact O2]. intros x y z. apply obs_compose.
Qed.

(* ---------------------------------------------------------------- Copy and InducedSubgraph *)
(* the receiver is returned as it was; the new graph represents the same abstract graph
   (Copy) resp. has vertex x standing for V[x] (InducedSubgraph) *)
Theorem dense_copy g a : Rd g a ->
  exists h, d_step g OCopy = Some (g, Some h) /\ Rd h a /\ d_obs h a.
Proof.
  intros R. eexists. split; [reflexivity|]. split; [apply Rd_copy; auto|].
  apply Rd_obs, Rd_copy; auto.
Qed.

Theorem sparse_copy g a : Rs g a ->
  exists h, s_step g OCopy = Some (g, Some h) /\ Rs h a /\ s_obs h a.
Proof. intros R. eexists. split; [reflexivity|]. split; auto. apply Rs_obs; auto. Qed.

Theorem dense_induced_maps g a V : Rd g a -> NoDup V -> (forall x, In x V -> x < an a) ->
  exists h, d_step g (OInduced V) = Some (g, Some h) /\ Rd h (a_induced a V) /\
    d_N h = length V /\
    forall x y vx vy, nth_error V x = Some vx -> nth_error V y = Some vy ->
      d_is_edge h x y = d_is_edge g vx vy /\ d_is_edge h x y = Some (adj a vx vy).
Proof.
  intros R Hnd HV. destruct (d_induced_ok g a V R HV) as (h & E & R').
  exists h. simpl. rewrite E. split; auto. split; auto.
  split; [apply (rd_n h _ R')|].
  intros x y vx vy Ex Ey. rewrite (d_is_edge_ok h _ x y R'), (d_is_edge_ok g a vx vy R).
  cbn [adj a_induced]. rewrite Ex, Ey. auto.
Qed.

Theorem sparse_induced_maps g a V : Rs g a -> NoDup V -> (forall x, In x V -> x < an a) ->
  exists h, s_step g (OInduced V) = Some (g, Some h) /\ Rs h (a_induced a V) /\
    s_N h = length V /\
    forall x y vx vy, nth_error V x = Some vx -> nth_error V y = Some vy ->
      s_is_edge h x y = s_is_edge g vx vy /\ s_is_edge h x y = Some (adj a vx vy).
Proof.
  intros R Hnd HV. destruct (s_induced_ok g a V R Hnd HV) as (h & E & R').
  exists h. simpl. rewrite E. split; auto. split; auto.
  split; [apply (rs_n h _ R')|].
  intros x y vx vy Ex Ey.
  assert (Hx : x < length V) by (apply nth_error_Some; congruence).
  assert (Hy : y < length V) by (apply nth_error_Some; congruence).
  assert (Hvx : vx < an a) by (apply HV; eapply nth_error_In; eauto).
  assert (Hvy : vy < an a) by (apply HV; eapply nth_error_In; eauto).
  rewrite (s_is_edge_ok h _ x y R') by auto. rewrite (s_is_edge_ok g a vx vy R) by auto.
  cbn [adj a_induced]. rewrite Ex, Ey. auto.
Qed.

(* ---------------------------------------------------------------- the abstract graph is a plain
   adjacency-set model of a loop-free undirected graph *)
Theorem abstract_meaning ast h : Forall awf ast -> hvalid ast h ->
  Forall (fun a => awf a /\
     (forall v u, In u (a_neighbours a v) <-> adj a v u = true) /\
     (forall v, StronglySorted lt (a_neighbours a v)) /\
     (forall v, a_deg a v = Z.of_nat (length (a_neighbours a v))) /\
     (zsum (a_deg a) (an a) = 2 * a_M a)%Z) (arun ast h).
Proof.
  intros F H. pose proof (arun_awf h ast F H) as F'.
  eapply Forall_impl; [|exact F']. intros a W. split; auto. split; [|split; [|split]].
  - intros. apply a_neighbours_in; auto.
  - intros. apply a_neighbours_sorted.
  - intros. apply a_deg_neighbours.
  - apply handshake; auto.
Qed.
