(* C06: the subsets that index the vertices of the Kneser graphs: for x < C(n,k), [ksubset k x]
   (what comb.Unrank returns) is a strictly ascending list of k numbers below n whose colex rank
   is x (so the numbering is injective); on such lists IntersectionSize counts the common
   elements.  Hence the Kneser adjacency "IntersectionSize = 0" is disjointness and the bipartite
   Kneser adjacency "IntersectionSize = k" is containment. *)
From Coq Require Import List ZArith Arith Bool Lia Sorted.
From Mamba Require Import Graph.Model Graph.Tri Graph.Lists Graph.Abstract Graph.CtorModel Graph.CtorSpec
  Graph.CtorDense Graph.CtorViews Graph.CtorKneser Graph.CtorLineDef.
Import ListNotations.

(* ------------------------------------------------------------------ binomials *)
Lemma binom_S n k : binom (S n) (S k) = binom n k + binom n (S k).
Proof. reflexivity. Qed.

Lemma binom_mono k : forall n n', n <= n' -> binom n k <= binom n' k.
Proof.
  induction k; intros n n' H; [rewrite !binom_0_r; lia|].
  induction H as [|n' H IH]; [lia|]. rewrite binom_S. lia.
Qed.

(* ------------------------------------------------------------------ the walk of comb.Unrank *)
Lemma unrank_walk_spec i m : forall fuel l prev l' p',
  unrank_walk fuel l i m prev = Some (l', p') ->
  l <= l' /\ m < binom l' (S i) /\
  ((l' = l /\ p' = prev) \/ (l < l' /\ p' = binom (l' - 1) (S i) /\ binom (l' - 1) (S i) <= m)).
Proof.
  induction fuel; intros l prev l' p' H; [discriminate|]. cbn [unrank_walk] in H.
  destruct (Nat.leb_spec (binom l (S i)) m).
  - apply IHfuel in H. destruct H as (H1 & H2 & H3). split; [lia|]. split; [exact H2|]. right.
    destruct H3 as [[-> ->]|(H3 & H4 & H5)].
    + replace (S l - 1) with l by lia. split; [lia|]. split; [reflexivity|lia].
    + split; [lia|]. split; auto.
  - inversion H; subst. split; [lia|]. split; [lia|]. left. auto.
Qed.

Lemma crank_from_app t l x : crank_from t (l ++ [x]) = crank_from t l + binom x (S (t + length l)).
Proof.
  revert t. induction l as [|h r IH]; intros t; cbn [app crank_from length].
  - rewrite !Nat.add_0_r. lia.
  - rewrite IH. replace (S t + length r) with (t + S (length r)) by lia. lia.
Qed.

(* the subset with rank m < C(B,k) *)
Theorem unrank_spec k : forall m l B, unrank k m = Some l -> m < binom B k ->
  length l = k /\ StronglySorted lt l /\ Forall (fun x => x < B) l /\ crank l = m.
Proof.
  induction k as [|i IH]; intros m l B H Hb; cbn [unrank] in H.
  - inversion H; subst. rewrite binom_0_r in Hb. repeat split; try constructor. cbn. lia.
  - destruct (unrank_walk (S (S m)) (S i) i m 0) as [[l' p']|] eqn:Ew; [|discriminate].
    cbn [fst snd] in H. destruct (unrank i (m - p')) as [rest|] eqn:Er; [|discriminate].
    inversion H; subst l. clear H.
    apply unrank_walk_spec in Ew. destruct Ew as (H1 & H2 & H3).
    assert (Hp : p' = binom (l' - 1) (S i) /\ binom (l' - 1) (S i) <= m).
    { destruct H3 as [[-> ->]|(_ & H4 & H5)]; [|auto].
      replace (S i - 1) with i by lia. rewrite binom_gt by lia. lia. }
    destruct Hp as [-> Hle]. set (c := l' - 1) in *.
    assert (Hl' : l' = S c) by (unfold c; lia).
    assert (Hrest : m - binom c (S i) < binom c i).
    { rewrite Hl', binom_S in H2. lia. }
    destruct (IH _ _ c Er Hrest) as (R1 & R2 & R3 & R4).
    assert (HcB : c < B).
    { destruct (Nat.lt_ge_cases c B); [auto|]. pose proof (binom_mono (S i) B c H). lia. }
    split; [rewrite app_length; cbn; lia|]. split; [|split].
    + apply sorted_snoc; auto.
    + apply Forall_app. split; [|constructor; auto].
      rewrite Forall_forall in *. intros x Hx. specialize (R3 x Hx). lia.
    + unfold crank in *. rewrite crank_from_app, R4, R1. cbn [Nat.add]. lia.
Qed.

Corollary ksubset_spec n k x : x < binom n k ->
  length (ksubset k x) = k /\ StronglySorted lt (ksubset k x) /\
  Forall (fun e => e < n) (ksubset k x) /\ crank (ksubset k x) = x.
Proof.
  intros H. unfold ksubset. destruct (unrank_some k x) as (l & E). rewrite E.
  apply (unrank_spec k x l n E H).
Qed.

(* the numbering is injective *)
Corollary ksubset_inj n k x y : x < binom n k -> y < binom n k -> ksubset k x = ksubset k y -> x = y.
Proof.
  intros Hx Hy E. destruct (ksubset_spec n k x Hx) as (_ & _ & _ & <-).
  destruct (ksubset_spec n k y Hy) as (_ & _ & _ & <-). rewrite E. reflexivity.
Qed.

(* ------------------------------------------------------------------ IntersectionSize on ascending lists *)
Lemma filter_false (p : nat -> bool) l : (forall x, p x = false) -> filter p l = [].
Proof. intros H. induction l; cbn [filter]; [reflexivity|]. rewrite H. exact IHl. Qed.

Lemma isize_cons' x a' y b' :
  isize (x :: a') (y :: b') =
  if x =? y then S (isize a' b') else if y <? x then isize (x :: a') b' else isize a' (y :: b').
Proof. reflexivity. Qed.

Lemma isize_filter a : StronglySorted lt a -> forall b, StronglySorted lt b ->
  isize a b = length (filter (fun x => mem x b) a).
Proof.
  induction 1 as [|x a' Sa IHa Fa]; intros b Sb; [destruct b; reflexivity|].
  rewrite Forall_forall in Fa.
  induction Sb as [|y b' Sb' IHb Fb]; [rewrite filter_false by reflexivity; reflexivity|].
  rewrite Forall_forall in Fb. rewrite isize_cons'. cbn [filter].
  assert (Hext : forall l, (forall z, In z l -> y < z) ->
            filter (fun z => mem z (y :: b')) l = filter (fun z => mem z b') l).
  { intros l Hl. apply filter_ext_in. intros z Hz. unfold mem. cbn [existsb].
    destruct (Nat.eqb_spec z y); [apply Hl in Hz; lia|reflexivity]. }
  destruct (Nat.eqb_spec x y) as [->|Hne].
  - unfold mem at 1. cbn [existsb]. rewrite Nat.eqb_refl. cbn [orb length]. f_equal.
    rewrite Hext by (intros z Hz; apply Fa; auto). apply IHa. auto.
  - destruct (Nat.ltb_spec y x).
    + rewrite IHb. cbn [filter].
      assert (Hx : mem x (y :: b') = mem x b').
      { unfold mem. cbn [existsb]. destruct (Nat.eqb_spec x y); [lia|reflexivity]. }
      rewrite Hx, Hext by (intros z Hz; apply Fa in Hz; lia). reflexivity.
    + assert (Hm : mem x (y :: b') = false).
      { apply mem_false. intros [E|Hin]; [lia|]. apply Fb in Hin. lia. }
      rewrite Hm. apply IHa. constructor; auto. apply Forall_forall. auto.
Qed.

Lemma length_filter_zero (p : nat -> bool) l :
  (length (filter p l) =? 0) = forallb (fun x => negb (p x)) l.
Proof. induction l; cbn [filter forallb]; [reflexivity|]. destruct (p a); cbn [length negb andb]; auto. Qed.

Lemma length_filter_full (p : nat -> bool) l : (length (filter p l) =? length l) = forallb p l.
Proof.
  induction l; cbn [filter forallb length]; [reflexivity|]. destruct (p a); cbn [length andb]; [exact IHl|].
  pose proof (filter_length_le p l). destruct (Nat.eqb_spec (length (filter p l)) (S (length l))); [lia|reflexivity].
Qed.

Lemma isize_disjoint a b : StronglySorted lt a -> StronglySorted lt b ->
  (isize a b =? 0) = disjointb a b.
Proof. intros Sa Sb. rewrite isize_filter by auto. apply length_filter_zero. Qed.

Lemma isize_subset a b : StronglySorted lt a -> StronglySorted lt b ->
  (isize a b =? length a) = subsetb a b.
Proof. intros Sa Sb. rewrite isize_filter by auto. apply length_filter_full. Qed.

(* every list the unranking returns is ascending and has k elements *)
Lemma ksubset_sorted k x : length (ksubset k x) = k /\ StronglySorted lt (ksubset k x).
Proof.
  unfold ksubset. destruct (unrank_some k x) as (l & E). rewrite E.
  destruct k as [|i].
  - cbn in E. inversion E. split; [reflexivity|constructor].
  - pose proof (binom_grow i x) as Hg.
    destruct (unrank_spec (S i) x l (S i + x) E ltac:(lia)) as (H1 & H2 & _). auto.
Qed.

(* ------------------------------------------------------------------ the Kneser graphs, set-theoretically *)
Theorem kneser_set_ok n k : builds (kneser n k) (binom n k) (kneser_set_def k).
Proof.
  destruct (kneser_ok n k) as (g & E & W & N & A). exists g. split; [exact E|]. split; [exact W|].
  split; [exact N|]. intros x y Hx Hy. rewrite A by auto. unfold kneser_def, kneser_set_def. f_equal.
  apply isize_disjoint; apply ksubset_sorted.
Qed.

Lemma isize_le_length a b : StronglySorted lt a -> StronglySorted lt b -> isize a b <= length a.
Proof. intros Sa Sb. rewrite isize_filter by auto. apply filter_length_le. Qed.

(* for ascending a, b: the intersection is all of the smaller list iff one list contains the other *)
Lemma isize_min_contains a b : StronglySorted lt a -> StronglySorted lt b ->
  (isize a b =? Nat.min (length a) (length b)) = subsetb a b || subsetb b a.
Proof.
  intros Sa Sb. rewrite <- (isize_subset a b Sa Sb), <- (isize_subset b a Sb Sa), (isize_sym b a).
  pose proof (isize_le_length a b Sa Sb) as H1. pose proof (isize_le_length b a Sb Sa) as H2.
  rewrite (isize_sym b a) in H2.
  destruct (Nat.eqb_spec (isize a b) (Nat.min (length a) (length b))),
    (Nat.eqb_spec (isize a b) (length a)), (Nat.eqb_spec (isize a b) (length b)); cbn [orb]; auto; lia.
Qed.

Theorem bipartite_kneser_set_ok n k : k <= n ->
  builds (bipartite_kneser n k) (binom n k + binom n k) (bikneser_set_def n k (binom n k)).
Proof.
  intros Hk. destruct (bipartite_kneser_ok n k Hk) as (g & E & W & N & A). exists g.
  split; [exact E|]. split; [exact W|]. split; [exact N|]. intros x y Hx Hy. rewrite A by auto.
  unfold bikneser_def, bikneser_set_def.
  assert (Hs : forall a b, (isize (ksubset k a) (ksubset (n - k) b) =? Nat.min k (n - k)) =
     subsetb (ksubset k a) (ksubset (n - k) b) || subsetb (ksubset (n - k) b) (ksubset k a)).
  { intros a b. rewrite <- isize_min_contains by apply ksubset_sorted.
    rewrite (proj1 (ksubset_sorted k a)), (proj1 (ksubset_sorted (n - k) b)). reflexivity. }
  rewrite !Hs. reflexivity.
Qed.

(* ------------------------------------------------------------------ every k-subset is a vertex *)
Lemma unrank_S i m : exists c, binom c (S i) <= m /\ m < binom (S c) (S i) /\
  unrank (S i) m = (do rest <- unrank i (m - binom c (S i)); Some (rest ++ [c])).
Proof.
  cbn [unrank]. destruct (unrank_walk_some i m (S (S m)) 0 0) as ([l' p'] & E); [lia|lia|].
  rewrite Nat.add_0_r in E. rewrite E. cbn [fst snd].
  apply unrank_walk_spec in E. destruct E as (H1 & H2 & H3).
  assert (Hp : p' = binom (l' - 1) (S i) /\ binom (l' - 1) (S i) <= m).
  { destruct H3 as [[-> ->]|(_ & H4 & H5)]; [|auto].
    replace (S i - 1) with i by lia. rewrite binom_gt by lia. lia. }
  destruct Hp as [-> Hle]. exists (l' - 1). replace (S (l' - 1)) with l' by lia. auto.
Qed.

Lemma sorted_snoc_inv l x : StronglySorted lt (l ++ [x]) -> StronglySorted lt l /\ Forall (fun y => y < x) l.
Proof.
  induction l as [|h t IH]; cbn [app]; intros S; [split; constructor|].
  inversion S as [|? ? S' F]; subst. destruct (IH S') as [I1 I2]. rewrite Forall_forall in F.
  split; [constructor; auto; apply Forall_forall; intros y Hy; apply F; apply in_or_app; auto|].
  constructor; [apply F; apply in_or_app; right; left; auto|exact I2].
Qed.

Lemma crank_bound c : forall B, StronglySorted lt c -> Forall (fun x => x < B) c ->
  crank c < binom B (length c).
Proof.
  induction c as [|top rest IH] using rev_ind; intros B S F.
  - cbn. rewrite binom_0_r. lia.
  - apply sorted_snoc_inv in S. destruct S as [S1 S2].
    apply Forall_app in F. destruct F as [_ F]. inversion F; subst.
    unfold crank in *. rewrite crank_from_app, app_length. cbn [length Nat.add].
    replace (length rest + 1) with (S (length rest)) by lia.
    specialize (IH top S1 S2). pose proof (binom_mono (S (length rest)) (S top) B ltac:(lia)) as Hm.
    rewrite binom_S in Hm. lia.
Qed.

(* the unranking inverts the colex rank on ascending lists *)
Theorem unrank_crank c : StronglySorted lt c -> unrank (length c) (crank c) = Some c.
Proof.
  induction c as [|top rest IH] using rev_ind; intros S; [reflexivity|].
  apply sorted_snoc_inv in S. destruct S as [S1 S2].
  rewrite app_length. cbn [length]. replace (length rest + 1) with (S (length rest)) by lia.
  set (i := length rest). unfold crank. rewrite crank_from_app. cbn [Nat.add]. fold (crank rest). fold i.
  pose proof (crank_bound rest top S1 S2) as Hb. fold i in Hb.
  destruct (unrank_S i (crank rest + binom top (S i))) as (c & H1 & H2 & E). rewrite E.
  assert (c = top).
  { destruct (Nat.lt_trichotomy c top) as [H|[H|H]]; [|auto|].
    - pose proof (binom_mono (S i) (S c) top ltac:(lia)). lia.
    - pose proof (binom_mono (S i) (S top) c ltac:(lia)) as Hm. rewrite binom_S in Hm. lia. }
  subst c. replace (crank rest + binom top (S i) - binom top (S i)) with (crank rest) by lia.
  unfold i. rewrite (IH S1). reflexivity.
Qed.

(* every ascending list of k numbers below n is the subset of exactly one vertex x < C(n,k) *)
Corollary ksubset_surj n c : StronglySorted lt c -> Forall (fun x => x < n) c ->
  crank c < binom n (length c) /\ ksubset (length c) (crank c) = c.
Proof.
  intros S F. split; [apply crank_bound; auto|]. unfold ksubset. rewrite unrank_crank by auto. reflexivity.
Qed.
