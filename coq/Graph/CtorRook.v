(* C06: RookGraph(n, m) = LineGraphDense(CompletePartiteGraph(n, m)): vertex c*n + r is the cell
   in row r and column c of the n x m board; two cells are adjacent iff they share the row or
   the column. *)
From Coq Require Import List ZArith Arith Bool Lia ZifyNat ZifyBool.
From Mamba Require Import Graph.Model Graph.Tri Graph.Lists Graph.Abstract Graph.CtorModel Graph.CtorSpec
  Graph.CtorDense Graph.CtorFill Graph.CtorPartite Graph.CtorLine Graph.CtorLineDef.
Import ListNotations.

Lemma filter_none (p : nat -> bool) l : (forall x, In x l -> p x = false) -> filter p l = [].
Proof.
  induction l; intros H; [reflexivity|]. cbn [filter]. rewrite (H a) by (left; auto).
  apply IHl. intros. apply H. right. auto.
Qed.

Lemma filter_all' (p : nat -> bool) l : (forall x, In x l -> p x = true) -> filter p l = l.
Proof.
  induction l; intros H; [reflexivity|]. cbn [filter]. rewrite (H a) by (left; auto).
  f_equal. apply IHl. intros. apply H. right. auto.
Qed.

Lemma nth_map_seq' {B} (f : nat -> B) n r d : r < n -> nth r (map f (seq 0 n)) d = f r.
Proof.
  intros H. rewrite (nth_indep _ d (f 0)) by (rewrite map_length, seq_length; lia).
  rewrite (map_nth f), seq_nth by lia. reflexivity.
Qed.

(* the rows of the board, one per column *)
Definition board (n m s : nat) : list (nat * nat) :=
  flat_map (fun c => map (fun x => (x, c)) (seq 0 n)) (seq s m).

Lemma board_length n m s : length (board n m s) = n * m.
Proof.
  unfold board. revert s. induction m; intros s; cbn [seq flat_map length]; [lia|].
  rewrite app_length, map_length, seq_length, IHm. lia.
Qed.

Lemma board_nth n m : forall s c r, r < n -> c < m ->
  nth (c * n + r) (board n m s) (0, 0) = (r, s + c).
Proof.
  unfold board. induction m; intros s c r Hr Hc; [lia|]. cbn [seq flat_map].
  destruct c as [|c].
  - rewrite app_nth1 by (rewrite map_length, seq_length; lia). cbn [Nat.mul Nat.add].
    rewrite nth_map_seq' by lia. f_equal; lia.
  - rewrite app_nth2 by (rewrite map_length, seq_length; lia). rewrite map_length, seq_length.
    replace (S c * n + r - n) with (c * n + r) by lia. rewrite IHm by lia. f_equal. lia.
Qed.

Lemma flat_map_nil {A B} (f : A -> list B) l : (forall x, In x l -> f x = []) -> flat_map f l = [].
Proof.
  induction l; intros H; [reflexivity|]. cbn [flat_map]. rewrite (H a) by (left; auto).
  apply IHl. intros. apply H. right. auto.
Qed.

Lemma flat_map_ext_in {A B} (f g : A -> list B) l : (forall x, In x l -> f x = g x) -> flat_map f l = flat_map g l.
Proof.
  induction l; intros H; [reflexivity|]. cbn [flat_map]. rewrite (H a) by (left; auto).
  f_equal. apply IHl. intros. apply H. right. auto.
Qed.

(* the edge list of K_{n,m} *)
Lemma bipartite_edge_list a n m : an a = n + m ->
  (forall x y, x < y -> y < n + m -> adj a x y = (x <? n) && (n <=? y)) ->
  edge_list a = board n m n.
Proof.
  intros Hn Ha. unfold edge_list, edges_upto. rewrite Hn.
  assert (E0 : edge_row a (n + m) 0 = []) by reflexivity. rewrite E0, app_nil_r.
  rewrite seq_app, flat_map_app. cbn [Nat.add].
  rewrite flat_map_nil.
  2:{ intros y Hy. apply in_seq in Hy. unfold edge_row. rewrite filter_none; [reflexivity|].
      intros x Hx. apply in_seq in Hx. rewrite Ha by lia.
      destruct (Nat.leb_spec n y); [lia|]. apply andb_false_r. }
  cbn [app]. unfold board. apply flat_map_ext_in. intros y Hy. apply in_seq in Hy.
  unfold edge_row. f_equal.
  assert (Hy' : seq 0 y = seq 0 n ++ seq n (y - n)) by (rewrite <- seq_app; f_equal; lia).
  rewrite Hy', filter_app.
  rewrite filter_all', filter_none; [apply app_nil_r| |].
  - intros x Hx. apply in_seq in Hx. rewrite Ha by lia.
    destruct (Nat.ltb_spec x n), (Nat.leb_spec n y); try lia; reflexivity.
  - intros x Hx. apply in_seq in Hx. rewrite Ha by lia.
    destruct (Nat.ltb_spec x n), (Nat.leb_spec n y); try lia; reflexivity.
Qed.

Ltac Zify.zify_post_hook ::= Z.div_mod_to_equations.

Theorem rook_ok n m : builds (rook n m) (n * m) (rook_def n).
Proof.
  unfold rook, builds. destruct (complete_partite_ok [n; m]) as (g & E & W & N & A). rewrite E.
  assert (N' : dn g = n + m) by (rewrite N; cbn; lia).
  destruct (line_graph_def (GD g) (dabs g) (awf_dabs g) (dwf_grep g W)) as (h & Eh & Wh & Nh & _ & Ah).
  assert (El : edge_list (dabs g) = board n m n).
  { apply bipartite_edge_list; [exact N'|]. intros x y Hxy Hy. cbn [adj dabs].
    rewrite A by (rewrite list_sum_cons, list_sum_cons, list_sum_nil; lia).
    unfold partite_def. cbn [part_of].
    destruct (Nat.ltb_spec x n), (Nat.ltb_spec y n), (Nat.leb_spec n y); try lia; cbn [andb];
      repeat match goal with |- context [Nat.ltb ?u ?v] => destruct (Nat.ltb_spec u v) end;
      try lia; reflexivity. }
  rewrite El, board_length in Nh.
  exists h. split; [exact Eh|]. split; [exact Wh|]. split; [exact Nh|].
  intros p q Hp Hq. rewrite Ah by lia. rewrite El. unfold line_def, rook_def. f_equal.
  assert (Hn : 0 < n) by (destruct n; [lia|lia]).
  assert (Dp : p = p / n * n + p mod n) by (pose proof (Nat.div_mod p n); lia).
  assert (Dq : q = q / n * n + q mod n) by (pose proof (Nat.div_mod q n); lia).
  assert (Mp : p mod n < n) by (apply Nat.mod_upper_bound; lia).
  assert (Mq : q mod n < n) by (apply Nat.mod_upper_bound; lia).
  assert (Cp : p / n < m) by (apply Nat.div_lt_upper_bound; lia).
  assert (Cq : q / n < m) by (apply Nat.div_lt_upper_bound; lia).
  rewrite Dp at 1. rewrite Dq at 1. rewrite !board_nth by auto. unfold share. cbn [fst snd].
  clear Dp Dq Cp Cq Hp Hq Ah.
  generalize dependent (p mod n). generalize dependent (q mod n).
  generalize dependent (p / n). generalize dependent (q / n). intros cq cp rq Mq rp Mp.
  destruct (Nat.eqb_spec rp rq), (Nat.eqb_spec rp (n + cq)),
    (Nat.eqb_spec (n + cp) rq), (Nat.eqb_spec (n + cp) (n + cq)),
    (Nat.eqb_spec cp cq); cbn; try reflexivity; lia.
Qed.
