(* SparseGraph refines the abstract graph: the relation Rs, the observers, AddEdge, RemoveEdge,
   AddVertex, RemoveVertex (with the renumbering loop), Copy.  InducedSubgraph is in
   SparseInduced.v. *)
From Coq Require Import List ZArith Arith Bool Lia Sorted.
From Mamba Require Import Graph.Model Graph.Lists Graph.Abstract Graph.Dense Graph.SparseLists.
Import ListNotations.

(* g represents a: cached counts in step and the neighbour list of every vertex is the ascending
   list of its neighbours *)
Record Rs (g : sparse) (a : agraph) : Prop := mkRs {
  rs_wf : awf a;
  rs_n : sn g = an a;
  rs_m : sm g = a_M a;
  rs_deglen : length (sdeg g) = an a;
  rs_deg : forall v, v < an a -> nth v (sdeg g) 0%Z = a_deg a v;
  rs_nbrlen : length (snbr g) = an a;
  rs_nbr : forall v, v < an a -> nth v (snbr g) [] = a_neighbours a v }.

Lemma Rs_ext g a b : Rs g a -> aeq a b -> Rs g b.
Proof.
  intros R E. pose proof E as [E1 E2]. destruct R. constructor.
  - eapply aeq_awf; eauto.
  - congruence.
  - rewrite <- (aeq_M a b E). auto.
  - congruence.
  - intros v Hv. rewrite <- (aeq_deg a b v E). apply rs_deg0. lia.
  - congruence.
  - intros v Hv. rewrite <- (aeq_neighbours a b v E). apply rs_nbr0. lia.
Qed.

(* the ascending list with the members adj a v is the neighbour list of v *)
Lemma nbr_eq a v l : awf a -> ss l -> (forall u, In u l <-> adj a v u = true) -> l = a_neighbours a v.
Proof.
  intros W S H. apply filter_seq_eq; auto. intros u. rewrite H. split; [|tauto].
  intros E. split; auto. eapply awf_dom2; eauto.
Qed.

Lemma nth_error_list {A} (l : list (list A)) i : i < length l -> nth_error l i = Some (nth i l []).
Proof. revert i; induction l; destruct i; simpl; intros; try lia; auto. apply IHl; lia. Qed.

Lemma nth_upd_list {A} (l : list (list A)) i j v : i < length l ->
  nth j (upd l i v) [] = if j =? i then v else nth j l [].
Proof. apply nth_upd. Qed.

(* ---------------------------------------------------------------- observers *)
Lemma s_neighbours_ok g a v : Rs g a -> v < an a -> s_neighbours g v = Some (a_neighbours a v).
Proof.
  intros R Hv. unfold s_neighbours. rewrite nth_error_list by (rewrite (rs_nbrlen g a R); auto).
  rewrite (rs_nbr g a R); auto.
Qed.

Lemma s_is_edge_ok g a i j : Rs g a -> i < an a -> j < an a -> s_is_edge g i j = Some (adj a i j).
Proof.
  intros R Hi Hj. pose proof (rs_wf g a R) as W. unfold s_is_edge.
  rewrite !(nth_error_nth_lt _ _ 0%Z) by (rewrite (rs_deglen g a R); auto).
  destruct (_ <? _)%Z.
  - rewrite nth_error_list by (rewrite (rs_nbrlen g a R); auto). rewrite (rs_nbr g a R) by auto.
    f_equal. destruct (adj a i j) eqn:E.
    + apply contains_spec; [apply a_neighbours_sorted|]. apply a_neighbours_in; auto.
    + destruct (contains (a_neighbours a i) j) eqn:C; auto.
      apply contains_spec in C; [|apply a_neighbours_sorted]. apply a_neighbours_in in C; auto.
      congruence.
  - rewrite nth_error_list by (rewrite (rs_nbrlen g a R); auto). rewrite (rs_nbr g a R) by auto.
    f_equal. rewrite (awf_sym a W i j). destruct (adj a j i) eqn:E.
    + apply contains_spec; [apply a_neighbours_sorted|]. apply a_neighbours_in; auto.
    + destruct (contains (a_neighbours a j) i) eqn:C; auto.
      apply contains_spec in C; [|apply a_neighbours_sorted]. apply a_neighbours_in in C; auto.
      congruence.
Qed.

Lemma s_degrees_ok g a : Rs g a -> s_degrees g = a_degrees a.
Proof.
  intros R. unfold s_degrees. apply list_Z_ext.
  - rewrite a_degrees_length. apply (rs_deglen g a R).
  - intros k Hk. rewrite (rs_deglen g a R) in Hk. rewrite a_degrees_nth by auto.
    apply (rs_deg g a R); auto.
Qed.

(* ---------------------------------------------------------------- empty graph, Copy *)
Lemma nth_repeat_nil {A} k n : nth k (repeat (@nil A) n) [] = [].
Proof. revert k; induction n; destruct k; simpl; auto. Qed.

Lemma Rs_empty n : Rs (s_empty n) (a_empty n).
Proof.
  constructor; simpl.
  - apply awf_empty.
  - reflexivity.
  - rewrite a_M_empty. reflexivity.
  - apply repeat_length.
  - intros. rewrite nth_repeat0, a_deg_empty. reflexivity.
  - apply repeat_length.
  - intros. rewrite nth_repeat_nil. unfold a_neighbours. simpl.
    induction (seq 0 n); simpl; auto.
Qed.

Lemma Rs_copy g a : Rs g a -> Rs (s_copy g) a.
Proof. auto. Qed.

(* ---------------------------------------------------------------- AddEdge *)
Lemma s_add_edge_ok g a i j : Rs g a -> i < an a -> j < an a ->
  exists g', s_add_edge g i j = Some g' /\ Rs g' (a_add_edge a i j).
Proof.
  intros R Hi Hj. pose proof (rs_wf g a R) as W. unfold s_add_edge.
  pose proof (rs_nbrlen g a R) as Hnl. pose proof (rs_deglen g a R) as Hdl.
  destruct (Nat.eqb_spec i j) as [->|Hne].
  { exists g. split; auto. eapply Rs_ext; eauto. apply aeq_sym, aeq_add_edge_same. }
  rewrite (s_is_edge_ok g a) by auto.
  destruct (adj a i j) eqn:He.
  { exists g. split; auto. eapply Rs_ext; eauto. apply aeq_sym, aeq_add_edge_present; auto. }
  rewrite nth_error_list by lia. rewrite nth_error_list by (rewrite upd_length; lia).
  rewrite nth_upd_list by lia. destruct (Nat.eqb_spec j i); [congruence|].
  destruct (modify2 (sdeg g) i j 1) as (l1 & l2 & E1 & E2 & Hl & Hn); try lia.
  rewrite E1, E2. eexists. split; [reflexivity|].
  assert (W' : awf (a_add_edge a i j)) by (apply awf_add_edge; auto).
  constructor; simpl; auto.
  - apply (rs_n g a R).
  - rewrite M_add_edge by auto. rewrite (rs_m g a R). reflexivity.
  - lia.
  - intros v Hv. rewrite Hn, (rs_deg g a R), deg_add_edge by auto. lia.
  - rewrite !upd_length. auto.
  - intros v Hv. rewrite !nth_upd_list by (rewrite ?upd_length; lia).
    rewrite !(rs_nbr g a R) by auto.
    apply nbr_eq; auto.
    + destruct (v =? j); [|destruct (v =? i)]; try apply si_add_ss; apply a_neighbours_sorted.
    + intros u. cbn [adj a_add_edge].
      destruct (Nat.eqb_spec v j) as [->|Hvj]; [|destruct (Nat.eqb_spec v i) as [->|Hvi]];
        rewrite ?si_add_in, a_neighbours_in by auto;
        destruct (Nat.eqb_spec i j); try congruence; simpl.
      * destruct (Nat.eqb_spec j i); [congruence|]. simpl.
        destruct (Nat.eqb_spec u i); subst; rewrite ?orb_true_r, ?orb_false_r; intuition.
      * destruct (Nat.eqb_spec i j); [congruence|]. rewrite orb_false_r.
        destruct (Nat.eqb_spec u j); subst; rewrite ?orb_true_r, ?orb_false_r; intuition.
      * rewrite orb_false_r. tauto.
Qed.

(* ---------------------------------------------------------------- RemoveEdge *)
Lemma s_remove_edge_ok g a i j : Rs g a -> i < an a -> j < an a ->
  exists g', s_remove_edge g i j = Some g' /\ Rs g' (a_remove_edge a i j).
Proof.
  intros R Hi Hj. pose proof (rs_wf g a R) as W. unfold s_remove_edge.
  pose proof (rs_nbrlen g a R) as Hnl. pose proof (rs_deglen g a R) as Hdl.
  destruct (Nat.eqb_spec i j) as [->|Hne].
  { exists g. split; auto. eapply Rs_ext; eauto. apply aeq_sym, aeq_remove_edge_absent; auto.
    apply (awf_irr a W). }
  rewrite (s_is_edge_ok g a) by auto.
  destruct (adj a i j) eqn:He; simpl.
  2:{ exists g. split; auto. eapply Rs_ext; eauto. apply aeq_sym, aeq_remove_edge_absent; auto. }
  rewrite nth_error_list by lia. rewrite nth_error_list by (rewrite upd_length; lia).
  rewrite nth_upd_list by lia. destruct (Nat.eqb_spec j i); [congruence|].
  destruct (modify2 (sdeg g) i j (-1)) as (l1 & l2 & E1 & E2 & Hl & Hn); try lia.
  rewrite E1, E2. eexists. split; [reflexivity|].
  assert (W' : awf (a_remove_edge a i j)) by (apply awf_remove_edge; auto).
  constructor; simpl; auto.
  - apply (rs_n g a R).
  - rewrite M_remove_edge by auto. rewrite (rs_m g a R). reflexivity.
  - lia.
  - intros v Hv. rewrite Hn, (rs_deg g a R), deg_remove_edge by auto. lia.
  - rewrite !upd_length. auto.
  - intros v Hv. rewrite !nth_upd_list by (rewrite ?upd_length; lia).
    rewrite !(rs_nbr g a R) by auto.
    apply nbr_eq; auto.
    + destruct (v =? j); [|destruct (v =? i)]; try apply si_remove_ss; apply a_neighbours_sorted.
    + intros u. cbn [adj a_remove_edge].
      destruct (Nat.eqb_spec v j) as [->|Hvj]; [|destruct (Nat.eqb_spec v i) as [->|Hvi]];
        rewrite ?si_remove_in, a_neighbours_in by (auto; apply a_neighbours_sorted); simpl.
      * destruct (Nat.eqb_spec j i); [congruence|]. simpl.
        destruct (Nat.eqb_spec u i); subst; simpl; rewrite ?andb_true_r, ?andb_false_r;
          intuition congruence.
      * destruct (Nat.eqb_spec i j); [congruence|]. rewrite orb_false_r.
        destruct (Nat.eqb_spec u j); subst; simpl; rewrite ?andb_true_r, ?andb_false_r;
          intuition congruence.
      * rewrite andb_true_r. tauto.
Qed.

(* ---------------------------------------------------------------- AddVertex *)
Lemma s_add_vertex_ok g a nbrs : Rs g a -> NoDup nbrs -> (forall x, In x nbrs -> x < an a) ->
  exists g', s_add_vertex g nbrs = Some g' /\ Rs g' (a_add_vertex a nbrs).
Proof.
  intros R Hnd Hlt. pose proof (rs_wf g a R) as W. unfold s_add_vertex.
  pose proof (rs_nbrlen g a R) as Hnl. pose proof (rs_deglen g a R) as Hdl.
  rewrite (rs_n g a R). set (n := an a) in *. set (tmp := new_sorted_ints nbrs).
  assert (Tss : ss tmp) by apply new_sorted_ints_ss.
  assert (Tin : forall y, In y tmp <-> In y nbrs) by apply new_sorted_ints_in.
  assert (Tlen : length tmp = length nbrs) by (apply new_sorted_ints_length; auto).
  pose (I := fun (p : list nat) (st : list (list nat) * list Z) =>
    length (fst st) = n /\ length (snd st) = n /\
    (forall x, x < n -> nth x (fst st) [] = nth x (snbr g) [] ++ (if mem x p then [n] else [])) /\
    (forall x, x < n -> nth x (snd st) 0%Z = (nth x (sdeg g) 0 + b2z (mem x p))%Z)).
  destruct (foldM_list_inv I
     (fun (st : list (list nat) * list Z) v =>
        let (nbr, deg) := st in
        do nv <- nth_error nbr v;
        do deg' <- modify deg v 1;
        Some (upd nbr v (nv ++ [S n - 1]), deg'))
     tmp [] (snbr g, sdeg g)) as (st & E & HI).
  { unfold I. simpl. repeat split; auto.
    - intros. rewrite app_nil_r. reflexivity.
    - intros. lia. }
  { intros p x q [nbr deg] Hp _ (I1 & I2 & I3 & I4). simpl in *.
    assert (Hx : x < n) by (apply Hlt, Tin; rewrite Hp; apply in_elt).
    assert (Hxp : ~ In x p).
    { pose proof (ss_NoDup tmp Tss) as Hn. rewrite Hp in Hn. apply NoDup_remove_2 in Hn.
      intros H. apply Hn. apply in_or_app. auto. }
    rewrite nth_error_list by lia. rewrite modify_some by lia.
    eexists. split; [reflexivity|]. unfold I. simpl.
    rewrite !upd_length. repeat split; auto.
    - intros y Hy. rewrite nth_upd_list by lia. rewrite mem_app, mem_single.
      destruct (Nat.eqb_spec y x).
      + subst. rewrite I3 by auto. apply mem_false in Hxp. rewrite Hxp. simpl.
        rewrite app_nil_r. replace (n - 0) with n by lia. reflexivity.
      + rewrite orb_false_r. auto.
    - intros y Hy. rewrite nth_upd by lia. rewrite mem_app, mem_single.
      destruct (Nat.eqb_spec y x).
      + subst. rewrite I4 by auto. apply mem_false in Hxp. rewrite Hxp. simpl. lia.
      + rewrite orb_false_r. auto. }
  cbn [app] in HI. rewrite E. destruct st as [nbr deg]. destruct HI as (I1 & I2 & I3 & I4).
  simpl in I1, I2, I3, I4.
  eexists. split; [reflexivity|].
  assert (W' : awf (a_add_vertex a nbrs)) by (apply awf_add_vertex; auto).
  assert (Hmem : forall x, mem x tmp = mem x nbrs).
  { intros x. destruct (mem x nbrs) eqn:E1.
    - apply mem_true. apply Tin. apply mem_true. auto.
    - apply mem_false. rewrite Tin. apply mem_false. auto. }
  constructor; simpl; auto.
  - rewrite M_add_vertex by auto. rewrite (rs_m g a R), Tlen. reflexivity.
  - rewrite app_length. simpl. lia.
  - intros v Hv. rewrite deg_add_vertex by (auto; lia). fold n.
    destruct (Nat.eqb_spec v n).
    + subst v. rewrite app_nth2 by lia. rewrite I2, Nat.sub_diag. reflexivity.
    + rewrite app_nth1 by lia. rewrite I4 by lia. rewrite (rs_deg g a R) by (fold n; lia).
      rewrite Hmem. reflexivity.
  - rewrite app_length. simpl. lia.
  - intros v Hv. fold n in Hv. destruct (Nat.eq_dec v n) as [->|Hne].
    + rewrite app_nth2 by lia. rewrite I1, Nat.sub_diag. simpl.
      apply nbr_eq; auto. intros u. rewrite Tin. cbn [adj a_add_vertex]. fold n.
      rewrite Nat.eqb_refl. destruct (Nat.eqb_spec u n).
      * subst. rewrite Nat.ltb_irrefl. simpl. split; [|discriminate].
        intros H. apply Hlt in H. fold n in H. lia.
      * rewrite andb_true_iff, Nat.ltb_lt, mem_true. split; [|tauto].
        intros H. split; auto; apply Hlt; auto.
    + rewrite app_nth1 by lia. rewrite I3 by lia. rewrite (rs_nbr g a R) by (fold n; lia).
      apply nbr_eq; auto.
      * destruct (mem v tmp); [|rewrite app_nil_r; apply a_neighbours_sorted].
        apply ss_snoc; [apply a_neighbours_sorted|].
        intros y Hy. apply a_neighbours_in in Hy; auto. eapply awf_dom2; eauto.
      * intros u. rewrite in_app_iff, a_neighbours_in by auto. cbn [adj a_add_vertex]. fold n.
        rewrite Hmem. destruct (Nat.eqb_spec u n).
        -- subst u. rewrite awf_out2 by (auto; fold n; lia).
           destruct (Nat.ltb_spec v n); [|lia]. simpl.
           destruct (mem v nbrs); simpl; intuition; discriminate.
        -- destruct (Nat.eqb_spec v n); [lia|].
           destruct (mem v nbrs); simpl; intuition lia.
Qed.

(* ---------------------------------------------------------------- RemoveVertex *)
Lemma s_remove_vertex_ok g a i : Rs g a -> i < an a ->
  exists g', s_remove_vertex g i = Some g' /\ Rs g' (a_remove_vertex a i).
Proof.
  intros R Hi. pose proof (rs_wf g a R) as W. unfold s_remove_vertex.
  pose proof (rs_nbrlen g a R) as Hnl. pose proof (rs_deglen g a R) as Hdl.
  rewrite (rs_n g a R). set (n := an a) in *.
  rewrite (nth_error_nth_lt _ _ 0%Z) by lia. rewrite nth_error_list by lia.
  rewrite (rs_nbr g a R) by auto. rewrite (rs_deg g a R) by auto.
  set (ni := a_neighbours a i).
  assert (Nss : ss ni) by apply a_neighbours_sorted.
  assert (Nin : forall u, In u ni <-> adj a i u = true) by (intros; apply a_neighbours_in; auto).
  pose (I := fun (p : list nat) (st : list (list nat) * list Z) =>
    length (fst st) = n /\ length (snd st) = n /\
    (forall x, x < n -> nth x (fst st) [] =
        if mem x p then si_remove (nth x (snbr g) []) i else nth x (snbr g) []) /\
    (forall x, x < n -> nth x (snd st) 0%Z = (nth x (sdeg g) 0 - b2z (mem x p))%Z)).
  destruct (foldM_list_inv I
     (fun (st : list (list nat) * list Z) v =>
        let (nbr, deg) := st in
        do nv <- nth_error nbr v;
        do deg' <- modify deg v (-1);
        Some (upd nbr v (si_remove nv i), deg'))
     ni [] (snbr g, sdeg g)) as (st & E & HI).
  { unfold I. simpl. repeat split; auto. intros. lia. }
  { intros p x q [nbr deg] Hp _ (I1 & I2 & I3 & I4). simpl in *.
    assert (Hx : x < n).
    { assert (In x ni) by (rewrite Hp; apply in_elt). apply Nin in H. eapply awf_dom2; eauto. }
    assert (Hxp : ~ In x p).
    { pose proof (ss_NoDup ni Nss) as Hn. rewrite Hp in Hn. apply NoDup_remove_2 in Hn.
      intros H. apply Hn. apply in_or_app. auto. }
    rewrite nth_error_list by lia. rewrite modify_some by lia.
    eexists. split; [reflexivity|]. unfold I. simpl.
    rewrite !upd_length. repeat split; auto.
    - intros y Hy. rewrite nth_upd_list by lia. rewrite mem_app, mem_single.
      destruct (Nat.eqb_spec y x).
      + subst. rewrite I3 by auto. apply mem_false in Hxp. rewrite Hxp. simpl. reflexivity.
      + rewrite orb_false_r. auto.
    - intros y Hy. rewrite nth_upd by lia. rewrite mem_app, mem_single.
      destruct (Nat.eqb_spec y x).
      + subst. rewrite I4 by auto. apply mem_false in Hxp. rewrite Hxp. simpl. lia.
      + rewrite orb_false_r. auto. }
  cbn [app] in HI. rewrite E. destruct st as [nbr deg]. destruct HI as (I1 & I2 & I3 & I4).
  simpl in I1, I2, I3, I4.
  eexists. split; [reflexivity|].
  assert (W' : awf (a_remove_vertex a i)) by (apply awf_remove_vertex; auto).
  assert (Hmem : forall x, mem x ni = adj a x i).
  { intros x. rewrite (awf_sym a W x i). destruct (adj a i x) eqn:E1.
    - apply mem_true. apply Nin. auto.
    - apply mem_false. rewrite Nin. congruence. }
  assert (Hnbr : forall x, x < n -> nth x nbr [] = si_remove (a_neighbours a x) i).
  { intros x Hx. rewrite I3 by auto. rewrite (rs_nbr g a R) by auto. rewrite Hmem.
    destruct (adj a x i) eqn:E1; auto. symmetry. apply si_remove_absent.
    - apply a_neighbours_sorted.
    - rewrite a_neighbours_in by auto. congruence. }
  constructor; simpl; auto.
  - rewrite M_remove_vertex by auto. rewrite (rs_m g a R). reflexivity.
  - rewrite remove_at_length by lia. fold n. lia.
  - intros x Hx. fold n in Hx. rewrite nth_remove_at by lia.
    assert (up i x < n) by (unfold up; destruct (Nat.ltb_spec x i); lia).
    rewrite I4 by auto. rewrite deg_remove_vertex by auto. rewrite (rs_deg g a R) by auto.
    rewrite Hmem. reflexivity.
  - rewrite map_length, remove_at_length by lia. fold n. lia.
  - intros x Hx. fold n in Hx.
    assert (Hux : up i x < n) by (unfold up; destruct (Nat.ltb_spec x i); lia).
    change (@nil nat) with (renumber i []) at 1. rewrite map_nth.
    rewrite nth_remove_at by lia. rewrite Hnbr by auto.
    assert (Sr : ss (si_remove (a_neighbours a (up i x)) i))
      by (apply si_remove_ss, a_neighbours_sorted).
    assert (Ni : ~ In i (si_remove (a_neighbours a (up i x)) i)).
    { rewrite si_remove_in by apply a_neighbours_sorted. tauto. }
    destruct (renumber_spec i _ Sr Ni) as [S1 S2].
    apply nbr_eq; auto. intros y. rewrite S2.
    rewrite si_remove_in by apply a_neighbours_sorted. rewrite a_neighbours_in by auto.
    cbn [adj a_remove_vertex]. fold n.
    destruct (Nat.ltb_spec x (n - 1)); [|lia]. simpl.
    assert (up i y <> i) by (unfold up; destruct (Nat.ltb_spec y i); lia).
    destruct (Nat.ltb_spec y (n - 1)); simpl; [tauto|].
    split; [|discriminate]. intros [K1 _]. apply (awf_dom2 a _ _ W) in K1. fold n in K1.
    unfold up in K1. destruct (Nat.ltb_spec y i); lia.
Qed.
