(* Model of the constructors, named families, transformations, views and decoders of package
   graph (graph_dense.go NewDense, graph_sparse.go NewSparse, generating.go, transformation.go,
   subgraph.go InducedSubgraph view, encoding.go PruferDecode / MulticodeDecode), as they are
   written in /repo now.  DEFINITIONS ONLY.  Built on Graph/Model.v (the records [dense],
   [sparse], the packed index [tri j + i], AddEdge etc. of C05).

   Conventions (as in Graph/Model.v): vertices, sizes and indices are nat; bytes, degrees and
   edge counts are Z; a Go panic is None.  Sizes are assumed to fit an int (no overflow of
   n(n-1)/2, 1<<dim, C(n,k)); parameters that are ints in Go and must be non-negative for the
   call not to panic in make() are nat here (a negative n is outside every accepted domain).
   Loops are structural recursion; the only fuel is in [unrank_walk], where running out of
   fuel is None. *)
From Coq Require Import List ZArith Arith Bool.
From Mamba Require Import Graph.Model.
Import ListNotations.

Definition zeros (k : nat) : list Z := repeat 0%Z k.

Fixpoint mapM {A B} (f : A -> option B) (l : list A) : option (list B) :=
  match l with
  | [] => Some []
  | x :: t => do y <- f x; do r <- mapM f t; Some (y :: r)
  end.

Definition zlist_sum (l : list Z) : Z := fold_right Z.add 0%Z l.

(* ------------------------------------------------------------------ NewDense *)
(* the counting loop: index runs through the cells in the order 01 02 12 03 ... *)
Definition nd_cell (edges : list Z) (j : nat) (st : list Z * Z * nat) (i : nat)
  : option (list Z * Z * nat) :=
  let '(deg, m, index) := st in
  do b <- nth_error edges index;
  if (0 <? b)%Z then
    do d1 <- modify deg i 1;
    do d2 <- modify d1 j 1;
    Some (d2, (m + 1)%Z, S index)
  else Some (deg, m, S index).

Definition nd_count (n : nat) (edges : list Z) : option (list Z * Z * nat) :=
  foldM (fun st j => foldM (nd_cell edges j) (seq 0 j) st) (seq 0 n) (zeros n, 0%Z, O).

(* NewDense(n, edges); [None] as argument is the nil slice.  The result holds a copy of the
   caller's bytes: in this functional model the copy is the same list (the aliasing clause is
   about the heap and is modelled separately in CtorAlias.v). *)
Definition new_dense (n : nat) (edges : option (list Z)) : option dense :=
  match edges with
  | None => Some (d_empty n)
  | Some e =>
    if length e =? tri n then
      do st <- nd_count n e;
      let '(deg, m, _) := st in
      Some (mkDense n m deg e (length e))
    else None
  end.

(* ------------------------------------------------------------------ NewSparse *)
Definition new_sparse (n : nat) (nb : option (list (list nat))) : option sparse :=
  let nb' := match nb with None => repeat [] n | Some l => l end in
  if length nb' =? n then
    let tmp := map new_sorted_ints nb' in
    let deg := map (fun l => Z.of_nat (length l)) tmp in
    Some (mkSparse n (zlist_sum deg / 2) tmp deg)
  else None.

(* ------------------------------------------------------------------ constructors that fill the struct by hand *)
Definition complete_graph (n : nat) : option dense :=
  Some (mkDense n (Z.of_nat (tri n)) (repeat (Z.of_nat n - 1)%Z n) (repeat 1%Z (tri n)) (tri n)).

(* one part of CompletePartiteGraph: state (edges, degrees, m, start) *)
Definition partite_part (n : nat) (st : list Z * list Z * Z * nat) (v : nat)
  : option (list Z * list Z * Z * nat) :=
  let '(edges, deg, m, start) := st in
  let en := start + v in
  do deg' <- foldM (fun d i => set_nth d i (Z.of_nat n - Z.of_nat v)%Z) (seq start v) deg;
  do em <- foldM (fun st k =>
                    foldM (fun (st : list Z * Z) j =>
                             let (e, m) := st in
                             do e' <- set_nth e (tri k + j) 1%Z; Some (e', (m + 1)%Z))
                          (seq start v) st)
                 (seq en (n - en)) (edges, m);
  Some (fst em, deg', snd em, en).

Definition complete_partite (nums : list nat) : option dense :=
  let n := list_sum nums in
  do st <- foldM (partite_part n) nums (zeros (tri n), zeros n, 0%Z, O);
  let '(edges, deg, m, _) := st in
  Some (mkDense n m deg edges (tri n)).

(* for i := 0; i < n-1; i++ { edges[((i+1)*i)/2+i] = 1 } *)
Definition path_edges (n : nat) : option (list Z) :=
  foldM (fun e i => set_nth e (tri (S i) + i) 1%Z) (seq 0 (n - 1)) (zeros (tri n)).

Definition path (n : nat) : option dense :=
  do edges <- path_edges n;
  if 1 <? n then
    do d1 <- set_nth (zeros n) 0 1%Z;
    do d2 <- set_nth d1 (n - 1) 1%Z;
    do d3 <- foldM (fun d i => set_nth d i 2%Z) (seq 1 (n - 2)) d2;
    Some (mkDense n (Z.of_nat n - 1) d3 edges (tri n))
  else Some (mkDense n 0 (zeros n) edges (tri n)).

Definition cycle (n : nat) : option dense :=
  if n <? 3 then None else
  do e1 <- path_edges n;
  do e2 <- set_nth e1 (tri (n - 1)) 1%Z;
  Some (mkDense n (Z.of_nat n) (repeat 2%Z n) e2 (tri n)).

Definition star (n : nat) : option dense :=
  do edges <- foldM (fun e i => set_nth e (tri i) 1%Z) (seq 1 (n - 1)) (zeros (tri n));
  if 0 <? n then
    do d1 <- set_nth (zeros n) 0 (Z.of_nat n - 1)%Z;
    do d2 <- foldM (fun d i => set_nth d i 1%Z) (seq 1 (n - 1)) d1;
    Some (mkDense n (Z.of_nat n - 1) d2 edges (tri n))
  else Some (mkDense n 0 (zeros n) edges (tri n)).

(* FlowerSnark: cells written by index, then NewDense *)
Definition flower_block (n : nat) (e : list Z) (i : nat) : option (list Z) :=
  let a := 4 * i in let b := a + 1 in let c := a + 2 in let d := a + 3 in
  do e1 <- set_nth e (tri b + a) 1%Z;
  do e2 <- set_nth e1 (tri c + a) 1%Z;
  do e3 <- set_nth e2 (tri d + a) 1%Z;
  if i <? n - 1 then
    do e4 <- set_nth e3 (tri (b + 4) + b) 1%Z;
    do e5 <- set_nth e4 (tri (c + 4) + c) 1%Z;
    set_nth e5 (tri (d + 4) + d) 1%Z
  else
    do e4 <- set_nth e3 (tri b + 1) 1%Z;
    do e5 <- set_nth e4 (tri c + 3) 1%Z;
    set_nth e5 (tri d + 2) 1%Z.

Definition flower_snark (n : nat) : option dense :=
  if Nat.even n then None else
  do edges <- foldM (flower_block n) (seq 0 n) (zeros (tri (4 * n)));
  new_dense (4 * n) (Some edges).

(* ------------------------------------------------------------------ families built with NewDense(n, nil) + AddEdge *)
Definition add_edges (g : dense) (es : list (nat * nat)) : option dense :=
  foldM (fun g (e : nat * nat) => d_add_edge g (fst e) (snd e)) es g.

Definition hypercube_pairs (dim : nat) : list (nat * nat) :=
  flat_map (fun i => map (fun j => (i, Nat.lxor i (2 ^ j))) (seq 0 dim)) (seq 0 (2 ^ dim)).

Definition hypercube (dim : nat) : option dense :=
  add_edges (d_empty (2 ^ dim)) (hypercube_pairs dim).

(* for i := 0; i < 1<<uint(dim-2); i++ { g.AddEdge(i, mask&^i) }: for dim = 1 the shift count
   uint(-1) is huge and the bound is 0 *)
Definition folded_pairs (dim : nat) : list (nat * nat) :=
  let mask := 2 ^ (dim - 1) - 1 in
  map (fun i => (i, Nat.ldiff mask i)) (seq 0 (if dim <? 2 then 0 else 2 ^ (dim - 2))).

Definition folded_hypercube (dim : nat) : option dense :=
  if dim <? 1 then None else
  do g <- hypercube (dim - 1);
  add_edges g (folded_pairs dim).

(* comb.Coeff and comb.Unrank without their overflow machinery (C16 proves that machinery
   correct in the int range): Pascal's rule, and the greedy colex unranking as it is written *)
Fixpoint binom (n k : nat) : nat :=
  match n, k with
  | _, O => 1
  | O, S _ => 0
  | S n', S k' => binom n' k' + binom n' k
  end.

(* for b <= m { prev = b; l++; b = C(l, i+1) }: returns (l, prev) *)
Fixpoint unrank_walk (fuel l i m prev : nat) : option (nat * nat) :=
  match fuel with
  | O => None
  | S f => if binom l (S i) <=? m then unrank_walk f (S l) i m (binom l (S i)) else Some (l, prev)
  end.

Fixpoint unrank (k m : nat) : option (list nat) :=
  match k with
  | O => Some []
  | S i =>
    do lp <- unrank_walk (S (S m)) (S i) i m 0;
    do rest <- unrank i (m - snd lp);
    Some (rest ++ [fst lp - 1])
  end.

(* sortints.IntersectionSize *)
Fixpoint isize (a : list nat) : list nat -> nat :=
  fix inner (b : list nat) : nat :=
    match a, b with
    | [], _ => 0
    | _, [] => 0
    | x :: a', y :: b' =>
      if x =? y then S (isize a' b') else if y <? x then inner b' else isize a' b
    end.

Definition kneser_pairs (us : list (list nat)) : list (nat * nat) :=
  flat_map (fun i => flat_map (fun j =>
      if isize (nth i us []) (nth j us []) =? 0 then [(i, j)] else [])
    (seq i (length us - i))) (seq 0 (length us)).

Definition kneser (n k : nat) : option dense :=
  let N := binom n k in
  do us <- mapM (unrank k) (seq 0 N);
  add_edges (d_empty N) (kneser_pairs us).

(* sm is `smaller` = min(k, n-k): one set contains the other iff the intersection is all of the smaller *)
Definition bikneser_pairs (sm : nat) (us vs : list (list nat)) : list (nat * nat) :=
  flat_map (fun i => flat_map (fun j =>
      if isize (nth i us []) (nth j vs []) =? sm then [(i, length us + j)] else [])
    (seq 0 (length us))) (seq 0 (length us)).

Definition bipartite_kneser (n k : nat) : option dense :=
  let N := binom n k in
  if n <? k then Some (d_empty 0) (* C(n,k) = 0: no loop body runs *) else
  do us <- mapM (unrank k) (seq 0 N);
  do vs <- mapM (unrank (n - k)) (seq 0 N);
  add_edges (d_empty (N + N)) (bikneser_pairs (Nat.min k (n - k)) us vs).

(* (i + v) % n, plus n when negative: Go's % truncates *)
Definition circ_target (i : nat) (v : Z) (n : nat) : nat :=
  let t := Z.rem (Z.of_nat i + v) (Z.of_nat n) in
  Z.to_nat (if (t <? 0)%Z then t + Z.of_nat n else t)%Z.

Definition circulant_pairs (n : nat) (diffs : list Z) : list (nat * nat) :=
  flat_map (fun i => map (fun v => (i, circ_target i v n)) diffs) (seq 0 n).

Definition circulant (n : nat) (diffs : list Z) : option dense :=
  add_edges (d_empty n) (circulant_pairs n diffs).

Definition circbip_pairs (n m : nat) (diffs : list Z) : list (nat * nat) :=
  flat_map (fun i => map (fun v => (i, n + circ_target i v m)) diffs) (seq 0 n).

(* the remainder by m = 0 panics as soon as the loop body runs *)
Definition circulant_bipartite (n m : nat) (diffs : list Z) : option dense :=
  if (m =? 0) && negb (n =? 0) && negb (length diffs =? 0) then None else
  add_edges (d_empty (n + m)) (circbip_pairs n m diffs).

Definition petersen_pairs (n k : nat) : list (nat * nat) :=
  flat_map (fun i => [(i, (i + 1) mod n); (i, n + i); (n + i, n + (i + k) mod n)]) (seq 0 n).

Definition generalised_petersen (n k : nat) : option dense :=
  if n <? 3 then None else
  if (n - 1) / 2 <? k then None else
  add_edges (d_empty (2 * n)) (petersen_pairs n k).

Definition friendship_pairs (n : nat) : list (nat * nat) :=
  flat_map (fun i => [(2 * i + 1, 2 * i + 2); (0, 2 * i + 1); (0, 2 * i + 2)]) (seq 0 n).

Definition friendship (n : nat) : option dense :=
  add_edges (d_empty (2 * n + 1)) (friendship_pairs n).

(* RandomGraph: [draw k] is the outcome of the k-th test r.Float64() < p *)
Definition lower_pairs (n : nat) : list (nat * nat) :=
  flat_map (fun i => map (fun j => (i, j)) (seq 0 i)) (seq 0 n).

Definition random_pairs (n : nat) (draw : nat -> bool) : list (nat * nat) :=
  map snd (filter (fun ke : nat * (nat * nat) => draw (fst ke))
                  (combine (seq 0 (length (lower_pairs n))) (lower_pairs n))).

Definition random_graph (n : nat) (draw : nat -> bool) : option dense :=
  add_edges (d_empty n) (random_pairs n draw).

(* ------------------------------------------------------------------ PruferDecode, RandomTree *)
Fixpoint first_one (deg : list Z) (j : nat) : option nat :=
  match deg with
  | [] => None
  | d :: t => if (d =? 1)%Z then Some j else first_one t (S j)
  end.

Definition prufer_step (st : list Z * list Z) (v : nat) : option (list Z * list Z) :=
  let (edges, deg) := st in
  match first_one deg 0 with
  | None => Some (edges, deg)
  | Some j =>
    do e <- set_nth edges (if v <? j then tri j + v else tri v + j) 1%Z;
    do d1 <- modify deg j (-1);
    do d2 <- modify d1 v (-1);
    Some (e, d2)
  end.

Definition prufer_decode (p : list nat) : option dense :=
  let n := length p + 2 in
  do deg0 <- foldM (fun d v => modify d v 1) p (repeat 1%Z n);
  do st <- foldM prufer_step p (zeros (tri n), deg0);
  let (edges, deg) := st in
  do edges' <- match first_one deg 0 with
               | None => Some edges
               | Some i => match first_one (skipn (S i) deg) (S i) with
                           | None => Some edges
                           | Some j => set_nth edges (tri j + i) 1%Z
                           end
               end;
  new_dense n (Some edges').

(* RandomTree: [draw k] is the outcome of the k-th r.Intn(n) *)
Definition random_tree (n : nat) (draw : nat -> nat) : option dense :=
  if n <? 2 then None else prufer_decode (map draw (seq 0 (n - 2))).

(* ------------------------------------------------------------------ MulticodeDecode *)
Definition multicode_byte (st : list Z * list Z * Z * nat) (b : Z)
  : option (list Z * list Z * Z * nat) :=
  let '(edges, deg, m, cv) := st in
  if (b =? 0)%Z then Some (edges, deg, m, S cv) else
  let u := Z.to_nat b - 1 in
  do e <- set_nth edges (tri u + cv) 1%Z;
  do d1 <- modify deg u 1;
  do d2 <- modify d1 cv 1;
  Some (e, d2, (m + 1)%Z, cv).

Definition multicode_decode (s : list Z) : option dense :=
  match s with
  | [] => None
  | b0 :: rest =>
    let n := Z.to_nat b0 in
    do st <- foldM multicode_byte rest (zeros (tri n), zeros n, 0%Z, O);
    let '(edges, deg, m, cv) := st in
    if (0 <? n) && negb (cv =? n - 1) then None
    else Some (mkDense n m deg edges (tri n))
  end.

(* ------------------------------------------------------------------ values of the Graph interface *)
(* sortints.Complement(n, a): state (i, n - i) *)
Fixpoint compl_go (a : list nat) : nat -> nat -> list nat :=
  fix inner (i k : nat) : list nat :=
    match k with
    | O => []
    | S k' =>
      match a with
      | [] => i :: inner (S i) k'
      | x :: a' =>
        if x <? i then compl_go a' i k
        else if i =? x then compl_go a' (S i) k'
        else i :: inner (S i) k'
      end
    end.

(* the capacity n-len(a) is clamped at 0 (a may hold elements outside {0..n-1}): no panic *)
Definition si_complement (n : nat) (a : list nat) : option (list nat) := Some (compl_go a 0 n).

Inductive gval :=
| GD (g : dense)                                              (* *DenseGraph *)
| GS (g : sparse)                                             (* *SparseGraph *)
| GC (g : gval)                                               (* complement{g} *)
| GI (verts : list nat) (sorted : list (nat * nat)) (g : gval). (* inducedSubgraph{verts, sortedV, indices, g} *)

(* InducedSubgraph(g, V) *)
Definition induced_view (g : gval) (V : list nat) : gval := GI V (ints_sort V) g.

Fixpoint g_N (g : gval) : nat :=
  match g with
  | GD d => dn d
  | GS s => sn s
  | GC h => g_N h
  | GI V _ _ => length V
  end.

Fixpoint g_neighbours (g : gval) (v : nat) : option (list nat) :=
  match g with
  | GD d => d_neighbours d v
  | GS s => s_neighbours s v
  | GC h =>
    do nb <- g_neighbours h v;
    do c <- si_complement (g_N h) nb;
    Some (si_remove c v)
  | GI V srt h =>
    do x <- nth_error V v;
    do nb <- g_neighbours h x;
    Some (inter_by_index nb srt [])
  end.

Fixpoint g_degrees (g : gval) : option (list Z) :=
  match g with
  | GD d => Some (d_degrees d)
  | GS s => Some (s_degrees s)
  | GC h => do ds <- g_degrees h; Some (map (fun d => Z.of_nat (g_N h) - 1 - d)%Z ds)
  | GI V srt h =>
    mapM (fun v => do nb <- g_neighbours h v; Some (Z.of_nat (isize nb (map fst srt)))) V
  end.

Fixpoint g_M (g : gval) : option Z :=
  match g with
  | GD d => Some (d_M d)
  | GS s => Some (s_M s)
  | GC h => do m <- g_M h; Some (Z.of_nat (tri (g_N h)) - m)%Z
  | GI V srt h => do ds <- g_degrees (GI V srt h); Some (zlist_sum ds / 2)%Z
  end.

Fixpoint g_is_edge (g : gval) (i j : nat) : option bool :=
  match g with
  | GD d => d_is_edge d i j
  | GS s => s_is_edge s i j
  | GC h => if i =? j then Some false else do b <- g_is_edge h i j; Some (negb b)
  | GI V _ h => do x <- nth_error V i; do y <- nth_error V j; g_is_edge h x y
  end.

(* ------------------------------------------------------------------ transformations over the Graph interface *)
Definition complement_dense (g : gval) : option dense :=
  let n := g_N g in
  do m0 <- g_M g;
  do old <- g_degrees g;
  do deg <- mapM (fun i => do d <- nth_error old i; Some (Z.of_nat n - 1 - d)%Z) (seq 0 n);
  do st <- foldM (fun st i =>
                    foldM (fun (st : list Z * nat) j =>
                             let (e, index) := st in
                             do b <- g_is_edge g i j;
                             if b then Some (e, S index)
                             else do e' <- set_nth e index 1%Z; Some (e', S index))
                          (seq 0 i) st)
                 (seq 1 (n - 1)) (zeros (tri n), O);
  Some (mkDense n (Z.of_nat (tri n) - m0) deg (fst st) (tri n)).

(* the three inner loops of LineGraphDense for the new edge (i,j) with index mIndex *)
Definition line_lower (i mIndex : nat) (lower : list nat) (e : list Z) : option (list Z) :=
  foldM (fun e (kv : nat * nat) =>
           if i =? snd kv then set_nth e (tri mIndex + fst kv) 1%Z else Some e)
        (combine (seq 0 (length lower)) lower) e.

Fixpoint line_upper (i mIndex : nat) (kvs : list (nat * nat)) (e : list Z) : option (list Z) :=
  match kvs with
  | [] => Some e
  | (k, v) :: t =>
    if i =? v then do e' <- set_nth e (tri mIndex + k) 1%Z; line_upper i mIndex t e'
    else if i <? v then Some e
    else line_upper i mIndex t e
  end.

Fixpoint line_back (j mIndex : nat) (kvs : list (nat * nat)) (e : list Z) : option (list Z) :=
  match kvs with
  | [] => Some e
  | (k, v) :: t =>
    if v =? j then do e' <- set_nth e (tri mIndex + k) 1%Z; line_back j mIndex t e'
    else Some e
  end.

Definition line_cell (g : gval) (j : nat) (st : list Z * list nat * list nat * nat) (i : nat)
  : option (list Z * list nat * list nat * nat) :=
  let '(e, lower, upper, mIndex) := st in
  do b <- g_is_edge g i j;
  if b then
    let iu := combine (seq 0 (length upper)) upper in
    do e1 <- line_lower i mIndex lower e;
    do e2 <- line_upper i mIndex iu e1;
    do e3 <- line_back j mIndex (rev iu) e2;
    Some (e3, lower ++ [i], upper ++ [j], S mIndex)
  else Some st.

Definition line_graph (g : gval) : option dense :=
  do mz <- g_M g;
  if (mz <? 0)%Z then None else
  let m := Z.to_nat mz in
  do st <- foldM (fun st j => foldM (line_cell g j) (seq 0 j) st) (seq 0 (g_N g))
                 (zeros (tri m), [], [], O);
  let '(e, _, _, _) := st in
  new_dense m (Some e).

Definition rook (n m : nat) : option dense :=
  do g <- complete_partite [n; m];
  line_graph (GD g).

(* ------------------------------------------------------------------ SplitEdge, Contract on an EditableGraph *)
Inductive egraph := ED (g : dense) | ES (g : sparse).

Definition e_val (g : egraph) : gval := match g with ED d => GD d | ES s => GS s end.

Definition e_lift (d : option dense) : option egraph := do x <- d; Some (ED x).
Definition e_lifts (s : option sparse) : option egraph := do x <- s; Some (ES x).

Definition e_add_edge (g : egraph) (i j : nat) : option egraph :=
  match g with ED d => e_lift (d_add_edge d i j) | ES s => e_lifts (s_add_edge s i j) end.
Definition e_remove_edge (g : egraph) (i j : nat) : option egraph :=
  match g with ED d => e_lift (d_remove_edge d i j) | ES s => e_lifts (s_remove_edge s i j) end.
Definition e_add_vertex (g : egraph) (nb : list nat) : option egraph :=
  match g with ED d => e_lift (d_add_vertex d nb) | ES s => e_lifts (s_add_vertex s nb) end.
Definition e_remove_vertex (g : egraph) (v : nat) : option egraph :=
  match g with ED d => e_lift (d_remove_vertex d v) | ES s => e_lifts (s_remove_vertex s v) end.

Definition split_edge (g : egraph) (i j : nat) : option egraph :=
  if i =? j then None else
  do g1 <- e_remove_edge g i j;
  e_add_vertex g1 [i; j].

Definition contract (g : egraph) (i j : nat) : option egraph :=
  do nb <- g_neighbours (e_val g) j;
  do g1 <- foldM (fun g v => e_add_edge g i v) nb g;
  e_remove_vertex g1 j.

(* the input graphs of the correspondence runs *)
Definition sparse_of_edges (n : nat) (es : list (nat * nat)) : option sparse :=
  foldM (fun g (e : nat * nat) => s_add_edge g (fst e) (snd e)) es (s_empty n).

(* ------------------------------------------------------------------ the aliasing clause: slices live in a heap *)
(* A heap is a list of buffers, addressed by position.  A DenseGraph value holds the address of
   the buffer its Edges slice points into; NewDense reads the caller's buffer [src] and, as the
   code is written now (copyOfEdges := make; copy), allocates a fresh buffer for the graph. *)
Definition heap := list (list Z).

Record hdense := mkH { hn : nat; hm : Z; hdeg : list Z; haddr : nat }.

Definition h_new_dense (H : heap) (n src : nat) : option (heap * hdense) :=
  do e <- nth_error H src;
  if length e =? tri n then
    do st <- nd_count n e;
    let '(deg, m, _) := st in
    Some (H ++ [e], mkH n m deg (length H))
  else None.

(* the DenseGraph as the observers see it in heap H *)
Definition h_view (H : heap) (g : hdense) : option dense :=
  do e <- nth_error H (haddr g); Some (mkDense (hn g) (hm g) (hdeg g) e (length e)).

(* the caller executes buf[k] = v on the buffer at address a *)
Definition h_write (H : heap) (a k : nat) (v : Z) : heap :=
  match nth_error H a with
  | Some e => upd H a (upd e k v)
  | None => H
  end.

(* NewSparse: the caller passes the addresses of its inner slices (as nat lists in a second
   heap); sortints.NewSortedInts copies each of them into a fresh buffer *)
Definition nheap := list (list nat).

Record hsparse := mkHS { hsn : nat; hsm : Z; hsaddr : list nat; hsdeg : list Z }.

Definition h_new_sparse (H : nheap) (n : nat) (srcs : list nat) : option (nheap * hsparse) :=
  if length srcs =? n then
    do ls <- mapM (nth_error H) srcs;
    let tmp := map new_sorted_ints ls in
    let deg := map (fun l => Z.of_nat (length l)) tmp in
    Some (H ++ tmp, mkHS n (zlist_sum deg / 2) (seq (length H) n) deg)
  else None.

Definition hs_view (H : nheap) (g : hsparse) : option sparse :=
  do nb <- mapM (nth_error H) (hsaddr g); Some (mkSparse (hsn g) (hsm g) nb (hsdeg g)).

Definition hn_write (H : nheap) (a k v : nat) : nheap :=
  match nth_error H a with
  | Some e => upd H a (upd e k v)
  | None => H
  end.
