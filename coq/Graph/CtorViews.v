(* C06: the complement view and ComplementDense, over any well-formed value of the Graph
   interface (dense, sparse or another view). *)
From Coq Require Import List ZArith Arith Bool Lia Sorted.
From Mamba Require Import Graph.Model Graph.Tri Graph.Lists Graph.Abstract Graph.CtorModel Graph.CtorSpec Graph.CtorDense Graph.CtorFill.
Import ListNotations.

(* ------------------------------------------------------------------ sorted lists of vertices *)
Lemma sorted_seq i k : StronglySorted lt (seq i k).
Proof.
  revert i. induction k; intros i; cbn [seq]; constructor; auto.
  apply Forall_forall. intros x Hx. apply in_seq in Hx. lia.
Qed.

Lemma sorted_filter (p : nat -> bool) l : StronglySorted lt l -> StronglySorted lt (filter p l).
Proof.
  induction 1 as [|h t Hs IH Hf]; cbn [filter]; [constructor|].
  destruct (p h); auto. constructor; auto.
  apply Forall_forall. intros x Hx. apply filter_In in Hx. destruct Hx as [Hx _].
  rewrite Forall_forall in Hf. auto.
Qed.

Lemma filter_all (p : nat -> bool) l : (forall x, In x l -> p x = true) -> filter p l = l.
Proof.
  induction l; cbn [filter]; intros H; [reflexivity|].
  rewrite (H a) by (left; auto). f_equal. apply IHl. intros. apply H. right. auto.
Qed.

(* SortedInts.Remove on an ascending list *)
Lemma si_remove_sorted l v : StronglySorted lt l ->
  si_remove l v = filter (fun u => negb (u =? v)) l.
Proof.
  induction 1 as [|h t Hs IH Hf]; [reflexivity|].
  rewrite Forall_forall in Hf. unfold si_remove, contains. cbn [search filter].
  destruct (Nat.leb_spec v h).
  - cbn [nth_error]. destruct (Nat.eqb_spec h v) as [->|Hne]; cbn [negb].
    + unfold remove_at. cbn [firstn skipn app]. symmetry. apply filter_all.
      intros x Hx. apply Hf in Hx. destruct (Nat.eqb_spec x v); [lia|reflexivity].
    + f_equal. symmetry. apply filter_all.
      intros x Hx. apply Hf in Hx. destruct (Nat.eqb_spec x v); [lia|reflexivity].
  - cbn [nth_error]. destruct (Nat.eqb_spec h v); [lia|]. cbn [negb].
    unfold si_remove, contains in IH.
    destruct (nth_error t (search t v)) as [y|] eqn:E.
    + destruct (y =? v).
      * unfold remove_at in *. cbn [firstn skipn app]. f_equal. exact IH.
      * f_equal. exact IH.
    + f_equal. exact IH.
Qed.

(* sortints.Complement of an ascending sublist of i..i+k-1 *)
Lemma compl_go_filter (p : nat -> bool) k : forall i,
  compl_go (filter p (seq i k)) i k = filter (fun u => negb (p u)) (seq i k).
Proof.
  induction k; intros i; [reflexivity|].
  cbn [seq filter]. destruct (p i) eqn:Ep; cbn [negb].
  - cbn [compl_go]. rewrite Nat.ltb_irrefl, Nat.eqb_refl. apply IHk.
  - specialize (IHk (S i)).
    destruct (filter p (seq (S i) k)) as [|x a'] eqn:Ef.
    + cbn [compl_go]. f_equal. exact IHk.
    + assert (Hx : S i <= x).
      { assert (Hin : In x (filter p (seq (S i) k))) by (rewrite Ef; left; auto).
        apply filter_In in Hin. destruct Hin as [Hin _]. apply in_seq in Hin. lia. }
      cbn [compl_go]. destruct (Nat.ltb_spec x i); [lia|]. destruct (Nat.eqb_spec i x); [lia|].
      f_equal. exact IHk.
Qed.

Lemma filter_length_le {A} (p : A -> bool) l : length (filter p l) <= length l.
Proof. induction l; cbn [filter length]; [lia|]. destruct (p a); cbn [length]; lia. Qed.

(* ------------------------------------------------------------------ counting in the complement *)
Lemma zsum_id n : zsum (fun j => Z.of_nat j) n = Z.of_nat (tri n).
Proof. induction n; cbn [zsum]; [rewrite tri_0; reflexivity|]. rewrite IHn, tri_S. lia. Qed.

Lemma awf_compl a : awf a -> awf (a_compl a).
Proof.
  intros W. constructor; cbn [adj an a_compl].
  - intros x y. rewrite (awf_sym a W y x), (Nat.eqb_sym y x), (andb_comm (y <? an a)). reflexivity.
  - intros x. rewrite Nat.eqb_refl. cbn. rewrite andb_false_r. reflexivity.
  - intros x y H. rewrite !andb_true_iff in H. destruct H as [[[H _] _] _]. apply Nat.ltb_lt. auto.
Qed.

Lemma compl_adj a x y : x < an a -> y < an a ->
  adj (a_compl a) x y = negb (x =? y) && negb (adj a x y).
Proof.
  intros Hx Hy. cbn [adj a_compl]. destruct (Nat.ltb_spec x (an a)), (Nat.ltb_spec y (an a)); try lia.
  reflexivity.
Qed.

Lemma compl_deg a v : awf a -> v < an a ->
  a_deg (a_compl a) v = (Z.of_nat (an a) - 1 - a_deg a v)%Z.
Proof.
  intros W Hv. unfold a_deg. cbn [an a_compl].
  rewrite (zsum_ext _ (fun u => 1 - ind u v - b2z (adj a v u))%Z).
  - rewrite !zsum_sub, zsum_const, zsum_ind_lt by auto. lia.
  - intros u Hu. rewrite compl_adj by auto. unfold ind. rewrite (Nat.eqb_sym u v).
    destruct (Nat.eqb_spec v u) as [->|]; cbn [negb andb b2z].
    + rewrite (awf_irr a W). reflexivity.
    + destruct (adj a v u); reflexivity.
Qed.

Lemma compl_M a : awf a -> a_M (a_compl a) = (Z.of_nat (tri (an a)) - a_M a)%Z.
Proof.
  intros W. unfold a_M. cbn [an a_compl].
  rewrite (zsum_ext _ (fun j => Z.of_nat j - zsum (fun i => b2z (adj a i j)) j)%Z).
  - rewrite zsum_sub, zsum_id. reflexivity.
  - intros j Hj. rewrite (zsum_ext _ (fun i => 1 - b2z (adj a i j))%Z).
    + rewrite zsum_sub, zsum_const. lia.
    + intros i Hi. rewrite compl_adj by lia. destruct (Nat.eqb_spec i j); [lia|].
      destruct (adj a i j); reflexivity.
Qed.

Lemma compl_degrees a : awf a ->
  a_degrees (a_compl a) = map (fun d => Z.of_nat (an a) - 1 - d)%Z (a_degrees a).
Proof.
  intros W. unfold a_degrees. cbn [an a_compl]. rewrite map_map. apply map_ext_in.
  intros v Hv. apply in_seq in Hv. apply compl_deg; auto. lia.
Qed.

Lemma filter_filter {A} (p q : A -> bool) l :
  filter p (filter q l) = filter (fun x => q x && p x) l.
Proof.
  induction l; cbn [filter]; [reflexivity|]. destruct (q a); cbn [filter andb]; [|exact IHl].
  destruct (p a); [f_equal|]; exact IHl.
Qed.

(* the complement view of a well-formed graph is well formed and shows the complement *)
Theorem compl_view_ok g a : awf a -> grep g a -> grep (GC g) (a_compl a).
Proof.
  intros W [H1 H2 H3 H4 H5]. constructor; cbn [g_N g_M g_degrees g_neighbours g_is_edge].
  - exact H1.
  - rewrite H2, H1, compl_M by auto. reflexivity.
  - rewrite H3, H1, compl_degrees by auto. reflexivity.
  - intros v Hv. cbn [an a_compl] in Hv. rewrite H4 by auto. rewrite H1.
    unfold si_complement.
    unfold a_neighbours at 1. rewrite compl_go_filter.
    rewrite si_remove_sorted by (apply sorted_filter, sorted_seq).
    f_equal. rewrite filter_filter. unfold a_neighbours. cbn [an adj a_compl].
    apply filter_ext_in. intros u Hu. apply in_seq in Hu.
    destruct (Nat.ltb_spec v (an a)), (Nat.ltb_spec u (an a)); try lia. cbn [andb].
    rewrite (Nat.eqb_sym u v). apply andb_comm.
  - intros i j Hi Hj. cbn [an a_compl] in Hi, Hj. rewrite compl_adj by auto.
    destruct (Nat.eqb_spec i j); [reflexivity|]. rewrite H5 by auto. reflexivity.
Qed.

Corollary compl_view_wf g : gwf g -> gwf (GC g).
Proof.
  intros (a & W & R). exists (a_compl a). split; [apply awf_compl; auto | apply compl_view_ok; auto].
Qed.

(* ------------------------------------------------------------------ ComplementDense *)
Lemma mapM_some {A B} (f : A -> option B) (h : A -> B) l :
  (forall x, In x l -> f x = Some (h x)) -> mapM f l = Some (map h l).
Proof.
  induction l; intros H; [reflexivity|]. cbn [mapM map].
  rewrite (H a) by (left; auto). rewrite IHl by (intros; apply H; right; auto). reflexivity.
Qed.

Definition cinv (a : agraph) (k : nat) (st : list Z * nat) : Prop :=
  let (e, index) := st in
  index = k /\ length e = tri (an a) /\
  forall x y, x < y -> y < an a ->
    nth (tri y + x) e 0%Z = if tri y + x <? k then b2z (negb (adj a x y)) else 0%Z.

Lemma compl_cell_step g a i j st : awf a -> grep g a -> j < i -> i < an a ->
  cinv a (tri i + j) st ->
  exists st',
    (let (e, index) := st in
     do b <- g_is_edge g i j;
     if b then Some (e, S index) else do e' <- set_nth e index 1%Z; Some (e', S index)) = Some st' /\
    cinv a (tri i + S j) st'.
Proof.
  intros W R Hj Hi. destruct st as [e index]. intros (-> & Le & Hc).
  rewrite (gr_edge g a R) by lia. rewrite (awf_sym a W i j).
  pose proof (tri_bound j i (an a) Hj Hi) as Hb.
  assert (Hstep : forall x y e', x < y -> y < an a ->
            (forall p, p <> tri i + j -> nth p e' 0%Z = nth p e 0%Z) ->
            nth (tri i + j) e' 0%Z = b2z (negb (adj a j i)) ->
            nth (tri y + x) e' 0%Z = if tri y + x <? tri i + S j then b2z (negb (adj a x y)) else 0%Z).
  { intros x y e' Hxy Hy Ho Hn.
    destruct (Nat.eq_dec (tri y + x) (tri i + j)) as [E|E].
    - rewrite E, Hn. apply tri_inj in E; auto. destruct E; subst.
      destruct (Nat.ltb_spec (tri i + j) (tri i + S j)); [reflexivity|lia].
    - rewrite Ho by auto. rewrite Hc by auto.
      destruct (Nat.ltb_spec (tri y + x) (tri i + j)), (Nat.ltb_spec (tri y + x) (tri i + S j)); auto; lia. }
  destruct (adj a j i) eqn:Ea.
  - eexists. split; [reflexivity|]. split; [lia|]. split; [exact Le|].
    intros x y Hxy Hy. apply Hstep; auto.
    specialize (Hc j i Hj Hi). rewrite Nat.ltb_irrefl in Hc. rewrite Hc. reflexivity.
  - rewrite set_nth_some by lia. eexists. split; [reflexivity|]. split; [lia|].
    split; [rewrite upd_length; exact Le|].
    intros x y Hxy Hy. apply Hstep; auto.
    + intros p Hp. apply nth_upd_other. auto.
    + rewrite nth_upd_same by lia. reflexivity.
Qed.

Theorem complement_dense_ok g a : awf a -> grep g a ->
  exists h, complement_dense g = Some h /\ dwf h /\ aeq (dabs h) (a_compl a).
Proof.
  intros W R. unfold complement_dense. pose proof R as [H1 H2 H3 H4 H5].
  rewrite H1, H2, H3.
  rewrite (mapM_some _ (fun i => Z.of_nat (an a) - 1 - a_deg a i)%Z).
  2:{ intros i Hi. apply in_seq in Hi.
      rewrite (nth_error_nth_lt _ _ 0%Z) by (rewrite a_degrees_length; lia).
      rewrite nth_a_degrees by lia. reflexivity. }
  set (n := an a).
  destruct (foldM_seq_inv (fun i st => cinv a (tri i) st)
              (fun st i => foldM (fun (st : list Z * nat) j =>
                             let (e, index) := st in
                             do b <- g_is_edge g i j;
                             if b then Some (e, S index)
                             else do e' <- set_nth e index 1%Z; Some (e', S index)) (seq 0 i) st)
              (n - 1) 1 (zeros (tri n), 0)) as ([e index] & E & HI).
  - assert (T1 : tri 1 = 0) by (rewrite tri_S, tri_0; reflexivity).
    split; [rewrite T1; reflexivity|]. split; [apply repeat_length|].
    intros x y _ _. rewrite nth_zeros, T1. destruct (Nat.ltb_spec (tri y + x) 0); [lia|reflexivity].
  - intros i st [Hi1 Hi2] HI.
    destruct (foldM_seq_inv (fun j st => cinv a (tri i + j) st)
                (fun (st : list Z * nat) j =>
                   let (e, index) := st in
                   do b <- g_is_edge g i j;
                   if b then Some (e, S index)
                   else do e' <- set_nth e index 1%Z; Some (e', S index)) i 0 st) as (st' & E' & HI').
    + rewrite Nat.add_0_r. exact HI.
    + intros j s [_ Hj] HK. cbn in Hj. apply compl_cell_step; auto. unfold n in *. lia.
    + exists st'. split; [exact E'|]. rewrite tri_S. exact HI'.
  - rewrite E. cbn [fst]. eexists. split; [reflexivity|].
    destruct HI as (_ & Le & Hc).
    set (h := mkDense n _ _ e (tri n)).
    assert (Eq : aeq (dabs h) (a_compl a)).
    { split; [reflexivity|]. intros x y. cbn [adj dabs a_compl]. fold n.
      assert (Hcell : forall x y, x < y -> y < n -> cell h (tri y + x) = negb (adj a x y)).
      { intros x0 y0 Hxy Hy. unfold cell. cbn [darr h]. rewrite Hc by auto.
        assert (tri y0 + x0 < tri (1 + (n - 1))).
        { replace (1 + (n - 1)) with n by lia. apply tri_bound; auto. }
        destruct (Nat.ltb_spec (tri y0 + x0) (tri (1 + (n - 1)))); [|lia].
        destruct (adj a x0 y0); reflexivity. }
      unfold dadj. cbn [dn h].
      destruct (Nat.ltb_spec x y).
      - destruct (Nat.ltb_spec y n); cbn [andb].
        + rewrite Hcell by auto. destruct (Nat.ltb_spec x n); [|lia].
          destruct (Nat.eqb_spec x y); [lia|]. reflexivity.
        + rewrite andb_false_r. reflexivity.
      - destruct (Nat.ltb_spec y x).
        + destruct (Nat.ltb_spec x n); cbn [andb]; [|reflexivity].
          rewrite Hcell by auto. destruct (Nat.ltb_spec y n); [|lia].
          destruct (Nat.eqb_spec x y); [lia|]. rewrite (awf_sym a W x y). reflexivity.
        + assert (x = y) by lia. subst. rewrite Nat.eqb_refl. cbn. rewrite andb_false_r. reflexivity. }
    split; [|exact Eq].
    constructor; cbn [dn dm ddeg darr dlen h].
    + reflexivity.
    + unfold n. lia.
    + rewrite (a_degrees_ext _ _ Eq). unfold a_degrees. cbn [an a_compl]. apply map_ext_in.
      intros v Hv. apply in_seq in Hv. symmetry. apply compl_deg; auto. lia.
    + rewrite (a_M_ext _ _ Eq), compl_M by auto. reflexivity.
Qed.
