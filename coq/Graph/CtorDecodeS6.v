(* C06, decoders: the SparseGraph that Sparse6Decode returns is well formed.

   C08's model of Sparse6Decode (Codec/Model.v: [s6_loop], [sparse6_decode]) keeps the graph under
   construction as an abstract edge list ([add_edge] = insertion into a sorted list) and proves
   Err or Ok (n, el) with 0 <= x < v < n for every (v, x) of el, strictly ascending, no panic.
   Here the SAME loop is run with the real value: g := NewSparse(int(n), nil), then
   g.AddEdge(v, x) in stream order, with C06's [new_sparse] and C05's [s_add_edge] (IsEdge test,
   two SortedInts.Add, degree and edge counters) -- [s6_loop_g], [sparse6_decode_graph].  A
   simulation shows that whenever C08's loop returns the edge list el, the graph-carrying loop
   returns (no panic) a SparseGraph g with  Rs g (aof n el):  the struct invariant holds and g's
   adjacency is exactly el.  With C08's totality theorem: on every byte string Sparse6Decode
   returns a well-formed SparseGraph -- &SparseGraph{} with an error, or a graph on the declared n.

   Codec.Model is required but not imported (its [tri], [len], [insert], [do] differ from
   Graph.Model's). *)
From Coq Require Import List ZArith Arith Bool Lia Sorted.
From Mamba Require Import Graph.Model Graph.Lists Graph.Abstract Graph.Dense Graph.SparseLists
  Graph.Sparse Graph.CtorModel Graph.CtorSpec Graph.CtorDense Graph.CtorSparse Graph.CtorEditRep Graph.CtorDecodeModel.
From Mamba Require Codec.Model Codec.G6Header Codec.TotalS6.
Import ListNotations.

Module CM := Mamba.Codec.Model.
Module CH := Mamba.Codec.G6Header.
Module CS := Mamba.Codec.TotalS6.

(* ------------------------------------------------------------------ the abstract graph of an edge list *)
Definition zpair (x y : nat) : Z * Z := (Z.of_nat (Nat.max x y), Z.of_nat (Nat.min x y)).
Definition memz (p : Z * Z) (el : list (Z * Z)) : bool := existsb (CM.pair_eq p) el.

(* x ~ y iff x <> y and the pair (max, min) is in el *)
Definition aof (N : nat) (el : list (Z * Z)) : agraph :=
  mkA N (fun x y => negb (x =? y) && (x <? N) && (y <? N) && memz (zpair x y) el).

Lemma zpair_sym x y : zpair x y = zpair y x.
Proof. unfold zpair. rewrite Nat.max_comm, Nat.min_comm. reflexivity. Qed.

Lemma awf_aof N el : awf (aof N el).
Proof.
  constructor; cbn [adj an aof].
  - intros x y. rewrite (zpair_sym x y), (Nat.eqb_sym x y).
    destruct (y =? x), (x <? N), (y <? N); reflexivity.
  - intros x. rewrite Nat.eqb_refl. reflexivity.
  - intros x y H. rewrite !andb_true_iff in H. destruct H as [[[_ H] _] _]. apply Nat.ltb_lt. exact H.
Qed.

Lemma pair_eq_true p q : CM.pair_eq p q = true <-> p = q.
Proof.
  unfold CM.pair_eq. rewrite andb_true_iff, !Z.eqb_eq. destruct p, q; cbn [fst snd].
  split; [intros [-> ->]; reflexivity|intros E; inversion E; auto].
Qed.

Lemma memz_insert p e l : memz p (CM.insert e l) = CM.pair_eq p e || memz p l.
Proof.
  unfold memz. induction l as [|h t IH]; cbn [CM.insert existsb].
  - reflexivity.
  - destruct (CM.pair_lt h e); [reflexivity|].
    destruct (CM.pair_eq e h) eqn:E.
    + apply pair_eq_true in E. subst h. cbn [existsb]. destruct (CM.pair_eq p e); reflexivity.
    + cbn [existsb]. rewrite IH. destruct (CM.pair_eq p h), (CM.pair_eq p e); reflexivity.
Qed.

Lemma memz_rev p l : memz p (rev l) = memz p l.
Proof.
  unfold memz. induction l as [|h t IH]; [reflexivity|]. cbn [rev existsb].
  rewrite existsb_app, IH. cbn [existsb]. rewrite orb_false_r. apply orb_comm.
Qed.

Lemma pair_eq_zpair x y v w : (0 <= v)%Z -> (0 <= w)%Z ->
  CM.pair_eq (zpair x y) (Z.max v w, Z.min v w) = pairb x y (Z.to_nat v) (Z.to_nat w).
Proof.
  intros Hv Hw. apply eq_iff_eq_true. rewrite pair_eq_true, pairb_true. unfold zpair. split.
  - intros E. inversion E. lia.
  - intros H. f_equal; lia.
Qed.

(* inserting the pair of v, w is AddEdge on the abstract graph *)
Lemma aof_insert N el v w : (0 <= v)%Z -> (0 <= w)%Z -> v <> w ->
  Z.to_nat v < N -> Z.to_nat w < N ->
  aeq (a_add_edge (aof N el) (Z.to_nat v) (Z.to_nat w)) (aof N (CM.insert (Z.max v w, Z.min v w) el)).
Proof.
  intros Hv Hw Hne Hi Hj. split; [reflexivity|]. intros x y. cbn [adj a_add_edge aof].
  rewrite memz_insert, pair_eq_zpair by assumption.
  set (i := Z.to_nat v) in *. set (j := Z.to_nat w) in *.
  assert (Hij : i <> j) by (unfold i, j; lia).
  destruct (Nat.eqb_spec i j); [contradiction|]. cbn [negb andb]. fold (pairb x y i j).
  destruct (pairb x y i j) eqn:P.
  - rewrite orb_true_r. cbn [orb]. apply pairb_true in P.
    destruct (Nat.eqb_spec x y); [lia|].
    destruct (Nat.ltb_spec x N); [|lia]. destruct (Nat.ltb_spec y N); [|lia]. reflexivity.
  - rewrite orb_false_r. reflexivity.
Qed.

(* ------------------------------------------------------------------ one AddEdge *)
Lemma s6_add_sim N g n el v x el1 : Rs g (aof N el) ->
  CM.add_edge n el v x = CM.Ok el1 -> (x <= v)%Z -> Z.to_nat v < N ->
  exists g1, s6_add g v x = CM.Ok g1 /\ Rs g1 (aof N el1).
Proof.
  intros R E Hxv HvN. unfold CM.add_edge in E. unfold s6_add.
  destruct (Z.eqb_spec v x) as [->|Hne].
  - inversion E; subst. exists g. auto.
  - destruct ((v <? 0) || (n <=? v) || (x <? 0) || (n <=? x))%Z eqn:Rg; [discriminate|].
    inversion E; subst el1. rewrite !orb_false_iff in Rg. destruct Rg as [[[H1 _] H3] _].
    apply Z.ltb_ge in H1, H3. rewrite (proj2 (Z.ltb_ge v 0) H1), (proj2 (Z.ltb_ge x 0) H3). cbn [orb].
    assert (HxN : Z.to_nat x < N) by lia.
    destruct (s_add_edge_ok g (aof N el) (Z.to_nat v) (Z.to_nat x) R HvN HxN) as (g1 & E1 & R1).
    rewrite E1. exists g1. split; [reflexivity|]. eapply Rs_ext; [exact R1|].
    apply aof_insert; auto.
Qed.

(* ------------------------------------------------------------------ the loop *)
Lemma s6_loop_sim N n : N = Z.to_nat (CM.s64 n) ->
  forall fuel s k numBits p v el g el',
  Rs g (aof N el) ->
  CM.s6_loop fuel s n k numBits p v el = CM.Ok el' ->
  exists g', s6_loop_g fuel s n k numBits p v g = CM.Ok g' /\ Rs g' (aof N el').
Proof.
  intros HN. induction fuel as [|f IH]; intros s k numBits p v el g el' R E.
  - cbn [CM.s6_loop s6_loop_g] in *. destruct (numBits - p <? Z.of_nat k + 1)%Z; [|discriminate].
    inversion E; subst. exists g. auto.
  - cbn [CM.s6_loop s6_loop_g] in *. destruct (numBits - p <? Z.of_nat k + 1)%Z.
    { inversion E; subst. exists g. auto. }
    destruct (CM.rd_bit s p) as [b| | |]; cbn [CM.bind] in *; try discriminate.
    destruct (CM.rd_num s k (p + 1) 0) as [[x p']| | |]; cbn [CM.bind] in *; try discriminate.
    set (v1 := if b then (v + 1)%Z else v) in *.
    destruct (Z.ltb_spec v1 x) as [Hlt|Hge]; [eapply IH; eauto|].
    destruct (Z.ltb_spec v1 (CM.s64 n)) as [Hn|Hn]; [|eapply IH; eauto].
    destruct (CM.add_edge n el v1 x) as [el1| | |] eqn:EA; cbn [CM.bind] in E; try discriminate.
    assert (Hv1 : Z.to_nat v1 < N \/ v1 = x).
    { destruct (Z.eq_dec v1 x); [right; auto|left].
      unfold CM.add_edge in EA. destruct (Z.eqb_spec v1 x); [contradiction|].
      destruct ((v1 <? 0) || (n <=? v1) || (x <? 0) || (n <=? x))%Z eqn:Rg; [discriminate|].
      rewrite !orb_false_iff in Rg. destruct Rg as [[[H1 _] _] _]. apply Z.ltb_ge in H1. lia. }
    destruct Hv1 as [Hv1|Hv1].
    + destruct (s6_add_sim N g n el v1 x el1 R EA Hge Hv1) as (g1 & E1 & R1).
      rewrite E1. cbn [CM.bind]. eapply IH; eauto.
    + (* v1 = x: AddEdge returns at once *)
      subst x. unfold CM.add_edge in EA. rewrite Z.eqb_refl in EA. inversion EA; subst el1.
      unfold s6_add. rewrite Z.eqb_refl. cbn [CM.bind]. eapply IH; eauto.
Qed.

(* ------------------------------------------------------------------ the whole decoder *)
Lemma sparse_zero_swf : swf sparse_zero.
Proof.
  constructor; cbn [sn sm snbr sdeg sparse_zero].
  - reflexivity.
  - intros x Hx. lia.
  - constructor; cbn [adj an sabs]; unfold sadj; cbn [sn sparse_zero]; intros; try reflexivity.
    cbn in H. discriminate.
  - reflexivity.
  - reflexivity.
Qed.

Lemma Rs_new_sparse_nil N : exists g0, new_sparse N None = Some g0 /\ Rs g0 (aof N []).
Proof.
  destruct (new_sparse_nil N) as (g0 & E & W & Hn & A). exists g0. split; [exact E|].
  eapply Rs_ext; [apply swf_Rs; exact W|]. split; [exact Hn|]. intros x y. rewrite A.
  cbn [adj aof memz existsb]. unfold memz. cbn [existsb]. rewrite andb_false_r. reflexivity.
Qed.

Lemma s64_small n : (0 <= n < 9223372036854775808)%Z -> CM.s64 n = n.
Proof. intros H. unfold CM.s64. destruct (Z.ltb_spec n 9223372036854775808); lia. Qed.

Lemma dec_size_bound s n i : forallb CM.in_range s = true -> s <> [] ->
  CM.dec_size false s = CM.Ok (n, i) -> (0 <= n < 68719476736)%Z.
Proof.
  intros Hr Hne E. apply CH.forallb_in_range in Hr.
  pose proof (CH.dec_size_refines false s Hr Hne) as H.
  destruct (Mamba.Codec.Spec.spec_read_N s) as [[n' r]|]; [|congruence].
  destruct H as [Hb H]. cbn [andb] in H. destruct H as (i' & E' & _). rewrite E in E'.
  inversion E'; subst. exact Hb.
Qed.

(* the loop has no error exit: an index out of range is Panic, not Err *)
Lemma at_noerr {A} (s : list A) i : CM.at_ s i <> CM.Err.
Proof. unfold CM.at_. destruct (i <? 0)%Z; [discriminate|]. destruct (nth_error s (Z.to_nat i)); discriminate. Qed.

Lemma rd_bit_noerr s p : CM.rd_bit s p <> CM.Err.
Proof.
  unfold CM.rd_bit. destruct (CM.at_ s (p / 6)) eqn:E; cbn [CM.bind]; try discriminate.
  exfalso. exact (at_noerr _ _ E).
Qed.

Lemma rd_num_noerr s k : forall p x, CM.rd_num s k p x <> CM.Err.
Proof.
  induction k as [|k IH]; intros p x; cbn [CM.rd_num]; [discriminate|].
  destruct (CM.rd_bit s p) eqn:E; cbn [CM.bind]; try discriminate; [apply IH|].
  exfalso. exact (rd_bit_noerr _ _ E).
Qed.

Lemma add_edge_noerr n el v x : CM.add_edge n el v x <> CM.Err.
Proof. unfold CM.add_edge. destruct (v =? x)%Z; [discriminate|]. destruct (_ || _)%bool; discriminate. Qed.

Lemma s6_loop_noerr fuel : forall s n k numBits p v el, CM.s6_loop fuel s n k numBits p v el <> CM.Err.
Proof.
  induction fuel as [|f IH]; intros s n k numBits p v el; cbn [CM.s6_loop].
  - destruct (_ <? _)%Z; discriminate.
  - destruct (_ <? _)%Z; [discriminate|].
    destruct (CM.rd_bit s p) eqn:EB; cbn [CM.bind]; try discriminate; [|exfalso; exact (rd_bit_noerr _ _ EB)].
    destruct (CM.rd_num s k (p + 1) 0) as [[x p']| | |] eqn:EN; cbn [CM.bind]; try discriminate;
      [|exfalso; exact (rd_num_noerr _ _ _ _ EN)].
    destruct (_ <? x)%Z; [apply IH|]. destruct (_ <? CM.s64 n)%Z; [|apply IH].
    destruct (CM.add_edge n el _ x) eqn:EA; cbn [CM.bind]; try discriminate; [apply IH|].
    exfalso. exact (add_edge_noerr _ _ _ _ EA).
Qed.

(* whatever C08's model returns, the graph-carrying model returns the corresponding value *)
Lemma sparse6_decode_graph_sim fuel s0 :
  match CM.sparse6_decode_fuel fuel s0 with
  | CM.Ok (n, el) => exists g, sparse6_decode_graph_fuel fuel s0 = CM.Ok (g, false) /\
                               Rs g (aof (Z.to_nat n) el)
  | CM.Err => sparse6_decode_graph_fuel fuel s0 = CM.Ok (sparse_zero, true)
  | _ => True
  end.
Proof.
  unfold CM.sparse6_decode_fuel, sparse6_decode_graph_fuel.
  destruct (CM.strip CM.hdr_sparse6 s0) as [|c s1]; [reflexivity|].
  destruct (negb (c =? 58)%Z); [reflexivity|].
  destruct (negb (forallb CM.in_range s1)) eqn:Hr; [reflexivity|].
  apply negb_false_iff in Hr.
  destruct s1 as [|c1 s2]; [reflexivity|]. set (s1 := c1 :: s2) in *.
  destruct (CM.dec_size false s1) as [[n i]| | |] eqn:ED; cbn [CM.bind]; auto.
  assert (Hb : (0 <= n < 68719476736)%Z) by (eapply dec_size_bound; eauto; discriminate).
  assert (Hs : CM.s64 n = n) by (apply s64_small; lia).
  rewrite Hs. destruct (Z.ltb_spec n 0); [lia|].
  destruct (Rs_new_sparse_nil (Z.to_nat n)) as (g0 & E0 & R0). rewrite E0.
  set (k := if (1 <? n)%Z then Z.to_nat (CM.bitlen (CM.u64 (n - 1))) else 0).
  destruct (CM.s6_loop fuel s1 n k (6 * CM.len s1) (6 * i) 0 []) as [el| | |] eqn:EL; cbn [CM.bind]; auto.
  - assert (HN : Z.to_nat n = Z.to_nat (CM.s64 n)) by (rewrite Hs; reflexivity).
    destruct (s6_loop_sim (Z.to_nat n) n HN fuel s1 k _ _ _ _ g0 el R0 EL) as (g & EG & RG).
    rewrite EG. exists g. split; [reflexivity|]. eapply Rs_ext; [exact RG|].
    split; [reflexivity|]. intros x y. cbn [adj aof]. rewrite memz_rev. reflexivity.
  - exfalso. exact (s6_loop_noerr _ _ _ _ _ _ _ _ EL).
Qed.

(* no pair (x, x) in a list of edges v > x *)
Lemma memz_diag n el x : Forall (CS.edge_ok n) el -> memz (zpair x x) el = false.
Proof.
  intros H. unfold memz. destruct (existsb _ el) eqn:E; [|reflexivity].
  apply existsb_exists in E. destruct E as (e & He & Pe). apply pair_eq_true in Pe. subst e.
  rewrite Forall_forall in H. specialize (H _ He). unfold CS.edge_ok, zpair in H. cbn [fst snd] in H. lia.
Qed.

(* Sparse6Decode on every byte string: no panic, the loop ends within its fuel, and the returned
   SparseGraph is well formed -- either the zero struct together with an error, or a graph on the
   declared number n of vertices whose adjacency is exactly the edge list el of C08's model
   (x ~ y iff the pair (max, min) is in el; C08: 0 <= min < max < n, ascending, no repeats) *)
Theorem sparse6_decode_graph_wf s0 :
  exists g err, sparse6_decode_graph s0 = CM.Ok (g, err) /\ swf g /\ gwf (GS g) /\
    (err = true -> g = sparse_zero /\ CM.sparse6_decode s0 = CM.Err) /\
    (err = false -> exists n el, CM.sparse6_decode s0 = CM.Ok (n, el) /\ CS.wf_sparse n el /\
       CS.s6_declared (CM.strip CM.hdr_sparse6 s0) = Some n /\ sn g = Z.to_nat n /\
       forall x y, x < sn g -> y < sn g -> sadj g x y = memz (zpair x y) el).
Proof.
  unfold sparse6_decode_graph.
  pose proof (sparse6_decode_graph_sim (6 * length s0 + 8) s0) as S.
  fold (CM.sparse6_decode s0) in S.
  destruct (CS.sparse6_decode_total s0) as [E|(n & el & E & Wn & D & _)]; rewrite E in S.
  - rewrite S. exists sparse_zero, true. split; [reflexivity|]. split; [apply sparse_zero_swf|].
    split; [apply swf_gwf, sparse_zero_swf|]. split; [auto|discriminate].
  - destruct S as (g & EG & R). rewrite EG. destruct (Rs_swf g _ R) as (W & [En Ea]).
    exists g, false. split; [reflexivity|]. split; [exact W|]. split; [apply swf_gwf, W|].
    split; [discriminate|]. intros _. exists n, el. split; [exact E|]. split; [exact Wn|].
    split; [exact D|]. cbn [an sabs aof] in En. split; [exact En|].
    intros x y Hx Hy. specialize (Ea x y). cbn [adj sabs aof] in Ea. rewrite Ea.
    rewrite <- En. destruct (Nat.ltb_spec x (sn g)); [|lia]. destruct (Nat.ltb_spec y (sn g)); [|lia].
    destruct (Nat.eqb_spec x y) as [->|]; cbn [negb andb]; [|reflexivity].
    symmetry. destruct Wn as (_ & Hok & _). eapply memz_diag; eauto.
Qed.
