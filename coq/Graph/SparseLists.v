(* Strictly ascending lists of vertices and the sortints / subgraph.go helpers that SparseGraph
   uses: SearchInts, ContainsSingle, Add, Remove, NewSortedInts, the renumbering loop of
   RemoveVertex, intsSort and intersectionByIndex. *)
From Coq Require Import List ZArith Arith Bool Lia Sorted Permutation.
From Mamba Require Import Graph.Model Graph.Lists Graph.Abstract.
Import ListNotations.

Notation ss := (StronglySorted lt).

Lemma ss_inv x l : ss (x :: l) -> ss l /\ forall y, In y l -> x < y.
Proof. intros H. inversion H; subst. split; auto. apply Forall_forall; auto. Qed.

Lemma ss_cons x l : ss l -> (forall y, In y l -> x < y) -> ss (x :: l).
Proof. intros H1 H2. constructor; auto. apply Forall_forall; auto. Qed.

Lemma ss_NoDup l : ss l -> NoDup l.
Proof.
  induction l; intros H; constructor.
  - apply ss_inv in H. destruct H as [_ H]. intros Hin. apply H in Hin. lia.
  - apply IHl. apply ss_inv in H. tauto.
Qed.

(* an ascending list is determined by its set of members *)
Lemma ss_ext l1 : forall l2, ss l1 -> ss l2 -> (forall x, In x l1 <-> In x l2) -> l1 = l2.
Proof.
  induction l1 as [|a t1 IH]; intros [|b t2] S1 S2 H.
  - reflexivity.
  - exfalso. apply (H b). left; auto.
  - exfalso. apply (H a). left; auto.
  - apply ss_inv in S1. destruct S1 as [S1 L1]. apply ss_inv in S2. destruct S2 as [S2 L2].
    assert (a = b).
    { assert (Ha : In a (b :: t2)) by (apply H; left; auto).
      assert (Hb : In b (a :: t1)) by (apply H; left; auto).
      destruct Ha as [|Ha]; auto. destruct Hb as [|Hb]; auto.
      apply L2 in Ha. apply L1 in Hb. lia. }
    subst b. f_equal. apply IH; auto. intros x. split; intros Hx.
    + assert (Hx' : In x (a :: t2)) by (apply H; right; auto).
      destruct Hx'; auto. subst. apply L1 in Hx. lia.
    + assert (Hx' : In x (a :: t1)) by (apply H; right; auto).
      destruct Hx'; auto. subst. apply L2 in Hx. lia.
Qed.

Lemma filter_seq_eq (p : nat -> bool) n l : ss l ->
  (forall u, In u l <-> (p u = true /\ u < n)) -> l = filter p (seq 0 n).
Proof.
  intros S H. apply ss_ext; auto; [apply filter_seq_sorted|].
  intros x. rewrite H, filter_In, in_seq. split; intros; split; try tauto; lia.
Qed.

(* ---------------------------------------------------------------- recursive equations *)
Lemma contains_nil x : contains [] x = false.
Proof. reflexivity. Qed.

Lemma contains_cons h t x : contains (h :: t) x = if x <=? h then h =? x else contains t x.
Proof. unfold contains. simpl. destruct (x <=? h); reflexivity. Qed.

Lemma si_remove_cons h t x :
  si_remove (h :: t) x = if x <=? h then (if h =? x then t else h :: t) else h :: si_remove t x.
Proof.
  unfold si_remove. rewrite contains_cons. simpl. destruct (x <=? h).
  - destruct (h =? x); reflexivity.
  - destruct (contains t x); reflexivity.
Qed.

Lemma si_add_nil x : si_add [] x = [x].
Proof. reflexivity. Qed.

Lemma si_add_cons h t x :
  si_add (h :: t) x = if x <=? h then (if h =? x then h :: t else x :: h :: t) else h :: si_add t x.
Proof.
  unfold si_add. rewrite contains_cons. simpl. destruct (x <=? h).
  - destruct (h =? x); reflexivity.
  - destruct (contains t x); reflexivity.
Qed.

(* ---------------------------------------------------------------- ContainsSingle, Add, Remove *)
Lemma contains_spec l x : ss l -> contains l x = true <-> In x l.
Proof.
  induction l as [|h t IH]; intros S.
  - rewrite contains_nil. simpl. split; [discriminate|tauto].
  - apply ss_inv in S. destruct S as [S L]. rewrite contains_cons.
    destruct (Nat.leb_spec x h).
    + rewrite Nat.eqb_eq. simpl. split; auto. intros [|Hx]; auto. apply L in Hx. lia.
    + rewrite IH by auto. simpl. split; auto. intros [|Hx]; auto. lia.
Qed.

Lemma si_add_in l x y : In y (si_add l x) <-> y = x \/ In y l.
Proof.
  induction l as [|h t IH].
  - simpl. intuition.
  - rewrite si_add_cons. destruct (Nat.leb_spec x h).
    + destruct (Nat.eqb_spec h x); simpl; intuition (subst; auto).
    + simpl. rewrite IH. intuition.
Qed.

Lemma si_add_ss l x : ss l -> ss (si_add l x).
Proof.
  induction l as [|h t IH]; intros S.
  - rewrite si_add_nil. apply ss_cons; [constructor|]. simpl. tauto.
  - pose proof S as S0. apply ss_inv in S. destruct S as [S L]. rewrite si_add_cons.
    destruct (Nat.leb_spec x h).
    + destruct (Nat.eqb_spec h x); auto. apply ss_cons; auto.
      intros y [Hy|Hy]; [lia|]. apply L in Hy. lia.
    + apply ss_cons; auto. intros y Hy. apply si_add_in in Hy. destruct Hy; [lia|auto].
Qed.

Lemma si_remove_in l x y : ss l -> In y (si_remove l x) <-> In y l /\ y <> x.
Proof.
  induction l as [|h t IH]; intros S.
  - simpl. tauto.
  - apply ss_inv in S. destruct S as [S L]. rewrite si_remove_cons.
    destruct (Nat.leb_spec x h).
    + destruct (Nat.eqb_spec h x).
      * subst. simpl. split.
        -- intros Hy. split; auto. apply L in Hy. lia.
        -- intros [[|Hy] Hne]; auto. congruence.
      * simpl. split.
        -- intros [Hy|Hy]; [split; auto; lia|]. split; auto. apply L in Hy. lia.
        -- tauto.
    + simpl. rewrite IH by auto. split.
      * intros [Hy|Hy]; [split; auto; lia| tauto].
      * tauto.
Qed.

Lemma si_remove_ss l x : ss l -> ss (si_remove l x).
Proof.
  induction l as [|h t IH]; intros S.
  - constructor.
  - pose proof S as S0. apply ss_inv in S. destruct S as [S L]. rewrite si_remove_cons.
    destruct (Nat.leb_spec x h).
    + destruct (Nat.eqb_spec h x); auto.
    + apply ss_cons; auto. intros y Hy. apply si_remove_in in Hy; auto. apply L. tauto.
Qed.

Lemma si_remove_absent l x : ss l -> ~ In x l -> si_remove l x = l.
Proof.
  intros S H. unfold si_remove. destruct (contains l x) eqn:E; auto.
  apply contains_spec in E; auto. tauto.
Qed.

(* appending a value larger than all members (AddVertex) *)
Lemma ss_snoc l x : ss l -> (forall y, In y l -> y < x) -> ss (l ++ [x]).
Proof.
  induction l as [|h t IH]; intros S H; simpl.
  - apply ss_cons; [constructor|]. simpl. tauto.
  - apply ss_inv in S. destruct S as [S L]. apply ss_cons.
    + apply IH; auto. intros. apply H. right; auto.
    + intros y Hy. apply in_app_or in Hy. destruct Hy as [Hy|[<-|[]]]; auto.
      apply H. left; auto.
Qed.

(* ---------------------------------------------------------------- NewSortedInts *)
Notation sle := (StronglySorted le).

Lemma insert_sorted_in x l y : In y (insert_sorted x l) <-> y = x \/ In y l.
Proof.
  induction l as [|h t IH]; simpl.
  - intuition.
  - destruct (x <=? h); simpl; rewrite ?IH; intuition.
Qed.

Lemma insert_sorted_sle x l : sle l -> sle (insert_sorted x l).
Proof.
  induction l as [|h t IH]; intros S; simpl.
  - constructor; auto.
  - inversion S as [|? ? S' F]; subst. rewrite Forall_forall in F.
    destruct (Nat.leb_spec x h).
    + constructor; auto. apply Forall_forall. intros y [<-|Hy]; auto. apply F in Hy. lia.
    + constructor; auto. apply Forall_forall. intros y Hy. apply insert_sorted_in in Hy.
      destruct Hy; [lia|auto].
Qed.

Lemma sort_ints_in l y : In y (sort_ints l) <-> In y l.
Proof.
  induction l; simpl; [tauto|]. rewrite insert_sorted_in, IHl. intuition.
Qed.

Lemma sort_ints_sle l : sle (sort_ints l).
Proof. induction l; simpl; [constructor|]. apply insert_sorted_sle; auto. Qed.

Lemma dedupe_cons2 x y t : dedupe (x :: y :: t) = if x =? y then dedupe (y :: t) else x :: dedupe (y :: t).
Proof. reflexivity. Qed.

Lemma dedupe_spec l : sle l -> ss (dedupe l) /\ forall y, In y (dedupe l) <-> In y l.
Proof.
  induction l as [|x t IH]; intros S.
  - simpl. split; [constructor|tauto].
  - destruct t as [|y t].
    + simpl. split; [|tauto]. apply ss_cons; [constructor|]. simpl; tauto.
    + inversion S as [|? ? S' F]; subst. rewrite Forall_forall in F.
      destruct (IH S') as [IH1 IH2]. rewrite dedupe_cons2.
      destruct (Nat.eqb_spec x y).
      * subst. split; auto. intros z. rewrite IH2. simpl. tauto.
      * split.
        -- apply ss_cons; auto. intros z Hz. apply IH2 in Hz.
           inversion S' as [|? ? _ F']; subst. rewrite Forall_forall in F'.
           assert (x <= y) by (apply F; left; auto).
           destruct Hz as [<-|Hz]; [lia|]. apply F' in Hz. lia.
        -- intros z. simpl. rewrite IH2. simpl. tauto.
Qed.

Lemma new_sorted_ints_ss l : ss (new_sorted_ints l).
Proof. apply dedupe_spec, sort_ints_sle. Qed.

Lemma new_sorted_ints_in l y : In y (new_sorted_ints l) <-> In y l.
Proof.
  unfold new_sorted_ints. destruct (dedupe_spec (sort_ints l) (sort_ints_sle l)) as [_ H].
  rewrite H. apply sort_ints_in.
Qed.

Lemma new_sorted_ints_length l : NoDup l -> length (new_sorted_ints l) = length l.
Proof.
  intros H. apply Permutation_length. apply NoDup_Permutation; auto.
  - apply ss_NoDup, new_sorted_ints_ss.
  - apply new_sorted_ints_in.
Qed.

(* ---------------------------------------------------------------- the renumbering loop *)
Definition down (i x : nat) : nat := if x <? i then x else Nat.pred x.

Lemma renumber_cons i h t :
  renumber i (h :: t) = if i <=? h then map Nat.pred (h :: t) else h :: renumber i t.
Proof. unfold renumber. simpl. destruct (i <=? h); reflexivity. Qed.

Lemma renumber_map i l : ss l -> renumber i l = map (down i) l.
Proof.
  induction l as [|h t IH]; intros S.
  - reflexivity.
  - apply ss_inv in S. destruct S as [S L]. rewrite renumber_cons.
    destruct (Nat.leb_spec i h).
    + apply map_ext_in. intros x [<-|Hx]; unfold down.
      * destruct (Nat.ltb_spec h i); auto; lia.
      * apply L in Hx. destruct (Nat.ltb_spec x i); auto; lia.
    + simpl. rewrite IH by auto. f_equal. unfold down. destruct (Nat.ltb_spec h i); auto; lia.
Qed.

Lemma down_up i y : down i (up i y) = y.
Proof. unfold down, up. destruct (Nat.ltb_spec y i); [destruct (Nat.ltb_spec y i); lia|].
  destruct (Nat.ltb_spec (S y) i); lia. Qed.

Lemma up_down i x : x <> i -> up i (down i x) = x.
Proof. intros H. unfold down, up. destruct (Nat.ltb_spec x i); [destruct (Nat.ltb_spec x i); lia|].
  destruct (Nat.ltb_spec (Nat.pred x) i); lia. Qed.

Lemma renumber_spec i l : ss l -> ~ In i l ->
  ss (renumber i l) /\ forall y, In y (renumber i l) <-> In (up i y) l.
Proof.
  intros S Hi. rewrite renumber_map by auto. split.
  - induction l as [|h t IH]; simpl; [constructor|].
    apply ss_inv in S. destruct S as [S L]. apply ss_cons.
    + apply IH; auto. intros H. apply Hi. right; auto.
    + intros y Hy. apply in_map_iff in Hy. destruct Hy as (x & <- & Hx).
      assert (h <> i) by (intros ->; apply Hi; left; auto).
      assert (x <> i) by (intros ->; apply Hi; right; auto).
      apply L in Hx. unfold down. destruct (Nat.ltb_spec h i), (Nat.ltb_spec x i); lia.
  - intros y. rewrite in_map_iff. split.
    + intros (x & <- & Hx). rewrite up_down; auto. intros ->. auto.
    + intros H. exists (up i y). split; auto. apply down_up.
Qed.

(* ---------------------------------------------------------------- intsSort *)
Notation sfst := (StronglySorted (fun p q : nat * nat => fst p < fst q)).

Lemma insert_pair_in p l q : In q (insert_pair p l) <-> q = p \/ In q l.
Proof.
  induction l as [|h t IH]; simpl.
  - intuition.
  - destruct (fst p <=? fst h); simpl; rewrite ?IH; intuition.
Qed.

Lemma insert_pair_sfst p l : sfst l -> ~ In (fst p) (map fst l) -> sfst (insert_pair p l).
Proof.
  induction l as [|h t IH]; intros S Hn; simpl.
  - constructor; auto.
  - inversion S as [|? ? S' F]; subst. rewrite Forall_forall in F.
    assert (fst p <> fst h) by (intros E; apply Hn; left; auto).
    destruct (Nat.leb_spec (fst p) (fst h)).
    + constructor; auto. apply Forall_forall. intros y [<-|Hy]; [lia|]. apply F in Hy. lia.
    + constructor.
      * apply IH; auto. intros Hin. apply Hn. right; auto.
      * apply Forall_forall. intros y Hy. apply insert_pair_in in Hy.
        destruct Hy as [->|Hy]; [lia|auto].
Qed.

Lemma sort_pairs_spec (l : list (nat * nat)) : NoDup (map fst l) ->
  sfst (fold_right insert_pair [] l) /\ forall q, In q (fold_right insert_pair [] l) <-> In q l.
Proof.
  induction l as [|p t IH]; intros H; simpl.
  - split; [constructor|tauto].
  - inversion H; subst. destruct (IH H3) as [I1 I2]. split.
    + apply insert_pair_sfst; auto. intros Hin. apply H2.
      apply in_map_iff in Hin. destruct Hin as (q & Eq & Hq). apply I2 in Hq.
      apply in_map_iff. exists q. auto.
    + intros q. rewrite insert_pair_in, I2. intuition.
Qed.

Lemma map_fst_combine {A B} (l1 : list A) : forall l2 : list B, length l1 = length l2 ->
  map fst (combine l1 l2) = l1.
Proof.
  induction l1; destruct l2; simpl; intros; try lia; auto. f_equal. apply IHl1. lia.
Qed.

Lemma in_combine_seq (V : list nat) : forall s x k,
  In (x, k) (combine V (seq s (length V))) <-> s <= k /\ nth_error V (k - s) = Some x.
Proof.
  induction V as [|h t IH]; intros s x k; simpl.
  - split; [tauto|]. intros [_ H]. destruct (k - s); discriminate.
  - rewrite IH. split.
    + intros [E|[H1 H2]].
      * inversion E; subst. rewrite Nat.sub_diag. auto.
      * split; [lia|]. replace (k - s) with (S (k - S s)) by lia. auto.
    + intros [H1 H2]. destruct (Nat.eq_dec k s) as [->|Hne].
      * rewrite Nat.sub_diag in H2. simpl in H2. left. congruence.
      * right. split; [lia|]. replace (k - s) with (S (k - S s)) in H2 by lia. auto.
Qed.

Lemma ints_sort_spec V : NoDup V ->
  sfst (ints_sort V) /\ forall x k, In (x, k) (ints_sort V) <-> nth_error V k = Some x.
Proof.
  intros H. unfold ints_sort.
  destruct (sort_pairs_spec (combine V (seq 0 (length V)))) as [S1 S2].
  { rewrite map_fst_combine; auto. rewrite seq_length. auto. }
  split; auto. intros x k. rewrite S2, in_combine_seq, Nat.sub_0_r. split; [tauto|].
  intros; split; auto; lia.
Qed.

(* ---------------------------------------------------------------- intersectionByIndex *)
Lemma inter_nil_l b r : inter_by_index [] b r = r.
Proof. destruct b; reflexivity. Qed.

Lemma inter_nil_r a r : inter_by_index a [] r = r.
Proof. destruct a; reflexivity. Qed.

Lemma inter_cons x a' y k b' r :
  inter_by_index (x :: a') ((y, k) :: b') r =
    if x =? y then inter_by_index a' b' (si_add r k)
    else if y <? x then inter_by_index (x :: a') b' r
    else inter_by_index a' ((y, k) :: b') r.
Proof. reflexivity. Qed.

Lemma sfst_inv p l : sfst (p :: l) -> sfst l /\ forall q, In q l -> fst p < fst q.
Proof. intros H. inversion H; subst. split; auto. apply Forall_forall; auto. Qed.

Lemma inter_ss a : forall b r, ss r -> ss (inter_by_index a b r).
Proof.
  induction a as [|x a' IHa]; intros b.
  - intros r Hr. rewrite inter_nil_l. auto.
  - induction b as [|[y k] b' IHb]; intros r Hr.
    + rewrite inter_nil_r. auto.
    + rewrite inter_cons. destruct (x =? y); [apply IHa, si_add_ss; auto|].
      destruct (y <? x); auto.
Qed.

Lemma inter_in a : forall b r z, ss a -> sfst b ->
  In z (inter_by_index a b r) <-> In z r \/ exists x, In x a /\ In (x, z) b.
Proof.
  induction a as [|x a' IHa]; intros b.
  - intros r z _ _. rewrite inter_nil_l. split; auto. intros [|(x & [] & _)]; auto.
  - induction b as [|[y k] b' IHb]; intros r z Sa Sb.
    + rewrite inter_nil_r. split; auto. intros [|(x0 & _ & [])]; auto.
    + rewrite inter_cons.
      pose proof Sa as Sa0. apply ss_inv in Sa. destruct Sa as [Sa La].
      pose proof Sb as Sb0. apply sfst_inv in Sb. destruct Sb as [Sb Lb]. simpl fst in Lb.
      destruct (Nat.eqb_spec x y) as [->|Hne].
      * rewrite IHa by auto. rewrite si_add_in. split.
        -- intros [[->|Hz]|(x0 & H1 & H2)]; auto.
           ++ right. exists y. split; simpl; auto.
           ++ right. exists x0. split; simpl; auto.
        -- intros [Hz|(x0 & [<-|H1] & [E|H2])]; auto.
           ++ inversion E; subst. auto.
           ++ apply Lb in H2. simpl in H2. lia.
           ++ inversion E; subst. apply La in H1. lia.
           ++ right. exists x0. auto.
      * destruct (Nat.ltb_spec y x).
        -- rewrite IHb by auto. split.
           ++ intros [Hz|(x0 & H1 & H2)]; auto. right. exists x0. split; simpl; auto.
           ++ intros [Hz|(x0 & H1 & [E|H2])]; auto.
              ** inversion E; subst. destruct H1 as [<-|H1]; [lia|]. apply La in H1. lia.
              ** right. exists x0. auto.
        -- rewrite IHa by auto. split.
           ++ intros [Hz|(x0 & H1 & H2)]; auto. right. exists x0. split; simpl; auto.
           ++ intros [Hz|(x0 & [<-|H1] & H2)]; auto.
              ** destruct H2 as [E|H2]; [inversion E; lia|]. apply Lb in H2. simpl in H2. lia.
              ** right. exists x0. auto.
Qed.
