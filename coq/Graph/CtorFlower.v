(* C06: FlowerSnark(n): well formed for every odd n (the counts come from NewDense), and for
   odd n >= 3 its edges are those of the flower snark J_n. *)
From Coq Require Import List ZArith Arith Bool Lia ZifyNat ZifyBool.
From Mamba Require Import Graph.Model Graph.Tri Graph.Lists Graph.Abstract Graph.CtorModel Graph.CtorSpec
  Graph.CtorDense Graph.CtorFill Graph.CtorPartite.
Import ListNotations.

Ltac Zify.zify_post_hook ::= Z.div_mod_to_equations.

(* the pairs (lo, hi) whose cells tri hi + lo the block i writes, as the code computes them *)
Definition block_pairs (n i : nat) : list (nat * nat) :=
  let a := 4 * i in let b := a + 1 in let c := a + 2 in let d := a + 3 in
  [(a, b); (a, c); (a, d)] ++
  (if i <? n - 1 then [(b, b + 4); (c, c + 4); (d, d + 4)] else [(1, b); (3, c); (2, d)]).

Ltac pick := first [left; f_equal; lia | right; pick].

Definition pidx (p : nat * nat) : nat := tri (snd p) + fst p.

Lemma flower_block_flat n e i :
  flower_block n e i = foldM (fun e k => set_nth e k 1%Z) (map pidx (block_pairs n i)) e.
Proof.
  unfold flower_block, block_pairs, pidx. destruct (i <? n - 1); cbn [map app foldM fst snd];
    repeat match goal with |- context [set_nth ?e ?k ?v] => destruct (set_nth e k v); [|reflexivity] end;
    reflexivity.
Qed.

Lemma flower_edges_flat n l e :
  foldM (flower_block n) l e =
  foldM (fun e k => set_nth e k 1%Z) (flat_map (fun i => map pidx (block_pairs n i)) l) e.
Proof.
  rewrite foldM_flat_map. apply foldM_ext. intros. apply flower_block_flat.
Qed.

Lemma block_pairs_range n i p : 2 <= n -> i < n -> In p (block_pairs n i) -> fst p < snd p /\ snd p < 4 * n.
Proof.
  intros Hn Hi. unfold block_pairs. destruct (Nat.ltb_spec i (n - 1)); cbn [app In];
    intros Hp; repeat (destruct Hp as [<-|Hp]; [cbn [fst snd]; lia|]); destruct Hp.
Qed.

Lemma flower_in n x y : 2 <= n -> x < y -> y < 4 * n ->
  (In (tri y + x) (flat_map (fun i => map pidx (block_pairs n i)) (seq 0 n)) <-> flower_lt n x y = true).
Proof.
  intros Hn Hxy Hy. rewrite in_flat_map. unfold flower_lt.
  rewrite !orb_true_iff, !andb_true_iff, negb_true_iff, !Nat.eqb_eq, Nat.eqb_neq, Nat.leb_le. split.
  - intros (i & Hi & Hp). apply in_seq in Hi. apply in_map_iff in Hp. destruct Hp as ([lo hi] & Ep & Hp).
    pose proof (block_pairs_range n i (lo, hi) Hn ltac:(lia) Hp) as [Hr1 Hr2]. cbn [fst snd] in Hr1, Hr2.
    unfold pidx in Ep. cbn [fst snd] in Ep. apply tri_inj in Ep; auto. destruct Ep; subst lo hi.
    unfold block_pairs in Hp. destruct (Nat.ltb_spec i (n - 1)); cbn [app In] in Hp;
      repeat (destruct Hp as [Hp|Hp]; [inversion Hp; subst; lia|]); destruct Hp.
  - intros H.
    assert (Hcase : exists i p, i < n /\ In p (block_pairs n i) /\ p = (x, y)).
    { destruct H as [[[[[H1 H2]|[H1 H2]]|[H1 H2]]|[H1 H2]]|[H1 H2]].
      - exists (x / 4), (x, y). split; [lia|]. split; [|reflexivity]. unfold block_pairs. cbn [app In].
        assert (Hy3 : y = x + 1 \/ y = x + 2 \/ y = x + 3) by lia.
        destruct Hy3 as [Hy3 | [Hy3 | Hy3]]; pick.
      - exists (x / 4), (x, y). split; [lia|]. split; [|reflexivity]. unfold block_pairs.
        destruct (Nat.ltb_spec (x / 4) (n - 1)); [|lia]. cbn [app In].
        assert (Hm : x mod 4 = 1 \/ x mod 4 = 2 \/ x mod 4 = 3) by lia.
        destruct Hm as [Hm | [Hm | Hm]]; pick.
      - exists (n - 1), (x, y). split; [lia|]. split; [|reflexivity]. unfold block_pairs.
        destruct (Nat.ltb_spec (n - 1) (n - 1)); [lia|]. cbn [app In]. pick.
      - exists (n - 1), (x, y). split; [lia|]. split; [|reflexivity]. unfold block_pairs.
        destruct (Nat.ltb_spec (n - 1) (n - 1)); [lia|]. cbn [app In]. pick.
      - exists (n - 1), (x, y). split; [lia|]. split; [|reflexivity]. unfold block_pairs.
        destruct (Nat.ltb_spec (n - 1) (n - 1)); [lia|]. cbn [app In]. pick. }
    destruct Hcase as (i & p & Hi & Hp & ->). exists i. split; [apply in_seq; lia|].
    apply in_map_iff. exists (x, y). split; [reflexivity|exact Hp].
Qed.

Lemma flower_def_sym n x y : flower_def n x y = flower_def n y x.
Proof.
  unfold flower_def. destruct (Nat.ltb_spec x y), (Nat.ltb_spec y x); auto; lia.
Qed.

Lemma flower_def_irr n x : flower_def n x x = false.
Proof. unfold flower_def. rewrite Nat.ltb_irrefl. reflexivity. Qed.

Theorem flower_snark_ok n : Nat.odd n = true -> 3 <= n ->
  builds (flower_snark n) (4 * n) (flower_def n).
Proof.
  intros Ho Hn. unfold flower_snark, builds.
  rewrite <- Nat.negb_odd, Ho. cbn [negb]. rewrite flower_edges_flat.
  destruct (fill_ok 1%Z (fun k => k) (flat_map (fun i => map pidx (block_pairs n i)) (seq 0 n)) (zeros (tri (4 * n))))
    as (e & E & L & H1 & H2).
  { intros k Hk. apply in_flat_map in Hk. destruct Hk as (i & Hi & Hk). apply in_seq in Hi.
    apply in_map_iff in Hk. destruct Hk as ([lo hi] & <- & Hp).
    pose proof (block_pairs_range n i (lo, hi) ltac:(lia) ltac:(lia) Hp) as [Hr1 Hr2].
    unfold pidx, zeros. rewrite repeat_length. apply tri_bound; auto. }
  rewrite map_id in H1, H2. rewrite E. unfold zeros in L. rewrite repeat_length in L.
  destruct (new_dense_ok (4 * n) e L) as (g & Eg & W & N & A).
  exists g. split; [exact Eg|]. split; [exact W|]. split; [exact N|].
  rewrite <- N. apply dadj_cells; [|apply flower_def_sym|apply flower_def_irr].
  intros x y Hxy Hy. rewrite N in Hy. unfold cell. rewrite A. unfold flower_def.
  destruct (Nat.ltb_spec x y); [|lia].
  destruct (flower_lt n x y) eqn:Ef.
  - rewrite H1; [reflexivity|]. apply flower_in; auto; lia.
  - rewrite H2; [rewrite nth_zeros; reflexivity|]. intros Hi. apply flower_in in Hi; auto; try lia. congruence.
Qed.

(* well formed for every odd n, n = 1 included (where the definition would prescribe a loop) *)
Theorem flower_snark_wf n : Nat.odd n = true ->
  exists g, flower_snark n = Some g /\ dwf g /\ dn g = 4 * n.
Proof.
  intros Ho. destruct (Nat.le_gt_cases 3 n) as [Hn|Hn].
  - destruct (flower_snark_ok n Ho Hn) as (g & E & W & N & _). exists g. auto.
  - assert (n = 1) by (destruct n as [|[|[|]]]; cbn in Ho; try discriminate; lia). subst.
    assert (E : foldM (flower_block 1) (seq 0 1) (zeros (tri (4 * 1))) = Some [1; 1; 0; 1; 1; 1]%Z)
      by (vm_compute; reflexivity).
    unfold flower_snark. cbn [Nat.even]. rewrite E.
    destruct (new_dense_ok (4 * 1) [1; 1; 0; 1; 1; 1]%Z) as (g & Eg & W & N & _); [vm_compute; reflexivity|].
    exists g. auto.
Qed.

Theorem flower_snark_domain n : Nat.even n = true -> flower_snark n = None.
Proof. intros H. unfold flower_snark. rewrite H. reflexivity. Qed.
