(* SparseGraph.InducedSubgraph refines the abstract induced subgraph: intsSort, one
   intersectionByIndex per vertex of V, the degree list and the halved degree sum. *)
From Coq Require Import List ZArith Arith Bool Lia Sorted.
From Mamba Require Import Graph.Model Graph.Lists Graph.Abstract Graph.Dense Graph.SparseLists
  Graph.Sparse.
Import ListNotations.

Definition lsum (l : list Z) : Z := fold_right Z.add 0%Z l.

Lemma lsum_snoc l z : lsum (l ++ [z]) = (lsum l + z)%Z.
Proof. induction l; simpl; [lia|]. rewrite IHl. lia. Qed.

Lemma lsum_zsum l : lsum l = zsum (fun k => nth k l 0%Z) (length l).
Proof.
  induction l using rev_ind; [reflexivity|].
  rewrite lsum_snoc, app_length, Nat.add_comm. cbn [length plus zsum].
  rewrite app_nth2 by lia. rewrite Nat.sub_diag. simpl nth. rewrite IHl. f_equal.
  apply zsum_ext. intros i Hi. rewrite app_nth1; auto.
Qed.

Lemma s_induced_ok g a V : Rs g a -> NoDup V -> (forall x, In x V -> x < an a) ->
  exists h, s_induced g V = Some h /\ Rs h (a_induced a V).
Proof.
  intros R Hnd HV. pose proof (rs_wf g a R) as W. unfold s_induced. cbv zeta.
  destruct (ints_sort_spec V Hnd) as [Ss Sin]. set (sorted := ints_sort V) in *.
  pose (Rv := fun v => inter_by_index (a_neighbours a v) sorted []).
  pose (len := fun l : list nat => Z.of_nat (length l)).
  pose (I := fun (p : list nat) (st : list (list nat) * list Z * Z) =>
    let '(nbr, deg, m) := st in nbr = map Rv p /\ deg = map len nbr /\ m = lsum deg).
  destruct (foldM_list_inv I
    (fun (st : list (list nat) * list Z * Z) v =>
       let '(nbr, deg, m) := st in
       do nv <- s_neighbours g v;
       Some (nbr ++ [inter_by_index nv sorted []],
             deg ++ [Z.of_nat (length (inter_by_index nv sorted []))],
             (m + Z.of_nat (length (inter_by_index nv sorted [])))%Z))
    V [] ([], [], 0%Z)) as (st & E & HI).
  { unfold I. simpl. auto. }
  { intros p x q [[nbr deg] m] Hp _ (I1 & I2 & I3).
    assert (Hx : x < an a) by (apply HV; simpl in Hp; rewrite Hp; apply in_elt).
    rewrite (s_neighbours_ok g a) by auto.
    eexists. split; [reflexivity|]. unfold I. split; [|split].
    - rewrite map_app, I1. reflexivity.
    - rewrite map_app, I2. reflexivity.
    - rewrite lsum_snoc, I3. reflexivity. }
  cbn [app] in HI. rewrite E. destruct st as [[nbr deg] m]. destruct HI as (I1 & I2 & I3).
  eexists. split; [reflexivity|].
  assert (W' : awf (a_induced a V)) by (apply awf_induced; auto).
  assert (Hnbr : forall v, v < length V -> nth v nbr [] = a_neighbours (a_induced a V) v).
  { intros v Hv. rewrite I1.
    rewrite (nth_indep _ [] (Rv 0)) by (rewrite map_length; auto). rewrite map_nth.
    destruct (nth_error V v) as [vx|] eqn:Ev; [|apply nth_error_None in Ev; lia].
    apply (nth_error_nth _ _ 0) in Ev as Ev'. rewrite Ev'.
    apply nbr_eq; auto.
    - apply inter_ss. constructor.
    - intros z. unfold Rv. rewrite inter_in; auto; [|apply a_neighbours_sorted].
      cbn [adj a_induced]. rewrite Ev. split.
      + intros [[]|(u & H1 & H2)]. apply Sin in H2. rewrite H2.
        apply a_neighbours_in in H1; auto.
      + destruct (nth_error V z) as [u|] eqn:Ez; [|discriminate].
        intros H. right. exists u. split; [apply a_neighbours_in; auto|]. apply Sin. auto. }
  assert (Hdeg : forall v, v < length V -> nth v deg 0%Z = a_deg (a_induced a V) v).
  { intros v Hv. rewrite I2. change 0%Z with (len []). rewrite map_nth, Hnbr by auto.
    unfold len. symmetry. apply a_deg_neighbours. }
  assert (Hdl : length deg = length V) by (rewrite I2, map_length, I1, map_length; auto).
  constructor; simpl; auto.
  - rewrite I3, lsum_zsum, Hdl. rewrite (zsum_ext _ (a_deg (a_induced a V))) by auto.
    pose proof (handshake (a_induced a V) W') as Hh. cbn [an a_induced] in Hh. rewrite Hh.
    rewrite Z.mul_comm. apply Z.div_mul. lia.
  - rewrite I1, map_length. auto.
Qed.
