(* C06: the InducedSubgraph view of any well-formed value of the Graph interface, for every
   duplicate-free in-range V: well formed, and it shows the induced subgraph in the order of V. *)
From Coq Require Import List ZArith Arith Bool Lia Sorted Permutation.
From Mamba Require Import Graph.Model Graph.Tri Graph.Lists Graph.Abstract Graph.CtorModel Graph.CtorSpec
  Graph.CtorDense Graph.CtorViews Graph.CtorSparse.
Import ListNotations.

(* ------------------------------------------------------------------ SortedInts.Add of one element *)
Lemma si_add_spec l x : StronglySorted lt l ->
  StronglySorted lt (si_add l x) /\ (forall y, In y (si_add l x) <-> y = x \/ In y l) /\
  (~ In x l -> length (si_add l x) = S (length l)).
Proof.
  intros S. unfold si_add. rewrite contains_sorted by auto.
  destruct (mem x l) eqn:Em.
  - apply mem_true in Em. split; [auto|]. split; [|intros Hn; contradiction]. intros y. split; [auto|]. intros [->|H]; auto.
  - apply mem_false in Em. clear -S Em.
    induction S as [|h t St IH Hf]; cbn [search firstn skipn app].
    + split; [repeat constructor|]. split; [intros y; cbn; intuition (subst; auto)|reflexivity].
    + rewrite Forall_forall in Hf. destruct (Nat.leb_spec x h).
      * cbn [firstn skipn app]. assert (x < h) by (assert (x <> h) by (intros ->; apply Em; left; auto); lia).
        split; [|split; [intros y; cbn; intuition (subst; auto)|reflexivity]].
        constructor; [constructor; auto; apply Forall_forall; auto|].
        apply Forall_forall. intros y [<-|Hy]; [auto|]. apply Hf in Hy. lia.
      * cbn [firstn skipn app]. destruct IH as (I1 & I2 & I3); [intros H'; apply Em; right; auto|].
        split; [|split].
        -- constructor; auto. apply Forall_forall. intros y Hy. apply I2 in Hy. destruct Hy as [->|Hy]; [lia|auto].
        -- intros y. cbn [In]. rewrite I2. tauto.
        -- intros _. cbn [length]. rewrite I3; auto. intros H'. apply Em. right. auto.
Qed.

(* ------------------------------------------------------------------ intersectionByIndex *)
Definition fst_lt (p q : nat * nat) : Prop := fst p < fst q.

Lemma ibi_cons x a' y k b' r :
  inter_by_index (x :: a') ((y, k) :: b') r =
  if x =? y then inter_by_index a' b' (si_add r k)
  else if y <? x then inter_by_index (x :: a') b' r
  else inter_by_index a' ((y, k) :: b') r.
Proof. reflexivity. Qed.

Lemma isize_cons x a' y b' :
  isize (x :: a') (y :: b') =
  if x =? y then S (isize a' b') else if y <? x then isize (x :: a') b' else isize a' (y :: b').
Proof. reflexivity. Qed.

Lemma inter_by_index_spec a : StronglySorted lt a -> forall b r,
  StronglySorted fst_lt b -> StronglySorted lt r ->
  StronglySorted lt (inter_by_index a b r) /\
  (forall k, In k (inter_by_index a b r) <-> In k r \/ exists v, In v a /\ In (v, k) b) /\
  (NoDup (map snd b) -> (forall q, In q b -> ~ In (snd q) r) ->
   length (inter_by_index a b r) = length r + isize a (map fst b)).
Proof.
  induction 1 as [|x a' Sa IHa Fa]; intros b r Sb Sr.
  - destruct b; cbn; (split; [auto|]; split; [|intros; lia]); intros k; split; auto;
      intros [H|(v & [] & _)]; auto.
  - rewrite Forall_forall in Fa. revert r Sr.
    induction Sb as [|[y k0] b' Sb' IHb Fb]; intros r Sr.
    + cbn. split; [auto|]. split; [|intros; lia]. intros k. split; auto. intros [H|(v & _ & [])]; auto.
    + rewrite Forall_forall in Fb. unfold fst_lt in Fb. rewrite ibi_cons. cbn [map fst]. rewrite isize_cons.
      destruct (Nat.eqb_spec x y) as [->|Hne].
      * destruct (si_add_spec r k0 Sr) as (A1 & A2 & A3).
        destruct (IHa b' (si_add r k0) Sb' A1) as (I1 & I2 & I3).
        split; [exact I1|]. split.
        -- intros k. rewrite I2, A2. split.
           ++ intros [[->|H]|(v & Hv & Hb)]; auto.
              ** right. exists y. split; [left; auto|left; auto].
              ** right. exists v. split; [right; auto|right; auto].
           ++ intros [H|(v & [<-|Hv] & [E|Hb])]; auto.
              ** inversion E; subst. auto.
              ** apply Fb in Hb. cbn in Hb. lia.
              ** inversion E; subst. apply Fa in Hv. lia.
              ** right. exists v. auto.
        -- intros Nd Hr. cbn [map snd] in Nd. inversion Nd as [|? ? Hk Nd']; subst.
           rewrite I3; auto.
           ++ rewrite A3 by (apply (Hr (y, k0)); left; auto). lia.
           ++ intros q Hq Hin. apply A2 in Hin. destruct Hin as [E|Hin].
              ** apply Hk. rewrite <- E. apply in_map. auto.
              ** apply (Hr q); [right; auto|auto].
      * destruct (Nat.ltb_spec y x).
        -- (* skip the head of b *)
           destruct (IHb r Sr) as (I1 & I2 & I3). split; [exact I1|]. split.
           ++ intros k. rewrite I2. split.
              ** intros [H'|(v & Hv & Hb)]; auto. right. exists v. split; auto. right. auto.
              ** intros [H'|(v & Hv & [E|Hb])]; auto.
                 --- inversion E; subst. destruct Hv as [->|Hv]; [lia|]. apply Fa in Hv. lia.
                 --- right. exists v. auto.
           ++ intros Nd Hr. cbn [map snd] in Nd. inversion Nd; subst.
              rewrite I3; auto. intros q Hq. apply Hr. right. auto.
        -- (* skip the head of a *)
           assert (Hxy : x < y) by lia.
           assert (Sb0 : StronglySorted fst_lt ((y, k0) :: b')) by (constructor; auto; apply Forall_forall; auto).
           destruct (IHa ((y, k0) :: b') r Sb0 Sr) as (I1 & I2 & I3).
           split; [exact I1|]. split.
           ++ intros k. rewrite I2. split.
              ** intros [H'|(v & Hv & Hb)]; auto. right. exists v. split; auto. right. auto.
              ** intros [H'|(v & [<-|Hv] & Hb)]; auto.
                 --- destruct Hb as [E|Hb]; [inversion E; lia|]. apply Fb in Hb. cbn in Hb. lia.
                 --- right. exists v. auto.
           ++ intros Nd Hr. rewrite I3; auto.
Qed.

(* ------------------------------------------------------------------ intsSort *)
Lemma insert_pair_perm p l : Permutation (insert_pair p l) (p :: l).
Proof.
  induction l as [|h t IH]; cbn [insert_pair]; [auto|].
  destruct (fst p <=? fst h); [auto|]. rewrite IH. apply perm_swap.
Qed.

Lemma insert_pair_sorted p l :
  StronglySorted (fun a b => fst a <= fst b) l -> StronglySorted (fun a b => fst a <= fst b) (insert_pair p l).
Proof.
  induction 1 as [|h t St IH Hf]; cbn [insert_pair]; [repeat constructor|].
  rewrite Forall_forall in Hf. destruct (Nat.leb_spec (fst p) (fst h)).
  - constructor; [constructor; auto; apply Forall_forall; auto|].
    apply Forall_forall. intros q [<-|Hq]; [auto|]. apply Hf in Hq. lia.
  - constructor; auto. apply Forall_forall. intros q Hq.
    apply (Permutation_in _ (insert_pair_perm p t)) in Hq. destruct Hq as [<-|Hq]; [lia|auto].
Qed.

Lemma ints_sort_perm V : Permutation (ints_sort V) (combine V (seq 0 (length V))).
Proof.
  unfold ints_sort. induction (combine V (seq 0 (length V))) as [|p l IH]; cbn [fold_right]; [auto|].
  rewrite insert_pair_perm. auto.
Qed.

Lemma ints_sort_le V : StronglySorted (fun a b => fst a <= fst b) (ints_sort V).
Proof.
  unfold ints_sort. induction (combine V (seq 0 (length V))) as [|p l IH]; cbn [fold_right]; [constructor|].
  apply insert_pair_sorted. exact IH.
Qed.

Lemma map_fst_combine {A B} (l : list A) (l' : list B) : length l = length l' -> map fst (combine l l') = l.
Proof.
  revert l'. induction l; intros [|b l'] H; cbn in *; try lia; [reflexivity|]. f_equal. apply IHl. lia.
Qed.

Lemma map_snd_combine {A B} (l : list A) (l' : list B) : length l = length l' -> map snd (combine l l') = l'.
Proof.
  revert l'. induction l; intros [|b l'] H; cbn in *; try lia; [reflexivity|]. f_equal. apply IHl. lia.
Qed.

Lemma sorted_le_nodup (l : list (nat * nat)) :
  StronglySorted (fun a b => fst a <= fst b) l -> NoDup (map fst l) -> StronglySorted fst_lt l.
Proof.
  induction 1 as [|h t St IH Hf]; intros Nd; [constructor|]. cbn [map] in Nd. inversion Nd; subst.
  constructor; auto. rewrite Forall_forall in *. intros q Hq. unfold fst_lt.
  assert (fst h <> fst q) by (intros E; apply H1; rewrite E; apply in_map; auto).
  specialize (Hf q Hq). lia.
Qed.

Lemma in_combine_seq (V : list nat) (v k : nat) : In (v, k) (combine V (seq 0 (length V))) <-> nth_error V k = Some v.
Proof.
  assert (G : forall s, In (v, k) (combine V (seq s (length V))) <-> s <= k /\ nth_error V (k - s) = Some v).
  { induction V as [|h t IH]; intros s; cbn [combine length seq In].
    - split; [tauto|]. intros [_ H]. destruct (k - s); discriminate.
    - rewrite IH. split.
      + intros [E|[H1 H2]].
        * inversion E; subst. rewrite Nat.sub_diag. cbn. auto.
        * split; [lia|]. replace (k - s) with (S (k - S s)) by lia. exact H2.
      + intros [H1 H2]. destruct (Nat.eq_dec k s) as [->|Hne].
        * rewrite Nat.sub_diag in H2. cbn in H2. inversion H2. auto.
        * right. split; [lia|]. replace (k - s) with (S (k - S s)) in H2 by lia. exact H2. }
  rewrite G, Nat.sub_0_r. split; [tauto|]. split; [lia|auto].
Qed.

(* ------------------------------------------------------------------ the view *)
Theorem induced_view_ok g a V : awf a -> grep g a -> NoDup V -> (forall x, In x V -> x < an a) ->
  grep (induced_view g V) (a_induced a V).
Proof.
  intros W R Nd Hr. unfold induced_view. set (srt := ints_sort V). set (k := length V).
  assert (Lc : length V = length (seq 0 k)) by (rewrite seq_length; auto).
  assert (Ssrt : StronglySorted fst_lt srt).
  { apply sorted_le_nodup; [apply ints_sort_le|].
    apply (Permutation_NoDup (l := map fst (combine V (seq 0 k)))).
    - symmetry. apply Permutation_map. apply ints_sort_perm.
    - rewrite map_fst_combine by auto. exact Nd. }
  assert (Nsnd : NoDup (map snd srt)).
  { apply (Permutation_NoDup (l := map snd (combine V (seq 0 k)))).
    - symmetry. apply Permutation_map. apply ints_sort_perm.
    - rewrite map_snd_combine by auto. apply seq_NoDup. }
  assert (Hin : forall v i, In (v, i) srt <-> nth_error V i = Some v).
  { intros v i. rewrite <- in_combine_seq. split; apply Permutation_in;
      [apply ints_sort_perm|symmetry; apply ints_sort_perm]. }
  (* the neighbours of the u-th vertex of the view *)
  assert (Hnb : forall u p, nth_error V u = Some p ->
            inter_by_index (a_neighbours a p) srt [] = a_neighbours (a_induced a V) u /\
            Z.of_nat (isize (a_neighbours a p) (map fst srt)) = a_deg (a_induced a V) u).
  { intros u p Hu.
    assert (Sa : StronglySorted lt (a_neighbours a p)) by (apply sorted_filter, sorted_seq).
    destruct (inter_by_index_spec _ Sa srt [] Ssrt (SSorted_nil lt)) as (I1 & I2 & I3).
    assert (E : inter_by_index (a_neighbours a p) srt [] = a_neighbours (a_induced a V) u).
    { apply sorted_lt_ext; [exact I1|apply sorted_filter, sorted_seq|].
      intros i. rewrite I2. unfold a_neighbours at 2. rewrite filter_In, in_seq. cbn [an adj a_induced]. rewrite Hu.
      split.
      - intros [[]|(v & Hv & Hb)]. apply Hin in Hb. rewrite Hb.
        apply (a_neighbours_in _ _ _ W) in Hv. split; [|exact Hv].
        assert (i < length V) by (apply nth_error_Some; congruence). lia.
      - intros [Hi Ha]. destruct (nth_error V i) as [q|] eqn:Eq; [|discriminate].
        right. exists q. split; [apply (a_neighbours_in _ _ _ W); auto|apply Hin; auto]. }
    split; [exact E|]. rewrite a_deg_neighbours, <- E, I3; auto. }
  constructor; cbn [g_N g_M g_degrees g_neighbours g_is_edge an a_induced].
  - reflexivity.
  - (* M = sum of the degrees / 2 *)
    assert (Ed : mapM (fun v => do nb <- g_neighbours g v; Some (Z.of_nat (isize nb (map fst srt)))) V
                 = Some (a_degrees (a_induced a V))).
    { unfold a_degrees. cbn [an a_induced]. fold k.
      assert (G : forall s t, V = s ++ t ->
                mapM (fun v => do nb <- g_neighbours g v; Some (Z.of_nat (isize nb (map fst srt)))) t
                = Some (map (a_deg (a_induced a V)) (seq (length s) (length t)))).
      { intros s t. revert s. induction t as [|p t IH]; intros s E; [reflexivity|].
        cbn [mapM length seq map].
        assert (Hp : nth_error V (length s) = Some p) by (rewrite E, nth_error_app2, Nat.sub_diag by lia; reflexivity).
        rewrite (gr_nb g a R) by (apply Hr; rewrite E; apply in_or_app; right; left; auto).
        rewrite (proj2 (Hnb _ _ Hp)).
        rewrite (IH (s ++ [p])) by (rewrite <- app_assoc; exact E).
        rewrite app_length. cbn [length]. replace (length s + 1) with (S (length s)) by lia. reflexivity. }
      apply (G [] V). reflexivity. }
    rewrite Ed. f_equal. unfold a_degrees. rewrite zlist_sum_map_seq.
    pose proof (handshake _ (awf_induced a V W)) as Hh. rewrite Hh.
    rewrite Z.mul_comm, Z.div_mul by lia. reflexivity.
  - unfold a_degrees. cbn [an a_induced]. fold k.
    assert (G : forall s t, V = s ++ t ->
              mapM (fun v => do nb <- g_neighbours g v; Some (Z.of_nat (isize nb (map fst srt)))) t
              = Some (map (a_deg (a_induced a V)) (seq (length s) (length t)))).
    { intros s t. revert s. induction t as [|p t IH]; intros s E; [reflexivity|].
      cbn [mapM length seq map].
      assert (Hp : nth_error V (length s) = Some p) by (rewrite E, nth_error_app2, Nat.sub_diag by lia; reflexivity).
      rewrite (gr_nb g a R) by (apply Hr; rewrite E; apply in_or_app; right; left; auto).
      rewrite (proj2 (Hnb _ _ Hp)).
      rewrite (IH (s ++ [p])) by (rewrite <- app_assoc; exact E).
      rewrite app_length. cbn [length]. replace (length s + 1) with (S (length s)) by lia. reflexivity. }
    apply (G [] V). reflexivity.
  - intros v Hv. destruct (nth_error V v) as [p|] eqn:Ep; [|apply nth_error_None in Ep; lia].
    rewrite (gr_nb g a R) by (apply Hr; eapply nth_error_In; eauto).
    rewrite (proj1 (Hnb _ _ Ep)). reflexivity.
  - intros i j Hi Hj.
    destruct (nth_error V i) as [p|] eqn:Ep; [|apply nth_error_None in Ep; lia].
    destruct (nth_error V j) as [q|] eqn:Eq; [|apply nth_error_None in Eq; lia].
    cbn [adj a_induced]. rewrite Ep, Eq.
    apply (gr_edge g a R); apply Hr; eapply nth_error_In; eauto.
Qed.

Corollary induced_view_wf g V : (exists a, awf a /\ grep g a /\ NoDup V /\ forall x, In x V -> x < an a) ->
  gwf (induced_view g V).
Proof.
  intros (a & W & R & Nd & Hr). exists (a_induced a V).
  split; [apply awf_induced; auto | apply induced_view_ok; auto].
Qed.
