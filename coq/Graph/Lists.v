(* Generic lemmas on the array primitives of Graph/Model.v and on zsum. *)
From Coq Require Import List ZArith Arith Bool Lia.
From Mamba Require Import Graph.Model.
Import ListNotations.

(* ---------------------------------------------------------------- upd / set_nth / modify *)
Lemma upd_length {A} (l : list A) i v : length (upd l i v) = length l.
Proof. revert i; induction l; destruct i; simpl; auto. Qed.

Lemma nth_upd_same {A} (l : list A) i v d : i < length l -> nth i (upd l i v) d = v.
Proof. revert i; induction l; destruct i; simpl; intros; try lia; auto. apply IHl; lia. Qed.

Lemma nth_upd_other {A} (l : list A) i j v d : i <> j -> nth j (upd l i v) d = nth j l d.
Proof. revert i j; induction l; destruct i, j; simpl; intros; try lia; auto. Qed.

Lemma nth_upd {A} (l : list A) i j v d : i < length l ->
  nth j (upd l i v) d = if j =? i then v else nth j l d.
Proof.
  intros. destruct (Nat.eqb_spec j i) as [->|]; [apply nth_upd_same; auto | apply nth_upd_other; auto].
Qed.

Lemma nth_error_nth_lt {A} (l : list A) i d : i < length l -> nth_error l i = Some (nth i l d).
Proof. revert i; induction l; destruct i; simpl; intros; try lia; auto. apply IHl; lia. Qed.

Lemma nth_error_some_nth {A} (l : list A) i x d : nth_error l i = Some x -> i < length l /\ nth i l d = x.
Proof.
  intros H. assert (i < length l) by (apply nth_error_Some; congruence).
  split; auto. rewrite (nth_error_nth_lt l i d) in H by auto. congruence.
Qed.

Lemma set_nth_some {A} (l : list A) i v : i < length l -> set_nth l i v = Some (upd l i v).
Proof. intros. unfold set_nth. destruct (Nat.ltb_spec i (length l)); auto; lia. Qed.

Lemma modify_some l i d : i < length l -> modify l i d = Some (upd l i (nth i l 0 + d)%Z).
Proof. intros. unfold modify. rewrite (nth_error_nth_lt l i 0%Z) by auto. reflexivity. Qed.

(* ---------------------------------------------------------------- firstn / skipn / remove_at *)
Lemma nth_firstn_lt {A} (l : list A) n i d : i < n -> nth i (firstn n l) d = nth i l d.
Proof. revert n i; induction l; destruct n, i; simpl; intros; try lia; auto. apply IHl; lia. Qed.

Lemma nth_skipn' {A} (l : list A) n i d : nth i (skipn n l) d = nth (n + i) l d.
Proof. revert n; induction l; destruct n; simpl; auto. destruct i; auto. Qed.

Lemma remove_at_length {A} i (l : list A) : i < length l -> length (remove_at i l) = length l - 1.
Proof. intros. unfold remove_at. rewrite app_length, firstn_length, skipn_length. lia. Qed.

Lemma nth_remove_at {A} v (l : list A) x d : v < length l ->
  nth x (remove_at v l) d = nth (up v x) l d.
Proof.
  intros Hv. unfold remove_at, up.
  destruct (Nat.ltb_spec x v).
  - rewrite app_nth1 by (rewrite firstn_length; lia). apply nth_firstn_lt; auto.
  - rewrite app_nth2 by (rewrite firstn_length; lia).
    rewrite firstn_length, nth_skipn'. f_equal. lia.
Qed.

Lemma nth_app_Z (l1 l2 : list Z) k :
  nth k (l1 ++ l2) 0%Z = if k <? length l1 then nth k l1 0%Z else nth (k - length l1) l2 0%Z.
Proof. destruct (Nat.ltb_spec k (length l1)); [apply app_nth1 | apply app_nth2]; auto. Qed.

Lemma nth_repeat0 k n : nth k (repeat 0%Z n) 0%Z = 0%Z.
Proof. revert k; induction n; destruct k; simpl; auto. Qed.

(* ---------------------------------------------------------------- loops *)
Lemma foldM_seq_inv {S} (I : nat -> S -> Prop) (f : S -> nat -> option S) len : forall a s,
  I a s ->
  (forall k s, a <= k < a + len -> I k s -> exists s', f s k = Some s' /\ I (Datatypes.S k) s') ->
  exists s', foldM f (seq a len) s = Some s' /\ I (a + len) s'.
Proof.
  induction len; intros a s H0 Hstep; simpl.
  - exists s. rewrite Nat.add_0_r. auto.
  - destruct (Hstep a s) as (s1 & E & H1); [lia | auto |]. rewrite E.
    destruct (IHlen (Datatypes.S a) s1 H1) as (s2 & E2 & H2).
    + intros k s' Hk. apply Hstep. lia.
    + exists s2. split; auto. replace (a + Datatypes.S len) with (Datatypes.S a + len) by lia. auto.
Qed.

Lemma foldM_list_inv {A S} (I : list A -> S -> Prop) (f : S -> A -> option S) (l : list A) : forall pre s,
  I pre s ->
  (forall p x q s, pre ++ l = p ++ x :: q -> length pre <= length p -> I p s ->
      exists s', f s x = Some s' /\ I (p ++ [x]) s') ->
  exists s', foldM f l s = Some s' /\ I (pre ++ l) s'.
Proof.
  induction l; intros pre s H0 Hstep; simpl.
  - exists s. rewrite app_nil_r. auto.
  - destruct (Hstep pre a l s) as (s1 & E & H1); auto. rewrite E.
    destruct (IHl (pre ++ [a]) s1 H1) as (s2 & E2 & H2).
    + intros p x q s' Hp Hl. apply (Hstep p x q); [rewrite <- Hp, <- app_assoc; reflexivity|].
      rewrite app_length in Hl. simpl in Hl. lia.
    + exists s2. split; auto. rewrite <- app_assoc in H2. exact H2.
Qed.

(* ---------------------------------------------------------------- zsum *)
Lemma b2z_range b : (0 <= b2z b <= 1)%Z.
Proof. destruct b; simpl; lia. Qed.

Lemma zsum_ext f g n : (forall i, i < n -> f i = g i) -> zsum f n = zsum g n.
Proof. induction n; simpl; intros H; auto. rewrite IHn, H; auto. Qed.

Lemma zsum_add f g n : zsum (fun i => f i + g i)%Z n = (zsum f n + zsum g n)%Z.
Proof. induction n; simpl; auto. rewrite IHn. lia. Qed.

Lemma zsum_sub f g n : zsum (fun i => f i - g i)%Z n = (zsum f n - zsum g n)%Z.
Proof. induction n; simpl; auto. rewrite IHn. lia. Qed.

Lemma zsum_zero n : zsum (fun _ => 0%Z) n = 0%Z.
Proof. induction n; simpl; auto. rewrite IHn. lia. Qed.

Lemma zsum_zero' f n : (forall i, i < n -> f i = 0%Z) -> zsum f n = 0%Z.
Proof. intros. rewrite <- (zsum_zero n). apply zsum_ext; auto. Qed.

Lemma zsum_scale c f n : zsum (fun i => c * f i)%Z n = (c * zsum f n)%Z.
Proof. induction n; simpl; [lia|]. rewrite IHn. lia. Qed.

Lemma zsum_nonneg f n : (forall i, i < n -> (0 <= f i)%Z) -> (0 <= zsum f n)%Z.
Proof. induction n; simpl; intros H; [lia|]. pose proof (H n). assert (0 <= zsum f n)%Z by auto. lia. Qed.

(* the indicator of one point *)
Definition ind (x y : nat) : Z := b2z (Nat.eqb x y).

Lemma zsum_ind k n : zsum (fun i => ind i k) n = b2z (k <? n).
Proof.
  unfold ind. induction n; simpl; auto. rewrite IHn.
  destruct (Nat.eqb_spec n k), (Nat.ltb_spec k n), (Nat.ltb_spec k (S n)); simpl; lia.
Qed.

Lemma zsum_ind_lt k n : k < n -> zsum (fun i => ind i k) n = 1%Z.
Proof. intros. rewrite zsum_ind. destruct (Nat.ltb_spec k n); auto; lia. Qed.

Lemma ind_range x y : (0 <= ind x y <= 1)%Z.
Proof. apply b2z_range. Qed.

Lemma zsum_ind_mul k f n : zsum (fun i => (b2z (Nat.eqb i k) * f i)%Z) n = if k <? n then f k else 0%Z.
Proof.
  induction n; simpl; auto. rewrite IHn.
  destruct (Nat.eqb_spec n k), (Nat.ltb_spec k n), (Nat.ltb_spec k (S n)); subst; cbn [b2z]; lia.
Qed.

(* reindexing over the vertices that survive the removal of v *)
Lemma zsum_skip f v n : v <= n -> zsum (fun x => f (up v x)) n = (zsum f (S n) - f v)%Z.
Proof.
  induction n; intros Hv.
  - assert (v = 0) by lia. subst. simpl. lia.
  - destruct (Nat.eq_dec v (S n)) as [->|Hne].
    + rewrite (zsum_ext _ f (S n)).
      * simpl. lia.
      * intros i Hi. unfold up. destruct (Nat.ltb_spec i (S n)); auto; lia.
    + cbn [zsum]. rewrite IHn by lia. cbn [zsum].
      unfold up at 1. destruct (Nat.ltb_spec n v); [lia|]. lia.
Qed.

(* counting the members of a duplicate-free list of numbers below n *)
Lemma mem_true x l : mem x l = true <-> In x l.
Proof.
  unfold mem. rewrite existsb_exists. split.
  - intros (y & Hy & E). apply Nat.eqb_eq in E. subst; auto.
  - intros H. exists x. split; auto. apply Nat.eqb_refl.
Qed.

Lemma mem_false x l : mem x l = false <-> ~ In x l.
Proof. rewrite <- mem_true. destruct (mem x l); split; intros; congruence. Qed.

Lemma zsum_mem l n : NoDup l -> (forall x, In x l -> x < n) ->
  zsum (fun u => b2z (mem u l)) n = Z.of_nat (length l).
Proof.
  induction l as [|x t IH]; intros Hnd Hlt.
  - simpl. apply zsum_zero.
  - inversion Hnd; subst.
    rewrite (zsum_ext _ (fun u => (ind u x + b2z (mem u t))%Z)).
    + rewrite zsum_add, zsum_ind, IH; auto; [|intros; apply Hlt; right; auto].
      assert (x < n) by (apply Hlt; left; auto).
      destruct (Nat.ltb_spec x n); [|lia]. simpl length. simpl b2z. lia.
    + intros u _. unfold mem at 1, ind. simpl. fold (mem u t).
      destruct (Nat.eqb_spec u x); simpl; auto.
      * subst. assert (mem x t = false) by (apply mem_false; auto). rewrite H. reflexivity.
Qed.

Lemma nodupb_true l : nodupb l = true <-> NoDup l.
Proof.
  induction l; simpl.
  - split; auto. constructor.
  - rewrite andb_true_iff, negb_true_iff, mem_false, IHl. split.
    + intros []. constructor; auto.
    + inversion 1; auto.
Qed.
