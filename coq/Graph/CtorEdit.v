(* C06: SplitEdge and Contract at the level of the abstract graph: the composition of edits they
   perform yields a simple graph (no loop, symmetric) and has the documented adjacency.  That the
   DenseGraph / SparseGraph edits refine the abstract edits is C05's refinement theorem (not yet
   available for RemoveVertex), so these are theorems about the abstract composition only. *)
From Coq Require Import List ZArith Arith Bool Lia.
From Mamba Require Import Graph.Model Graph.Tri Graph.Lists Graph.Abstract Graph.CtorModel Graph.CtorSpec Graph.CtorDense.
Import ListNotations.

Theorem split_awf a i j : awf a -> i < an a -> j < an a -> i <> j ->
  awf (a_split a i j) /\ an (a_split a i j) = S (an a) /\
  (forall x y, x < an a -> y < an a ->
     adj (a_split a i j) x y = adj a x y && negb (pairb x y i j)) /\
  (forall x, x < an a -> adj (a_split a i j) x (an a) = (x =? i) || (x =? j)).
Proof.
  intros W Hi Hj Hne. unfold a_split. split; [apply awf_add_vertex, awf_remove_edge; auto|].
  split; [reflexivity|]. split.
  - intros x y Hx Hy. cbn [adj an a_add_vertex a_remove_edge].
    destruct (Nat.eqb_spec y (an a)); [lia|]. destruct (Nat.eqb_spec x (an a)); [lia|]. reflexivity.
  - intros x Hx. cbn [adj an a_add_vertex a_remove_edge]. rewrite Nat.eqb_refl.
    destruct (Nat.ltb_spec x (an a)); [|lia]. cbn [andb]. unfold mem. cbn [existsb].
    rewrite orb_false_r. reflexivity.
Qed.

(* adding the edges i-v for v in a list *)
Definition astar (a : agraph) (i : nat) (vs : list nat) : agraph :=
  fold_left (fun b v => a_add_edge b i v) vs a.

Lemma add_star a i vs : awf a -> i < an a -> (forall v, In v vs -> v < an a) ->
  awf (astar a i vs) /\ an (astar a i vs) = an a /\
  forall x y, adj (astar a i vs) x y =
    adj a x y || (negb (x =? y) && (((x =? i) && mem y vs) || ((y =? i) && mem x vs))).
Proof.
  unfold astar. revert a. induction vs as [|v t IH]; intros a W Hi Hv; cbn [fold_left].
  - split; [auto|]. split; [auto|]. intros x y. unfold mem. cbn [existsb].
    rewrite !andb_false_r. cbn [orb]. rewrite orb_false_r. reflexivity.
  - assert (Hvn : v < an a) by (apply Hv; left; auto).
    destruct (IH (a_add_edge a i v)) as (W' & N' & A'); [apply awf_add_edge; auto|auto|intros; apply Hv; right; auto|].
    split; [exact W'|]. split; [exact N'|]. intros x y. rewrite A'. cbn [adj a_add_edge].
    unfold mem. cbn [existsb]. fold (mem y t). fold (mem x t).
    destruct (Nat.eqb_spec x y) as [->|Hxy]; cbn [negb andb]; rewrite ?orb_false_r.
    + destruct (Nat.eqb_spec i v); cbn [negb andb]; rewrite ?orb_false_r; auto.
      destruct (Nat.eqb_spec y i), (Nat.eqb_spec y v); cbn; rewrite ?orb_false_r; auto; lia.
    + destruct (Nat.eqb_spec i v) as [->|Hiv]; cbn [negb andb].
      * rewrite orb_false_r. destruct (Nat.eqb_spec x v), (Nat.eqb_spec y v); subst; cbn; auto; lia.
      * destruct (Nat.eqb_spec x i), (Nat.eqb_spec y v), (Nat.eqb_spec x v), (Nat.eqb_spec y i); subst;
          cbn; rewrite ?orb_false_r, ?orb_true_r; auto; try lia;
          destruct (adj a _ _); cbn; auto; destruct (mem _ t); auto.
Qed.

(* Contract(g, i, j): well formed (in particular no loop at i), one vertex less, and x ~ y iff
   they were adjacent, or one of them is i and the other was adjacent to j (indices above j shift) *)
Theorem contract_awf a i j : awf a -> i < an a -> j < an a ->
  awf (a_contract a i j) /\ an (a_contract a i j) = an a - 1 /\
  forall x y, x < an a - 1 -> y < an a - 1 ->
    adj (a_contract a i j) x y =
      let x' := up j x in let y' := up j y in
      adj a x' y' || (negb (x' =? y') && (((x' =? i) && adj a j y') || ((y' =? i) && adj a j x'))).
Proof.
  intros W Hi Hj. unfold a_contract.
  destruct (add_star a i (a_neighbours a j) W Hi) as (Wb & Nb & Ab); unfold astar in *.
  { intros v Hv. apply (a_neighbours_in a j v W) in Hv. eapply awf_dom2; eauto. }
  split; [apply awf_remove_vertex; exact Wb|]. split; [cbn [an a_remove_vertex]; rewrite Nb; reflexivity|].
  intros x y Hx Hy. cbn [adj an a_remove_vertex]. rewrite Nb, Ab.
  destruct (Nat.ltb_spec x (an a - 1)), (Nat.ltb_spec y (an a - 1)); try lia. cbn [andb].
  cbv zeta.
  assert (Hm : forall u, u < an a -> mem u (a_neighbours a j) = adj a j u).
  { intros u Hu. apply eq_iff_eq_true. rewrite mem_true. apply (a_neighbours_in a j u W). }
  assert (up j x < an a) by (unfold up; destruct (x <? j); lia).
  assert (up j y < an a) by (unfold up; destruct (y <? j); lia).
  rewrite !Hm by auto. reflexivity.
Qed.
