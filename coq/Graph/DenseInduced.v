(* DenseGraph.InducedSubgraph refines the abstract induced subgraph.  The double loop visits
   the pairs i<j in the order of the packed triangle; after each visit the graph under
   construction represents the induced subgraph restricted to the pairs visited so far. *)
From Coq Require Import List ZArith Arith Bool Lia.
From Mamba Require Import Graph.Model Graph.Lists Graph.Tri Graph.Abstract Graph.Dense.
Import ListNotations.

(* the pairs visited before (i, j): larger vertex below j, or equal to j with the smaller below i *)
Definition visited (j i x y : nat) : bool :=
  (Nat.max x y <? j) || ((Nat.max x y =? j) && (Nat.min x y <? i)).

Definition indB (a : agraph) (V : list nat) (j i : nat) : agraph :=
  mkA (length V) (fun x y => adj (a_induced a V) x y && visited j i x y).

Definition ind_inner (g : dense) (V : list nat) (j : nat)
  (st : list Z * Z * list Z * nat) (i : nat) : option (list Z * Z * list Z * nat) :=
  let '(edges, m, deg, index) := st in
  do vi <- nth_error V i;
  do vj <- nth_error V j;
  do e <- d_is_edge g vi vj;
  if e then
    do edges' <- set_nth edges index 1%Z;
    do deg1 <- modify deg i 1;
    do deg2 <- modify deg1 j 1;
    Some (edges', (m + 1)%Z, deg2, S index)
  else Some (edges, m, deg, S index).

Lemma d_induced_unfold g V :
  d_induced g V =
  (do st <- foldM (fun st j => foldM (ind_inner g V j) (seq 0 j) st) (seq 1 (length V - 1))
              (repeat 0%Z (tri (length V)), 0%Z, repeat 0%Z (length V), O);
   let '(edges, m, deg, _) := st in
   Some (mkDense (length V) m deg edges (tri (length V)))).
Proof. reflexivity. Qed.

Ltac cmp :=
  repeat match goal with
  | |- context [Nat.eqb ?a ?b] => destruct (Nat.eqb_spec a b)
  | |- context [Nat.ltb ?a ?b] => destruct (Nat.ltb_spec a b)
  end.

Lemma visited_S j i x y :
  visited j (S i) x y = visited j i x y || ((Nat.max x y =? j) && (Nat.min x y =? i)).
Proof. unfold visited. cmp; simpl; auto; lia. Qed.

Lemma pair_eq i j x y : i < j ->
  ((Nat.max x y =? j) && (Nat.min x y =? i)) = ((x =? i) && (y =? j)) || ((x =? j) && (y =? i)).
Proof. intros H. cmp; simpl; auto; lia. Qed.

Ltac fin_bool He He' :=
  rewrite ?He, ?He';
  repeat match goal with |- context [adj ?a ?x ?y] => destruct (adj a x y) end;
  repeat match goal with |- context [visited ?a ?b ?c ?d] => destruct (visited a b c d) end;
  reflexivity.

Lemma indB_step_add a V j i : awf a -> i < j ->
  adj (a_induced a V) i j = true ->
  aeq (a_add_edge (indB a V j i) i j) (indB a V j (S i)).
Proof.
  intros W Hij He. pose proof (awf_induced a V W) as W'.
  assert (He' : adj (a_induced a V) j i = true) by (rewrite (awf_sym _ W'); auto).
  split; [reflexivity|]. intros x y. cbn [adj an indB a_add_edge].
  rewrite visited_S, pair_eq by auto.
  destruct (Nat.eqb_spec i j); [lia|]. cbn [negb].
  destruct (Nat.eqb_spec x i), (Nat.eqb_spec y j), (Nat.eqb_spec x j), (Nat.eqb_spec y i);
    subst; try lia; cbn [andb orb]; fin_bool He He'.
Qed.

Lemma indB_step_skip a V j i : awf a -> i < j ->
  adj (a_induced a V) i j = false ->
  aeq (indB a V j i) (indB a V j (S i)).
Proof.
  intros W Hij He. pose proof (awf_induced a V W) as W'.
  assert (He' : adj (a_induced a V) j i = false) by (rewrite (awf_sym _ W'); auto).
  split; [reflexivity|]. intros x y. cbn [adj an indB].
  rewrite visited_S, pair_eq by auto.
  destruct (Nat.eqb_spec x i), (Nat.eqb_spec y j), (Nat.eqb_spec x j), (Nat.eqb_spec y i);
    subst; try lia; cbn [andb orb]; fin_bool He He'.
Qed.

Lemma indB_row_end a V j : awf a -> aeq (indB a V j j) (indB a V (S j) 0).
Proof.
  intros W. pose proof (awf_induced a V W) as W'.
  split; [reflexivity|]. intros x y. cbn [adj an indB]. unfold visited.
  destruct (Nat.eq_dec x y) as [->|Hxy].
  - rewrite (awf_irr _ W'). reflexivity.
  - destruct (adj (a_induced a V) x y); cmp; simpl; auto; lia.
Qed.

Lemma indB_start a V : awf a -> aeq (a_empty (length V)) (indB a V 1 0).
Proof.
  intros W. pose proof (awf_induced a V W) as W'.
  split; [reflexivity|]. intros x y. cbn [adj an indB a_empty]. unfold visited.
  destruct (Nat.eq_dec x y) as [->|Hxy].
  - rewrite (awf_irr _ W'). reflexivity.
  - destruct (adj (a_induced a V) x y); cmp; simpl; auto; lia.
Qed.

Lemma indB_end a V j : awf a -> length V <= j -> aeq (indB a V j 0) (a_induced a V).
Proof.
  intros W Hj. pose proof (awf_induced a V W) as W'.
  split; [reflexivity|]. intros x y. cbn [adj an indB]. unfold visited.
  destruct (adj (a_induced a V) x y) eqn:E; auto.
  pose proof (awf_dom _ W' x y E) as Hx. pose proof (awf_dom2 _ x y W' E) as Hy.
  cbn [an a_induced] in Hx, Hy. cmp; simpl; auto; lia.
Qed.

Definition ind_inv (a : agraph) (V : list nat) (j i : nat) (st : list Z * Z * list Z * nat) : Prop :=
  let '(edges, m, deg, index) := st in
  index = tri j + i /\ Rd (mkDense (length V) m deg edges (tri (length V))) (indB a V j i).

Lemma ind_inner_step g a V j i st : Rd g a -> i < j -> j < length V ->
  ind_inv a V j i st ->
  exists st', ind_inner g V j st i = Some st' /\ ind_inv a V j (S i) st'.
Proof.
  intros R Hij Hj. pose proof (rd_wf g a R) as W.
  destruct st as [[[edges m] deg] index]. intros [Hidx Rst]. unfold ind_inner.
  destruct (nth_error V i) as [vi|] eqn:Ei; [|apply nth_error_None in Ei; lia].
  destruct (nth_error V j) as [vj|] eqn:Ej; [|apply nth_error_None in Ej; lia].
  rewrite (d_is_edge_ok g a) by auto.
  assert (Ea : adj (a_induced a V) i j = adj a vi vj).
  { cbn [adj a_induced]. rewrite Ei, Ej. reflexivity. }
  destruct (adj a vi vj) eqn:He.
  - pose proof (rd_cap _ _ Rst) as Hc. pose proof (rd_deglen _ _ Rst) as Hd.
    cbn [darr dlen ddeg an indB] in Hc, Hd.
    assert (Hin : index < tri (length V)) by (subst index; apply tri_bound; auto).
    rewrite set_nth_some by lia.
    destruct (modify2 deg i j 1) as (l1 & l2 & E1 & E2 & Hl & Hn); try lia.
    rewrite E1, E2. eexists. split; [reflexivity|]. split; [lia|].
    eapply Rd_ext; [|apply indB_step_add; eauto].
    subst index.
    apply (Rd_add_edge_gen (mkDense (length V) m deg edges (tri (length V))) (indB a V j i) i j l2);
      auto.
    + cbn [adj indB]. unfold visited.
      destruct (Nat.ltb_spec (Nat.max i j) j); [lia|].
      destruct (Nat.ltb_spec (Nat.min i j) i); [lia|]. simpl. rewrite !andb_false_r. reflexivity.
    + cbn [an indB]. lia.
    + intros v _. rewrite Hn. cbn [ddeg]. lia.
  - eexists. split; [reflexivity|]. split; [lia|].
    eapply Rd_ext; [exact Rst|]. apply indB_step_skip; auto; congruence.
Qed.

Lemma d_induced_ok g a V : Rd g a -> (forall x, In x V -> x < an a) ->
  exists h, d_induced g V = Some h /\ Rd h (a_induced a V).
Proof.
  intros R HV. pose proof (rd_wf g a R) as W. rewrite d_induced_unfold.
  set (n := length V).
  destruct (foldM_seq_inv (fun j st => ind_inv a V j 0 st)
     (fun st j => foldM (ind_inner g V j) (seq 0 j) st) (n - 1) 1
     (repeat 0%Z (tri n), 0%Z, repeat 0%Z n, O)) as (st & E & HI).
  - split; [rewrite tri_S; reflexivity|].
    eapply Rd_ext; [apply (Rd_empty n)|]. apply indB_start; auto.
  - intros j st Hj Hst.
    destruct (foldM_seq_inv (fun i st => ind_inv a V j i st) (ind_inner g V j) j 0 st)
      as (st' & E' & HI'); auto.
    + intros i st0 Hi Hst0. apply (ind_inner_step g a); auto; lia.
    + exists st'. split; auto. simpl in HI'.
      destruct st' as [[[edges m] deg] index]. destruct HI' as [I1 I2]. split.
      * rewrite tri_S. lia.
      * eapply Rd_ext; [exact I2|]. apply indB_row_end; auto.
  - rewrite E. destruct st as [[[edges m] deg] index]. destruct HI as [I1 I2].
    eexists. split; [reflexivity|].
    eapply Rd_ext; [exact I2|]. apply indB_end; auto. fold n. lia.
Qed.
