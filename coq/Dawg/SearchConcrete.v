(* C13, concrete part: NewAnagramSearcher (for every permutation the sort may leave, and for
   the modelled insertion sort), the contract for PatternSearcher and AnagramSearcher, and the
   end-to-end statement for lists of pattern/anagram searchers. *)
From Coq Require Import List NArith ZArith Bool Lia Permutation.
From Mamba Require Import Dawg.Model Dawg.Tree Dawg.Spec Dawg.SearchModel Dawg.SearchSpec.
From Mamba Require Import Dawg.SearchPattern Dawg.SearchAnagram Dawg.SearchProofs.
Import ListNotations.

(* ------------------------------------------------------------------ the counting loop *)

Lemma bump_last_snoc : forall cs0 p c, bump_last (cs0 ++ [(p, c)]) = Some (cs0 ++ [(p, c + 1)%Z]).
Proof.
  induction cs0 as [|[l0 c0] cs0 IH]; intros p c; [reflexivity|].
  cbn [app]. specialize (IH p c).
  destruct (cs0 ++ [(p, c)]) as [|x r] eqn:Ee; [destruct cs0; discriminate|].
  change (bump_last ((l0, c0) :: x :: r)) with (option_map (cons (l0, c0)) (bump_last (x :: r))).
  rewrite IH. reflexivity.
Qed.

Definition last_is (prev : option byte) (blank : byte) (counts : list (byte * Z)) : Prop :=
  forall p, prev = Some p -> p <> blank -> exists cs0 c, counts = cs0 ++ [(p, c)].

Lemma letters_of_cons : forall l tmp blank,
  letters_of (l :: tmp) blank = if N.eqb l blank then letters_of tmp blank else l :: letters_of tmp blank.
Proof. intros. unfold letters_of, is_blank. cbn [filter]. destruct (N.eqb l blank); reflexivity. Qed.

Lemma blanks_of_cons : forall l tmp blank,
  blanks_of (l :: tmp) blank = if N.eqb l blank then S (blanks_of tmp blank) else blanks_of tmp blank.
Proof. intros. unfold blanks_of, is_blank. cbn [filter]. destruct (N.eqb l blank); reflexivity. Qed.

Lemma count_loop_spec : forall blank tmp i prev counts blanks,
  entries_ok blank counts -> last_is prev blank counts ->
  exists cs bl, count_loop blank i prev tmp counts blanks = Ok (cs, bl) /\ entries_ok blank cs /\
    Permutation (expand cs) (expand counts ++ letters_of tmp blank) /\
    bl = (blanks + Z.of_nat (blanks_of tmp blank))%Z.
Proof.
  intros blank. induction tmp as [|l tmp IH]; intros i prev counts blanks Hok Hlast.
  - exists counts, blanks. cbn [count_loop]. split; [reflexivity|]. split; [exact Hok|].
    split; [unfold letters_of; cbn [filter]; rewrite app_nil_r; reflexivity|].
    unfold blanks_of. cbn. lia.
  - cbn [count_loop]. rewrite letters_of_cons, blanks_of_cons.
    destruct (N.eqb_spec l blank) as [Hb|Hnb].
    + destruct (IH (S i) (Some l) counts (blanks + 1)%Z Hok) as [cs [bl [H1 [H2 [H3 H4]]]]].
      { intros p Hp Hne. inversion Hp; subst. contradiction. }
      exists cs, bl. split; [exact H1|]. split; [exact H2|]. split; [exact H3|]. lia.
    + (* both branches give entries whose expansion gains one l at the end *)
      assert (Hnew : exists cs1,
        (if Nat.ltb 1 i && match prev with Some p => N.eqb p l | None => false end
         then match bump_last counts with
              | None => Panic
              | Some cs => count_loop blank (S i) (Some l) tmp cs blanks
              end
         else count_loop blank (S i) (Some l) tmp (counts ++ [(l, 1%Z)]) blanks)
        = count_loop blank (S i) (Some l) tmp cs1 blanks /\
        entries_ok blank cs1 /\ last_is (Some l) blank cs1 /\ expand cs1 = expand counts ++ [l]).
      { destruct (Nat.ltb 1 i && match prev with Some p => N.eqb p l | None => false end) eqn:Ec.
        - apply andb_true_iff in Ec. destruct Ec as [_ Ep]. destruct prev as [p|]; [|discriminate].
          apply N.eqb_eq in Ep. subst p.
          destruct (Hlast l eq_refl Hnb) as [cs0 [c Ecs]]. subst counts.
          rewrite bump_last_snoc. exists (cs0 ++ [(l, c + 1)%Z]). split; [reflexivity|].
          unfold entries_ok in *. apply Forall_app in Hok. destruct Hok as [Hok0 Hok1].
          inversion Hok1 as [|? ? [Hf Hc] _]; subst. cbn [fst snd] in *.
          split; [apply Forall_app; split; [exact Hok0|]; constructor; [cbn [fst snd]; split; [exact Hf|lia]|constructor]|].
          split; [intros p Hp _; inversion Hp; subst; eauto|].
          rewrite !expand_app. unfold expand at 2 4. cbn [flat_map fst snd]. rewrite !app_nil_r.
          replace (Z.to_nat (c + 1)) with (S (Z.to_nat c)) by lia.
          rewrite <- app_assoc. f_equal. cbn [repeat]. apply repeat_cons.
        - exists (counts ++ [(l, 1%Z)]). split; [reflexivity|].
          split; [unfold entries_ok in *; apply Forall_app; split; [exact Hok|]; constructor;
                  [cbn [fst snd]; split; [exact Hnb|lia]|constructor]|].
          split; [intros p Hp _; inversion Hp; subst; eauto|].
          rewrite expand_app. reflexivity. }
      destruct Hnew as [cs1 [Heq [Hok1 [Hlast1 Hexp]]]]. rewrite Heq.
      destruct (IH (S i) (Some l) cs1 blanks Hok1 Hlast1) as [cs [bl [H1 [H2 [H3 H4]]]]].
      exists cs, bl. split; [exact H1|]. split; [exact H2|]. split; [|exact H4].
      rewrite H3, Hexp, <- app_assoc. reflexivity.
Qed.

Lemma filter_split_length : forall {A} (f : A -> bool) l,
  (length (filter f l) + length (filter (fun x => negb (f x)) l) = length l)%nat.
Proof.
  induction l as [|a l IH]; [reflexivity|]. cbn [filter]. destruct (f a); cbn [negb length]; lia.
Qed.

Lemma filter_perm : forall {A} (f : A -> bool) l l', Permutation l l' -> Permutation (filter f l) (filter f l').
Proof.
  intros A f l l' H. induction H; cbn [filter].
  - constructor.
  - destruct (f x); [constructor|]; assumption.
  - destruct (f x), (f y); try reflexivity. constructor.
  - eapply Permutation_trans; eassumption.
Qed.

(* the constructor, for whatever permutation of the anagram the sort call leaves in tmp *)
Theorem new_anagram_searcher_from_spec : forall anagram blank tmp, Permutation tmp anagram ->
  exists a, new_anagram_searcher_from tmp blank (length anagram) = Ok a /\
    as_equiv a a /\
    forall w, exists r, accepts concrete_ops (SAnagram a) w = Ok r /\
                        (r = true <-> matches_anagram anagram blank w).
Proof.
  intros anagram blank tmp Hp. unfold new_anagram_searcher_from.
  destruct (count_loop_spec blank tmp O None [] 0%Z) as [cs [bl [H1 [H2 [H3 H4]]]]].
  { constructor. } { intros p Hp'. discriminate. }
  rewrite H1. cbn [bind fst snd]. eexists. split; [reflexivity|].
  cbn [expand flat_map app] in H3.
  assert (Hg : as_good (mkAS cs bl blank (Z.of_nat (length anagram)) [])) by exact H2.
  split.
  - unfold as_equiv. repeat split; auto.
  - intros w. destruct (as_accepts_spec w _ Hg) as [r [Hr Hiff]].
    + unfold as_balanced. cbn [as_counts as_blanks as_target as_path length]. split; [lia|].
      rewrite (Permutation_length H3). subst bl.
      rewrite <- (Permutation_length Hp).
      pose proof (filter_split_length (is_blank blank) tmp) as Hs.
      unfold letters_of, blanks_of. lia.
    + exists r. split; [exact Hr|]. rewrite Hiff. cbn [as_counts as_blanks]. unfold matches_anagram.
      assert (Hb : blanks_of tmp blank = blanks_of anagram blank).
      { unfold blanks_of. apply Permutation_length. apply filter_perm. exact Hp. }
      assert (Hl : Permutation (expand cs) (letters_of anagram blank)).
      { eapply Permutation_trans; [exact H3|]. unfold letters_of. apply filter_perm. exact Hp. }
      split; intros [fill [Hlen Hperm]]; exists fill; (split; [lia|]).
      * eapply Permutation_trans; [exact Hperm|]. apply Permutation_app_tail. exact Hl.
      * eapply Permutation_trans; [exact Hperm|]. apply Permutation_app_tail. apply Permutation_sym. exact Hl.
Qed.

(* ------------------------------------------------------------------ the modelled sort *)

Lemma swap_at_ok : forall k l, (S k < length l)%nat ->
  exists l', swap_at k l = Ok l' /\ Permutation l l' /\ length l' = length l.
Proof.
  induction k as [|k IH]; intros l H.
  - destruct l as [|x [|y r]]; cbn [length] in H; try lia.
    exists (y :: x :: r). split; [reflexivity|]. split; [constructor|reflexivity].
  - destruct l as [|x r]; cbn [length] in H; [lia|].
    destruct (IH r) as [r' [H1 [H2 H3]]]; [lia|].
    exists (x :: r'). cbn [swap_at]. rewrite H1. cbn [bind]. split; [reflexivity|].
    split; [constructor; exact H2|cbn [length]; lia].
Qed.

Lemma less_orig_ok : forall orig i j, (i < length orig)%nat -> (j < length orig)%nat ->
  exists b, less_orig orig i j = Ok b.
Proof.
  intros orig i j Hi Hj. unfold less_orig.
  destruct (nth_error orig i) eqn:E1; [|apply nth_error_None in E1; lia].
  destruct (nth_error orig j) eqn:E2; [|apply nth_error_None in E2; lia].
  eexists. reflexivity.
Qed.

Lemma ins_inner_ok : forall orig j tmp, (j < length tmp)%nat -> length tmp = length orig ->
  exists t, ins_inner orig j tmp = Ok t /\ Permutation tmp t /\ length t = length tmp.
Proof.
  intros orig. induction j as [|j IH]; intros tmp Hj Hl.
  - exists tmp. split; [reflexivity|]. split; [reflexivity|reflexivity].
  - cbn [ins_inner]. destruct (less_orig_ok orig (S j) j) as [b Hb]; try lia. rewrite Hb. cbn [bind].
    destruct b.
    + destruct (swap_at_ok j tmp Hj) as [t1 [S1 [S2 S3]]]. rewrite S1. cbn [bind].
      destruct (IH t1) as [t [I1 [I2 I3]]]; try lia.
      exists t. split; [exact I1|]. split; [eapply Permutation_trans; eassumption|lia].
    + exists tmp. split; [reflexivity|]. split; reflexivity.
Qed.

Lemma ins_outer_ok : forall orig k i tmp, (i + k <= length tmp)%nat -> length tmp = length orig ->
  exists t, ins_outer orig k i tmp = Ok t /\ Permutation tmp t /\ length t = length tmp.
Proof.
  intros orig. induction k as [|k IH]; intros i tmp Hi Hl.
  - exists tmp. split; [reflexivity|]. split; reflexivity.
  - cbn [ins_outer]. destruct (ins_inner_ok orig i tmp) as [t1 [I1 [I2 I3]]]; try lia.
    rewrite I1. cbn [bind]. destruct (IH (S i) t1) as [t [O1 [O2 O3]]]; try lia.
    exists t. split; [exact O1|]. split; [eapply Permutation_trans; eassumption|lia].
Qed.

Lemma sort_slice_orig_less_ok : forall anagram,
  exists tmp, sort_slice_orig_less anagram = Ok tmp /\ Permutation tmp anagram.
Proof.
  intros anagram. unfold sort_slice_orig_less.
  destruct anagram as [|a0 an]; [exists []; split; [reflexivity|constructor]|].
  set (anagram := a0 :: an).
  destruct (ins_outer_ok anagram (pred (length anagram)) 1 anagram) as [t [H1 [H2 _]]].
  - subst anagram. cbn [length pred]. lia.
  - reflexivity.
  - exists t. split; [exact H1|apply Permutation_sym; exact H2].
Qed.

(* ------------------------------------------------------------------ the contract *)

Definition ps_good (p : pattern_searcher) : Prop :=
  (0 <= ps_index p <= Z.of_nat (length (ps_pattern p)))%Z.

Definition s_equiv (x y : searcher) : Prop :=
  match x, y with
  | SPattern p, SPattern q => p = q /\ ps_good p
  | SAnagram a, SAnagram b => as_equiv a b
  | _, _ => False
  end.

Lemma ps_allow_step_ok : forall p b, ps_good p -> exists a, ps_allow_step p b = Ok a /\
  (a = true -> (ps_index p < Z.of_nat (length (ps_pattern p)))%Z).
Proof.
  intros p b [H0 H1]. unfold ps_allow_step.
  destruct (Z.leb_spec (Z.of_nat (length (ps_pattern p))) (ps_index p)) as [Hle|Hlt].
  - exists false. split; [reflexivity|discriminate].
  - destruct (Z.ltb_spec (ps_index p) 0) as [Hn|_]; [lia|].
    destruct (nth_error (ps_pattern p) (Z.to_nat (ps_index p))) eqn:En.
    + eexists. split; [reflexivity|]. intros _. exact Hlt.
    + apply nth_error_None in En. lia.
Qed.

Theorem concrete_contract : contract concrete_ops s_equiv.
Proof.
  constructor.
  - intros [p|a] [q|b] H; cbn [s_equiv] in *; try contradiction.
    + destruct H as [-> Hg]. split; [reflexivity|exact Hg].
    + apply as_equiv_sym. exact H.
  - intros [p|a] [q|b] [r|c] H1 H2; cbn [s_equiv] in *; try contradiction.
    + destruct H1 as [-> Hg]. exact H2.
    + eapply as_equiv_trans; eassumption.
  - intros [p|a] [q|b] l H; cbn [s_equiv concrete_ops op_allow_step] in *; try contradiction.
    + destruct H as [<- Hg]. destruct (ps_allow_step_ok p l Hg) as [r [Hr _]]. exists r. split; exact Hr.
    + eexists. split; [reflexivity|]. f_equal. symmetry. apply as_allow_step_resp. exact H.
  - intros [p|a] [q|b] H; cbn [s_equiv concrete_ops op_allow_word] in *; try contradiction.
    + destruct H as [<- Hg]. eexists. split; reflexivity.
    + eexists. split; [reflexivity|]. f_equal. symmetry. apply as_allow_word_resp. exact H.
  - intros [p|a] [q|b] l H Ha; cbn [s_equiv concrete_ops op_allow_step op_step] in *; try contradiction.
    + destruct H as [<- Hg]. destruct (ps_allow_step_ok p l Hg) as [r [Hr Hlt]].
      rewrite Hr in Ha. inversion Ha; subst r. specialize (Hlt eq_refl).
      eexists. eexists. split; [reflexivity|]. split; [reflexivity|].
      cbn [s_equiv]. split; [reflexivity|]. unfold ps_good, ps_step in *. cbn [ps_index ps_pattern]. lia.
    + eexists. eexists. split; [reflexivity|]. split; [reflexivity|]. cbn [s_equiv].
      apply as_step_resp. exact H.
  - intros [p|a] l x' H Ha Hs; cbn [s_equiv concrete_ops op_allow_step op_step op_backstep] in *.
    + inversion Hs; subst x'. eexists. split; [reflexivity|]. cbn [s_equiv].
      destruct H as [_ Hg]. split; [|].
      * destruct p as [pat bl idx]. unfold ps_backstep, ps_step. cbn [ps_index ps_pattern ps_blank]. f_equal. lia.
      * destruct p as [pat bl idx]. unfold ps_good, ps_backstep, ps_step in *. cbn [ps_index ps_pattern ps_blank] in *. lia.
    + inversion Hs; subst x'. inversion Ha as [Ha'].
      destruct (as_step_back a l H Ha') as [a'' [Hb He]]. rewrite Hb. cbn [bind].
      eexists. split; [reflexivity|]. exact He.
  - intros [p|a] [q|b] x' H Hb Hx'; cbn [s_equiv concrete_ops op_backstep] in *; try contradiction.
    + destruct H as [<- Hg]. inversion Hb; subst x'. eexists. split; [reflexivity|]. exact Hx'.
    + destruct (as_backstep a) as [a'| |] eqn:Eb; cbn [bind] in Hb; try discriminate.
      inversion Hb; subst x'. destruct (as_backstep_resp a b a' H Eb) as [b' [Hb' He]].
      rewrite Hb'. cbn [bind]. eexists. split; [reflexivity|]. exact He.
  - intros x H. exists x. split; [reflexivity|exact H].
Qed.

(* ------------------------------------------------------------------ searchers as the caller makes them *)

(* x is the searcher object NewPatternSearcher / NewAnagramSearcher returns for the
   description sp, whatever permutation the sort call inside NewAnagramSearcher leaves *)
Inductive built : sspec -> searcher -> Prop :=
| built_P : forall p b, built (SpecP p b) (SPattern (new_pattern_searcher p b))
| built_A : forall a b tmp x, Permutation tmp a ->
    new_anagram_searcher_from tmp b (length a) = Ok x -> built (SpecA a b) (SAnagram x).

Definition spec_matches (sp : sspec) (w : word) : Prop :=
  match sp with
  | SpecP p b => matches_pattern p b w = true
  | SpecA a b => matches_anagram a b w
  end.

Lemma built_ok : forall sp x, built sp x ->
  s_equiv x x /\ forall w, acc concrete_ops x w = true <-> spec_matches sp w.
Proof.
  intros sp x H. destruct H as [p b|a b tmp x Hp Hn].
  - split.
    + cbn [s_equiv]. split; [reflexivity|]. unfold ps_good, new_pattern_searcher. cbn [ps_index ps_pattern]. lia.
    + intros w. rewrite ps_acc. cbn [spec_matches]. reflexivity.
  - destruct (new_anagram_searcher_from_spec a b tmp Hp) as [x0 [H0 [He Hacc]]].
    rewrite H0 in Hn. inversion Hn; subst x0. split; [exact He|].
    intros w. destruct (Hacc w) as [r [Hr Hiff]]. unfold acc. rewrite Hr. cbn [spec_matches].
    rewrite <- Hiff. destruct r; split; congruence.
Qed.

(* the model's constructor (with the modelled insertion sort) never panics and builds such
   an object *)
Lemma new_searcher_built : forall sp, exists x, new_searcher sp = Ok x /\ built sp x.
Proof.
  intros [p b|a b]; cbn [new_searcher].
  - eexists. split; [reflexivity|constructor].
  - unfold new_anagram_searcher. destruct (sort_slice_orig_less_ok a) as [tmp [Hs Hp]].
    rewrite Hs. cbn [bind]. destruct (new_anagram_searcher_from_spec a b tmp Hp) as [x [Hx _]].
    rewrite Hx. cbn [bind]. eexists. split; [reflexivity|]. econstructor; eassumption.
Qed.

Lemma new_searchers_built : forall sps, exists xs, new_searchers sps = Ok xs /\ Forall2 built sps xs.
Proof.
  induction sps as [|sp sps IH].
  - exists []. split; [reflexivity|constructor].
  - destruct (new_searcher_built sp) as [x [Hx Hb]]. destruct IH as [xs [Hxs Hbs]].
    exists (x :: xs). cbn [new_searchers]. rewrite Hx, Hxs. split; [reflexivity|constructor; assumption].
Qed.

Lemma built_all : forall sps xs, Forall2 built sps xs ->
  Forall2 s_equiv xs xs /\
  forall w, accall concrete_ops xs w = true <-> Forall (fun sp => spec_matches sp w) sps.
Proof.
  induction 1 as [|sp x sps xs Hb _ [IH1 IH2]].
  - split; [constructor|]. intros w. split; [constructor|reflexivity].
  - destruct (built_ok sp x Hb) as [He Hacc]. split; [constructor; assumption|].
    intros w. unfold accall in *. cbn [forallb]. rewrite andb_true_iff, Hacc, IH2.
    split; [intros [? ?]; constructor; assumption|intros HF; inversion HF; subst; split; assumption].
Qed.

(* Search with pattern / anagram searchers on a well-formed Dawg, run twice with the same
   searcher objects. *)
Theorem search_concrete : forall s d t, dawg_wf s d t ->
  forall sps xs, Forall2 built sps xs ->
  forall fuel, (search_fuel t <= fuel)%nat ->
  exists res xs1 xs2,
    search_c fuel s d xs = Ok (res, xs1) /\
    search_c fuel s d xs1 = Ok (res, xs2) /\
    Forall2 s_equiv xs1 xs /\ Forall2 s_equiv xs2 xs /\
    exists keep, res = expected keep (tlang t) /\
      forall w, keep w = true <-> Forall (fun sp => spec_matches sp w) sps.
Proof.
  intros s d t Hwf sps xs Hb fuel Hfuel.
  destruct (built_all sps xs Hb) as [He Hacc].
  destruct (search_twice concrete_ops s_equiv concrete_contract s d t Hwf xs He fuel Hfuel)
    as [xs1 [xs2 [H1 [H2 [He1 He2]]]]].
  exists (expected (accall concrete_ops xs) (tlang t)), xs1, xs2.
  unfold search_c. split; [exact H1|]. split; [exact H2|]. split; [exact He1|]. split; [exact He2|].
  exists (accall concrete_ops xs). split; [reflexivity|exact Hacc].
Qed.
