(* Model of /repo/dawg/dawg.go: Builder (Initialise, Add, Finish, New), commonPrefix,
   replaceOrRegister, areEquivalent, addSuffix, Lookup, NumberOfWords.
   Definitions only; the proofs are in the other files of this directory.

   Heap.  A *Dawg is a key of type N into a store (finite map key -> node).  The nodes the
   builder allocates get the key lastID+1, which is also the value of their id field, so
   "pointer equality" of the Go code (areEquivalent compares links[i] pointers) is equality of
   keys.  The root is key 0.  Nodes that replaceOrRegister unlinks stay in the store as
   unreachable garbage (as they do in Go until collected).

   Results.  [Ok a] / [Panic] (index out of range, nil dereference: here a key without node)
   / [NoFuel] (only replaceOrRegister, which recurses down the last branch, takes fuel).
   Bytes are N (the theorems of C12/C13 hold for any N; C14 assumes < 256), numWords and the
   rank accumulator are Z (Go int; no overflow below 2^63 words). *)
From Coq Require Import List NArith ZArith Bool FMapPositive.
Import ListNotations.

Inductive res (A : Type) : Type :=
| Ok (a : A)
| Panic
| NoFuel.
Arguments Ok {A} a.
Arguments Panic {A}.
Arguments NoFuel {A}.

Definition bind {A B} (r : res A) (f : A -> res B) : res B :=
  match r with Ok a => f a | Panic => Panic | NoFuel => NoFuel end.
Notation "'do' x <- r ; k" := (bind r (fun x => k)) (at level 200, x pattern, r at level 100, k at level 200).

Definition byte := N.
Definition word := list byte.

(* type Dawg struct { id; numWords; final; linkLabels; links } *)
Record node := mkNode {
  nid : N;
  nwords : Z;
  nfinal : bool;
  nlabels : list byte;
  nkids : list N
}.

Definition store := PositiveMap.t node.
Definition sempty : store := PositiveMap.empty node.
Definition sget (s : store) (i : N) : option node := PositiveMap.find (N.succ_pos i) s.
Definition sset (s : store) (i : N) (n : node) : store := PositiveMap.add (N.succ_pos i) n s.

Definition deref (s : store) (i : N) : res node :=
  match sget s i with Some n => Ok n | None => Panic end.

(* bytes.Compare *)
Fixpoint lex_compare (a b : word) : comparison :=
  match a, b with
  | [], [] => Eq
  | [], _ :: _ => Lt
  | _ :: _, [] => Gt
  | x :: a', y :: b' =>
    match N.compare x y with
    | Eq => lex_compare a' b'
    | c => c
    end
  end.

(* position of the first label equal to c:  for j, link := range labels { if link == c ... } *)
Fixpoint index_of (c : byte) (l : list byte) : option nat :=
  match l with
  | [] => None
  | x :: l' => if N.eqb x c then Some O else option_map S (index_of c l')
  end.

Definition bump (s : store) (i : N) : res store :=
  do n <- deref s i;
  Ok (sset s i (mkNode (nid n) (nwords n + 1) (nfinal n) (nlabels n) (nkids n))).

(* The loop of commonPrefix, entered with [cur] already counted.  Returns the store, the
   unmatched suffix and the node reached. *)
Fixpoint common_prefix_from (s : store) (cur : N) (w : word) : res (store * word * N) :=
  match w with
  | [] => Ok (s, [], cur)
  | c :: w' =>
    do n <- deref s cur;
    match index_of c (nlabels n) with
    | None => Ok (s, w, cur)
    | Some j =>
      match nth_error (nkids n) j with
      | None => Panic
      | Some k => do s' <- bump s k; common_prefix_from s' k w'
      end
    end
  end.

Definition common_prefix (s : store) (root : N) (w : word) : res (store * word * N) :=
  do s' <- bump s root; common_prefix_from s' root w.

(* areEquivalent(t, u): the label loop indexes both label slices up to len(t.links) *)
Fixpoint labels_eq (n : nat) (lt lu : list byte) : res bool :=
  match n with
  | O => Ok true
  | S n' =>
    match lt, lu with
    | a :: lt', b :: lu' => if N.eqb a b then labels_eq n' lt' lu' else Ok false
    | _, _ => Panic
    end
  end.

Fixpoint keys_eq (a b : list N) : bool :=
  match a, b with
  | [], [] => true
  | x :: a', y :: b' => N.eqb x y && keys_eq a' b'
  | _, _ => false
  end.

Definition are_equivalent (t u : node) : res bool :=
  if negb (Bool.eqb (nfinal t) (nfinal u)) then Ok false
  else if negb (Nat.eqb (length (nkids t)) (length (nkids u))) then Ok false
  else
    do le <- labels_eq (length (nkids t)) (nlabels t) (nlabels u);
    if negb le then Ok false else Ok (keys_eq (nkids t) (nkids u)).

(* for _, u := range register { if areEquivalent(lastChild, u) ... } *)
Fixpoint find_equiv (s : store) (lc : node) (reg : list N) : res (option N) :=
  match reg with
  | [] => Ok None
  | u :: reg' =>
    do nu <- deref s u;
    do e <- are_equivalent lc nu;
    if e then Ok (Some u) else find_equiv s lc reg'
  end.

Fixpoint last_opt {A} (l : list A) : option A :=
  match l with
  | [] => None
  | [x] => Some x
  | _ :: l' => last_opt l'
  end.

Definition set_last_kid (n : node) (u : N) : node :=
  mkNode (nid n) (nwords n) (nfinal n) (nlabels n) (removelast (nkids n) ++ [u]).

Fixpoint replace_or_register (fuel : nat) (s : store) (t : N) (reg : list N) : res (store * list N) :=
  match fuel with
  | O => NoFuel
  | S f =>
    do nt <- deref s t;
    match last_opt (nkids nt) with
    | None => Panic
    | Some lc =>
      do nlc <- deref s lc;
      do sr <- (match nkids nlc with
                | [] => Ok (s, reg)
                | _ :: _ => replace_or_register f s lc reg
                end);
      let '(s1, reg1) := sr in
      do nlc1 <- deref s1 lc;
      do e <- find_equiv s1 nlc1 reg1;
      match e with
      | Some u => do nt1 <- deref s1 t; Ok (sset s1 t (set_last_kid nt1 u), reg1)
      | None => Ok (s1, reg1 ++ [lc])
      end
    end
  end.

Definition new_node (id : N) : node := mkNode id 1 false [] [].

Fixpoint add_suffix (s : store) (cur : N) (suffix : word) (lastid : N) : res (store * N) :=
  match suffix with
  | [] =>
    do n <- deref s cur;
    Ok (sset s cur (mkNode (nid n) (nwords n) true (nlabels n) (nkids n)), lastid)
  | b :: suffix' =>
    let id := N.succ lastid in
    do n <- deref s cur;
    let s1 := sset s cur (mkNode (nid n) (nwords n) (nfinal n) (nlabels n ++ [b]) (nkids n ++ [id])) in
    add_suffix (sset s1 id (new_node id)) id suffix' id
  end.

(* type Builder struct { d; lastWord; register; lastID; done }  (d is the root, key 0) *)
Record builder := mkBuilder {
  bstore : store;
  blast : option word;
  breg : list N;
  blastid : N;
  bdone : bool
}.

Definition root : N := 0%N.

Definition initialise : builder :=
  mkBuilder (sset sempty root (mkNode 0 0 false [] [])) None [] 0%N false.

Definition last_len (b : builder) : nat :=
  match blast b with Some v => length v | None => O end.

(* db.lastWord != nil && bytes.Compare(db.lastWord, b) != -1 *)
Definition rejects (b : builder) (w : word) : bool :=
  match blast b with
  | Some v => match lex_compare v w with Lt => false | _ => true end
  | None => false
  end.

(* Add: [Ok (b', true)] accepted, [Ok (b, false)] an error was returned (the state is the
   argument itself: both checks come before the first write).  The model starts from an
   initialised builder; Go's zero Builder calls Initialise on first use. *)
Definition add (b : builder) (w : word) : res (builder * bool) :=
  if bdone b then Ok (b, false)
  else if rejects b w then Ok (b, false)
  else
    do pr <- common_prefix (bstore b) root w;
    let '(s1, suffix, lastnode) := pr in
    do nl <- deref s1 lastnode;
    do sr <- (match nkids nl with
              | [] => Ok (s1, breg b)
              | _ :: _ => replace_or_register (S (last_len b)) s1 lastnode (breg b)
              end);
    let '(s2, reg2) := sr in
    do sl <- add_suffix s2 lastnode suffix (blastid b);
    let '(s3, lastid3) := sl in
    Ok (mkBuilder s3 (Some w) reg2 lastid3 (bdone b), true).

(* Finish: [Ok None] is the error return; otherwise the store in which key [root] is the
   finished automaton.  (done is never set by the code, so the error branch is dead.) *)
Definition finish (b : builder) : res (option store) :=
  if bdone b then Ok None
  else
    do nr <- deref (bstore b) root;
    match nkids nr with
    | [] => Ok (Some (bstore b))
    | _ :: _ =>
      do sr <- replace_or_register (S (last_len b)) (bstore b) root (breg b);
      Ok (Some (fst sr))
    end.

(* a sequence of Add calls; the flags say which were accepted *)
Fixpoint add_seq (b : builder) (ws : list word) : res (builder * list bool) :=
  match ws with
  | [] => Ok (b, [])
  | w :: ws' =>
    do r <- add b w;
    let '(b1, ok) := r in
    do r' <- add_seq b1 ws';
    let '(b2, oks) := r' in
    Ok (b2, ok :: oks)
  end.

(* New: stops at the first error *)
Fixpoint add_all (b : builder) (ws : list word) : res (option builder) :=
  match ws with
  | [] => Ok (Some b)
  | w :: ws' =>
    do r <- add b w;
    let '(b1, ok) := r in
    if ok then add_all b1 ws' else Ok None
  end.

Definition new_dawg (ws : list word) : res (option store) :=
  do ob <- add_all initialise ws;
  match ob with
  | None => Ok None
  | Some b => finish b
  end.

(* ---------------------------------------------------------------- Lookup, NumberOfWords *)

Definition number_of_words (s : store) (d : N) : res Z :=
  do n <- deref s d; Ok (nwords n).

(* the inner loop of Lookup: first label equal to c, adding numWords of the links passed *)
Fixpoint scan_links (s : store) (c : byte) (labs : list byte) (kids : list N) (idx : Z)
  : res (option (N * Z)) :=
  match labs with
  | [] => Ok None
  | l :: labs' =>
    match kids with
    | [] => Panic
    | k :: kids' =>
      if N.eqb l c then Ok (Some (k, idx))
      else do nk <- deref s k; scan_links s c labs' kids' (idx + nwords nk)
    end
  end.

Fixpoint lookup_from (s : store) (cur : N) (w : word) (idx : Z) : res (option Z) :=
  match w with
  | [] => do n <- deref s cur; if nfinal n then Ok (Some idx) else Ok None
  | c :: w' =>
    do n <- deref s cur;
    do r <- scan_links s c (nlabels n) (nkids n) idx;
    match r with
    | None => Ok None
    | Some (k, idx') =>
      do nk <- deref s k;
      lookup_from s k w' (if nfinal nk then idx' + 1 else idx')
    end
  end.

(* Lookup: [Some rank] for (rank, true), [None] for (0, false) *)
Definition lookup (s : store) (d : N) (w : word) : res (option Z) :=
  do n <- deref s d;
  lookup_from s d w (if nfinal n then 0 else -1)%Z.

(* ---------------------------------------------------------------- listNodesCountEdges
   The iterative traversal shared (textually duplicated in Go) by numberOfNodes and GobEncode.
   The two stacks currDawgs/currDecisions always have equal length and are one list of pairs
   here, top first; an entry holds the node and the *next* link index to try (Go stores the
   last index tried, -1 initially).  Exactly as in Go, a link to a node already seen is pushed
   before the test and the inner loop then goes on with the same currDawg, so the following
   push overwrites the decision of that pushed entry, not of currDawg's.
   [emit] is what the GobEncode copy of the loop appends for a node met for the first time;
   [nodes] is the sorted slice of ids seen (sort.Search = number of entries < id). *)

Fixpoint lower_bound (id : N) (nodes : list N) : nat :=
  match nodes with
  | [] => O
  | x :: nodes' => if N.ltb x id then S (lower_bound id nodes') else O
  end.

Definition seen_at (id : N) (nodes : list N) (index : nat) : bool :=
  match nth_error nodes index with Some x => N.eqb x id | None => false end.

Definition insert_at (id : N) (nodes : list N) (index : nat) : list N :=
  firstn index nodes ++ id :: skipn index nodes.

Record dfs_state := mkDfs {
  dstack : list (N * nat);
  dnodes : list N;
  dedges : Z;
  dout : list byte
}.

Inductive inner_result :=
| Descend (st : dfs_state)
| Exhausted (st : dfs_state).

Definition set_top_next (stack : list (N * nat)) (next : nat) : list (N * nat) :=
  match stack with
  | [] => []
  | (k, _) :: rest => (k, next) :: rest
  end.

(* for j := ...; j < len(currDawg.linkLabels); j++ — [labs]/[kids] are the slices from j on *)
Fixpoint dfs_inner (emit : node -> list byte) (s : store) (j : nat) (labs : list byte)
  (kids : list N) (st : dfs_state) : res inner_result :=
  match labs with
  | [] => Ok (Exhausted st)
  | _ :: labs' =>
    match kids with
    | [] => Panic
    | kid :: kids' =>
      match dstack st with
      | [] => Panic
      | _ :: _ =>
        let stack' := (kid, O) :: set_top_next (dstack st) (S j) in
        do nk <- deref s kid;
        let index := lower_bound (nid nk) (dnodes st) in
        if seen_at (nid nk) (dnodes st) index
        then dfs_inner emit s (S j) labs' kids' (mkDfs stack' (dnodes st) (dedges st) (dout st))
        else Ok (Descend (mkDfs stack' (insert_at (nid nk) (dnodes st) index)
                                (dedges st + Z.of_nat (length (nkids nk)))
                                (dout st ++ emit nk)))
      end
    end
  end.

Fixpoint dfs_loop (emit : node -> list byte) (fuel : nat) (s : store) (st : dfs_state) : res dfs_state :=
  match fuel with
  | O => NoFuel
  | S f =>
    match dstack st with
    | [] => Panic
    | (cur, next) :: _ =>
      do n <- deref s cur;
      do r <- dfs_inner emit s next (skipn next (nlabels n)) (skipn next (nkids n)) st;
      match r with
      | Descend st' => dfs_loop emit f s st'
      | Exhausted st' =>
        match dstack st' with
        | [] => Panic
        | [_] => Ok (mkDfs [] (dnodes st') (dedges st') (dout st'))
        | _ :: rest => dfs_loop emit f s (mkDfs rest (dnodes st') (dedges st') (dout st'))
        end
      end
    end
  end.

Definition list_nodes_count_edges (fuel : nat) (s : store) (d : N) : res (list N * Z) :=
  do n <- deref s d;
  do st <- dfs_loop (fun _ => []) fuel s
             (mkDfs [(d, O)] [nid n] (Z.of_nat (length (nkids n))) []);
  Ok (dnodes st, dedges st).

Definition number_of_nodes (fuel : nat) (s : store) (d : N) : res nat :=
  do r <- list_nodes_count_edges fuel s d; Ok (length (fst r)).
