(* Proofs about the builder model (C12). *)
From Coq Require Import List NArith ZArith Bool Lia Sorted.
From Mamba Require Import Dawg.Model Dawg.Tree Dawg.Spec.
Import ListNotations.

(* A rejected Add returns the builder it was given. *)
Lemma add_rejected_unchanged : forall b w b', add b w = Ok (b', false) -> b' = b.
Proof.
  intros b w b' H. unfold add in H.
  destruct (bdone b); [inversion H; reflexivity|].
  destruct (rejects b w); [inversion H; reflexivity|].
  repeat (match type of H with
          | context [bind ?r _] => destruct r; cbn [bind] in H
          | context [let '(_, _) := ?p in _] => destruct p
          end; try discriminate).
Qed.
