(* Proofs about the builder model (C12): the invariant of the builder between Add calls and
   what New / Finish return for a strictly increasing word list. *)
From Coq Require Import List NArith ZArith Bool Lia Sorted FMapPositive.
From Mamba Require Import Dawg.Model Dawg.Tree Dawg.Spec Dawg.TreeFacts Dawg.BuildStore Dawg.BuildSuffix
  Dawg.BuildRor Dawg.BuildAdd.
Import ListNotations.

(* A rejected Add returns the builder it was given. *)
Lemma add_rejected_unchanged : forall b w b', add b w = Ok (b', false) -> b' = b.
Proof.
  intros b w b' H. unfold add in H.
  destruct (bdone b); [inversion H; reflexivity|].
  destruct (rejects b w); [inversion H; reflexivity|].
  repeat (match type of H with
          | context [bind ?r _] => destruct r; cbn [bind] in H
          | context [let '(_, _) := ?p in _] => destruct p
          end; try discriminate).
Qed.

(* [binv b ws]: b is the state of a builder to which exactly the words ws were added
   successfully (in this order). *)
Definition binv (b : builder) (ws : list word) : Prop :=
  bdone b = false /\ reg_ok (bstore b) (breg b) /\ bound (bstore b) (blastid b) /\
  exists v t, srep (bstore b) (breg b) root v t /\ tspine t v /\ good t /\ tlang t = ws /\
    match blast b with
    | Some v' => v' = v /\ exists ws0, ws = ws0 ++ [v]
    | None => v = [] /\ tfin t = false /\ ws = []
    end.

Lemma binv_initialise : binv initialise [].
Proof.
  unfold binv, initialise. cbn [bdone bstore breg blastid blast].
  split; [reflexivity|]. split; [|split].
  - split; [|split]; [intros r []|intros r []|intros r1 r2 t []].
  - intros i n H. destruct (N.eq_dec root i) as [<-|NE]; [unfold root; lia|].
    rewrite sget_sset_other, sget_sempty in H; [discriminate|exact NE].
  - exists [], (Node false 0 []). split; [|split; [|split; [|split]]].
    + eapply srep_end' with (ch := []); [apply sget_sset_same|intros []|reflexivity|constructor|constructor|reflexivity].
    + constructor.
    + repeat split; constructor; try reflexivity; constructor.
    + reflexivity.
    + auto.
Qed.

Lemma rejects_false_rel : forall b w ws, binv b ws -> rejects b w = false ->
  forall v t, srep (bstore b) (breg b) root v t -> 
  match blast b with Some v' => v' = v | None => v = [] /\ tfin t = false end -> rel v w t.
Proof.
  intros b w ws _ Hrej v t _ Hm. unfold rejects in Hrej.
  destruct (blast b) as [v'|].
  - subst v'. left. unfold lex_lt. destruct (lex_compare v w); try discriminate. reflexivity.
  - right. exact Hm.
Qed.

(* an Add that passes the order check succeeds and extends the word list *)
Lemma add_accepted : forall b w ws, binv b ws -> rejects b w = false ->
  exists b', add b w = Ok (b', true) /\ binv b' (ws ++ [w]) /\ blast b' = Some w.
Proof.
  intros b w ws HI Hrej.
  pose proof HI as (Hd & HR & HB & v & t & HS & HT & HG & HL & Hm).
  assert (HRel : rel v w t).
  { eapply rejects_false_rel; eauto. destruct (blast b); [tauto|tauto]. }
  assert (HF : (length v <= S (last_len b))%nat).
  { unfold last_len. destruct (blast b) as [v'|]; [destruct Hm as [-> _]; lia|destruct Hm as [-> _]; simpl; lia]. }
  destruct (add_from_spec w (S (last_len b)) _ _ _ root v t HR HB HS HT HG HRel HF)
    as (s3 & reg3 & L3 & Hadd & HS3 & HR3 & HB3 & HL3 & Hincl & Hnew & Hfr).
  rewrite add_unfold, Hd, Hrej, Hadd. cbn [bind].
  eexists. split; [reflexivity|]. split; [|reflexivity].
  unfold binv. cbn [bdone bstore breg blastid blast].
  split; [reflexivity|]. split; [exact HR3|]. split; [exact HB3|].
  exists w, (tadd w t). split; [exact HS3|]. split; [eapply tspine_tadd; eauto|].
  split; [eapply good_tadd; eauto|]. split; [rewrite (tlang_tadd w t v HT HRel), HL; reflexivity|].
  split; [reflexivity|]. exists ws. reflexivity.
Qed.

Lemma add_rejected : forall b w, rejects b w = true -> add b w = Ok (b, false).
Proof. intros b w H. unfold add. destruct (bdone b); [reflexivity|]. rewrite H. reflexivity. Qed.

(* ws may follow the previous word o *)
Definition inc_after (o : option word) (ws : list word) : Prop :=
  match ws with
  | [] => True
  | w :: _ => match o with Some v => lex_lt v w | None => True end /\ increasing ws
  end.

Lemma rejects_false_iff : forall b w,
  rejects b w = false <-> match blast b with Some v => lex_lt v w | None => True end.
Proof.
  intros b w. unfold rejects, lex_lt. destruct (blast b) as [v|]; [|tauto].
  destruct (lex_compare v w); split; intros; try discriminate; auto.
Qed.

Lemma add_all_spec : forall ws1 b ws0, binv b ws0 -> inc_after (blast b) ws1 ->
  exists b', add_all b ws1 = Ok (Some b') /\ binv b' (ws0 ++ ws1).
Proof.
  induction ws1 as [|w ws1 IH]; intros b ws0 HI Hinc.
  - exists b. rewrite app_nil_r. split; [reflexivity|exact HI].
  - destruct Hinc as [Hfirst Hinc].
    assert (Hrej : rejects b w = false) by (apply rejects_false_iff; exact Hfirst).
    destruct (add_accepted b w ws0 HI Hrej) as (b1 & Hadd & HI1 & Hlast).
    cbn [add_all]. rewrite Hadd. cbn [bind].
    destruct (IH b1 (ws0 ++ [w]) HI1) as (b' & Hall & HI').
    { rewrite Hlast. destruct ws1 as [|w' ws1']; [exact I|]. simpl in Hinc. destruct Hinc as [H1 H2].
      split; [exact H1|exact H2]. }
    exists b'. split; [exact Hall|]. rewrite <- app_assoc in HI'. exact HI'.
Qed.

(* the finished automaton: the root is the only unregistered node *)
Definition final_ok (s : store) (ws : list word) : Prop :=
  exists reg t, reg_ok s reg /\ srep s reg root [] t /\ good t /\ tlang t = ws.

Lemma finish_spec : forall b ws, binv b ws -> exists s, finish b = Ok (Some s) /\ final_ok s ws.
Proof.
  intros b ws (Hd & HR & HB & v & t & HS & HT & HG & HL & Hm).
  unfold finish. rewrite Hd.
  pose proof (srep_node _ _ _ _ _ HS) as (n & Hn & _ & _ & _ & Hlen).
  rewrite (deref_ok _ _ _ Hn). cbn [bind].
  destruct v as [|c v'].
  - destruct t as [f nw ch]. pose proof (tspine_nil_inv _ _ _ HT) as ->. cbn [tch length] in Hlen.
    destruct (nkids n); [|discriminate].
    exists (bstore b). split; [reflexivity|]. exists (breg b), (Node f nw []). auto.
  - destruct t as [f nw ch]. pose proof (tspine_cons_inv _ _ _ _ _ HT) as (a & tk & -> & _).
    cbn [tch] in Hlen. rewrite app_length in Hlen. cbn [length] in Hlen.
    destruct (nkids n) as [|kk kks]; [simpl in Hlen; lia|].
    assert (HGk : kids_good (Node f nw (a ++ [(c, tk)]))).
    { unfold kids_good. cbn [tch]. eapply good_children; eauto. }
    assert (HF : (length v' < S (last_len b))%nat).
    { unfold last_len. destruct (blast b) as [v0|]; [destruct Hm as [-> _]; simpl; lia|destruct Hm as [E _]; discriminate]. }
    destruct (ror_spec v' (S (last_len b)) _ _ root _ c HR HS HT HGk HF)
      as (s' & reg' & Hror & HS' & HR' & _).
    rewrite Hror. cbn [bind fst].
    exists s'. split; [reflexivity|]. exists reg', (Node f nw (a ++ [(c, tk)])). auto.
Qed.

Lemma increasing_inc_after : forall ws, increasing ws -> inc_after None ws.
Proof. intros [|w ws] H; simpl; auto. Qed.

Theorem new_dawg_spec : forall ws, increasing ws -> exists s, new_dawg ws = Ok (Some s) /\ final_ok s ws.
Proof.
  intros ws Hinc. unfold new_dawg.
  destruct (add_all_spec ws initialise [] binv_initialise) as (b & Hall & HI).
  { apply increasing_inc_after. exact Hinc. }
  rewrite Hall. cbn [bind]. apply finish_spec. exact HI.
Qed.
