(* bytes.Compare as a strict total order on words; rank_of on strictly increasing lists. *)
From Coq Require Import List NArith ZArith Bool Lia Sorted.
From Mamba Require Import Dawg.Model Dawg.Spec.
Import ListNotations.

Lemma lex_compare_refl : forall a, lex_compare a a = Eq.
Proof. induction a as [|x a IH]; simpl; auto. rewrite N.compare_refl. exact IH. Qed.

Lemma lex_compare_eq : forall a b, lex_compare a b = Eq -> a = b.
Proof.
  induction a as [|x a IH]; intros [|y b] H; simpl in H; try discriminate; auto.
  destruct (N.compare_spec x y); try discriminate. subst. f_equal. auto.
Qed.

Lemma lex_compare_antisym : forall a b, lex_compare b a = CompOpp (lex_compare a b).
Proof.
  induction a as [|x a IH]; intros [|y b]; simpl; auto.
  rewrite (N.compare_antisym x y). destruct (N.compare x y); simpl; auto.
Qed.

Lemma lex_lt_irrefl : forall a, ~ lex_lt a a.
Proof. intros a H. unfold lex_lt in H. rewrite lex_compare_refl in H. discriminate. Qed.

Lemma lex_lt_trans : forall a b c, lex_lt a b -> lex_lt b c -> lex_lt a c.
Proof.
  unfold lex_lt. induction a as [|x a IH]; intros [|y b] [|z c] H1 H2; simpl in *; try discriminate; auto.
  destruct (N.compare_spec x y), (N.compare_spec y z); try discriminate; subst.
  - rewrite N.compare_refl. eapply IH; eauto.
  - destruct (N.compare_spec y z); try lia. reflexivity.
  - destruct (N.compare_spec x z); try lia. reflexivity.
  - destruct (N.compare_spec x z); try lia. reflexivity.
Qed.

Lemma lex_lt_asym : forall a b, lex_lt a b -> ~ lex_lt b a.
Proof. intros a b H1 H2. apply (lex_lt_irrefl a). eapply lex_lt_trans; eauto. Qed.

Lemma lex_total : forall a b, lex_lt a b \/ a = b \/ lex_lt b a.
Proof.
  intros a b. unfold lex_lt. rewrite (lex_compare_antisym a b).
  destruct (lex_compare a b) eqn:E; simpl; auto. right; left. apply lex_compare_eq; auto.
Qed.

Lemma word_eqb_eq : forall a b, word_eqb a b = true <-> a = b.
Proof.
  induction a as [|x a IH]; intros [|y b]; simpl; try (split; discriminate); [tauto|].
  rewrite andb_true_iff, N.eqb_eq, IH. split; [intros [-> ->]; reflexivity|intros E; inversion E; auto].
Qed.

Lemma word_eqb_refl : forall a, word_eqb a a = true.
Proof. intros. apply word_eqb_eq. reflexivity. Qed.

Lemma increasing_sorted : forall ws, increasing ws -> StronglySorted lex_lt ws.
Proof.
  induction ws as [|w ws IH]; intros H; [constructor|].
  destruct H as [H1 H2]. specialize (IH H2). constructor; auto.
  destruct ws as [|w' ws']; [constructor|].
  inversion IH as [|? ? _ HF]; subst. constructor; auto.
  eapply Forall_impl; [|exact HF]. intros a Ha. eapply lex_lt_trans; eauto.
Qed.

Lemma sorted_increasing : forall ws, StronglySorted lex_lt ws -> increasing ws.
Proof.
  induction 1 as [|w ws HS IH HF]; simpl; auto. split; auto.
  destruct ws; auto. inversion HF; auto.
Qed.

Lemma increasing_NoDup : forall ws, increasing ws -> NoDup ws.
Proof.
  intros ws H. apply increasing_sorted in H. induction H as [|w ws HS IH HF]; constructor; auto.
  intro Hin. rewrite Forall_forall in HF. apply (lex_lt_irrefl w). auto.
Qed.

(* rank_of is the position of the first occurrence *)
Lemma rank_of_none : forall w ws, rank_of w ws = None <-> ~ In w ws.
Proof.
  induction ws as [|x ws IH]; simpl; [tauto|].
  destruct (word_eqb x w) eqn:E.
  - apply word_eqb_eq in E. split; [discriminate|]. intros H. exfalso. apply H. auto.
  - destruct (rank_of w ws); simpl.
    + split; [discriminate|]. intros H. exfalso. apply H. right.
      destruct (in_dec (list_eq_dec N.eq_dec) w ws) as [Hi|Hn]; [exact Hi|apply IH in Hn; discriminate].
    + split; auto. intros _ [H|H]; [subst; rewrite word_eqb_refl in E; discriminate|]. apply IH in H; auto.
Qed.

Lemma rank_of_some : forall w ws r, rank_of w ws = Some r -> nth_error ws r = Some w.
Proof.
  induction ws as [|x ws IH]; simpl; intros r H; [discriminate|].
  destruct (word_eqb x w) eqn:E.
  - apply word_eqb_eq in E. inversion H; subst. reflexivity.
  - destruct (rank_of w ws); [|discriminate]. inversion H; subst. simpl. auto.
Qed.

Lemma rank_of_in : forall w ws, In w ws -> exists r, rank_of w ws = Some r.
Proof.
  intros w ws H. destruct (rank_of w ws) eqn:E; eauto. apply rank_of_none in E. contradiction.
Qed.

Definition lex_ltb (a b : word) : bool := match lex_compare a b with Lt => true | _ => false end.

Lemma lex_ltb_lt : forall a b, lex_ltb a b = true <-> lex_lt a b.
Proof. intros. unfold lex_ltb, lex_lt. destruct (lex_compare a b); split; intros; try discriminate; auto. Qed.

Lemma filter_none : forall {A} (f : A -> bool) l, (forall y, In y l -> f y = false) -> filter f l = [].
Proof.
  intros A f l. induction l as [|a l IH]; simpl; intros H; auto.
  rewrite (H a (or_introl eq_refl)). apply IH. intros; apply H; auto.
Qed.

(* in a strictly increasing list the position of w is the number of smaller words: its rank
   in lexicographic order *)
Lemma rank_of_lex_rank : forall ws w r, increasing ws -> rank_of w ws = Some r ->
  r = length (filter (fun x => lex_ltb x w) ws).
Proof.
  intros ws w r H. apply increasing_sorted in H. revert r.
  induction H as [|x ws HS IH HF]; intros r Hr; simpl in *; [discriminate|].
  destruct (word_eqb x w) eqn:E.
  - apply word_eqb_eq in E. subst x. inversion Hr; subst.
    replace (lex_ltb w w) with false by (symmetry; apply not_true_is_false; rewrite lex_ltb_lt; apply lex_lt_irrefl).
    rewrite filter_none; [reflexivity|].
    rewrite Forall_forall in HF. intros y Hy. apply not_true_is_false. rewrite lex_ltb_lt. apply lex_lt_asym. auto.
  - destruct (rank_of w ws) as [r'|] eqn:Er; [|discriminate]. inversion Hr; subst.
    assert (Hin : In w ws).
    { destruct (in_dec (list_eq_dec N.eq_dec) w ws); auto. apply rank_of_none in n. congruence. }
    rewrite Forall_forall in HF. specialize (HF w Hin).
    replace (lex_ltb x w) with true by (symmetry; apply lex_ltb_lt; auto).
    simpl. f_equal. apply IH. reflexivity.
Qed.
