(* Model of the serialisation half of /repo/dawg/dawg.go: encodeUint64, decodeUint64,
   GobEncode, GobDecode.  Definitions only; the proofs are in Codec*.v of this directory.

   Bytes are N (a Go byte is a value < 256; larger values are not Go states and one of them,
   [poison], is used below as an out-of-band marker).  A byte stream being read (bytes.Reader)
   is the list of the bytes not yet consumed.

   Results of the decoder: [DOk] / [DErr] (GobDecode returns a non-nil error; the partially
   overwritten receiver is not modelled) / [DPanic] (index out of range).  The allocation
   failures of make([]*Dawg, numNodes) and make([]byte, 0, numChild) for absurd counts read
   from a malformed stream are a matter of available memory and are not modelled. *)
From Coq Require Import List NArith ZArith Bool.
From Mamba Require Import Dawg.Model.
Import ListNotations.
Local Open Scope N_scope.

(* ------------------------------------------------------------------ encodeUint64 *)

(* bits.LeadingZeros64 of a value below 2^64 *)
Definition leading_zeros64 (x : N) : N := 64 - N.size x.

(* if x <= 127 { buf[0] = uint8(x) } else { zeroBytes := LeadingZeros64(x) >> 3;
   buf[0] = 128 + 8 - byte(zeroBytes); buf[1+i] = byte(x >> uint(8*(7-(i+zeroBytes)))) for
   i < 8-zeroBytes } *)
Definition encode_u64 (x : N) : list byte :=
  if x <=? 127 then [x]
  else
    let zb := N.shiftr (leading_zeros64 x) 3 in
    (128 + 8 - zb) ::
    map (fun i => N.shiftr x (8 * (7 - (N.of_nat i + zb))) mod 256)
        (seq 0 (N.to_nat (8 - zb))).

(* ------------------------------------------------------------------ decodeUint64 *)

Inductive dec (A : Type) : Type :=
| DOk (a : A)
| DErr
| DPanic.
Arguments DOk {A} a.
Arguments DErr {A}.
Arguments DPanic {A}.

Definition dbind {A B} (r : dec A) (f : A -> dec B) : dec B :=
  match r with DOk a => f a | DErr => DErr | DPanic => DPanic end.
Notation "'dd' x <- r ; k" := (dbind r (fun x => k)) (at level 200, x pattern, r at level 100, k at level 200).

(* r.ReadByte() *)
Definition read_byte (r : list byte) : dec (byte * list byte) :=
  match r with
  | [] => DErr
  | b :: r' => DOk (b, r')
  end.

(* decodeUint64(r, buf) as GobDecode uses it (x and err; the width is dropped there).
   - io.ReadFull of one byte from an exhausted reader gives n = 0 and io.EOF: the odd
     `if n == 0 { return }` then returns x = 0 with that error (ReadFull never returns n = 0
     with a nil error for a 1-byte buffer), hence [DErr];
   - first byte b <= 127 is the value;
   - otherwise n = b - 128 bytes follow, n > 8 is an error, a short read is an error
     (io.ErrUnexpectedEOF / io.EOF), and the value is the big-endian number of the n bytes.
     Nothing checks minimality: 0x80 decodes to 0 and 0x81 0x05 to 5. *)
Definition decode_u64 (r : list byte) : dec (N * list byte) :=
  match r with
  | [] => DErr
  | b :: r1 =>
    if b <=? 127 then DOk (b, r1)
    else
      let n := b - 128 in
      if 8 <? n then DErr
      else
        let k := N.to_nat n in
        if (length r1 <? k)%nat then DErr
        else DOk (fold_left (fun x c => N.lor (N.shiftl x 8) c) (firstn k r1) 0, skipn k r1)
  end.

(* ------------------------------------------------------------------ GobEncode *)

(* convertID: sort.Search(numNodes, func(i) bool { return sortedNodes[i] >= id }) *)
Definition convert_id (sorted : list N) (id : N) : N := N.of_nat (lower_bound id sorted).

(* uint64(t.numWords) of a Go int *)
Definition u64_of_int (z : Z) : N := Z.to_N (z mod 2 ^ 64).

(* The traversal of Model.v takes [emit : node -> list byte], a total function, but the code
   that writes a record can panic (links[i] out of range when there are fewer links than
   labels, nil link).  Such a record contains the value [poison], which is not a byte, and
   [gob_encode] turns an output containing it into [Panic]. *)
Definition poison : byte := 256.

(* for i := range linkDawg.linkLabels { b = append(b, linkLabels[i]);
     b = append(b, encodeUint64(convertID(links[i].id))...) } *)
Fixpoint emit_links (s : store) (sorted : list N) (labs : list byte) (kids : list N) : list byte :=
  match labs with
  | [] => []
  | l :: labs' =>
    match kids with
    | [] => [poison]
    | k :: kids' =>
      match sget s k with
      | None => [poison]
      | Some nk => l :: encode_u64 (convert_id sorted (nid nk)) ++ emit_links s sorted labs' kids'
      end
    end
  end.

(* one record: convertID(id), numWords, final byte, number of links, the links *)
Definition emit_node (s : store) (sorted : list N) (n : node) : list byte :=
  encode_u64 (convert_id sorted (nid n)) ++
  encode_u64 (u64_of_int (nwords n)) ++
  [if nfinal n then 1 else 0] ++
  encode_u64 (N.of_nat (length (nlabels n))) ++
  emit_links s sorted (nlabels n) (nkids n).

Definition poisoned (out : list byte) : bool := existsb (fun b => 256 <=? b) out.

(* header: numNodes and the sorted ids *)
Definition gob_header (sorted : list N) : list byte :=
  encode_u64 (N.of_nat (length sorted)) ++ flat_map encode_u64 sorted.

(* GobEncode.  sortedNodes/numEdges come from listNodesCountEdges; the second traversal starts
   from `nodes := make([]uint64, numNodes)`, i.e. numNodes zeros (not from [t.id]), writes the
   root record before the loop and one record for every node its seen-test admits.  numEdges
   only sizes the buffer in Go; it is threaded through as written. *)
Definition gob_encode (fuel : nat) (s : store) (d : N) : res (list byte) :=
  do r <- list_nodes_count_edges fuel s d;
  let '(sorted, num_edges) := r in
  do n <- deref s d;
  do st <- dfs_loop (emit_node s sorted) fuel s
             (mkDfs [(d, O)] (repeat 0 (length sorted)) num_edges
                    (gob_header sorted ++ emit_node s sorted n));
  if poisoned (dout st) then Panic else Ok (dout st).

(* ------------------------------------------------------------------ GobDecode *)

(* int(numWords) *)
Definition int_of_u64 (x : N) : Z :=
  if x <? 2 ^ 63 then Z.of_N x else (Z.of_N x - 2 ^ 64)%Z.

(* new(Dawg) *)
Definition zero_node : node := mkNode 0 0 false [] [].

(* for i = 1; i < numNodes; i++ { ts[i] = new(Dawg) } — the decoded automaton lives in a new
   store whose key i is ts[i] *)
Fixpoint alloc (s : store) (i : N) (count : nat) : store :=
  match count with
  | O => s
  | S c => alloc (sset s i zero_node) (N.succ i) c
  end.

(* for i = 0; i < numNodes; i++ { x := decodeUint64; ts[i].id = x } *)
Fixpoint read_ids (s : store) (i : N) (count : nat) (r : list byte) : dec (store * list byte) :=
  match count with
  | O => DOk (s, r)
  | S c =>
    dd xr <- decode_u64 r;
    let '(x, r1) := xr in
    match sget s i with
    | None => DPanic
    | Some n =>
      read_ids (sset s i (mkNode x (nwords n) (nfinal n) (nlabels n) (nkids n))) (N.succ i) c r1
    end
  end.

(* for j = 0; j < numChild; j++ { label := ReadByte; target := decodeUint64;
     ts[indexID].linkLabels = append(.., label); ts[indexID].links = append(.., ts[target]) } *)
Fixpoint read_links (s : store) (idx : N) (count : nat) (r : list byte) : dec (store * list byte) :=
  match count with
  | O => DOk (s, r)
  | S c =>
    dd lr <- read_byte r;
    let '(label, r1) := lr in
    dd tr <- decode_u64 r1;
    let '(target, r2) := tr in
    match sget s idx with
    | None => DPanic
    | Some n =>
      match sget s target with
      | None => DPanic
      | Some _ =>
        read_links (sset s idx (mkNode (nid n) (nwords n) (nfinal n)
                                       (nlabels n ++ [label]) (nkids n ++ [target])))
                   idx c r2
      end
    end
  end.

(* the record loop: numNodes records, each addressed by the index it starts with *)
Fixpoint read_records (s : store) (count : nat) (r : list byte) : dec store :=
  match count with
  | O => DOk s
  | S c =>
    dd ir <- decode_u64 r;
    let '(index_id, r1) := ir in
    dd wr <- decode_u64 r1;
    let '(num_words, r2) := wr in
    match sget s index_id with
    | None => DPanic
    | Some n =>
      dd fr <- read_byte r2;
      let '(final, r3) := fr in
      dd cr <- decode_u64 r3;
      let '(num_child, r4) := cr in
      let s1 := sset s index_id (mkNode (nid n) (int_of_u64 num_words) (negb (final =? 0)) [] []) in
      dd lr <- read_links s1 index_id (N.to_nat num_child) r4;
      let '(s2, r5) := lr in
      read_records s2 c r5
    end
  end.

(* GobDecode into the receiver [t0] (ts[0] = t: `ts[0]` panics when numNodes = 0).  The result
   is the store of the ts slice; the receiver is its key 0.  Bytes after the last record are
   ignored. *)
Definition gob_decode (t0 : node) (b : list byte) : dec store :=
  dd nr <- decode_u64 b;
  let '(num_nodes, r1) := nr in
  if num_nodes =? 0 then DPanic
  else
    let count := N.to_nat num_nodes in
    let s0 := alloc (sset sempty 0 t0) 1 (count - 1) in
    dd ir <- read_ids s0 0 count r1;
    let '(s1, r2) := ir in
    read_records s1 count r2.

(* ------------------------------------------------------------------ observation helper *)

(* what a PatternSearcher accepts: same length, every position blank in the pattern or equal *)
Fixpoint pat_match (blank : byte) (p w : word) : bool :=
  match p, w with
  | [], [] => true
  | c :: p', x :: w' => (N.eqb c blank || N.eqb c x) && pat_match blank p' w'
  | _, _ => false
  end.

(* ------------------------------------------------------------------ domain check
   A boolean test, run by the model driver on every generated automaton, that the automaton
   lies in the domain of the C14 theorems ([wf] of CodecWf.v; soundness in CodecCheck.v).
   [univ] lists the reachable keys, the root first, every other one after a node that links to
   it; [hl] gives a height to every key (strictly decreasing along links).  Both are
   certificates computed outside (nothing is assumed about them). *)

Definition hof (hl : list (N * nat)) (k : N) : nat :=
  match find (fun p => fst p =? k) hl with Some p => snd p | None => O end.

Definition node_okb (n : node) : bool :=
  Nat.eqb (length (nlabels n)) (length (nkids n)) &&
  forallb (fun b => b <? 256) (nlabels n) &&
  (nid n <? 2 ^ 64) &&
  Z.leb (- 2 ^ 63) (nwords n) && Z.ltb (nwords n) (2 ^ 63) &&
  (N.of_nat (length (nkids n)) <? 2 ^ 64).

Fixpoint nodupb (l : list N) : bool :=
  match l with
  | [] => true
  | x :: l' => negb (existsb (N.eqb x) l') && nodupb l'
  end.

Definition links_to (s : store) (k p : N) : bool :=
  match sget s p with Some n => existsb (N.eqb k) (nkids n) | None => false end.

(* every element of [rest] is a link target of an element listed before it *)
Fixpoint chainb (s : store) (seen rest : list N) : bool :=
  match rest with
  | [] => true
  | k :: rest' => existsb (links_to s k) seen && chainb s (k :: seen) rest'
  end.

Definition id_at (s : store) (k : N) : N :=
  match sget s k with Some n => nid n | None => 0 end.

Definition wf_checkb (s : store) (d : N) (univ : list N) (hl : list (N * nat)) : bool :=
  match univ with
  | [] => false
  | r :: rest =>
    (r =? d) && chainb s [r] rest &&
    forallb (fun k =>
               match sget s k with
               | Some n =>
                 node_okb n &&
                 forallb (fun k' => existsb (N.eqb k') univ && (hof hl k' <? hof hl k)%nat) (nkids n) &&
                 (id_at s d <=? nid n)
               | None => false
               end) univ &&
    nodupb (map (id_at s) univ) &&
    (N.of_nat (length univ) <? 2 ^ 64)
  end.
