(* GobEncode on a well-formed automaton: with enough fuel the result is the header (number of
   nodes, sorted ids) followed by one record per reachable node, each exactly once, the root
   first; never a panic. *)
From Coq Require Import List NArith ZArith Bool Lia Arith Sorted Permutation.
From Mamba Require Import Dawg.Model Dawg.CodecModel Dawg.CodecVarint Dawg.CodecWf Dawg.CodecDfs.
Import ListNotations.
Local Open Scope N_scope.

Definition records (s : store) (sorted : list N) (order : list N) : list byte :=
  flat_map (fun k => emit_node s sorted (node_at s k)) order.

Lemma NoDup_map_on {A B} (f : A -> B) (l : list A) :
  (forall a b, In a l -> In b l -> f a = f b -> a = b) -> NoDup l -> NoDup (map f l).
Proof.
  intros Hinj Hn. induction Hn as [|a l Ha Hn IH]; cbn; constructor.
  - intros Hin. apply in_map_iff in Hin. destruct Hin as [b [E Hb]].
    assert (b = a) by (apply Hinj; [right; exact Hb | left; reflexivity | exact E]). subst. contradiction.
  - apply IH. intros x y Hx Hy. apply Hinj; right; assumption.
Qed.

Lemma repeat_sorted n : StronglySorted N.le (repeat 0 n).
Proof.
  induction n; cbn; constructor; [exact IHn|]. apply Forall_forall. intros x Hx.
  apply repeat_spec in Hx. lia.
Qed.

Lemma poisoned_false out : Forall (fun b => b < 256) out -> poisoned out = false.
Proof.
  intros H. unfold poisoned. induction H as [|b out Hb _ IH]; [reflexivity|]. cbn [existsb].
  rewrite IH. destruct (N.leb_spec 256 b); [lia | reflexivity].
Qed.

Lemma convert_id_le sorted x : convert_id sorted x <= N.of_nat (length sorted).
Proof. unfold convert_id. pose proof (lb_le_length sorted x). lia. Qed.

Lemma u64_of_int_lt z : u64_of_int z < 2 ^ 64.
Proof.
  unfold u64_of_int. pose proof (Z.mod_pos_bound z (2 ^ 64) eq_refl) as H.
  change (2 ^ 64) with (Z.to_N (2 ^ 64)%Z). apply Z2N.inj_lt; lia.
Qed.

Section Encode.
Variables (s : store) (d : N) (univ : list N) (h : N -> nat).
Hypothesis Hwf : wf s d univ h.

Lemma idk_inj_on (l : list N) : incl l univ ->
  forall a b, In a l -> In b l -> idk s a = idk s b -> a = b.
Proof. intros Hincl a b Ha Hb E. apply (wf_inj _ _ _ _ Hwf); auto. Qed.

Lemma emit_links_bytes sorted : N.of_nat (length sorted) < 2 ^ 64 ->
  forall labs kids, length labs = length kids -> Forall (fun b => b < 256) labs ->
  (forall k, In k kids -> In k univ) ->
  Forall (fun b => b < 256) (emit_links s sorted labs kids).
Proof.
  intros Hlen. induction labs as [|l labs IH]; intros kids Hl Hlabs Hkids; [constructor|].
  destruct kids as [|k kids]; [discriminate|]. cbn [emit_links].
  rewrite (wf_sget _ _ _ _ Hwf k (Hkids k (or_introl eq_refl))).
  inversion Hlabs; subst. constructor; [assumption|]. apply Forall_app. split.
  - apply encode_u64_bytes. pose proof (convert_id_le sorted (nid (node_at s k))). lia.
  - apply IH; [cbn in Hl; lia | assumption | intros k' Hk'; apply Hkids; right; exact Hk'].
Qed.

Lemma emit_node_bytes sorted k : N.of_nat (length sorted) < 2 ^ 64 -> In k univ ->
  Forall (fun b => b < 256) (emit_node s sorted (node_at s k)).
Proof.
  intros Hlen Hk. pose proof (wf_node_ok _ _ _ _ Hwf k Hk) as Hok. unfold emit_node.
  repeat (apply Forall_app; split).
  - apply encode_u64_bytes. pose proof (convert_id_le sorted (nid (node_at s k))). lia.
  - apply encode_u64_bytes. apply u64_of_int_lt.
  - constructor; [destruct (nfinal (node_at s k)); lia | constructor].
  - apply encode_u64_bytes. rewrite (nk_len _ Hok). exact (nk_deg _ Hok).
  - apply emit_links_bytes; [exact Hlen | exact (nk_len _ Hok) | exact (nk_labels _ Hok)|].
    intros k' Hk'. exact (wf_kid_in _ _ _ _ Hwf k k' Hk Hk').
Qed.

Theorem gob_encode_spec :
  exists f0 sorted vtl,
    (forall fuel, (f0 <= fuel)%nat ->
       gob_encode fuel s d = Ok (gob_header sorted ++ records s sorted (d :: vtl))) /\
    (forall fuel, (f0 <= fuel)%nat -> number_of_nodes fuel s d = Ok (length sorted)) /\
    StronglySorted N.lt sorted /\
    (forall x, In x sorted <-> exists k, In k univ /\ x = idk s k) /\
    NoDup (d :: vtl) /\ (forall k, In k univ <-> In k (d :: vtl)) /\
    length sorted = length (d :: vtl).
Proof.
  (* first traversal: listNodesCountEdges *)
  destruct (dfs_from_root s d univ h Hwf (fun _ => []) [idk s d] []) with
    (edges := Z.of_nat (length (nkids (node_at s d)))) as [f1 [st1 [vtl1 [Hrun1 Hfin1]]]].
  { intros k Hk Hkd [E | []]. apply Hkd. apply (wf_inj _ _ _ _ Hwf); [exact Hk | exact (wf_root_in _ _ _ _ Hwf) | symmetry; exact E]. }
  { constructor; constructor. }
  destruct Hfin1 as [Hs1 [Hp1 [Hnd1 [Hd1 [Hall1 _]]]]].
  set (sorted := dnodes st1) in *.
  assert (Hnd1' : NoDup (d :: vtl1)) by (constructor; assumption).
  assert (Hincl1 : incl (d :: vtl1) univ) by (intros k Hk; apply Hall1; exact Hk).
  assert (Hp1' : Permutation sorted (map (idk s) (d :: vtl1))) by exact Hp1.
  assert (Hnds : NoDup sorted).
  { apply (Permutation_NoDup (Permutation_sym Hp1')). apply NoDup_map_on; [|exact Hnd1'].
    apply idk_inj_on. exact Hincl1. }
  assert (Hstrict : StronglySorted N.lt sorted) by (apply sorted_nodup_strict; assumption).
  assert (Hlen : length sorted = length (d :: vtl1)).
  { rewrite (Permutation_length Hp1'), map_length. reflexivity. }
  assert (Hlen64 : N.of_nat (length sorted) < 2 ^ 64).
  { pose proof (NoDup_incl_length Hnd1' Hincl1). pose proof (wf_count _ _ _ _ Hwf). lia. }
  assert (Hmem : forall x, In x sorted <-> exists k, In k univ /\ x = idk s k).
  { intros x. split.
    - intros Hx. apply (Permutation_in _ Hp1') in Hx. apply in_map_iff in Hx.
      destruct Hx as [k [E Hk]]. exists k. split; [apply Hincl1; exact Hk | symmetry; exact E].
    - intros [k [Hk ->]]. apply (Permutation_in _ (Permutation_sym Hp1')). apply in_map.
      apply Hall1. exact Hk. }
  (* second traversal: the records *)
  destruct (dfs_from_root s d univ h Hwf (emit_node s sorted) (repeat 0 (length sorted))
              (gob_header sorted ++ emit_node s sorted (node_at s d))) with
    (edges := dedges st1) as [f2 [st2 [vtl2 [Hrun2 Hfin2]]]].
  { intros k Hk Hkd Hin. apply repeat_spec in Hin. apply Hkd.
    apply (wf_inj _ _ _ _ Hwf); [exact Hk | exact (wf_root_in _ _ _ _ Hwf)|].
    pose proof (wf_root_min _ _ _ _ Hwf k Hk). lia. }
  { apply repeat_sorted. }
  destruct Hfin2 as [_ [_ [Hnd2 [Hd2 [Hall2 Hout2]]]]].
  assert (Hnd2' : NoDup (d :: vtl2)) by (constructor; assumption).
  assert (Hlen2 : length (d :: vtl2) = length (d :: vtl1)).
  { apply Nat.le_antisymm; apply NoDup_incl_length; try assumption;
      intros k Hk; [apply Hall1, Hall2 | apply Hall2, Hall1]; exact Hk. }
  assert (Hout : dout st2 = gob_header sorted ++ records s sorted (d :: vtl2)).
  { rewrite Hout2. unfold records. cbn [flat_map]. rewrite <- app_assoc. reflexivity. }
  assert (Hlne : forall fuel, (f1 <= fuel)%nat ->
            list_nodes_count_edges fuel s d = Ok (sorted, dedges st1)).
  { intros fuel Hf. unfold list_nodes_count_edges.
    rewrite (deref_univ s d univ h Hwf d (wf_root_in _ _ _ _ Hwf)). cbn [bind].
    unfold idk in Hrun1. rewrite (dfs_loop_mono _ _ _ _ _ Hrun1 fuel Hf). reflexivity. }
  exists (Nat.max f1 f2), sorted, vtl2.
  split; [|split; [|split; [exact Hstrict | split; [exact Hmem | split; [exact Hnd2' | split; [exact Hall2 | congruence]]]]]].
  - intros fuel Hf. unfold gob_encode. rewrite Hlne by lia. cbn [bind].
    rewrite (deref_univ s d univ h Hwf d (wf_root_in _ _ _ _ Hwf)). cbn [bind].
    rewrite (dfs_loop_mono _ _ _ _ _ Hrun2 fuel) by lia. cbn [bind].
    rewrite poisoned_false; [rewrite Hout; reflexivity|].
    rewrite Hout. apply Forall_app. split.
    + unfold gob_header. apply Forall_app. split; [apply encode_u64_bytes; exact Hlen64|].
      apply Forall_forall. intros b Hb. apply in_flat_map in Hb. destruct Hb as [x [Hx Hb]].
      apply Hmem in Hx. destruct Hx as [k [Hk ->]].
      pose proof (encode_u64_bytes (idk s k) (nk_id _ (wf_node_ok _ _ _ _ Hwf k Hk))) as HF.
      rewrite Forall_forall in HF. exact (HF b Hb).
    + unfold records. apply Forall_forall. intros b Hb. apply in_flat_map in Hb.
      destruct Hb as [k [Hk Hb]].
      pose proof (emit_node_bytes sorted k Hlen64 (proj2 (Hall2 k) Hk)) as HF.
      rewrite Forall_forall in HF. exact (HF b Hb).
  - intros fuel Hf. unfold number_of_nodes. rewrite Hlne by lia. reflexivity.
Qed.

End Encode.
