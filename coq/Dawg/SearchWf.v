(* C13: the executable well-formedness checker is sound (and complete), the language of a
   well-formed Dawg is strictly increasing in bytes.Compare order, and what the list
   [expected keep ws] contains. *)
From Coq Require Import List NArith ZArith Bool Lia Sorted.
From Mamba Require Import Dawg.Model Dawg.Tree Dawg.Spec Dawg.SearchModel Dawg.SearchSpec.
Import ListNotations.

(* ------------------------------------------------------------------ checker: soundness *)

Lemma unfold_kids_sound : forall s (rec : N -> option tree),
  (forall k t, rec k = Some t -> rep s k t) ->
  forall labs ks ch, unfold_kids rec labs ks = Some ch ->
  labs = map fst ch /\ Forall2 (rep s) ks (map snd ch).
Proof.
  intros s rec Hrec. induction labs as [|c labs IH]; intros ks ch H.
  - destruct ks; cbn [unfold_kids] in H; [|discriminate]. inversion H; subst. split; [reflexivity|constructor].
  - destruct ks as [|k ks]; cbn [unfold_kids] in H; [discriminate|].
    destruct (rec k) as [t|] eqn:Er; [|discriminate].
    destruct (unfold_kids rec labs ks) as [r|] eqn:Ek; [|discriminate].
    inversion H; subst. destruct (IH ks r Ek) as [H1 H2]. cbn [map fst snd]. split; [f_equal; exact H1|].
    constructor; [apply Hrec; exact Er|exact H2].
Qed.

Lemma unfold_tree_sound : forall fuel s i t, unfold_tree fuel s i = Some t -> rep s i t.
Proof.
  induction fuel as [|f IH]; intros s i t H; cbn [unfold_tree] in H; [discriminate|].
  destruct (sget s i) as [n|] eqn:Eg; [|discriminate].
  destruct (unfold_kids (unfold_tree f s) (nlabels n) (nkids n)) as [ch|] eqn:Ek; cbn [option_map] in H; [|discriminate].
  inversion H; subst.
  destruct (unfold_kids_sound s (unfold_tree f s) (fun k t => IH s k t) _ _ _ Ek) as [H1 H2].
  econstructor; eauto.
Qed.

Lemma sorted_ltb_sound : forall l, sorted_ltb l = true -> StronglySorted N.lt l.
Proof.
  induction l as [|a l IH]; intros H; [constructor|].
  cbn [sorted_ltb] in H. apply andb_true_iff in H. destruct H as [H1 H2].
  specialize (IH H2). constructor; [exact IH|].
  destruct l as [|b l]; [constructor|]. apply N.ltb_lt in H1.
  inversion IH; subst. constructor; [exact H1|].
  eapply Forall_impl; [|eassumption]. intros x Hx. cbv beta in Hx. lia.
Qed.

Lemma sorted_ltb_complete : forall l, StronglySorted N.lt l -> sorted_ltb l = true.
Proof.
  induction l as [|a l IH]; intros H; [reflexivity|]. inversion H; subst.
  cbn [sorted_ltb]. rewrite (IH H2), andb_true_r.
  destruct l as [|b l]; [reflexivity|]. inversion H3; subst. apply N.ltb_lt. assumption.
Qed.

Lemma counts_okb_iff : forall t, counts_okb t = true <-> counts_ok t.
Proof.
  induction t as [fin nw ch IH] using tree_ind'. cbn [counts_okb]. rewrite andb_true_iff, Z.eqb_eq, forallb_forall.
  split.
  - intros [H1 H2]. constructor; [exact H1|]. rewrite Forall_forall in *. intros ct Hin.
    apply (IH ct Hin). apply H2. exact Hin.
  - intros H. inversion H; subst. split; [assumption|]. rewrite Forall_forall in *. intros ct Hin.
    apply (IH ct Hin). auto.
Qed.

Lemma labels_sortedb_iff : forall t, labels_sortedb t = true <-> labels_sorted t.
Proof.
  induction t as [fin nw ch IH] using tree_ind'. cbn [labels_sortedb]. rewrite andb_true_iff, forallb_forall.
  split.
  - intros [H1 H2]. constructor; [apply sorted_ltb_sound; exact H1|]. rewrite Forall_forall in *. intros ct Hin.
    apply (IH ct Hin). apply H2. exact Hin.
  - intros H. inversion H; subst. split; [apply sorted_ltb_complete; assumption|].
    rewrite Forall_forall in *. intros ct Hin. apply (IH ct Hin). auto.
Qed.

Theorem check_wf_sound : forall fuel s d t, check_wf fuel s d = Some t -> dawg_wf s d t.
Proof.
  intros fuel s d t H. unfold check_wf in H.
  destruct (unfold_tree fuel s d) as [t0|] eqn:Eu; [|discriminate].
  destruct (counts_okb t0 && labels_sortedb t0) eqn:Eb; [|discriminate]. inversion H; subst.
  apply andb_true_iff in Eb. destruct Eb as [E1 E2].
  split; [eapply unfold_tree_sound; exact Eu|]. split; [apply counts_okb_iff; exact E1|apply labels_sortedb_iff; exact E2].
Qed.

(* ------------------------------------------------------------------ checker: completeness *)

Fixpoint theight (t : tree) : nat :=
  match t with
  | Node _ _ ch => S (fold_right (fun ct n => Nat.max (theight (snd ct)) n) O ch)
  end.

Lemma unfold_kids_complete : forall (rec : N -> option tree) ch ks,
  Forall2 (fun k t => rec k = Some t) ks (map snd ch) ->
  unfold_kids rec (map fst ch) ks = Some ch.
Proof.
  intros rec. induction ch as [|[c t] ch IH]; intros ks H; cbn [map fst snd] in *.
  - inversion H; subst. reflexivity.
  - inversion H as [|k ? ks' ? Hk Hks]; subst. cbn [unfold_kids]. rewrite Hk, (IH ks' Hks). reflexivity.
Qed.

Lemma unfold_tree_complete : forall s t i, rep s i t ->
  forall fuel, (theight t <= fuel)%nat -> unfold_tree fuel s i = Some t.
Proof.
  intros s. induction t as [fin nw ch IH] using tree_ind'. intros i Hrep fuel Hf.
  inversion Hrep as [? n ? ? ? Hg Hfin Hnw Hl Hk]; subst.
  destruct fuel as [|f]; [cbn [theight] in Hf; lia|]. cbn [unfold_tree]. rewrite Hg, Hl.
  rewrite (unfold_kids_complete (unfold_tree f s) ch (nkids n)); [reflexivity|].
  cbn [theight] in Hf. apply le_S_n in Hf. clear Hrep Hg Hl. revert IH Hk Hf.
  generalize (nkids n). induction ch as [|[c t] ch IHch]; intros ks IH Hk Hf; cbn [map snd] in *.
  - inversion Hk; subst. constructor.
  - inversion Hk as [|k ? ks' ? Hkt Hks]; subst. cbn [fold_right snd] in Hf.
    inversion IH as [|? ? IHt IHrest]; subst. cbn [snd] in IHt.
    constructor; [apply IHt; [exact Hkt|lia]|]. apply IHch; [exact IHrest|exact Hks|lia].
Qed.

Theorem check_wf_complete : forall s d t, dawg_wf s d t -> check_wf (theight t) s d = Some t.
Proof.
  intros s d t [H1 [H2 H3]]. unfold check_wf.
  rewrite (unfold_tree_complete s t d H1 (theight t) (le_n _)).
  apply counts_okb_iff in H2. apply labels_sortedb_iff in H3. rewrite H2, H3. reflexivity.
Qed.

(* ------------------------------------------------------------------ order of the language *)

Lemma lex_lt_nil_cons : forall l u, lex_lt [] (l :: u).
Proof. reflexivity. Qed.

Lemma lex_lt_cons_same : forall l u v, lex_lt u v -> lex_lt (l :: u) (l :: v).
Proof. intros l u v H. unfold lex_lt in *. cbn [lex_compare]. rewrite N.compare_refl. exact H. Qed.

Lemma lex_lt_cons_lt : forall l l' u v, (l < l')%N -> lex_lt (l :: u) (l' :: v).
Proof. intros l l' u v H. unfold lex_lt. cbn [lex_compare]. unfold N.lt in H. rewrite H. reflexivity. Qed.

Lemma lex_compare_refl : forall u, lex_compare u u = Eq.
Proof. induction u as [|a u IH]; [reflexivity|]. cbn [lex_compare]. rewrite N.compare_refl. exact IH. Qed.

Lemma lex_lt_irrefl : forall u, ~ lex_lt u u.
Proof. intros u H. unfold lex_lt in H. rewrite lex_compare_refl in H. discriminate. Qed.

Lemma SS_app : forall {A} (R : A -> A -> Prop) a b,
  StronglySorted R a -> StronglySorted R b -> (forall x y, In x a -> In y b -> R x y) ->
  StronglySorted R (a ++ b).
Proof.
  intros A R. induction a as [|x a IH]; intros b Ha Hb Hc; [exact Hb|].
  inversion Ha; subst. cbn [app]. constructor.
  - apply IH; auto. intros; apply Hc; [right|]; assumption.
  - apply Forall_app. split; [assumption|]. rewrite Forall_forall. intros y Hy. apply Hc; [left; reflexivity|exact Hy].
Qed.

Lemma SS_map_cons : forall l L, StronglySorted lex_lt L -> StronglySorted lex_lt (map (cons l) L).
Proof.
  intros l. induction L as [|u L IH]; intros H; [constructor|]. inversion H; subst. cbn [map].
  constructor; [apply IH; assumption|]. rewrite Forall_forall in *. intros x Hx.
  apply in_map_iff in Hx. destruct Hx as [v [<- Hv]]. apply lex_lt_cons_same. auto.
Qed.

Definition langs' (ch : list (byte * tree)) : list word :=
  flat_map (fun ct => map (cons (fst ct)) (tlang (snd ct))) ch.

Lemma in_langs : forall ch x, In x (langs' ch) -> exists l v, x = l :: v /\ In l (map fst ch).
Proof.
  intros ch x H. unfold langs' in H. apply in_flat_map in H. destruct H as [[l c] [Hin Hx]].
  apply in_map_iff in Hx. destruct Hx as [v [<- _]]. exists l, v. split; [reflexivity|].
  apply in_map_iff. exists (l, c). split; [reflexivity|exact Hin].
Qed.

Theorem tlang_sorted : forall t, labels_sorted t -> StronglySorted lex_lt (tlang t).
Proof.
  induction t as [fin nw ch IH] using tree_ind'. intros H. inversion H as [? ? ? Hs Hc]; subst.
  change (tlang (Node fin nw ch)) with ((if fin then [[]] else []) ++ langs' ch).
  assert (Hl : StronglySorted lex_lt (langs' ch)).
  { clear H. induction ch as [|[l c] ch IHch]; [constructor|].
    cbn [map fst] in Hs. inversion Hs as [|? ? Hs' Hlt]; subst.
    inversion IH as [|? ? IHc IHr]; subst. inversion Hc as [|? ? Hcc Hcr]; subst. cbn [snd] in *.
    change (langs' ((l, c) :: ch)) with (map (cons l) (tlang c) ++ langs' ch).
    apply SS_app; [apply SS_map_cons; apply IHc; exact Hcc|apply IHch; assumption|].
    intros x y Hx Hy. apply in_map_iff in Hx. destruct Hx as [u [<- _]].
    destruct (in_langs ch y Hy) as [l' [v [-> Hl']]]. apply lex_lt_cons_lt.
    rewrite Forall_forall in Hlt. apply Hlt. exact Hl'. }
  destruct fin; [|exact Hl]. apply SS_app; [repeat constructor|exact Hl|].
  intros x y Hx Hy. destruct Hx as [<-|[]]. destruct (in_langs ch y Hy) as [l [v [-> _]]]. apply lex_lt_nil_cons.
Qed.

(* ------------------------------------------------------------------ the expected list *)

Lemma word_eqb_eq : forall a b, word_eqb a b = true <-> a = b.
Proof.
  induction a as [|x a IH]; destruct b as [|y b]; cbn [word_eqb]; try (split; [discriminate|discriminate]).
  - split; reflexivity.
  - rewrite andb_true_iff, N.eqb_eq, IH. split; [intros [-> ->]; reflexivity|intros H; inversion H; auto].
Qed.

Lemma in_number : forall ws z w r,
  In (w, r) (number z ws) <-> exists k, nth_error ws k = Some w /\ r = (z + Z.of_nat k)%Z.
Proof.
  induction ws as [|u ws IH]; intros z w r; cbn [number In].
  - split; [contradiction|]. intros [[|k] [H _]]; discriminate.
  - rewrite IH. split.
    + intros [H|[k [Hk Hr]]].
      * inversion H; subst. exists O. split; [reflexivity|lia].
      * exists (S k). split; [exact Hk|lia].
    + intros [[|k] [Hk Hr]]; cbn [nth_error] in Hk.
      * inversion Hk; subst. left. f_equal. lia.
      * right. exists k. split; [exact Hk|lia].
Qed.

Lemma rank_of_nth : forall ws w k, rank_of w ws = Some k -> nth_error ws k = Some w.
Proof.
  induction ws as [|u ws IH]; intros w k H; cbn [rank_of] in H; [discriminate|].
  destruct (word_eqb u w) eqn:Ee.
  - inversion H; subst. apply word_eqb_eq in Ee. subst. reflexivity.
  - destruct (rank_of w ws) as [k'|] eqn:Er; cbn [option_map] in H; [|discriminate].
    inversion H; subst. cbn [nth_error]. apply IH. exact Er.
Qed.

Lemma nth_rank_of : forall ws w k, StronglySorted lex_lt ws -> nth_error ws k = Some w -> rank_of w ws = Some k.
Proof.
  induction ws as [|u ws IH]; intros w k Hs H; [destruct k; discriminate|].
  inversion Hs as [|? ? Hs' Hlt]; subst. cbn [rank_of]. destruct k as [|k]; cbn [nth_error] in H.
  - inversion H; subst. assert (E : word_eqb w w = true) by (apply word_eqb_eq; reflexivity). rewrite E. reflexivity.
  - assert (Hin : In w ws) by (eapply nth_error_In; exact H).
    rewrite Forall_forall in Hlt. specialize (Hlt w Hin).
    destruct (word_eqb u w) eqn:Ee.
    + apply word_eqb_eq in Ee. subst. exfalso. eapply lex_lt_irrefl. exact Hlt.
    + rewrite (IH w k Hs' H). reflexivity.
Qed.

Lemma expected_words : forall keep ws z,
  map fst (filter (fun p => keep (fst p)) (number z ws)) = filter keep ws.
Proof.
  intros keep. induction ws as [|u ws IH]; intros z; [reflexivity|].
  cbn [number filter fst]. destruct (keep u); cbn [map fst]; rewrite IH; reflexivity.
Qed.

Lemma SS_filter : forall {A} (R : A -> A -> Prop) f l, StronglySorted R l -> StronglySorted R (filter f l).
Proof.
  intros A R f. induction l as [|a l IH]; intros H; [constructor|]. inversion H; subst. cbn [filter].
  destruct (f a); [|auto]. constructor; [auto|]. rewrite Forall_forall in *. intros x Hx.
  apply filter_In in Hx. destruct Hx. auto.
Qed.

(* for a strictly increasing word list: the expected list is strictly increasing in its words
   and contains exactly the kept words, each with its rank *)
Theorem expected_spec : forall keep ws, StronglySorted lex_lt ws ->
  StronglySorted lex_lt (map fst (expected keep ws)) /\
  forall w r, In (w, r) (expected keep ws) <->
              (keep w = true /\ rank_of w ws = Some (Z.to_nat r) /\ (0 <= r)%Z).
Proof.
  intros keep ws Hs. unfold expected. split.
  - rewrite expected_words. apply SS_filter. exact Hs.
  - intros w r. rewrite filter_In, in_number. cbn [fst]. split.
    + intros [[k [Hk Hr]] Hkeep]. split; [exact Hkeep|]. subst r. cbn [Z.add]. rewrite Nat2Z.id.
      split; [apply nth_rank_of; assumption|lia].
    + intros [Hkeep [Hrank Hr]]. split; [|exact Hkeep]. exists (Z.to_nat r).
      split; [apply rank_of_nth; exact Hrank|lia].
Qed.

(* ------------------------------------------------------------------ fuel in terms of the words *)

Definition total_length (ws : list word) : nat := fold_right (fun w n => (length w + n)%nat) O ws.

Lemma total_length_cons : forall w ws, total_length (w :: ws) = (length w + total_length ws)%nat.
Proof. reflexivity. Qed.

Lemma total_length_app : forall a b, total_length (a ++ b) = (total_length a + total_length b)%nat.
Proof.
  induction a as [|x a IH]; intros b; [reflexivity|].
  cbn [app]. rewrite !total_length_cons, IH. lia.
Qed.

Lemma total_length_map_cons : forall l L, total_length (map (cons l) L) = (length L + total_length L)%nat.
Proof.
  induction L as [|u L IH]; [reflexivity|].
  cbn [map]. rewrite !total_length_cons, IH. cbn [length]. lia.
Qed.

(* in a trimmed automaton every link is the last letter of a distinct prefix of some word *)
Theorem tedges_le_total_length : forall t, trimmed t -> (tedges t <= total_length (tlang t))%nat.
Proof.
  induction t as [fin nw ch IH] using tree_ind'. intros H. inversion H as [? ? ? Hc]; subst.
  change (tlang (Node fin nw ch)) with ((if fin then [[]] else []) ++ langs' ch).
  rewrite total_length_app.
  assert (Hl : (tedges (Node fin nw ch) <= total_length (langs' ch))%nat).
  { clear H. induction ch as [|[l c] ch IHch]; [cbn; lia|].
    inversion IH as [|? ? IHc IHr]; subst. inversion Hc as [|? ? [Hne Htc] Hcr]; subst. cbn [snd] in *.
    change (langs' ((l, c) :: ch)) with (map (cons l) (tlang c) ++ langs' ch).
    rewrite total_length_app, total_length_map_cons.
    change (tedges (Node fin nw ((l, c) :: ch))) with (S (tedges c + tedges (Node fin nw ch))).
    specialize (IHc Htc). specialize (IHch IHr Hcr).
    destruct (tlang c); [contradiction|]. cbn [length]. lia. }
  lia.
Qed.
