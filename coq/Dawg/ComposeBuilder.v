(* The zero-value Builder behaves as an initialised one: every Add sequence on `var db Builder`
   (or on any Builder right after Initialise, used before or not) gives the flags, the state
   and the Finish result that C12's theorems describe for [initialise]. *)
From Coq Require Import List NArith ZArith Bool Lia.
From Mamba Require Import Dawg.Model Dawg.Spec Dawg.LangOrder Dawg.BuildProofs Dawg.BuildSeq Dawg.LangStore
  Dawg.ComposeZeroModel.
Import ListNotations.

(* a Builder nothing has been added to: the zero value, or any value after Initialise *)
Definition fresh (g : gbuilder) : Prop := g = GZero \/ exists g1, g = g_initialise g1.

Lemma fresh_ensure : forall g, fresh g -> g_ensure g = initialise.
Proof. intros g [->|[g1 ->]]; reflexivity. Qed.

Lemma g_add_ensure : forall g w, g_add g w = do r <- add (g_ensure g) w; Ok (GInit (fst r), snd r).
Proof.
  intros g w. unfold g_add. destruct (add (g_ensure g) w) as [[b ok]| |]; reflexivity.
Qed.

Lemma g_finish_ensure : forall g, g_finish g = do r <- finish (g_ensure g); Ok (GInit (g_ensure g), r).
Proof. reflexivity. Qed.

(* the Go-level sequence of Adds is the model-level one started from [g_ensure g] *)
Lemma g_add_seq_spec : forall ws g b oks, add_seq (g_ensure g) ws = Ok (b, oks) ->
  exists g', g_add_seq g ws = Ok (g', oks) /\ g_ensure g' = b.
Proof.
  induction ws as [|w ws IH]; intros g b oks H.
  - cbn [add_seq] in H. inversion H; subst. exists g. split; reflexivity.
  - cbn [add_seq g_add_seq] in *. unfold g_add.
    destruct (add (g_ensure g) w) as [[b1 ok]| |]; cbn [bind] in *; try discriminate.
    destruct (add_seq b1 ws) as [[b2 oks']| |] eqn:E; cbn [bind] in H; try discriminate.
    inversion H; subst. destruct (IH (GInit b1) b oks' E) as (g' & Hg & He).
    exists g'. rewrite Hg. cbn [bind]. split; [reflexivity | exact He].
Qed.

(* no panic in either direction: the Go-level sequence fails exactly as the model-level one *)
Lemma g_add_seq_err : forall ws g,
  (add_seq (g_ensure g) ws = Panic -> g_add_seq g ws = Panic) /\
  (add_seq (g_ensure g) ws = NoFuel -> g_add_seq g ws = NoFuel).
Proof.
  induction ws as [|w ws IH]; intros g.
  - cbn [add_seq]. split; discriminate.
  - cbn [add_seq g_add_seq]. unfold g_add.
    destruct (add (g_ensure g) w) as [[b1 ok]| |]; cbn [bind]; try (split; [reflexivity || discriminate | reflexivity || discriminate]).
    destruct (IH (GInit b1)) as [IP IF]. cbn [g_ensure] in IP, IF.
    destruct (add_seq b1 ws) as [[b2 oks']| |] eqn:E; cbn [bind].
    + split; discriminate.
    + rewrite (IP eq_refl). split; [reflexivity | discriminate].
    + rewrite (IF eq_refl). split; [discriminate | reflexivity].
Qed.

(* Any sequence of Add calls on a fresh Builder (zero value included), then Finish: no panic,
   a call is accepted exactly when its word is above the last accepted one, and Finish returns
   the automaton New builds from the accepted words alone (a strictly increasing list). *)
Theorem fresh_builder_sequence : forall g0 ws, fresh g0 ->
  exists g s, g_add_seq g0 ws = Ok (g, accept_flags None ws) /\
              g_finish g = Ok (GInit (g_ensure g), Some s) /\
              new_dawg (kept None ws) = Ok (Some s) /\
              increasing (kept None ws).
Proof.
  intros g0 ws Hf. destruct (add_seq_total ws) as (b & H1 & _ & Hinc).
  rewrite <- (fresh_ensure g0 Hf) in H1.
  destruct (g_add_seq_spec ws g0 b _ H1) as (g & Hg & He).
  destruct (new_dawg_total _ Hinc) as [s Hs].
  exists g, s. split; [exact Hg|]. split; [|split; [exact Hs | exact Hinc]].
  rewrite (fresh_ensure g0 Hf) in H1.
  rewrite g_finish_ensure, He, (finish_after_add_seq ws b _ H1), Hs. reflexivity.
Qed.

Corollary zero_builder_sequence : forall ws,
  exists g s, g_add_seq GZero ws = Ok (g, accept_flags None ws) /\
              g_finish g = Ok (GInit (g_ensure g), Some s) /\
              new_dawg (kept None ws) = Ok (Some s) /\
              increasing (kept None ws).
Proof. intros ws. apply fresh_builder_sequence. left. reflexivity. Qed.

(* for a strictly increasing list nothing is rejected *)
Lemma kept_increasing_id : forall ws o, inc_after o ws -> kept o ws = ws.
Proof.
  induction ws as [|w ws IH]; intros o H; [reflexivity|].
  cbn [kept]. cbn [inc_after] in H. destruct H as [Hlt Hinc].
  assert (E : accept_after o w = true).
  { destruct o as [v|]; [|reflexivity]. cbn [accept_after]. apply lex_ltb_lt. exact Hlt. }
  rewrite E. f_equal. apply IH.
  destruct ws as [|w' ws']; [exact I|]. cbn [inc_after]. cbn [increasing] in Hinc.
  split; [exact (proj1 Hinc) | exact (proj2 Hinc)].
Qed.

Lemma kept_of_increasing : forall ws, increasing ws -> kept None ws = ws.
Proof. intros ws H. apply kept_increasing_id. apply increasing_inc_after. exact H. Qed.
