(* C14 assembled: GobDecode (GobEncode d) is a copy of d, node for node, with the same ids,
   numWords, final flags and labels; the copy is again a well-formed automaton, it answers
   Lookup / NumberOfWords / node count / word enumeration as d does, and its encoding is the
   same byte string. *)
From Coq Require Import List NArith ZArith Bool Lia Arith Sorted Permutation.
From Mamba Require Import Dawg.Model Dawg.Spec Dawg.CodecModel Dawg.CodecVarint Dawg.CodecWf
  Dawg.CodecDfs Dawg.CodecEncode Dawg.CodecDecode Dawg.CodecIso.
Import ListNotations.
Local Open Scope N_scope.

Section Roundtrip.
Variables (s : store) (d : N) (univ : list N) (h : N -> nat).
Hypothesis Hwf : wf s d univ h.
Variable sorted : list N.
Hypothesis Hstrict : StronglySorted N.lt sorted.
Hypothesis Hmem : forall x, In x sorted <-> exists k, In k univ /\ x = idk s k.
Variable s2 : store.
Hypothesis Hcopy : forall k, In k univ -> sget s2 (pos s sorted k) = Some (tgt s sorted k).

Notation ps := (pos s sorted).

Lemma copy_iso : iso s d s2 0 ps.
Proof.
  split; [exact (pos_root s d univ h Hwf sorted Hstrict Hmem)|].
  intros k Hk. apply (wf_univ _ _ _ _ Hwf) in Hk. exists (node_at s k).
  split; [exact (wf_sget _ _ _ _ Hwf k Hk) | exact (Hcopy k Hk)].
Qed.

Definition h2 (k2 : N) : nat :=
  match find (fun k => ps k =? k2) univ with Some k => h k | None => O end.

Lemma h2_pos k : In k univ -> h2 (ps k) = h k.
Proof.
  intros Hk. unfold h2. destruct (find (fun k0 => ps k0 =? ps k) univ) as [k'|] eqn:Hf.
  - apply find_some in Hf. destruct Hf as [Hk' E]. apply N.eqb_eq in E.
    apply (pos_inj s d univ h Hwf sorted Hstrict Hmem) in E; [subst; reflexivity | exact Hk' | exact Hk].
  - exfalso. pose proof (find_none _ _ Hf k Hk) as E. cbn beta in E. rewrite N.eqb_refl in E. discriminate.
Qed.

Lemma node_at_copy k : In k univ -> node_at s2 (ps k) = tgt s sorted k.
Proof. intros Hk. apply node_at_some. exact (Hcopy k Hk). Qed.

Lemma copy_wf : wf s2 0 (map ps univ) h2.
Proof.
  pose proof (pos_root s d univ h Hwf sorted Hstrict Hmem) as Hroot.
  constructor.
  - intros k2. split.
    + intros Hr. induction Hr as [|k2 n2 k2' Hr IH Hn Hin].
      * rewrite <- Hroot. apply in_map. exact (wf_root_in _ _ _ _ Hwf).
      * apply in_map_iff in IH. destruct IH as [k [<- Hk]]. rewrite (Hcopy k Hk) in Hn.
        injection Hn as <-. cbn [tgt nkids] in Hin. apply in_map_iff in Hin.
        destruct Hin as [k' [<- Hk']]. apply in_map. exact (wf_kid_in _ _ _ _ Hwf k k' Hk Hk').
    + intros Hin. apply in_map_iff in Hin. destruct Hin as [k [<- Hk]].
      apply (wf_univ _ _ _ _ Hwf) in Hk. induction Hk as [|k n k' Hr IH Hn Hin].
      * rewrite Hroot. constructor.
      * assert (Hku : In k univ) by (apply (wf_univ _ _ _ _ Hwf); exact Hr).
        apply (reach_kid s2 0 (ps k) (tgt s sorted k)); [exact IH | exact (Hcopy k Hku)|].
        cbn [tgt nkids]. apply in_map. rewrite (node_at_some _ _ _ Hn). exact Hin.
  - intros k2 Hin. apply in_map_iff in Hin. destruct Hin as [k [<- Hk]].
    exists (tgt s sorted k). split; [exact (Hcopy k Hk)|].
    pose proof (wf_node_ok _ _ _ _ Hwf k Hk) as Hok. destruct Hok as [H1 H2 H3 H4 H5].
    constructor; cbn [tgt nid nwords nfinal nlabels nkids]; try rewrite map_length; assumption.
  - intros a b Ha Hb E. apply in_map_iff in Ha, Hb. destruct Ha as [k1 [<- Hk1]]. destruct Hb as [k2 [<- Hk2]].
    rewrite (node_at_copy k1 Hk1), (node_at_copy k2 Hk2) in E. cbn [tgt nid] in E.
    f_equal. exact (wf_inj _ _ _ _ Hwf k1 k2 Hk1 Hk2 E).
  - intros k2 Hin. apply in_map_iff in Hin. destruct Hin as [k [<- Hk]].
    rewrite <- Hroot at 1. rewrite (node_at_copy d (wf_root_in _ _ _ _ Hwf)), (node_at_copy k Hk).
    cbn [tgt nid]. exact (wf_root_min _ _ _ _ Hwf k Hk).
  - intros k2 k2' Hin Hkid. apply in_map_iff in Hin. destruct Hin as [k [<- Hk]].
    rewrite (node_at_copy k Hk) in Hkid. cbn [tgt nkids] in Hkid. apply in_map_iff in Hkid.
    destruct Hkid as [k' [<- Hk']]. rewrite (h2_pos k Hk), (h2_pos k' (wf_kid_in _ _ _ _ Hwf k k' Hk Hk')).
    exact (wf_acyclic _ _ _ _ Hwf k k' Hk Hk').
  - rewrite map_length. exact (wf_count _ _ _ _ Hwf).
Qed.

End Roundtrip.

(* GobEncode visits every reachable node exactly once, the root first: its output is the node
   count, the ids in increasing order, and one record per node in the order of [order]. *)
Theorem gob_encode_once : forall s d, wf_dawg s d ->
  exists f0 sorted order,
    (forall fuel, (f0 <= fuel)%nat ->
       gob_encode fuel s d = Ok (gob_header sorted ++ records s sorted order)) /\
    hd_error order = Some d /\ NoDup order /\ (forall k, In k order <-> reach s d k) /\
    StronglySorted N.lt sorted /\ length sorted = length order /\
    (forall x, In x sorted <-> exists k, reach s d k /\ x = nid (node_at s k)).
Proof.
  intros s d [univ [h Hwf]].
  destruct (gob_encode_spec s d univ h Hwf) as [f0 [sorted [vtl [Henc [_ [Hs [Hmem [Hnd [Hall Hlen]]]]]]]]].
  exists f0, sorted, (d :: vtl). split; [exact Henc|]. split; [reflexivity|]. split; [exact Hnd|].
  split; [|split; [exact Hs | split; [exact Hlen|]]].
  - intros k. rewrite <- Hall. symmetry. apply (wf_univ _ _ _ _ Hwf).
  - intros x. rewrite Hmem. split; intros [k [Hk E]]; exists k; (split; [apply (wf_univ _ _ _ _ Hwf); exact Hk | exact E]).
Qed.

(* The round trip.  [t0] is the receiver of GobDecode (any node: its fields are overwritten). *)
Theorem gob_roundtrip : forall s d t0, wf_dawg s d ->
  exists f0 b s2 phi,
    (forall fuel, (f0 <= fuel)%nat -> gob_encode fuel s d = Ok b) /\
    gob_decode t0 b = DOk s2 /\
    iso s d s2 0 phi /\
    (forall k1 k2, reach s d k1 -> reach s d k2 -> phi k1 = phi k2 -> k1 = k2) /\
    wf_dawg s2 0 /\
    (forall fuel, (f0 <= fuel)%nat -> gob_encode fuel s2 0 = Ok b).
Proof.
  intros s d t0 [univ [h Hwf]].
  destruct (gob_encode_spec s d univ h Hwf) as [f0 [sorted [vtl [Henc [_ [Hs [Hmem [Hnd [Hall Hlen]]]]]]]]].
  assert (Hlen64 : N.of_nat (length sorted) < 2 ^ 64).
  { rewrite Hlen. assert (length (d :: vtl) <= length univ)%nat.
    { apply NoDup_incl_length; [exact Hnd|]. intros k Hk. apply Hall. exact Hk. }
    pose proof (wf_count _ _ _ _ Hwf). lia. }
  destruct (gob_decode_spec s d univ h Hwf sorted Hs Hmem Hlen64 t0 (d :: vtl) Hnd Hall Hlen) as [s2 [Hdec Hcopy]].
  pose proof (copy_iso s d univ h Hwf sorted Hs Hmem s2 Hcopy) as Hiso.
  exists f0, (gob_header sorted ++ records s sorted (d :: vtl)), s2, (pos s sorted).
  split; [exact Henc|]. split; [exact Hdec|]. split; [exact Hiso|]. split; [|split].
  - intros k1 k2 H1 H2. apply (pos_inj s d univ h Hwf sorted Hs Hmem); apply (wf_univ _ _ _ _ Hwf); assumption.
  - exists (map (pos s sorted) univ), (h2 s univ h sorted).
    exact (copy_wf s d univ h Hwf sorted Hs Hmem s2 Hcopy).
  - intros fuel Hf. rewrite (iso_gob_encode s d s2 0 (pos s sorted) Hiso fuel). apply Henc. exact Hf.
Qed.

(* What a caller observes on the decoded automaton is what it observes on the original. *)
Theorem gob_roundtrip_observables : forall s d t0, wf_dawg s d ->
  exists f0 b s2,
    (forall fuel, (f0 <= fuel)%nat -> gob_encode fuel s d = Ok b) /\
    gob_decode t0 b = DOk s2 /\
    (forall w, lookup s2 0 w = lookup s d w) /\
    number_of_words s2 0 = number_of_words s d /\
    (forall fuel, number_of_nodes fuel s2 0 = number_of_nodes fuel s d) /\
    (forall fuel, words_from fuel s2 0 = words_from fuel s d) /\
    (forall fuel, gob_encode fuel s2 0 = gob_encode fuel s d).
Proof.
  intros s d t0 Hwf. destruct (gob_roundtrip s d t0 Hwf) as [f0 [b [s2 [phi [Henc [Hdec [Hiso _]]]]]]].
  exists f0, b, s2. split; [exact Henc|]. split; [exact Hdec|].
  split; [intros w; exact (iso_lookup s d s2 0 phi Hiso w)|].
  split; [exact (iso_number_of_words s d s2 0 phi Hiso)|].
  split; [intros fuel; exact (iso_number_of_nodes s d s2 0 phi Hiso fuel)|].
  split; [|intros fuel; exact (iso_gob_encode s d s2 0 phi Hiso fuel)].
  intros fuel. rewrite <- (proj1 Hiso). apply (iso_words_from s d s2 0 phi Hiso). constructor.
Qed.

(* the node count reported is the number of reachable nodes *)
Theorem number_of_nodes_reachable : forall s d, wf_dawg s d ->
  exists f0 order, NoDup order /\ (forall k, In k order <-> reach s d k) /\
    forall fuel, (f0 <= fuel)%nat -> number_of_nodes fuel s d = Ok (length order).
Proof.
  intros s d [univ [h Hwf]].
  destruct (gob_encode_spec s d univ h Hwf) as [f0 [sorted [vtl [_ [Hnn [_ [_ [Hnd [Hall Hlen]]]]]]]]].
  exists f0, (d :: vtl). split; [exact Hnd|]. split.
  - intros k. rewrite <- Hall. symmetry. apply (wf_univ _ _ _ _ Hwf).
  - intros fuel Hf. rewrite <- Hlen. apply Hnn. exact Hf.
Qed.
