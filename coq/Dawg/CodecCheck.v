(* Soundness of the boolean domain check [wf_checkb]: an automaton that passes it is
   well-formed in the sense of CodecWf.v, whatever the certificates. *)
From Coq Require Import List NArith ZArith Bool Lia Arith.
From Mamba Require Import Dawg.Model Dawg.CodecModel Dawg.CodecWf.
Import ListNotations.
Local Open Scope N_scope.

Lemma existsb_eqb_in x l : existsb (N.eqb x) l = true <-> In x l.
Proof.
  rewrite existsb_exists. split.
  - intros [y [Hy E]]. apply N.eqb_eq in E. subst. exact Hy.
  - intros H. exists x. split; [exact H | apply N.eqb_refl].
Qed.

Lemma nodupb_sound l : nodupb l = true -> NoDup l.
Proof.
  induction l as [|x l IH]; intros H; [constructor|]. cbn in H. apply andb_prop in H. destruct H as [H1 H2].
  constructor; [|apply IH; exact H2]. intros Hin. apply existsb_eqb_in in Hin. rewrite Hin in H1. discriminate.
Qed.

Lemma nodup_map_inj {A B} (f : A -> B) (l : list A) : NoDup (map f l) ->
  forall a b, In a l -> In b l -> f a = f b -> a = b.
Proof.
  induction l as [|x l IH]; cbn; intros Hn a b Ha Hb E; [destruct Ha|].
  inversion Hn as [|? ? Hx Hn']; subst.
  destruct Ha as [<- | Ha], Hb as [<- | Hb]; [reflexivity | | |].
  - exfalso. apply Hx. rewrite E. apply in_map. exact Hb.
  - exfalso. apply Hx. rewrite <- E. apply in_map. exact Ha.
  - apply IH; assumption.
Qed.

Lemma id_at_node_at s k : id_at s k = nid (node_at s k).
Proof. unfold id_at, node_at. destruct (sget s k); reflexivity. Qed.

Lemma chainb_reach s d : forall rest seen, (forall k, In k seen -> reach s d k) ->
  chainb s seen rest = true -> forall k, In k rest -> reach s d k.
Proof.
  induction rest as [|x rest IH]; intros seen Hseen H k Hk; [destruct Hk|].
  cbn in H. apply andb_prop in H. destruct H as [H1 H2].
  assert (Hx : reach s d x).
  { apply existsb_exists in H1. destruct H1 as [p [Hp Hl]]. unfold links_to in Hl.
    destruct (sget s p) as [n|] eqn:Hn; [|discriminate]. apply existsb_eqb_in in Hl.
    exact (reach_kid s d p n x (Hseen p Hp) Hn Hl). }
  destruct Hk as [<- | Hk]; [exact Hx|].
  apply (IH (x :: seen)); [|exact H2 | exact Hk]. intros y [<- | Hy]; [exact Hx | apply Hseen; exact Hy].
Qed.

Lemma node_okb_sound n : node_okb n = true -> node_ok n.
Proof.
  unfold node_okb. intros H.
  apply andb_prop in H. destruct H as [H Hdeg]. apply andb_prop in H. destruct H as [H Hw2].
  apply andb_prop in H. destruct H as [H Hw1]. apply andb_prop in H. destruct H as [H Hid].
  apply andb_prop in H. destruct H as [Hlen Hlab].
  constructor.
  - apply Nat.eqb_eq. exact Hlen.
  - apply Forall_forall. intros b Hb. rewrite forallb_forall in Hlab. apply N.ltb_lt. apply Hlab. exact Hb.
  - apply N.ltb_lt. exact Hid.
  - split; [apply Z.leb_le; exact Hw1 | apply Z.ltb_lt; exact Hw2].
  - apply N.ltb_lt. exact Hdeg.
Qed.

Theorem wf_checkb_sound s d univ hl : wf_checkb s d univ hl = true -> wf s d univ (hof hl).
Proof.
  unfold wf_checkb. destruct univ as [|r rest]; [discriminate|]. intros H.
  apply andb_prop in H. destruct H as [H Hcount]. apply andb_prop in H. destruct H as [H Hnodup].
  apply andb_prop in H. destruct H as [H Hall]. apply andb_prop in H. destruct H as [H Hchain].
  apply N.eqb_eq in H. subst r.
  rewrite forallb_forall in Hall.
  assert (Hnode : forall k, In k (d :: rest) -> exists n, sget s k = Some n /\ node_okb n = true /\
            (forall k', In k' (nkids n) -> In k' (d :: rest) /\ (hof hl k' < hof hl k)%nat) /\
            id_at s d <= nid n).
  { intros k Hk. specialize (Hall k Hk). destruct (sget s k) as [n|]; [|discriminate]. exists n.
    apply andb_prop in Hall. destruct Hall as [Hall Hmin]. apply andb_prop in Hall. destruct Hall as [Hok H0].
    split; [reflexivity|]. split; [exact Hok|]. split; [|apply N.leb_le; exact Hmin].
    intros k' Hk'. rewrite forallb_forall in H0. specialize (H0 k' Hk').
    apply andb_prop in H0. destruct H0 as [E1 E2]. split; [apply existsb_eqb_in; exact E1 | apply Nat.ltb_lt; exact E2]. }
  constructor.
  - intros k. split.
    + intros Hr. induction Hr as [|k n k' Hr IH Hn Hin]; [left; reflexivity|].
      destruct (Hnode k IH) as [n' [Hn' [_ [Hk _]]]]. rewrite Hn in Hn'. injection Hn' as <-.
      apply (Hk k' Hin).
    + intros [<- | Hk]; [constructor|].
      apply (chainb_reach s d rest [d]); [intros y [<- | []]; constructor | exact Hchain | exact Hk].
  - intros k Hk. destruct (Hnode k Hk) as [n [Hn [Hok _]]]. exists n. split; [exact Hn | apply node_okb_sound; exact Hok].
  - intros k1 k2 H1 H2 E. apply nodupb_sound in Hnodup.
    rewrite <- !id_at_node_at in E.
    exact (nodup_map_inj (id_at s) (d :: rest) Hnodup k1 k2 H1 H2 E).
  - intros k Hk. destruct (Hnode k Hk) as [n [Hn [_ [_ Hle]]]].
    rewrite <- id_at_node_at. rewrite (node_at_some _ _ _ Hn). exact Hle.
  - intros k k' Hk Hk'. destruct (Hnode k Hk) as [n [Hn [_ [Hkids _]]]].
    rewrite (node_at_some _ _ _ Hn) in Hk'. apply (Hkids k' Hk').
  - apply N.ltb_lt. exact Hcount.
Qed.
