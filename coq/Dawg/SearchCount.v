(* C13: the executable counting form of the anagram relation is equivalent to the
   rearrangement form. *)
From Coq Require Import List NArith ZArith Bool Lia Permutation.
From Mamba Require Import Dawg.Model Dawg.SearchModel Dawg.SearchSpec.
Import ListNotations.

Lemma remove_one_some : forall b l l', remove_one b l = Some l' -> Permutation l (b :: l').
Proof.
  intros b. induction l as [|c l IH]; intros l' H; cbn [remove_one] in H; [discriminate|].
  destruct (N.eqb_spec c b) as [->|Hne].
  - inversion H; subst. reflexivity.
  - destruct (remove_one b l) as [r|] eqn:Er; cbn [option_map] in H; [|discriminate].
    inversion H; subst. rewrite (IH r eq_refl). apply perm_swap.
Qed.

Lemma remove_one_none : forall b l, remove_one b l = None -> ~ In b l.
Proof.
  intros b. induction l as [|c l IH]; intros H; cbn [remove_one] in H; [intros []|].
  destruct (N.eqb_spec c b) as [->|Hne]; [discriminate|].
  destruct (remove_one b l) eqn:Er; cbn [option_map] in H; [discriminate|].
  intros [Hc|Hin]; [congruence|]. exact (IH eq_refl Hin).
Qed.

Lemma count_form : forall w avail k,
  (exists fill, length fill = k /\ Permutation w (avail ++ fill)) <->
  (length w = (length avail + k)%nat /\ (deficit avail w <= k)%nat).
Proof.
  induction w as [|b w IH]; intros avail k.
  - cbn [length deficit]. split.
    + intros [fill [Hl Hp]]. apply Permutation_nil in Hp. apply app_eq_nil in Hp. destruct Hp; subst.
      cbn [length]. lia.
    + intros [Hl _]. exists []. destruct avail; cbn [length] in Hl; [|lia].
      split; [cbn [length]; lia|constructor].
  - cbn [length deficit]. destruct (remove_one b avail) as [avail'|] eqn:Er.
    + pose proof (remove_one_some _ _ _ Er) as Hp1. pose proof (Permutation_length Hp1) as Hl1. cbn [length] in Hl1.
      split.
      * intros [fill [Hl Hp]]. destruct (proj1 (IH avail' k)) as [H1 H2]; [|lia].
        exists fill. split; [exact Hl|].
        apply (Permutation_cons_inv (a := b)). rewrite Hp.
        change (b :: avail' ++ fill) with ((b :: avail') ++ fill). apply Permutation_app_tail. exact Hp1.
      * intros [Hl Hd]. destruct (proj2 (IH avail' k)) as [fill [Hf Hp]]; [lia|].
        exists fill. split; [exact Hf|].
        rewrite Hp. change (b :: avail' ++ fill) with ((b :: avail') ++ fill).
        apply Permutation_app_tail. apply Permutation_sym. exact Hp1.
    + pose proof (remove_one_none _ _ Er) as Hnin. split.
      * intros [fill [Hl Hp]].
        assert (Hin : In b (avail ++ fill)) by (eapply Permutation_in; [exact Hp|left; reflexivity]).
        apply in_app_iff in Hin. destruct Hin as [Hin|Hin]; [contradiction|].
        apply in_split in Hin. destruct Hin as [f1 [f2 ->]].
        rewrite app_assoc in Hp. apply Permutation_cons_app_inv in Hp. rewrite <- app_assoc in Hp.
        rewrite app_length in Hl. cbn [length] in Hl.
        destruct (proj1 (IH avail (length (f1 ++ f2)))) as [H1 H2].
        { exists (f1 ++ f2). split; [reflexivity|exact Hp]. }
        rewrite app_length in H1, H2. lia.
      * intros [Hl Hd]. destruct k as [|k]; [lia|].
        destruct (proj2 (IH avail k)) as [fill [Hf Hp]]; [lia|].
        exists (b :: fill). split; [cbn [length]; lia|]. apply Permutation_cons_app. exact Hp.
Qed.

Theorem matches_anagramb_iff : forall anagram blank w,
  matches_anagramb anagram blank w = true <-> matches_anagram anagram blank w.
Proof.
  intros anagram blank w. unfold matches_anagramb, matches_anagram.
  rewrite andb_true_iff, Nat.eqb_eq, Nat.leb_le, count_form.
  assert (Hs : (length (letters_of anagram blank) + blanks_of anagram blank = length anagram)%nat).
  { unfold letters_of, blanks_of. clear. induction anagram as [|c l IH]; [reflexivity|].
    cbn [filter]. destruct (is_blank blank c); cbn [negb length]; lia. }
  rewrite Hs. reflexivity.
Qed.
