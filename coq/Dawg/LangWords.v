(* The executable enumerator [words_from] (what the model driver prints as the word list)
   returns the language of the node in link order, given fuel above the longest word. *)
From Coq Require Import List NArith ZArith Bool Lia Sorted.
From Mamba Require Import Dawg.Model Dawg.Tree Dawg.Spec Dawg.TreeFacts Dawg.BuildStore Dawg.BuildProofs
  Dawg.LangOrder Dawg.LangTree Dawg.LangStore.
Import ListNotations.

Definition kids_words (g : N -> res (list word)) : list byte -> list N -> res (list word) :=
  fix kids (labs : list byte) (ks : list N) : res (list word) :=
    match labs, ks with
    | [], _ => Ok []
    | _ :: _, [] => Panic
    | c :: labs', k :: ks' =>
      do a <- g k;
      do b <- kids labs' ks';
      Ok (map (cons c) a ++ b)
    end.

Lemma words_from_unfold : forall f s i,
  words_from (S f) s i =
  do n <- deref s i;
  do rest <- kids_words (words_from f s) (nlabels n) (nkids n);
  Ok ((if nfinal n then [[]] else []) ++ rest).
Proof. reflexivity. Qed.

Fixpoint theight (t : tree) : nat :=
  match t with Node _ _ ch => S (fold_right (fun ct m => Nat.max (theight (snd ct)) m) 0%nat ch) end.

Lemma theight_pos : forall t, (1 <= theight t)%nat.
Proof. intros [f nw ch]. cbn [theight]. lia. Qed.

Lemma theight_child : forall f nw ch c t1, In (c, t1) ch -> (theight t1 < theight (Node f nw ch))%nat.
Proof.
  intros f nw ch c t1 Hin. cbn [theight]. induction ch as [|a ch IH]; [destruct Hin|].
  simpl. destruct Hin as [->|Hin]; simpl; [lia|]. specialize (IH Hin). lia.
Qed.

Lemma kids_words_rep : forall s g ch kids,
  Forall2 (rep s) kids (map snd ch) ->
  (forall c t k, In (c, t) ch -> rep s k t -> g k = Ok (tlang t)) ->
  kids_words g (map fst ch) kids = Ok (flat_map tg ch).
Proof.
  intros s g ch. induction ch as [|[c t] ch IH]; intros kids HF Hg; simpl in HF.
  - inversion HF; subst. reflexivity.
  - inversion HF as [|k ? kids' ? Hk Hrest]; subst. cbn [map fst kids_words].
    rewrite (Hg c t k (or_introl eq_refl) Hk). cbn [bind].
    fold (kids_words g). rewrite (IH kids' Hrest); [reflexivity|].
    intros c' t' k' Hin Hr. apply (Hg c' t' k'); [right; exact Hin|exact Hr].
Qed.

Lemma words_from_rep : forall fuel s i t, rep s i t -> (theight t <= fuel)%nat ->
  words_from fuel s i = Ok (tlang t).
Proof.
  induction fuel as [|f IH]; intros s i [fin nw ch] HR HH; [cbn [theight] in HH; lia|].
  rewrite words_from_unfold. pose proof (rep_inv _ _ _ _ _ HR) as (n & Hn & Hf & _ & Hl & Hk).
  rewrite (deref_ok _ _ _ Hn). cbn [bind]. rewrite Hl.
  rewrite (kids_words_rep s (words_from f s) ch (nkids n) Hk).
  - cbn [bind]. rewrite Hf. reflexivity.
  - intros c t k Hin Hrep. apply IH; auto.
    pose proof (theight_child fin nw ch c t Hin). lia.
Qed.

(* in a trimmed tree the height is one more than the length of a longest word *)
Lemma theight_word : forall t, trimmed t -> (theight t <= 1)%nat \/ exists w, In w (tlang t) /\ S (length w) = theight t.
Proof.
  induction t as [f nw ch IH] using tree_ind'. intros HT. apply trimmed_inv in HT.
  destruct ch as [|[c0 t0] ch0] eqn:Ech; [left; simpl; lia|]. rewrite <- Ech in *. right.
  assert (Hmax : exists c t1, In (c, t1) ch /\ theight (Node f nw ch) = S (theight t1)).
  { clear IH HT. cbn [theight]. assert (Hne : ch <> []) by (rewrite Ech; discriminate). clear Ech.
    induction ch as [|[c t] ch IHch]; [contradiction|]. destruct ch as [|b ch'].
    - exists c, t. split; [left; reflexivity|]. cbn [fold_right snd]. rewrite Nat.max_0_r. reflexivity.
    - destruct IHch as (c1 & t1 & Hin & E); [discriminate|]. cbn [fold_right snd] in *.
      destruct (Nat.max_spec (theight t) (Nat.max (theight (snd b)) (fold_right (fun ct m => Nat.max (theight (snd ct)) m) 0%nat ch')))
        as [[_ Hm]|[_ Hm]]; rewrite Hm.
      + exists c1, t1. split; [right; exact Hin|]. exact E.
      + exists c, t. split; [left; reflexivity|reflexivity]. }
  destruct Hmax as (c & t1 & Hin & Eh).
  rewrite Forall_forall in IH, HT. destruct (HT _ Hin) as [Hne Htr]. cbn [snd] in *.
  destruct (IH _ Hin Htr) as [Hle|(w & Hw & Ew)].
  - destruct (tlang t1) as [|w rest] eqn:El; [contradiction|].
    assert (Hw : In w (tlang t1)) by (rewrite El; left; reflexivity).
    destruct t1 as [f1 n1 ch1]. destruct ch1 as [|a ch1'].
    + destruct f1; simpl in El; [|discriminate]. inversion El; subst.
      exists [c]. split; [apply in_tlang_cons; exists (Node true n1 []); split; auto; left; reflexivity|].
      rewrite Eh. reflexivity.
    + exfalso. destruct a as [ca ta]. pose proof (theight_child f1 n1 ((ca, ta) :: ch1') ca ta (or_introl eq_refl)).
      pose proof (theight_pos ta). cbn [snd] in Hle. lia.
  - cbn [snd] in *. exists (c :: w). split; [apply in_tlang_cons; exists t1; auto|]. rewrite Eh. cbn [length]. lia.
Qed.

Theorem dawg_words_from : forall ws s fuel, increasing ws -> new_dawg ws = Ok (Some s) ->
  (2 <= fuel)%nat -> (forall w, In w ws -> (length w + 2 <= fuel)%nat) ->
  words_from fuel s root = Ok ws.
Proof.
  intros ws s fuel Hinc H H2 Hlen.
  destruct (final_root _ _ (new_dawg_final _ _ Hinc H)) as (t & HR & (_ & _ & HT) & <-).
  apply words_from_rep; auto.
  destruct (theight_word t HT) as [Hle|(w & Hw & Ew)]; [lia|]. specialize (Hlen w Hw). lia.
Qed.
