(* C13, abstract part: for every well-formed Dawg and every list of searchers satisfying the
   contract, Search returns exactly the accepted words with their ranks, in link order, and
   leaves the searchers in states equivalent to the initial ones. *)
From Coq Require Import List NArith ZArith Bool Lia.
From Mamba Require Import Dawg.Model Dawg.Tree Dawg.Spec Dawg.SearchModel Dawg.SearchSpec.
Import ListNotations.

(* ------------------------------------------------------------------ numbering *)

Lemma number_app : forall A B z,
  number z (A ++ B) = number z A ++ number (z + Z.of_nat (length A)) B.
Proof.
  induction A as [|a A IH]; intros B z.
  - cbn [app number length]. f_equal. cbn. lia.
  - cbn [app number length]. rewrite IH. do 3 f_equal. lia.
Qed.

Lemma number_map_cons : forall l L z,
  number z (map (cons l) L) = map (fun p => (l :: fst p, snd p)) (number z L).
Proof. induction L as [|u L IH]; intros z; cbn [map number fst snd]; [reflexivity|]. rewrite IH. reflexivity. Qed.

Lemma skipn_S_tl : forall {A} j (l : list A) a r, skipn j l = a :: r -> skipn (S j) l = r.
Proof.
  induction j as [|j IH]; intros l a r H.
  - cbn in H. subst l. reflexivity.
  - destruct l as [|b l]; [discriminate|]. cbn [skipn] in H |- *. eapply IH. exact H.
Qed.

Lemma removelast_snoc : forall {A} (l : list A) a, removelast (l ++ [a]) = l.
Proof. intros. rewrite removelast_app by discriminate. cbn. apply app_nil_r. Qed.

Lemma Forall2_cons_inv_r : forall {A B} (R : A -> B -> Prop) ks c cs,
  Forall2 R ks (c :: cs) -> exists k ks', ks = k :: ks' /\ R k c /\ Forall2 R ks' cs.
Proof. intros A B R ks c cs H. inversion H; subst. eauto. Qed.

Definition langs (ch : list (byte * tree)) : list word :=
  flat_map (fun ct => map (cons (fst ct)) (tlang (snd ct))) ch.

Definition finpart (fin : bool) : list word := if fin then [[]] else [].

Lemma tlang_node : forall fin nw ch, tlang (Node fin nw ch) = finpart fin ++ langs ch.
Proof. reflexivity. Qed.

Lemma langs_cons : forall l c ch, langs ((l, c) :: ch) = map (cons l) (tlang c) ++ langs ch.
Proof. reflexivity. Qed.

Lemma tedges_node : forall fin nw l c ch,
  tedges (Node fin nw ((l, c) :: ch)) = S (tedges c + tedges (Node fin nw ch)).
Proof. reflexivity. Qed.

Ltac zl := unfold word in *; lia.

Section Abstract.
Context {X : Type} (ops : searcher_ops X) (E : X -> X -> Prop) (C : contract ops E).

Local Notation EE := (Forall2 E).

Lemma E_refl_l : forall x y, E x y -> E x x.
Proof. intros x y H. eapply (c_trans ops E C); [exact H|]. apply (c_sym ops E C). exact H. Qed.

Lemma E_refl_r : forall x y, E x y -> E y y.
Proof. intros x y H. eapply (c_trans ops E C); [|exact H]. apply (c_sym ops E C). exact H. Qed.

Lemma EE_sym : forall xs ys, EE xs ys -> EE ys xs.
Proof. induction 1; constructor; auto. apply (c_sym ops E C). assumption. Qed.

Lemma EE_trans : forall xs ys zs, EE xs ys -> EE ys zs -> EE xs zs.
Proof.
  intros xs ys zs H. revert zs. induction H; intros zs Hz; inversion Hz; subst; constructor.
  - eapply (c_trans ops E C); eassumption.
  - apply IHForall2. assumption.
Qed.

Lemma EE_refl_l : forall xs ys, EE xs ys -> EE xs xs.
Proof. intros. eapply EE_trans; [eassumption|]. apply EE_sym. assumption. Qed.

Lemma EE_refl_r : forall xs ys, EE xs ys -> EE ys ys.
Proof. intros. eapply EE_trans; [|eassumption]. apply EE_sym. assumption. Qed.

(* ---------------------------------------------------------------- one searcher *)

Lemma accepts_resp : forall u x y, E x y -> exists r, accepts ops x u = Ok r /\ accepts ops y u = Ok r.
Proof.
  induction u as [|b u IH]; intros x y H.
  - cbn [accepts]. apply (c_allow_word ops E C). exact H.
  - cbn [accepts]. destruct (c_allow_step ops E C x y b H) as [a [Hx Hy]]. rewrite Hx, Hy. cbn [bind].
    destruct a.
    + destruct (c_step ops E C x y b H Hx) as [x' [y' [Sx [Sy He]]]]. rewrite Sx, Sy. cbn [bind].
      apply IH. exact He.
    + exists false. split; reflexivity.
Qed.

Lemma acc_resp : forall u x y, E x y -> acc ops x u = acc ops y u.
Proof. intros u x y H. unfold acc. destruct (accepts_resp u x y H) as [r [Hx Hy]]. rewrite Hx, Hy. reflexivity. Qed.

Lemma accall_resp : forall u xs ys, EE xs ys -> accall ops xs u = accall ops ys u.
Proof.
  intros u xs ys H. unfold accall. induction H; cbn [forallb]; [reflexivity|].
  rewrite IHForall2. f_equal. apply acc_resp. assumption.
Qed.

(* ---------------------------------------------------------------- the loops over the searchers *)

Lemma allow_word_all_ok : forall xs, EE xs xs -> allow_word_all ops xs = Ok (accall ops xs []).
Proof.
  induction xs as [|x xs IH]; intros H; [reflexivity|].
  inversion H; subst. cbn [allow_word_all accall forallb].
  destruct (c_allow_word ops E C x x H3) as [a [Ha _]].
  unfold acc. cbn [accepts]. rewrite Ha. cbn [bind].
  destruct a; cbn [andb]; [|reflexivity]. rewrite IH by assumption. reflexivity.
Qed.

Lemma chosen_all_ok : forall xs, EE xs xs -> exists xs', chosen_all ops xs = Ok xs' /\ EE xs' xs.
Proof.
  induction xs as [|x xs IH]; intros H.
  - exists []. split; [reflexivity|constructor].
  - inversion H; subst. destruct (c_chosen ops E C x H3) as [x' [Hc He]].
    destruct (IH H5) as [xs' [Hcs Hes]]. exists (x' :: xs'). split.
    + cbn [chosen_all]. rewrite Hc, Hcs. reflexivity.
    + constructor; assumption.
Qed.

(* every searcher allowed the letter and was stepped *)
Definition stepped (l : byte) : list X -> list X -> Prop :=
  Forall2 (fun x x1 => E x x /\ op_allow_step ops x l = Ok true /\ op_step ops x l = Ok x1).

Lemma allow_step_all_cases : forall l xs, EE xs xs ->
  (allow_step_all ops xs l = Ok false /\ forall u, accall ops xs (l :: u) = false) \/
  (allow_step_all ops xs l = Ok true /\ exists xs1, step_all ops xs l = Ok xs1 /\ stepped l xs xs1).
Proof.
  intros l. induction xs as [|x xs IH]; intros H.
  - right. split; [reflexivity|]. exists []. split; [reflexivity|constructor].
  - inversion H; subst. cbn [allow_step_all].
    destruct (c_allow_step ops E C x x l H3) as [a [Ha _]]. rewrite Ha. cbn [bind].
    destruct a.
    + destruct (IH H5) as [[Hf Hu]|[Ht [xs1 [Hs Hst]]]].
      * left. split; [exact Hf|]. intros u. unfold accall in *. cbn [forallb]. rewrite Hu. apply andb_false_r.
      * right. split; [exact Ht|].
        destruct (c_step ops E C x x l H3 Ha) as [x' [_ [Sx [_ _]]]].
        exists (x' :: xs1). split.
        -- cbn [step_all]. rewrite Sx, Hs. reflexivity.
        -- constructor; [auto|exact Hst].
    + left. split; [reflexivity|]. intros u. unfold accall. cbn [forallb].
      unfold acc at 1. cbn [accepts]. rewrite Ha. cbn [bind]. reflexivity.
Qed.

Lemma stepped_good : forall l xs xs1, stepped l xs xs1 -> EE xs1 xs1.
Proof.
  induction 1 as [|x x1 xs xs1 [Hx [Ha Hs]] _ IH]; constructor; [|exact IH].
  destruct (c_step ops E C x x l Hx Ha) as [x' [y' [Sx [Sy He]]]].
  rewrite Hs in Sx, Sy. inversion Sx; inversion Sy; subst. exact He.
Qed.

Lemma stepped_accall : forall l xs xs1 u, stepped l xs xs1 -> accall ops xs (l :: u) = accall ops xs1 u.
Proof.
  intros l xs xs1 u H. unfold accall. induction H as [|x x1 xs xs1 [Hx [Ha Hs]] _ IH]; [reflexivity|].
  cbn [forallb]. rewrite IH. f_equal. unfold acc. cbn [accepts]. rewrite Ha. cbn [bind]. rewrite Hs. reflexivity.
Qed.

Lemma stepped_back : forall l xs xs1 ys1, stepped l xs xs1 -> EE ys1 xs1 ->
  exists ys, backstep_all ops ys1 = Ok ys /\ EE ys xs.
Proof.
  intros l xs xs1 ys1 H. revert ys1. induction H as [|x x1 xs xs1 [Hx [Ha Hs]] _ IH]; intros ys1 He.
  - inversion He; subst. exists []. split; [reflexivity|constructor].
  - inversion He as [|y1 ? ys1' ? Hy1 Hys1]; subst.
    destruct (c_step_back ops E C x l x1 Hx Ha Hs) as [x'' [Hb Hbe]].
    destruct (c_back ops E C x1 y1 x'' (c_sym ops E C _ _ Hy1) Hb (E_refl_l _ _ Hbe)) as [y' [Hyb Hye]].
    destruct (IH _ Hys1) as [ys [Hys Hyse]].
    exists (y' :: ys). split.
    + cbn [backstep_all]. rewrite Hyb, Hys. reflexivity.
    + constructor; [|exact Hyse]. eapply (c_trans ops E C); [|exact Hbe]. apply (c_sym ops E C). exact Hye.
Qed.

(* ---------------------------------------------------------------- selections *)

(* the words of L (numbered from z) accepted from the states xs, prefixed by w *)
Definition sel (xs : list X) (w : word) (z : Z) (L : list word) : list (word * Z) :=
  map (fun p => (w ++ fst p, snd p)) (filter (fun p => accall ops xs (fst p)) (number z L)).

Lemma sel_app : forall xs w z A B,
  sel xs w z (A ++ B) = sel xs w z A ++ sel xs w (z + Z.of_nat (length A)) B.
Proof. intros. unfold sel. rewrite number_app, filter_app, map_app. reflexivity. Qed.

Lemma sel_resp : forall xs ys w z L, EE xs ys -> sel xs w z L = sel ys w z L.
Proof.
  intros xs ys w z L H. unfold sel. f_equal. apply filter_ext. intros p. apply accall_resp. exact H.
Qed.

Lemma filter_map_comm : forall {A B} (f : B -> bool) (g : A -> B) l,
  filter f (map g l) = map g (filter (fun a => f (g a)) l).
Proof.
  induction l as [|a l IH]; [reflexivity|]. cbn [map filter]. rewrite IH.
  destruct (f (g a)); reflexivity.
Qed.

Lemma filter_none : forall {A} (f : A -> bool) l, (forall a, f a = false) -> filter f l = [].
Proof. induction l as [|a l IH]; intros H; [reflexivity|]. cbn [filter]. rewrite H. apply IH. exact H. Qed.

Lemma sel_dead : forall xs w z l L, (forall u, accall ops xs (l :: u) = false) ->
  sel xs w z (map (cons l) L) = [].
Proof.
  intros xs w z l L H. unfold sel. rewrite number_map_cons, filter_map_comm.
  rewrite filter_none; [reflexivity|]. intros a. cbn [fst]. apply H.
Qed.

Lemma sel_step : forall xs xs1 w z l L, stepped l xs xs1 ->
  sel xs w z (map (cons l) L) = sel xs1 (w ++ [l]) z L.
Proof.
  intros xs xs1 w z l L H. unfold sel. rewrite number_map_cons, filter_map_comm, map_map.
  rewrite (filter_ext _ (fun p => accall ops xs1 (fst p))).
  - apply map_ext. intros p. cbn [fst snd]. rewrite <- app_assoc. reflexivity.
  - intros p. cbn [fst]. apply stepped_accall. exact H.
Qed.

Lemma sel_finpart : forall xs w z fin,
  sel xs w z (finpart fin) = if fin && accall ops xs [] then [(w, z)] else [].
Proof.
  intros xs w z [|]; unfold sel, finpart; cbn [number filter fst andb]; [|reflexivity].
  destruct (accall ops xs []); cbn [map fst snd]; [|reflexivity]. rewrite app_nil_r. reflexivity.
Qed.

(* ---------------------------------------------------------------- the loop *)
Context (s : store).

Definition finish_at (k : nat) (rest : list (N * nat)) (w : word) (idx : Z) (xs : list X)
  (sol : list (word * Z)) : res (list (word * Z) * list X) :=
  match w with
  | [] => Ok (sol, xs)
  | _ :: _ =>
    do xs2 <- backstep_all ops xs;
    search_loop ops k s (mkSt rest (removelast w) idx xs2 sol)
  end.

Lemma finish_at_snoc : forall k rest w l idx xs sol,
  finish_at k rest (w ++ [l]) idx xs sol =
  (do xs2 <- backstep_all ops xs; search_loop ops k s (mkSt rest w idx xs2 sol)).
Proof.
  intros. unfold finish_at. pose proof (removelast_snoc w l) as R.
  destruct (w ++ [l]) eqn:Ew; [destruct w; discriminate|]. rewrite R. reflexivity.
Qed.

Definition continue (k : nat) (r : inner_res) : res (list (word * Z) * list X) :=
  match r with
  | Descended st' => search_loop ops k s st'
  | Exhausted st' =>
    finish_at k (tl (st_stack st')) (st_word st') (st_index st') (st_srch st') (st_solns st')
  end.

Lemma search_loop_S : forall f i j rest w idx xs sol n, sget s i = Some n ->
  search_loop ops (S f) s (mkSt ((i, j) :: rest) w idx xs sol) =
  (do r <- search_inner ops s j (skipn j (nlabels n)) (skipn j (nkids n))
             (mkSt ((i, j) :: rest) w idx xs sol);
   continue f r).
Proof.
  intros. cbn [search_loop st_stack]. unfold deref. rewrite H. cbn [bind].
  destruct (search_inner ops s j (skipn j (nlabels n)) (skipn j (nkids n))
              (mkSt ((i, j) :: rest) w idx xs sol)) as [[st'|st']| |]; cbn [bind continue]; reflexivity.
Qed.

Lemma visit_final_ok : forall nd stk w idx xs sol, EE xs xs ->
  exists xs2, EE xs2 xs /\
    visit_final ops nd (mkSt stk w idx xs sol) =
    Ok (mkSt stk w (idx + Z.of_nat (length (finpart (nfinal nd)))) xs2
             (sol ++ sel xs w (idx + 1) (finpart (nfinal nd)))).
Proof.
  intros nd stk w idx xs sol H. unfold visit_final. rewrite sel_finpart.
  destruct (nfinal nd); cbn [finpart length andb st_srch st_index st_stack st_word st_solns].
  - rewrite allow_word_all_ok by exact H. cbn [bind].
    destruct (accall ops xs []).
    + destruct (chosen_all_ok xs H) as [xs2 [Hc He]]. exists xs2. split; [exact He|].
      rewrite Hc. cbn [bind]. reflexivity.
    + exists xs. split; [exact H|]. rewrite app_nil_r. reflexivity.
  - exists xs. split; [exact H|]. rewrite app_nil_r. do 2 f_equal. lia.
Qed.

(* the claim for a node entered with its final flag already visited *)
Definition node_claim (c : tree) : Prop :=
  forall kc, rep s kc c -> counts_ok c ->
  forall rest w idx xs sol, EE xs xs ->
  exists n xs', EE xs' xs /\ (n <= 2 * tedges c)%nat /\
    forall k,
      search_loop ops (S (n + k)) s (mkSt ((kc, O) :: rest) w idx xs sol) =
      finish_at k rest w (idx + Z.of_nat (length (langs (tch c)))) xs'
                (sol ++ sel xs w (idx + 1) (langs (tch c))).

Lemma kids_lemma : forall i n, sget s i = Some n ->
  forall suf, Forall (fun ct => node_claim (snd ct)) suf ->
  Forall (fun ct => counts_ok (snd ct)) suf ->
  forall ks, Forall2 (rep s) ks (map snd suf) ->
  forall j, skipn j (nlabels n) = map fst suf -> skipn j (nkids n) = ks ->
  forall j0 rest w idx xs sol, EE xs xs ->
  exists m xs', EE xs' xs /\ (m <= 2 * tedges (Node false 0 suf))%nat /\
    forall k,
      (do r <- search_inner ops s j (map fst suf) ks (mkSt ((i, j0) :: rest) w idx xs sol);
       continue (m + k) r) =
      finish_at k rest w (idx + Z.of_nat (length (langs suf))) xs'
                (sol ++ sel xs w (idx + 1) (langs suf)).
Proof.
  intros i n Hi. induction suf as [|[l c] suf IH]; intros HP HC ks Hks j Hlab Hkid j0 rest w idx xs sol Hxs.
  - exists O, xs. split; [exact Hxs|]. split; [cbn; lia|]. intros k.
    cbn [map search_inner bind continue st_stack tl st_word st_index st_srch st_solns langs flat_map length].
    unfold sel. cbn [number filter map]. rewrite app_nil_r. replace (idx + Z.of_nat 0)%Z with idx by lia.
    reflexivity.
  - pose proof (Forall_inv HP) as HPc. pose proof (Forall_inv_tail HP) as HPs.
    pose proof (Forall_inv HC) as HCc. pose proof (Forall_inv_tail HC) as HCs.
    cbn [map fst snd] in Hks, Hlab, HPc, HCc.
    destruct (Forall2_cons_inv_r _ _ _ _ Hks) as [kc [ks' [Eks [Hrc Hrs]]]].
    rewrite Eks in *. clear Eks.
    assert (Hlab' : skipn (S j) (nlabels n) = map fst suf) by (eapply skipn_S_tl; exact Hlab).
    assert (Hkid' : skipn (S j) (nkids n) = ks') by (eapply skipn_S_tl; exact Hkid).
    assert (Hnk : exists nk, sget s kc = Some nk /\ nfinal nk = tfin c /\ nwords nk = tnw c).
    { inversion Hrc; subst. eexists. split; [eassumption|]. split; reflexivity. }
    destruct Hnk as [nk [Hgk [Hfk Hwk]]].
    assert (Hcnt : tnw c = Z.of_nat (length (tlang c))).
    { inversion HCc; subst. cbn [tnw]. assumption. }
    rewrite langs_cons. rewrite sel_app. rewrite app_length, map_length.
    cbn [map fst search_inner st_stack st_word st_index st_srch st_solns].
    destruct (allow_step_all_cases l xs Hxs) as [[Hf Hdead]|[Ht [xs1 [Hs Hst]]]].
    + (* the link is skipped: index += numWords *)
      rewrite Hf. cbn [bind negb]. unfold deref. rewrite Hgk. cbn [bind st_stack st_word st_index st_srch st_solns].
      destruct (IH HPs HCs ks' Hrs (S j) Hlab' Hkid' j0 rest w (idx + nwords nk)%Z xs sol Hxs)
        as [m [xs' [He [Hm Hk]]]].
      exists m, xs'. split; [exact He|]. split; [rewrite tedges_node; lia|].
      intros k. rewrite (Hk k). rewrite (sel_dead xs w _ l (tlang c) Hdead). cbn [app].
      rewrite Hwk, Hcnt, ?map_length. f_equal; [zl|]. do 2 f_equal. zl.
    + (* the link is taken *)
      rewrite Ht. cbn [bind negb]. rewrite Hs. cbn [bind]. unfold deref at 1. rewrite Hgk. cbn [bind set_top st_stack st_word st_index st_srch st_solns].
      pose proof (stepped_good l xs xs1 Hst) as Hg1.
      destruct (visit_final_ok nk ((kc, O) :: (i, S j) :: rest) (w ++ [l]) idx xs1 sol Hg1) as [xs2 [He2 Hv]].
      rewrite Hv. cbn [bind continue].
      pose proof (EE_refl_l _ _ He2) as Hg2.
      destruct (HPc kc Hrc HCc ((i, S j) :: rest) (w ++ [l])
                    (idx + Z.of_nat (length (finpart (nfinal nk))))%Z xs2
                    (sol ++ sel xs1 (w ++ [l]) (idx + 1) (finpart (nfinal nk))) Hg2)
        as [nc [xs3 [He3 [Hnc Hkc]]]].
      assert (He31 : EE xs3 xs1) by (eapply EE_trans; eassumption).
      destruct (stepped_back l xs xs1 xs3 Hst He31) as [xs4 [Hb He4]].
      pose proof (EE_refl_l _ _ He4) as Hg4.
      destruct (IH HPs HCs ks' Hrs (S j) Hlab' Hkid' (S j) rest w
                   (idx + Z.of_nat (length (finpart (nfinal nk))) + Z.of_nat (length (langs (tch c))))%Z
                   xs4
                   ((sol ++ sel xs1 (w ++ [l]) (idx + 1) (finpart (nfinal nk))) ++
                    sel xs2 (w ++ [l]) (idx + Z.of_nat (length (finpart (nfinal nk))) + 1) (langs (tch c)))
                   Hg4)
        as [m [xs5 [He5 [Hm Hk]]]].
      exists (S (nc + S m)), xs5. split; [eapply EE_trans; eassumption|]. split; [rewrite tedges_node; lia|].
      intros k.
      replace (S (nc + S m) + k)%nat with (S (nc + S (m + k)))%nat by zl.
      rewrite Hkc. rewrite finish_at_snoc. rewrite Hb. cbn [bind].
      rewrite (search_loop_S _ _ _ _ _ _ _ _ n Hi). rewrite Hlab', Hkid'. rewrite Hk.
      (* the two descriptions of the outcome agree *)
      assert (Htl : tlang c = finpart (tfin c) ++ langs (tch c)) by (destruct c; reflexivity).
      rewrite Hfk in *.
      f_equal.
      * rewrite Htl, app_length. zl.
      * rewrite <- !app_assoc. f_equal.
        rewrite (sel_step xs xs1 w (idx + 1) l (tlang c) Hst). rewrite Htl, sel_app.
        rewrite <- app_assoc. f_equal. f_equal.
        -- rewrite (sel_resp xs2 xs1 _ _ _ He2). f_equal. zl.
        -- rewrite (sel_resp xs4 xs _ _ _ He4). f_equal. rewrite map_length, app_length. zl.
Qed.

Lemma node_lemma : forall c, node_claim c.
Proof.
  induction c as [fin nw ch IH] using tree_ind'. unfold node_claim.
  intros kc Hrep Hcnt rest w idx xs sol Hxs.
  inversion Hrep as [? n ? ? ? Hg Hf Hw Hl Hk]; subst.
  inversion Hcnt as [? ? ? _ Hcs]; subst.
  destruct (kids_lemma kc n Hg ch IH Hcs (nkids n) Hk O Hl eq_refl O rest w idx xs sol Hxs)
    as [m [xs' [He [Hm Hkk]]]].
  exists m, xs'. split; [exact He|]. split.
  - clear - Hm. cbn [tedges] in *. exact Hm.
  - intros k. rewrite (search_loop_S _ _ _ _ _ _ _ _ n Hg). cbn [skipn]. rewrite Hl. cbn [tch]. apply Hkk.
Qed.

Lemma sel_nil_prefix : forall xs z L,
  sel xs [] z L = filter (fun p => accall ops xs (fst p)) (number z L).
Proof.
  intros. unfold sel. rewrite (map_ext _ (fun p => p)); [apply map_id|]. intros [u r]. reflexivity.
Qed.

(* Search on a well-formed Dawg with searchers in contract states: no panic, enough fuel, the
   result is the list of accepted words of the language with their positions, and the
   searchers end in states equivalent to the initial ones. *)
Theorem search_correct : forall d t, dawg_wf s d t ->
  forall xs, EE xs xs -> forall fuel, (search_fuel t <= fuel)%nat ->
  exists xs', search ops fuel s d xs = Ok (expected (accall ops xs) (tlang t), xs') /\ EE xs' xs.
Proof.
  intros d t [Hrep [Hcnt _]] xs Hxs fuel Hfuel.
  unfold search.
  assert (Hn : exists n, sget s d = Some n /\ nfinal n = tfin t).
  { inversion Hrep; subst. eexists. split; [eassumption|reflexivity]. }
  destruct Hn as [n [Hg Hf]]. unfold deref. rewrite Hg. cbn [bind].
  destruct (visit_final_ok n [(d, O)] [] (-1)%Z xs [] Hxs) as [xs2 [He2 Hv]]. rewrite Hv. cbn [bind].
  pose proof (EE_refl_l _ _ He2) as Hg2.
  destruct (node_lemma t d Hrep Hcnt [] [] (-1 + Z.of_nat (length (finpart (nfinal n))))%Z xs2
              ([] ++ sel xs [] (-1 + 1) (finpart (nfinal n))) Hg2) as [m [xs' [He [Hm Hk]]]].
  unfold search_fuel in Hfuel.
  replace fuel with (S (m + (fuel - S m)))%nat by lia.
  rewrite Hk. cbn [finish_at]. exists xs'. split; [|eapply EE_trans; eassumption].
  f_equal. f_equal. unfold expected.
  assert (Htl : tlang t = finpart (tfin t) ++ langs (tch t)) by (destruct t; reflexivity).
  rewrite Htl, Hf. rewrite number_app, filter_app. cbn [app].
  rewrite !sel_nil_prefix. f_equal.
  rewrite (filter_ext _ (fun p => accall ops xs (fst p))); [do 2 f_equal; lia|].
  intros p. apply accall_resp. exact He2.
Qed.

(* Repeating the search with the searcher objects as the first search left them gives the
   same result. *)
Corollary search_twice : forall d t, dawg_wf s d t ->
  forall xs, EE xs xs -> forall fuel, (search_fuel t <= fuel)%nat ->
  exists xs1 xs2,
    search ops fuel s d xs = Ok (expected (accall ops xs) (tlang t), xs1) /\
    search ops fuel s d xs1 = Ok (expected (accall ops xs) (tlang t), xs2) /\
    EE xs1 xs /\ EE xs2 xs.
Proof.
  intros d t Hwf xs Hxs fuel Hfuel.
  destruct (search_correct d t Hwf xs Hxs fuel Hfuel) as [xs1 [H1 He1]].
  destruct (search_correct d t Hwf xs1 (EE_refl_l _ _ He1) fuel Hfuel) as [xs2 [H2 He2]].
  exists xs1, xs2. split; [exact H1|]. split; [|split; [exact He1|eapply EE_trans; eassumption]].
  rewrite H2. do 2 f_equal. unfold expected. apply filter_ext. intros p. apply accall_resp. exact He1.
Qed.

End Abstract.
