(* Specification level for the DAWG properties: the unfolding of a node of the store into a
   finite tree (a trie annotated with the numWords field), its language in link order, and
   the representation relation [rep] between store nodes and trees.  Several store nodes may
   unfold to the same tree: that is the sharing of the DAWG. *)
From Coq Require Import List NArith ZArith Bool Lia Sorted.
From Mamba Require Import Dawg.Model.
Import ListNotations.

(* final flag, numWords field, outgoing links in link order *)
Inductive tree : Type :=
| Node (fin : bool) (nw : Z) (ch : list (byte * tree)).

Definition tfin (t : tree) : bool := match t with Node f _ _ => f end.
Definition tnw (t : tree) : Z := match t with Node _ n _ => n end.
Definition tch (t : tree) : list (byte * tree) := match t with Node _ _ c => c end.

(* induction principle that goes through the list of children *)
Fixpoint tree_ind' (P : tree -> Prop)
  (H : forall fin nw ch, Forall (fun ct => P (snd ct)) ch -> P (Node fin nw ch))
  (t : tree) {struct t} : P t :=
  match t with
  | Node fin nw ch =>
    H fin nw ch
      ((fix go (l : list (byte * tree)) : Forall (fun ct => P (snd ct)) l :=
          match l with
          | [] => Forall_nil _
          | ct :: l' => Forall_cons ct (tree_ind' P H (snd ct)) (go l')
          end) ch)
  end.

(* the words accepted from the node, in depth-first link order (the empty word first) *)
Fixpoint tlang (t : tree) : list word :=
  match t with
  | Node fin _ ch =>
    (if fin then [[]] else []) ++
    flat_map (fun ct => map (cons (fst ct)) (tlang (snd ct))) ch
  end.

Definition tcount (t : tree) : Z := Z.of_nat (length (tlang t)).

(* numWords is the size of the right language, at every node *)
Inductive counts_ok : tree -> Prop :=
| counts_ok_node fin nw ch :
    nw = tcount (Node fin nw ch) ->
    Forall (fun ct => counts_ok (snd ct)) ch ->
    counts_ok (Node fin nw ch).

(* labels strictly increasing at every node *)
Inductive labels_sorted : tree -> Prop :=
| labels_sorted_node fin nw ch :
    StronglySorted N.lt (map fst ch) ->
    Forall (fun ct => labels_sorted (snd ct)) ch ->
    labels_sorted (Node fin nw ch).

(* every link leads to a node with a non-empty language *)
Inductive trimmed : tree -> Prop :=
| trimmed_node fin nw ch :
    Forall (fun ct => tlang (snd ct) <> [] /\ trimmed (snd ct)) ch ->
    trimmed (Node fin nw ch).

(* store node [i] unfolds to tree [t] *)
Inductive rep (s : store) : N -> tree -> Prop :=
| rep_node i n fin nw ch :
    sget s i = Some n ->
    nfinal n = fin ->
    nwords n = nw ->
    nlabels n = map fst ch ->
    Forall2 (rep s) (nkids n) (map snd ch) ->
    rep s i (Node fin nw ch).
