(* Facts about stores, the representation relation and trees (specification level). *)
From Coq Require Import List NArith ZArith Bool Lia Sorted FMapPositive.
From Mamba Require Import Dawg.Model Dawg.Tree Dawg.Spec.
Import ListNotations.

(* ---------------------------------------------------------------- stores *)

Lemma succ_pos_inj : forall i j, N.succ_pos i = N.succ_pos j -> i = j.
Proof.
  intros i j H. apply N.succ_inj. rewrite <- !N.succ_pos_spec, H. reflexivity.
Qed.

Lemma sget_sset_same : forall s i n, sget (sset s i n) i = Some n.
Proof. intros. unfold sget, sset. apply PositiveMap.gss. Qed.

Lemma sget_sset_other : forall s i j n, i <> j -> sget (sset s i n) j = sget s j.
Proof.
  intros. unfold sget, sset. apply PositiveMap.gso.
  intro E. apply H. symmetry. apply succ_pos_inj. exact E.
Qed.

Lemma sget_sempty : forall i, sget sempty i = None.
Proof. intros. unfold sget, sempty. apply PositiveMap.gempty. Qed.

Lemma deref_ok : forall s i n, sget s i = Some n -> deref s i = Ok n.
Proof. intros s i n H. unfold deref. rewrite H. reflexivity. Qed.

(* ---------------------------------------------------------------- lists *)

Lemma Forall2_length' : forall {A B} (R : A -> B -> Prop) l1 l2, Forall2 R l1 l2 -> length l1 = length l2.
Proof. induction 1; simpl; congruence. Qed.

Lemma Forall2_app_inv_both : forall {A B} (R : A -> B -> Prop) l1 l1' l2 l2',
  length l1 = length l2 -> Forall2 R (l1 ++ l1') (l2 ++ l2') -> Forall2 R l1 l2 /\ Forall2 R l1' l2'.
Proof.
  induction l1; intros l1' l2 l2' HL HF; destruct l2; simpl in *; try discriminate.
  - split; [constructor | exact HF].
  - inversion HF; subst. destruct (IHl1 l1' l2 l2') as [Ha Hb]; auto.
Qed.

Lemma pairs_eq : forall {A B} (l1 l2 : list (A * B)),
  map fst l1 = map fst l2 -> map snd l1 = map snd l2 -> l1 = l2.
Proof.
  induction l1; destruct l2; simpl; intros; try discriminate; auto.
  destruct a, p; simpl in *. inversion H; inversion H0; subst. f_equal. auto.
Qed.

Lemma last_opt_app : forall {A} (l : list A) x, last_opt (l ++ [x]) = Some x.
Proof.
  induction l; simpl; intros; auto.
  rewrite IHl. destruct (l ++ [x]) eqn:E; auto. destruct l; discriminate.
Qed.

(* ---------------------------------------------------------------- rep *)

Lemma rep_inv : forall s i fin nw ch, rep s i (Node fin nw ch) ->
  exists n, sget s i = Some n /\ nfinal n = fin /\ nwords n = nw /\ nlabels n = map fst ch /\
            Forall2 (rep s) (nkids n) (map snd ch).
Proof. intros s i fin nw ch H. inversion H; subst. exists n. auto. Qed.

Lemma rep_fun : forall s t1 i t2, rep s i t1 -> rep s i t2 -> t1 = t2.
Proof.
  intros s t1. induction t1 as [fin nw ch IH] using tree_ind'.
  intros i [fin2 nw2 ch2] H1 H2.
  apply rep_inv in H1. destruct H1 as (n & Hn & Hf & Hw & Hl & Hk).
  apply rep_inv in H2. destruct H2 as (n2 & Hn2 & Hf2 & Hw2 & Hl2 & Hk2).
  rewrite Hn in Hn2. inversion Hn2; subst n2. clear Hn2.
  f_equal; try congruence.
  apply pairs_eq; [congruence|].
  clear Hl Hl2 Hn. revert Hk Hk2 IH. generalize (nkids n). clear.
  revert ch2.
  induction ch as [|[c t] ch IHch]; intros ch2 ks Hk Hk2 IH; simpl in *.
  - inversion Hk; subst. inversion Hk2; subst. destruct ch2; [reflexivity|discriminate].
  - inversion Hk as [|k ? ks' ? Hk_hd Hk_tl]; subst.
    destruct ch2 as [|[c2 t2] ch2]; simpl in *; inversion Hk2 as [|? ? ? ? Hk2_hd Hk2_tl]; subst.
    inversion IH as [|? ? IH_hd IH_tl]; subst. simpl in IH_hd. f_equal.
    + eapply IH_hd; eauto.
    + eapply IHch; eauto.
Qed.

(* a set of keys closed under links *)
Definition closed (s : store) (R : list N) : Prop :=
  forall r, In r R -> exists n, sget s r = Some n /\ Forall (fun k => In k R) (nkids n).

Lemma rep_frame : forall s s' R, closed s R -> (forall r, In r R -> sget s' r = sget s r) ->
  forall t i, In i R -> rep s i t -> rep s' i t.
Proof.
  intros s s' R HC HE t. induction t as [fin nw ch IH] using tree_ind'.
  intros i Hi H. apply rep_inv in H. destruct H as (n & Hn & Hf & Hw & Hl & Hk).
  destruct (HC i Hi) as (n' & Hn' & Hkr). rewrite Hn in Hn'. inversion Hn'; subst n'. clear Hn'.
  apply rep_node with (n := n); auto.
  - rewrite HE; auto.
  - clear Hn Hl. revert IH Hkr Hk. generalize (nkids n). clear -HC HE.
    induction ch as [|[c t] ch IHch]; intros ks IH Hkr Hk; simpl in *;
      inversion Hk as [|? ? ? ? Hk_hd Hk_tl]; subst; constructor;
      inversion IH as [|? ? IH_hd IH_tl]; subst; inversion Hkr as [|? ? Hkr_hd Hkr_tl]; subst.
    + simpl in IH_hd. apply IH_hd; auto.
    + apply IHch; auto.
Qed.

Lemma Forall2_rep_frame : forall s s' R, closed s R -> (forall r, In r R -> sget s' r = sget s r) ->
  forall ks ts, Forall (fun k => In k R) ks -> Forall2 (rep s) ks ts -> Forall2 (rep s') ks ts.
Proof.
  intros s s' R HC HE ks ts HK HF. induction HF; constructor.
  - inversion HK; subst. eapply rep_frame; eauto.
  - inversion HK; subst. auto.
Qed.

Lemma closed_frame : forall s s' R, closed s R -> (forall r, In r R -> sget s' r = sget s r) -> closed s' R.
Proof.
  intros s s' R HC HE r Hr. destruct (HC r Hr) as (n & Hn & Hk). exists n. split; auto. rewrite HE; auto.
Qed.

(* ---------------------------------------------------------------- trees *)

Definition good (t : tree) : Prop := counts_ok t /\ labels_sorted t /\ trimmed t.

Lemma good_children : forall fin nw ch, good (Node fin nw ch) -> Forall (fun ct => good (snd ct) /\ tlang (snd ct) <> []) ch.
Proof.
  intros fin nw ch (Hc & Hl & Ht).
  inversion Hc as [? ? ? _ Hc']; inversion Hl as [? ? ? _ Hl']; inversion Ht as [? ? ? Ht']; subst.
  clear Hc Hl Ht. induction ch as [|ct ch IHch]; constructor;
    inversion Hc'; inversion Hl'; inversion Ht'; subst.
  - unfold good. tauto.
  - apply IHch; auto.
Qed.


Lemma tlang_node : forall fin nw ch,
  tlang (Node fin nw ch) = (if fin then [[]] else []) ++ flat_map (fun ct => map (cons (fst ct)) (tlang (snd ct))) ch.
Proof. reflexivity. Qed.

Lemma tlang_nw : forall fin nw nw' ch, tlang (Node fin nw ch) = tlang (Node fin nw' ch).
Proof. reflexivity. Qed.

Lemma tcount_nw : forall fin nw nw' ch, tcount (Node fin nw ch) = tcount (Node fin nw' ch).
Proof. reflexivity. Qed.

Lemma flat_map_app' : forall {A B} (f : A -> list B) l1 l2, flat_map f (l1 ++ l2) = flat_map f l1 ++ flat_map f l2.
Proof. intros. induction l1; simpl; auto. rewrite IHl1, app_assoc. reflexivity. Qed.

Lemma tlang_snoc : forall fin nw ch c t,
  tlang (Node fin nw (ch ++ [(c, t)])) = tlang (Node fin nw ch) ++ map (cons c) (tlang t).
Proof.
  intros. rewrite !tlang_node, flat_map_app'. cbn [flat_map fst snd]. rewrite app_nil_r, app_assoc. reflexivity.
Qed.

(* the chain addSuffix creates: tsuffix sf applied to a node appends the chain for sf *)
Fixpoint tsuffix (sf : word) (t : tree) : tree :=
  match t with
  | Node f nw ch =>
    match sf with
    | [] => Node true nw ch
    | c :: sf' => Node f nw (ch ++ [(c, tsuffix sf' (Node false 1 []))])
    end
  end.

Definition chain (sf : word) : tree := tsuffix sf (Node false 1 []).

Lemma tsuffix_nil : forall f nw ch, tsuffix [] (Node f nw ch) = Node true nw ch.
Proof. reflexivity. Qed.

Lemma tsuffix_cons : forall c sf f nw ch, tsuffix (c :: sf) (Node f nw ch) = Node f nw (ch ++ [(c, chain sf)]).
Proof. reflexivity. Qed.

Fixpoint split_last {A} (l : list A) : option (list A * A) :=
  match l with
  | [] => None
  | x :: l' => match split_last l' with
               | None => Some ([], x)
               | Some (l0, y) => Some (x :: l0, y)
               end
  end.

Lemma split_last_app : forall {A} (l : list A) x, split_last (l ++ [x]) = Some (l, x).
Proof. induction l; simpl; intros; auto. rewrite IHl. reflexivity. Qed.

(* the effect of one accepted Add on the unfolding of the root *)
Fixpoint tadd (w : word) (t : tree) {struct w} : tree :=
  match t with
  | Node f nw ch =>
    match w with
    | [] => tsuffix [] (Node f (nw + 1) ch)
    | c :: w' =>
      match split_last ch with
      | Some (ch0, (d, t')) =>
        if N.eqb d c then Node f (nw + 1) (ch0 ++ [(c, tadd w' t')])
        else tsuffix w (Node f (nw + 1) ch)
      | None => tsuffix w (Node f (nw + 1) ch)
      end
    end
  end.

Lemma tadd_nil : forall f nw ch, tadd [] (Node f nw ch) = Node true (nw + 1) ch.
Proof. reflexivity. Qed.

Lemma tadd_leaf : forall c w' f nw, tadd (c :: w') (Node f nw []) = tsuffix (c :: w') (Node f (nw + 1) []).
Proof. reflexivity. Qed.

Lemma tadd_snoc : forall c w' f nw ch0 d t',
  tadd (c :: w') (Node f nw (ch0 ++ [(d, t')])) =
  if N.eqb d c then Node f (nw + 1) (ch0 ++ [(c, tadd w' t')])
  else tsuffix (c :: w') (Node f (nw + 1) (ch0 ++ [(d, t')])).
Proof. intros. cbn [tadd]. rewrite split_last_app. reflexivity. Qed.

(* the rightmost path of the tree spells v and ends in a node without links *)
Inductive tspine : tree -> word -> Prop :=
| tspine_leaf f nw : tspine (Node f nw []) []
| tspine_step f nw ch0 c t' v : tspine t' v -> tspine (Node f nw (ch0 ++ [(c, t')])) (c :: v).

Lemma app_one_not_nil : forall {A} (l : list A) x, l ++ [x] <> [].
Proof. intros A l x H. destruct l; discriminate. Qed.

Lemma tspine_nil_inv : forall f nw ch, tspine (Node f nw ch) [] -> ch = [].
Proof. intros f nw ch H. inversion H; reflexivity. Qed.

Lemma tspine_cons_inv : forall f nw ch c v, tspine (Node f nw ch) (c :: v) ->
  exists ch0 t', ch = ch0 ++ [(c, t')] /\ tspine t' v.
Proof. intros f nw ch c v H. inversion H; subst. eauto. Qed.

(* the new word is above the previous one, or there is no previous word *)
Definition rel (v w : word) (t : tree) : Prop := lex_lt v w \/ (v = [] /\ tfin t = false).

Lemma lex_lt_nil_r : forall v, ~ lex_lt v [].
Proof. intros [|c v] H; discriminate. Qed.

Lemma lex_lt_cons_inv : forall d v w, lex_lt (d :: v) w ->
  exists c w', w = c :: w' /\ ((d < c)%N \/ (d = c /\ lex_lt v w')).
Proof.
  intros d v w H. unfold lex_lt in *. destruct w as [|c w']; simpl in H; [discriminate|].
  exists c, w'. split; auto.
  destruct (N.compare_spec d c); try discriminate; auto.
Qed.

Lemma lex_lt_cons_cons : forall d v c w, lex_lt (d :: v) (c :: w) -> (d < c)%N \/ (d = c /\ lex_lt v w).
Proof.
  intros d v c w H. destruct (lex_lt_cons_inv _ _ _ H) as (c1 & w1 & E & HC). inversion E; subst. exact HC.
Qed.

Lemma rel_nil_inv : forall v t, rel v [] t -> v = [] /\ tfin t = false.
Proof. intros v t [H|H]; [destruct (lex_lt_nil_r _ H)|exact H]. Qed.

Lemma rel_cons_cons : forall d v c w t, rel (d :: v) (c :: w) t -> (d < c)%N \/ (d = c /\ lex_lt v w).
Proof. intros d v c w t [H|[H _]]; [apply lex_lt_cons_cons; exact H|discriminate]. Qed.

Lemma tlang_chain : forall sf, tlang (chain sf) = [sf].
Proof.
  unfold chain. induction sf as [|c sf IH]; [reflexivity|].
  rewrite tsuffix_cons. fold (chain sf) in IH. rewrite tlang_snoc, IH. reflexivity.
Qed.

Lemma tlang_tsuffix_cons : forall c sf f nw ch,
  tlang (tsuffix (c :: sf) (Node f nw ch)) = tlang (Node f nw ch) ++ [c :: sf].
Proof. intros. rewrite tsuffix_cons, tlang_snoc, tlang_chain. reflexivity. Qed.

(* T3: the language grows by exactly the new word, at the end *)
Lemma tlang_tadd : forall w t v, tspine t v -> rel v w t -> tlang (tadd w t) = tlang t ++ [w].
Proof.
  induction w as [|c w' IH]; intros [f nw ch] v HS HR.
  - apply rel_nil_inv in HR. destruct HR as [-> HF]. apply tspine_nil_inv in HS. subst ch.
    simpl in HF. subst f. reflexivity.
  - destruct v as [|d v'].
    + apply tspine_nil_inv in HS. subst ch. rewrite tadd_leaf, tlang_tsuffix_cons. reflexivity.
    + apply tspine_cons_inv in HS. destruct HS as (ch0 & t' & -> & HS).
      rewrite tadd_snoc. apply rel_cons_cons in HR.
      destruct (N.eqb_spec d c) as [->|NE].
      * destruct HR as [HR|[_ HR]]; [lia|].
        rewrite !tlang_snoc. rewrite (IH t' v' HS (or_introl HR)), map_app.
        rewrite (tlang_nw f (nw + 1) nw). rewrite app_assoc. reflexivity.
      * rewrite tlang_tsuffix_cons. reflexivity.
Qed.

(* T1 *)
Lemma tspine_chain : forall sf f nw, tspine (tsuffix sf (Node f nw [])) sf.
Proof.
  induction sf as [|c sf IH]; intros.
  - constructor.
  - rewrite tsuffix_cons. apply (tspine_step f nw [] c). apply IH.
Qed.

Lemma tspine_tsuffix_cons : forall c sf f nw ch, tspine (tsuffix (c :: sf) (Node f nw ch)) (c :: sf).
Proof. intros. rewrite tsuffix_cons. constructor. apply tspine_chain. Qed.

Lemma tspine_tadd : forall w t v, tspine t v -> rel v w t -> tspine (tadd w t) w.
Proof.
  induction w as [|c w' IH]; intros [f nw ch] v HS HR.
  - apply rel_nil_inv in HR. destruct HR as [-> HF]. apply tspine_nil_inv in HS. subst ch.
    rewrite tadd_nil. constructor.
  - destruct v as [|d v'].
    + apply tspine_nil_inv in HS. subst ch. rewrite tadd_leaf. apply tspine_tsuffix_cons.
    + apply tspine_cons_inv in HS. destruct HS as (ch0 & t' & -> & HS).
      rewrite tadd_snoc. apply rel_cons_cons in HR.
      destruct (N.eqb_spec d c) as [->|NE].
      * destruct HR as [HR|[_ HR]]; [lia|]. constructor. eapply IH; eauto. left; auto.
      * apply tspine_tsuffix_cons.
Qed.

(* ---------------------------------------------------------------- goodness is preserved by tadd *)

Lemma tcount_snoc : forall fin nw ch c t,
  tcount (Node fin nw (ch ++ [(c, t)])) = (tcount (Node fin nw ch) + tcount t)%Z.
Proof. intros. unfold tcount. rewrite tlang_snoc, app_length, map_length, Nat2Z.inj_add. reflexivity. Qed.

Lemma counts_ok_inv : forall f nw ch, counts_ok (Node f nw ch) ->
  nw = tcount (Node f nw ch) /\ Forall (fun ct => counts_ok (snd ct)) ch.
Proof. intros f nw ch H. inversion H; subst. auto. Qed.

Lemma counts_ok_chain : forall sf, counts_ok (chain sf).
Proof.
  unfold chain. induction sf as [|c sf IH].
  - rewrite tsuffix_nil. constructor; [reflexivity|constructor].
  - rewrite tsuffix_cons. constructor.
    + rewrite tcount_snoc. unfold tcount at 2. rewrite tlang_chain. reflexivity.
    + constructor; [exact IH|constructor].
Qed.

Lemma counts_ok_tsuffix_cons : forall c sf f nw ch,
  counts_ok (Node f nw ch) -> counts_ok (tsuffix (c :: sf) (Node f (nw + 1) ch)).
Proof.
  intros c sf f nw ch H. apply counts_ok_inv in H. destruct H as [Hn Hc].
  rewrite tsuffix_cons. constructor.
  - rewrite tcount_snoc. unfold tcount at 2. rewrite tlang_chain.
    rewrite (tcount_nw f (nw + 1) nw). cbn [length]. lia.
  - apply Forall_app. split; [exact Hc|]. constructor; [apply counts_ok_chain|constructor].
Qed.

Lemma counts_ok_tadd : forall w t v, tspine t v -> rel v w t -> counts_ok t -> counts_ok (tadd w t).
Proof.
  induction w as [|c w' IH]; intros [f nw ch] v HS HR HC.
  - apply rel_nil_inv in HR. destruct HR as [-> HF]. apply tspine_nil_inv in HS. subst ch.
    simpl in HF. subst f. apply counts_ok_inv in HC. destruct HC as [Hn _].
    rewrite tadd_nil. constructor; [|constructor]. unfold tcount in *. simpl in *. lia.
  - destruct v as [|d v'].
    + apply tspine_nil_inv in HS. subst ch. rewrite tadd_leaf. apply counts_ok_tsuffix_cons. exact HC.
    + pose proof (tlang_tadd (c :: w') _ _ HS HR) as HL.
      apply tspine_cons_inv in HS. destruct HS as (ch0 & t' & -> & HS).
      rewrite tadd_snoc in *. apply rel_cons_cons in HR.
      destruct (N.eqb_spec d c) as [->|NE].
      * destruct HR as [HR|[_ HR]]; [lia|].
        pose proof (counts_ok_inv _ _ _ HC) as [Hn Hc]. apply Forall_app in Hc. destruct Hc as [Hc0 Hc1].
        constructor.
        -- unfold tcount in *. rewrite HL, app_length. cbn [length]. lia.
        -- apply Forall_app. split; [exact Hc0|]. constructor; [|constructor].
           inversion Hc1; subst. eapply IH; eauto. left; auto.
      * apply counts_ok_tsuffix_cons. exact HC.
Qed.

Lemma sorted_snoc : forall l x, StronglySorted N.lt (l ++ [x]) <-> StronglySorted N.lt l /\ Forall (fun y => (y < x)%N) l.
Proof.
  induction l as [|a l IH]; intros x; simpl.
  - split; [intros _; split; constructor|intros _; constructor; constructor].
  - split.
    + intro H. inversion H as [|? ? HS HF]; subst. apply IH in HS. destruct HS as [HS HL].
      apply Forall_app in HF. destruct HF as [HF1 HF2]. inversion HF2; subst.
      split; constructor; auto.
    + intros [H HL]. inversion H as [|? ? HS HF]; subst. inversion HL; subst.
      constructor; [apply IH; auto|]. apply Forall_app. split; auto.
Qed.

Lemma sorted_snoc_snoc : forall l d c, StronglySorted N.lt (l ++ [d]) -> (d < c)%N -> StronglySorted N.lt ((l ++ [d]) ++ [c]).
Proof.
  intros l d c H Hdc. apply sorted_snoc. split; [exact H|].
  apply sorted_snoc in H. destruct H as [_ HL]. apply Forall_app. split.
  - eapply Forall_impl; [|exact HL]. simpl. intros. lia.
  - constructor; [exact Hdc|constructor].
Qed.

Lemma labels_sorted_inv : forall f nw ch, labels_sorted (Node f nw ch) ->
  StronglySorted N.lt (map fst ch) /\ Forall (fun ct => labels_sorted (snd ct)) ch.
Proof. intros f nw ch H. inversion H; subst. auto. Qed.

Lemma labels_sorted_chain : forall sf, labels_sorted (chain sf).
Proof.
  unfold chain. induction sf as [|c sf IH].
  - rewrite tsuffix_nil. constructor; constructor.
  - rewrite tsuffix_cons. constructor; simpl.
    + constructor; constructor.
    + constructor; [exact IH|constructor].
Qed.

(* appending a chain under a label above the last one *)
Lemma labels_sorted_tsuffix_cons : forall c sf f nw nw' ch,
  labels_sorted (Node f nw ch) -> Forall (fun y => (y < c)%N) (map fst ch) ->
  labels_sorted (tsuffix (c :: sf) (Node f nw' ch)).
Proof.
  intros c sf f nw nw' ch H HL. apply labels_sorted_inv in H. destruct H as [HS HC].
  rewrite tsuffix_cons. constructor.
  - rewrite map_app. simpl. apply sorted_snoc. auto.
  - apply Forall_app. split; [exact HC|]. constructor; [apply labels_sorted_chain|constructor].
Qed.

Lemma labels_lt_last : forall ch0 d (t' : tree) c,
  StronglySorted N.lt (map fst (ch0 ++ [(d, t')])) -> (d < c)%N ->
  Forall (fun y => (y < c)%N) (map fst (ch0 ++ [(d, t')])).
Proof.
  intros ch0 d t' c H Hdc. rewrite map_app in *. simpl in *. apply sorted_snoc in H. destruct H as [_ HL].
  apply Forall_app. split.
  - eapply Forall_impl; [|exact HL]. simpl. intros. lia.
  - constructor; [exact Hdc|constructor].
Qed.

Lemma labels_sorted_tadd : forall w t v, tspine t v -> rel v w t -> labels_sorted t -> labels_sorted (tadd w t).
Proof.
  induction w as [|c w' IH]; intros [f nw ch] v HS HR HC.
  - apply labels_sorted_inv in HC. destruct HC. rewrite tadd_nil. constructor; auto.
  - destruct v as [|d v'].
    + apply tspine_nil_inv in HS. subst ch. rewrite tadd_leaf.
      eapply labels_sorted_tsuffix_cons; [exact HC|constructor].
    + apply tspine_cons_inv in HS. destruct HS as (ch0 & t' & -> & HS).
      rewrite tadd_snoc. apply rel_cons_cons in HR.
      pose proof (labels_sorted_inv _ _ _ HC) as [Hs Hc].
      destruct (N.eqb_spec d c) as [->|NE].
      * destruct HR as [HR|[_ HR]]; [lia|].
        apply Forall_app in Hc. destruct Hc as [Hc0 Hc1]. inversion Hc1; subst.
        constructor.
        -- rewrite map_app in *. exact Hs.
        -- apply Forall_app. split; [exact Hc0|]. constructor; [|constructor].
           eapply IH; eauto. left; auto.
      * destruct HR as [HR|[HR _]]; [|congruence].
        eapply labels_sorted_tsuffix_cons; [exact HC|]. apply labels_lt_last; auto.
Qed.

Lemma trimmed_inv : forall f nw ch, trimmed (Node f nw ch) ->
  Forall (fun ct => tlang (snd ct) <> [] /\ trimmed (snd ct)) ch.
Proof. intros f nw ch H. inversion H; subst. auto. Qed.

Lemma trimmed_chain : forall sf, trimmed (chain sf).
Proof.
  unfold chain. induction sf as [|c sf IH].
  - rewrite tsuffix_nil. constructor. constructor.
  - rewrite tsuffix_cons. constructor. constructor; [|constructor].
    split; [|exact IH]. simpl. fold (chain sf). rewrite tlang_chain. discriminate.
Qed.

Lemma trimmed_tsuffix_cons : forall c sf f nw nw' ch,
  trimmed (Node f nw ch) -> trimmed (tsuffix (c :: sf) (Node f nw' ch)).
Proof.
  intros c sf f nw nw' ch H. apply trimmed_inv in H. rewrite tsuffix_cons. constructor.
  apply Forall_app. split; [exact H|]. constructor; [|constructor].
  split; [|apply trimmed_chain]. simpl. rewrite tlang_chain. discriminate.
Qed.

Lemma trimmed_tadd : forall w t v, tspine t v -> rel v w t -> trimmed t -> trimmed (tadd w t).
Proof.
  induction w as [|c w' IH]; intros [f nw ch] v HS HR HC.
  - apply trimmed_inv in HC. rewrite tadd_nil. constructor; auto.
  - destruct v as [|d v'].
    + apply tspine_nil_inv in HS. subst ch. rewrite tadd_leaf.
      eapply trimmed_tsuffix_cons; exact HC.
    + apply tspine_cons_inv in HS. destruct HS as (ch0 & t' & -> & HS).
      rewrite tadd_snoc. apply rel_cons_cons in HR.
      pose proof (trimmed_inv _ _ _ HC) as Hc.
      destruct (N.eqb_spec d c) as [->|NE].
      * destruct HR as [HR|[_ HR]]; [lia|].
        apply Forall_app in Hc. destruct Hc as [Hc0 Hc1]. inversion Hc1 as [|? ? [_ Ht'] _]; subst.
        constructor. apply Forall_app. split; [exact Hc0|]. constructor; [|constructor]. simpl. split.
        -- rewrite (tlang_tadd w' t' v' HS (or_introl HR)). apply app_one_not_nil.
        -- eapply IH; eauto. left; auto.
      * eapply trimmed_tsuffix_cons; exact HC.
Qed.

Lemma good_tadd : forall w t v, tspine t v -> rel v w t -> good t -> good (tadd w t).
Proof.
  intros w t v HS HR (H1 & H2 & H3). repeat split.
  - eapply counts_ok_tadd; eauto.
  - eapply labels_sorted_tadd; eauto.
  - eapply trimmed_tadd; eauto.
Qed.
