(* Facts about stores, the representation relation and trees (specification level). *)
From Coq Require Import List NArith ZArith Bool Lia Sorted FMapPositive.
From Mamba Require Import Dawg.Model Dawg.Tree Dawg.Spec.
Import ListNotations.

(* ---------------------------------------------------------------- stores *)

Lemma succ_pos_inj : forall i j, N.succ_pos i = N.succ_pos j -> i = j.
Proof.
  intros i j H. apply N.succ_inj. rewrite <- !N.succ_pos_spec, H. reflexivity.
Qed.

Lemma sget_sset_same : forall s i n, sget (sset s i n) i = Some n.
Proof. intros. unfold sget, sset. apply PositiveMap.gss. Qed.

Lemma sget_sset_other : forall s i j n, i <> j -> sget (sset s i n) j = sget s j.
Proof.
  intros. unfold sget, sset. apply PositiveMap.gso.
  intro E. apply H. symmetry. apply succ_pos_inj. exact E.
Qed.

Lemma sget_sempty : forall i, sget sempty i = None.
Proof. intros. unfold sget, sempty. apply PositiveMap.gempty. Qed.

Lemma deref_ok : forall s i n, sget s i = Some n -> deref s i = Ok n.
Proof. intros s i n H. unfold deref. rewrite H. reflexivity. Qed.

(* ---------------------------------------------------------------- lists *)

Lemma Forall2_length' : forall {A B} (R : A -> B -> Prop) l1 l2, Forall2 R l1 l2 -> length l1 = length l2.
Proof. induction 1; simpl; congruence. Qed.

Lemma Forall2_app_inv_both : forall {A B} (R : A -> B -> Prop) l1 l1' l2 l2',
  length l1 = length l2 -> Forall2 R (l1 ++ l1') (l2 ++ l2') -> Forall2 R l1 l2 /\ Forall2 R l1' l2'.
Proof.
  induction l1; intros l1' l2 l2' HL HF; destruct l2; simpl in *; try discriminate.
  - split; [constructor | exact HF].
  - inversion HF; subst. destruct (IHl1 l1' l2 l2') as [Ha Hb]; auto.
Qed.

Lemma pairs_eq : forall {A B} (l1 l2 : list (A * B)),
  map fst l1 = map fst l2 -> map snd l1 = map snd l2 -> l1 = l2.
Proof.
  induction l1; destruct l2; simpl; intros; try discriminate; auto.
  destruct a, p; simpl in *. inversion H; inversion H0; subst. f_equal. auto.
Qed.

Lemma last_opt_app : forall {A} (l : list A) x, last_opt (l ++ [x]) = Some x.
Proof.
  induction l; simpl; intros; auto.
  rewrite IHl. destruct (l ++ [x]) eqn:E; auto. destruct l; discriminate.
Qed.

(* ---------------------------------------------------------------- rep *)

Lemma rep_inv : forall s i fin nw ch, rep s i (Node fin nw ch) ->
  exists n, sget s i = Some n /\ nfinal n = fin /\ nwords n = nw /\ nlabels n = map fst ch /\
            Forall2 (rep s) (nkids n) (map snd ch).
Proof. intros s i fin nw ch H. inversion H; subst. exists n. auto. Qed.

Lemma rep_fun : forall s t1 i t2, rep s i t1 -> rep s i t2 -> t1 = t2.
Proof.
  intros s t1. induction t1 as [fin nw ch IH] using tree_ind'.
  intros i [fin2 nw2 ch2] H1 H2.
  apply rep_inv in H1. destruct H1 as (n & Hn & Hf & Hw & Hl & Hk).
  apply rep_inv in H2. destruct H2 as (n2 & Hn2 & Hf2 & Hw2 & Hl2 & Hk2).
  rewrite Hn in Hn2. inversion Hn2; subst n2. clear Hn2.
  f_equal; try congruence.
  apply pairs_eq; [congruence|].
  clear Hl Hl2 Hn. revert Hk Hk2 IH. generalize (nkids n). clear.
  revert ch2.
  induction ch as [|[c t] ch IHch]; intros ch2 ks Hk Hk2 IH; simpl in *.
  - inversion Hk; subst. inversion Hk2; subst. destruct ch2; [reflexivity|discriminate].
  - inversion Hk as [|k ? ks' ? Hk_hd Hk_tl]; subst.
    destruct ch2 as [|[c2 t2] ch2]; simpl in *; inversion Hk2 as [|? ? ? ? Hk2_hd Hk2_tl]; subst.
    inversion IH as [|? ? IH_hd IH_tl]; subst. simpl in IH_hd. f_equal.
    + eapply IH_hd; eauto.
    + eapply IHch; eauto.
Qed.

(* a set of keys closed under links *)
Definition closed (s : store) (R : list N) : Prop :=
  forall r, In r R -> exists n, sget s r = Some n /\ Forall (fun k => In k R) (nkids n).

Lemma rep_frame : forall s s' R, closed s R -> (forall r, In r R -> sget s' r = sget s r) ->
  forall t i, In i R -> rep s i t -> rep s' i t.
Proof.
  intros s s' R HC HE t. induction t as [fin nw ch IH] using tree_ind'.
  intros i Hi H. apply rep_inv in H. destruct H as (n & Hn & Hf & Hw & Hl & Hk).
  destruct (HC i Hi) as (n' & Hn' & Hkr). rewrite Hn in Hn'. inversion Hn'; subst n'. clear Hn'.
  apply rep_node with (n := n); auto.
  - rewrite HE; auto.
  - clear Hn Hl. revert IH Hkr Hk. generalize (nkids n). clear -HC HE.
    induction ch as [|[c t] ch IHch]; intros ks IH Hkr Hk; simpl in *;
      inversion Hk as [|? ? ? ? Hk_hd Hk_tl]; subst; constructor;
      inversion IH as [|? ? IH_hd IH_tl]; subst; inversion Hkr as [|? ? Hkr_hd Hkr_tl]; subst.
    + simpl in IH_hd. apply IH_hd; auto.
    + apply IHch; auto.
Qed.

Lemma Forall2_rep_frame : forall s s' R, closed s R -> (forall r, In r R -> sget s' r = sget s r) ->
  forall ks ts, Forall (fun k => In k R) ks -> Forall2 (rep s) ks ts -> Forall2 (rep s') ks ts.
Proof.
  intros s s' R HC HE ks ts HK HF. induction HF; constructor.
  - inversion HK; subst. eapply rep_frame; eauto.
  - inversion HK; subst. auto.
Qed.

Lemma closed_frame : forall s s' R, closed s R -> (forall r, In r R -> sget s' r = sget s r) -> closed s' R.
Proof.
  intros s s' R HC HE r Hr. destruct (HC r Hr) as (n & Hn & Hk). exists n. split; auto. rewrite HE; auto.
Qed.

(* ---------------------------------------------------------------- trees *)

Definition good (t : tree) : Prop := counts_ok t /\ labels_sorted t /\ trimmed t.

Lemma good_children : forall fin nw ch, good (Node fin nw ch) -> Forall (fun ct => good (snd ct) /\ tlang (snd ct) <> []) ch.
Proof.
  intros fin nw ch (Hc & Hl & Ht). inversion Hc; inversion Hl; inversion Ht; subst.
  clear -H2 H7 H10. induction ch; constructor; inversion H2; inversion H7; inversion H10; subst.
  - unfold good. tauto.
  - apply IHch; auto.
Qed.

Lemma tlang_node : forall fin nw ch,
  tlang (Node fin nw ch) = (if fin then [[]] else []) ++ flat_map (fun ct => map (cons (fst ct)) (tlang (snd ct))) ch.
Proof. reflexivity. Qed.

(* the chain addSuffix creates: tsuffix sf applied to a node appends the chain for sf *)
Fixpoint tsuffix (sf : word) (t : tree) : tree :=
  match t with
  | Node f nw ch =>
    match sf with
    | [] => Node true nw ch
    | c :: sf' => Node f nw (ch ++ [(c, tsuffix sf' (Node false 1 []))])
    end
  end.

Definition chain (sf : word) : tree := tsuffix sf (Node false 1 []).

Fixpoint split_last {A} (l : list A) : option (list A * A) :=
  match l with
  | [] => None
  | x :: l' => match split_last l' with
               | None => Some ([], x)
               | Some (l0, y) => Some (x :: l0, y)
               end
  end.

Lemma split_last_app : forall {A} (l : list A) x, split_last (l ++ [x]) = Some (l, x).
Proof. induction l; simpl; intros; auto. rewrite IHl. reflexivity. Qed.

(* the effect of one accepted Add on the unfolding of the root *)
Fixpoint tadd (w : word) (t : tree) {struct w} : tree :=
  match t with
  | Node f nw ch =>
    match w with
    | [] => tsuffix [] (Node f (nw + 1) ch)
    | c :: w' =>
      match split_last ch with
      | Some (ch0, (d, t')) =>
        if N.eqb d c then Node f (nw + 1) (ch0 ++ [(c, tadd w' t')])
        else tsuffix w (Node f (nw + 1) ch)
      | None => tsuffix w (Node f (nw + 1) ch)
      end
    end
  end.

(* the rightmost path of the tree spells v and ends in a node without links *)
Inductive tspine : tree -> word -> Prop :=
| tspine_leaf f nw : tspine (Node f nw []) []
| tspine_step f nw ch0 c t' v : tspine t' v -> tspine (Node f nw (ch0 ++ [(c, t')])) (c :: v).

(* the new word is above the previous one, or there is no previous word *)
Definition rel (v w : word) (t : tree) : Prop := lex_lt v w \/ (v = [] /\ tfin t = false).

Lemma lex_lt_cons_inv : forall d v w, lex_lt (d :: v) w ->
  exists c w', w = c :: w' /\ ((d < c)%N \/ (d = c /\ lex_lt v w')).
Proof.
  intros d v w H. unfold lex_lt in *. destruct w as [|c w']; simpl in H; [discriminate|].
  exists c, w'. split; auto.
  destruct (N.compare_spec d c); try discriminate; auto.
Qed.

Lemma lex_lt_nil_inv : forall w, lex_lt [] w -> w <> [].
Proof. intros [|c w] H; [discriminate|congruence]. Qed.

Lemma tlang_chain : forall sf, tlang (chain sf) = [sf].
Proof.
  unfold chain. induction sf; simpl; auto.
  rewrite IHsf. reflexivity.
Qed.

Lemma flat_map_app' : forall {A B} (f : A -> list B) l1 l2, flat_map f (l1 ++ l2) = flat_map f l1 ++ flat_map f l2.
Proof. intros. induction l1; simpl; auto. rewrite IHl1, app_assoc. reflexivity. Qed.

Lemma tlang_tsuffix_cons : forall c sf f nw ch,
  tlang (tsuffix (c :: sf) (Node f nw ch)) = tlang (Node f nw ch) ++ [c :: sf].
Proof.
  intros. simpl. rewrite flat_map_app'. simpl. fold (chain sf). rewrite tlang_chain. simpl.
  rewrite app_assoc. reflexivity.
Qed.

(* T3: the language grows by exactly the new word, at the end *)
Lemma tlang_tadd : forall w t v, tspine t v -> rel v w t -> tlang (tadd w t) = tlang t ++ [w].
Proof.
  induction w as [|c w' IH]; intros t v HS HR.
  - destruct HR as [HR|[-> HF]].
    + destruct v; [discriminate|]. destruct (lex_lt_cons_inv _ _ _ HR) as (?&?&?&?); discriminate.
    + inversion HS; subst. simpl in *. subst f. reflexivity.
  - destruct t as [f nw ch]. inversion HS; subst.
    + simpl (tadd _ _). apply tlang_tsuffix_cons.
    + unfold tadd; fold tadd. rewrite split_last_app.
      destruct HR as [HR|[HR _]]; [|discriminate].
      destruct (lex_lt_cons_inv _ _ _ HR) as (c1 & w1 & E & HC). inversion E; subst c1 w1. clear E.
      destruct (N.eqb_spec c0 c) as [->|NE].
      * destruct HC as [HC|[_ HC]]; [lia|].
        rewrite !tlang_node, !flat_map_app'. simpl.
        rewrite (IH t' v0 H2 (or_introl HC)). rewrite map_app. simpl.
        rewrite !app_nil_r, <- !app_assoc. reflexivity.
      * apply tlang_tsuffix_cons.
Qed.

(* T1 *)
Lemma tspine_chain : forall sf f nw, tspine (tsuffix sf (Node f nw [])) sf.
Proof.
  induction sf; intros; simpl.
  - constructor.
  - apply (tspine_step f nw [] a). apply IHsf.
Qed.

Lemma tspine_tadd : forall w t v, tspine t v -> rel v w t -> tspine (tadd w t) w.
Proof.
  induction w as [|c w' IH]; intros t v HS HR.
  - destruct HR as [HR|[-> HF]].
    + destruct v; [discriminate|]. destruct (lex_lt_cons_inv _ _ _ HR) as (?&?&?&?); discriminate.
    + inversion HS; subst. simpl. constructor.
  - destruct t as [f nw ch]. inversion HS; subst.
    + simpl. apply (tspine_step f (nw + 1) [] c). apply tspine_chain.
    + unfold tadd; fold tadd. rewrite split_last_app.
      destruct HR as [HR|[HR _]]; [|discriminate].
      destruct (lex_lt_cons_inv _ _ _ HR) as (c1 & w1 & E & HC). inversion E; subst c1 w1. clear E.
      destruct (N.eqb_spec c0 c) as [->|NE].
      * destruct HC as [HC|[_ HC]]; [lia|].
        constructor. eapply IH; eauto. left; auto.
      * simpl. constructor. apply tspine_chain.
Qed.
