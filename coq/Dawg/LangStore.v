(* Store level: the language, Lookup and NumberOfWords of a node that unfolds to a good tree;
   the theorems about the automaton New returns for a strictly increasing word list. *)
From Coq Require Import List NArith ZArith Bool Lia Sorted.
From Mamba Require Import Dawg.Model Dawg.Tree Dawg.Spec Dawg.TreeFacts Dawg.BuildStore Dawg.BuildProofs
  Dawg.LangOrder Dawg.LangTree.
Import ListNotations.

(* ---------------------------------------------------------------- lists *)

Lemma index_of_nth : forall c l j, index_of c l = Some j -> nth_error l j = Some c.
Proof.
  induction l as [|x l IH]; simpl; intros j H; [discriminate|].
  destruct (N.eqb_spec x c) as [->|NE]; [inversion H; reflexivity|].
  destruct (index_of c l); [|discriminate]. inversion H; subst. simpl. auto.
Qed.

Lemma index_of_nodup : forall c l j, NoDup l -> nth_error l j = Some c -> index_of c l = Some j.
Proof.
  induction l as [|x l IH]; intros j HN H; [destruct j; discriminate|].
  inversion HN; subst. destruct j as [|j]; simpl in *.
  - inversion H; subst. rewrite N.eqb_refl. reflexivity.
  - destruct (N.eqb_spec x c) as [->|NE]; [exfalso; apply H2; eapply nth_error_In; eauto|].
    rewrite (IH j H3 H). reflexivity.
Qed.

Lemma Forall2_nth_l : forall {A B} (R : A -> B -> Prop) l1 l2 j a,
  Forall2 R l1 l2 -> nth_error l1 j = Some a -> exists b, nth_error l2 j = Some b /\ R a b.
Proof.
  intros A B R l1 l2 j a H. revert j. induction H; intros [|j] Hj; simpl in *; try discriminate.
  - inversion Hj; subst. eauto.
  - auto.
Qed.

Lemma Forall2_nth_r : forall {A B} (R : A -> B -> Prop) l1 l2 j b,
  Forall2 R l1 l2 -> nth_error l2 j = Some b -> exists a, nth_error l1 j = Some a /\ R a b.
Proof.
  intros A B R l1 l2 j b H. revert j. induction H; intros [|j] Hj; simpl in *; try discriminate.
  - inversion Hj; subst. eauto.
  - auto.
Qed.

Lemma nth_error_pair : forall (ch : list (byte * tree)) j c t,
  nth_error (map fst ch) j = Some c -> nth_error (map snd ch) j = Some t -> nth_error ch j = Some (c, t).
Proof.
  intros ch j c t H1 H2. rewrite nth_error_map in H1, H2.
  destruct (nth_error ch j) as [[c' t']|]; simpl in *; inversion H1; inversion H2; reflexivity.
Qed.

Lemma rep_fields : forall s i t, rep s i t ->
  exists n, sget s i = Some n /\ nfinal n = tfin t /\ nwords n = tnw t /\ nlabels n = map fst (tch t) /\
            Forall2 (rep s) (nkids n) (map snd (tch t)).
Proof. intros s i [f nw ch] H. apply rep_inv in H. exact H. Qed.

(* ---------------------------------------------------------------- language *)

Lemma accepts_rep : forall w s i t, rep s i t -> labels_sorted t -> (accepts s i w <-> In w (tlang t)).
Proof.
  induction w as [|c w IH]; intros s i [f nw ch] HR HL.
  - rewrite in_tlang_nil. apply rep_inv in HR. destruct HR as (n & Hn & Hf & _).
    split.
    + intros H. inversion H as [i' n' Hn' Hf'|]; subst. congruence.
    + intros ->. eapply accepts_nil; eauto.
  - rewrite in_tlang_cons. pose proof (rep_inv _ _ _ _ _ HR) as (n & Hn & _ & _ & Hl & Hk).
    pose proof (labels_sorted_inv _ _ _ HL) as [HS HLc]. apply sorted_NoDup in HS.
    split.
    + intros H. inversion H as [|i' n' c' w' j k Hn' Hidx Hnth Hacc]; subst.
      rewrite Hn in Hn'. inversion Hn'; subst n'. clear Hn'.
      rewrite Hl in Hidx. apply index_of_nth in Hidx.
      destruct (Forall2_nth_l _ _ _ _ _ Hk Hnth) as (t' & Ht' & Hrep).
      pose proof (nth_error_pair _ _ _ _ Hidx Ht') as Hpair. apply nth_error_In in Hpair.
      exists t'. split; [exact Hpair|].
      rewrite Forall_forall in HLc. apply (IH s k t' Hrep (HLc _ Hpair)). exact Hacc.
    + intros (t' & Hin & Hw). destruct (In_nth_error _ _ Hin) as (j & Hj).
      assert (Hc : nth_error (map fst ch) j = Some c) by (rewrite nth_error_map, Hj; reflexivity).
      assert (Ht : nth_error (map snd ch) j = Some t') by (rewrite nth_error_map, Hj; reflexivity).
      destruct (Forall2_nth_r _ _ _ _ _ Hk Ht) as (k & Hkth & Hrep).
      rewrite Forall_forall in HLc.
      eapply accepts_cons; eauto.
      * rewrite Hl. apply index_of_nodup; auto.
      * apply (IH s k t' Hrep (HLc _ Hin)). exact Hw.
Qed.

(* every node reachable from a node with a good unfolding has a good unfolding *)
Lemma reach_rep : forall s i j, reach s i j -> forall t, rep s i t -> good t ->
  exists tj, rep s j tj /\ good tj.
Proof.
  induction 1 as [i|i n k j Hn Hk _ IH]; intros t HR HG; [eauto|].
  destruct t as [f nw ch]. pose proof (rep_inv _ _ _ _ _ HR) as (n' & Hn' & _ & _ & _ & Hkids).
  rewrite Hn in Hn'. inversion Hn'; subst n'. clear Hn'.
  destruct (In_nth_error _ _ Hk) as (p & Hp).
  destruct (Forall2_nth_l _ _ _ _ _ Hkids Hp) as (t' & Ht' & Hrep).
  rewrite nth_error_map in Ht'. destruct (nth_error ch p) as [[c t'']|] eqn:E; [|discriminate].
  simpl in Ht'. inversion Ht'; subst t''. apply nth_error_In in E.
  pose proof (good_children _ _ _ HG) as Hgc. rewrite Forall_forall in Hgc. destruct (Hgc _ E) as [Hg _].
  eapply IH; eauto.
Qed.

(* ---------------------------------------------------------------- Lookup *)

Lemma scan_links_rep : forall s c ch kids idx, Forall2 (rep s) kids (map snd ch) ->
  match tscan c ch idx with
  | None => scan_links s c (map fst ch) kids idx = Ok None
  | Some (t', idx') => exists k, scan_links s c (map fst ch) kids idx = Ok (Some (k, idx')) /\ rep s k t'
  end.
Proof.
  intros s c ch. induction ch as [|[l t] ch IH]; intros kids idx HF; cbn [tscan map fst snd scan_links].
  - reflexivity.
  - inversion HF as [|k ? kids' ? Hk Hrest]; subst. cbn [scan_links].
    destruct (N.eqb l c).
    + exists k. split; [reflexivity|exact Hk].
    + destruct (rep_fields _ _ _ Hk) as (nk & Hnk & _ & Hw & _).
      rewrite (deref_ok _ _ _ Hnk). cbn [bind]. rewrite Hw. apply IH. exact Hrest.
Qed.

Lemma lookup_from_rep : forall w s i t idx, rep s i t -> lookup_from s i w idx = Ok (tlookup w t idx).
Proof.
  induction w as [|c w IH]; intros s i t idx HR.
  - destruct (rep_fields _ _ _ HR) as (n & Hn & Hf & _).
    cbn [lookup_from tlookup]. rewrite (deref_ok _ _ _ Hn). cbn [bind]. rewrite Hf.
    destruct (tfin t); reflexivity.
  - destruct (rep_fields _ _ _ HR) as (n & Hn & _ & _ & Hl & Hk).
    cbn [lookup_from tlookup]. rewrite (deref_ok _ _ _ Hn). cbn [bind]. rewrite Hl.
    pose proof (scan_links_rep s c (tch t) (nkids n) idx Hk) as Hscan.
    destruct (tscan c (tch t) idx) as [[t' idx']|].
    + destruct Hscan as (k & Hs & Hrep). rewrite Hs. cbn [bind].
      destruct (rep_fields _ _ _ Hrep) as (nk & Hnk & Hfk & _).
      rewrite (deref_ok _ _ _ Hnk). cbn [bind]. rewrite Hfk. apply IH. exact Hrep.
    + rewrite Hscan. reflexivity.
Qed.

Lemma lookup_rep : forall s i t w, rep s i t -> counts_ok t -> labels_sorted t ->
  lookup s i w = Ok (zrank w (tlang t)).
Proof.
  intros s i t w HR HC HL. unfold lookup.
  destruct (rep_fields _ _ _ HR) as (n & Hn & Hf & _).
  rewrite (deref_ok _ _ _ Hn). cbn [bind]. rewrite (lookup_from_rep w s i t _ HR).
  rewrite (tlookup_rank w t _ HC HL). rewrite Hf. f_equal.
  destruct (zrank w (tlang t)); cbn [option_map]; [|reflexivity]. f_equal. destruct (tfin t); lia.
Qed.

(* ---------------------------------------------------------------- the automaton New returns *)

Lemma new_dawg_final : forall ws s, increasing ws -> new_dawg ws = Ok (Some s) -> final_ok s ws.
Proof.
  intros ws s Hinc H. destruct (new_dawg_spec ws Hinc) as (s' & H' & HF).
  rewrite H in H'. inversion H'; subst. exact HF.
Qed.

Lemma final_root : forall s ws, final_ok s ws -> exists t, rep s root t /\ good t /\ tlang t = ws.
Proof. intros s ws (reg & t & _ & HS & HG & HL). exists t. split; [eapply srep_rep; eauto|auto]. Qed.

(* New succeeds on every strictly increasing list (the empty list and [""] included) *)
Theorem new_dawg_total : forall ws, increasing ws -> exists s, new_dawg ws = Ok (Some s).
Proof. intros ws H. destruct (new_dawg_spec ws H) as (s & Hs & _). eauto. Qed.

(* the language of the root is exactly the word list *)
Theorem dawg_language : forall ws s, increasing ws -> new_dawg ws = Ok (Some s) ->
  forall w, accepts s root w <-> In w ws.
Proof.
  intros ws s Hinc H w. destruct (final_root _ _ (new_dawg_final _ _ Hinc H)) as (t & HR & (_ & HL & _) & <-).
  apply accepts_rep; auto.
Qed.

(* numWords of every reachable node is the size of its right language *)
Theorem dawg_num_words : forall ws s, increasing ws -> new_dawg ws = Ok (Some s) ->
  forall j n, reach s root j -> sget s j = Some n ->
  exists l, NoDup l /\ (forall w, In w l <-> accepts s j w) /\ nwords n = Z.of_nat (length l).
Proof.
  intros ws s Hinc H j n Hreach Hn.
  destruct (final_root _ _ (new_dawg_final _ _ Hinc H)) as (t & HR & HG & _).
  destruct (reach_rep _ _ _ Hreach t HR HG) as (tj & HRj & (HCj & HLj & _)).
  exists (tlang tj). split; [apply NoDup_tlang; auto|]. split.
  - intros w. symmetry. apply accepts_rep; auto.
  - destruct (rep_fields _ _ _ HRj) as (n' & Hn' & _ & Hw & _). rewrite Hn in Hn'. inversion Hn'; subst n'.
    rewrite Hw. destruct tj as [f nw ch]. apply counts_ok_inv in HCj. destruct HCj as [E _]. exact E.
Qed.

Theorem dawg_number_of_words : forall ws s, increasing ws -> new_dawg ws = Ok (Some s) ->
  number_of_words s root = Ok (Z.of_nat (length ws)).
Proof.
  intros ws s Hinc H. destruct (final_root _ _ (new_dawg_final _ _ Hinc H)) as (t & HR & (HC & _) & <-).
  unfold number_of_words. destruct (rep_fields _ _ _ HR) as (n & Hn & _ & Hw & _).
  rewrite (deref_ok _ _ _ Hn). cbn [bind]. rewrite Hw. f_equal.
  destruct t as [f nw ch]. apply counts_ok_inv in HC. destruct HC as [E _]. exact E.
Qed.

(* Lookup returns the position of the word in the list, which is its rank in lexicographic
   order (rank_of_lex_rank), and (0, false) -- None here -- for every other byte string *)
Theorem dawg_lookup : forall ws s, increasing ws -> new_dawg ws = Ok (Some s) ->
  forall w, lookup s root w = Ok (option_map Z.of_nat (rank_of w ws)).
Proof.
  intros ws s Hinc H w. destruct (final_root _ _ (new_dawg_final _ _ Hinc H)) as (t & HR & (HC & HL & _) & <-).
  apply lookup_rep; auto.
Qed.
