(* One accepted Add on the store: the spine node i unfolds to [tadd w t] afterwards. *)
From Coq Require Import List NArith ZArith Bool Lia Sorted FMapPositive.
From Mamba Require Import Dawg.Model Dawg.Tree Dawg.Spec Dawg.TreeFacts Dawg.BuildStore Dawg.BuildSuffix Dawg.BuildRor.
Import ListNotations.

Definition add_rest (fuel : nat) (reg : list N) (lastid : N) (pr : store * word * N) : res (store * list N * N) :=
  let '(s1, suffix, lastnode) := pr in
  do nl <- deref s1 lastnode;
  do sr <- (match nkids nl with
            | [] => Ok (s1, reg)
            | _ :: _ => replace_or_register fuel s1 lastnode reg
            end);
  let '(s2, reg2) := sr in
  do sl <- add_suffix s2 lastnode suffix lastid;
  let '(s3, lastid3) := sl in
  Ok (s3, reg2, lastid3).

Definition add_from (fuel : nat) (s : store) (i : N) (w : word) (reg : list N) (lastid : N) : res (store * list N * N) :=
  do s0 <- bump s i; do pr <- common_prefix_from s0 i w; add_rest fuel reg lastid pr.

Lemma add_unfold : forall b w,
  add b w =
  if bdone b then Ok (b, false)
  else if rejects b w then Ok (b, false)
  else do r <- add_from (S (last_len b)) (bstore b) root w (breg b) (blastid b);
       let '(s3, reg2, l3) := r in Ok (mkBuilder s3 (Some w) reg2 l3 (bdone b), true).
Proof.
  intros b w. unfold add, add_from, common_prefix, add_rest.
  destruct (bdone b); [reflexivity|]. destruct (rejects b w); [reflexivity|].
  destruct (bump (bstore b) root); cbn [bind]; try reflexivity.
  destruct (common_prefix_from a root w) as [[[s1 sf] ln]| |]; cbn [bind]; try reflexivity.
  destruct (deref s1 ln); cbn [bind]; try reflexivity.
  destruct (match nkids a0 with [] => Ok (s1, breg b) | _ :: _ => replace_or_register (S (last_len b)) s1 ln (breg b) end)
    as [[s2 reg2]| |]; cbn [bind]; try reflexivity.
  destruct (add_suffix s2 ln sf (blastid b)) as [[s3 l3]| |]; reflexivity.
Qed.

Definition bump1 (t : tree) : tree := match t with Node f nw ch => Node f (nw + 1) ch end.

Definition bumped (n : node) : node := mkNode (nid n) (nwords n + 1) (nfinal n) (nlabels n) (nkids n).

Lemma srep_bump : forall s reg i v t n, srep s reg i v t -> closed s reg -> sget s i = Some n ->
  srep (sset s i (bumped n)) reg i v (bump1 t).
Proof.
  intros s reg i v t n H HC Hn.
  assert (HF : forall r, In r reg -> sget (sset s i (bumped n)) r = sget s r).
  { intros r Hr. apply sget_sset_other. intro E; subst. apply (srep_not_reg _ _ _ _ _ H). exact Hr. }
  destruct H as [i m ch Hm Hr Hl Hk Hkr | i m ch0 c ks k tk v Hm Hr Hik Hl Hks Hk Hkr Hs];
    rewrite Hn in Hm; inversion Hm; subst m; clear Hm.
  - eapply srep_end' with (n := bumped n) (ch := ch).
    + apply sget_sset_same.
    + exact Hr.
    + exact Hl.
    + eapply Forall2_rep_frame; eauto.
    + exact Hkr.
    + reflexivity.
  - eapply srep_step' with (n := bumped n) (ch0 := ch0) (ks := ks) (k := k) (tk := tk).
    + apply sget_sset_same.
    + exact Hr.
    + exact Hik.
    + exact Hl.
    + exact Hks.
    + eapply Forall2_rep_frame; eauto.
    + exact Hkr.
    + eapply srep_frame; eauto. intros j [Hj|Hj]; [auto|]. apply sget_sset_other. lia.
    + reflexivity.
Qed.

Lemma index_of_none : forall c l, Forall (fun y => (y < c)%N) l -> index_of c l = None.
Proof.
  intros c l H. induction H as [|x l Hx _ IH]; simpl; auto.
  destruct (N.eqb_spec x c); [lia|]. rewrite IH. reflexivity.
Qed.

Lemma index_of_last : forall c l, Forall (fun y => (y < c)%N) l -> index_of c (l ++ [c]) = Some (length l).
Proof.
  intros c l H. induction H as [|x l Hx _ IH]; simpl.
  - rewrite N.eqb_refl. reflexivity.
  - destruct (N.eqb_spec x c); [lia|]. rewrite IH. reflexivity.
Qed.

Lemma nth_error_last : forall {A} (l : list A) x, nth_error (l ++ [x]) (length l) = Some x.
Proof. intros. rewrite nth_error_app2, Nat.sub_diag; auto. Qed.

Lemma kids_good_bump1 : forall t, good t -> kids_good (bump1 t).
Proof. intros [f nw ch] H. unfold kids_good. cbn [bump1 tch]. eapply good_children; eauto. Qed.

Lemma tspine_bump1 : forall t v, tspine t v -> tspine (bump1 t) v.
Proof. intros t v H. destruct H; simpl; constructor; auto. Qed.

(* what happens once commonPrefix has stopped at spine node i with the suffix sf left *)
Lemma add_rest_spec : forall v fuel s0 reg L i t0 sf,
  reg_ok s0 reg -> bound s0 L -> srep s0 reg i v t0 -> tspine t0 v -> kids_good t0 ->
  (length v <= fuel)%nat ->
  exists s3 reg3 L3, add_rest fuel reg L (s0, sf, i) = Ok (s3, reg3, L3) /\
    srep s3 reg3 i sf (tsuffix sf t0) /\ reg_ok s3 reg3 /\ bound s3 L3 /\ (L <= L3)%N /\
    incl reg reg3 /\ (forall j, In j reg3 -> In j reg \/ (i < j)%N) /\
    (forall j, In j reg \/ (j < i)%N -> sget s3 j = sget s0 j).
Proof.
  intros v fuel s0 reg L i t0 sf HR HB HS HT HG HF.
  pose proof (srep_node _ _ _ _ _ HS) as (n & Hn & _ & _ & _ & Hlen).
  assert (HiL : (i <= L)%N) by (eapply HB; eauto).
  unfold add_rest. rewrite (deref_ok _ _ _ Hn). cbn [bind].
  destruct v as [|d v'].
  - (* the spine ends here: nothing to minimise *)
    destruct t0 as [f0 w0 ch]. pose proof (tspine_nil_inv _ _ _ HT) as ->. cbn [tch length] in Hlen.
    destruct (nkids n); [|discriminate]. cbn [bind].
    destruct (add_suffix_spec sf s0 reg i _ L HR HB HS) as (s3 & L3 & Hadd & HS3 & HB3 & HL3 & HF3).
    rewrite Hadd. cbn [bind]. exists s3, reg, L3. split; [reflexivity|].
    assert (HregL : forall r, In r reg -> (r <= L)%N) by (intros r Hr; destruct HR as (HC & _); eapply closed_bound; eauto).
    assert (Hnr : ~ In i reg) by (eapply srep_not_reg; eauto).
    split; [exact HS3|]. split; [|split; [exact HB3|split; [exact HL3|split; [apply incl_refl|split; [intros j Hj; left; exact Hj|]]]]].
    + apply (reg_frame s0); [exact HR|].
      intros r Hr. apply HF3; [intro; subst; contradiction|auto].
    + intros j [Hj|Hj]; apply HF3; auto; try lia. intro; subst; contradiction.
  - destruct t0 as [f0 w0 ch]. pose proof (tspine_cons_inv _ _ _ _ _ HT) as (a & b & -> & _).
    cbn [tch] in Hlen. rewrite app_length in Hlen. cbn [length] in Hlen.
    destruct (nkids n) as [|kk kks] eqn:Ek; [simpl in Hlen; lia|].
    destruct (ror_spec v' fuel s0 reg i _ d HR HS HT HG) as (s2 & reg2 & Hror & HS2 & HR2 & Hincl & Hnew & Hfr & Hnone);
      [simpl in HF; lia|].
    rewrite Hror. cbn [bind].
    assert (HB2 : bound s2 L).
    { intros j m Hj. destruct (sget s0 j) eqn:E; [eapply HB; eauto|]. rewrite (Hnone j E) in Hj. discriminate. }
    destruct (add_suffix_spec sf s2 reg2 i _ L HR2 HB2 HS2) as (s3 & L3 & Hadd & HS3 & HB3 & HL3 & HF3).
    rewrite Hadd. cbn [bind]. exists s3, reg2, L3. split; [reflexivity|].
    assert (HregL : forall r, In r reg2 -> (r <= L)%N) by (intros r Hr; destruct HR2 as (HC & _); eapply closed_bound; eauto).
    assert (Hnr : ~ In i reg2) by (eapply srep_not_reg; eauto).
    split; [exact HS3|]. split; [|split; [exact HB3|split; [exact HL3|split; [exact Hincl|split; [exact Hnew|]]]]].
    + apply (reg_frame s2); [exact HR2|].
      intros r Hr. apply HF3; [intro; subst; contradiction|auto].
    + intros j Hj. rewrite HF3.
      * apply Hfr. exact Hj.
      * destruct Hj as [Hj|Hj]; [|lia]. intro; subst. apply Hnr. apply Hincl. exact Hj.
      * destruct Hj as [Hj|Hj]; [|lia]. apply HregL. apply Hincl. exact Hj.
Qed.

Lemma add_from_stop : forall fuel s s0 i w reg L,
  bump s i = Ok s0 -> common_prefix_from s0 i w = Ok (s0, w, i) ->
  add_from fuel s i w reg L = add_rest fuel reg L (s0, w, i).
Proof. intros. unfold add_from. rewrite H. cbn [bind]. rewrite H0. reflexivity. Qed.

Lemma add_from_step : forall fuel s s0 i n0 c w' reg L j k,
  bump s i = Ok s0 -> sget s0 i = Some n0 -> index_of c (nlabels n0) = Some j ->
  nth_error (nkids n0) j = Some k ->
  add_from fuel s i (c :: w') reg L = add_from fuel s0 k w' reg L.
Proof.
  intros. unfold add_from. rewrite H. cbn [bind common_prefix_from].
  rewrite (deref_ok _ _ _ H0). cbn [bind]. rewrite H1, H2.
  destruct (bump s0 k); reflexivity.
Qed.

Lemma add_from_spec : forall w fuel s reg L i v t,
  reg_ok s reg -> bound s L -> srep s reg i v t -> tspine t v -> good t -> rel v w t ->
  (length v <= fuel)%nat ->
  exists s3 reg3 L3, add_from fuel s i w reg L = Ok (s3, reg3, L3) /\
    srep s3 reg3 i w (tadd w t) /\ reg_ok s3 reg3 /\ bound s3 L3 /\ (L <= L3)%N /\
    incl reg reg3 /\ (forall j, In j reg3 -> In j reg \/ (i < j)%N) /\
    (forall j, In j reg \/ (j < i)%N -> sget s3 j = sget s j).
Proof.
  induction w as [|c w' IH]; intros fuel s reg L i v t HR HB HS HT HG HRel HF.
  - (* the empty word: only as the very first word *)
    pose proof (srep_node _ _ _ _ _ HS) as (n & Hn & _).
    pose proof (srep_not_reg _ _ _ _ _ HS) as Hnr.
    assert (HC : closed s reg) by (destruct HR; auto).
    pose proof (srep_bump _ _ _ _ _ n HS HC Hn) as HS0.
    set (s0 := sset s i (bumped n)) in *.
    assert (HF0 : forall j, j <> i -> sget s0 j = sget s j) by (intros; unfold s0; apply sget_sset_other; auto).
    assert (HR0 : reg_ok s0 reg) by (apply (reg_frame s); auto; intros r Hr; apply HF0; intro; subst; contradiction).
    assert (HB0 : bound s0 L) by (unfold s0; apply bound_sset; auto; eapply HB; eauto).
    rewrite (add_from_stop fuel s s0 i [] reg L (bump_ok _ _ _ Hn) eq_refl).
    destruct (add_rest_spec v fuel s0 reg L i (bump1 t) [] HR0 HB0 HS0 (tspine_bump1 _ _ HT) (kids_good_bump1 _ HG) HF)
      as (s3 & reg3 & L3 & Hadd & HS3 & HR3 & HB3 & HL3 & Hincl & Hnew & Hfr).
    exists s3, reg3, L3. split; [exact Hadd|].
    split; [|split; [exact HR3|split; [exact HB3|split; [exact HL3|split; [exact Hincl|split; [exact Hnew|]]]]]].
    + destruct t as [f nw ch]. exact HS3.
    + intros j Hj. rewrite Hfr; auto. apply HF0. destruct Hj; [intro; subst; contradiction|lia].
  - pose proof (srep_node _ _ _ _ _ HS) as (n & Hn & _).
    pose proof (srep_not_reg _ _ _ _ _ HS) as Hnr.
    assert (HC : closed s reg) by (destruct HR; auto).
    pose proof (srep_bump _ _ _ _ _ n HS HC Hn) as HS0.
    set (s0 := sset s i (bumped n)) in *.
    assert (Hn0 : sget s0 i = Some (bumped n)) by (unfold s0; apply sget_sset_same).
    assert (HF0 : forall j, j <> i -> sget s0 j = sget s j) by (intros; unfold s0; apply sget_sset_other; auto).
    assert (HR0 : reg_ok s0 reg) by (apply (reg_frame s); auto; intros r Hr; apply HF0; intro; subst; contradiction).
    assert (HB0 : bound s0 L) by (unfold s0; apply bound_sset; auto; eapply HB; eauto).
    assert (Hstop : common_prefix_from s0 i (c :: w') = Ok (s0, c :: w', i) ->
      tadd (c :: w') t = tsuffix (c :: w') (bump1 t) ->
      exists s3 reg3 L3, add_from fuel s i (c :: w') reg L = Ok (s3, reg3, L3) /\
        srep s3 reg3 i (c :: w') (tadd (c :: w') t) /\ reg_ok s3 reg3 /\ bound s3 L3 /\ (L <= L3)%N /\
        incl reg reg3 /\ (forall j, In j reg3 -> In j reg \/ (i < j)%N) /\
        (forall j, In j reg \/ (j < i)%N -> sget s3 j = sget s j)).
    { intros Hcp Htree.
      rewrite (add_from_stop fuel s s0 i (c :: w') reg L (bump_ok _ _ _ Hn) Hcp).
      destruct (add_rest_spec v fuel s0 reg L i (bump1 t) (c :: w') HR0 HB0 HS0 (tspine_bump1 _ _ HT) (kids_good_bump1 _ HG) HF)
        as (s3 & reg3 & L3 & Hadd & HS3 & HR3 & HB3 & HL3 & Hincl & Hnew & Hfr).
      exists s3, reg3, L3. split; [exact Hadd|].
      split; [|split; [exact HR3|split; [exact HB3|split; [exact HL3|split; [exact Hincl|split; [exact Hnew|]]]]]].
      + rewrite Htree. exact HS3.
      + intros j Hj. rewrite Hfr; auto. apply HF0. destruct Hj; [intro; subst; contradiction|lia]. }
    destruct v as [|d v'].
    + (* the previous word is a prefix of the new one (or there is none) *)
      destruct t as [f nw ch]. pose proof (tspine_nil_inv _ _ _ HT) as ->.
      apply Hstop; [|reflexivity].
      cbn [common_prefix_from]. rewrite (deref_ok _ _ _ Hn0). cbn [bind].
      inversion HS as [i' m ch' Hm _ Hl _ _|]; subst. rewrite Hn in Hm. inversion Hm; subst m.
      cbn [bumped nlabels]. rewrite Hl. reflexivity.
    + destruct t as [f nw ch]. pose proof (tspine_cons_inv _ _ _ _ _ HT) as (ch0 & tk & -> & HTk).
      pose proof (rel_cons_cons _ _ _ _ _ HRel) as Hdc.
      destruct HG as (Hcnt & Hsort & Htrim).
      pose proof (labels_sorted_inv _ _ _ Hsort) as [Hsorted _].
      rewrite map_app in Hsorted. cbn [map fst] in Hsorted.
      pose proof (proj1 (sorted_snoc _ _) Hsorted) as [_ Hlt].
      cbn [bump1] in HS0.
      destruct (srep_cons_inv _ _ _ _ _ _ _ _ HS0) as (m & ch0' & ks & k & tk' & Hm & _ & Hik & Hl & Hks & Hreps & Hkreg & HSk & Ef & Enw & E3).
      rewrite Hn0 in Hm. inversion Hm; subst m. clear Hm.
      apply app_inj_tail in E3. destruct E3 as [<- E3]. inversion E3; subst tk'. clear E3.
      destruct (N.eq_dec d c) as [->|NE].
      * (* the walk goes on along the spine *)
        destruct Hdc as [Hdc|[_ Hdc]]; [lia|].
        assert (Hidx : index_of c (nlabels (bumped n)) = Some (length (map fst ch0))).
        { rewrite Hl. apply index_of_last. exact Hlt. }
        assert (Hnth : nth_error (nkids (bumped n)) (length (map fst ch0)) = Some k).
        { rewrite Hks. apply Forall2_length' in Hreps. rewrite !map_length in *. rewrite <- Hreps. apply nth_error_last. }
        rewrite (add_from_step fuel s s0 i (bumped n) c w' reg L _ k (bump_ok _ _ _ Hn) Hn0 Hidx Hnth).
        assert (Hgk : good tk).
        { pose proof (good_children f nw _ (conj Hcnt (conj Hsort Htrim))) as Hgc.
          apply Forall_app in Hgc. destruct Hgc as [_ Hgc]. inversion Hgc as [|? ? [Hg _] _]; subst. exact Hg. }
        destruct (IH fuel s0 reg L k v' tk HR0 HB0 HSk HTk Hgk (or_introl Hdc)) as
          (s3 & reg3 & L3 & Hadd & HS3 & HR3 & HB3 & HL3 & Hincl & Hnew & Hfr); [simpl in HF; lia|].
        exists s3, reg3, L3. split; [exact Hadd|].
        split; [|split; [exact HR3|split; [exact HB3|split; [exact HL3|split; [exact Hincl|split]]]]].
        -- rewrite tadd_snoc, N.eqb_refl.
           eapply srep_step' with (n := bumped n) (ch0 := ch0) (ks := ks) (k := k).
           ++ rewrite Hfr; [exact Hn0|right; exact Hik].
           ++ intro Hin. destruct (Hnew i Hin); [contradiction|lia].
           ++ exact Hik.
           ++ exact Hl.
           ++ exact Hks.
           ++ destruct HR0 as (HC0 & _). eapply Forall2_rep_frame; eauto.
           ++ eapply Forall_impl; [|exact Hkreg]. intros a Ha. apply Hincl. exact Ha.
           ++ exact HS3.
           ++ rewrite <- Ef, <- Enw. reflexivity.
        -- intros j Hj. destruct (Hnew j Hj); [auto|right; lia].
        -- intros j Hj. rewrite Hfr.
           ++ apply HF0. destruct Hj; [intro; subst; contradiction|lia].
           ++ destruct Hj; [auto|right; lia].
      * (* the new word leaves the spine here *)
        destruct Hdc as [Hdc|[E _]]; [|contradiction].
        apply Hstop.
        -- cbn [common_prefix_from]. rewrite (deref_ok _ _ _ Hn0). cbn [bind].
           rewrite Hl. rewrite index_of_none; [reflexivity|].
           apply Forall_app. split.
           ++ eapply Forall_impl; [|exact Hlt]. simpl. intros. lia.
           ++ constructor; [exact Hdc|constructor].
        -- rewrite tadd_snoc. destruct (N.eqb_spec d c); [contradiction|reflexivity].
Qed.
