(* The variable-length unsigned integers of dawg.go: decodeUint64 inverts encodeUint64 on the
   whole uint64 range, whatever follows in the stream; length and byte range of an encoding. *)
From Coq Require Import List NArith ZArith Bool Lia Arith.
From Coq Require Import ZifyN ZifyNat ZifyBool.
From Mamba Require Import Dawg.Model Dawg.CodecModel.
Import ListNotations.
Local Open Scope N_scope.

Lemma land_shiftl8_small a c : c < 256 -> N.land (a * 2 ^ 8) c = 0.
Proof.
  intros Hc. apply N.bits_inj_0. intros n. rewrite N.land_spec.
  destruct (N.lt_ge_cases n 8) as [Hn | Hn].
  - rewrite N.mul_pow2_bits_low by exact Hn. reflexivity.
  - rewrite (N.testbit_eqb c n).
    assert (H256 : 2 ^ 8 <= 2 ^ n) by (apply N.pow_le_mono_r; lia).
    change (2 ^ 8) with 256 in H256.
    rewrite N.div_small by lia. rewrite andb_false_r. reflexivity.
Qed.

Lemma lor_shiftl8 a c : c < 256 -> N.lor (N.shiftl a 8) c = a * 256 + c.
Proof.
  intros Hc. rewrite N.shiftl_mul_pow2.
  pose proof (land_shiftl8_small a c Hc) as H0.
  rewrite <- N.lxor_lor by exact H0.
  rewrite <- N.add_nocarry_lxor by exact H0. reflexivity.
Qed.

(* the big-endian bytes of x on m positions *)
Definition be (m : nat) (x : N) : list N :=
  map (fun i => N.shiftr x (8 * N.of_nat (m - 1 - i)) mod 256) (seq 0 m).

Lemma be_S m x : be (S m) x = be m (N.shiftr x 8) ++ [x mod 256].
Proof.
  unfold be. rewrite seq_S, map_app. cbn [map]. f_equal.
  - apply map_ext_in. intros i Hi. apply in_seq in Hi.
    rewrite N.shiftr_shiftr. f_equal. f_equal. lia.
  - replace (S m - 1 - (0 + m))%nat with 0%nat by lia. cbn [N.of_nat]. rewrite N.mul_0_r, N.shiftr_0_r. reflexivity.
Qed.

Definition acc (x c : N) : N := N.lor (N.shiftl x 8) c.

Lemma fold_be m : forall x, x < 256 ^ N.of_nat m -> fold_left acc (be m x) 0 = x.
Proof.
  induction m as [|m IH]; intros x Hx.
  - cbn in Hx. cbn. lia.
  - rewrite be_S, fold_left_app. cbn [fold_left].
    assert (Hdiv : N.shiftr x 8 = x / 256) by (rewrite N.shiftr_div_pow2; reflexivity).
    rewrite IH.
    + unfold acc. rewrite lor_shiftl8 by (apply N.mod_lt; lia).
      rewrite Hdiv. pose proof (N.div_mod x 256). lia.
    + rewrite Hdiv. rewrite Nat2N.inj_succ, N.pow_succ_r' in Hx.
      apply N.div_lt_upper_bound; lia.
Qed.

Lemma be_length m x : length (be m x) = m.
Proof. unfold be. rewrite map_length, seq_length. reflexivity. Qed.

Lemma be_bytes m x : Forall (fun b => b < 256) (be m x).
Proof.
  unfold be. apply Forall_forall. intros b Hb. apply in_map_iff in Hb.
  destruct Hb as [i [<- _]]. apply N.mod_lt. lia.
Qed.

(* number of bytes after the prefix byte, for x > 127 *)
Definition nbytes (x : N) : nat := N.to_nat (8 - N.shiftr (leading_zeros64 x) 3).

Lemma encode_u64_big x : 127 < x ->
  encode_u64 x = (128 + N.of_nat (nbytes x)) :: be (nbytes x) x.
Proof.
  intros Hx. unfold encode_u64. destruct (N.leb_spec x 127) as [H|_]; [lia|].
  cbv zeta. unfold nbytes. set (zb := N.shiftr (leading_zeros64 x) 3).
  assert (Hzb : zb <= 8).
  { unfold zb, leading_zeros64. rewrite N.shiftr_div_pow2. change (2 ^ 3) with 8.
    apply N.div_le_upper_bound; lia. }
  f_equal; [lia|].
  unfold be. apply map_ext_in. intros i Hi. apply in_seq in Hi.
  f_equal. f_equal. lia.
Qed.

Lemma size_le_64 x : x < 2 ^ 64 -> N.size x <= 64.
Proof.
  intros Hx. destruct (N.eq_dec x 0) as [->|Hn]; [cbn; lia|].
  rewrite N.size_log2 by exact Hn.
  assert (N.log2 x < 64) by (apply N.log2_lt_pow2; lia). lia.
Qed.

Lemma nbytes_spec x : 127 < x -> x < 2 ^ 64 ->
  (1 <= nbytes x <= 8)%nat /\ x < 256 ^ N.of_nat (nbytes x) /\
  N.of_nat (nbytes x) = (N.size x + 7) / 8.
Proof.
  intros Hlo Hhi. pose proof (size_le_64 x Hhi) as Hs.
  assert (Hs1 : 8 <= N.size x).
  { rewrite N.size_log2 by lia.
    assert (7 <= N.log2 x) by (apply N.log2_le_pow2; [lia | change (2 ^ 7) with 128; lia]). lia. }
  unfold nbytes, leading_zeros64. rewrite N.shiftr_div_pow2. change (2 ^ 3) with 8.
  set (q := (64 - N.size x) / 8).
  assert (Hq : 8 * q <= 64 - N.size x /\ 64 - N.size x < 8 * q + 8).
  { unfold q. pose proof (N.div_mod (64 - N.size x) 8). pose proof (N.mod_lt (64 - N.size x) 8). lia. }
  assert (Hq7 : q <= 7) by lia.
  split; [lia|]. split.
  - rewrite N2Nat.id.
    assert (Hlt : x < 2 ^ N.size x) by apply N.size_gt.
    eapply N.lt_le_trans; [exact Hlt|].
    replace 256 with (2 ^ 8) by reflexivity. rewrite <- N.pow_mul_r.
    apply N.pow_le_mono_r; lia.
  - rewrite N2Nat.id. apply N.div_unique with (r := (N.size x + 7) - 8 * (8 - q)); lia.
Qed.

Theorem decode_encode_u64 : forall x rest, x < 2 ^ 64 ->
  decode_u64 (encode_u64 x ++ rest) = DOk (x, rest).
Proof.
  intros x rest Hx. destruct (N.le_gt_cases x 127) as [Hs | Hb].
  - unfold encode_u64. destruct (N.leb_spec x 127); [|lia]. cbn [app decode_u64].
    destruct (N.leb_spec x 127); [reflexivity|lia].
  - destruct (nbytes_spec x Hb Hx) as [Hm [Hpow _]].
    rewrite encode_u64_big by exact Hb. cbn [app decode_u64].
    set (m := nbytes x) in *.
    destruct (N.leb_spec (128 + N.of_nat m) 127); [lia|].
    replace (128 + N.of_nat m - 128) with (N.of_nat m) by lia.
    destruct (N.ltb_spec 8 (N.of_nat m)); [lia|].
    rewrite Nat2N.id.
    match goal with |- context [(?a <? ?b)%nat] => destruct (Nat.ltb_spec a b) as [Hl|_] end.
    { rewrite app_length, be_length in Hl. lia. }
    rewrite firstn_app, skipn_app, be_length, Nat.sub_diag. cbn [firstn skipn].
    rewrite app_nil_r. rewrite firstn_all2 by (rewrite be_length; lia).
    rewrite skipn_all2 by (rewrite be_length; lia). cbn [app].
    change (fun x0 c => N.lor (N.shiftl x0 8) c) with acc.
    rewrite fold_be by exact Hpow. reflexivity.
Qed.

(* one byte up to 127, otherwise the prefix byte and the significant bytes of x *)
Theorem encode_u64_length : forall x, x < 2 ^ 64 ->
  length (encode_u64 x) =
  if x <=? 127 then 1%nat else S (N.to_nat ((N.size x + 7) / 8)).
Proof.
  intros x Hx. destruct (N.leb_spec x 127) as [Hs | Hb].
  - unfold encode_u64. destruct (N.leb_spec x 127); [reflexivity|lia].
  - destruct (nbytes_spec x Hb Hx) as [_ [_ Hn]].
    rewrite encode_u64_big by exact Hb. cbn [length]. rewrite be_length, <- Hn, Nat2N.id. reflexivity.
Qed.

Theorem encode_u64_bytes : forall x, x < 2 ^ 64 -> Forall (fun b => b < 256) (encode_u64 x).
Proof.
  intros x Hx. destruct (N.le_gt_cases x 127) as [Hs | Hb].
  - unfold encode_u64. destruct (N.leb_spec x 127); [|lia]. constructor; [lia|constructor].
  - destruct (nbytes_spec x Hb Hx) as [Hm _].
    rewrite encode_u64_big by exact Hb. constructor; [lia|apply be_bytes].
Qed.

Lemma encode_u64_nonempty x : encode_u64 x <> [].
Proof. unfold encode_u64. destruct (x <=? 127); discriminate. Qed.
