(* Model of /repo/dawg/dawg_search.go: Search, PatternSearcher, AnagramSearcher,
   NewPatternSearcher, NewAnagramSearcher.  Definitions only; the specification is in
   SearchSpec.v and the proofs in SearchProofs.v / SearchConcrete.v.

   The Dawg is a key into the store of Model.v; Search does not write to the Dawg, so the
   model search does not return a store (property clause "leaves the Dawg unchanged").
   Go's Search mutates the searcher objects through the interface; the model returns their
   final states next to the solutions.

   Conventions.
   * currDecisions/currDawgs always have the same length (they are pushed and popped
     together): one list of pairs, top first.  An entry holds the node and the *next* link
     index to try (Go stores the last index tried, -1 initially, and starts at that + 1).
   * solns/ids are appended together: one list of pairs (word, index).
   * currWord and AnagramSearcher.currPath grow at the end, as in Go.
   * ints are Z (no overflow below 2^63), bytes are N, slice lengths are nat.
   * Panic = index out of range / nil dereference; NoFuel = the explicit fuel of the outer
     `for` ran out.  Both are excluded by theorem for every well-formed Dawg. *)
From Coq Require Import List NArith ZArith Bool.
From Mamba Require Import Dawg.Model.
Import ListNotations.

(* ------------------------------------------------------------------ Searcher interface *)

(* type Searcher interface { AllowStep(b) bool; Step(b); Backstep(); AllowWord() bool; Chosen() }
   A method that mutates its receiver returns the new state. *)
Record searcher_ops (X : Type) := mkOps {
  op_allow_step : X -> byte -> res bool;
  op_step : X -> byte -> res X;
  op_backstep : X -> res X;
  op_allow_word : X -> res bool;
  op_chosen : X -> res X
}.
Arguments mkOps {X}.
Arguments op_allow_step {X}.
Arguments op_step {X}.
Arguments op_backstep {X}.
Arguments op_allow_word {X}.
Arguments op_chosen {X}.

(* ------------------------------------------------------------------ Search *)
Section Search.
Context {X : Type} (ops : searcher_ops X).

(* allowStep := true; for i := range searchers { if !searchers[i].AllowStep(l) { allowStep = false; break } } *)
Fixpoint allow_step_all (xs : list X) (b : byte) : res bool :=
  match xs with
  | [] => Ok true
  | x :: xs' => do a <- op_allow_step ops x b; if a then allow_step_all xs' b else Ok false
  end.

(* allow := true; for _, srch := range searchers { if !srch.AllowWord() { allow = false; break } } *)
Fixpoint allow_word_all (xs : list X) : res bool :=
  match xs with
  | [] => Ok true
  | x :: xs' => do a <- op_allow_word ops x; if a then allow_word_all xs' else Ok false
  end.

(* for i := range searchers { searchers[i].Step(l) } *)
Fixpoint step_all (xs : list X) (b : byte) : res (list X) :=
  match xs with
  | [] => Ok []
  | x :: xs' => do x' <- op_step ops x b; do r <- step_all xs' b; Ok (x' :: r)
  end.

(* for i := range searchers { searchers[i].Backstep() } *)
Fixpoint backstep_all (xs : list X) : res (list X) :=
  match xs with
  | [] => Ok []
  | x :: xs' => do x' <- op_backstep ops x; do r <- backstep_all xs'; Ok (x' :: r)
  end.

(* for _, srch := range searchers { srch.Chosen() } *)
Fixpoint chosen_all (xs : list X) : res (list X) :=
  match xs with
  | [] => Ok []
  | x :: xs' => do x' <- op_chosen ops x; do r <- chosen_all xs'; Ok (x' :: r)
  end.

Record sstate := mkSt {
  st_stack : list (N * nat);      (* currDawgs / currDecisions, top first *)
  st_word : list byte;            (* currWord *)
  st_index : Z;                   (* index *)
  st_srch : list X;               (* the searcher objects *)
  st_solns : list (word * Z)      (* solns / ids *)
}.

(* if node.final { index++; if all AllowWord { append (copy of currWord, index); all Chosen } }
   — the text that appears twice in Search: for the root before the loop and for the node
   just entered. *)
Definition visit_final (nd : node) (st : sstate) : res sstate :=
  if nfinal nd then
    let idx := (st_index st + 1)%Z in
    do a <- allow_word_all (st_srch st);
    if a then
      do xs <- chosen_all (st_srch st);
      Ok (mkSt (st_stack st) (st_word st) idx xs (st_solns st ++ [(st_word st, idx)]))
    else Ok (mkSt (st_stack st) (st_word st) idx (st_srch st) (st_solns st))
  else Ok st.

Inductive inner_res :=
| Descended (st : sstate)   (* continue toCheckLoop *)
| Exhausted (st : sstate).  (* the for j loop ran to the end *)

Definition set_top (stack : list (N * nat)) (next : nat) : list (N * nat) :=
  match stack with
  | [] => []
  | (k, _) :: rest => (k, next) :: rest
  end.

(* for j := currDecisions[top] + 1; j < len(currDawg.linkLabels); j++ { ... }
   [labs]/[kids] are linkLabels[j:] / links[j:]. *)
Fixpoint search_inner (s : store) (j : nat) (labs : list byte) (kids : list N) (st : sstate)
  : res inner_res :=
  match labs with
  | [] => Ok (Exhausted st)
  | l :: labs' =>
    do a <- allow_step_all (st_srch st) l;
    if negb a then
      (* index += currDawg.links[j].numWords; continue *)
      match kids with
      | [] => Panic
      | kid :: kids' =>
        do nk <- deref s kid;
        search_inner s (S j) labs' kids'
          (mkSt (st_stack st) (st_word st) (st_index st + nwords nk)%Z (st_srch st) (st_solns st))
      end
    else
      do xs <- step_all (st_srch st) l;
      match kids with
      | [] => Panic
      | kid :: kids' =>
        do nk <- deref s kid;
        let st1 := mkSt ((kid, O) :: set_top (st_stack st) (S j)) (st_word st ++ [l])
                        (st_index st) xs (st_solns st) in
        do st2 <- visit_final nk st1;
        Ok (Descended st2)
      end
  end.

(* toCheckLoop: for { ... }.  Returns (solns/ids, final searcher states). *)
Fixpoint search_loop (fuel : nat) (s : store) (st : sstate) : res (list (word * Z) * list X) :=
  match fuel with
  | O => NoFuel
  | S f =>
    match st_stack st with
    | [] => Panic
    | (cur, next) :: _ =>
      do n <- deref s cur;
      do r <- search_inner s next (skipn next (nlabels n)) (skipn next (nkids n)) st;
      match r with
      | Descended st' => search_loop f s st'
      | Exhausted st' =>
        match st_word st' with
        | [] => Ok (st_solns st', st_srch st')
        | _ :: _ =>
          do xs <- backstep_all (st_srch st');
          search_loop f s (mkSt (tl (st_stack st')) (removelast (st_word st')) (st_index st') xs
                                (st_solns st'))
        end
      end
    end
  end.

(* func (t *Dawg) Search(searchers ...Searcher) (solns [][]byte, ids []int) *)
Definition search (fuel : nat) (s : store) (d : N) (xs : list X) : res (list (word * Z) * list X) :=
  do n <- deref s d;
  do st <- visit_final n (mkSt [(d, O)] [] (-1)%Z xs []);
  search_loop fuel s st.

End Search.

(* ------------------------------------------------------------------ PatternSearcher *)

Record pattern_searcher := mkPS {
  ps_pattern : list byte;
  ps_blank : byte;
  ps_index : Z
}.

Definition new_pattern_searcher (pattern : list byte) (blank : byte) : pattern_searcher :=
  mkPS pattern blank 0.

Definition ps_allow_step (p : pattern_searcher) (b : byte) : res bool :=
  if (Z.of_nat (length (ps_pattern p)) <=? ps_index p)%Z then Ok false
  else if (ps_index p <? 0)%Z then Panic
  else
    match nth_error (ps_pattern p) (Z.to_nat (ps_index p)) with
    | None => Panic
    | Some c => Ok (N.eqb c (ps_blank p) || N.eqb c b)
    end.

Definition ps_step (p : pattern_searcher) (b : byte) : pattern_searcher :=
  mkPS (ps_pattern p) (ps_blank p) (ps_index p + 1).

Definition ps_backstep (p : pattern_searcher) : pattern_searcher :=
  mkPS (ps_pattern p) (ps_blank p) (ps_index p - 1).

Definition ps_allow_word (p : pattern_searcher) : bool :=
  (ps_index p =? Z.of_nat (length (ps_pattern p)))%Z.

(* ------------------------------------------------------------------ AnagramSearcher *)

Record anagram_searcher := mkAS {
  as_counts : list (byte * Z);   (* []letterCount{letter, count} *)
  as_blanks : Z;
  as_blank : byte;
  as_target : Z;                 (* targetLength *)
  as_path : list byte            (* currPath *)
}.

(* for i := range p.counts { if p.counts[i].letter == b && p.counts[i].count > 0 { return true } } *)
Fixpoint has_letter (b : byte) (cs : list (byte * Z)) : bool :=
  match cs with
  | [] => false
  | (l, c) :: cs' => if N.eqb l b && (0 <? c)%Z then true else has_letter b cs'
  end.

Definition as_allow_step (a : anagram_searcher) (b : byte) : bool :=
  if (as_target a <=? Z.of_nat (length (as_path a)))%Z then false
  else if (0 <? as_blanks a)%Z then true
  else has_letter b (as_counts a).

(* the loop of Step: decrement the first entry with that letter and a positive count *)
Fixpoint take_letter (b : byte) (cs : list (byte * Z)) : option (list (byte * Z)) :=
  match cs with
  | [] => None
  | (l, c) :: cs' =>
    if N.eqb l b && (0 <? c)%Z then Some ((l, c - 1)%Z :: cs')
    else option_map (cons (l, c)) (take_letter b cs')
  end.

Definition as_step (a : anagram_searcher) (b : byte) : anagram_searcher :=
  match take_letter b (as_counts a) with
  | Some cs => mkAS cs (as_blanks a) (as_blank a) (as_target a) (as_path a ++ [b])
  | None => mkAS (as_counts a) (as_blanks a - 1) (as_blank a) (as_target a) (as_path a ++ [as_blank a])
  end.

(* the loop of Backstep: increment the first entry with that letter (whatever its count);
   nothing happens when there is none *)
Fixpoint credit_letter (b : byte) (cs : list (byte * Z)) : list (byte * Z) :=
  match cs with
  | [] => []
  | (l, c) :: cs' => if N.eqb l b then (l, c + 1)%Z :: cs' else (l, c) :: credit_letter b cs'
  end.

Definition as_backstep (a : anagram_searcher) : res anagram_searcher :=
  match last_opt (as_path a) with
  | None => Panic                                  (* p.currPath[len(p.currPath)-1] *)
  | Some e =>
    let path := removelast (as_path a) in
    if N.eqb e (as_blank a)
    then Ok (mkAS (as_counts a) (as_blanks a + 1) (as_blank a) (as_target a) path)
    else Ok (mkAS (credit_letter e (as_counts a)) (as_blanks a) (as_blank a) (as_target a) path)
  end.

Definition as_allow_word (a : anagram_searcher) : bool :=
  (as_target a =? Z.of_nat (length (as_path a)))%Z.

(* counts[len(counts)-1].count++ *)
Fixpoint bump_last (cs : list (byte * Z)) : option (list (byte * Z)) :=
  match cs with
  | [] => None
  | [(l, c)] => Some [(l, c + 1)%Z]
  | e :: cs' => option_map (cons e) (bump_last cs')
  end.

(* for i, l := range tmp {
     if l == blank { blanks++; continue }
     if i > 1 && tmp[i-1] == tmp[i] { counts[len(counts)-1].count++ }
     else { counts = append(counts, letterCount{l, 1}) } }
   [prev] is tmp[i-1] (absent for i = 0). *)
Fixpoint count_loop (blank : byte) (i : nat) (prev : option byte) (tmp : list byte)
  (counts : list (byte * Z)) (blanks : Z) : res (list (byte * Z) * Z) :=
  match tmp with
  | [] => Ok (counts, blanks)
  | l :: tmp' =>
    if N.eqb l blank then count_loop blank (S i) (Some l) tmp' counts (blanks + 1)
    else if Nat.ltb 1 i && (match prev with Some p => N.eqb p l | None => false end)
    then match bump_last counts with
         | None => Panic
         | Some cs => count_loop blank (S i) (Some l) tmp' cs blanks
         end
    else count_loop blank (S i) (Some l) tmp' (counts ++ [(l, 1%Z)]) blanks
  end.

(* NewAnagramSearcher after the sort.Slice call: [tmp] is the slice that call left behind,
   [n] is len(anagram). *)
Definition new_anagram_searcher_from (tmp : list byte) (blank : byte) (n : nat) : res anagram_searcher :=
  do r <- count_loop blank O None tmp [] 0;
  Ok (mkAS (fst r) (snd r) blank (Z.of_nat n) []).

(* sort.Slice(tmp, func(i, j int) bool { return anagram[i] < anagram[j] }) for
   len(tmp) <= 12, where Go (1.19 .. 1.23) runs insertionSort_func:
     for i := a + 1; i < b; i++ { for j := i; j > a && less(j, j-1); j-- { swap(j, j-1) } }
   [less] reads the ORIGINAL slice [anagram], which the swaps on [tmp] never change. *)
Definition less_orig (orig : list byte) (i j : nat) : res bool :=
  match nth_error orig i, nth_error orig j with
  | Some a, Some b => Ok (N.ltb a b)
  | _, _ => Panic
  end.

(* swap(k+1, k) *)
Fixpoint swap_at (k : nat) (l : list byte) : res (list byte) :=
  match k, l with
  | O, x :: y :: r => Ok (y :: x :: r)
  | S k', x :: r => do r' <- swap_at k' r; Ok (x :: r')
  | _, _ => Panic
  end.

Fixpoint ins_inner (orig : list byte) (j : nat) (tmp : list byte) : res (list byte) :=
  match j with
  | O => Ok tmp
  | S j' =>
    do lt <- less_orig orig j j';
    if lt then do t <- swap_at j' tmp; ins_inner orig j' t else Ok tmp
  end.

Fixpoint ins_outer (orig : list byte) (k : nat) (i : nat) (tmp : list byte) : res (list byte) :=
  match k with
  | O => Ok tmp
  | S k' => do t <- ins_inner orig i tmp; ins_outer orig k' (S i) t
  end.

(* the slice [tmp] after the sort call.  For len(anagram) > 12 Go runs the other branches of
   pdqsort_func and may leave a different permutation; the theorems are stated for every
   permutation, and the projected observations do not depend on it. *)
Definition sort_slice_orig_less (anagram : list byte) : res (list byte) :=
  ins_outer anagram (pred (length anagram)) 1 anagram.

Definition new_anagram_searcher (anagram : list byte) (blank : byte) : res anagram_searcher :=
  do tmp <- sort_slice_orig_less anagram;
  new_anagram_searcher_from tmp blank (length anagram).

(* ------------------------------------------------------------------ the two searchers as one type *)

Inductive searcher :=
| SPattern (p : pattern_searcher)
| SAnagram (a : anagram_searcher).

(* Chosen() has an empty body in both searchers (and a value receiver). *)
Definition concrete_ops : searcher_ops searcher :=
  mkOps
    (fun x b => match x with SPattern p => ps_allow_step p b | SAnagram a => Ok (as_allow_step a b) end)
    (fun x b => match x with SPattern p => Ok (SPattern (ps_step p b)) | SAnagram a => Ok (SAnagram (as_step a b)) end)
    (fun x => match x with
              | SPattern p => Ok (SPattern (ps_backstep p))
              | SAnagram a => do a' <- as_backstep a; Ok (SAnagram a')
              end)
    (fun x => match x with SPattern p => Ok (ps_allow_word p) | SAnagram a => Ok (as_allow_word a) end)
    (fun x => Ok x).

Definition search_c (fuel : nat) (s : store) (d : N) (xs : list searcher)
  : res (list (word * Z) * list searcher) :=
  search concrete_ops fuel s d xs.

(* a description of a searcher as the caller gives it to the constructor *)
Inductive sspec :=
| SpecP (pattern : list byte) (blank : byte)
| SpecA (anagram : list byte) (blank : byte).

(* the constructor calls, with the modelled sort *)
Definition new_searcher (sp : sspec) : res searcher :=
  match sp with
  | SpecP p b => Ok (SPattern (new_pattern_searcher p b))
  | SpecA a b => do x <- new_anagram_searcher a b; Ok (SAnagram x)
  end.

Fixpoint new_searchers (sps : list sspec) : res (list searcher) :=
  match sps with
  | [] => Ok []
  | sp :: sps' => do x <- new_searcher sp; do r <- new_searchers sps'; Ok (x :: r)
  end.
