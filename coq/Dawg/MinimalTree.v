(* Tree level facts for minimality: subtrees along a path and residual languages; a good
   tree is determined by its language. *)
From Coq Require Import List NArith ZArith Bool Lia Sorted.
From Mamba Require Import Dawg.Model Dawg.Tree Dawg.Spec Dawg.TreeFacts Dawg.LangOrder Dawg.LangTree.
Import ListNotations.

(* [tsub t u t']: following the labels of u from t leads to the subtree t' *)
Inductive tsub : tree -> word -> tree -> Prop :=
| tsub_nil t : tsub t [] t
| tsub_cons f nw ch c t1 u t' : In (c, t1) ch -> tsub t1 u t' -> tsub (Node f nw ch) (c :: u) t'.

(* ---------------------------------------------------------------- residuals *)

Lemma residual_app : forall u l1 l2, residual u (l1 ++ l2) = residual u l1 ++ residual u l2.
Proof.
  intros u l1 l2. induction l1 as [|w l1 IH]; simpl; auto.
  destruct (strip_prefix u w); simpl; rewrite IH; reflexivity.
Qed.

Lemma residual_nil_prefix : forall l, residual [] l = l.
Proof. induction l as [|w l IH]; simpl; auto. rewrite IH. reflexivity. Qed.

Lemma residual_cons_map : forall c u d l,
  residual (c :: u) (map (cons d) l) = if N.eqb c d then residual u l else [].
Proof.
  intros c u d l. induction l as [|w l IH]; simpl.
  - destruct (N.eqb c d); reflexivity.
  - destruct (N.eqb c d); [rewrite IH; reflexivity|exact IH].
Qed.

Lemma residual_cons_flat_none : forall c u ch, ~ In c (map fst ch) -> residual (c :: u) (flat_map tg ch) = [].
Proof.
  intros c u ch. induction ch as [|[d t] ch IH]; intros H; simpl; auto.
  rewrite residual_app. unfold tg at 1. cbn [fst snd]. rewrite residual_cons_map.
  destruct (N.eqb_spec c d) as [->|NE]; [exfalso; apply H; simpl; auto|].
  simpl. apply IH. intro Hin. apply H. simpl; auto.
Qed.

Lemma residual_cons_flat : forall c u ch t1, NoDup (map fst ch) -> In (c, t1) ch ->
  residual (c :: u) (flat_map tg ch) = residual u (tlang t1).
Proof.
  intros c u ch t1. induction ch as [|[d t] ch IH]; intros HN Hin; [destruct Hin|].
  simpl in HN. inversion HN as [|? ? Hnd HN']; subst.
  simpl. rewrite residual_app. unfold tg at 1. cbn [fst snd]. rewrite residual_cons_map.
  destruct Hin as [E|Hin].
  - inversion E; subst. rewrite N.eqb_refl. rewrite residual_cons_flat_none; auto. apply app_nil_r.
  - destruct (N.eqb_spec c d) as [->|NE].
    + exfalso. apply Hnd. apply (in_map fst) in Hin. exact Hin.
    + simpl. apply IH; auto.
Qed.

Lemma residual_cons_node : forall c u f nw ch t1, NoDup (map fst ch) -> In (c, t1) ch ->
  residual (c :: u) (tlang (Node f nw ch)) = residual u (tlang t1).
Proof.
  intros. rewrite tlang_tg, residual_app. rewrite (residual_cons_flat c u ch t1); auto.
  destruct f; reflexivity.
Qed.

Lemma tsub_residual : forall t u t', tsub t u t' -> labels_sorted t -> tlang t' = residual u (tlang t).
Proof.
  induction 1 as [t|f nw ch c t1 u t' Hin _ IH]; intros HL.
  - symmetry. apply residual_nil_prefix.
  - apply labels_sorted_inv in HL. destruct HL as [HS HLc].
    rewrite (residual_cons_node c u f nw ch t1); [|apply sorted_NoDup; auto|auto].
    apply IH. rewrite Forall_forall in HLc. apply (HLc _ Hin).
Qed.

Lemma tsub_good : forall t u t', tsub t u t' -> good t -> good t' /\ (u <> [] -> tlang t' <> []).
Proof.
  induction 1 as [t|f nw ch c t1 u t' Hin Hsub IH]; intros HG.
  - split; [exact HG|]. intros H; contradiction.
  - pose proof (good_children _ _ _ HG) as Hgc. rewrite Forall_forall in Hgc.
    destruct (Hgc _ Hin) as [Hg1 Hne1]. cbn [snd] in *. destruct (IH Hg1) as [Hg' Hne'].
    split; [exact Hg'|]. intros _. destruct u as [|d u]; [|apply Hne'; discriminate].
    inversion Hsub; subst. exact Hne1.
Qed.

Lemma tsub_in : forall t u t', tsub t u t' -> forall x, In x (tlang t') -> In (u ++ x) (tlang t).
Proof.
  induction 1 as [t|f nw ch c t1 u t' Hin _ IH]; intros x Hx; [exact Hx|].
  cbn [app]. apply in_tlang_cons. exists t1. split; auto.
Qed.

Lemma prefixes_app : forall u x, In u (prefixes (u ++ x)).
Proof.
  induction u as [|c u IH]; intros x; simpl.
  - destruct x; simpl; auto.
  - right. apply in_map. apply IH.
Qed.

(* every subtree below the root of a good tree is reached by a prefix of a word *)
Lemma tsub_prefix : forall t u t', tsub t u t' -> good t -> u <> [] ->
  exists w, In w (tlang t) /\ In u (prefixes w).
Proof.
  intros t u t' Hsub HG Hu. destruct (tsub_good _ _ _ Hsub HG) as [_ Hne]. specialize (Hne Hu).
  destruct (tlang t') as [|x rest] eqn:E; [contradiction|].
  exists (u ++ x). split; [|apply prefixes_app]. eapply tsub_in; eauto. rewrite E. left; reflexivity.
Qed.

(* and every prefix of a word leads to a subtree *)
Lemma prefix_tsub : forall w u t, In w (tlang t) -> In u (prefixes w) -> exists t', tsub t u t'.
Proof.
  induction w as [|c w IH]; intros u t Hw Hu.
  - simpl in Hu. destruct Hu as [<-|[]]. exists t. constructor.
  - simpl in Hu. destruct Hu as [<-|Hu]; [exists t; constructor|].
    apply in_map_iff in Hu. destruct Hu as (u' & <- & Hu').
    destruct t as [f nw ch]. apply in_tlang_cons in Hw. destruct Hw as (t1 & Hin & Hw1).
    destruct (IH u' t1 Hw1 Hu') as (t' & Hsub). exists t'. econstructor; eauto.
Qed.

(* ---------------------------------------------------------------- size *)

Fixpoint tsize (t : tree) : nat :=
  match t with Node _ _ ch => S (list_sum (map (fun ct => tsize (snd ct)) ch)) end.

Lemma tsize_child : forall f nw ch c t1, In (c, t1) ch -> (tsize t1 < tsize (Node f nw ch))%nat.
Proof.
  intros f nw ch c t1 Hin. cbn [tsize]. induction ch as [|a ch IH]; [destruct Hin|].
  simpl. destruct Hin as [->|Hin]; simpl; [lia|]. specialize (IH Hin). lia.
Qed.

Lemma tsub_size : forall t u t', tsub t u t' -> u <> [] -> (tsize t' < tsize t)%nat.
Proof.
  induction 1 as [t|f nw ch c t1 u t' Hin Hsub IH]; intros Hu; [contradiction|].
  pose proof (tsize_child f nw ch c t1 Hin) as H1.
  destruct u as [|d u]; [inversion Hsub; subst; exact H1|].
  assert (H2 : (tsize t' < tsize t1)%nat) by (apply IH; discriminate). lia.
Qed.

(* ---------------------------------------------------------------- a good tree is determined
   by its language *)

Lemma app_split_pred : forall {A} (P : A -> Prop) l1 r1 l2 r2,
  Forall P l1 -> Forall P l2 -> Forall (fun x => ~ P x) r1 -> Forall (fun x => ~ P x) r2 ->
  l1 ++ r1 = l2 ++ r2 -> l1 = l2 /\ r1 = r2.
Proof.
  intros A P. induction l1 as [|a l1 IH]; intros r1 l2 r2 H1 H2 H3 H4 E.
  - destruct l2 as [|b l2]; [auto|]. simpl in E. subst r1.
    inversion H2; subst. inversion H3; subst. contradiction.
  - destruct l2 as [|b l2].
    + simpl in E. subst r2. inversion H1; subst. inversion H4; subst. contradiction.
    + simpl in E. inversion E; subst. inversion H1; subst. inversion H2; subst.
      destruct (IH r1 l2 r2) as [-> ->]; auto.
Qed.

Definition starts (c : byte) (w : word) : Prop := match w with d :: _ => d = c | [] => False end.

Lemma starts_tg : forall c t, Forall (starts c) (tg (c, t)).
Proof. intros. unfold tg. cbn [fst snd]. apply Forall_forall. intros w Hw. apply in_map_iff in Hw. destruct Hw as (x & <- & _). reflexivity. Qed.

Lemma not_starts_flat : forall c ch, ~ In c (map fst ch) -> Forall (fun w => ~ starts c w) (flat_map tg ch).
Proof.
  intros c ch H. apply Forall_forall. intros w Hw. apply in_flat_tg in Hw.
  destruct Hw as (d & w' & t' & -> & Hin & _). simpl. intros ->. apply H. apply (in_map fst) in Hin. exact Hin.
Qed.

Lemma map_cons_inj : forall (c : byte) (l1 l2 : list word), map (cons c) l1 = map (cons c) l2 -> l1 = l2.
Proof.
  induction l1 as [|a l1 IH]; intros [|b l2] E; simpl in E; try discriminate; auto.
  inversion E; subst. f_equal. auto.
Qed.

Lemma children_lang_inj : forall ch1,
  Forall (fun ct => forall t2, good (snd ct) -> good t2 -> tlang (snd ct) = tlang t2 -> snd ct = t2) ch1 ->
  forall ch2,
  Forall (fun ct => good (snd ct) /\ tlang (snd ct) <> []) ch1 ->
  Forall (fun ct => good (snd ct) /\ tlang (snd ct) <> []) ch2 ->
  NoDup (map fst ch1) -> NoDup (map fst ch2) ->
  flat_map tg ch1 = flat_map tg ch2 -> ch1 = ch2.
Proof.
  induction ch1 as [|[c1 t1] ch1 IH]; intros HI ch2 G1 G2 N1 N2 E.
  - destruct ch2 as [|[c2 t2] ch2]; [reflexivity|]. exfalso.
    inversion G2 as [|? ? [_ Hne] _]; subst. cbn [snd] in Hne.
    simpl in E. unfold tg in E at 1. cbn [fst snd] in E. destruct (tlang t2); [contradiction|discriminate].
  - destruct ch2 as [|[c2 t2] ch2].
    + exfalso. inversion G1 as [|? ? [_ Hne] _]; subst. cbn [snd] in Hne.
      simpl in E. unfold tg in E at 1. cbn [fst snd] in E. destruct (tlang t1); [contradiction|discriminate].
    + inversion HI as [|? ? HI1 HIr]; subst. inversion G1 as [|? ? [Hg1 Hne1] G1r]; subst.
      inversion G2 as [|? ? [Hg2 Hne2] G2r]; subst. cbn [fst snd] in *.
      simpl in N1, N2. inversion N1 as [|? ? Hn1 N1r]; subst. inversion N2 as [|? ? Hn2 N2r]; subst.
      simpl in E.
      assert (Ec : c1 = c2).
      { unfold tg in E at 1 3. cbn [fst snd] in E.
        destruct (tlang t1) as [|x1 r1]; [contradiction|]. destruct (tlang t2) as [|x2 r2]; [contradiction|].
        simpl in E. inversion E; reflexivity. }
      subst c2.
      destruct (app_split_pred (starts c1) _ _ _ _ (starts_tg c1 t1) (starts_tg c1 t2)
                  (not_starts_flat c1 ch1 Hn1) (not_starts_flat c1 ch2 Hn2) E) as [E1 E2].
      unfold tg in E1. cbn [fst snd] in E1. apply map_cons_inj in E1.
      rewrite (HI1 t2 Hg1 Hg2 E1). f_equal. apply IH; auto.
Qed.

Lemma tlang_inj : forall t1 t2, good t1 -> good t2 -> tlang t1 = tlang t2 -> t1 = t2.
Proof.
  induction t1 as [f1 n1 ch1 IH] using tree_ind'. intros [f2 n2 ch2] G1 G2 E.
  assert (Ef : f1 = f2).
  { pose proof (in_tlang_nil f1 n1 ch1) as H1. pose proof (in_tlang_nil f2 n2 ch2) as H2. rewrite E in H1.
    destruct f1, f2; auto; [destruct H1 as [_ H1]; specialize (H1 eq_refl); apply H2 in H1; discriminate
                           |destruct H2 as [_ H2]; specialize (H2 eq_refl); apply H1 in H2; discriminate]. }
  subst f2.
  assert (Ech : ch1 = ch2).
  { pose proof G1 as (_ & L1 & _). pose proof G2 as (_ & L2 & _).
    apply labels_sorted_inv in L1. apply labels_sorted_inv in L2. destruct L1 as [S1 _], L2 as [S2 _].
    apply children_lang_inj; auto.
    - eapply good_children; eauto.
    - eapply good_children; eauto.
    - apply sorted_NoDup; auto.
    - apply sorted_NoDup; auto.
    - rewrite !tlang_tg in E. apply app_inv_head in E. exact E. }
  subst ch2. f_equal.
  destruct G1 as (C1 & _). destruct G2 as (C2 & _).
  apply counts_ok_inv in C1. apply counts_ok_inv in C2. destruct C1 as [C1 _], C2 as [C2 _].
  rewrite (tcount_nw f1 n1 n2) in C1. congruence.
Qed.
