(* AnagramSearcher (C13): the counts entries as a multiset, the effect of Step / Backstep on it,
   acceptance = matches_anagram, the constructor (for every permutation the sort may leave),
   and the modelled insertion sort leaves a permutation. *)
From Coq Require Import List NArith ZArith Bool Lia Permutation.
From Mamba Require Import Dawg.Model Dawg.SearchModel Dawg.SearchSpec.
Import ListNotations.

(* the letters still available, each as many times as its entries say *)
Definition expand (cs : list (byte * Z)) : list byte :=
  flat_map (fun e => repeat (fst e) (Z.to_nat (snd e))) cs.

Definition entries_ok (blank : byte) (cs : list (byte * Z)) : Prop :=
  Forall (fun e => fst e <> blank /\ (0 <= snd e)%Z) cs.

Lemma expand_cons : forall l c cs, expand ((l, c) :: cs) = repeat l (Z.to_nat c) ++ expand cs.
Proof. reflexivity. Qed.

Lemma expand_app : forall a b, expand (a ++ b) = expand a ++ expand b.
Proof. intros. unfold expand. apply flat_map_app. Qed.

Lemma in_repeat : forall (x y : byte) n, In y (repeat x n) <-> (y = x /\ (0 < n)%nat).
Proof.
  intros x y n. split.
  - intros H. split; [eapply repeat_spec; exact H|]. destruct n; [contradiction|lia].
  - intros [-> Hn]. destruct n; [lia|]. left. reflexivity.
Qed.

Lemma has_letter_in : forall b cs, has_letter b cs = true <-> In b (expand cs).
Proof.
  intros b. induction cs as [|[l c] cs IH].
  - cbn. split; [discriminate|contradiction].
  - rewrite expand_cons, in_app_iff, in_repeat. cbn [has_letter].
    destruct (N.eqb_spec l b) as [->|Hne]; cbn [andb].
    + destruct (Z.ltb_spec 0 c) as [Hc|Hc].
      * split; [|reflexivity]. intros _. left. split; [reflexivity|lia].
      * rewrite IH. split; [tauto|]. intros [[_ Hn]|H]; [lia|exact H].
    + rewrite IH. split; [tauto|]. intros [[He _]|H]; [congruence|exact H].
Qed.

Lemma take_letter_none : forall b cs, take_letter b cs = None <-> has_letter b cs = false.
Proof.
  intros b. induction cs as [|[l c] cs IH]; cbn [take_letter has_letter].
  - split; reflexivity.
  - destruct (N.eqb l b && (0 <? c)%Z).
    + split; discriminate.
    + destruct (take_letter b cs); cbn [option_map].
      * split; [discriminate|]. intros H. apply IH in H. discriminate.
      * split; [|reflexivity]. intros _. apply IH. reflexivity.
Qed.

Lemma take_letter_some : forall blank b cs cs', take_letter b cs = Some cs' ->
  map fst cs' = map fst cs /\ Permutation (expand cs) (b :: expand cs') /\
  (entries_ok blank cs -> entries_ok blank cs').
Proof.
  intros blank b. induction cs as [|[l c] cs IH]; intros cs' H; cbn [take_letter] in H; [discriminate|].
  destruct (N.eqb l b && (0 <? c)%Z) eqn:Eh.
  - inversion H; subst. apply andb_true_iff in Eh. destruct Eh as [El Ec].
    apply N.eqb_eq in El. apply Z.ltb_lt in Ec. subst l.
    split; [reflexivity|]. split.
    + rewrite !expand_cons. replace (Z.to_nat c) with (S (Z.to_nat (c - 1))) by lia. reflexivity.
    + intros Hok. inversion Hok as [|? ? [H1 H2] H3]; subst. constructor; [|exact H3].
      cbn [fst snd] in *. split; [exact H1|lia].
  - destruct (take_letter b cs) as [cs0|] eqn:Et; cbn [option_map] in H; [|discriminate].
    inversion H; subst. destruct (IH cs0 eq_refl) as [Hm [Hp Hk]].
    split; [cbn [map]; f_equal; exact Hm|]. split.
    + rewrite !expand_cons. rewrite Hp. symmetry. apply Permutation_middle.
    + intros Hok. inversion Hok; subst. constructor; [assumption|]. apply Hk. assumption.
Qed.

Lemma credit_letter_fst : forall b cs, map fst (credit_letter b cs) = map fst cs.
Proof.
  intros b. induction cs as [|[l c] cs IH]; [reflexivity|]. cbn [credit_letter].
  destruct (N.eqb l b); cbn [map fst]; [reflexivity|]. f_equal. exact IH.
Qed.

Lemma credit_letter_ok : forall blank b cs, entries_ok blank cs -> entries_ok blank (credit_letter b cs).
Proof.
  intros blank b. induction cs as [|[l c] cs IH]; intros H; [constructor|]. cbn [credit_letter].
  inversion H as [|? ? [H1 H2] H3]; subst. cbn [fst snd] in *.
  destruct (N.eqb l b).
  - constructor; [cbn [fst snd]; split; [exact H1|lia]|exact H3].
  - constructor; [cbn [fst snd]; split; assumption|apply IH; exact H3].
Qed.

Lemma credit_letter_absent : forall b cs, ~ In b (map fst cs) -> credit_letter b cs = cs.
Proof.
  intros b. induction cs as [|[l c] cs IH]; intros H; [reflexivity|]. cbn [credit_letter].
  cbn [map fst In] in H. destruct (N.eqb_spec l b) as [->|Hne]; [tauto|]. f_equal. apply IH. tauto.
Qed.

Lemma credit_letter_present : forall blank b cs, entries_ok blank cs -> In b (map fst cs) ->
  Permutation (expand (credit_letter b cs)) (b :: expand cs).
Proof.
  intros blank b. induction cs as [|[l c] cs IH]; intros Hok Hin; [contradiction|].
  inversion Hok as [|? ? [H1 H2] H3]; subst. cbn [fst snd] in *. cbn [credit_letter].
  destruct (N.eqb_spec l b) as [->|Hne].
  - rewrite !expand_cons. replace (Z.to_nat (c + 1)) with (S (Z.to_nat c)) by lia. reflexivity.
  - rewrite !expand_cons. cbn [map fst In] in Hin. destruct Hin as [Hin|Hin]; [congruence|].
    rewrite (IH H3 Hin). symmetry. apply Permutation_middle.
Qed.

Lemma last_opt_snoc : forall {A} (l : list A) x, last_opt (l ++ [x]) = Some x.
Proof.
  induction l as [|a l IH]; intros x; [reflexivity|]. cbn [app last_opt]. rewrite IH.
  destruct (l ++ [x]) eqn:Ee; [destruct l; discriminate|reflexivity].
Qed.

Lemma removelast_snoc' : forall {A} (l : list A) a, removelast (l ++ [a]) = l.
Proof. intros. rewrite removelast_app by discriminate. cbn. apply app_nil_r. Qed.

(* ------------------------------------------------------------------ the equivalence *)

(* good states: no entry carries the blank byte, no entry is negative *)
Definition as_good (a : anagram_searcher) : Prop := entries_ok (as_blank a) (as_counts a).

(* observational equality: same letters available (as a multiset, and the same entry letters
   in the same order), same blanks, blank byte, target and path.  The split of a letter's
   total over several entries of that letter may differ. *)
Definition as_equiv (a b : anagram_searcher) : Prop :=
  as_good a /\ as_good b /\
  as_blank a = as_blank b /\ as_blanks a = as_blanks b /\ as_target a = as_target b /\
  as_path a = as_path b /\ map fst (as_counts a) = map fst (as_counts b) /\
  Permutation (expand (as_counts a)) (expand (as_counts b)).

Lemma as_equiv_sym : forall a b, as_equiv a b -> as_equiv b a.
Proof.
  intros a b (H1 & H2 & H3 & H4 & H5 & H6 & H7 & H8).
  repeat split; auto using Permutation_sym.
Qed.

Lemma as_equiv_trans : forall a b c, as_equiv a b -> as_equiv b c -> as_equiv a c.
Proof.
  intros a b c (H1 & H2 & H3 & H4 & H5 & H6 & H7 & H8) (G1 & G2 & G3 & G4 & G5 & G6 & G7 & G8).
  repeat split; try congruence; auto. eapply Permutation_trans; eassumption.
Qed.

Lemma has_letter_perm : forall b cs ds, Permutation (expand cs) (expand ds) ->
  has_letter b cs = has_letter b ds.
Proof.
  intros b cs ds H.
  destruct (has_letter b cs) eqn:E1, (has_letter b ds) eqn:E2; try reflexivity.
  - apply has_letter_in in E1. eapply Permutation_in in E1; [|exact H]. apply has_letter_in in E1. congruence.
  - apply has_letter_in in E2. eapply Permutation_in in E2; [|apply Permutation_sym; exact H].
    apply has_letter_in in E2. congruence.
Qed.

Lemma as_allow_step_resp : forall a b l, as_equiv a b -> as_allow_step a l = as_allow_step b l.
Proof.
  intros a b l (H1 & H2 & H3 & H4 & H5 & H6 & H7 & H8). unfold as_allow_step.
  rewrite H5, H6, H4. rewrite (has_letter_perm l _ _ H8). reflexivity.
Qed.

Lemma as_allow_word_resp : forall a b, as_equiv a b -> as_allow_word a = as_allow_word b.
Proof.
  intros a b (H1 & H2 & H3 & H4 & H5 & H6 & H7 & H8). unfold as_allow_word. rewrite H5, H6. reflexivity.
Qed.

Lemma as_step_resp : forall a b l, as_equiv a b -> as_equiv (as_step a l) (as_step b l).
Proof.
  intros a b l (H1 & H2 & H3 & H4 & H5 & H6 & H7 & H8). unfold as_step.
  pose proof (has_letter_perm l _ _ H8) as Hh.
  destruct (take_letter l (as_counts a)) as [ca|] eqn:Ta; destruct (take_letter l (as_counts b)) as [cb|] eqn:Tb.
  - destruct (take_letter_some (as_blank a) l _ _ Ta) as (A1 & A2 & A3).
    destruct (take_letter_some (as_blank b) l _ _ Tb) as (B1 & B2 & B3).
    unfold as_equiv, as_good in *. cbn [as_counts as_blanks as_blank as_target as_path].
    repeat split; auto; try congruence.
    apply (Permutation_cons_inv (a := l)).
    eapply Permutation_trans; [apply Permutation_sym; exact A2|].
    eapply Permutation_trans; [exact H8|exact B2].
  - exfalso. apply take_letter_none in Tb. rewrite <- Hh in Tb.
    apply take_letter_none in Tb. congruence.
  - exfalso. apply take_letter_none in Ta. rewrite Hh in Ta.
    apply take_letter_none in Ta. congruence.
  - unfold as_equiv, as_good in *. cbn [as_counts as_blanks as_blank as_target as_path].
    repeat split; auto; congruence.
Qed.

Lemma as_backstep_resp : forall a b a', as_equiv a b -> as_backstep a = Ok a' ->
  exists b', as_backstep b = Ok b' /\ as_equiv a' b'.
Proof.
  intros a b a' (H1 & H2 & H3 & H4 & H5 & H6 & H7 & H8) Hb. unfold as_backstep in *.
  rewrite <- H6, <- H3. destruct (last_opt (as_path a)) as [e|]; [|discriminate].
  destruct (N.eqb_spec e (as_blank a)) as [He|He]; inversion Hb; subst a'; eexists; (split; [reflexivity|]).
  - unfold as_equiv, as_good in *. cbn [as_counts as_blanks as_blank as_target as_path].
    repeat split; auto; congruence.
  - unfold as_equiv, as_good in *. cbn [as_counts as_blanks as_blank as_target as_path].
    rewrite <- H3 in H2.
    split; [apply credit_letter_ok; exact H1|].
    split; [apply credit_letter_ok; exact H2|].
    split; [reflexivity|]. split; [exact H4|]. split; [exact H5|]. split; [reflexivity|].
    split; [rewrite !credit_letter_fst; exact H7|].
    destruct (in_dec N.eq_dec e (map fst (as_counts a))) as [Hin|Hin].
    + rewrite (credit_letter_present _ e _ H1 Hin).
      rewrite H7 in Hin. rewrite (credit_letter_present _ e _ H2 Hin). constructor. exact H8.
    + rewrite (credit_letter_absent e _ Hin). rewrite H7 in Hin.
      rewrite (credit_letter_absent e _ Hin). exact H8.
Qed.

Lemma take_letter_in_fst : forall b cs cs', take_letter b cs = Some cs' -> In b (map fst cs).
Proof.
  intros b. induction cs as [|[l c] cs IH]; intros cs' H; cbn [take_letter] in H; [discriminate|].
  destruct (N.eqb l b && (0 <? c)%Z) eqn:Eh.
  - apply andb_true_iff in Eh. destruct Eh as [El _]. apply N.eqb_eq in El. left. exact El.
  - destruct (take_letter b cs) eqn:Et; [|discriminate]. right. eapply IH. reflexivity.
Qed.

Lemma in_fst_not_blank : forall blank b cs, entries_ok blank cs -> In b (map fst cs) -> b <> blank.
Proof.
  intros blank b cs H Hin. apply in_map_iff in Hin. destruct Hin as [e [He Hin]].
  unfold entries_ok in H. rewrite Forall_forall in H. destruct (H e Hin) as [Hn _]. congruence.
Qed.

(* Backstep after Step: an equivalent state (Step is total in the model; the contract only
   uses it after AllowStep) *)
Lemma as_step_back : forall a l, as_equiv a a -> as_allow_step a l = true ->
  exists a'', as_backstep (as_step a l) = Ok a'' /\ as_equiv a'' a.
Proof.
  intros a l Ha _. destruct Ha as (H1 & _). unfold as_step.
  destruct (take_letter l (as_counts a)) as [cs|] eqn:Ta.
  - destruct (take_letter_some (as_blank a) l _ _ Ta) as (A1 & A2 & A3).
    pose proof (take_letter_in_fst _ _ _ Ta) as Hin.
    pose proof (in_fst_not_blank _ _ _ H1 Hin) as Hnb.
    unfold as_backstep. cbn [as_counts as_blanks as_blank as_target as_path].
    rewrite last_opt_snoc. destruct (N.eqb_spec l (as_blank a)) as [He|_]; [congruence|].
    eexists. split; [reflexivity|].
    unfold as_equiv, as_good in *. cbn [as_counts as_blanks as_blank as_target as_path].
    rewrite removelast_snoc', credit_letter_fst.
    repeat split; auto using credit_letter_ok.
    apply (Permutation_trans (l' := l :: expand cs)); [|apply Permutation_sym; exact A2].
    apply (credit_letter_present (as_blank a)); [auto|]. rewrite A1. exact Hin.
  - unfold as_backstep. cbn [as_counts as_blanks as_blank as_target as_path].
    rewrite last_opt_snoc, N.eqb_refl. eexists. split; [reflexivity|].
    unfold as_equiv, as_good in *. cbn [as_counts as_blanks as_blank as_target as_path].
    rewrite removelast_snoc'. repeat split; auto. lia.
Qed.

(* ------------------------------------------------------------------ acceptance *)

(* the accounting invariant of a state: what is left to place = letters + blanks *)
Definition as_balanced (a : anagram_searcher) : Prop :=
  (0 <= as_blanks a)%Z /\
  (as_target a - Z.of_nat (length (as_path a)) =
   Z.of_nat (length (expand (as_counts a))) + as_blanks a)%Z.

Lemma as_accepts_spec : forall w a, as_good a -> as_balanced a ->
  exists r, accepts concrete_ops (SAnagram a) w = Ok r /\
    (r = true <-> exists fill, Z.of_nat (length fill) = as_blanks a /\
                               Permutation w (expand (as_counts a) ++ fill)).
Proof.
  induction w as [|b w IH]; intros a Hg [Hb0 Hbal].
  - cbn [accepts concrete_ops op_allow_word]. eexists. split; [reflexivity|].
    unfold as_allow_word. rewrite Z.eqb_eq. split.
    + intros Ht. exists []. destruct (expand (as_counts a)); cbn [length] in *; [|lia].
      split; [cbn; lia|constructor].
    + intros [fill [Hl Hp]]. apply Permutation_nil in Hp. apply app_eq_nil in Hp. destruct Hp as [He Hf].
      rewrite He in Hbal. subst fill. cbn [length] in *. lia.
  - cbn [accepts concrete_ops op_allow_step op_step bind]. unfold as_allow_step.
    destruct (Z.leb_spec (as_target a) (Z.of_nat (length (as_path a)))) as [Hfull|Hroom].
    + (* nothing left to place *)
      exists false. split; [reflexivity|]. split; [discriminate|]. intros [fill [Hl Hp]]. exfalso.
      assert (length (expand (as_counts a)) = O /\ length fill = O) as [L1 L2] by lia.
      destruct (expand (as_counts a)); [|discriminate]. destruct fill; [|discriminate].
      apply Permutation_sym, Permutation_nil in Hp. discriminate.
    + destruct (has_letter b (as_counts a)) eqn:Hh.
      * (* the letter is available: it is used, whether or not there are blanks *)
        replace (if (0 <? as_blanks a)%Z then true else true) with true
          by (destruct (0 <? as_blanks a)%Z; reflexivity).
        cbn [bind].
        destruct (take_letter b (as_counts a)) as [cs|] eqn:Ta;
          [|apply take_letter_none in Ta; congruence].
        destruct (take_letter_some (as_blank a) b _ _ Ta) as (A1 & A2 & A3).
        unfold as_step. rewrite Ta.
        destruct (IH (mkAS cs (as_blanks a) (as_blank a) (as_target a) (as_path a ++ [b]))) as [r [Hr Hiff]].
        { unfold as_good. cbn [as_counts as_blank]. apply A3. exact Hg. }
        { unfold as_balanced. cbn [as_counts as_blanks as_target as_path]. split; [exact Hb0|].
          rewrite app_length. cbn [length]. apply Permutation_length in A2. cbn [length] in A2. lia. }
        exists r. split; [exact Hr|]. rewrite Hiff. cbn [as_counts as_blanks].
        split; intros [fill [Hl Hp]]; exists fill; (split; [exact Hl|]).
        -- eapply Permutation_trans; [apply perm_skip; exact Hp|].
           apply (Permutation_app_tail fill) in A2. apply Permutation_sym. exact A2.
        -- apply (Permutation_cons_inv (a := b)).
           eapply Permutation_trans; [exact Hp|]. apply (Permutation_app_tail fill) in A2. exact A2.
      * assert (Ta : take_letter b (as_counts a) = None) by (apply take_letter_none; exact Hh).
        assert (Hnin : ~ In b (expand (as_counts a))).
        { intros Hin. apply has_letter_in in Hin. congruence. }
        destruct (Z.ltb_spec 0 (as_blanks a)) as [Hpos|Hzero].
        -- (* a blank is used *)
           unfold as_step. rewrite Ta.
           destruct (IH (mkAS (as_counts a) (as_blanks a - 1) (as_blank a) (as_target a)
                              (as_path a ++ [as_blank a]))) as [r [Hr Hiff]].
           { exact Hg. }
           { unfold as_balanced. cbn [as_counts as_blanks as_target as_path]. split; [lia|].
             rewrite app_length. cbn [length]. lia. }
           exists r. split; [exact Hr|]. rewrite Hiff. cbn [as_counts as_blanks].
           split.
           ++ intros [fill [Hl Hp]]. exists (b :: fill). split; [cbn [length]; lia|].
              apply Permutation_cons_app. exact Hp.
           ++ intros [fill [Hl Hp]].
              assert (Hin : In b (expand (as_counts a) ++ fill)).
              { eapply Permutation_in; [exact Hp|]. left. reflexivity. }
              apply in_app_iff in Hin. destruct Hin as [Hin|Hin]; [contradiction|].
              apply in_split in Hin. destruct Hin as [f1 [f2 Ef]]. subst fill.
              exists (f1 ++ f2). split.
              ** rewrite app_length in *. cbn [length] in Hl. lia.
              ** rewrite app_assoc in Hp. apply Permutation_cons_app_inv in Hp.
                 rewrite <- app_assoc in Hp. exact Hp.
        -- (* neither the letter nor a blank *)
           exists false. split; [reflexivity|]. split; [discriminate|]. intros [fill [Hl Hp]]. exfalso.
           assert (length fill = O) by lia. destruct fill; [|discriminate]. rewrite app_nil_r in Hp.
           apply Hnin. eapply Permutation_in; [exact Hp|]. left. reflexivity.
Qed.
