(* Store-level invariants of the builder: registered nodes, the unregistered rightmost path
   (spine) and its unfolding; frame lemmas; what areEquivalent / the register search decide. *)
From Coq Require Import List NArith ZArith Bool Lia Sorted FMapPositive.
From Mamba Require Import Dawg.Model Dawg.Tree Dawg.Spec Dawg.TreeFacts.
Import ListNotations.

(* every key in use is at most the last id handed out *)
Definition bound (s : store) (L : N) : Prop := forall i n, sget s i = Some n -> (i <= L)%N.

(* the register: closed under links, every node unfolds to a good tree with a non-empty
   language, and no two registered nodes unfold to the same tree *)
Definition reg_ok (s : store) (reg : list N) : Prop :=
  closed s reg /\
  (forall r, In r reg -> exists t, rep s r t /\ good t /\ tlang t <> []) /\
  (forall r1 r2 t, In r1 reg -> In r2 reg -> rep s r1 t -> rep s r2 t -> r1 = r2).

(* [srep s reg i v t]: from node i the rightmost path spells v through unregistered nodes of
   increasing key, every other link of these nodes (and every link of the end node) leads to
   a registered node, and i unfolds to t. *)
Inductive srep (s : store) (reg : list N) : N -> word -> tree -> Prop :=
| srep_end i n ch :
    sget s i = Some n -> ~ In i reg ->
    nlabels n = map fst ch ->
    Forall2 (rep s) (nkids n) (map snd ch) ->
    Forall (fun k => In k reg) (nkids n) ->
    srep s reg i [] (Node (nfinal n) (nwords n) ch)
| srep_step i n ch0 c ks k tk v :
    sget s i = Some n -> ~ In i reg -> (i < k)%N ->
    nlabels n = map fst ch0 ++ [c] ->
    nkids n = ks ++ [k] ->
    Forall2 (rep s) ks (map snd ch0) ->
    Forall (fun k => In k reg) ks ->
    srep s reg k v tk ->
    srep s reg i (c :: v) (Node (nfinal n) (nwords n) (ch0 ++ [(c, tk)])).

Lemma srep_end' : forall s reg i n ch t,
  sget s i = Some n -> ~ In i reg -> nlabels n = map fst ch ->
  Forall2 (rep s) (nkids n) (map snd ch) -> Forall (fun k => In k reg) (nkids n) ->
  t = Node (nfinal n) (nwords n) ch -> srep s reg i [] t.
Proof. intros; subst; eapply srep_end; eauto. Qed.

Lemma srep_step' : forall s reg i n ch0 c ks k tk v t,
  sget s i = Some n -> ~ In i reg -> (i < k)%N ->
  nlabels n = map fst ch0 ++ [c] -> nkids n = ks ++ [k] ->
  Forall2 (rep s) ks (map snd ch0) -> Forall (fun k => In k reg) ks ->
  srep s reg k v tk -> t = Node (nfinal n) (nwords n) (ch0 ++ [(c, tk)]) ->
  srep s reg i (c :: v) t.
Proof. intros; subst; eapply srep_step; eauto. Qed.

Lemma srep_rep : forall s reg i v t, srep s reg i v t -> rep s i t.
Proof.
  induction 1.
  - eapply rep_node; eauto.
  - eapply rep_node; eauto.
    + rewrite map_app. simpl. assumption.
    + rewrite H3, map_app. simpl. apply Forall2_app; auto.
Qed.

Lemma srep_not_reg : forall s reg i v t, srep s reg i v t -> ~ In i reg.
Proof. intros s reg i v t H. inversion H; assumption. Qed.

Lemma srep_node : forall s reg i v t, srep s reg i v t ->
  exists n, sget s i = Some n /\ nfinal n = tfin t /\ nwords n = tnw t /\ nlabels n = map fst (tch t) /\
            length (nkids n) = length (tch t).
Proof.
  intros s reg i v t H.
  destruct H as [i n ch Hn Hr Hl Hk Hkr | i n ch0 c ks k tk v Hn Hr Hik Hl Hks Hk Hkr Hs];
    exists n; simpl; repeat split; auto.
  - apply Forall2_length' in Hk. rewrite map_length in Hk. exact Hk.
  - rewrite map_app. simpl. assumption.
  - rewrite Hks, !app_length. apply Forall2_length' in Hk. rewrite map_length in Hk. simpl. lia.
Qed.

(* ---------------------------------------------------------------- frames *)

Lemma closed_In_node : forall s R r, closed s R -> In r R -> exists n, sget s r = Some n.
Proof. intros s R r HC Hr. destruct (HC r Hr) as (n & Hn & _). eauto. Qed.

Lemma closed_bound : forall s R L r, closed s R -> bound s L -> In r R -> (r <= L)%N.
Proof. intros s R L r HC HB Hr. destruct (closed_In_node _ _ _ HC Hr) as (n & Hn). eapply HB; eauto. Qed.

Lemma reg_frame : forall s s' reg, reg_ok s reg -> (forall r, In r reg -> sget s' r = sget s r) -> reg_ok s' reg.
Proof.
  intros s s' reg (HC & HT & HD) HE.
  assert (HC' : closed s' reg) by (eapply closed_frame; eauto).
  split; [exact HC'|]. split.
  - intros r Hr. destruct (HT r Hr) as (t & Ht & Hg). exists t. split; auto. eapply (rep_frame s s' reg); eauto.
  - intros r1 r2 t H1 H2 R1 R2. apply (HD r1 r2 t); auto.
    + eapply (rep_frame s' s reg); eauto. intros; symmetry; auto.
    + eapply (rep_frame s' s reg); eauto. intros; symmetry; auto.
Qed.

Lemma srep_frame : forall s s' reg i v t, srep s reg i v t -> closed s reg ->
  (forall j, In j reg \/ (i <= j)%N -> sget s' j = sget s j) -> srep s' reg i v t.
Proof.
  intros s s' reg i v t H HC. induction H; intros HE.
  - eapply srep_end; eauto.
    + rewrite HE; auto. right; lia.
    + eapply Forall2_rep_frame; eauto.
  - eapply srep_step; eauto.
    + rewrite HE; auto. right; lia.
    + eapply Forall2_rep_frame; eauto.
    + apply IHsrep. intros j [Hj|Hj]; apply HE; auto. right; lia.
Qed.

Lemma bound_sset : forall s L i n, bound s L -> (i <= L)%N -> bound (sset s i n) L.
Proof.
  intros s L i n HB Hi j m Hj. destruct (N.eq_dec i j) as [->|NE]; auto.
  rewrite sget_sset_other in Hj; eauto.
Qed.

Lemma bound_mono : forall s L L', bound s L -> (L <= L')%N -> bound s L'.
Proof. intros s L L' HB HL i n Hi. specialize (HB i n Hi). lia. Qed.

Lemma bump_ok : forall s i n, sget s i = Some n ->
  bump s i = Ok (sset s i (mkNode (nid n) (nwords n + 1) (nfinal n) (nlabels n) (nkids n))).
Proof. intros s i n H. unfold bump. rewrite (deref_ok _ _ _ H). reflexivity. Qed.

(* ---------------------------------------------------------------- areEquivalent *)

Lemma labels_eq_spec : forall lt lu, length lt = length lu ->
  exists b, labels_eq (length lt) lt lu = Ok b /\ (b = true <-> lt = lu).
Proof.
  induction lt as [|a lt IH]; intros [|b lu] HL; simpl in *; try discriminate.
  - exists true. split; auto. tauto.
  - destruct (N.eqb_spec a b) as [->|NE].
    + destruct (IH lu) as (r & Hr & Hiff); [lia|]. exists r. split; auto.
      rewrite Hiff. split; [intros ->; reflexivity|intros E; inversion E; reflexivity].
    + exists false. split; auto. split; [discriminate|intros E; inversion E; contradiction].
Qed.

Lemma keys_eq_spec : forall a b, keys_eq a b = true <-> a = b.
Proof.
  induction a as [|x a IH]; intros [|y b]; simpl; try (split; [discriminate|discriminate]); [tauto|].
  rewrite andb_true_iff, N.eqb_eq, IH. split; [intros [-> ->]; reflexivity|intros E; inversion E; auto].
Qed.

Definition node_wf (n : node) : Prop := length (nlabels n) = length (nkids n).

Definition same_shape (t u : node) : Prop :=
  nfinal t = nfinal u /\ nlabels t = nlabels u /\ nkids t = nkids u.

Lemma are_equivalent_spec : forall t u, node_wf t -> node_wf u ->
  exists b, are_equivalent t u = Ok b /\ (b = true <-> same_shape t u).
Proof.
  intros t u Wt Wu. unfold are_equivalent, same_shape, node_wf in *.
  destruct (Bool.eqb (nfinal t) (nfinal u)) eqn:Ef; simpl.
  2:{ exists false. split; auto. split; [discriminate|]. intros (E & _). rewrite E, eqb_reflx in Ef. discriminate. }
  apply eqb_prop in Ef.
  destruct (Nat.eqb (length (nkids t)) (length (nkids u))) eqn:El; simpl.
  2:{ exists false. split; auto. split; [discriminate|]. intros (_ & _ & E). rewrite E, Nat.eqb_refl in El. discriminate. }
  apply Nat.eqb_eq in El.
  destruct (labels_eq_spec (nlabels t) (nlabels u)) as (b & Hb & Hiff); [lia|].
  rewrite <- Wt, Hb. simpl. destruct b; simpl.
  - exists (keys_eq (nkids t) (nkids u)). split; auto. rewrite keys_eq_spec.
    destruct Hiff as [Hl _]. specialize (Hl eq_refl). tauto.
  - exists false. split; auto. split; [discriminate|]. intros (_ & E & _). apply Hiff in E. discriminate.
Qed.

Lemma find_equiv_spec : forall s lc reg, node_wf lc ->
  (forall u, In u reg -> exists nu, sget s u = Some nu /\ node_wf nu) ->
  exists e, find_equiv s lc reg = Ok e /\
    match e with
    | Some u => In u reg /\ exists nu, sget s u = Some nu /\ same_shape lc nu
    | None => forall u nu, In u reg -> sget s u = Some nu -> ~ same_shape lc nu
    end.
Proof.
  intros s lc reg Wl. induction reg as [|u reg IH]; intros HR; simpl.
  - exists None. split; [reflexivity|intros u nu []].
  - destruct (HR u (or_introl eq_refl)) as (nu & Hnu & Wu).
    rewrite (deref_ok _ _ _ Hnu). simpl.
    destruct (are_equivalent_spec lc nu Wl Wu) as (b & Hb & Hiff). rewrite Hb. simpl.
    destruct b.
    + exists (Some u). split; auto. split; [left; reflexivity|]. exists nu. split; auto. apply Hiff. reflexivity.
    + destruct IH as (e & He & Hspec); [intros; apply HR; right; assumption|].
      exists e. split; auto. destruct e as [u'|].
      * destruct Hspec as [Hin Hx]. split; [right; exact Hin|exact Hx].
      * intros u' nu' [<-|Hin] Hn'.
        -- rewrite Hnu in Hn'. inversion Hn'; subst. intro E. apply Hiff in E. discriminate.
        -- eapply Hspec; eauto.
Qed.

Lemma rep_node_wf : forall s i t n, rep s i t -> sget s i = Some n -> node_wf n.
Proof.
  intros s i [f nw ch] n H Hn. apply rep_inv in H. destruct H as (n' & Hn' & _ & _ & Hl & Hk).
  rewrite Hn in Hn'. inversion Hn'; subst n'. unfold node_wf. rewrite Hl, map_length.
  apply Forall2_length' in Hk. rewrite map_length in Hk. auto.
Qed.

Lemma Forall2_rep_fun : forall s ks ts1 ts2, Forall2 (rep s) ks ts1 -> Forall2 (rep s) ks ts2 -> ts1 = ts2.
Proof.
  intros s ks ts1 ts2 H. revert ts2. induction H; intros ts2 H2; inversion H2; subst; auto.
  f_equal; [eapply rep_fun; eauto|auto].
Qed.

(* nodes of the same shape unfold to the same tree (numWords is determined by counts_ok) *)
Lemma same_shape_same_tree : forall s a b na nb ta tb,
  sget s a = Some na -> sget s b = Some nb -> same_shape na nb ->
  rep s a ta -> rep s b tb -> counts_ok ta -> counts_ok tb -> ta = tb.
Proof.
  intros s a b na nb [fa wa cha] [fb wb chb] Ha Hb (Ef & El & Ek) Ra Rb Ca Cb.
  apply rep_inv in Ra. destruct Ra as (na' & Ha' & Hfa & Hwa & Hla & Hka).
  apply rep_inv in Rb. destruct Rb as (nb' & Hb' & Hfb & Hwb & Hlb & Hkb).
  rewrite Ha in Ha'. inversion Ha'; subst na'. rewrite Hb in Hb'. inversion Hb'; subst nb'.
  assert (cha = chb).
  { apply pairs_eq; [congruence|]. rewrite Ek in Hka. eapply Forall2_rep_fun; eauto. }
  subst chb. assert (fa = fb) by congruence. subst fb.
  apply counts_ok_inv in Ca. apply counts_ok_inv in Cb. destruct Ca as [Ca _], Cb as [Cb _].
  rewrite (tcount_nw fa wa wb) in Ca. congruence.
Qed.

(* conversely, among nodes whose links are registered, the same tree means the same shape *)
Lemma Forall2_rep_inj : forall s reg ka kb ts,
  (forall r1 r2 t, In r1 reg -> In r2 reg -> rep s r1 t -> rep s r2 t -> r1 = r2) ->
  Forall (fun k => In k reg) ka -> Forall (fun k => In k reg) kb ->
  Forall2 (rep s) ka ts -> Forall2 (rep s) kb ts -> ka = kb.
Proof.
  intros s reg ka kb ts HD Ha Hb H. revert kb Hb. induction H; intros kb Hb H2; inversion H2; subst; auto.
  inversion Ha; subst. inversion Hb; subst. f_equal; [eapply HD; eauto|auto].
Qed.

Lemma same_tree_same_shape : forall s reg a b na nb t,
  (forall r1 r2 t, In r1 reg -> In r2 reg -> rep s r1 t -> rep s r2 t -> r1 = r2) ->
  sget s a = Some na -> sget s b = Some nb ->
  Forall (fun k => In k reg) (nkids na) -> Forall (fun k => In k reg) (nkids nb) ->
  rep s a t -> rep s b t -> same_shape na nb.
Proof.
  intros s reg a b na nb [f w ch] HD Ha Hb Ka Kb Ra Rb.
  apply rep_inv in Ra. destruct Ra as (na' & Ha' & Hfa & Hwa & Hla & Hka).
  apply rep_inv in Rb. destruct Rb as (nb' & Hb' & Hfb & Hwb & Hlb & Hkb).
  rewrite Ha in Ha'. inversion Ha'; subst na'. rewrite Hb in Hb'. inversion Hb'; subst nb'.
  repeat split; try congruence. eapply Forall2_rep_inj; eauto.
Qed.

Lemma srep_nil_inv : forall s reg i f nw ch, srep s reg i [] (Node f nw ch) ->
  exists n, sget s i = Some n /\ ~ In i reg /\ nlabels n = map fst ch /\
    Forall2 (rep s) (nkids n) (map snd ch) /\ Forall (fun k => In k reg) (nkids n) /\
    f = nfinal n /\ nw = nwords n.
Proof. intros s reg i f nw ch H. inversion H; subst. exists n. repeat split; auto. Qed.

Lemma srep_cons_inv : forall s reg i c v f nw ch, srep s reg i (c :: v) (Node f nw ch) ->
  exists n ch0 ks k tk, sget s i = Some n /\ ~ In i reg /\ (i < k)%N /\
    nlabels n = map fst ch0 ++ [c] /\ nkids n = ks ++ [k] /\
    Forall2 (rep s) ks (map snd ch0) /\ Forall (fun k => In k reg) ks /\
    srep s reg k v tk /\ f = nfinal n /\ nw = nwords n /\ ch = ch0 ++ [(c, tk)].
Proof.
  intros s reg i c v f nw ch H. inversion H; subst.
  exists n, ch0, ks, k, tk. repeat split; auto.
Qed.
