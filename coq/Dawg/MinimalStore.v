(* Minimality: the nodes reachable from the root of the automaton New returns are in
   bijection with the distinct residual languages of the prefixes of the word list. *)
From Coq Require Import List NArith ZArith Bool Lia Sorted.
From Mamba Require Import Dawg.Model Dawg.Tree Dawg.Spec Dawg.TreeFacts Dawg.BuildStore Dawg.BuildProofs
  Dawg.LangOrder Dawg.LangTree Dawg.LangStore Dawg.MinimalTree.
Import ListNotations.

(* ---------------------------------------------------------------- counting *)

Lemma bij_length : forall {A B} (R : A -> B -> Prop) l1 l2,
  NoDup l1 -> NoDup l2 ->
  (forall a, In a l1 -> exists b, In b l2 /\ R a b) ->
  (forall b, In b l2 -> exists a, In a l1 /\ R a b) ->
  (forall a b b', R a b -> R a b' -> b = b') ->
  (forall a a' b, In a l1 -> In a' l1 -> R a b -> R a' b -> a = a') ->
  length l1 = length l2.
Proof.
  intros A B R. induction l1 as [|a l1 IH]; intros l2 N1 N2 HT HS HF HI.
  - destruct l2 as [|b l2]; [reflexivity|]. destruct (HS b (or_introl eq_refl)) as (a & [] & _).
  - destruct (HT a (or_introl eq_refl)) as (b & Hb & Rab).
    destruct (in_split _ _ Hb) as (l2a & l2b & ->).
    inversion N1 as [|? ? Hna N1']; subst. pose proof (NoDup_remove_1 _ _ _ N2) as N2'.
    pose proof (NoDup_remove_2 _ _ _ N2) as Hnb.
    rewrite app_length. cbn [length]. rewrite Nat.add_succ_r, <- app_length. f_equal.
    apply IH; auto.
    + intros a' Ha'. destruct (HT a' (or_intror Ha')) as (b' & Hb' & Rab'). exists b'. split; auto.
      apply in_app_or in Hb'. apply in_or_app. destruct Hb' as [H|[E|H]]; auto.
      subst b'. exfalso. apply Hna. rewrite (HI a a' b); simpl; auto.
    + intros b' Hb'. destruct (HS b') as (a' & Ha' & Rab').
      { apply in_app_or in Hb'. apply in_or_app. destruct Hb'; simpl; auto. }
      exists a'. split; auto. destruct Ha' as [E|Ha']; auto.
      subst a'. exfalso. apply Hnb. rewrite (HF a b b'); auto.
    + intros a1 a2 b0 H1 H2. apply HI; simpl; auto.
Qed.

Lemma lang_eqb_eq : forall a b, lang_eqb a b = true <-> a = b.
Proof.
  induction a as [|x a IH]; intros [|y b]; simpl; try (split; discriminate); [tauto|].
  rewrite andb_true_iff, word_eqb_eq, IH. split; [intros [-> ->]; reflexivity|intros E; inversion E; auto].
Qed.

Lemma lang_mem_in : forall l ls, lang_mem l ls = true <-> In l ls.
Proof.
  intros l ls. induction ls as [|x ls IH]; simpl; [split; [discriminate|tauto]|].
  rewrite orb_true_iff, lang_eqb_eq, IH. tauto.
Qed.

Lemma dedup_in : forall l ls, In l (dedup ls) <-> In l ls.
Proof.
  intros l ls. induction ls as [|x ls IH]; simpl; [tauto|].
  destruct (lang_mem x ls) eqn:E.
  - rewrite IH. apply lang_mem_in in E. split; auto. intros [<-|H]; auto.
  - simpl. rewrite IH. tauto.
Qed.

Lemma dedup_NoDup : forall ls, NoDup (dedup ls).
Proof.
  induction ls as [|x ls IH]; simpl; [constructor|].
  destruct (lang_mem x ls) eqn:E; auto. constructor; auto.
  rewrite dedup_in. intro H. apply lang_mem_in in H. congruence.
Qed.

Lemma residuals_in : forall ws l, In l (residuals ws) <->
  exists u, (u = [] \/ exists w, In w ws /\ In u (prefixes w)) /\ l = residual u ws.
Proof.
  intros ws l. unfold residuals. rewrite dedup_in, in_map_iff. split.
  - intros (u & <- & [<-|Hu]); [exists []; auto|]. apply in_flat_map in Hu. exists u. auto.
  - intros (u & [->|Hu] & ->); [exists []; simpl; auto|]. exists u. split; auto. right. apply in_flat_map. exact Hu.
Qed.

(* ---------------------------------------------------------------- paths in the store *)

Lemma reach_inv : forall s i j, reach s i j ->
  j = i \/ exists n k, sget s i = Some n /\ In k (nkids n) /\ reach s k j.
Proof.
  intros s i j H. inversion H as [|? n k ? Hn Hk Hr]; subst; [left; reflexivity|].
  right. exists n, k. auto.
Qed.

Lemma rep_kid : forall s i f nw ch n k, rep s i (Node f nw ch) -> sget s i = Some n -> In k (nkids n) ->
  exists c t1, In (c, t1) ch /\ rep s k t1.
Proof.
  intros s i f nw ch n k HR Hn Hk. apply rep_inv in HR. destruct HR as (n' & Hn' & _ & _ & _ & Hkids).
  rewrite Hn in Hn'. inversion Hn'; subst n'.
  destruct (In_nth_error _ _ Hk) as (p & Hp). destruct (Forall2_nth_l _ _ _ _ _ Hkids Hp) as (t1 & Ht1 & Hrep).
  rewrite nth_error_map in Ht1. destruct (nth_error ch p) as [[c t1']|] eqn:E; [|discriminate].
  simpl in Ht1. inversion Ht1; subst. exists c, t1. split; auto. eapply nth_error_In; eauto.
Qed.

Lemma kid_of_child : forall s i f nw ch c t1, rep s i (Node f nw ch) -> In (c, t1) ch ->
  exists n k, sget s i = Some n /\ In k (nkids n) /\ rep s k t1.
Proof.
  intros s i f nw ch c t1 HR Hin. apply rep_inv in HR. destruct HR as (n & Hn & _ & _ & _ & Hkids).
  destruct (In_nth_error _ _ Hin) as (p & Hp).
  assert (Ht : nth_error (map snd ch) p = Some t1) by (rewrite nth_error_map, Hp; reflexivity).
  destruct (Forall2_nth_r _ _ _ _ _ Hkids Ht) as (k & Hk & Hrep).
  exists n, k. split; auto. split; auto. eapply nth_error_In; eauto.
Qed.

Lemma reach_tsub : forall s i j, reach s i j -> forall t, rep s i t ->
  exists u tj, tsub t u tj /\ rep s j tj /\ (u = [] -> j = i).
Proof.
  induction 1 as [i|i n k j Hn Hk _ IH]; intros t HR.
  - exists [], t. split; [constructor|auto].
  - destruct t as [f nw ch]. destruct (rep_kid _ _ _ _ _ _ _ HR Hn Hk) as (c & t1 & Hin & Hrep).
    destruct (IH t1 Hrep) as (u & tj & Hsub & Hrj & _).
    exists (c :: u), tj. split; [econstructor; eauto|]. split; auto. discriminate.
Qed.

Lemma tsub_reach : forall t u tj, tsub t u tj -> forall s i, rep s i t -> exists j, reach s i j /\ rep s j tj.
Proof.
  induction 1 as [t|f nw ch c t1 u t' Hin _ IH]; intros s i HR.
  - exists i. split; [constructor|auto].
  - destruct (kid_of_child _ _ _ _ _ _ _ HR Hin) as (n & k & Hn & Hk & Hrep).
    destruct (IH s k Hrep) as (j & Hreach & Hrj). exists j. split; auto. econstructor; eauto.
Qed.

Lemma reach_closed : forall s reg k j, closed s reg -> reach s k j -> In k reg -> In j reg.
Proof.
  intros s reg k j HC H. induction H as [i|i n k j Hn Hk _ IH]; intros Hi; auto.
  apply IH. destruct (HC i Hi) as (n' & Hn' & Hkids). rewrite Hn in Hn'. inversion Hn'; subst n'.
  rewrite Forall_forall in Hkids. auto.
Qed.

(* the keys reachable from a node that unfolds to a tree form a finite list *)
Lemma reach_list : forall s t i, rep s i t -> exists ks, forall j, In j ks <-> reach s i j.
Proof.
  intros s t. induction t as [f nw ch IH] using tree_ind'. intros i HR.
  pose proof (rep_inv _ _ _ _ _ HR) as (n & Hn & _ & _ & _ & Hkids).
  assert (Hks : exists kss, forall j, In j kss <-> exists k, In k (nkids n) /\ reach s k j).
  { clear HR Hn. revert IH Hkids. generalize (nkids n) as kids. clear.
    induction ch as [|[c t] ch IHch]; intros kids IH Hkids; simpl in Hkids.
    - inversion Hkids; subst. exists []. intros j. split; [intros []|intros (k & [] & _)].
    - inversion Hkids as [|x t' kids' ts' Hx Hrest]; subst.
      inversion IH as [|? ? IHt IHrest]; subst. cbn [snd] in IHt.
      destruct (IHt _ Hx) as (ks1 & Hks1). destruct (IHch _ IHrest Hrest) as (ks2 & Hks2).
      exists (ks1 ++ ks2). intros j. rewrite in_app_iff, Hks1, Hks2. split.
      + intros [H|(k & Hk & H)]; [exists x; simpl; auto|exists k; simpl; auto].
      + intros (k & [<-|Hk] & H); [left; exact H|right; exists k; auto]. }
  destruct Hks as (kss & Hkss). exists (i :: kss). intros j. simpl. rewrite Hkss. split.
  - intros [<-|(k & Hk & H)]; [constructor|econstructor; eauto].
  - intros H. apply reach_inv in H. destruct H as [->|(n' & k & Hn' & Hk & H)]; [auto|].
    rewrite Hn in Hn'. inversion Hn'; subst n'. right. exists k. auto.
Qed.

(* ---------------------------------------------------------------- the theorem *)

Theorem final_minimal : forall s ws, final_ok s ws ->
  forall L, NoDup L -> (forall j, In j L <-> reach s root j) -> length L = minimal_size ws.
Proof.
  intros s ws (reg & t & HR & HS & HG & HL) L HN HLr.
  pose proof (srep_rep _ _ _ _ _ HS) as Hrep.
  pose proof HG as (_ & Hsorted & _).
  destruct HR as (HC & HT & HD).
  destruct t as [f nw ch]. destruct (srep_nil_inv _ _ _ _ _ _ HS) as (nr & Hnr & Hrootreg & _ & _ & Hkreg & _).
  (* a reachable node is the root or a registered node below it *)
  assert (Hcase : forall j, reach s root j -> forall u tj, tsub (Node f nw ch) u tj -> rep s j tj ->
            (u = [] -> j = root) -> (j = root /\ tj = Node f nw ch) \/ (In j reg /\ (tsize tj < tsize (Node f nw ch))%nat)).
  { intros j Hreach u tj Hsub Hrj Hu. destruct u as [|c u].
    - left. split; [auto|]. inversion Hsub; reflexivity.
    - right. split; [|apply (tsub_size _ _ _ Hsub); discriminate].
      apply reach_inv in Hreach. destruct Hreach as [->|(n & k & Hn & Hk & Hreach)].
      + (* j = root reached by a non-empty path: impossible, the subtree would be the tree *)
        exfalso. pose proof (rep_fun _ _ _ _ Hrj Hrep) as E.
        pose proof (tsub_size _ _ _ Hsub) as Hlt. rewrite E in Hlt. specialize (Hlt ltac:(discriminate)). lia.
      + rewrite Hnr in Hn. inversion Hn; subst n. rewrite Forall_forall in Hkreg.
        eapply reach_closed; eauto. }
  unfold minimal_size.
  apply (bij_length (fun j l => exists tj, rep s j tj /\ tlang tj = l) L (residuals ws) HN (dedup_NoDup _)).
  - intros j Hj. apply HLr in Hj. destruct (reach_tsub _ _ _ Hj _ Hrep) as (u & tj & Hsub & Hrj & Hu).
    exists (tlang tj). split; [|eauto]. apply residuals_in. exists u. split.
    + destruct u as [|c u]; [auto|]. right. rewrite <- HL. eapply tsub_prefix; eauto. discriminate.
    + rewrite <- HL. apply tsub_residual; auto.
  - intros l Hl. apply residuals_in in Hl. destruct Hl as (u & Hu & ->).
    assert (Hsub : exists t', tsub (Node f nw ch) u t').
    { destruct Hu as [->|(w & Hw & Hu)]; [eexists; constructor|]. rewrite <- HL in Hw. eapply prefix_tsub; eauto. }
    destruct Hsub as (t' & Hsub). destruct (tsub_reach _ _ _ Hsub s root Hrep) as (j & Hreach & Hrj).
    exists j. split; [apply HLr; exact Hreach|]. exists t'. split; auto.
    rewrite <- HL. apply tsub_residual; auto.
  - intros j l l' (tj & Hrj & <-) (tj' & Hrj' & <-). rewrite (rep_fun _ _ _ _ Hrj Hrj'). reflexivity.
  - intros j j' l Hj Hj' (tj & Hrj & <-) (tj' & Hrj' & E).
    apply HLr in Hj. apply HLr in Hj'.
    destruct (reach_tsub _ _ _ Hj _ Hrep) as (u & tj0 & Hsub & Hrj0 & Hu).
    destruct (reach_tsub _ _ _ Hj' _ Hrep) as (u' & tj0' & Hsub' & Hrj0' & Hu').
    rewrite (rep_fun _ _ _ _ Hrj0 Hrj) in *. rewrite (rep_fun _ _ _ _ Hrj0' Hrj') in *.
    destruct (tsub_good _ _ _ Hsub HG) as [Hg _]. destruct (tsub_good _ _ _ Hsub' HG) as [Hg' _].
    assert (Et : tj' = tj) by (apply tlang_inj; auto). subst tj'.
    destruct (Hcase j Hj u tj Hsub Hrj Hu) as [[-> Et]|[Hreg Hlt]];
      destruct (Hcase j' Hj' u' tj Hsub' Hrj' Hu') as [[-> Et']|[Hreg' Hlt']]; auto.
    + subst tj. lia.
    + subst tj. lia.
    + exact (HD j j' tj Hreg Hreg' Hrj Hrj').
Qed.

Theorem dawg_minimal : forall ws s, increasing ws -> new_dawg ws = Ok (Some s) ->
  exists L, NoDup L /\ (forall j, In j L <-> reach s root j) /\ length L = minimal_size ws.
Proof.
  intros ws s Hinc H. pose proof (new_dawg_final _ _ Hinc H) as HF.
  destruct (final_root _ _ HF) as (t & HR & _).
  destruct (reach_list s t root HR) as (ks & Hks).
  exists (nodup N.eq_dec ks). split; [apply NoDup_nodup|]. split.
  - intros j. rewrite nodup_In. apply Hks.
  - apply (final_minimal s ws HF); [apply NoDup_nodup|]. intros j. rewrite nodup_In. apply Hks.
Qed.
