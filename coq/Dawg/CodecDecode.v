(* GobDecode on the output of GobEncode: reading the header and the records, in whatever order
   the records come, rebuilds every node at the index of its id with the same id, numWords,
   final flag and labels and with links to the indices of the ids of its link targets. *)
From Coq Require Import List NArith ZArith Bool Lia Arith Sorted Permutation.
From Mamba Require Import Dawg.Model Dawg.CodecModel Dawg.CodecVarint Dawg.CodecWf Dawg.CodecDfs
  Dawg.CodecEncode.
Import ListNotations.
Local Open Scope N_scope.

Lemma int_of_u64_of_int z : (- 2 ^ 63 <= z < 2 ^ 63)%Z -> int_of_u64 (u64_of_int z) = z.
Proof.
  intros Hz. unfold int_of_u64, u64_of_int.
  destruct (Z.neg_nonneg_cases z) as [Hneg | Hpos].
  - replace (z mod 2 ^ 64)%Z with (z + 2 ^ 64)%Z.
    + destruct (N.ltb_spec (Z.to_N (z + 2 ^ 64)) (2 ^ 63)) as [Hlt | Hge].
      * exfalso. apply N2Z.inj_lt in Hlt. rewrite Z2N.id in Hlt by lia.
        change (Z.of_N (2 ^ 63)) with (2 ^ 63)%Z in Hlt. lia.
      * rewrite Z2N.id by lia. lia.
    + apply Z.mod_unique with (q := (-1)%Z); lia.
  - rewrite Z.mod_small by lia.
    destruct (N.ltb_spec (Z.to_N z) (2 ^ 63)) as [Hlt | Hge].
    + rewrite Z2N.id by lia. reflexivity.
    + exfalso. apply N2Z.inj_le in Hge. rewrite Z2N.id in Hge by lia.
      change (Z.of_N (2 ^ 63)) with (2 ^ 63)%Z in Hge. lia.
Qed.

Lemma alloc_frame : forall c s i j, j < i -> sget (alloc s i c) j = sget s j.
Proof.
  induction c as [|c IH]; intros s i j Hj; [reflexivity|]. cbn [alloc].
  rewrite IH by lia. apply sget_sset_neq. lia.
Qed.

Lemma alloc_present : forall c s i j, i <= j -> j < i + N.of_nat c -> sget (alloc s i c) j <> None.
Proof.
  induction c as [|c IH]; intros s i j H1 H2; [lia|]. cbn [alloc].
  destruct (N.eq_dec i j) as [-> | Hne].
  - rewrite alloc_frame by lia. rewrite sget_sset_eq. discriminate.
  - apply IH; lia.
Qed.

Definition set_id (x : N) (n : node) : node := mkNode x (nwords n) (nfinal n) (nlabels n) (nkids n).

Lemma read_ids_spec : forall ids s i r,
  (forall j, (j < length ids)%nat -> sget s (i + N.of_nat j) <> None) ->
  Forall (fun x => x < 2 ^ 64) ids ->
  exists s', read_ids s i (length ids) (flat_map encode_u64 ids ++ r) = DOk (s', r) /\
    (forall j x, nth_error ids j = Some x ->
       exists nd, sget s' (i + N.of_nat j) = Some nd /\ nid nd = x) /\
    (forall j, j < i \/ i + N.of_nat (length ids) <= j -> sget s' j = sget s j).
Proof.
  induction ids as [|x ids IH]; intros s i r Hpres Hids.
  - exists s. split; [reflexivity|]. split; [intros [|j] y Hn; discriminate | reflexivity].
  - inversion Hids as [|? ? Hx Hids']; subst. cbn [length flat_map read_ids].
    rewrite <- app_assoc. rewrite decode_encode_u64 by exact Hx. cbn [dbind].
    pose proof (Hpres O ltac:(cbn; lia)) as H0. rewrite N.add_0_r in H0.
    destruct (sget s i) as [nd|] eqn:Hnd; [|congruence].
    fold (set_id x nd).
    destruct (IH (sset s i (set_id x nd)) (N.succ i) r) as [s' [Hrun [Hnth Hframe]]].
    + intros j Hj. destruct (N.eq_dec i (N.succ i + N.of_nat j)) as [E | Hne]; [lia|].
      rewrite sget_sset_neq by exact Hne.
      replace (N.succ i + N.of_nat j) with (i + N.of_nat (S j)) by lia. apply Hpres. cbn. lia.
    + exact Hids'.
    + exists s'. split; [exact Hrun|]. split.
      * intros [|j] y Hn.
        -- cbn in Hn. injection Hn as <-. rewrite N.add_0_r. rewrite Hframe by lia.
           rewrite sget_sset_eq. exists (set_id x nd). split; reflexivity.
        -- cbn in Hn. destruct (Hnth j y Hn) as [nd' [H1 H2]]. exists nd'.
           replace (i + N.of_nat (S j)) with (N.succ i + N.of_nat j) by lia. split; assumption.
      * intros j Hj. cbn [length] in Hj. rewrite Hframe by lia. apply sget_sset_neq. lia.
Qed.

Lemma strict_le l : StronglySorted N.lt l -> StronglySorted N.le l.
Proof.
  intros H. induction H as [|a l Hs IH Hall]; constructor; [exact IH|].
  rewrite Forall_forall in *. intros x Hx. specialize (Hall x Hx). lia.
Qed.

Section Decode.
Variables (s : store) (d : N) (univ : list N) (h : N -> nat).
Hypothesis Hwf : wf s d univ h.
Variable sorted : list N.
Hypothesis Hstrict : StronglySorted N.lt sorted.
Hypothesis Hmem : forall x, In x sorted <-> exists k, In k univ /\ x = idk s k.

(* the index of the id of node k in the sorted id table: the key of its copy *)
Definition pos (k : N) : N := convert_id sorted (idk s k).

(* the copy of node k *)
Definition tgt (k : N) : node :=
  mkNode (idk s k) (nwords (node_at s k)) (nfinal (node_at s k)) (nlabels (node_at s k))
         (map pos (nkids (node_at s k))).

Lemma pos_lt k : In k univ -> pos k < N.of_nat (length sorted).
Proof.
  intros Hk. unfold pos, convert_id.
  assert (In (idk s k) sorted) by (apply Hmem; exists k; split; [exact Hk | reflexivity]).
  pose proof (lb_strict_lt sorted _ Hstrict H). lia.
Qed.

Lemma pos_nth k : In k univ -> nth_error sorted (N.to_nat (pos k)) = Some (idk s k).
Proof.
  intros Hk. unfold pos, convert_id. rewrite Nat2N.id. apply lb_strict_nth; [exact Hstrict|].
  apply Hmem. exists k. split; [exact Hk | reflexivity].
Qed.

Lemma pos_inj k1 k2 : In k1 univ -> In k2 univ -> pos k1 = pos k2 -> k1 = k2.
Proof.
  intros H1 H2 E. unfold pos, convert_id in E. apply Nat2N.inj in E.
  apply (wf_inj _ _ _ _ Hwf); [exact H1 | exact H2|]. fold (idk s k1) (idk s k2).
  apply (lb_strict_inj sorted); [exact Hstrict | | | exact E]; apply Hmem.
  - exists k1. split; [exact H1 | reflexivity].
  - exists k2. split; [exact H2 | reflexivity].
Qed.

Lemma pos_root : pos d = 0.
Proof.
  unfold pos, convert_id. rewrite lb_min; [reflexivity | |].
  - apply strict_le. exact Hstrict.
  - intros y Hy. apply Hmem in Hy. destruct Hy as [k [Hk ->]]. exact (wf_root_min _ _ _ _ Hwf k Hk).
Qed.

Hypothesis Hlen64 : N.of_nat (length sorted) < 2 ^ 64.

(* every index of a node holds a node with that node's id *)
Definition shape (s' : store) : Prop :=
  forall k, In k univ -> exists nd, sget s' (pos k) = Some nd /\ nid nd = idk s k.

Lemma read_links_spec idx : forall labs kids s1 i w f accl acck r,
  length labs = length kids -> (forall k', In k' kids -> In k' univ) ->
  sget s1 idx = Some (mkNode i w f accl acck) ->
  (forall k', In k' univ -> sget s1 (pos k') <> None) ->
  exists s2, read_links s1 idx (length labs) (emit_links s sorted labs kids ++ r) = DOk (s2, r) /\
    sget s2 idx = Some (mkNode i w f (accl ++ labs) (acck ++ map pos kids)) /\
    (forall j, j <> idx -> sget s2 j = sget s1 j).
Proof.
  induction labs as [|l labs IH]; intros kids s1 i w f accl acck r Hl Hkids Hidx Hpres.
  - destruct kids; [|discriminate]. exists s1. cbn. rewrite !app_nil_r. auto.
  - destruct kids as [|k kids]; [discriminate|]. cbn [length emit_links read_links].
    pose proof (Hkids k (or_introl eq_refl)) as Hk.
    rewrite (wf_sget _ _ _ _ Hwf k Hk). cbn [app read_byte dbind].
    rewrite <- app_assoc. rewrite decode_encode_u64.
    2:{ pose proof (pos_lt k Hk). unfold pos, idk in H. lia. }
    cbn [dbind]. rewrite Hidx. fold (idk s k) (pos k).
    destruct (sget s1 (pos k)) as [nk|] eqn:Hnk; [|exfalso; exact (Hpres k Hk Hnk)].
    cbn [nid nwords nfinal nlabels nkids].
    destruct (IH kids (sset s1 idx (mkNode i w f (accl ++ [l]) (acck ++ [pos k]))) i w f
                 (accl ++ [l]) (acck ++ [pos k]) r) as [s2 [Hrun [Hget Hframe]]].
    + cbn in Hl. lia.
    + intros k' Hk'. apply Hkids. right. exact Hk'.
    + apply sget_sset_eq.
    + intros k' Hk'. destruct (N.eq_dec idx (pos k')) as [<- | Hne].
      * rewrite sget_sset_eq. discriminate.
      * rewrite sget_sset_neq by exact Hne. apply Hpres. exact Hk'.
    + exists s2. split; [exact Hrun|]. split.
      * rewrite Hget. rewrite <- !app_assoc. reflexivity.
      * intros j Hj. rewrite Hframe by exact Hj. apply sget_sset_neq. congruence.
Qed.

Lemma read_record_one s' k c r : shape s' -> In k univ ->
  exists s'', read_records s' (S c) (emit_node s sorted (node_at s k) ++ r) = read_records s'' c r /\
    sget s'' (pos k) = Some (tgt k) /\ (forall j, j <> pos k -> sget s'' j = sget s' j).
Proof.
  intros Hshape Hk. pose proof (wf_node_ok _ _ _ _ Hwf k Hk) as Hok.
  destruct (Hshape k Hk) as [nd [Hnd Hid]].
  cbn [read_records]. unfold emit_node. rewrite <- !app_assoc.
  rewrite decode_encode_u64.
  2:{ pose proof (pos_lt k Hk). unfold pos, idk in H. lia. }
  cbn [dbind]. rewrite decode_encode_u64 by apply u64_of_int_lt. cbn [dbind].
  fold (idk s k) (pos k). rewrite Hnd. cbn [app read_byte dbind].
  rewrite decode_encode_u64 by (rewrite (nk_len _ Hok); exact (nk_deg _ Hok)). cbn [dbind].
  rewrite Nat2N.id.
  destruct (read_links_spec (pos k) (nlabels (node_at s k)) (nkids (node_at s k))
              (sset s' (pos k) (mkNode (nid nd) (int_of_u64 (u64_of_int (nwords (node_at s k))))
                                       (negb ((if nfinal (node_at s k) then 1 else 0) =? 0)) [] []))
              (nid nd) (int_of_u64 (u64_of_int (nwords (node_at s k))))
              (negb ((if nfinal (node_at s k) then 1 else 0) =? 0)) [] [] r)
    as [s2 [Hrun [Hget Hframe]]].
  - exact (nk_len _ Hok).
  - intros k' Hk'. exact (wf_kid_in _ _ _ _ Hwf k k' Hk Hk').
  - apply sget_sset_eq.
  - intros k' Hk'. destruct (N.eq_dec (pos k) (pos k')) as [<- | Hne].
    + rewrite sget_sset_eq. discriminate.
    + rewrite sget_sset_neq by exact Hne. destruct (Hshape k' Hk') as [nd' [E _]]. rewrite E. discriminate.
  - rewrite Hrun. cbn [dbind]. exists s2. split; [reflexivity|]. split.
    + rewrite Hget. cbn [app]. unfold tgt. rewrite Hid.
      rewrite int_of_u64_of_int by exact (nk_words _ Hok).
      destruct (nfinal (node_at s k)); reflexivity.
    + intros j Hj. rewrite Hframe by exact Hj. apply sget_sset_neq. congruence.
Qed.

Lemma read_records_spec : forall order s',
  shape s' -> (forall k, In k order -> In k univ) -> NoDup order ->
  exists s2, read_records s' (length order) (records s sorted order) = DOk s2 /\
    (forall k, In k order -> sget s2 (pos k) = Some (tgt k)) /\
    (forall j, (forall k, In k order -> j <> pos k) -> sget s2 j = sget s' j).
Proof.
  induction order as [|k order IH]; intros s' Hshape Hincl Hnd.
  - exists s'. split; [reflexivity|]. split; [intros k [] | reflexivity].
  - inversion Hnd as [|? ? Hk Hnd']; subst. cbn [length]. unfold records. cbn [flat_map]. fold (records s sorted order).
    destruct (read_record_one s' k (length order) (records s sorted order) Hshape (Hincl k (or_introl eq_refl)))
      as [s'' [Hrun [Hget Hframe]]].
    rewrite Hrun.
    destruct (IH s'') as [s2 [Hrun2 [Hget2 Hframe2]]].
    + intros k' Hk'. destruct (N.eq_dec (pos k') (pos k)) as [E | Hne].
      * rewrite E, Hget. exists (tgt k). split; [reflexivity|].
        apply pos_inj in E; [subst; reflexivity | exact Hk' | apply Hincl; left; reflexivity].
      * rewrite Hframe by exact Hne. exact (Hshape k' Hk').
    + intros k' Hk'. apply Hincl. right. exact Hk'.
    + exact Hnd'.
    + exists s2. split; [exact Hrun2|]. split.
      * intros k' [<- | Hk']; [|apply Hget2; exact Hk'].
        rewrite Hframe2; [exact Hget|]. intros k' Hk' E. apply pos_inj in E.
        -- subst. contradiction.
        -- apply Hincl. left. reflexivity.
        -- apply Hincl. right. exact Hk'.
      * intros j Hj. rewrite Hframe2 by (intros k' Hk'; apply Hj; right; exact Hk').
        apply Hframe. apply Hj. left. reflexivity.
Qed.

Theorem gob_decode_spec t0 order :
  NoDup order -> (forall k, In k univ <-> In k order) -> length sorted = length order ->
  exists s2, gob_decode t0 (gob_header sorted ++ records s sorted order) = DOk s2 /\
    forall k, In k univ -> sget s2 (pos k) = Some (tgt k).
Proof.
  intros Hnd Hall Hlen.
  assert (Hpos : (1 <= length sorted)%nat).
  { rewrite Hlen. pose proof (proj1 (Hall d) (wf_root_in _ _ _ _ Hwf)) as Hd.
    destruct order; [destruct Hd | cbn; lia]. }
  unfold gob_decode, gob_header. rewrite <- !app_assoc.
  rewrite decode_encode_u64 by exact Hlen64. cbn [dbind].
  destruct (N.eqb_spec (N.of_nat (length sorted)) 0) as [E | _]; [lia|].
  rewrite Nat2N.id.
  set (s0 := alloc (sset sempty 0 t0) 1 (length sorted - 1)).
  assert (Hs0 : forall j, (j < length sorted)%nat -> sget s0 (0 + N.of_nat j) <> None).
  { intros j Hj. rewrite N.add_0_l. unfold s0. destruct j as [|j].
    - rewrite alloc_frame by lia. rewrite sget_sset_eq. discriminate.
    - apply alloc_present; lia. }
  destruct (read_ids_spec sorted s0 0 (records s sorted order) Hs0) as [s1 [Hrun1 [Hnth1 _]]].
  { apply Forall_forall. intros x Hx. apply Hmem in Hx. destruct Hx as [k [Hk ->]].
    exact (nk_id _ (wf_node_ok _ _ _ _ Hwf k Hk)). }
  rewrite Hrun1. cbn [dbind].
  assert (Hshape : shape s1).
  { intros k Hk. destruct (Hnth1 _ _ (pos_nth k Hk)) as [nd [H1 H2]].
    rewrite N.add_0_l, N2Nat.id in H1. exists nd. split; assumption. }
  rewrite Hlen.
  destruct (read_records_spec order s1 Hshape) as [s2 [Hrun2 [Hget2 _]]].
  - intros k Hk. apply Hall. exact Hk.
  - exact Hnd.
  - exists s2. split; [exact Hrun2|]. intros k Hk. apply Hget2. apply Hall. exact Hk.
Qed.

End Decode.
