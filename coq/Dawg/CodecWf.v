(* Well-formed automata in the store (what a *Dawg reachable through the exported API is),
   reachability, and the facts about the sorted id slice used by the seen-test of the traversal
   (sort.Search + insertion). *)
From Coq Require Import List NArith ZArith Bool Lia Arith Sorted Permutation FMapPositive.
From Mamba Require Import Dawg.Model Dawg.CodecModel.
Import ListNotations.
Local Open Scope N_scope.

(* ------------------------------------------------------------------ the store *)

Lemma succ_pos_inj i j : N.succ_pos i = N.succ_pos j -> i = j.
Proof.
  intros H. apply (f_equal Npos) in H. rewrite !N.succ_pos_spec in H. lia.
Qed.

Lemma sget_sset_eq s i n : sget (sset s i n) i = Some n.
Proof. unfold sget, sset. apply PositiveMap.gss. Qed.

Lemma sget_sset_neq s i j n : i <> j -> sget (sset s i n) j = sget s j.
Proof.
  intros H. unfold sget, sset. apply PositiveMap.gso. intros E. apply H. symmetry. apply succ_pos_inj. exact E.
Qed.

Lemma sget_sempty i : sget sempty i = None.
Proof. unfold sget, sempty. apply PositiveMap.gempty. Qed.

Definition node_at (s : store) (k : N) : node :=
  match sget s k with Some n => n | None => zero_node end.

Lemma node_at_some s k n : sget s k = Some n -> node_at s k = n.
Proof. unfold node_at. intros ->. reflexivity. Qed.

(* ------------------------------------------------------------------ well-formed automata *)

Inductive reach (s : store) (d : N) : N -> Prop :=
| reach_root : reach s d d
| reach_kid k n k' : reach s d k -> sget s k = Some n -> In k' (nkids n) -> reach s d k'.

(* a node as Go can hold it: as many links as labels, labels are bytes, the id is a uint64,
   numWords an int, and the number of links fits a uint64 (it is a slice length) *)
Record node_ok (n : node) : Prop := {
  nk_len : length (nlabels n) = length (nkids n);
  nk_labels : Forall (fun b => b < 256) (nlabels n);
  nk_id : nid n < 2 ^ 64;
  nk_words : (- 2 ^ 63 <= nwords n < 2 ^ 63)%Z;
  nk_deg : N.of_nat (length (nkids n)) < 2 ^ 64
}.

(* [univ] lists the nodes reachable from [d]; every link leads to a node; the ids are distinct
   and the root has the least of them (GobDecode makes the receiver the node of the first id);
   [h] witnesses that there is no cycle *)
Record wf (s : store) (d : N) (univ : list N) (h : N -> nat) : Prop := {
  wf_univ : forall k, reach s d k <-> In k univ;
  wf_node : forall k, In k univ -> exists n, sget s k = Some n /\ node_ok n;
  wf_inj : forall k1 k2, In k1 univ -> In k2 univ ->
           nid (node_at s k1) = nid (node_at s k2) -> k1 = k2;
  wf_root_min : forall k, In k univ -> nid (node_at s d) <= nid (node_at s k);
  wf_acyclic : forall k k', In k univ -> In k' (nkids (node_at s k)) -> (h k' < h k)%nat;
  wf_count : N.of_nat (length univ) < 2 ^ 64
}.

Definition wf_dawg (s : store) (d : N) : Prop := exists univ h, wf s d univ h.

Section WfFacts.
Variables (s : store) (d : N) (univ : list N) (h : N -> nat).
Hypothesis Hwf : wf s d univ h.

Lemma wf_root_in : In d univ.
Proof. apply (wf_univ _ _ _ _ Hwf). constructor. Qed.

Lemma wf_sget k : In k univ -> sget s k = Some (node_at s k).
Proof.
  intros Hk. destruct (wf_node _ _ _ _ Hwf k Hk) as [n [Hn _]].
  rewrite (node_at_some _ _ _ Hn). exact Hn.
Qed.

Lemma wf_node_ok k : In k univ -> node_ok (node_at s k).
Proof.
  intros Hk. destruct (wf_node _ _ _ _ Hwf k Hk) as [n [Hn Hok]].
  rewrite (node_at_some _ _ _ Hn). exact Hok.
Qed.

Lemma wf_kid_in k k' : In k univ -> In k' (nkids (node_at s k)) -> In k' univ.
Proof.
  intros Hk Hk'. apply (wf_univ _ _ _ _ Hwf).
  apply (reach_kid s d k (node_at s k)); [apply (wf_univ _ _ _ _ Hwf); exact Hk | apply wf_sget; exact Hk | exact Hk'].
Qed.

Lemma wf_h_le k : In k univ -> (h k <= h d)%nat.
Proof.
  intros Hk. apply (wf_univ _ _ _ _ Hwf) in Hk. induction Hk as [|k n k' Hr IH Hn Hin].
  - lia.
  - assert (Hku : In k univ) by (apply (wf_univ _ _ _ _ Hwf); exact Hr).
    pose proof (wf_acyclic _ _ _ _ Hwf k k' Hku) as Hlt.
    rewrite (node_at_some _ _ _ Hn) in Hlt. specialize (Hlt Hin). lia.
Qed.

Lemma wf_kid_not_root k k' : In k univ -> In k' (nkids (node_at s k)) -> k' <> d.
Proof.
  intros Hk Hk' ->. pose proof (wf_acyclic _ _ _ _ Hwf k d Hk Hk'). pose proof (wf_h_le k Hk). lia.
Qed.

End WfFacts.

(* ------------------------------------------------------------------ the sorted id slice *)

Lemma lb_seen l x : StronglySorted N.le l ->
  (seen_at x l (lower_bound x l) = true <-> In x l).
Proof.
  induction l as [|y l IH]; intros Hs.
  - cbn. split; [discriminate | tauto].
  - inversion Hs as [|? ? Hs' Hall]; subst. cbn [lower_bound].
    destruct (N.ltb_spec y x) as [Hlt | Hge].
    + unfold seen_at. cbn [nth_error]. fold (seen_at x l (lower_bound x l)).
      rewrite (IH Hs'). cbn [In]. split; [tauto | intros [E | E]; [lia | exact E]].
    + unfold seen_at. cbn [nth_error]. rewrite N.eqb_eq. cbn [In]. split; [tauto|].
      intros [E | E]; [exact E|]. rewrite Forall_forall in Hall. specialize (Hall x E). lia.
Qed.

Lemma lb_le_length l x : (lower_bound x l <= length l)%nat.
Proof. induction l as [|y l IH]; cbn; [lia|]. destruct (y <? x); cbn; lia. Qed.

Lemma insert_perm l x i : Permutation (insert_at x l i) (x :: l).
Proof.
  unfold insert_at. rewrite <- (firstn_skipn i l) at 3.
  symmetry. apply Permutation_middle.
Qed.

Lemma in_firstn {A} (n : nat) (l : list A) z : In z (firstn n l) -> In z l.
Proof. revert l. induction n; intros l H; [destruct H|]. destruct l; [destruct H|]. destruct H; [left | right]; auto. Qed.

Lemma in_skipn {A} (n : nat) (l : list A) z : In z (skipn n l) -> In z l.
Proof. revert l. induction n; intros l H; [exact H|]. destruct l; [destruct H|]. right. auto. Qed.

Lemma insert_sorted l x : StronglySorted N.le l ->
  StronglySorted N.le (insert_at x l (lower_bound x l)).
Proof.
  unfold insert_at. induction l as [|y l IH]; intros Hs.
  - cbn. constructor; constructor.
  - inversion Hs as [|? ? Hs' Hall]; subst. cbn [lower_bound].
    destruct (N.ltb_spec y x) as [Hlt | Hge].
    + cbn [firstn skipn app]. constructor; [apply IH; exact Hs'|].
      rewrite Forall_forall in *. intros z Hz. apply in_app_or in Hz. destruct Hz as [Hz | [Hz | Hz]].
      * apply Hall. eapply in_firstn. exact Hz.
      * subst. lia.
      * apply Hall. eapply in_skipn. exact Hz.
    + cbn [firstn skipn app]. constructor; [exact Hs|].
      constructor; [exact Hge|]. rewrite Forall_forall in *. intros z Hz. specialize (Hall z Hz). lia.
Qed.

(* a strictly increasing list: sort.Search finds the position of a member *)
Lemma lb_strict_nth l x : StronglySorted N.lt l -> In x l ->
  nth_error l (lower_bound x l) = Some x.
Proof.
  induction l as [|y l IH]; intros Hs Hin; [destruct Hin|].
  inversion Hs as [|? ? Hs' Hall]; subst. cbn [lower_bound].
  destruct (N.ltb_spec y x) as [Hlt | Hge].
  - cbn [nth_error]. apply IH; [exact Hs'|]. destruct Hin as [E | E]; [lia | exact E].
  - cbn [nth_error]. destruct Hin as [E | E]; [congruence|].
    rewrite Forall_forall in Hall. specialize (Hall x E). lia.
Qed.

Lemma lb_strict_lt l x : StronglySorted N.lt l -> In x l -> (lower_bound x l < length l)%nat.
Proof.
  intros Hs Hin. apply nth_error_Some. rewrite (lb_strict_nth l x Hs Hin). discriminate.
Qed.

Lemma lb_strict_inj l x y : StronglySorted N.lt l -> In x l -> In y l ->
  lower_bound x l = lower_bound y l -> x = y.
Proof.
  intros Hs Hx Hy E. pose proof (lb_strict_nth l x Hs Hx) as H1.
  pose proof (lb_strict_nth l y Hs Hy) as H2. rewrite E in H1. congruence.
Qed.

Lemma lb_min l x : StronglySorted N.le l -> (forall y, In y l -> x <= y) -> lower_bound x l = 0%nat.
Proof.
  destruct l as [|y l]; intros Hs Hmin; [reflexivity|]. cbn.
  destruct (N.ltb_spec y x) as [Hlt | Hge]; [|reflexivity].
  specialize (Hmin y (or_introl eq_refl)). lia.
Qed.

(* sorted + no duplicates = strictly sorted *)
Lemma sorted_nodup_strict l : StronglySorted N.le l -> NoDup l -> StronglySorted N.lt l.
Proof.
  induction l as [|y l IH]; intros Hs Hn; [constructor|].
  inversion Hs as [|? ? Hs' Hall]; subst. inversion Hn as [|? ? Hni Hn']; subst.
  constructor; [apply IH; assumption|]. rewrite Forall_forall in *. intros z Hz.
  specialize (Hall z Hz). assert (z <> y) by (intros ->; contradiction). lia.
Qed.
