(* The automata made by the builder (C12's theorems, imported read-only) are in the domain of
   the C14 theorems: [new_dawg ws = Ok (Some s)] for a strictly increasing list of byte strings
   gives [wf_dawg s root], provided the keys of the store fit a uint64 and there are fewer than
   2^63 words. *)
From Coq Require Import List NArith ZArith Bool Lia Arith Sorted.
From Mamba Require Import Dawg.Model Dawg.Tree Dawg.Spec Dawg.TreeFacts Dawg.LangStore
  Dawg.BuildIds Dawg.MinimalStore Dawg.LangWords Dawg.CodecModel Dawg.CodecWf.
Import ListNotations.
Local Open Scope N_scope.

(* ------------------------------------------------------------------ the two reachabilities *)

Lemma wf_reach_trans s a b c : CodecWf.reach s a b -> CodecWf.reach s b c -> CodecWf.reach s a c.
Proof.
  intros Hab Hbc. induction Hbc as [|k n k' _ IH Hn Hin]; [exact Hab|].
  exact (reach_kid s a k n k' IH Hn Hin).
Qed.

Lemma reach_spec_wf s d k : Spec.reach s d k -> CodecWf.reach s d k.
Proof.
  induction 1 as [i|i n k j Hn Hk _ IH]; [constructor|].
  apply (wf_reach_trans s i k j); [|exact IH].
  exact (reach_kid s i i n k (reach_root s i) Hn Hk).
Qed.

Lemma spec_reach_snoc s d k : Spec.reach s d k -> forall n k', sget s k = Some n -> In k' (nkids n) ->
  Spec.reach s d k'.
Proof.
  induction 1 as [i|i n0 k0 j Hn0 Hk0 _ IH]; intros n k' Hn Hk'.
  - exact (reach_step s i n k' k' Hn Hk' (reach_refl s k')).
  - exact (reach_step s i n0 k0 k' Hn0 Hk0 (IH n k' Hn Hk')).
Qed.

Lemma reach_wf_spec s d k : CodecWf.reach s d k -> Spec.reach s d k.
Proof.
  induction 1 as [|k n k' _ IH Hn Hin]; [constructor|]. exact (spec_reach_snoc s d k IH n k' Hn Hin).
Qed.

(* ------------------------------------------------------------------ properties inherited by subtrees *)

Lemma Forall2_in_l {A B} (R : A -> B -> Prop) l1 l2 a : Forall2 R l1 l2 -> In a l1 -> exists b, In b l2 /\ R a b.
Proof.
  induction 1 as [|x y l1 l2 Hxy _ IH]; intros Hin; [destruct Hin|].
  destruct Hin as [<- | Hin]; [exists y; split; [left; reflexivity | exact Hxy]|].
  destruct (IH Hin) as [b [Hb Hr]]. exists b. split; [right; exact Hb | exact Hr].
Qed.

Lemma rep_kid s i t n k : rep s i t -> sget s i = Some n -> In k (nkids n) ->
  exists c tk, In (c, tk) (tch t) /\ rep s k tk.
Proof.
  intros HR Hn Hk. destruct (rep_fields _ _ _ HR) as (n' & Hn' & _ & _ & _ & Hkids).
  rewrite Hn in Hn'. injection Hn' as <-.
  destruct (Forall2_in_l _ _ _ _ Hkids Hk) as [tk [Htk Hrk]].
  apply in_map_iff in Htk. destruct Htk as [[c tk'] [E Hin]]. cbn in E. subst tk'.
  exists c, tk. split; assumption.
Qed.

Section Inherit.
Variable Q : tree -> Prop.
Hypothesis Qch : forall t c t', Q t -> In (c, t') (tch t) -> Q t'.

Lemma reach_inherit s i j : Spec.reach s i j -> forall t, rep s i t -> Q t -> exists tj, rep s j tj /\ Q tj.
Proof.
  induction 1 as [i|i n k j Hn Hk _ IH]; intros t HR HQ; [eauto|].
  destruct (rep_kid s i t n k HR Hn Hk) as [c [tk [Hin Hrk]]].
  exact (IH tk Hrk (Qch t c tk HQ Hin)).
Qed.
End Inherit.

Lemma tlang_child f nw ch c t' w : In (c, t') ch -> In w (tlang t') -> In (c :: w) (tlang (Node f nw ch)).
Proof.
  intros Hin Hw. rewrite tlang_node. apply in_or_app. right. apply in_flat_map.
  exists (c, t'). split; [exact Hin|]. cbn [fst snd]. apply in_map. exact Hw.
Qed.

Lemma tlang_child_length f nw ch c t' : In (c, t') ch -> (length (tlang t') <= length (tlang (Node f nw ch)))%nat.
Proof.
  intros Hin. rewrite tlang_node, app_length. apply in_split in Hin. destruct Hin as [l1 [l2 ->]].
  rewrite flat_map_app. cbn [flat_map fst snd]. rewrite !app_length, map_length. unfold word, byte in *. lia.
Qed.

(* what the theorems need of a tree, with a bound H on the height *)
Definition fits (H : nat) (t : tree) : Prop :=
  good t /\ (forall w, In w (tlang t) -> Forall (fun b => b < 256) w) /\
  (Z.of_nat (length (tlang t)) < 2 ^ 63)%Z /\ (theight t <= H)%nat.

Lemma fits_child H t c t' : fits H t -> In (c, t') (tch t) -> fits H t'.
Proof.
  destruct t as [f nw ch]. cbn [tch]. intros (Hg & Hb & Hc & Hh) Hin.
  pose proof (good_children _ _ _ Hg) as Hgc. rewrite Forall_forall in Hgc.
  destruct (Hgc (c, t') Hin) as [Hg' _]. split; [exact Hg'|]. split; [|split].
  - intros w Hw. pose proof (Hb (c :: w) (tlang_child f nw ch c t' w Hin Hw)) as HF.
    inversion HF; assumption.
  - pose proof (tlang_child_length f nw ch c t' Hin). lia.
  - pose proof (theight_child f nw ch c t' Hin). lia.
Qed.

Lemma sorted_bytes_length : forall l a, StronglySorted N.lt l -> Forall (fun x => a <= x < 256) l ->
  N.of_nat (length l) <= 256 - a.
Proof.
  induction l as [|x l IH]; intros a Hs Hb; [cbn; lia|].
  inversion Hs as [|? ? Hs' Hall]; subst. inversion Hb as [|? ? Hx Hb']; subst.
  assert (H1 : Forall (fun y => N.succ x <= y < 256) l).
  { rewrite Forall_forall in *. intros y Hy. specialize (Hall y Hy). specialize (Hb' y Hy). lia. }
  specialize (IH (N.succ x) Hs' H1). cbn [length]. lia.
Qed.

Lemma fits_node_ok H s j t n : fits H t -> rep s j t -> sget s j = Some n -> nid n < 2 ^ 64 -> node_ok n.
Proof.
  destruct t as [f nw ch]. intros (Hg & Hb & Hc & _) HR Hn Hid.
  destruct (rep_inv _ _ _ _ _ HR) as (n' & Hn' & _ & Hw & Hl & Hk). rewrite Hn in Hn'. injection Hn' as <-.
  pose proof (good_children _ _ _ Hg) as Hgc. rewrite Forall_forall in Hgc.
  destruct Hg as (Hco & Hls & _).
  assert (Hlab : Forall (fun b => b < 256) (nlabels n)).
  { rewrite Hl. apply Forall_forall. intros c Hc'. apply in_map_iff in Hc'. destruct Hc' as [[c' t'] [E Hin]].
    cbn in E. subst c'. destruct (Hgc (c, t') Hin) as [_ Hne]. cbn [snd] in Hne.
    destruct (tlang t') as [|w ws] eqn:El; [congruence|].
    pose proof (Hb (c :: w) (tlang_child f nw ch c t' w Hin ltac:(rewrite El; left; reflexivity))) as HF.
    inversion HF; assumption. }
  assert (Hlen : length (nlabels n) = length (nkids n)).
  { rewrite Hl, map_length. apply Forall2_length' in Hk. rewrite map_length in Hk. symmetry. exact Hk. }
  constructor.
  - exact Hlen.
  - exact Hlab.
  - exact Hid.
  - rewrite Hw. destruct (counts_ok_inv _ _ _ Hco) as [E _]. rewrite E. unfold tcount. lia.
  - rewrite <- Hlen. destruct (labels_sorted_inv _ _ _ Hls) as [Hss _]. rewrite <- Hl in Hss.
    pose proof (sorted_bytes_length (nlabels n) 0 Hss) as Hle.
    assert (N.of_nat (length (nlabels n)) <= 256 - 0).
    { apply Hle. rewrite Forall_forall in *. intros x Hx. specialize (Hlab x Hx). lia. }
    lia.
Qed.

(* ------------------------------------------------------------------ a height function on keys *)

Fixpoint height_of (fuel : nat) (s : store) (k : N) : nat :=
  match fuel with
  | O => O
  | S f =>
    match sget s k with
    | None => O
    | Some n => S (fold_right (fun k' m => Nat.max (height_of f s k') m) O (nkids n))
    end
  end.

Lemma height_of_rep : forall fuel s k t, rep s k t -> (theight t <= fuel)%nat -> height_of fuel s k = theight t.
Proof.
  induction fuel as [|fuel IH]; intros s k t HR Hh; [pose proof (theight_pos t); lia|].
  destruct t as [f nw ch]. destruct (rep_inv _ _ _ _ _ HR) as (n & Hn & _ & _ & _ & Hk).
  cbn [height_of]. rewrite Hn. cbn [theight]. f_equal.
  assert (Hch : forall c t', In (c, t') ch -> (theight t' <= fuel)%nat).
  { intros c t' Hin. pose proof (theight_child f nw ch c t' Hin). lia. }
  clear Hh HR Hn. revert Hk Hch. generalize (nkids n) as kids. induction ch as [|[c t'] ch IHc]; intros kids Hk Hch.
  - inversion Hk. reflexivity.
  - cbn [map snd] in Hk. inversion Hk as [|k0 ? kids' ? Hr0 Hk']; subst. cbn [fold_right snd].
    rewrite (IH s k0 t' Hr0 (Hch c t' (or_introl eq_refl))).
    rewrite (IHc kids' Hk'); [reflexivity|]. intros c1 t1 Hin. apply (Hch c1 t1). right. exact Hin.
Qed.

(* ------------------------------------------------------------------ finitely many distinct keys *)

Lemma nodup_bounded_length (l : list N) (b : N) : NoDup l -> (forall x, In x l -> x < b) -> N.of_nat (length l) <= b.
Proof.
  intros Hn Hb.
  assert (H : (length (map N.to_nat l) <= length (seq 0 (N.to_nat b)))%nat).
  { apply NoDup_incl_length.
    - clear Hb. induction Hn as [|x l Hx Hn IH]; cbn; constructor; [|exact IH].
      intros Hin. apply in_map_iff in Hin. destruct Hin as [y [E Hy]]. apply N2Nat.inj in E. subst. contradiction.
    - intros y Hy. apply in_map_iff in Hy. destruct Hy as [x [<- Hx]]. apply in_seq. specialize (Hb x Hx). lia. }
  rewrite map_length, seq_length in H. lia.
Qed.

(* ------------------------------------------------------------------ the theorem *)

Theorem built_wf : forall ws s,
  increasing ws -> Forall (Forall (fun b => b < 256)) ws -> (Z.of_nat (length ws) < 2 ^ 63)%Z ->
  new_dawg ws = Ok (Some s) ->
  (forall i n, sget s i = Some n -> i < 2 ^ 64 - 1) ->
  wf_dawg s root.
Proof.
  intros ws s Hinc Hbytes Hcount Hnew Hkeys.
  pose proof (new_dawg_ids ws s Hnew) as Hids.
  destruct (final_root _ _ (new_dawg_final _ _ Hinc Hnew)) as (t & HR & HG & HL).
  set (H := theight t).
  assert (Hfit : fits H t).
  { split; [exact HG|]. split; [|split; [rewrite HL; exact Hcount | unfold H; lia]].
    intros w Hw. rewrite HL in Hw. rewrite Forall_forall in Hbytes. exact (Hbytes w Hw). }
  destruct (reach_list s t root HR) as [ks Hks].
  assert (Hreach : forall j, CodecWf.reach s root j -> exists tj, rep s j tj /\ fits H tj).
  { intros j Hj. apply reach_wf_spec in Hj. exact (reach_inherit (fits H) (fits_child H) s root j Hj t HR Hfit). }
  set (univ := nodup N.eq_dec ks).
  assert (Huniv : forall k, CodecWf.reach s root k <-> In k univ).
  { intros k. unfold univ. rewrite nodup_In, Hks. split; [apply reach_wf_spec | apply reach_spec_wf]. }
  exists univ, (height_of H s). constructor.
  - exact Huniv.
  - intros k Hk. apply Huniv in Hk. destruct (Hreach k Hk) as [tk [Hrk Hfk]].
    destruct (rep_fields _ _ _ Hrk) as (n & Hn & _). exists n. split; [exact Hn|].
    apply (fits_node_ok H s k tk n Hfk Hrk Hn). rewrite (Hids k n Hn). pose proof (Hkeys k n Hn). lia.
  - intros k1 k2 H1 H2 E. apply Huniv in H1, H2.
    destruct (Hreach k1 H1) as [t1 [Hr1 _]]. destruct (Hreach k2 H2) as [t2 [Hr2 _]].
    destruct (rep_fields _ _ _ Hr1) as (n1 & Hn1 & _). destruct (rep_fields _ _ _ Hr2) as (n2 & Hn2 & _).
    rewrite (node_at_some _ _ _ Hn1), (node_at_some _ _ _ Hn2) in E.
    rewrite (Hids k1 n1 Hn1), (Hids k2 n2 Hn2) in E. exact E.
  - intros k Hk. destruct (rep_fields _ _ _ HR) as (n0 & Hn0 & _).
    rewrite (node_at_some _ _ _ Hn0), (Hids root n0 Hn0). unfold root. lia.
  - intros k k' Hk Hk'. apply Huniv in Hk. destruct (Hreach k Hk) as [tk [Hrk Hfk]].
    destruct (rep_fields _ _ _ Hrk) as (n & Hn & _). rewrite (node_at_some _ _ _ Hn) in Hk'.
    destruct (rep_kid s k tk n k' Hrk Hn Hk') as [c [tk' [Hin Hrk']]].
    pose proof (fits_child H tk c tk' Hfk Hin) as Hfk'.
    rewrite (height_of_rep H s k tk Hrk (proj2 (proj2 (proj2 Hfk)))).
    rewrite (height_of_rep H s k' tk' Hrk' (proj2 (proj2 (proj2 Hfk')))).
    destruct tk as [f nw ch]. exact (theight_child f nw ch c tk' Hin).
  - assert (N.of_nat (length univ) <= 2 ^ 64 - 1); [|lia].
    apply nodup_bounded_length; [apply NoDup_nodup|].
    intros k Hk. apply Huniv in Hk. destruct (Hreach k Hk) as [tk [Hrk _]].
    destruct (rep_fields _ _ _ Hrk) as (n & Hn & _). exact (Hkeys k n Hn).
Qed.

(* with the bound on the keys that the builder guarantees (ids are handed out one per letter) *)
Theorem built_wf_letters : forall ws s,
  increasing ws -> Forall (Forall (fun b => b < 256)) ws -> (Z.of_nat (length ws) < 2 ^ 63)%Z ->
  total_letters ws < 2 ^ 64 - 1 ->
  new_dawg ws = Ok (Some s) ->
  wf_dawg s root.
Proof.
  intros ws s H1 H2 H3 H4 H5. apply (built_wf ws s H1 H2 H3 H5).
  intros i n Hn. pose proof (new_dawg_keys_bound ws s H5 i n Hn). lia.
Qed.

(* a computable test of the bound on the keys of a concrete store *)
Definition keys_checkb (s : store) (b : N) : bool :=
  forallb (fun pe => Pos.pred_N (fst pe) <? b) (FMapPositive.PositiveMap.elements s).

Lemma keys_checkb_sound s b : keys_checkb s b = true -> forall i n, sget s i = Some n -> i < b.
Proof.
  unfold keys_checkb, sget. intros H i n Hn.
  apply FMapPositive.PositiveMap.elements_correct in Hn.
  rewrite forallb_forall in H. specialize (H _ Hn). cbn [fst] in H.
  rewrite N.pos_pred_succ in H. apply N.ltb_lt. exact H.
Qed.
