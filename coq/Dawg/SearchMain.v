(* C13: the end-to-end statement, spelled out without auxiliary list functions. *)
From Coq Require Import List NArith ZArith Bool Lia Sorted.
From Mamba Require Import Dawg.Model Dawg.Tree Dawg.Spec Dawg.SearchModel Dawg.SearchSpec.
From Mamba Require Import Dawg.SearchProofs Dawg.SearchConcrete Dawg.SearchWf.
Import ListNotations.

Theorem search_full : forall s d t, dawg_wf s d t ->
  forall sps xs, Forall2 built sps xs ->
  forall fuel, (search_fuel t <= fuel)%nat ->
  exists res xs1 xs2,
    search_c fuel s d xs = Ok (res, xs1) /\
    search_c fuel s d xs1 = Ok (res, xs2) /\
    Forall2 s_equiv xs1 xs /\ Forall2 s_equiv xs2 xs /\
    StronglySorted lex_lt (map fst res) /\
    forall w r, In (w, r) res <->
      (Forall (fun sp => spec_matches sp w) sps /\
       rank_of w (tlang t) = Some (Z.to_nat r) /\ (0 <= r)%Z).
Proof.
  intros s d t Hwf sps xs Hb fuel Hfuel.
  destruct (search_concrete s d t Hwf sps xs Hb fuel Hfuel)
    as [res [xs1 [xs2 [H1 [H2 [He1 [He2 [keep [Hres Hkeep]]]]]]]]].
  exists res, xs1, xs2. split; [exact H1|]. split; [exact H2|]. split; [exact He1|]. split; [exact He2|].
  destruct Hwf as [_ [_ Hls]].
  destruct (expected_spec keep (tlang t) (tlang_sorted t Hls)) as [Hs Hin]. subst res.
  split; [exact Hs|]. intros w r. rewrite Hin, Hkeep. reflexivity.
Qed.

(* the abstract statement with the meaning of the expected list spelled out *)
Theorem search_abstract_full : forall {X} (ops : searcher_ops X) (E : X -> X -> Prop),
  contract ops E ->
  forall s d t, dawg_wf s d t ->
  forall xs, Forall2 E xs xs ->
  forall fuel, (search_fuel t <= fuel)%nat ->
  exists res xs1 xs2,
    search ops fuel s d xs = Ok (res, xs1) /\
    search ops fuel s d xs1 = Ok (res, xs2) /\
    Forall2 E xs1 xs /\ Forall2 E xs2 xs /\
    StronglySorted lex_lt (map fst res) /\
    forall w r, In (w, r) res <->
      (Forall (fun x => accepts ops x w = Ok true) xs /\
       rank_of w (tlang t) = Some (Z.to_nat r) /\ (0 <= r)%Z).
Proof.
  intros X ops E C s d t Hwf xs Hxs fuel Hfuel.
  destruct (search_twice ops E C s d t Hwf xs Hxs fuel Hfuel) as [xs1 [xs2 [H1 [H2 [He1 He2]]]]].
  exists (expected (accall ops xs) (tlang t)), xs1, xs2.
  split; [exact H1|]. split; [exact H2|]. split; [exact He1|]. split; [exact He2|].
  destruct Hwf as [_ [_ Hls]].
  destruct (expected_spec (accall ops xs) (tlang t) (tlang_sorted t Hls)) as [Hs Hin].
  split; [exact Hs|]. intros w r. rewrite Hin.
  assert (Hacc : accall ops xs w = true <-> Forall (fun x => accepts ops x w = Ok true) xs).
  { unfold accall. rewrite forallb_forall, Forall_forall. unfold acc.
    split; intros H x Hx; specialize (H x Hx).
    - destruct (accepts ops x w) as [[|]| |]; try discriminate. reflexivity.
    - rewrite H. reflexivity. }
  rewrite Hacc. reflexivity.
Qed.

(* ------------------------------------------------------------------ the example of Props/C13.v *)
(* a=97 b=98 o=111 p=112 s=115 t=116 ?=63 *)
Definition ex_words : list word :=
  [[]; [97]; [97; 97]; [97; 98]; [98]; [116; 97; 112]; [116; 97; 112; 115]; [116; 111; 112];
   [116; 111; 112; 115]]%N.
Definition ex_store : store := match new_dawg ex_words with Ok (Some s) => s | _ => sempty end.
Definition ex_tree : tree := match check_wf 6 ex_store root with Some t => t | None => Node false 0 [] end.

