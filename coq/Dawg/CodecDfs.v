(* The iterative traversal shared by numberOfNodes and GobEncode ([dfs_loop] of Model.v), on a
   well-formed automaton: it ends, never panics, meets every reachable node exactly once (the
   root first), and the sorted id slice it leaves holds exactly the ids met.

   The Go loop pushes a link target *before* it tests whether the target was seen, and goes on
   with the next link when it was; the entries of seen nodes therefore stay on the stack, are
   given the link index of their predecessor, and are rescanned later.  The proof separates
   the stack entries into the active ones (nodes being explored: a path of strictly decreasing
   height) and entries of finished nodes, all of whose descendants are seen, so that rescanning
   them meets nothing new; termination is by the number of unseen nodes and then a weight of
   the stack in which an entry of a node of height h with r links left counts (r+1) C^h. *)
From Coq Require Import List NArith ZArith Bool Lia Arith Sorted Permutation.
From Mamba Require Import Dawg.Model Dawg.CodecModel Dawg.CodecWf.
Import ListNotations.
Local Open Scope N_scope.

(* ------------------------------------------------------------------ one turn of the loop *)

Inductive step_result :=
| Done (st : dfs_state)
| Continue (st : dfs_state).

Definition dfs_step (emit : node -> list byte) (s : store) (st : dfs_state) : res step_result :=
  match dstack st with
  | [] => Panic
  | (cur, next) :: _ =>
    do n <- deref s cur;
    do r <- dfs_inner emit s next (skipn next (nlabels n)) (skipn next (nkids n)) st;
    match r with
    | Descend st' => Ok (Continue st')
    | Exhausted st' =>
      match dstack st' with
      | [] => Panic
      | [_] => Ok (Done (mkDfs [] (dnodes st') (dedges st') (dout st')))
      | _ :: rest => Ok (Continue (mkDfs rest (dnodes st') (dedges st') (dout st')))
      end
    end
  end.

Lemma dfs_loop_S emit f s st :
  dfs_loop emit (S f) s st =
  do r <- dfs_step emit s st;
  match r with Done st' => Ok st' | Continue st' => dfs_loop emit f s st' end.
Proof.
  cbn [dfs_loop]. unfold dfs_step. destruct (dstack st) as [|[cur next] rest]; [reflexivity|].
  destruct (deref s cur) as [n| |]; cbn [bind]; try reflexivity.
  destruct (dfs_inner emit s next (skipn next (nlabels n)) (skipn next (nkids n)) st) as [[st'|st']| |];
    cbn [bind]; try reflexivity.
  destruct (dstack st') as [|e [|e' r']]; reflexivity.
Qed.

(* more fuel does not change a result *)
Lemma dfs_loop_mono emit s : forall f st r, dfs_loop emit f s st = Ok r ->
  forall f', (f <= f')%nat -> dfs_loop emit f' s st = Ok r.
Proof.
  induction f as [|f IH]; intros st r H f' Hle; [discriminate|].
  destruct f' as [|f']; [lia|]. rewrite dfs_loop_S in *.
  destruct (dfs_step emit s st) as [[st'|st']| |]; cbn [bind] in *; try discriminate.
  - exact H.
  - apply IH with (f' := f') in H; [exact H | lia].
Qed.

(* ------------------------------------------------------------------ the inner loop *)

Definition with_stack (st : dfs_state) (stk : list (N * nat)) : dfs_state :=
  mkDfs stk (dnodes st) (dedges st) (dout st).

(* what scanning links to seen nodes does to the stack *)
Fixpoint push_seen (j : nat) (kids : list N) (stack : list (N * nat)) : list (N * nat) :=
  match kids with
  | [] => stack
  | k :: kids' => push_seen (S j) kids' ((k, O) :: set_top_next stack (S j))
  end.

Lemma push_seen_app : forall pre j x stack,
  push_seen j (pre ++ [x]) stack = (x, O) :: set_top_next (push_seen j pre stack) (S (j + length pre)).
Proof.
  induction pre as [|p pre IH]; intros j x stack; cbn [app push_seen length].
  - rewrite Nat.add_0_r. reflexivity.
  - rewrite IH. replace (S j + length pre)%nat with (j + S (length pre))%nat by lia. reflexivity.
Qed.

Lemma inner_all_seen emit s : forall kids labs j st,
  length labs = length kids -> dstack st <> [] -> StronglySorted N.le (dnodes st) ->
  (forall k, In k kids -> sget s k <> None /\ In (nid (node_at s k)) (dnodes st)) ->
  dfs_inner emit s j labs kids st = Ok (Exhausted (with_stack st (push_seen j kids (dstack st)))).
Proof.
  induction kids as [|k kids IH]; intros labs j st Hlen Hne Hs Hall.
  - destruct labs; [|discriminate]. destruct st; reflexivity.
  - destruct labs as [|l labs]; [discriminate|]. cbn [dfs_inner].
    destruct (dstack st) as [|e es] eqn:Hst; [congruence|].
    destruct (Hall k (or_introl eq_refl)) as [Hsome Hseen].
    unfold deref. destruct (sget s k) as [nk|] eqn:Hk; [|congruence]. cbn [bind].
    rewrite (node_at_some _ _ _ Hk) in Hseen.
    apply (lb_seen _ _ Hs) in Hseen. rewrite Hseen.
    rewrite IH.
    + unfold with_stack. cbn [dstack dnodes dedges dout push_seen]. reflexivity.
    + cbn in Hlen. lia.
    + cbn. discriminate.
    + exact Hs.
    + intros k' Hk'. apply Hall. right. exact Hk'.
Qed.

Lemma inner_descend emit s : forall pre labs j st x post,
  length labs = length (pre ++ x :: post) -> dstack st <> [] -> StronglySorted N.le (dnodes st) ->
  (forall k, In k pre -> sget s k <> None /\ In (nid (node_at s k)) (dnodes st)) ->
  sget s x <> None -> ~ In (nid (node_at s x)) (dnodes st) ->
  dfs_inner emit s j labs (pre ++ x :: post) st =
  Ok (Descend (mkDfs (push_seen j (pre ++ [x]) (dstack st))
                     (insert_at (nid (node_at s x)) (dnodes st) (lower_bound (nid (node_at s x)) (dnodes st)))
                     (dedges st + Z.of_nat (length (nkids (node_at s x))))
                     (dout st ++ emit (node_at s x)))).
Proof.
  induction pre as [|k pre IH]; intros labs j st x post Hlen Hne Hs Hall Hx Hunseen.
  - cbn [app] in *. destruct labs as [|l labs]; [discriminate|]. cbn [dfs_inner].
    destruct (dstack st) as [|e es] eqn:Hst; [congruence|].
    unfold deref. destruct (sget s x) as [nx|] eqn:Hk; [|congruence]. cbn [bind].
    rewrite (node_at_some _ _ _ Hk) in *.
    destruct (seen_at (nid nx) (dnodes st) (lower_bound (nid nx) (dnodes st))) eqn:Hseen.
    + apply (lb_seen _ _ Hs) in Hseen. contradiction.
    + reflexivity.
  - cbn [app] in *. destruct labs as [|l labs]; [discriminate|]. cbn [dfs_inner].
    destruct (dstack st) as [|e es] eqn:Hst; [congruence|].
    destruct (Hall k (or_introl eq_refl)) as [Hsome Hseen].
    unfold deref. destruct (sget s k) as [nk|] eqn:Hk; [|congruence]. cbn [bind].
    rewrite (node_at_some _ _ _ Hk) in Hseen.
    apply (lb_seen _ _ Hs) in Hseen. rewrite Hseen.
    rewrite IH.
    + cbn [dstack dnodes dedges dout push_seen]. reflexivity.
    + cbn in Hlen. cbn. lia.
    + cbn. discriminate.
    + exact Hs.
    + intros k' Hk'. apply Hall. right. exact Hk'.
    + exact Hx.
    + exact Hunseen.
Qed.

(* a list splits at its first element without a decidable property *)
Lemma first_failing {A} (P : A -> Prop) (dec : forall a, {P a} + {~ P a}) (l : list A) :
  (forall a, In a l -> P a) \/
  exists pre x post, l = pre ++ x :: post /\ (forall a, In a pre -> P a) /\ ~ P x.
Proof.
  induction l as [|a l IH]; [left; intros ? []|].
  destruct (dec a) as [Ha | Ha].
  - destruct IH as [IH | [pre [x [post [E [Hp Hx]]]]]].
    + left. intros b [<- | Hb]; auto.
    + right. exists (a :: pre), x, post. split; [rewrite E; reflexivity|]. split; [|exact Hx].
      intros b [<- | Hb]; auto.
  - right. exists [], a, l. split; [reflexivity|]. split; [intros ? []|exact Ha].
Qed.

Lemma NoDup_app_single {A} (l : list A) x : NoDup l -> ~ In x l -> NoDup (l ++ [x]).
Proof.
  intros Hn Hx. induction Hn as [|y l Hy Hn IH]; cbn; [constructor; [intros []|constructor]|].
  constructor.
  - intros Hin. apply in_app_or in Hin. destruct Hin as [Hin | [<- | []]]; [contradiction|].
    apply Hx. left. reflexivity.
  - apply IH. intros Hin. apply Hx. right. exact Hin.
Qed.

Lemma skipn_nil_length {A} n (l : list A) : skipn n l = [] -> (length l <= n)%nat.
Proof. intros H. pose proof (skipn_length n l) as E. rewrite H in E. cbn in E. lia. Qed.

Lemma nth_error_skipn_hd {A} n (l : list A) x r : skipn n l = x :: r -> nth_error l n = Some x.
Proof.
  revert l. induction n; intros l H; destruct l; try discriminate.
  - cbn in H. injection H as -> _. reflexivity.
  - cbn in *. apply IHn. exact H.
Qed.

(* ------------------------------------------------------------------ the invariant *)

Section Dfs.
Variables (s : store) (d : N) (univ : list N) (h : N -> nat).
Hypothesis Hwf : wf s d univ h.
Variable emit : node -> list byte.
(* the id slice and the output the traversal starts from; the slice holds no id of a node
   other than the root (it is [id of the root] in numberOfNodes and numNodes zeros in
   GobEncode) *)
Variables (base : list N) (out0 : list byte).
Hypothesis Hbase : forall k, In k univ -> k <> d -> ~ In (nid (node_at s k)) base.

Definition idk (k : N) : N := nid (node_at s k).
Definition emitk (k : N) : list byte := emit (node_at s k).
Definition kidsk (k : N) : list N := nkids (node_at s k).

(* the links of k before position nx lead to seen nodes *)
Definition prefix_seen (vis : list N) (k : N) (nx : nat) : Prop :=
  forall i k', (i < nx)%nat -> nth_error (kidsk k) i = Some k' -> In k' vis.

(* the stack, top first, against the list of active nodes, top first: an entry is either the
   one entry of an active node or an entry of a finished node *)
Inductive stack_ok (vis act : list N) : list (N * nat) -> list N -> Prop :=
| so_nil : stack_ok vis act [] []
| so_done k nx st a : In k vis -> ~ In k act -> stack_ok vis act st a ->
    stack_ok vis act ((k, nx) :: st) a
| so_act k nx st a : In k act -> prefix_seen vis k nx -> stack_ok vis act st a ->
    stack_ok vis act ((k, nx) :: st) (k :: a).

Definition hlt (a b : N) : Prop := (h a < h b)%nat.

(* [vtl]: the nodes met after the root, in the order met; [act]: the active nodes *)
Record inv (st : dfs_state) (vtl act : list N) : Prop := {
  inv_sorted : StronglySorted N.le (dnodes st);
  inv_perm : Permutation (dnodes st) (base ++ map idk vtl);
  inv_univ : forall k, In k vtl -> In k univ /\ k <> d;
  inv_nodup : NoDup vtl;
  inv_out : dout st = out0 ++ flat_map emitk vtl;
  inv_act_vis : forall k, In k act -> In k (d :: vtl);
  inv_act_sorted : StronglySorted hlt act;
  inv_closed : forall k k', In k (d :: vtl) -> ~ In k act -> In k' (kidsk k) ->
               In k' (d :: vtl) /\ ~ In k' act;
  inv_stack : stack_ok (d :: vtl) act (dstack st) act
}.

Definition final (st : dfs_state) (vtl : list N) : Prop :=
  StronglySorted N.le (dnodes st) /\ Permutation (dnodes st) (base ++ map idk vtl) /\
  NoDup vtl /\ ~ In d vtl /\ (forall k, In k univ <-> In k (d :: vtl)) /\
  dout st = out0 ++ flat_map emitk vtl.

Lemma vis_univ st vtl act k : inv st vtl act -> In k (d :: vtl) -> In k univ.
Proof.
  intros Hi [<- | Hk]; [exact (wf_root_in _ _ _ _ Hwf) | apply (inv_univ _ _ _ Hi k Hk)].
Qed.

Lemma inv_seen st vtl act k : inv st vtl act -> In k univ -> k <> d ->
  (In (idk k) (dnodes st) <-> In k vtl).
Proof.
  intros Hi Hk Hkd. split.
  - intros Hin. apply (Permutation_in _ (inv_perm _ _ _ Hi)) in Hin.
    apply in_app_or in Hin. destruct Hin as [Hin | Hin]; [exfalso; exact (Hbase k Hk Hkd Hin)|].
    apply in_map_iff in Hin. destruct Hin as [k' [E Hk']].
    assert (k' = k) as <-; [|exact Hk'].
    apply (wf_inj _ _ _ _ Hwf); [apply (inv_univ _ _ _ Hi k' Hk') | exact Hk | exact E].
  - intros Hin. apply (Permutation_in _ (Permutation_sym (inv_perm _ _ _ Hi))).
    apply in_or_app. right. apply in_map. exact Hin.
Qed.

Lemma kid_univ k x : In k univ -> In x (kidsk k) -> In x univ.
Proof. apply (wf_kid_in _ _ _ _ Hwf). Qed.

Lemma kid_not_root k x : In k univ -> In x (kidsk k) -> x <> d.
Proof. apply (wf_kid_not_root _ _ _ _ Hwf). Qed.

Lemma kid_h k x : In k univ -> In x (kidsk k) -> (h x < h k)%nat.
Proof. apply (wf_acyclic _ _ _ _ Hwf). Qed.

(* a seen link target of the top active node is finished *)
Lemma seen_kid_of_top_done k act' x : StronglySorted hlt (k :: act') -> In k univ ->
  In x (kidsk k) -> ~ In x (k :: act').
Proof.
  intros Hs Hk Hx Hin. pose proof (kid_h k x Hk Hx) as Hlt.
  inversion Hs as [|? ? _ Hall]; subst. destruct Hin as [E | Hin]; [subst; lia|].
  rewrite Forall_forall in Hall. specialize (Hall x Hin). unfold hlt in Hall. lia.
Qed.

Lemma sorted_hlt_nodup_hd k act' : StronglySorted hlt (k :: act') -> ~ In k act'.
Proof.
  intros Hs Hin. inversion Hs as [|? ? _ Hall]; subst.
  rewrite Forall_forall in Hall. specialize (Hall k Hin). unfold hlt in Hall. lia.
Qed.

Lemma stack_ok_grow vis act x : ~ In x vis -> forall stk a,
  stack_ok vis act stk a -> stack_ok (vis ++ [x]) (x :: act) stk a.
Proof.
  intros Hx stk a H. induction H as [|k nx st a Hk Hna _ IH|k nx st a Hk Hp _ IH].
  - constructor.
  - apply so_done; [apply in_or_app; left; exact Hk | | exact IH].
    intros [E | E]; [subst; contradiction | contradiction].
  - apply so_act; [right; exact Hk | | exact IH].
    intros i k' Hi Hn. apply in_or_app. left. exact (Hp i k' Hi Hn).
Qed.

Lemma stack_ok_pop vis k act' : forall stk a,
  stack_ok vis (k :: act') stk a -> ~ In k a -> stack_ok vis act' stk a.
Proof.
  intros stk a H. induction H as [|k0 nx st a Hk Hna _ IH|k0 nx st a Hk Hp _ IH]; intros Hnk.
  - constructor.
  - apply so_done; [exact Hk | | apply IH; exact Hnk]. intros E. apply Hna. right. exact E.
  - apply so_act; [| exact Hp | apply IH; intros E; apply Hnk; right; exact E].
    destruct Hk as [E | E]; [|exact E]. subst. exfalso. apply Hnk. left. reflexivity.
Qed.

(* ------------------------------------------------------------------ the weight of the stack *)

Definition deg (k : N) : nat := length (kidsk k).
Definition maxdeg : nat := list_max (map deg univ).
Definition cst : nat := (S maxdeg * S maxdeg)%nat.
Definition wt (e : N * nat) : nat := ((1 + (deg (fst e) - snd e)) * cst ^ h (fst e))%nat.
Definition weight (stk : list (N * nat)) : nat := list_sum (map wt stk).

Lemma weight_cons e stk : weight (e :: stk) = (wt e + weight stk)%nat.
Proof. reflexivity. Qed.

Lemma deg_le k : In k univ -> (deg k <= maxdeg)%nat.
Proof.
  intros Hk. unfold maxdeg.
  assert (H : Forall (fun x => (x <= list_max (map deg univ))%nat) (map deg univ))
    by (apply list_max_le; lia).
  rewrite Forall_forall in H. apply H. apply in_map. exact Hk.
Qed.

Lemma cst_pos : (1 <= cst)%nat.
Proof. unfold cst. lia. Qed.

Lemma pow_pos n : (1 <= cst ^ n)%nat.
Proof. pose proof cst_pos. induction n; [cbn; lia | rewrite Nat.pow_succ_r'; nia]. Qed.

Lemma wt_pos e : (1 <= wt e)%nat.
Proof. unfold wt. pose proof (pow_pos (h (fst e))). nia. Qed.

Lemma wt_kid_bound k x nx : In k univ -> In x (kidsk k) ->
  (wt (x, nx) <= S maxdeg * cst ^ (h k - 1))%nat.
Proof.
  intros Hk Hx. unfold wt. cbn [fst snd].
  pose proof (deg_le x (kid_univ k x Hk Hx)) as Hd.
  pose proof (kid_h k x Hk Hx) as Hh.
  assert (Hp : (cst ^ h x <= cst ^ (h k - 1))%nat).
  { apply Nat.pow_le_mono_r; [pose proof cst_pos; lia | lia]. }
  apply Nat.mul_le_mono; [lia | exact Hp].
Qed.

Lemma wt_drop k nx n : In k univ -> (nx < deg k)%nat -> (n <= maxdeg)%nat ->
  (wt (k, S nx) + n * (S maxdeg * cst ^ (h k - 1)) < wt (k, nx))%nat.
Proof.
  intros Hk Hnx Hn. unfold wt. cbn [fst snd].
  assert (Hh : (1 <= h k)%nat).
  { unfold deg in Hnx. destruct (kidsk k) as [|x r] eqn:E; [cbn in Hnx; lia|].
    assert (Hx : In x (kidsk k)) by (rewrite E; left; reflexivity).
    pose proof (kid_h k x Hk Hx). lia. }
  replace (h k) with (S (h k - 1)) at 1 3 by lia. cbn [Nat.pow].
  set (P := (cst ^ (h k - 1))%nat). pose proof (pow_pos (h k - 1)) as HP. fold P in HP.
  replace (1 + (deg k - nx))%nat with (S (1 + (deg k - S nx)))%nat by lia.
  set (r := (1 + (deg k - S nx))%nat).
  assert (Hq : (n * (S maxdeg * P) < cst * P)%nat).
  { unfold cst. nia. }
  nia.
Qed.

Lemma push_seen_tail vis act B : forall kids j k nx rest a,
  kids <> [] ->
  (forall x, In x kids -> In x vis /\ ~ In x act) ->
  (forall x nx', In x kids -> (wt (x, nx') <= B)%nat) ->
  stack_ok vis act ((k, S j) :: rest) a ->
  exists y T, push_seen j kids ((k, nx) :: rest) = (y, O) :: T /\ In y kids /\
              T <> [] /\ stack_ok vis act T a /\
              (weight T <= wt (k, S j) + length kids * B + weight rest)%nat.
Proof.
  induction kids as [|p kids IH]; intros j k nx rest a Hne Hdone HB Hok; [congruence|].
  destruct kids as [|q kids].
  - cbn [push_seen set_top_next]. exists p, ((k, S j) :: rest).
    split; [reflexivity|]. split; [left; reflexivity|]. split; [discriminate|]. split; [exact Hok|].
    rewrite weight_cons. cbn [length]. lia.
  - cbn [push_seen set_top_next].
    destruct (IH (S j) p O ((k, S j) :: rest) a) as [y [T [E [Hy [HT [HokT HW]]]]]].
    + discriminate.
    + intros x Hx. apply Hdone. right. exact Hx.
    + intros x nx' Hx. apply HB. right. exact Hx.
    + destruct (Hdone p (or_introl eq_refl)) as [Hp1 Hp2]. apply so_done; assumption.
    + exists y, T. split; [exact E|]. split; [right; exact Hy|]. split; [exact HT|]. split; [exact HokT|].
      pose proof (HB p (S (S j)) (or_introl eq_refl)) as Hbp.
      rewrite weight_cons in HW. cbn [length] in *. lia.
Qed.

(* ------------------------------------------------------------------ one step *)

Lemma deref_univ k : In k univ -> deref s k = Ok (node_at s k).
Proof. intros Hk. unfold deref. rewrite (wf_sget _ _ _ _ Hwf k Hk). reflexivity. Qed.

Lemma skipn_lengths k nx : In k univ ->
  length (skipn nx (nlabels (node_at s k))) = length (skipn nx (kidsk k)).
Proof.
  intros Hk. rewrite !skipn_length. unfold kidsk.
  rewrite (nk_len _ (wf_node_ok _ _ _ _ Hwf k Hk)). reflexivity.
Qed.

(* the scan meets seen nodes only and pushes at least one entry *)
Lemma step_scan st vtl act k nx rest : inv st vtl act -> dstack st = (k, nx) :: rest ->
  In k univ -> skipn nx (kidsk k) <> [] ->
  (forall x, In x (skipn nx (kidsk k)) -> In x (d :: vtl) /\ ~ In x act) ->
  stack_ok (d :: vtl) act ((k, S nx) :: rest) act ->
  exists st', dfs_step emit s st = Ok (Continue st') /\ inv st' vtl act /\ dstack st' <> [] /\
              (weight (dstack st') < weight (dstack st))%nat.
Proof.
  intros Hi Hst Hk Hne Hdone Hok.
  set (kids := skipn nx (kidsk k)) in *.
  set (B := (S maxdeg * cst ^ (h k - 1))%nat).
  assert (Hkin : forall x, In x kids -> In x (kidsk k)) by (intros x Hx; exact (in_skipn _ _ _ Hx)).
  destruct (push_seen_tail (d :: vtl) act B kids nx k nx rest act Hne Hdone) as [y [T [E [Hy [HT [HokT HW]]]]]].
  { intros x nx' Hx. apply wt_kid_bound; [exact Hk | apply Hkin; exact Hx]. }
  { exact Hok. }
  destruct T as [|e T']; [congruence|].
  exists (with_stack st (e :: T')).
  split.
  - unfold dfs_step. rewrite Hst. rewrite (deref_univ k Hk). cbn [bind].
    rewrite (inner_all_seen emit s kids).
    + cbn [bind]. unfold with_stack at 1. cbn [dstack]. rewrite Hst, E. reflexivity.
    + apply skipn_lengths. exact Hk.
    + rewrite Hst. discriminate.
    + exact (inv_sorted _ _ _ Hi).
    + intros x Hx. pose proof (kid_univ k x Hk (Hkin x Hx)) as Hxu.
      split; [rewrite (wf_sget _ _ _ _ Hwf x Hxu); discriminate|].
      pose proof (kid_not_root k x Hk (Hkin x Hx)) as Hxd.
      apply (inv_seen st vtl act x Hi Hxu Hxd).
      destruct (Hdone x Hx) as [[Ed | Hv] _]; [congruence | exact Hv].
  - split; [|split].
    + destruct Hi. constructor; cbn [with_stack dstack dnodes dout]; assumption.
    + cbn. discriminate.
    + cbn [with_stack dstack]. rewrite Hst. rewrite (weight_cons (k, nx) rest).
      assert (Hlen : (length kids <= maxdeg)%nat).
      { unfold kids. rewrite skipn_length. pose proof (deg_le k Hk). unfold deg in *. lia. }
      assert (Hnx : (nx < deg k)%nat).
      { unfold deg. destruct (Nat.lt_ge_cases nx (length (kidsk k))) as [Hl | Hg]; [exact Hl|].
        exfalso. apply Hne. unfold kids. apply skipn_all2. exact Hg. }
      pose proof (wt_drop k nx (length kids) Hk Hnx Hlen). fold B in H. lia.
Qed.

(* the top entry has no link left: it is popped *)
Lemma step_pop st k nx rest : dstack st = (k, nx) :: rest -> In k univ -> skipn nx (kidsk k) = [] ->
  dfs_step emit s st =
  Ok (match rest with [] => Done (with_stack st []) | _ :: _ => Continue (with_stack st rest) end).
Proof.
  intros Hst Hk Hnil. unfold dfs_step. rewrite Hst, (deref_univ k Hk). cbn [bind].
  fold (kidsk k). rewrite Hnil.
  assert (Hl : skipn nx (nlabels (node_at s k)) = []).
  { pose proof (skipn_lengths k nx Hk) as E. rewrite Hnil in E.
    destruct (skipn nx (nlabels (node_at s k))); [reflexivity | discriminate]. }
  rewrite Hl. cbn [dfs_inner bind]. rewrite Hst. destruct rest; reflexivity.
Qed.

Lemma all_closed vis : In d vis ->
  (forall k k', In k vis -> In k univ -> In k' (kidsk k) -> In k' vis) ->
  forall k, In k univ -> In k vis.
Proof.
  intros Hd Hcl k Hk. apply (wf_univ _ _ _ _ Hwf) in Hk.
  induction Hk as [|k n k' Hr IH Hn Hin]; [exact Hd|].
  assert (Hku : In k univ) by (apply (wf_univ _ _ _ _ Hwf); exact Hr).
  apply (Hcl k k' IH Hku). unfold kidsk. rewrite (node_at_some _ _ _ Hn). exact Hin.
Qed.

Lemma stack_ok_nil_inv vis act a : stack_ok vis act [] a -> a = [].
Proof. intros H. inversion H. reflexivity. Qed.

Lemma inv_final st vtl act st' : inv st vtl act ->
  dnodes st' = dnodes st -> dout st' = dout st ->
  (forall k k', In k (d :: vtl) -> In k' (kidsk k) -> In k' (d :: vtl)) ->
  final st' vtl.
Proof.
  intros Hi En Eo Hcl. unfold final. rewrite En, Eo.
  split; [exact (inv_sorted _ _ _ Hi)|]. split; [exact (inv_perm _ _ _ Hi)|].
  split; [exact (inv_nodup _ _ _ Hi)|].
  split; [intros Hd; destruct (inv_univ _ _ _ Hi d Hd) as [_ Hne]; congruence|].
  split; [|exact (inv_out _ _ _ Hi)].
  intros k. split.
  - apply all_closed; [left; reflexivity|]. intros k0 k' Hk0 _ Hk'. exact (Hcl k0 k' Hk0 Hk').
  - apply (vis_univ st vtl act k Hi).
Qed.

Definition unseen (vtl : list N) : nat := (length univ - length vtl)%nat.

Lemma step_ok st vtl act : inv st vtl act -> dstack st <> [] ->
  exists r, dfs_step emit s st = Ok r /\
    match r with
    | Done st' => final st' vtl
    | Continue st' => exists vtl' act', inv st' vtl' act' /\ dstack st' <> [] /\
        ((unseen vtl' < unseen vtl)%nat \/
         (vtl' = vtl /\ (weight (dstack st') < weight (dstack st))%nat))
    end.
Proof.
  intros Hi Hne. destruct (dstack st) as [|[k nx] rest] eqn:Hst; [congruence|]. clear Hne.
  pose proof (inv_stack _ _ _ Hi) as Hso. rewrite Hst in Hso.
  inversion Hso as [|k0 nx0 st0 a0 Hkvis Hkna Hrest|k0 nx0 st0 act' Hkact Hpre Hrest]; subst.
  - (* the top entry belongs to a finished node *)
    assert (Hk : In k univ) by (apply (vis_univ st vtl act k Hi); exact Hkvis).
    assert (Hdone : forall x, In x (skipn nx (kidsk k)) -> In x (d :: vtl) /\ ~ In x act).
    { intros x Hx. apply (inv_closed _ _ _ Hi k x Hkvis Hkna). exact (in_skipn _ _ _ Hx). }
    destruct (skipn nx (kidsk k)) as [|p ks] eqn:Hsk.
    + rewrite (step_pop st k nx rest Hst Hk Hsk). eexists. split; [reflexivity|].
      destruct rest as [|e rest'].
      * apply (inv_final st vtl act); [exact Hi | reflexivity | reflexivity|].
        apply stack_ok_nil_inv in Hrest. subst act.
        intros k0 k' Hk0 Hk'. apply (inv_closed _ _ _ Hi k0 k' Hk0); [intros [] | exact Hk'].
      * exists vtl, act. split; [|split; [cbn; discriminate|]].
        -- destruct Hi. constructor; cbn [with_stack dstack dnodes dout]; try assumption.
        -- right. split; [reflexivity|]. cbn [with_stack dstack]. rewrite (weight_cons (k, nx)).
           pose proof (wt_pos (k, nx)). lia.
    + destruct (step_scan st vtl act k nx rest Hi Hst Hk) as [st' [E [Hi' [Hne' HW]]]].
      * rewrite Hsk. discriminate.
      * rewrite Hsk. exact Hdone.
      * apply so_done; assumption.
      * exists (Continue st'). split; [exact E|]. exists vtl, act.
        split; [exact Hi'|]. split; [exact Hne'|]. right. split; [reflexivity | rewrite Hst in HW; exact HW].
  - (* the top entry is the entry of the innermost active node *)
    assert (Hkvis : In k (d :: vtl)) by (apply (inv_act_vis _ _ _ Hi); left; reflexivity).
    assert (Hk : In k univ) by (apply (vis_univ st vtl (k :: act') k Hi); exact Hkvis).
    pose proof (inv_act_sorted _ _ _ Hi) as Hsorted.
    assert (Hseen_dec : forall x, {In (idk x) (dnodes st)} + {~ In (idk x) (dnodes st)})
      by (intros x; apply (in_dec N.eq_dec)).
    destruct (first_failing (fun x => In (idk x) (dnodes st)) Hseen_dec (skipn nx (kidsk k)))
      as [Hall | [pre [x [post [Esk [Hpre_seen Hx_unseen]]]]]].
    + (* every remaining link leads to a seen node *)
      assert (Hdone : forall x, In x (skipn nx (kidsk k)) -> In x (d :: vtl) /\ ~ In x (k :: act')).
      { intros x Hx. pose proof (in_skipn _ _ _ Hx) as Hxk. split.
        - right. apply (inv_seen st vtl (k :: act') x Hi (kid_univ k x Hk Hxk) (kid_not_root k x Hk Hxk)).
          apply Hall. exact Hx.
        - apply seen_kid_of_top_done; assumption. }
      destruct (skipn nx (kidsk k)) as [|p ks] eqn:Hsk.
      * rewrite (step_pop st k nx rest Hst Hk Hsk). eexists. split; [reflexivity|].
        assert (Hallkids : forall k', In k' (kidsk k) -> In k' (d :: vtl) /\ ~ In k' (k :: act')).
        { intros k' Hk'. split; [|apply seen_kid_of_top_done; assumption].
          destruct (In_nth_error _ _ Hk') as [i Hi']. apply (Hpre i k'); [|exact Hi'].
          pose proof (skipn_nil_length _ _ Hsk).
          assert (i < length (kidsk k))%nat by (apply nth_error_Some; rewrite Hi'; discriminate). lia. }
        assert (Hcl' : forall k0 k', In k0 (d :: vtl) -> ~ In k0 act' -> In k' (kidsk k0) ->
                       In k' (d :: vtl) /\ ~ In k' act').
        { intros k0 k' Hk0 Hna Hk'. destruct (N.eq_dec k0 k) as [-> | Hneq].
          - destruct (Hallkids k' Hk') as [H1 H2]. split; [exact H1|]. intros E. apply H2. right. exact E.
          - destruct (inv_closed _ _ _ Hi k0 k' Hk0) as [H1 H2]; [|exact Hk'|].
            + intros [E | E]; [congruence | contradiction].
            + split; [exact H1|]. intros E. apply H2. right. exact E. }
        destruct rest as [|e rest'].
        -- apply (inv_final st vtl (k :: act')); [exact Hi | reflexivity | reflexivity|].
           apply stack_ok_nil_inv in Hrest. subst act'.
           intros k0 k' Hk0 Hk'. apply (Hcl' k0 k' Hk0); [intros [] | exact Hk'].
        -- exists vtl, act'. split; [|split; [cbn; discriminate|]].
           ++ pose proof (sorted_hlt_nodup_hd k act' Hsorted) as Hnk.
              destruct Hi as [H1 H2 H3 H4 H5 H6 H7 H8 H9].
              constructor; cbn [with_stack dstack dnodes dout]; try assumption.
              ** intros k0 Hk0. apply H6. right. exact Hk0.
              ** inversion H7; assumption.
              ** apply (stack_ok_pop (d :: vtl) k act'); assumption.
           ++ right. split; [reflexivity|]. cbn [with_stack dstack]. rewrite (weight_cons (k, nx)).
              pose proof (wt_pos (k, nx)). lia.
      * destruct (step_scan st vtl (k :: act') k nx rest Hi Hst Hk) as [st' [E [Hi' [Hne' HW]]]].
        -- rewrite Hsk. discriminate.
        -- rewrite Hsk. exact Hdone.
        -- apply so_act; [exact Hkact | | exact Hrest].
           intros i k' Hlt Hn. destruct (Nat.eq_dec i nx) as [-> | Hneq].
           ++ rewrite (nth_error_skipn_hd _ _ _ _ Hsk) in Hn. injection Hn as <-.
              apply (Hdone p). left. reflexivity.
           ++ apply (Hpre i k'); [lia | exact Hn].
        -- exists (Continue st'). split; [exact E|]. exists vtl, (k :: act').
           split; [exact Hi'|]. split; [exact Hne'|]. right. split; [reflexivity | rewrite Hst in HW; exact HW].
    + (* the link to x, after those of pre, leads to an unseen node *)
      assert (Hkin : forall y, In y (skipn nx (kidsk k)) -> In y (kidsk k))
        by (intros y Hy; exact (in_skipn _ _ _ Hy)).
      assert (Hxk : In x (kidsk k)) by (apply Hkin; rewrite Esk; apply in_or_app; right; left; reflexivity).
      pose proof (kid_univ k x Hk Hxk) as Hxu. pose proof (kid_not_root k x Hk Hxk) as Hxd.
      assert (Hxv : ~ In x (d :: vtl)).
      { intros [E | E]; [congruence|]. apply Hx_unseen.
        apply (inv_seen st vtl (k :: act') x Hi Hxu Hxd). exact E. }
      assert (Hpre_done : forall y, In y pre -> In y (d :: vtl) /\ ~ In y (k :: act')).
      { intros y Hy. assert (Hyk : In y (kidsk k)) by (apply Hkin; rewrite Esk; apply in_or_app; left; exact Hy).
        split; [|apply seen_kid_of_top_done; assumption].
        right. apply (inv_seen st vtl (k :: act') y Hi (kid_univ k y Hk Hyk) (kid_not_root k y Hk Hyk)).
        apply Hpre_seen. exact Hy. }
      set (st' := mkDfs (push_seen nx (pre ++ [x]) ((k, nx) :: rest))
                        (insert_at (idk x) (dnodes st) (lower_bound (idk x) (dnodes st)))
                        (dedges st + Z.of_nat (length (nkids (node_at s x))))
                        (dout st ++ emit (node_at s x))).
      exists (Continue st'). split.
      * unfold dfs_step. rewrite Hst, (deref_univ k Hk). cbn [bind]. fold (kidsk k). rewrite Esk.
        rewrite (inner_descend emit s pre).
        -- cbn [bind]. rewrite Hst. reflexivity.
        -- rewrite <- Esk. apply skipn_lengths. exact Hk.
        -- rewrite Hst. discriminate.
        -- exact (inv_sorted _ _ _ Hi).
        -- intros y Hy. assert (Hyk : In y (kidsk k)) by (apply Hkin; rewrite Esk; apply in_or_app; left; exact Hy).
           split; [rewrite (wf_sget _ _ _ _ Hwf y (kid_univ k y Hk Hyk)); discriminate|].
           apply Hpre_seen. exact Hy.
        -- rewrite (wf_sget _ _ _ _ Hwf x Hxu). discriminate.
        -- exact Hx_unseen.
      * exists (vtl ++ [x]), (x :: k :: act').
        assert (Hlen : (length (vtl ++ [x]) <= length univ)%nat).
        { apply NoDup_incl_length.
          - apply NoDup_app_single; [exact (inv_nodup _ _ _ Hi)|]. intros E. apply Hxv. right. exact E.
          - intros y Hy. apply in_app_or in Hy. destruct Hy as [Hy | [<- | []]]; [|exact Hxu].
            apply (inv_univ _ _ _ Hi y Hy). }
        split; [|split].
        -- constructor; unfold st'; cbn [dstack dnodes dout].
           ++ apply insert_sorted. exact (inv_sorted _ _ _ Hi).
           ++ eapply Permutation_trans; [apply insert_perm|].
              rewrite map_app. cbn [map]. rewrite app_assoc.
              eapply Permutation_trans; [|apply Permutation_cons_append].
              apply perm_skip. exact (inv_perm _ _ _ Hi).
           ++ intros y Hy. apply in_app_or in Hy. destruct Hy as [Hy | [<- | []]]; [|split; assumption].
              apply (inv_univ _ _ _ Hi y Hy).
           ++ apply NoDup_app_single; [exact (inv_nodup _ _ _ Hi)|]. intros E. apply Hxv. right. exact E.
           ++ rewrite (inv_out _ _ _ Hi), flat_map_app. cbn [flat_map]. rewrite app_nil_r, app_assoc. reflexivity.
           ++ intros y [<- | Hy]; [right; apply in_or_app; right; left; reflexivity|].
              destruct (inv_act_vis _ _ _ Hi y Hy) as [E | E]; [left; exact E | right; apply in_or_app; left; exact E].
           ++ constructor; [exact Hsorted|]. pose proof (kid_h k x Hk Hxk) as Hlt.
              constructor; [exact Hlt|]. inversion Hsorted as [|? ? _ Hall]; subst.
              rewrite Forall_forall in *. intros z Hz. specialize (Hall z Hz). unfold hlt in *. lia.
           ++ intros k0 k' Hk0 Hna Hk'.
              assert (Hk0x : k0 <> x) by (intros ->; apply Hna; left; reflexivity).
              assert (Hk0v : In k0 (d :: vtl)).
              { destruct Hk0 as [E | E]; [left; exact E|]. apply in_app_or in E.
                destruct E as [E | [E | []]]; [right; exact E | congruence]. }
              destruct (inv_closed _ _ _ Hi k0 k' Hk0v) as [H1 H2]; [intros E; apply Hna; right; exact E | exact Hk'|].
              split.
              ** destruct H1 as [E | E]; [left; exact E | right; apply in_or_app; left; exact E].
              ** intros [E | E]; [subst; contradiction | contradiction].
           ++ rewrite push_seen_app. change (d :: vtl ++ [x]) with ((d :: vtl) ++ [x]).
              apply so_act; [left; reflexivity | intros i k' Hlt; lia|].
              assert (Htop : stack_ok ((d :: vtl) ++ [x]) (x :: k :: act') ((k, S nx) :: rest) (k :: act')).
              { apply so_act; [right; left; reflexivity | | apply stack_ok_grow; assumption].
                intros i k' Hlt Hn. destruct (Nat.eq_dec i nx) as [-> | Hneq].
                - destruct pre as [|p pre'].
                  + cbn [app] in Esk. rewrite (nth_error_skipn_hd _ _ _ _ Esk) in Hn. injection Hn as <-.
                    apply in_or_app. right. left. reflexivity.
                  + cbn [app] in Esk. rewrite (nth_error_skipn_hd _ _ _ _ Esk) in Hn. injection Hn as <-.
                    apply in_or_app. left. apply (Hpre_done p). left. reflexivity.
                - apply in_or_app. left. apply (Hpre i k'); [lia | exact Hn]. }
              destruct pre as [|p pre'].
              ** cbn [push_seen set_top_next length]. rewrite Nat.add_0_r. exact Htop.
              ** destruct (push_seen_tail ((d :: vtl) ++ [x]) (x :: k :: act') (S maxdeg * cst ^ (h k - 1))%nat
                             (p :: pre') nx k nx rest (k :: act'))
                   as [y [T [E [Hy [_ [HokT _]]]]]].
                 --- discriminate.
                 --- intros y Hy. destruct (Hpre_done y Hy) as [H1 H2]. split; [apply in_or_app; left; exact H1|].
                     intros [E | E]; [subst; contradiction | contradiction].
                 --- intros y nx' Hy. apply wt_kid_bound; [exact Hk|].
                     apply Hkin. rewrite Esk. apply in_or_app. left. exact Hy.
                 --- exact Htop.
                 --- rewrite E. cbn [set_top_next]. apply so_done; [| |exact HokT].
                     +++ apply in_or_app. left. apply (Hpre_done y Hy).
                     +++ destruct (Hpre_done y Hy) as [H1 H2].
                         intros [E' | E']; [subst; contradiction | contradiction].
        -- unfold st'. cbn [dstack]. rewrite push_seen_app. discriminate.
        -- left. unfold unseen. rewrite app_length in *. cbn [length] in *. lia.
Qed.

Lemma dfs_total : forall u w st vtl act, inv st vtl act -> dstack st <> [] ->
  unseen vtl = u -> weight (dstack st) = w ->
  exists fuel st' vtl', dfs_loop emit fuel s st = Ok st' /\ final st' vtl'.
Proof.
  induction u as [u IHu] using lt_wf_ind. induction w as [w IHw] using lt_wf_ind.
  intros st vtl act Hi Hne Hu Hw.
  destruct (step_ok st vtl act Hi Hne) as [[st'|st'] [E Hr]].
  - exists 1%nat, st', vtl. split; [|exact Hr]. rewrite dfs_loop_S, E. reflexivity.
  - destruct Hr as [vtl' [act' [Hi' [Hne' Hdec]]]].
    assert (Hrec : exists fuel st'' vtl'', dfs_loop emit fuel s st' = Ok st'' /\ final st'' vtl'').
    { destruct Hdec as [Hlt | [-> Hlt]].
      - apply (IHu (unseen vtl')) with (w := weight (dstack st')) (vtl := vtl') (act := act'); try assumption; try reflexivity. lia.
      - apply (IHw (weight (dstack st'))) with (vtl := vtl) (act := act'); try assumption; try reflexivity. lia. }
    destruct Hrec as [fuel [st'' [vtl'' [Hrun Hfin]]]].
    exists (S fuel), st'', vtl''. split; [|exact Hfin]. rewrite dfs_loop_S, E. exact Hrun.
Qed.

Hypothesis Hbase_sorted : StronglySorted N.le base.

(* the traversal started at the root *)
Theorem dfs_from_root : forall edges,
  exists fuel st' vtl, dfs_loop emit fuel s (mkDfs [(d, O)] base edges out0) = Ok st' /\ final st' vtl.
Proof.
  intros edges.
  apply (dfs_total (unseen []) (weight [(d, O)]) (mkDfs [(d, O)] base edges out0) [] [d]); try reflexivity; [|cbn; discriminate].
  constructor; cbn [dstack dnodes dout map flat_map].
  - exact Hbase_sorted.
  - rewrite app_nil_r. apply Permutation_refl.
  - intros k [].
  - constructor.
  - rewrite app_nil_r. reflexivity.
  - intros k Hk. exact Hk.
  - constructor; constructor.
  - intros k k' [<- | []] Hna. exfalso. apply Hna. left. reflexivity.
  - apply so_act; [left; reflexivity | intros i k' Hlt; lia | constructor].
Qed.

End Dfs.
