(* addSuffix on the store: appends the chain of the suffix below an end node of the spine. *)
From Coq Require Import List NArith ZArith Bool Lia Sorted FMapPositive.
From Mamba Require Import Dawg.Model Dawg.Tree Dawg.Spec Dawg.TreeFacts Dawg.BuildStore.
Import ListNotations.

Lemma add_suffix_spec : forall sf s reg i t L,
  reg_ok s reg -> bound s L -> srep s reg i [] t ->
  exists s' L', add_suffix s i sf L = Ok (s', L') /\
    srep s' reg i sf (tsuffix sf t) /\ bound s' L' /\ (L <= L')%N /\
    (forall j, j <> i -> (j <= L)%N -> sget s' j = sget s j).
Proof.
  induction sf as [|b sf IH]; intros s reg i t L HR HB HS.
  - inversion HS as [i' n ch Hn Hnr Hl Hk Hkr|]; subst. clear HS.
    cbn [add_suffix]. rewrite (deref_ok _ _ _ Hn). cbn [bind].
    eexists. exists L. split; [reflexivity|].
    assert (HF : forall r, In r reg -> sget (sset s i (mkNode (nid n) (nwords n) true (nlabels n) (nkids n))) r = sget s r).
    { intros r Hr. apply sget_sset_other. intro E. subst r. contradiction. }
    destruct HR as (HC & HT & HD).
    split; [|split; [|split]].
    + eapply srep_end'; [apply sget_sset_same|assumption|exact Hl| |exact Hkr|reflexivity].
      cbn [nkids]. eapply Forall2_rep_frame; eauto.
    + apply bound_sset; auto. eapply HB; eauto.
    + lia.
    + intros j Hj _. apply sget_sset_other. auto.
  - inversion HS as [i' n ch Hn Hnr Hl Hk Hkr|]; subst. clear HS.
    assert (HiL : (i <= L)%N) by (eapply HB; eauto).
    cbn [add_suffix]. rewrite (deref_ok _ _ _ Hn). cbn [bind].
    set (id := N.succ L).
    set (n1 := mkNode (nid n) (nwords n) (nfinal n) (nlabels n ++ [b]) (nkids n ++ [id])).
    set (s2 := sset (sset s i n1) id (new_node id)).
    assert (Hid : id <> i) by (unfold id; lia).
    assert (HregL : forall r, In r reg -> (r <= L)%N).
    { intros r Hr. destruct HR as (HC & _). eapply closed_bound; eauto. }
    assert (HF2 : forall r, In r reg -> sget s2 r = sget s r).
    { intros r Hr. unfold s2. rewrite !sget_sset_other; auto.
      - intro E. subst r. contradiction.
      - specialize (HregL r Hr). unfold id. lia. }
    assert (HR2 : reg_ok s2 reg) by (eapply reg_frame; eauto).
    assert (HB2 : bound s2 id).
    { unfold s2. apply bound_sset; [|lia]. apply bound_sset; [|unfold id; lia].
      eapply bound_mono; eauto. unfold id; lia. }
    assert (HS2 : srep s2 reg id [] (Node false 1 [])).
    { eapply srep_end' with (n := new_node id) (ch := []).
      - unfold s2. apply sget_sset_same.
      - intro Hin. specialize (HregL _ Hin). unfold id in *. lia.
      - reflexivity.
      - constructor.
      - constructor.
      - reflexivity. }
    destruct (IH s2 reg id (Node false 1 []) id HR2 HB2 HS2) as (s' & L' & Hadd & HS' & HB' & HL' & HF').
    exists s', L'. split; [exact Hadd|].
    assert (Hi' : sget s' i = Some n1).
    { rewrite HF'; [|auto|unfold id; lia]. unfold s2. rewrite sget_sset_other; auto. apply sget_sset_same. }
    assert (HF3 : forall r, In r reg -> sget s' r = sget s r).
    { intros r Hr. rewrite HF'.
      - apply HF2; auto.
      - specialize (HregL r Hr). unfold id. lia.
      - specialize (HregL r Hr). unfold id. lia. }
    destruct HR as (HC & HT & HD).
    split; [|split; [|split]].
    + rewrite tsuffix_cons.
      eapply srep_step' with (n := n1) (ks := nkids n) (k := id) (ch0 := ch) (tk := chain sf).
      * exact Hi'.
      * exact Hnr.
      * unfold id. lia.
      * unfold n1. cbn [nlabels]. rewrite Hl. reflexivity.
      * reflexivity.
      * eapply Forall2_rep_frame; eauto.
      * exact Hkr.
      * exact HS'.
      * reflexivity.
    + exact HB'.
    + unfold id in HL'. lia.
    + intros j Hj HjL. rewrite HF'; [|unfold id; lia|unfold id; lia].
      unfold s2. rewrite !sget_sset_other; auto. unfold id. lia.
Qed.
