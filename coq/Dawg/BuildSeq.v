(* Arbitrary Add sequences: which calls are rejected, and that the builder after the whole
   sequence is the builder obtained from the accepted words alone. *)
From Coq Require Import List NArith ZArith Bool Lia Sorted.
From Mamba Require Import Dawg.Model Dawg.Tree Dawg.Spec Dawg.TreeFacts Dawg.BuildStore Dawg.BuildProofs Dawg.LangOrder.
Import ListNotations.

(* the order check of Add against the previous accepted word *)
Definition accept_after (o : option word) (w : word) : bool :=
  match o with Some v => lex_ltb v w | None => true end.

(* the words of an Add sequence that pass the check, and the flags of all calls *)
Fixpoint kept (o : option word) (ws : list word) : list word :=
  match ws with
  | [] => []
  | w :: ws' => if accept_after o w then w :: kept (Some w) ws' else kept o ws'
  end.

Fixpoint accept_flags (o : option word) (ws : list word) : list bool :=
  match ws with
  | [] => []
  | w :: ws' => if accept_after o w then true :: accept_flags (Some w) ws' else false :: accept_flags o ws'
  end.

Lemma rejects_accept_after : forall b w, rejects b w = negb (accept_after (blast b) w).
Proof.
  intros b w. unfold rejects, accept_after, lex_ltb. destruct (blast b) as [v|]; [|reflexivity].
  destruct (lex_compare v w); reflexivity.
Qed.

Lemma kept_inc_after : forall ws o, inc_after o (kept o ws).
Proof.
  induction ws as [|w ws IH]; intros o; cbn [kept]; [exact I|].
  destruct (accept_after o w) eqn:E; [|apply IH].
  split.
  - destruct o as [v|]; [|exact I]. apply lex_ltb_lt. exact E.
  - specialize (IH (Some w)). destruct (kept (Some w) ws) as [|w' rest] eqn:Ek; simpl; [auto|].
    destruct IH as [H1 H2]. split; [exact H1|exact H2].
Qed.

Lemma kept_increasing : forall ws, increasing (kept None ws).
Proof.
  intros ws. pose proof (kept_inc_after ws None) as H.
  destruct (kept None ws); simpl in *; [exact I|tauto].
Qed.

Lemma add_seq_spec : forall ws b ws0, binv b ws0 ->
  exists b', add_seq b ws = Ok (b', accept_flags (blast b) ws) /\
             add_all b (kept (blast b) ws) = Ok (Some b') /\
             binv b' (ws0 ++ kept (blast b) ws).
Proof.
  induction ws as [|w ws IH]; intros b ws0 HI.
  - exists b. cbn. rewrite app_nil_r. auto.
  - cbn [add_seq kept accept_flags].
    destruct (accept_after (blast b) w) eqn:E.
    + assert (Hrej : rejects b w = false) by (rewrite rejects_accept_after, E; reflexivity).
      destruct (add_accepted b w ws0 HI Hrej) as (b1 & Hadd & HI1 & Hlast).
      rewrite Hadd. cbn [bind]. destruct (IH b1 _ HI1) as (b' & Hseq & Hall & HI').
      rewrite Hlast in *. rewrite Hseq. cbn [bind].
      exists b'. split; [reflexivity|]. split.
      * cbn [add_all]. rewrite Hadd. cbn [bind]. exact Hall.
      * rewrite <- app_assoc in HI'. exact HI'.
    + assert (Hrej : rejects b w = true) by (rewrite rejects_accept_after, E; reflexivity).
      rewrite (add_rejected b w Hrej). cbn [bind].
      destruct (IH b ws0 HI) as (b' & Hseq & Hall & HI'). rewrite Hseq. cbn [bind].
      exists b'. auto.
Qed.

(* Any sequence of Add calls on a fresh builder: no call fails otherwise than by the order
   check, the flags are those of the order check against the last accepted word, and the
   final builder state is the one reached by adding the accepted words only. *)
Theorem add_seq_total : forall ws,
  exists b, add_seq initialise ws = Ok (b, accept_flags None ws) /\
            add_all initialise (kept None ws) = Ok (Some b) /\
            increasing (kept None ws).
Proof.
  intros ws. destruct (add_seq_spec ws initialise [] binv_initialise) as (b & H1 & H2 & _).
  exists b. split; [exact H1|]. split; [exact H2|apply kept_increasing].
Qed.

(* hence Finish after any Add sequence returns the automaton of the accepted words *)
Corollary finish_after_add_seq : forall ws b oks, add_seq initialise ws = Ok (b, oks) ->
  finish b = new_dawg (kept None ws).
Proof.
  intros ws b oks H. destruct (add_seq_total ws) as (b' & H1 & H2 & _).
  rewrite H in H1. inversion H1; subst b'. unfold new_dawg. rewrite H2. reflexivity.
Qed.
