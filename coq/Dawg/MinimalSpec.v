(* What [minimal_size] counts: for a strictly increasing ws, two prefixes have the same
   [residual] list iff they have the same right language, so [minimal_size ws] is the number of
   Myhill-Nerode classes of the prefixes of ws (the empty prefix included, also for ws = []):
   the number of states of the minimal (trimmed) deterministic automaton of ws. *)
From Coq Require Import List NArith ZArith Bool Lia Sorted.
From Mamba Require Import Dawg.Model Dawg.Spec Dawg.LangOrder Dawg.Tree Dawg.TreeFacts Dawg.BuildStore
  Dawg.BuildProofs Dawg.LangTree Dawg.LangStore Dawg.MinimalTree Dawg.MinimalStore.
Import ListNotations.

(* u is the empty word or a prefix of a word of ws: the states of the trimmed automaton *)
Definition is_prefix (ws : list word) (u : word) : Prop := u = [] \/ exists w, In w ws /\ In u (prefixes w).

(* u and u' have the same right language in ws *)
Definition same_residual (ws : list word) (u u' : word) : Prop := forall x, In (u ++ x) ws <-> In (u' ++ x) ws.

Lemma strip_prefix_spec : forall u w x, strip_prefix u w = Some x <-> w = u ++ x.
Proof.
  induction u as [|c u IH]; intros w x; simpl.
  - split; [intros E; inversion E; reflexivity|intros ->; reflexivity].
  - destruct w as [|d w]; [split; discriminate|].
    destruct (N.eqb_spec c d) as [->|NE].
    + rewrite IH. split; [intros ->; reflexivity|intros E; inversion E; reflexivity].
    + split; [discriminate|intros E; inversion E; congruence].
Qed.

Lemma in_residual : forall u ws x, In x (residual u ws) <-> In (u ++ x) ws.
Proof.
  intros u ws x. induction ws as [|w ws IH]; simpl; [tauto|].
  destruct (strip_prefix u w) as [y|] eqn:E.
  - apply strip_prefix_spec in E. subst w. simpl. rewrite IH. split.
    + intros [->|H]; auto.
    + intros [H|H]; auto. apply app_inv_head in H. auto.
  - rewrite IH. split; auto. intros [H|H]; auto. apply (strip_prefix_spec u w x) in H. congruence.
Qed.

Lemma lex_compare_app : forall u x y, lex_compare (u ++ x) (u ++ y) = lex_compare x y.
Proof. induction u as [|c u IH]; intros; simpl; auto. rewrite N.compare_refl. apply IH. Qed.

Lemma residual_sorted : forall u ws, StronglySorted lex_lt ws -> StronglySorted lex_lt (residual u ws).
Proof.
  intros u ws H. induction H as [|w ws HS IH HF]; simpl; [constructor|].
  destruct (strip_prefix u w) as [y|] eqn:E; auto.
  apply strip_prefix_spec in E. subst w. constructor; auto.
  apply Forall_forall. intros z Hz. apply in_residual in Hz.
  rewrite Forall_forall in HF. specialize (HF _ Hz). unfold lex_lt in *. rewrite lex_compare_app in HF. exact HF.
Qed.

Lemma sorted_ext : forall l1 l2, StronglySorted lex_lt l1 -> StronglySorted lex_lt l2 ->
  (forall x, In x l1 <-> In x l2) -> l1 = l2.
Proof.
  induction l1 as [|a l1 IH]; intros l2 H1 H2 HE.
  - destruct l2 as [|b l2]; auto. exfalso. apply (HE b). left; reflexivity.
  - destruct l2 as [|b l2]; [exfalso; apply (HE a); left; reflexivity|].
    inversion H1 as [|? ? S1 F1]; subst. inversion H2 as [|? ? S2 F2]; subst.
    rewrite Forall_forall in F1, F2.
    assert (a = b).
    { destruct (proj1 (HE a) (or_introl eq_refl)) as [E|Ha]; [auto|].
      destruct (proj2 (HE b) (or_introl eq_refl)) as [E|Hb]; [auto|].
      exfalso. apply (lex_lt_asym a b); auto. }
    subst b. f_equal. apply IH; auto. intros x. split; intros Hx.
    + destruct (proj1 (HE x) (or_intror Hx)) as [E|H]; auto. subst x. exfalso. apply (lex_lt_irrefl a). auto.
    + destruct (proj2 (HE x) (or_intror Hx)) as [E|H]; auto. subst x. exfalso. apply (lex_lt_irrefl a). auto.
Qed.

Lemma residual_ext : forall ws u u', increasing ws ->
  (residual u ws = residual u' ws <-> same_residual ws u u').
Proof.
  intros ws u u' Hinc. apply increasing_sorted in Hinc. unfold same_residual. split.
  - intros E x. rewrite <- !in_residual, E. tauto.
  - intros H. apply sorted_ext; try apply residual_sorted; auto.
    intros x. rewrite !in_residual. apply H.
Qed.

(* [minimal_size ws] is the number of classes of [same_residual] among the prefixes *)
Theorem minimal_size_classes : forall ws, increasing ws ->
  exists us, length us = minimal_size ws /\
    (forall u, In u us -> is_prefix ws u) /\
    (forall u, is_prefix ws u -> exists u', In u' us /\ same_residual ws u u') /\
    (forall i j u u', nth_error us i = Some u -> nth_error us j = Some u' -> same_residual ws u u' -> i = j).
Proof.
  intros ws Hinc. unfold minimal_size.
  assert (Hrep : forall ls, (forall l, In l ls -> In l (residuals ws)) ->
            exists us, Forall2 (fun u l => is_prefix ws u /\ l = residual u ws) us ls).
  { induction ls as [|l ls IH]; intros H; [exists []; constructor|].
    destruct IH as (us & Hus); [intros; apply H; right; auto|].
    destruct (proj1 (residuals_in ws l) (H l (or_introl eq_refl))) as (u & Hu & El).
    exists (u :: us). constructor; auto. }
  destruct (Hrep (residuals ws) (fun l H => H)) as (us & Hus).
  exists us. split; [eapply Forall2_length'; eauto|]. split; [|split].
  - intros u Hu. destruct (In_nth_error _ _ Hu) as (i & Hi).
    destruct (Forall2_nth_l _ _ _ _ _ Hus Hi) as (l & _ & Hp & _). exact Hp.
  - intros u Hu. assert (Hin : In (residual u ws) (residuals ws)) by (apply residuals_in; exists u; auto).
    destruct (In_nth_error _ _ Hin) as (i & Hi).
    destruct (Forall2_nth_r _ _ _ _ _ Hus Hi) as (u' & Hu' & _ & E).
    exists u'. split; [eapply nth_error_In; eauto|]. apply residual_ext; auto.
  - intros i j u u' Hi Hj Hs.
    destruct (Forall2_nth_l _ _ _ _ _ Hus Hi) as (l & Hl & _ & El).
    destruct (Forall2_nth_l _ _ _ _ _ Hus Hj) as (l' & Hl' & _ & El').
    apply residual_ext in Hs; auto. rewrite <- El, <- El' in Hs. subst l'.
    pose proof (dedup_NoDup (map (fun u => residual u ws) ([] :: flat_map prefixes ws))) as HN.
    fold (residuals ws) in HN. rewrite NoDup_nth_error in HN. apply HN; [|congruence].
    apply nth_error_Some. congruence.
Qed.
