(* Composition C12 -> C13, first half: the store that New builds from a strictly increasing word
   list unfolds to one explicit tree, [trie_of ws] (the trie of the words with numWords filled
   in), and is therefore well-formed in the sense C13's theorems ask for ([dawg_wf]).
   Additive: uses C12's files (TreeFacts, BuildProofs, LangStore, MinimalTree) and C13's
   SearchSpec read-only. *)
From Coq Require Import List NArith ZArith Bool Lia.
From Mamba Require Import Dawg.Model Dawg.Tree Dawg.Spec Dawg.TreeFacts Dawg.BuildProofs
  Dawg.LangStore Dawg.MinimalTree Dawg.SearchSpec.
Import ListNotations.

(* the tree of a word list: add the words one after the other to the one-node tree, each along
   the rightmost path (tadd is C12's tree-level reading of one accepted Add) *)
Definition tempty : tree := Node false 0 [].
Definition trie_of (ws : list word) : tree := fold_left (fun t w => tadd w t) ws tempty.

Lemma good_tempty : good tempty.
Proof. repeat split; constructor; try reflexivity; constructor. Qed.

Lemma trie_fold : forall ws t v ws0 (o : option word),
  tspine t v -> good t -> tlang t = ws0 ->
  match o with Some v' => v' = v | None => v = [] /\ tfin t = false end ->
  inc_after o ws ->
  good (fold_left (fun t w => tadd w t) ws t) /\
  tlang (fold_left (fun t w => tadd w t) ws t) = ws0 ++ ws.
Proof.
  induction ws as [|w ws IH]; intros t v ws0 o HS HG HL Ho Hinc.
  - cbn [fold_left]. rewrite app_nil_r. split; assumption.
  - cbn [fold_left]. cbn [inc_after] in Hinc. destruct Hinc as [Hlt Hinc].
    assert (HR : rel v w t).
    { destruct o as [v'|]; [subst v'; left; exact Hlt | right; exact Ho]. }
    destruct (IH (tadd w t) w (ws0 ++ [w]) (Some w)) as [G L].
    + eapply tspine_tadd; eauto.
    + eapply good_tadd; eauto.
    + rewrite (tlang_tadd w t v HS HR), HL. reflexivity.
    + reflexivity.
    + destruct ws as [|w' ws']; [exact I|]. cbn [inc_after]. cbn [increasing] in Hinc.
      split; [exact (proj1 Hinc) | exact (proj2 Hinc)].
    + split; [exact G|]. rewrite L, <- app_assoc. reflexivity.
Qed.

(* the tree of an increasing list is good (numWords = language size at every node, labels
   strictly increasing, every link leads to a word) and its language is the list *)
Theorem trie_of_spec : forall ws, increasing ws -> good (trie_of ws) /\ tlang (trie_of ws) = ws.
Proof.
  intros ws Hinc. unfold trie_of.
  destruct (trie_fold ws tempty [] [] None) as [G L].
  - constructor.
  - exact good_tempty.
  - reflexivity.
  - split; reflexivity.
  - apply increasing_inc_after. exact Hinc.
  - split; [exact G | exact L].
Qed.

(* the store New returns unfolds to exactly that tree *)
Theorem built_rep_trie : forall ws s, increasing ws -> new_dawg ws = Ok (Some s) ->
  rep s root (trie_of ws).
Proof.
  intros ws s Hinc H.
  destruct (final_root _ _ (new_dawg_final _ _ Hinc H)) as (t & HR & HG & HL).
  destruct (trie_of_spec ws Hinc) as [G L].
  rewrite <- (tlang_inj t (trie_of ws) HG G); [exact HR | congruence].
Qed.

(* hence it is well-formed as C13's theorems require, with language ws *)
Theorem built_dawg_wf : forall ws s, increasing ws -> new_dawg ws = Ok (Some s) ->
  dawg_wf s root (trie_of ws) /\ trimmed (trie_of ws) /\ tlang (trie_of ws) = ws.
Proof.
  intros ws s Hinc H. destruct (trie_of_spec ws Hinc) as [(HC & HLs & HT) L].
  split; [|split; assumption].
  split; [exact (built_rep_trie ws s Hinc H) | split; assumption].
Qed.
