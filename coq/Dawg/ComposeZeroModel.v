(* The zero-value Builder (definitions only).  /repo/dawg/dawg.go:

     func (db *Builder) Add(b []byte) error      { if db.d == nil { db.Initialise() } ... }
     func (db *Builder) Finish() ( *Dawg, error) { if db.d == nil { db.Initialise() } ... }
     func (db *Builder) Initialise()             { sets all five fields }

   C12's model (Dawg/Model.v) starts from [initialise].  Here a Go Builder value is either
   [GZero] -- d == nil: the zero value `var db Builder` / `new(Builder)`; d is set only by
   Initialise and never reset to nil, and Initialise overwrites every other field, so the
   other fields of such a value are irrelevant -- or [GInit b], a builder whose d is set, in
   the state b of C12's model.  The methods are C12's [add] / [finish] behind the nil test. *)
From Coq Require Import List NArith ZArith Bool.
From Mamba Require Import Dawg.Model.
Import ListNotations.

Inductive gbuilder := GZero | GInit (b : builder).

(* db.Initialise(): on any value, used or not *)
Definition g_initialise (g : gbuilder) : gbuilder := GInit initialise.

(* if db.d == nil { db.Initialise() } *)
Definition g_ensure (g : gbuilder) : builder :=
  match g with GZero => initialise | GInit b => b end.

(* db.Add(w): the receiver afterwards and whether the word was accepted (false = error) *)
Definition g_add (g : gbuilder) (w : word) : res (gbuilder * bool) :=
  do r <- add (g_ensure g) w;
  let '(b, ok) := r in Ok (GInit b, ok).

(* db.Finish(): the receiver afterwards (d is set now) and the result as in Model.finish *)
Definition g_finish (g : gbuilder) : res (gbuilder * option store) :=
  do r <- finish (g_ensure g); Ok (GInit (g_ensure g), r).

Fixpoint g_add_seq (g : gbuilder) (ws : list word) : res (gbuilder * list bool) :=
  match ws with
  | [] => Ok (g, [])
  | w :: ws' =>
    do r <- g_add g w;
    let '(g1, ok) := r in
    do r' <- g_add_seq g1 ws';
    let '(g2, oks) := r' in
    Ok (g2, ok :: oks)
  end.
