(* Specification level for C13 (dawg.Search): what it means for a searcher to accept a word,
   the expected result list, the matching relations of the two concrete searchers, the
   searcher contract, and the well-formedness of a Dawg with a sound executable checker.
   Definitions only (plus nothing else); the proofs are in SearchProofs.v, SearchConcrete.v
   and SearchWf.v. *)
From Coq Require Import List NArith ZArith Bool Permutation.
From Mamba Require Import Dawg.Model Dawg.Tree Dawg.Spec Dawg.SearchModel.
Import ListNotations.

(* ------------------------------------------------------------------ acceptance *)
Section Accept.
Context {X : Type} (ops : searcher_ops X).

(* Walking the word [w] letter by letter from the searcher state [x], as Search does along one
   branch: every letter must be allowed before it is stepped, and the word must be allowed at
   the end.  This is the definition of "the searcher (in state x) accepts w". *)
Fixpoint accepts (x : X) (w : word) : res bool :=
  match w with
  | [] => op_allow_word ops x
  | b :: w' =>
    do a <- op_allow_step ops x b;
    if a then do x' <- op_step ops x b; accepts x' w' else Ok false
  end.

Definition acc (x : X) (w : word) : bool :=
  match accepts x w with Ok true => true | _ => false end.

(* accepted by all searchers *)
Definition accall (xs : list X) (w : word) : bool := forallb (fun x => acc x w) xs.

(* The searcher contract, relative to a partial equivalence [E] on searcher states
   ("observationally equal"; [E x x] says that x is a state the contract speaks about).
   allow_step / allow_word are read-only by their type in the model (they return no state). *)
Record contract (E : X -> X -> Prop) : Prop := mkContract {
  c_sym : forall x y, E x y -> E y x;
  c_trans : forall x y z, E x y -> E y z -> E x z;
  (* AllowStep / AllowWord do not panic and cannot tell equivalent states apart *)
  c_allow_step : forall x y b, E x y ->
    exists a, op_allow_step ops x b = Ok a /\ op_allow_step ops y b = Ok a;
  c_allow_word : forall x y, E x y ->
    exists a, op_allow_word ops x = Ok a /\ op_allow_word ops y = Ok a;
  (* an allowed Step does not panic and maps equivalent states to equivalent states *)
  c_step : forall x y b, E x y -> op_allow_step ops x b = Ok true ->
    exists x' y', op_step ops x b = Ok x' /\ op_step ops y b = Ok y' /\ E x' y';
  (* Backstep after an allowed Step: back to an equivalent state *)
  c_step_back : forall x b x', E x x -> op_allow_step ops x b = Ok true -> op_step ops x b = Ok x' ->
    exists x'', op_backstep ops x' = Ok x'' /\ E x'' x;
  (* Backstep cannot tell equivalent states apart (where it leads to a contract state) *)
  c_back : forall x y x', E x y -> op_backstep ops x = Ok x' -> E x' x' ->
    exists y', op_backstep ops y = Ok y' /\ E x' y';
  (* Chosen leaves an equivalent state *)
  c_chosen : forall x, E x x -> exists x', op_chosen ops x = Ok x' /\ E x' x
}.

End Accept.

(* ------------------------------------------------------------------ expected result *)

(* the words of L paired with z, z+1, ... *)
Fixpoint number (z : Z) (L : list word) : list (word * Z) :=
  match L with
  | [] => []
  | u :: L' => (u, z) :: number (z + 1) L'
  end.

(* [(w, rank w) | w in ws, keep w], ws being the stored words in lexicographic order *)
Definition expected (keep : word -> bool) (ws : list word) : list (word * Z) :=
  filter (fun p => keep (fst p)) (number 0 ws).

(* ------------------------------------------------------------------ matching relations *)

(* same length, and every pattern position is the blank or the letter of the word *)
Fixpoint matches_pattern (pattern : list byte) (blank : byte) (w : word) : bool :=
  match pattern, w with
  | [], [] => true
  | c :: p', b :: w' => (N.eqb c blank || N.eqb c b) && matches_pattern p' blank w'
  | _, _ => false
  end.

Definition is_blank (blank : byte) (c : byte) : bool := N.eqb c blank.
Definition letters_of (anagram : list byte) (blank : byte) : list byte :=
  filter (fun c => negb (is_blank blank c)) anagram.
Definition blanks_of (anagram : list byte) (blank : byte) : nat :=
  length (filter (is_blank blank) anagram).

(* w is a rearrangement of the anagram in which every blank has been replaced by some letter *)
Definition matches_anagram (anagram : list byte) (blank : byte) (w : word) : Prop :=
  exists fill, length fill = blanks_of anagram blank /\
               Permutation w (letters_of anagram blank ++ fill).

(* the same in counting form (executable): equal lengths, and the letters of w that the
   anagram's letters do not cover are at most as many as the blanks *)
Fixpoint remove_one (b : byte) (l : list byte) : option (list byte) :=
  match l with
  | [] => None
  | c :: l' => if N.eqb c b then Some l' else option_map (cons c) (remove_one b l')
  end.

(* number of letters of w left over after cancelling against [avail] *)
Fixpoint deficit (avail : list byte) (w : word) : nat :=
  match w with
  | [] => O
  | b :: w' => match remove_one b avail with
               | Some avail' => deficit avail' w'
               | None => S (deficit avail w')
               end
  end.

Definition matches_anagramb (anagram : list byte) (blank : byte) (w : word) : bool :=
  Nat.eqb (length w) (length anagram) &&
  Nat.leb (deficit (letters_of anagram blank) w) (blanks_of anagram blank).

(* ------------------------------------------------------------------ well-formed Dawg *)

(* number of links of the unfolded automaton *)
Fixpoint tedges (t : tree) : nat :=
  match t with
  | Node _ _ ch => fold_right (fun ct n => S (tedges (snd ct) + n)) O ch
  end.

(* The store node d is the root of an acyclic automaton (it unfolds to a finite tree t) in
   which every numWords field is the size of the right language and the labels of every node
   are strictly increasing; ws is its language in link order. *)
Definition dawg_wf (s : store) (d : N) (t : tree) : Prop :=
  rep s d t /\ counts_ok t /\ labels_sorted t.

(* the explicit fuel of Search for such a Dawg *)
Definition search_fuel (t : tree) : nat := S (2 * tedges t).

(* executable checker: unfold to depth [fuel], then test the two invariants *)
Fixpoint unfold_kids (rec : N -> option tree) (labs : list byte) (ks : list N)
  : option (list (byte * tree)) :=
  match labs, ks with
  | [], [] => Some []
  | c :: labs', k :: ks' =>
    match rec k, unfold_kids rec labs' ks' with
    | Some t, Some r => Some ((c, t) :: r)
    | _, _ => None
    end
  | _, _ => None
  end.

Fixpoint unfold_tree (fuel : nat) (s : store) (i : N) : option tree :=
  match fuel with
  | O => None
  | S f =>
    match sget s i with
    | None => None
    | Some n =>
      option_map (Node (nfinal n) (nwords n)) (unfold_kids (unfold_tree f s) (nlabels n) (nkids n))
    end
  end.

Fixpoint sorted_ltb (l : list byte) : bool :=
  match l with
  | [] => true
  | a :: l' => match l' with [] => true | b :: _ => N.ltb a b end && sorted_ltb l'
  end.

Fixpoint counts_okb (t : tree) : bool :=
  match t with
  | Node fin nw ch =>
    Z.eqb nw (tcount (Node fin nw ch)) && forallb (fun ct => counts_okb (snd ct)) ch
  end.

Fixpoint labels_sortedb (t : tree) : bool :=
  match t with
  | Node fin nw ch =>
    sorted_ltb (map fst ch) && forallb (fun ct => labels_sortedb (snd ct)) ch
  end.

Definition check_wf (fuel : nat) (s : store) (d : N) : option tree :=
  match unfold_tree fuel s d with
  | Some t => if counts_okb t && labels_sortedb t then Some t else None
  | None => None
  end.
