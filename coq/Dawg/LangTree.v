(* Tree level: membership in the language, Lookup as a function on trees, and its result as
   the position in the language list. *)
From Coq Require Import List NArith ZArith Bool Lia Sorted FinFun.
From Mamba Require Import Dawg.Model Dawg.Tree Dawg.Spec Dawg.TreeFacts Dawg.LangOrder.
Import ListNotations.

Definition tg (ct : byte * tree) : list word := map (cons (fst ct)) (tlang (snd ct)).

Lemma tlang_tg : forall f nw ch, tlang (Node f nw ch) = (if f then [[]] else []) ++ flat_map tg ch.
Proof. reflexivity. Qed.

Lemma sorted_NoDup : forall l, StronglySorted N.lt l -> NoDup l.
Proof.
  induction 1 as [|x l HS IH HF]; constructor; auto.
  intro Hin. rewrite Forall_forall in HF. specialize (HF x Hin). lia.
Qed.

(* ---------------------------------------------------------------- membership *)

Lemma in_flat_tg : forall w ch, In w (flat_map tg ch) <->
  exists c w' t', w = c :: w' /\ In (c, t') ch /\ In w' (tlang t').
Proof.
  intros w ch. rewrite in_flat_map. split.
  - intros ([c t'] & Hin & Hw). unfold tg in Hw. cbn [fst snd] in Hw. apply in_map_iff in Hw.
    destruct Hw as (w' & <- & Hw'). exists c, w', t'. auto.
  - intros (c & w' & t' & -> & Hin & Hw'). exists (c, t'). split; auto.
    unfold tg. cbn [fst snd]. apply in_map. exact Hw'.
Qed.

Lemma in_tlang_nil : forall f nw ch, In [] (tlang (Node f nw ch)) <-> f = true.
Proof.
  intros. rewrite tlang_tg, in_app_iff, in_flat_tg. split.
  - intros [H|(c & w' & t' & E & _)]; [|discriminate]. destruct f; [reflexivity|destruct H].
  - intros ->. left. left. reflexivity.
Qed.

Lemma in_tlang_cons : forall c w f nw ch, In (c :: w) (tlang (Node f nw ch)) <->
  exists t', In (c, t') ch /\ In w (tlang t').
Proof.
  intros. rewrite tlang_tg, in_app_iff, in_flat_tg. split.
  - intros [H|(c' & w' & t' & E & Hin & Hw)].
    + destruct f; [destruct H as [H|[]]; discriminate|destruct H].
    + inversion E; subst. eauto.
  - intros (t' & Hin & Hw). right. exists c, w, t'. auto.
Qed.

Lemma NoDup_app' : forall {A} (l1 l2 : list A), NoDup l1 -> NoDup l2 ->
  (forall x, In x l1 -> ~ In x l2) -> NoDup (l1 ++ l2).
Proof.
  induction l1 as [|a l1 IH]; intros l2 H1 H2 HD; simpl; auto.
  inversion H1; subst. constructor.
  - rewrite in_app_iff. intros [H|H]; [contradiction|]. apply (HD a); simpl; auto.
  - apply IH; auto. intros x Hx. apply HD. simpl; auto.
Qed.

Lemma NoDup_tlang : forall t, labels_sorted t -> NoDup (tlang t).
Proof.
  induction t as [f nw ch IH] using tree_ind'. intros HL.
  apply labels_sorted_inv in HL. destruct HL as [HS HC]. apply sorted_NoDup in HS.
  rewrite tlang_tg. apply NoDup_app'.
  - destruct f; constructor; [intros []|constructor].
  - clear f nw. induction ch as [|[c t] ch IHch]; simpl; [constructor|].
    inversion IH as [|? ? IHt IHrest]; subst. inversion HC as [|? ? HCt HCrest]; subst.
    inversion HS as [|? ? Hnc HSrest]; subst. cbn [fst snd] in *.
    apply NoDup_app'.
    + unfold tg. cbn [fst snd]. apply Injective_map_NoDup; [intros a b E; inversion E; auto|auto].
    + apply IHch; auto.
    + intros w Hw Hw2. unfold tg in Hw. cbn [fst snd] in Hw. apply in_map_iff in Hw. destruct Hw as (w' & <- & _).
      apply in_flat_tg in Hw2. destruct Hw2 as (c' & w'' & t' & E & Hin & _). inversion E; subst.
      apply Hnc. apply (in_map fst) in Hin. exact Hin.
  - intros w Hw Hw2. apply in_flat_tg in Hw2. destruct Hw2 as (c & w' & t' & -> & _).
    destruct f; [destruct Hw as [Hw|[]]; discriminate|destruct Hw].
Qed.

(* ---------------------------------------------------------------- Lookup on trees *)

Fixpoint tscan (c : byte) (ch : list (byte * tree)) (idx : Z) : option (tree * Z) :=
  match ch with
  | [] => None
  | (l, t) :: ch' => if N.eqb l c then Some (t, idx) else tscan c ch' (idx + tnw t)
  end.

Fixpoint tlookup (w : word) (t : tree) (idx : Z) : option Z :=
  match w with
  | [] => if tfin t then Some idx else None
  | c :: w' => match tscan c (tch t) idx with
               | None => None
               | Some (t', idx') => tlookup w' t' (if tfin t' then idx' + 1 else idx')
               end
  end.

Definition zrank (w : word) (l : list word) : option Z := option_map Z.of_nat (rank_of w l).

Lemma zrank_app : forall w l1 l2,
  zrank w (l1 ++ l2) =
  match zrank w l1 with
  | Some r => Some r
  | None => option_map (fun r => Z.of_nat (length l1) + r)%Z (zrank w l2)
  end.
Proof.
  intros w l1 l2. unfold zrank. induction l1 as [|x l1 IH]; cbn [rank_of app length option_map].
  - destruct (rank_of w l2); reflexivity.
  - destruct (word_eqb x w); [reflexivity|].
    destruct (rank_of w (l1 ++ l2)), (rank_of w l1); cbn [option_map] in *; try discriminate.
    + inversion IH. f_equal. lia.
    + destruct (rank_of w l2); cbn [option_map] in *; inversion IH. f_equal. lia.
    + destruct (rank_of w l2); cbn [option_map] in *; [discriminate|reflexivity].
Qed.

Lemma zrank_not_in : forall w l, ~ In w l -> zrank w l = None.
Proof. intros w l H. unfold zrank. apply rank_of_none in H. rewrite H. reflexivity. Qed.

Lemma zrank_map_cons : forall c w l, zrank (c :: w) (map (cons c) l) = zrank w l.
Proof.
  intros c w l. unfold zrank. induction l as [|x l IH]; cbn [map rank_of word_eqb option_map]; auto.
  rewrite N.eqb_refl. cbn [andb]. destruct (word_eqb x w); auto.
  destruct (rank_of (c :: w) (map (cons c) l)), (rank_of w l); cbn [option_map] in *; inversion IH; auto.
  f_equal. lia.
Qed.

Lemma zrank_cons_flat_none : forall c w ch, ~ In c (map fst ch) -> zrank (c :: w) (flat_map tg ch) = None.
Proof.
  intros c w ch H. apply zrank_not_in. intro Hin. apply in_flat_tg in Hin.
  destruct Hin as (c' & w' & t' & E & Hin & _). inversion E; subst. apply H. apply (in_map fst) in Hin. exact Hin.
Qed.

Lemma tscan_rank : forall c w ch idx,
  Forall (fun ct => counts_ok (snd ct)) ch -> NoDup (map fst ch) ->
  match tscan c ch idx with
  | None => zrank (c :: w) (flat_map tg ch) = None
  | Some (t', idx') =>
    In (c, t') ch /\
    zrank (c :: w) (flat_map tg ch) = option_map (fun r => idx' - idx + r)%Z (zrank w (tlang t'))
  end.
Proof.
  intros c w ch. induction ch as [|[l t] ch IH]; intros idx HC HN; cbn [tscan flat_map]; [reflexivity|].
  inversion HC as [|? ? HCt HCrest]; subst. inversion HN as [|? ? Hnl HNrest]; subst. cbn [fst snd] in *.
  rewrite zrank_app. change (tg (l, t)) with (map (cons l) (tlang t)).
  destruct (N.eqb_spec l c) as [->|NE].
  - split; [left; reflexivity|]. rewrite zrank_map_cons.
    destruct (zrank w (tlang t)) as [r|]; cbn [option_map]; [f_equal; lia|].
    rewrite zrank_cons_flat_none; auto.
  - rewrite zrank_not_in.
    2:{ intro Hin. apply in_map_iff in Hin. destruct Hin as (x & E & _). inversion E; subst. contradiction. }
    rewrite map_length.
    assert (Ht : tnw t = Z.of_nat (length (tlang t))).
    { destruct t as [f nw ch']. apply counts_ok_inv in HCt. destruct HCt as [E _]. exact E. }
    specialize (IH (idx + tnw t)%Z HCrest HNrest).
    destruct (tscan c ch (idx + tnw t)) as [[t' idx']|].
    + destruct IH as [Hin IH]. split; [right; exact Hin|]. rewrite IH.
      destruct (zrank w (tlang t')); cbn [option_map]; [f_equal; unfold word in *; lia|reflexivity].
    + rewrite IH. reflexivity.
Qed.

Lemma zrank_nil_flat : forall ch, zrank [] (flat_map tg ch) = None.
Proof.
  intros ch. apply zrank_not_in. intro Hin. apply in_flat_tg in Hin.
  destruct Hin as (c & w' & t' & E & _). discriminate.
Qed.

(* the index Lookup computes: entered at a node with [idx], it returns the position of w
   in the language of the node, counted from idx (from idx + 1 if the node is not final) *)
Lemma tlookup_rank : forall w t idx, counts_ok t -> labels_sorted t ->
  tlookup w t idx = option_map (fun r => (if tfin t then idx else idx + 1) + r)%Z (zrank w (tlang t)).
Proof.
  induction w as [|c w IH]; intros [f nw ch] idx HC HL.
  - cbn [tlookup tfin]. rewrite tlang_tg. destruct f.
    + unfold zrank. simpl. f_equal. lia.
    + simpl. rewrite zrank_nil_flat. reflexivity.
  - cbn [tlookup tfin tch]. rewrite tlang_tg.
    pose proof (counts_ok_inv _ _ _ HC) as [_ HCc]. pose proof (labels_sorted_inv _ _ _ HL) as [HS HLc].
    apply sorted_NoDup in HS.
    pose proof (tscan_rank c w ch idx HCc HS) as Hscan.
    assert (E0 : forall l, zrank (c :: w) ((if f then [[]] else []) ++ l) =
                 option_map (fun r => (if f then 1 else 0) + r)%Z (zrank (c :: w) l)).
    { intros l. destruct f; unfold zrank; cbn [app rank_of word_eqb]; destruct (rank_of (c :: w) l);
        cbn [option_map]; try reflexivity; f_equal; lia. }
    rewrite E0. clear E0.
    destruct (tscan c ch idx) as [[t' idx']|].
    + destruct Hscan as [Hin Hscan]. rewrite Hscan.
      rewrite Forall_forall in HCc, HLc. specialize (HCc _ Hin). specialize (HLc _ Hin). cbn [snd] in *.
      rewrite (IH t' _ HCc HLc).
      destruct (zrank w (tlang t')); cbn [option_map]; [|reflexivity].
      f_equal. destruct (tfin t'), f; lia.
    + rewrite Hscan. reflexivity.
Qed.
