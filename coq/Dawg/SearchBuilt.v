(* C13 composed with C12: Search on the Dawg that dawg.New builds from a strictly increasing
   word list.  The well-formedness hypothesis of SearchMain.search_full is discharged by
   LangStore.final_root (C12). *)
From Coq Require Import List NArith ZArith Bool Lia Sorted.
From Mamba Require Import Dawg.Model Dawg.Tree Dawg.Spec Dawg.TreeFacts Dawg.LangStore.
From Mamba Require Import Dawg.SearchModel Dawg.SearchSpec Dawg.SearchConcrete Dawg.SearchWf Dawg.SearchMain.
Import ListNotations.

Lemma new_dawg_wf : forall ws s, increasing ws -> new_dawg ws = Ok (Some s) ->
  exists t, dawg_wf s root t /\ trimmed t /\ tlang t = ws.
Proof.
  intros ws s Hinc H.
  destruct (final_root _ _ (new_dawg_final _ _ Hinc H)) as (t & HR & (HC & HL & HT) & HW).
  exists t. split; [split; [exact HR|split; assumption]|]. split; assumption.
Qed.

Theorem search_built : forall ws s, increasing ws -> new_dawg ws = Ok (Some s) ->
  forall sps xs, Forall2 built sps xs ->
  forall fuel, (2 * total_length ws + 1 <= fuel)%nat ->
  exists res xs1 xs2,
    search_c fuel s root xs = Ok (res, xs1) /\
    search_c fuel s root xs1 = Ok (res, xs2) /\
    Forall2 s_equiv xs1 xs /\ Forall2 s_equiv xs2 xs /\
    StronglySorted lex_lt (map fst res) /\
    forall w r, In (w, r) res <->
      (Forall (fun sp => spec_matches sp w) sps /\
       rank_of w ws = Some (Z.to_nat r) /\ (0 <= r)%Z).
Proof.
  intros ws s Hinc H sps xs Hb fuel Hfuel.
  destruct (new_dawg_wf ws s Hinc H) as (t & Hwf & Htr & Hws).
  pose proof (tedges_le_total_length t Htr) as Hte. rewrite Hws in Hte.
  destruct (search_full s root t Hwf sps xs Hb fuel) as (res & xs1 & xs2 & H1 & H2 & H3 & H4 & H5 & H6).
  { unfold search_fuel. lia. }
  exists res, xs1, xs2. rewrite Hws in H6. repeat (split; [assumption|]). exact H6.
Qed.
