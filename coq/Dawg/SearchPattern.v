(* PatternSearcher: acceptance = matches_pattern, and the searcher contract (C13). *)
From Coq Require Import List NArith ZArith Bool Lia.
From Mamba Require Import Dawg.Model Dawg.SearchModel Dawg.SearchSpec.
Import ListNotations.

Lemma skipn_nth_cons : forall {A} (l : list A) i, (i < length l)%nat ->
  exists c, nth_error l i = Some c /\ skipn i l = c :: skipn (S i) l.
Proof.
  induction l as [|a l IH]; intros i H; simpl in H; [lia|].
  destruct i as [|i].
  - exists a. split; reflexivity.
  - destruct (IH i) as [c [H1 H2]]; [lia|]. exists c. split; [exact H1|]. exact H2.
Qed.

Lemma matches_pattern_nil_l : forall bl w, matches_pattern [] bl w = match w with [] => true | _ => false end.
Proof. intros bl [|b w]; reflexivity. Qed.

(* a pattern searcher standing at position i accepts exactly the words matching pattern[i:] *)
Lemma ps_accepts_from : forall pat bl w i, (i <= length pat)%nat ->
  accepts concrete_ops (SPattern (mkPS pat bl (Z.of_nat i))) w = Ok (matches_pattern (skipn i pat) bl w).
Proof.
  intros pat bl w. induction w as [|b w IH]; intros i Hi.
  - cbn [accepts concrete_ops op_allow_word]. unfold ps_allow_word. cbn [ps_index ps_pattern].
    f_equal. destruct (Z.eqb_spec (Z.of_nat i) (Z.of_nat (length pat))) as [E|E].
    + apply Nat2Z.inj in E. subst i. rewrite skipn_all. reflexivity.
    + assert (i < length pat)%nat as Hlt by lia.
      destruct (skipn_nth_cons pat i Hlt) as [c [_ Hs]]. rewrite Hs. reflexivity.
  - cbn [accepts concrete_ops op_allow_step op_step]. unfold ps_allow_step. cbn [ps_index ps_pattern ps_blank].
    destruct (Z.leb_spec (Z.of_nat (length pat)) (Z.of_nat i)) as [E|E].
    + assert (i = length pat) by lia. subst i. rewrite skipn_all. cbn [bind]. reflexivity.
    + assert (i < length pat)%nat as Hlt by lia.
      destruct (Z.ltb_spec (Z.of_nat i) 0) as [E0|E0]; [lia|].
      rewrite Nat2Z.id.
      destruct (skipn_nth_cons pat i Hlt) as [c [Hn Hs]]. rewrite Hn, Hs. cbn [bind matches_pattern].
      destruct (N.eqb c bl || N.eqb c b) eqn:Ea; cbn [andb]; [|reflexivity].
      unfold ps_step. cbn [ps_index ps_pattern ps_blank].
      replace (Z.of_nat i + 1)%Z with (Z.of_nat (S i)) by lia.
      apply IH. lia.
Qed.

Theorem ps_accepts : forall pat bl w,
  accepts concrete_ops (SPattern (new_pattern_searcher pat bl)) w = Ok (matches_pattern pat bl w).
Proof. intros. exact (ps_accepts_from pat bl w O (Nat.le_0_l _)). Qed.

Corollary ps_acc : forall pat bl w,
  acc concrete_ops (SPattern (new_pattern_searcher pat bl)) w = matches_pattern pat bl w.
Proof. intros. unfold acc. rewrite ps_accepts. destruct (matches_pattern pat bl w); reflexivity. Qed.
