(* Composition C12 + C14: the library's own node count (numberOfNodes = the iterative traversal
   listNodesCountEdges, modelled array-level in Dawg/Model.v) returns, on the automaton New
   builds, the size of the minimal automaton of the word set.
   C12 (MinimalStore.dawg_minimal): the keys reachable from the root are minimal_size ws many.
   C14 (CodecRoundtrip.number_of_nodes_reachable): on a wf_dawg the traversal returns the
   number of reachable keys; (CodecBuilt.built_wf_letters): built automata are wf_dawg. *)
From Coq Require Import List NArith ZArith Bool Lia Arith.
From Mamba Require Import Dawg.Model Dawg.Spec Dawg.BuildIds Dawg.MinimalStore Dawg.BuildSeq
  Dawg.CodecModel Dawg.CodecWf Dawg.CodecStable Dawg.CodecRoundtrip Dawg.CodecBuilt.
Import ListNotations.
Local Open Scope N_scope.

Lemma nodup_same_length {A} (l1 l2 : list A) : NoDup l1 -> NoDup l2 ->
  (forall x, In x l1 <-> In x l2) -> length l1 = length l2.
Proof.
  intros H1 H2 H. apply Nat.le_antisymm; apply NoDup_incl_length; try assumption;
    intros x Hx; apply H; exact Hx.
Qed.

Lemma number_of_nodes_stable s d f r : number_of_nodes f s d = r -> r <> NoFuel ->
  forall f', (f <= f')%nat -> number_of_nodes f' s d = r.
Proof.
  unfold number_of_nodes. intros H Hr f' Hle.
  destruct (list_nodes_count_edges f s d) as [p| |] eqn:E; cbn [bind] in H.
  - rewrite (list_nodes_stable _ _ _ _ E ltac:(discriminate) f' Hle). exact H.
  - rewrite (list_nodes_stable _ _ _ _ E ltac:(discriminate) f' Hle). exact H.
  - congruence.
Qed.

(* on a well-formed automaton: for every fuel the traversal gives NoFuel or the one count,
   never a panic, and from some fuel on the count *)
Lemma number_of_nodes_total s d n f0 :
  (forall fuel, (f0 <= fuel)%nat -> number_of_nodes fuel s d = Ok n) ->
  forall fuel, number_of_nodes fuel s d = Ok n \/ number_of_nodes fuel s d = NoFuel.
Proof.
  intros H fuel. destruct (number_of_nodes fuel s d) as [m| |] eqn:E; [left | exfalso | right; reflexivity].
  - pose proof (number_of_nodes_stable s d fuel (Ok m) E ltac:(discriminate) (Nat.max fuel f0) ltac:(lia)) as H'.
    rewrite H in H' by lia. symmetry. exact H'.
  - pose proof (number_of_nodes_stable s d fuel Panic E ltac:(discriminate) (Nat.max fuel f0) ltac:(lia)) as H'.
    rewrite H in H' by lia. discriminate.
Qed.

Theorem built_number_of_nodes : forall ws s,
  increasing ws -> Forall (Forall (fun b => b < 256)) ws -> (Z.of_nat (length ws) < 2 ^ 63)%Z ->
  total_letters ws < 2 ^ 64 - 1 ->
  new_dawg ws = Ok (Some s) ->
  exists f0,
    (forall fuel, (f0 <= fuel)%nat -> number_of_nodes fuel s root = Ok (minimal_size ws)) /\
    (forall fuel, number_of_nodes fuel s root = Ok (minimal_size ws) \/
                  number_of_nodes fuel s root = NoFuel).
Proof.
  intros ws s Hinc Hb Hc Ht Hnew.
  destruct (number_of_nodes_reachable s root (built_wf_letters ws s Hinc Hb Hc Ht Hnew))
    as (f0 & order & Hnd & Hall & Hnn).
  destruct (dawg_minimal ws s Hinc Hnew) as (L & HndL & HallL & HlenL).
  assert (E : length order = minimal_size ws).
  { rewrite <- HlenL. apply nodup_same_length; [exact Hnd | exact HndL|].
    intros k. rewrite Hall, HallL. split; [apply reach_wf_spec | apply reach_spec_wf]. }
  rewrite E in Hnn. exists f0. split; [exact Hnn|].
  apply (number_of_nodes_total s root (minimal_size ws) f0 Hnn).
Qed.

(* the same for whatever a Builder returns after any sequence of Add calls *)
Theorem builder_number_of_nodes : forall args b oks s,
  add_seq initialise args = Ok (b, oks) -> finish b = Ok (Some s) ->
  Forall (Forall (fun c => c < 256)) (kept None args) ->
  (Z.of_nat (length (kept None args)) < 2 ^ 63)%Z ->
  total_letters (kept None args) < 2 ^ 64 - 1 ->
  exists f0,
    (forall fuel, (f0 <= fuel)%nat ->
       number_of_nodes fuel s root = Ok (minimal_size (kept None args))) /\
    (forall fuel, number_of_nodes fuel s root = Ok (minimal_size (kept None args)) \/
                  number_of_nodes fuel s root = NoFuel).
Proof.
  intros args b oks s Hseq Hfin Hb Hc Ht.
  rewrite (finish_after_add_seq args b oks Hseq) in Hfin.
  exact (built_number_of_nodes _ s (kept_increasing args) Hb Hc Ht Hfin).
Qed.
