(* Two automata related by a map of their nodes that keeps ids, numWords, final flags, labels
   and maps links to links are indistinguishable for the traversal, GobEncode, Lookup,
   NumberOfWords, the node count and the enumeration of the words. *)
From Coq Require Import List NArith ZArith Bool Lia Arith.
From Mamba Require Import Dawg.Model Dawg.Spec Dawg.CodecModel Dawg.CodecWf.
Import ListNotations.
Local Open Scope N_scope.

Definition copy_node (phi : N -> N) (n : node) : node :=
  mkNode (nid n) (nwords n) (nfinal n) (nlabels n) (map phi (nkids n)).

Definition iso (s : store) (d : N) (s2 : store) (d2 : N) (phi : N -> N) : Prop :=
  phi d = d2 /\
  forall k, reach s d k -> exists n, sget s k = Some n /\ sget s2 (phi k) = Some (copy_node phi n).

Definition res_map {A B} (f : A -> B) (r : res A) : res B :=
  match r with Ok a => Ok (f a) | Panic => Panic | NoFuel => NoFuel end.

Section Iso.
Variables (s : store) (d : N) (s2 : store) (d2 : N) (phi : N -> N).
Hypothesis Hiso : iso s d s2 d2 phi.

Definition dom (k : N) : Prop := reach s d k.

Lemma dom_node k : dom k -> exists n, sget s k = Some n /\ sget s2 (phi k) = Some (copy_node phi n).
Proof. apply (proj2 Hiso). Qed.

Lemma dom_kid k n k' : dom k -> sget s k = Some n -> In k' (nkids n) -> dom k'.
Proof. intros Hk Hn Hin. exact (reach_kid s d k n k' Hk Hn Hin). Qed.

Lemma dom_root : dom d.
Proof. constructor. Qed.

Definition map_stack (stk : list (N * nat)) : list (N * nat) := map (fun e => (phi (fst e), snd e)) stk.
Definition map_st (st : dfs_state) : dfs_state :=
  mkDfs (map_stack (dstack st)) (dnodes st) (dedges st) (dout st).
Definition map_inner (r : inner_result) : inner_result :=
  match r with Descend st => Descend (map_st st) | Exhausted st => Exhausted (map_st st) end.

Variables (emit emit2 : node -> list byte).
Hypothesis Hemit : forall k n, dom k -> sget s k = Some n -> emit2 (copy_node phi n) = emit n.

Lemma map_set_top_next stk nx : map_stack (set_top_next stk nx) = set_top_next (map_stack stk) nx.
Proof. destruct stk as [|[k n] r]; reflexivity. Qed.

Lemma sim_inner : forall labs kids j st, (forall k, In k kids -> dom k) ->
  dfs_inner emit2 s2 j labs (map phi kids) (map_st st) = res_map map_inner (dfs_inner emit s j labs kids st).
Proof.
  induction labs as [|l labs IH]; intros kids j st Hdom; [reflexivity|].
  destruct st as [stk nodes edges out].
  cbn [dfs_inner]. destruct kids as [|k kids]; [reflexivity|]. cbn [map map_st dstack dnodes dedges dout].
  destruct stk as [|e es]; [reflexivity|]. cbn [map_stack map].
  destruct (dom_node k (Hdom k (or_introl eq_refl))) as [n [Hn Hn2]].
  unfold deref. rewrite Hn, Hn2. cbn [bind copy_node nid nkids].
  change ((phi (fst e), snd e) :: map (fun e0 => (phi (fst e0), snd e0)) es) with (map_stack (e :: es)).
  rewrite <- map_set_top_next.
  destruct (seen_at (nid n) nodes (lower_bound (nid n) nodes)).
  - rewrite <- IH by (intros k' Hk'; apply Hdom; right; exact Hk'). reflexivity.
  - cbn [res_map map_inner map_st dstack dnodes dedges dout map_stack map fst snd].
    rewrite map_length. change (mkNode (nid n) (nwords n) (nfinal n) (nlabels n) (map phi (nkids n))) with (copy_node phi n).
    rewrite (Hemit k n (Hdom k (or_introl eq_refl)) Hn). reflexivity.
Qed.

(* the keys on the stack stay inside the automaton *)
Lemma inner_stack_dom : forall labs kids j st r, (forall k, In k kids -> dom k) ->
  (forall e, In e (dstack st) -> dom (fst e)) ->
  dfs_inner emit s j labs kids st = Ok r ->
  forall e, In e (dstack (match r with Descend st' => st' | Exhausted st' => st' end)) -> dom (fst e).
Proof.
  induction labs as [|l labs IH]; intros kids j st r Hkids Hstk Hrun.
  - cbn in Hrun. injection Hrun as <-. exact Hstk.
  - cbn [dfs_inner] in Hrun. destruct kids as [|k kids]; [discriminate|].
    destruct (dstack st) as [|e0 es] eqn:Hst; [discriminate|].
    destruct (deref s k) as [nk| |]; cbn [bind] in Hrun; try discriminate.
    assert (Hstk' : forall e, In e ((k, O) :: set_top_next (e0 :: es) (S j)) -> dom (fst e)).
    { intros e [<- | He]; [apply Hkids; left; reflexivity|].
      destruct e0 as [k0 n0]. cbn in He. destruct He as [<- | He].
      - apply (Hstk (k0, n0)). left. reflexivity.
      - apply Hstk. right. exact He. }
    destruct (seen_at (nid nk) (dnodes st) (lower_bound (nid nk) (dnodes st))).
    + exact (IH kids (S j) (mkDfs ((k, O) :: set_top_next (e0 :: es) (S j)) (dnodes st) (dedges st) (dout st)) r
               (fun k' Hk' => Hkids k' (or_intror Hk')) Hstk' Hrun).
    + injection Hrun as <-. exact Hstk'.
Qed.

Lemma sim_loop : forall fuel st, (forall e, In e (dstack st) -> dom (fst e)) ->
  dfs_loop emit2 fuel s2 (map_st st) = res_map map_st (dfs_loop emit fuel s st).
Proof.
  induction fuel as [|fuel IH]; intros st Hstk; [reflexivity|].
  destruct st as [stk nodes edges out]. cbn [dfs_loop map_st dstack dnodes dedges dout].
  destruct stk as [|[cur next] rest]; [reflexivity|]. cbn [map_stack map fst snd].
  assert (Hcur : dom cur) by (apply (Hstk (cur, next)); left; reflexivity).
  destruct (dom_node cur Hcur) as [n [Hn Hn2]]. unfold deref. rewrite Hn, Hn2. cbn [bind copy_node nlabels nkids].
  rewrite skipn_map.
  assert (Hkids : forall k, In k (skipn next (nkids n)) -> dom k).
  { intros k Hk. apply (dom_kid cur n k Hcur Hn). exact (in_skipn _ _ _ Hk). }
  pose proof (sim_inner (skipn next (nlabels n)) (skipn next (nkids n)) next
                (mkDfs ((cur, next) :: rest) nodes edges out) Hkids) as Hsim.
  cbn [map_st dstack dnodes dedges dout map_stack map fst snd] in Hsim. rewrite Hsim.
  pose proof (inner_stack_dom (skipn next (nlabels n)) (skipn next (nkids n)) next
                (mkDfs ((cur, next) :: rest) nodes edges out)) as Hdom'.
  destruct (dfs_inner emit s next (skipn next (nlabels n)) (skipn next (nkids n))
              (mkDfs ((cur, next) :: rest) nodes edges out)) as [[st'|st']| |];
    cbn [res_map map_inner bind]; try reflexivity.
  - apply IH. apply (Hdom' (Descend st') Hkids); [exact Hstk | reflexivity].
  - specialize (Hdom' (Exhausted st') Hkids Hstk eq_refl). cbn in Hdom'.
    destruct st' as [stk' nodes' edges' out']. cbn [map_st dstack dnodes dedges dout] in *.
    destruct stk' as [|e1 [|e2 r2]]; cbn [map_stack map]; try reflexivity.
    specialize (IH (mkDfs (e2 :: r2) nodes' edges' out')).
    cbn [map_st dstack dnodes dedges dout map_stack map] in IH.
    apply IH. intros e He. apply Hdom'. right. exact He.
Qed.

End Iso.

(* ------------------------------------------------------------------ what is preserved *)

Section IsoObs.
Variables (s : store) (d : N) (s2 : store) (d2 : N) (phi : N -> N).
Hypothesis Hiso : iso s d s2 d2 phi.

Lemma iso_list_nodes fuel : list_nodes_count_edges fuel s2 d2 = list_nodes_count_edges fuel s d.
Proof.
  unfold list_nodes_count_edges. destruct (dom_node s d s2 d2 phi Hiso d (dom_root s d)) as [n [Hn Hn2]].
  rewrite (proj1 Hiso) in Hn2. unfold deref. rewrite Hn, Hn2. cbn [bind copy_node nid nkids].
  rewrite map_length.
  pose proof (sim_loop s d s2 d2 phi Hiso (fun _ => []) (fun _ => []) (fun _ _ _ _ => eq_refl) fuel
                (mkDfs [(d, O)] [nid n] (Z.of_nat (length (nkids n))) [])) as Hsim.
  unfold map_st at 1 in Hsim. unfold map_stack in Hsim. cbn [dstack dnodes dedges dout map fst snd] in Hsim.
  rewrite (proj1 Hiso) in Hsim. rewrite Hsim.
  - destruct (dfs_loop _ fuel s _) as [st| |]; reflexivity.
  - intros e [<- | []]. apply dom_root.
Qed.

Theorem iso_number_of_nodes fuel : number_of_nodes fuel s2 d2 = number_of_nodes fuel s d.
Proof. unfold number_of_nodes. rewrite iso_list_nodes. reflexivity. Qed.

Lemma iso_emit_links sorted : forall labs kids, (forall k, In k kids -> dom s d k) ->
  emit_links s2 sorted labs (map phi kids) = emit_links s sorted labs kids.
Proof.
  induction labs as [|l labs IH]; intros kids Hdom; [reflexivity|].
  destruct kids as [|k kids]; [reflexivity|]. cbn [map emit_links].
  destruct (dom_node s d s2 d2 phi Hiso k (Hdom k (or_introl eq_refl))) as [n [Hn Hn2]].
  rewrite Hn, Hn2. cbn [copy_node nid]. rewrite IH; [reflexivity|].
  intros k' Hk'. apply Hdom. right. exact Hk'.
Qed.

Lemma iso_emit_node sorted k n : dom s d k -> sget s k = Some n ->
  emit_node s2 sorted (copy_node phi n) = emit_node s sorted n.
Proof.
  intros Hk Hn. unfold emit_node. cbn [copy_node nid nwords nfinal nlabels nkids].
  rewrite iso_emit_links; [reflexivity|]. intros k' Hk'. exact (dom_kid s d k n k' Hk Hn Hk').
Qed.

(* encoding the copy gives the same result, whatever the fuel *)
Theorem iso_gob_encode fuel : gob_encode fuel s2 d2 = gob_encode fuel s d.
Proof.
  unfold gob_encode. rewrite iso_list_nodes.
  destruct (list_nodes_count_edges fuel s d) as [[sorted edges]| |]; cbn [bind]; try reflexivity.
  destruct (dom_node s d s2 d2 phi Hiso d (dom_root s d)) as [n [Hn Hn2]].
  rewrite (proj1 Hiso) in Hn2. unfold deref. rewrite Hn, Hn2. cbn [bind].
  rewrite (iso_emit_node sorted d n (dom_root s d) Hn).
  pose proof (sim_loop s d s2 d2 phi Hiso (emit_node s sorted) (emit_node s2 sorted)
                (iso_emit_node sorted) fuel
                (mkDfs [(d, O)] (repeat 0 (length sorted)) edges (gob_header sorted ++ emit_node s sorted n))) as Hsim.
  unfold map_st at 1 in Hsim. unfold map_stack in Hsim. cbn [dstack dnodes dedges dout map fst snd] in Hsim.
  rewrite (proj1 Hiso) in Hsim. rewrite Hsim.
  - destruct (dfs_loop _ fuel s _) as [st| |]; reflexivity.
  - intros e [<- | []]. apply dom_root.
Qed.

Theorem iso_number_of_words : number_of_words s2 d2 = number_of_words s d.
Proof.
  unfold number_of_words. destruct (dom_node s d s2 d2 phi Hiso d (dom_root s d)) as [n [Hn Hn2]].
  rewrite (proj1 Hiso) in Hn2. unfold deref. rewrite Hn, Hn2. reflexivity.
Qed.

Lemma iso_scan_links c : forall labs kids idx, (forall k, In k kids -> dom s d k) ->
  scan_links s2 c labs (map phi kids) idx =
  res_map (option_map (fun p => (phi (fst p), snd p))) (scan_links s c labs kids idx).
Proof.
  induction labs as [|l labs IH]; intros kids idx Hdom; [reflexivity|].
  destruct kids as [|k kids]; [reflexivity|]. cbn [map scan_links].
  destruct (N.eqb l c); [reflexivity|].
  destruct (dom_node s d s2 d2 phi Hiso k (Hdom k (or_introl eq_refl))) as [n [Hn Hn2]].
  unfold deref. rewrite Hn, Hn2. cbn [bind copy_node nwords]. apply IH.
  intros k' Hk'. apply Hdom. right. exact Hk'.
Qed.

Lemma iso_lookup_from : forall w k idx, dom s d k ->
  lookup_from s2 (phi k) w idx = lookup_from s k w idx.
Proof.
  induction w as [|c w IH]; intros k idx Hk;
    destruct (dom_node s d s2 d2 phi Hiso k Hk) as [n [Hn Hn2]]; cbn [lookup_from];
    unfold deref; rewrite Hn, Hn2; cbn [bind copy_node nfinal nlabels nkids]; [reflexivity|].
  rewrite iso_scan_links by (intros k' Hk'; exact (dom_kid s d k n k' Hk Hn Hk')).
  assert (Hsc : forall labs kids i k' i', (forall x, In x kids -> In x (nkids n)) ->
                scan_links s c labs kids i = Ok (Some (k', i')) -> In k' (nkids n)).
  { induction labs as [|l labs IHl]; intros kids i k' i' Hsub Hrun; [discriminate|].
    destruct kids as [|x kids]; [discriminate|]. cbn [scan_links] in Hrun.
    destruct (N.eqb l c).
    - injection Hrun as <- _. apply Hsub. left. reflexivity.
    - destruct (deref s x); cbn [bind] in Hrun; try discriminate.
      eapply IHl; [intros y Hy; apply Hsub; right; exact Hy | exact Hrun]. }
  destruct (scan_links s c (nlabels n) (nkids n) idx) as [[[k' i']|]| |] eqn:Hscan;
    cbn [res_map option_map bind fst snd]; try reflexivity.
  assert (Hk' : dom s d k').
  { apply (dom_kid s d k n k' Hk Hn). apply (Hsc _ _ _ _ _ (fun x H => H) Hscan). }
  destruct (dom_node s d s2 d2 phi Hiso k' Hk') as [n' [Hn' Hn2']].
  rewrite Hn', Hn2'. cbn [bind copy_node nfinal]. apply IH. exact Hk'.
Qed.

(* Lookup: the same answer and the same rank for every word *)
Theorem iso_lookup w : lookup s2 d2 w = lookup s d w.
Proof.
  unfold lookup. destruct (dom_node s d s2 d2 phi Hiso d (dom_root s d)) as [n [Hn Hn2]].
  rewrite (proj1 Hiso) in Hn2. unfold deref. rewrite Hn, Hn2. cbn [bind copy_node nfinal].
  rewrite <- (proj1 Hiso). apply iso_lookup_from. apply dom_root.
Qed.

(* the enumeration of the words in link order *)
Theorem iso_words_from : forall fuel k, dom s d k -> words_from fuel s2 (phi k) = words_from fuel s k.
Proof.
  induction fuel as [|fuel IH]; intros k Hk; [reflexivity|]. cbn [words_from].
  destruct (dom_node s d s2 d2 phi Hiso k Hk) as [n [Hn Hn2]].
  unfold deref. rewrite Hn, Hn2. cbn [bind copy_node nfinal nlabels nkids].
  assert (Hkids : forall x, In x (nkids n) -> dom s d x) by (intros x Hx; exact (dom_kid s d k n x Hk Hn Hx)).
  revert Hkids. generalize (nkids n) as kids. generalize (nlabels n) as labs.
  assert (Hinner : forall labs kids, (forall x, In x kids -> dom s d x) ->
    (fix kids0 (labs0 : list byte) (ks : list N) {struct labs0} : res (list word) :=
       match labs0 with
       | [] => Ok []
       | c :: labs' => match ks with
                       | [] => Panic
                       | k0 :: ks' => do a <- words_from fuel s2 k0; do b <- kids0 labs' ks'; Ok (map (cons c) a ++ b)
                       end
       end) labs (map phi kids) =
    (fix kids0 (labs0 : list byte) (ks : list N) {struct labs0} : res (list word) :=
       match labs0 with
       | [] => Ok []
       | c :: labs' => match ks with
                       | [] => Panic
                       | k0 :: ks' => do a <- words_from fuel s k0; do b <- kids0 labs' ks'; Ok (map (cons c) a ++ b)
                       end
       end) labs kids).
  { induction labs as [|c labs IHl]; intros kids Hd; [reflexivity|].
    destruct kids as [|x kids]; [reflexivity|]. cbn [map].
    rewrite IH by (apply Hd; left; reflexivity).
    rewrite IHl by (intros y Hy; apply Hd; right; exact Hy). reflexivity. }
  intros labs kids Hd. rewrite Hinner by exact Hd. reflexivity.
Qed.

End IsoObs.
