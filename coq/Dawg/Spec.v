(* Specification of C12 on word lists, independent of the automaton: lexicographic order,
   rank, residual languages and the size of the minimal deterministic acyclic automaton
   (number of Myhill-Nerode classes of the prefixes, the initial state always counted).
   Also an executable enumeration of the language of a store node, used by the model driver.
   Definitions only. *)
From Coq Require Import List NArith ZArith Bool.
From Mamba Require Import Dawg.Model.
Import ListNotations.

Definition lex_lt (a b : word) : Prop := lex_compare a b = Lt.

(* strictly increasing list of words *)
Fixpoint increasing (ws : list word) : Prop :=
  match ws with
  | [] => True
  | w :: ws' => match ws' with [] => True | w' :: _ => lex_lt w w' end /\ increasing ws'
  end.

Fixpoint word_eqb (a b : word) : bool :=
  match a, b with
  | [], [] => true
  | x :: a', y :: b' => N.eqb x y && word_eqb a' b'
  | _, _ => false
  end.

(* position of w in ws *)
Fixpoint rank_of (w : word) (ws : list word) : option nat :=
  match ws with
  | [] => None
  | x :: ws' => if word_eqb x w then Some O else option_map S (rank_of w ws')
  end.

(* u^{-1} W as a list, in the order of W *)
Fixpoint strip_prefix (u w : word) : option word :=
  match u with
  | [] => Some w
  | c :: u' => match w with
               | [] => None
               | d :: w' => if N.eqb c d then strip_prefix u' w' else None
               end
  end.

Fixpoint residual (u : word) (ws : list word) : list word :=
  match ws with
  | [] => []
  | w :: ws' => match strip_prefix u w with
                | Some r => r :: residual u ws'
                | None => residual u ws'
                end
  end.

Fixpoint prefixes (w : word) : list word :=
  match w with
  | [] => [[]]
  | c :: w' => [] :: map (cons c) (prefixes w')
  end.

Fixpoint lang_eqb (a b : list word) : bool :=
  match a, b with
  | [], [] => true
  | x :: a', y :: b' => word_eqb x y && lang_eqb a' b'
  | _, _ => false
  end.

Fixpoint lang_mem (l : list word) (ls : list (list word)) : bool :=
  match ls with
  | [] => false
  | x :: ls' => lang_eqb x l || lang_mem l ls'
  end.

Fixpoint dedup (ls : list (list word)) : list (list word) :=
  match ls with
  | [] => []
  | l :: ls' => if lang_mem l ls' then dedup ls' else l :: dedup ls'
  end.

(* the residuals of all prefixes of words of ws, and of the empty prefix *)
Definition residuals (ws : list word) : list (list word) :=
  dedup (map (fun u => residual u ws) ([] :: flat_map prefixes ws)).

Definition minimal_size (ws : list word) : nat := length (residuals ws).

(* the words accepted from node i in link order; fuel = longest word + 1 *)
Fixpoint words_from (fuel : nat) (s : store) (i : N) : res (list word) :=
  match fuel with
  | O => NoFuel
  | S f =>
    do n <- deref s i;
    do rest <- (fix kids (labs : list byte) (ks : list N) : res (list word) :=
                  match labs, ks with
                  | [], _ => Ok []
                  | _ :: _, [] => Panic
                  | c :: labs', k :: ks' =>
                    do a <- words_from f s k;
                    do b <- kids labs' ks';
                    Ok (map (cons c) a ++ b)
                  end) (nlabels n) (nkids n);
    Ok ((if nfinal n then [[]] else []) ++ rest)
  end.

(* ---------------------------------------------------------------- the automaton as a relation
   (specification level, used by the theorems of C12)
   [accepts s i w]: from node i the word w leads to a final node, taking for every byte the
   first link with that label (as Lookup and commonPrefix do). *)
Inductive accepts (s : store) : N -> word -> Prop :=
| accepts_nil i n : sget s i = Some n -> nfinal n = true -> accepts s i []
| accepts_cons i n c w j k :
    sget s i = Some n -> index_of c (nlabels n) = Some j -> nth_error (nkids n) j = Some k ->
    accepts s k w -> accepts s i (c :: w).

(* [reach s i j]: node j can be reached from node i along links *)
Inductive reach (s : store) : N -> N -> Prop :=
| reach_refl i : reach s i i
| reach_step i n k j : sget s i = Some n -> In k (nkids n) -> reach s k j -> reach s i j.
