(* replaceOrRegister on the store: every node of the spine below the argument is either
   registered or replaced in its parent by the registered node of the same tree; the
   unfolding of every surviving node is unchanged. *)
From Coq Require Import List NArith ZArith Bool Lia Sorted FMapPositive.
From Mamba Require Import Dawg.Model Dawg.Tree Dawg.Spec Dawg.TreeFacts Dawg.BuildStore.
Import ListNotations.

Definition ror_finish (s1 : store) (reg1 : list N) (t lc : N) : res (store * list N) :=
  do nlc1 <- deref s1 lc;
  do e <- find_equiv s1 nlc1 reg1;
  match e with
  | Some u => do nt1 <- deref s1 t; Ok (sset s1 t (set_last_kid nt1 u), reg1)
  | None => Ok (s1, reg1 ++ [lc])
  end.

Lemma ror_unfold : forall f s t reg,
  replace_or_register (S f) s t reg =
  do nt <- deref s t;
  match last_opt (nkids nt) with
  | None => Panic
  | Some lc =>
    do nlc <- deref s lc;
    do sr <- (match nkids nlc with
              | [] => Ok (s, reg)
              | _ :: _ => replace_or_register f s lc reg
              end);
    let '(s1, reg1) := sr in ror_finish s1 reg1 t lc
  end.
Proof. reflexivity. Qed.

Lemma reg_node_wf : forall s reg, reg_ok s reg ->
  forall u, In u reg -> exists nu, sget s u = Some nu /\ node_wf nu.
Proof.
  intros s reg (HC & HT & _) u Hu. destruct (closed_In_node _ _ _ HC Hu) as (nu & Hnu).
  destruct (HT u Hu) as (t & Ht & _). exists nu. split; auto. eapply rep_node_wf; eauto.
Qed.

Lemma ror_tail : forall s1 reg1 i k n ch0 c ks tk,
  reg_ok s1 reg1 -> srep s1 reg1 k [] tk -> good tk -> tlang tk <> [] ->
  sget s1 i = Some n -> ~ In i reg1 -> (i < k)%N ->
  nlabels n = map fst ch0 ++ [c] -> nkids n = ks ++ [k] ->
  Forall2 (rep s1) ks (map snd ch0) -> Forall (fun k => In k reg1) ks ->
  exists s' reg', ror_finish s1 reg1 i k = Ok (s', reg') /\
    srep s' reg' i [] (Node (nfinal n) (nwords n) (ch0 ++ [(c, tk)])) /\
    reg_ok s' reg' /\ incl reg1 reg' /\
    (forall j, In j reg' -> In j reg1 \/ j = k) /\
    (forall j, j <> i -> sget s' j = sget s1 j) /\
    (forall j, sget s1 j = None -> sget s' j = None).
Proof.
  intros s1 reg1 i k n ch0 c ks tk HR HSk Hg Hne Hi Hir Hik Hl Hks Hreps Hkreg.
  pose proof (srep_rep _ _ _ _ _ HSk) as Hrk.
  inversion HSk as [k' nk chk Hnk Hkr Hlk Hkk Hkkr|]; subst.
  unfold ror_finish. rewrite (deref_ok _ _ _ Hnk). cbn [bind].
  destruct (find_equiv_spec s1 nk reg1) as (e & He & Hspec).
  { eapply rep_node_wf; eauto. }
  { apply reg_node_wf; auto. }
  rewrite He. cbn [bind].
  destruct HR as (HC & HT & HD).
  destruct e as [u|].
  - (* an equivalent registered node: the link is redirected *)
    destruct Hspec as (Hu & nu & Hnu & Hshape).
    rewrite (deref_ok _ _ _ Hi). cbn [bind].
    destruct (HT u Hu) as (tu & Htu & (Hcu & _) & _).
    assert (Etu : Node (nfinal nk) (nwords nk) chk = tu).
    { eapply same_shape_same_tree with (a := k) (b := u); eauto. destruct Hg; auto. }
    set (n' := set_last_kid n u).
    set (s' := sset s1 i n').
    assert (HF : forall r, In r reg1 -> sget s' r = sget s1 r).
    { intros r Hr. unfold s'. apply sget_sset_other. intro E; subst; contradiction. }
    exists s', reg1. split; [reflexivity|].
    split; [|split; [|split; [|split; [|split]]]].
    + eapply srep_end' with (n := n') (ch := ch0 ++ [(c, Node (nfinal nk) (nwords nk) chk)]).
      * unfold s'. apply sget_sset_same.
      * exact Hir.
      * unfold n', set_last_kid. cbn [nlabels]. rewrite Hl, map_app. reflexivity.
      * unfold n', set_last_kid. cbn [nkids]. rewrite Hks, removelast_last, map_app.
        apply Forall2_app.
        -- eapply Forall2_rep_frame; eauto.
        -- constructor; [|constructor]. cbn [snd]. rewrite Etu. eapply (rep_frame s1 s' reg1); eauto.
      * unfold n', set_last_kid. cbn [nkids]. rewrite Hks, removelast_last.
        apply Forall_app. split; auto.
      * reflexivity.
    + eapply reg_frame; eauto. repeat split; auto.
    + apply incl_refl.
    + intros j Hj. left; exact Hj.
    + intros j Hj. unfold s'. apply sget_sset_other. auto.
    + intros j Hj. unfold s'. rewrite sget_sset_other; auto. intro E; subst. congruence.
  - (* no equivalent node: the child is registered *)
    exists s1, (reg1 ++ [k]). split; [reflexivity|].
    assert (HR' : reg_ok s1 (reg1 ++ [k])).
    { split; [|split].
      - intros r Hr. apply in_app_or in Hr. destruct Hr as [Hr|[<-|[]]].
        + destruct (HC r Hr) as (nr & Hnr & Hkr'). exists nr. split; auto.
          eapply Forall_impl; [|exact Hkr']. intros a Ha. apply in_or_app. left; exact Ha.
        + exists nk. split; auto.
          eapply Forall_impl; [|exact Hkkr]. intros a Ha. apply in_or_app. left; exact Ha.
      - intros r Hr. apply in_app_or in Hr. destruct Hr as [Hr|[<-|[]]]; [apply HT; auto|].
        eexists. split; [exact Hrk|]. split; auto.
      - assert (Hnew : forall r t, In r reg1 -> rep s1 r t -> rep s1 k t -> False).
        { intros r t Hr Rr Rk. destruct (closed_In_node _ _ _ HC Hr) as (nr & Hnr).
          apply (Hspec r nr Hr Hnr).
          eapply (same_tree_same_shape s1 reg1 k r); eauto.
          destruct (HC r Hr) as (nr' & Hnr' & Hk'). congruence. }
        intros r1 r2 t H1 H2 R1 R2.
        apply in_app_or in H1. apply in_app_or in H2.
        destruct H1 as [H1|[<-|[]]], H2 as [H2|[<-|[]]].
        + eapply HD; eauto.
        + exfalso. exact (Hnew r1 t H1 R1 R2).
        + exfalso. exact (Hnew r2 t H2 R2 R1).
        + reflexivity. }
    split; [|split; [|split; [|split; [|split]]]].
    + eapply srep_end' with (n := n) (ch := ch0 ++ [(c, Node (nfinal nk) (nwords nk) chk)]).
      * exact Hi.
      * intro Hin. apply in_app_or in Hin. destruct Hin as [Hin|[E|[]]]; [contradiction|]. subst. lia.
      * rewrite Hl, map_app. reflexivity.
      * rewrite Hks, map_app. apply Forall2_app; [exact Hreps|]. constructor; [exact Hrk|constructor].
      * rewrite Hks. apply Forall_app. split.
        -- eapply Forall_impl; [|exact Hkreg]. intros a Ha. apply in_or_app. left; exact Ha.
        -- constructor; [|constructor]. apply in_or_app. right. left. reflexivity.
      * reflexivity.
    + exact HR'.
    + apply incl_appl. apply incl_refl.
    + intros j Hj. apply in_app_or in Hj. destruct Hj as [Hj|[<-|[]]]; auto.
    + reflexivity.
    + auto.
Qed.

Definition kids_good (t : tree) : Prop := Forall (fun ct => good (snd ct) /\ tlang (snd ct) <> []) (tch t).

Lemma ror_spec : forall v fuel s reg i t c,
  reg_ok s reg -> srep s reg i (c :: v) t -> tspine t (c :: v) -> kids_good t ->
  (length v < fuel)%nat ->
  exists s' reg', replace_or_register fuel s i reg = Ok (s', reg') /\
    srep s' reg' i [] t /\ reg_ok s' reg' /\ incl reg reg' /\
    (forall j, In j reg' -> In j reg \/ (i < j)%N) /\
    (forall j, In j reg \/ (j < i)%N -> sget s' j = sget s j) /\
    (forall j, sget s j = None -> sget s' j = None).
Proof.
  induction v as [|c' v IH]; intros fuel s reg i t c HR HS HT HG HF.
  - (* the last child is the leaf at the end of the spine *)
    destruct fuel as [|f]; [simpl in HF; lia|].
    inversion HS as [|i' n ch0 c0 ks k tk v0 Hn Hnr Hik Hl Hks Hreps Hkreg HSk]; subst. clear HS.
    unfold kids_good in HG. cbn [tch] in HG. apply Forall_app in HG. destruct HG as [_ HG].
    inversion HG as [|? ? [Hgk Hnek] _]; subst. cbn [snd] in *.
    apply tspine_cons_inv in HT. destruct HT as (ch0' & t' & E & HTk).
    apply app_inj_tail in E. destruct E as [<- E]. inversion E; subst t'. clear E.
    pose proof (srep_node _ _ _ _ _ HSk) as (nk & Hnk & _ & _ & _ & Hlen).
    destruct tk as [fk wk chk]. apply tspine_nil_inv in HTk. subst chk. cbn [tch length] in Hlen.
    rewrite ror_unfold. rewrite (deref_ok _ _ _ Hn). cbn [bind]. rewrite Hks, last_opt_app.
    rewrite (deref_ok _ _ _ Hnk). cbn [bind].
    destruct (nkids nk); [|discriminate]. cbn [bind].
    destruct (ror_tail s reg i k n ch0 c ks (Node fk wk []) HR HSk Hgk Hnek Hn Hnr Hik Hl Hks Hreps Hkreg)
      as (s' & reg' & Hfin & HS' & HR' & Hincl & Hnew & Hfr & Hnone).
    exists s', reg'. split; [exact Hfin|]. split; [exact HS'|]. split; [exact HR'|]. split; [exact Hincl|].
    split; [|split].
    + intros j Hj. destruct (Hnew j Hj) as [H| ->]; auto.
    + intros j Hj. apply Hfr. destruct Hj as [Hj|Hj]; [intro; subst; contradiction|lia].
    + exact Hnone.
  - destruct fuel as [|f]; [simpl in HF; lia|]. simpl in HF.
    inversion HS as [|i' n ch0 c0 ks k tk v0 Hn Hnr Hik Hl Hks Hreps Hkreg HSk]; subst. clear HS.
    unfold kids_good in HG. cbn [tch] in HG. apply Forall_app in HG. destruct HG as [_ HG].
    inversion HG as [|? ? [Hgk Hnek] _]; subst. cbn [snd] in *.
    apply tspine_cons_inv in HT. destruct HT as (ch0' & t' & E & HTk).
    apply app_inj_tail in E. destruct E as [<- E]. inversion E; subst t'. clear E.
    pose proof (srep_node _ _ _ _ _ HSk) as (nk & Hnk & _ & _ & _ & Hlen).
    assert (HGk : kids_good tk).
    { destruct tk as [fk wk chk]. unfold kids_good. cbn [tch]. eapply good_children; eauto. }
    destruct (IH f s reg k tk c' HR HSk HTk HGk) as (s1 & reg1 & Hror & HS1 & HR1 & Hincl1 & Hnew1 & Hfr1 & Hnone1); [lia|].
    rewrite ror_unfold. rewrite (deref_ok _ _ _ Hn). cbn [bind]. rewrite Hks, last_opt_app.
    rewrite (deref_ok _ _ _ Hnk). cbn [bind].
    assert (Hkne : nkids nk <> []).
    { destruct tk as [fk wk chk]. apply tspine_cons_inv in HTk. destruct HTk as (a & b & -> & _).
      cbn [tch] in Hlen. rewrite app_length in Hlen. simpl in Hlen. destruct (nkids nk); [simpl in Hlen; lia|discriminate]. }
    destruct (nkids nk) as [|kk kks] eqn:Ekk; [contradiction|].
    rewrite Hror. cbn [bind].
    assert (Hn1 : sget s1 i = Some n) by (rewrite Hfr1; auto).
    assert (Hnr1 : ~ In i reg1).
    { intro Hin. destruct (Hnew1 i Hin); [contradiction|lia]. }
    assert (Hreps1 : Forall2 (rep s1) ks (map snd ch0)).
    { destruct HR as (HC & _). eapply Forall2_rep_frame; eauto. }
    assert (Hkreg1 : Forall (fun k => In k reg1) ks).
    { eapply Forall_impl; [|exact Hkreg]. intros a Ha. apply Hincl1. exact Ha. }
    destruct (ror_tail s1 reg1 i k n ch0 c ks tk HR1 HS1 Hgk Hnek Hn1 Hnr1 Hik Hl Hks Hreps1 Hkreg1)
      as (s' & reg' & Hfin & HS' & HR' & Hincl & Hnew & Hfr & Hnone).
    exists s', reg'. split; [exact Hfin|]. split; [exact HS'|]. split; [exact HR'|].
    split; [|split; [|split]].
    + eapply incl_tran; eauto.
    + intros j Hj. destruct (Hnew j Hj) as [H| ->]; [|auto].
      destruct (Hnew1 j H); [auto|right; lia].
    + intros j Hj. rewrite Hfr.
      * apply Hfr1. destruct Hj; [auto|right; lia].
      * destruct Hj as [Hj|Hj]; [intro; subst; contradiction|lia].
    + auto.
Qed.
