(* Search (model of C13, Dawg/SearchModel.v) cannot tell an automaton from its copy: for any
   searchers, the solutions, their ranks and the final searcher states are the same. *)
From Coq Require Import List NArith ZArith Bool Lia Arith.
From Mamba Require Import Dawg.Model Dawg.SearchModel Dawg.CodecModel Dawg.CodecWf Dawg.CodecIso.
Import ListNotations.
Local Open Scope N_scope.

Section SearchIso.
Context {X : Type} (ops : searcher_ops X).
Variables (s : store) (d : N) (s2 : store) (d2 : N) (phi : N -> N).
Hypothesis Hiso : iso s d s2 d2 phi.

Definition map_sst (st : @sstate X) : @sstate X :=
  mkSt (map_stack phi (st_stack st)) (st_word st) (st_index st) (st_srch st) (st_solns st).

Definition map_sinner (r : @inner_res X) : @inner_res X :=
  match r with
  | Descended st => Descended (map_sst st)
  | SearchModel.Exhausted st => SearchModel.Exhausted (map_sst st)
  end.

Lemma map_set_top stk nx : map_stack phi (set_top stk nx) = set_top (map_stack phi stk) nx.
Proof. destruct stk as [|[k n] r]; reflexivity. Qed.

Lemma sim_visit_final nk st :
  visit_final ops (copy_node phi nk) (map_sst st) = res_map map_sst (visit_final ops nk st).
Proof.
  destruct st as [stk w i xs so]. unfold visit_final. cbn [copy_node nfinal map_sst st_stack st_word st_index st_srch st_solns].
  destruct (nfinal nk); [|reflexivity].
  destruct (allow_word_all ops xs) as [[|]| |]; cbn [bind]; try reflexivity.
  destruct (chosen_all ops xs); reflexivity.
Qed.

Lemma visit_final_stack nk st st' : visit_final ops nk st = Ok st' -> st_stack st' = st_stack st.
Proof.
  unfold visit_final. destruct (nfinal nk); [|intros E; injection E as <-; reflexivity].
  destruct (allow_word_all ops (st_srch st)) as [[|]| |]; cbn [bind]; try discriminate.
  - destruct (chosen_all ops (st_srch st)); cbn [bind]; try discriminate. intros E. injection E as <-. reflexivity.
  - intros E. injection E as <-. reflexivity.
Qed.

Lemma sim_search_inner : forall labs kids j st, (forall k, In k kids -> dom s d k) ->
  search_inner ops s2 j labs (map phi kids) (map_sst st) =
  res_map map_sinner (search_inner ops s j labs kids st).
Proof.
  induction labs as [|l labs IH]; intros kids j st Hdom; [reflexivity|].
  destruct st as [stk w i xs so]. cbn [search_inner map_sst st_stack st_word st_index st_srch st_solns].
  destruct (allow_step_all ops xs l) as [a| |]; cbn [bind]; try reflexivity.
  destruct a; cbn [negb].
  - destruct (step_all ops xs l) as [xs'| |]; cbn [bind]; try reflexivity.
    destruct kids as [|k kids]; [reflexivity|]. cbn [map].
    destruct (dom_node s d s2 d2 phi Hiso k (Hdom k (or_introl eq_refl))) as [n [Hn Hn2]].
    unfold deref. rewrite Hn, Hn2. cbn [bind].
    rewrite <- map_set_top.
    pose proof (sim_visit_final n (mkSt ((k, O) :: set_top stk (S j)) (w ++ [l]) i xs' so)) as Hv.
    unfold map_sst at 1 in Hv. cbn [st_stack st_word st_index st_srch st_solns] in Hv.
    unfold map_stack at 1 in Hv. cbn [map fst snd] in Hv.
    fold (map_stack phi (set_top stk (S j))) in Hv. rewrite Hv.
    destruct (visit_final ops n _) as [st2| |]; reflexivity.
  - destruct kids as [|k kids]; [reflexivity|]. cbn [map].
    destruct (dom_node s d s2 d2 phi Hiso k (Hdom k (or_introl eq_refl))) as [n [Hn Hn2]].
    unfold deref. rewrite Hn, Hn2. cbn [bind copy_node nwords].
    specialize (IH kids (S j) (mkSt stk w (i + nwords n)%Z xs so)).
    unfold map_sst at 1 in IH. cbn [st_stack st_word st_index st_srch st_solns] in IH. apply IH.
    intros k' Hk'. apply Hdom. right. exact Hk'.
Qed.

Lemma search_inner_stack_dom : forall labs kids j st r, (forall k, In k kids -> dom s d k) ->
  (forall e, In e (st_stack st) -> dom s d (fst e)) ->
  search_inner ops s j labs kids st = Ok r ->
  forall e, In e (st_stack (match r with Descended st' => st' | SearchModel.Exhausted st' => st' end)) ->
  dom s d (fst e).
Proof.
  induction labs as [|l labs IH]; intros kids j st r Hkids Hstk Hrun.
  - cbn in Hrun. injection Hrun as <-. exact Hstk.
  - cbn [search_inner] in Hrun.
    destruct (allow_step_all ops (st_srch st) l) as [a| |]; cbn [bind] in Hrun; try discriminate.
    destruct a; cbn [negb] in Hrun.
    + destruct (step_all ops (st_srch st) l) as [xs'| |]; cbn [bind] in Hrun; try discriminate.
      destruct kids as [|k kids]; [discriminate|].
      destruct (deref s k) as [nk| |]; cbn [bind] in Hrun; try discriminate.
      destruct (visit_final ops nk _) as [st2| |] eqn:Hv; cbn [bind] in Hrun; try discriminate.
      injection Hrun as <-. rewrite (visit_final_stack _ _ _ Hv). cbn [st_stack].
      intros e [<- | He]; [apply Hkids; left; reflexivity|].
      destruct (st_stack st) as [|[k0 n0] es]; [destruct He|]. cbn in He. destruct He as [<- | He].
      * apply (Hstk (k0, n0)). left. reflexivity.
      * apply Hstk. right. exact He.
    + destruct kids as [|k kids]; [discriminate|].
      destruct (deref s k) as [nk| |]; cbn [bind] in Hrun; try discriminate.
      exact (IH kids (S j) (mkSt (st_stack st) (st_word st) (st_index st + nwords nk)%Z (st_srch st) (st_solns st)) r
               (fun k' Hk' => Hkids k' (or_intror Hk')) Hstk Hrun).
Qed.

Lemma sim_search_loop : forall fuel st, (forall e, In e (st_stack st) -> dom s d (fst e)) ->
  search_loop ops fuel s2 (map_sst st) = search_loop ops fuel s st.
Proof.
  induction fuel as [|fuel IH]; intros st Hstk; [reflexivity|].
  destruct st as [stk w i xs so]. cbn [search_loop map_sst st_stack st_word st_index st_srch st_solns].
  destruct stk as [|[cur next] rest]; [reflexivity|]. cbn [map_stack map fst snd].
  change (map (fun e : N * nat => (phi (fst e), snd e)) rest) with (map_stack phi rest).
  assert (Hcur : dom s d cur) by (apply (Hstk (cur, next)); left; reflexivity).
  destruct (dom_node s d s2 d2 phi Hiso cur Hcur) as [n [Hn Hn2]]. unfold deref. rewrite Hn, Hn2.
  cbn [bind copy_node nlabels nkids]. rewrite skipn_map.
  assert (Hkids : forall k, In k (skipn next (nkids n)) -> dom s d k).
  { intros k Hk. apply (dom_kid s d cur n k Hcur Hn). exact (in_skipn _ _ _ Hk). }
  pose proof (sim_search_inner (skipn next (nlabels n)) (skipn next (nkids n)) next
                (mkSt ((cur, next) :: rest) w i xs so) Hkids) as Hsim.
  rewrite Hsim.
  pose proof (search_inner_stack_dom (skipn next (nlabels n)) (skipn next (nkids n)) next
                (mkSt ((cur, next) :: rest) w i xs so)) as Hdom'.
  destruct (search_inner ops s next (skipn next (nlabels n)) (skipn next (nkids n))
              (mkSt ((cur, next) :: rest) w i xs so)) as [[st'|st']| |];
    cbn [res_map map_sinner bind]; try reflexivity.
  - apply IH. apply (Hdom' (Descended st') Hkids Hstk eq_refl).
  - specialize (Hdom' (SearchModel.Exhausted st') Hkids Hstk eq_refl). cbn in Hdom'.
    destruct st' as [stk' w' i' xs' so']. cbn [map_sst st_stack st_word st_index st_srch st_solns] in *.
    destruct w' as [|c w'']; [reflexivity|].
    destruct (backstep_all ops xs') as [xs''| |]; cbn [bind]; try reflexivity.
    specialize (IH (mkSt (tl stk') (removelast (c :: w'')) i' xs'' so')).
    unfold map_sst at 1 in IH. cbn [st_stack st_word st_index st_srch st_solns] in IH.
    replace (tl (map_stack phi stk')) with (map_stack phi (tl stk')) by (destruct stk'; reflexivity).
    apply IH. intros e He. apply Hdom'. destruct stk'; [destruct He | right; exact He].
Qed.

(* Search on the copy: the same solutions, ranks and final searcher states, for any searchers
   and any fuel *)
Theorem iso_search fuel xs : search ops fuel s2 d2 xs = search ops fuel s d xs.
Proof.
  unfold search. destruct (dom_node s d s2 d2 phi Hiso d (dom_root s d)) as [n [Hn Hn2]].
  rewrite (proj1 Hiso) in Hn2. unfold deref. rewrite Hn, Hn2. cbn [bind].
  pose proof (sim_visit_final n (mkSt [(d, O)] [] (-1)%Z xs [])) as Hv.
  unfold map_sst at 1 in Hv. cbn [st_stack st_word st_index st_srch st_solns] in Hv.
  unfold map_stack at 1 in Hv. cbn [map fst snd] in Hv.
  rewrite (proj1 Hiso) in Hv. rewrite Hv.
  destruct (visit_final ops n (mkSt [(d, O)] [] (-1)%Z xs [])) as [st| |] eqn:Hvf; cbn [res_map bind]; try reflexivity.
  apply sim_search_loop. rewrite (visit_final_stack _ _ _ Hvf). cbn [st_stack].
  intros e [<- | []]. apply dom_root.
Qed.

End SearchIso.
