(* Composition C12 -> C13, second half: Search on whatever dawg.New / a Builder (zero value
   included) builds, with no hypothesis left on the Dawg, on the searcher objects or on the
   success of New: the result is one explicit list computed from the word list and the
   searcher descriptions. *)
From Coq Require Import List NArith ZArith Bool Lia Sorted.
From Mamba Require Import Dawg.Model Dawg.Tree Dawg.Spec Dawg.TreeFacts Dawg.LangStore
  Dawg.BuildSeq.
From Mamba Require Import Dawg.SearchModel Dawg.SearchSpec Dawg.SearchConcrete Dawg.SearchWf
  Dawg.SearchCount.
From Mamba Require Import Dawg.ComposeTrie Dawg.ComposeZeroModel Dawg.ComposeBuilder.
Import ListNotations.

(* ------------------------------------------------------------------ the expected list *)

(* does the description match the word: executable (the anagram rule in counting form) *)
Definition spec_matchesb (sp : sspec) (w : word) : bool :=
  match sp with
  | SpecP p b => matches_pattern p b w
  | SpecA a b => matches_anagramb a b w
  end.

Definition all_match (sps : list sspec) (w : word) : bool :=
  forallb (fun sp => spec_matchesb sp w) sps.

(* [(w, position of w in ws) | w <- ws, every description matches w], in the order of ws *)
Definition search_result (sps : list sspec) (ws : list word) : list (word * Z) :=
  filter (fun p => all_match sps (fst p)) (number 0 ws).

Lemma spec_matchesb_iff : forall sp w, spec_matchesb sp w = true <-> spec_matches sp w.
Proof.
  intros [p b|a b] w; cbn [spec_matchesb spec_matches]; [reflexivity | apply matches_anagramb_iff].
Qed.

Lemma all_match_iff : forall sps w, all_match sps w = true <-> Forall (fun sp => spec_matches sp w) sps.
Proof.
  intros sps w. unfold all_match. rewrite forallb_forall, Forall_forall.
  split; intros H sp Hsp; apply spec_matchesb_iff; apply H; exact Hsp.
Qed.

Lemma expected_ext : forall keep keep' ws, (forall w, keep w = true <-> keep' w = true) ->
  expected keep ws = expected keep' ws.
Proof.
  intros keep keep' ws H. unfold expected. apply filter_ext. intros [w r]. cbn [fst].
  specialize (H w). destruct (keep w), (keep' w); try reflexivity;
    [destruct H as [H _]; discriminate (H eq_refl) | destruct H as [_ H]; discriminate (H eq_refl)].
Qed.

Lemma increasing_sorted : forall ws, increasing ws -> StronglySorted lex_lt ws.
Proof.
  intros ws Hinc. destruct (trie_of_spec ws Hinc) as [(_ & HL & _) E].
  rewrite <- E. apply tlang_sorted. exact HL.
Qed.

(* what the list contains: the matching words of ws in their (lexicographic) order, each
   exactly once, paired with its rank in ws *)
Theorem search_result_spec : forall sps ws, increasing ws ->
  map fst (search_result sps ws) = filter (all_match sps) ws /\
  StronglySorted lex_lt (map fst (search_result sps ws)) /\
  forall w r, In (w, r) (search_result sps ws) <->
    (In w ws /\ Forall (fun sp => spec_matches sp w) sps /\
     rank_of w ws = Some (Z.to_nat r) /\ (0 <= r)%Z).
Proof.
  intros sps ws Hinc. pose proof (increasing_sorted ws Hinc) as Hs.
  destruct (expected_spec (all_match sps) ws Hs) as [H1 H2].
  split; [apply expected_words|]. split; [exact H1|].
  intros w r. change (search_result sps ws) with (expected (all_match sps) ws).
  rewrite H2, all_match_iff. split.
  - intros (Hm & Hr & Hp). split; [|auto]. eapply nth_error_In. apply rank_of_nth. exact Hr.
  - intros (_ & Hm & Hr & Hp). auto.
Qed.

(* ------------------------------------------------------------------ Search on New(ws) *)

Theorem search_new_exact : forall ws, increasing ws ->
  forall sps fuel, (2 * total_length ws + 1 <= fuel)%nat ->
  exists s xs xs1 xs2,
    new_dawg ws = Ok (Some s) /\
    new_searchers sps = Ok xs /\
    search_c fuel s root xs = Ok (search_result sps ws, xs1) /\
    search_c fuel s root xs1 = Ok (search_result sps ws, xs2) /\
    Forall2 s_equiv xs1 xs /\ Forall2 s_equiv xs2 xs.
Proof.
  intros ws Hinc sps fuel Hfuel.
  destruct (new_dawg_total ws Hinc) as [s Hs].
  destruct (new_searchers_built sps) as [xs [Hxs Hb]].
  destruct (built_dawg_wf ws s Hinc Hs) as (Hwf & Htr & Hws).
  pose proof (tedges_le_total_length _ Htr) as Hte. rewrite Hws in Hte.
  destruct (search_concrete s root (trie_of ws) Hwf sps xs Hb fuel) as
    (res & xs1 & xs2 & H1 & H2 & H3 & H4 & keep & Hres & Hkeep).
  { unfold search_fuel. lia. }
  assert (E : res = search_result sps ws).
  { rewrite Hres, Hws. change (search_result sps ws) with (expected (all_match sps) ws).
    apply expected_ext. intros w. rewrite Hkeep, all_match_iff. reflexivity. }
  rewrite E in H1, H2. exists s, xs, xs1, xs2. repeat (split; [assumption|]). assumption.
Qed.

(* ------------------------------------------------------------------ Search on Builder output *)

(* Any sequence of Add calls (in order or not, duplicates, rejected calls) on a fresh Builder
   -- the zero value or one just initialised --, then Finish, then Search twice. *)
Theorem search_builder_exact : forall g0 args, fresh g0 ->
  forall sps fuel, (2 * total_length (kept None args) + 1 <= fuel)%nat ->
  exists g s xs xs1 xs2,
    g_add_seq g0 args = Ok (g, accept_flags None args) /\
    g_finish g = Ok (GInit (g_ensure g), Some s) /\
    new_searchers sps = Ok xs /\
    search_c fuel s root xs = Ok (search_result sps (kept None args), xs1) /\
    search_c fuel s root xs1 = Ok (search_result sps (kept None args), xs2) /\
    Forall2 s_equiv xs1 xs /\ Forall2 s_equiv xs2 xs.
Proof.
  intros g0 args Hf sps fuel Hfuel.
  destruct (fresh_builder_sequence g0 args Hf) as (g & s & Hg & Hfin & Hnew & Hinc).
  destruct (search_new_exact (kept None args) Hinc sps fuel Hfuel) as
    (s' & xs & xs1 & xs2 & Hs' & Hxs & H1 & H2 & H3 & H4).
  rewrite Hnew in Hs'. inversion Hs'; subst s'.
  exists g, s, xs, xs1, xs2. repeat (split; [assumption|]). assumption.
Qed.
