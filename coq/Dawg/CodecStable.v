(* Fuel: a result other than [NoFuel] does not depend on the amount of fuel.  Hence on a
   well-formed automaton GobEncode gives, for every fuel, either [NoFuel] or the one [Ok]
   result — never a panic. *)
From Coq Require Import List NArith ZArith Bool Lia Arith.
From Mamba Require Import Dawg.Model Dawg.CodecModel Dawg.CodecWf Dawg.CodecDfs Dawg.CodecEncode.
Import ListNotations.
Local Open Scope N_scope.

Lemma dfs_loop_stable emit s : forall f st r, dfs_loop emit f s st = r -> r <> NoFuel ->
  forall f', (f <= f')%nat -> dfs_loop emit f' s st = r.
Proof.
  induction f as [|f IH]; intros st r H Hr f' Hle; [cbn in H; congruence|].
  destruct f' as [|f']; [lia|]. rewrite dfs_loop_S in *.
  destruct (dfs_step emit s st) as [[st'|st']| |]; cbn [bind] in *; try exact H.
  apply IH with (f' := f') in H; [exact H | exact Hr | lia].
Qed.

Lemma list_nodes_stable s d f r : list_nodes_count_edges f s d = r -> r <> NoFuel ->
  forall f', (f <= f')%nat -> list_nodes_count_edges f' s d = r.
Proof.
  unfold list_nodes_count_edges. intros H Hr f' Hle.
  destruct (deref s d) as [n| |]; cbn [bind] in *; try exact H.
  destruct (dfs_loop (fun _ => []) f s _) as [st| |] eqn:E; cbn [bind] in H.
  - rewrite (dfs_loop_stable _ _ _ _ _ E ltac:(discriminate) f' Hle). exact H.
  - rewrite (dfs_loop_stable _ _ _ _ _ E ltac:(discriminate) f' Hle). exact H.
  - congruence.
Qed.

Lemma gob_encode_stable s d f r : gob_encode f s d = r -> r <> NoFuel ->
  forall f', (f <= f')%nat -> gob_encode f' s d = r.
Proof.
  unfold gob_encode. intros H Hr f' Hle.
  destruct (list_nodes_count_edges f s d) as [[sorted edges]| |] eqn:E; cbn [bind] in H.
  - rewrite (list_nodes_stable _ _ _ _ E ltac:(discriminate) f' Hle). cbn [bind].
    destruct (deref s d) as [n| |]; cbn [bind] in *; try exact H.
    destruct (dfs_loop (emit_node s sorted) f s _) as [st| |] eqn:E2; cbn [bind] in H.
    + rewrite (dfs_loop_stable _ _ _ _ _ E2 ltac:(discriminate) f' Hle). exact H.
    + rewrite (dfs_loop_stable _ _ _ _ _ E2 ltac:(discriminate) f' Hle). exact H.
    + congruence.
  - rewrite (list_nodes_stable _ _ _ _ E ltac:(discriminate) f' Hle). exact H.
  - congruence.
Qed.

Theorem gob_encode_never_panics s d : wf_dawg s d ->
  exists b f0, forall fuel,
    ((f0 <= fuel)%nat -> gob_encode fuel s d = Ok b) /\
    (gob_encode fuel s d = Ok b \/ gob_encode fuel s d = NoFuel).
Proof.
  intros [univ [h Hwf]].
  destruct (gob_encode_spec s d univ h Hwf) as [f0 [sorted [vtl [Henc _]]]].
  exists (gob_header sorted ++ records s sorted (d :: vtl)), f0. intros fuel.
  split; [apply Henc|].
  destruct (gob_encode fuel s d) as [b| |] eqn:E; [left | exfalso | right; reflexivity].
  - pose proof (gob_encode_stable s d fuel (Ok b) E ltac:(discriminate) (Nat.max fuel f0) ltac:(lia)) as H.
    rewrite Henc in H by lia. symmetry. exact H.
  - pose proof (gob_encode_stable s d fuel Panic E ltac:(discriminate) (Nat.max fuel f0) ltac:(lia)) as H.
    rewrite Henc in H by lia. discriminate.
Qed.
