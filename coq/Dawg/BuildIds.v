(* Every node the builder stores carries its own key in its id field (for every Add sequence,
   valid or not).  Independent of the other invariants; used by the traversal that reads ids. *)
From Coq Require Import List NArith ZArith Bool Lia.
From Mamba Require Import Dawg.Model Dawg.Tree Dawg.Spec Dawg.TreeFacts Dawg.BuildStore.
Import ListNotations.

Definition ids_ok (s : store) : Prop := forall i n, sget s i = Some n -> nid n = i.

Ltac bind_inv H :=
  match type of H with
  | bind ?r _ = Ok _ => let E := fresh "E" in destruct r eqn:E; cbn [bind] in H; [|discriminate|discriminate]
  end.

Lemma deref_some : forall s i n, deref s i = Ok n -> sget s i = Some n.
Proof. intros s i n H. unfold deref in H. destruct (sget s i); inversion H; reflexivity. Qed.

Lemma ids_sset : forall s i n, ids_ok s -> nid n = i -> ids_ok (sset s i n).
Proof.
  intros s i n H Hn j m Hj. destruct (N.eq_dec i j) as [<-|NE].
  - rewrite sget_sset_same in Hj. inversion Hj as [E]. rewrite <- E. exact Hn.
  - rewrite sget_sset_other in Hj; auto.
Qed.

Lemma bump_ids : forall s i s', bump s i = Ok s' -> ids_ok s -> ids_ok s'.
Proof.
  intros s i s' H HI. unfold bump in H. bind_inv H. inversion H; subst.
  apply ids_sset; auto. cbn [nid]. apply HI. apply deref_some. exact E.
Qed.

Lemma cpf_ids : forall w s i s' sf ln, common_prefix_from s i w = Ok (s', sf, ln) -> ids_ok s -> ids_ok s'.
Proof.
  induction w as [|c w IH]; intros s i s' sf ln H HI; cbn [common_prefix_from] in H.
  - inversion H; subst. exact HI.
  - bind_inv H. destruct (index_of c (nlabels a)); [|inversion H; subst; exact HI].
    destruct (nth_error (nkids a) n); [|discriminate]. bind_inv H.
    eapply IH; eauto. eapply bump_ids; eauto.
Qed.

Lemma ror_ids : forall fuel s t reg s' reg', replace_or_register fuel s t reg = Ok (s', reg') -> ids_ok s -> ids_ok s'.
Proof.
  induction fuel as [|f IH]; intros s t reg s' reg' H HI; cbn [replace_or_register] in H; [discriminate|].
  bind_inv H. destruct (last_opt (nkids a)) as [lc|]; [|discriminate].
  bind_inv H. bind_inv H. destruct a1 as [s1 reg1].
  assert (HI1 : ids_ok s1).
  { destruct (nkids a0); [inversion E1; subst; exact HI|]. eapply IH; eauto. }
  bind_inv H. bind_inv H. destruct a2 as [u|].
  - bind_inv H. inversion H; subst. apply ids_sset; auto. unfold set_last_kid. cbn [nid].
    apply HI1. apply deref_some. exact E4.
  - inversion H; subst. exact HI1.
Qed.

Lemma add_suffix_ids : forall sf s cur L s' L', add_suffix s cur sf L = Ok (s', L') -> ids_ok s -> ids_ok s'.
Proof.
  induction sf as [|b sf IH]; intros s cur L s' L' H HI; cbn [add_suffix] in H.
  - bind_inv H. inversion H; subst. apply ids_sset; auto. cbn [nid]. apply HI. apply deref_some. exact E.
  - bind_inv H. eapply IH; eauto. apply ids_sset; [|reflexivity]. apply ids_sset; auto.
    cbn [nid]. apply HI. apply deref_some. exact E.
Qed.

Lemma add_ids : forall b w b' ok, add b w = Ok (b', ok) -> ids_ok (bstore b) -> ids_ok (bstore b').
Proof.
  intros b w b' ok H HI. unfold add in H.
  destruct (bdone b); [inversion H; subst; exact HI|].
  destruct (rejects b w); [inversion H; subst; exact HI|].
  bind_inv H. destruct a as [[s1 sf] ln]. bind_inv H. bind_inv H. destruct a0 as [s2 reg2].
  bind_inv H. destruct a0 as [s3 l3]. inversion H; subst. cbn [bstore].
  unfold common_prefix in E. bind_inv E.
  assert (H1 : ids_ok s1) by (eapply cpf_ids; eauto; eapply bump_ids; eauto).
  assert (H2 : ids_ok s2).
  { destruct (nkids a); [inversion E1; subst; exact H1|]. eapply ror_ids; eauto. }
  eapply add_suffix_ids; eauto.
Qed.

Lemma ids_initialise : ids_ok (bstore initialise).
Proof.
  unfold initialise. cbn [bstore]. intros i n H. destruct (N.eq_dec root i) as [<-|NE].
  - rewrite sget_sset_same in H. inversion H; reflexivity.
  - rewrite sget_sset_other, sget_sempty in H; [discriminate|exact NE].
Qed.

Lemma add_seq_ids : forall ws b b' oks, add_seq b ws = Ok (b', oks) -> ids_ok (bstore b) -> ids_ok (bstore b').
Proof.
  induction ws as [|w ws IH]; intros b b' oks H HI; cbn [add_seq] in H.
  - inversion H; subst. exact HI.
  - bind_inv H. destruct a as [b1 ok]. bind_inv H. destruct a as [b2 oks2]. inversion H; subst.
    eapply IH; eauto. eapply add_ids; eauto.
Qed.

Lemma add_all_ids : forall ws b b', add_all b ws = Ok (Some b') -> ids_ok (bstore b) -> ids_ok (bstore b').
Proof.
  induction ws as [|w ws IH]; intros b b' H HI; cbn [add_all] in H.
  - inversion H; subst. exact HI.
  - bind_inv H. destruct a as [b1 ok]. destruct ok; [|discriminate].
    eapply IH; eauto. eapply add_ids; eauto.
Qed.

Lemma finish_ids : forall b s, finish b = Ok (Some s) -> ids_ok (bstore b) -> ids_ok s.
Proof.
  intros b s H HI. unfold finish in H. destruct (bdone b); [discriminate|].
  bind_inv H. destruct (nkids a); [inversion H; subst; exact HI|].
  bind_inv H. destruct a0 as [s' reg']. inversion H; subst. eapply ror_ids; eauto.
Qed.

(* whatever is added, in whatever order: the automaton New / Finish returns stores every node
   under its own id *)
Theorem new_dawg_ids : forall ws s, new_dawg ws = Ok (Some s) -> ids_ok s.
Proof.
  intros ws s H. unfold new_dawg in H. bind_inv H. destruct a as [b|]; [|discriminate].
  eapply finish_ids; eauto. eapply add_all_ids; eauto. apply ids_initialise.
Qed.

(* ---------------------------------------------------------------- keys are bounded by the
   number of letters added (every key in use is at most the last id handed out, and an Add
   hands out at most one id per letter of its word); again for every Add sequence *)

Fixpoint total_letters (ws : list word) : N :=
  match ws with [] => 0%N | w :: r => (N.of_nat (length w) + total_letters r)%N end.

Lemma bound_sset_in : forall s L i n m, bound s L -> sget s i = Some m -> bound (sset s i n) L.
Proof. intros s L i n m HB Hi. apply bound_sset; auto. eapply HB; eauto. Qed.

Lemma bump_bound : forall s i s' L, bump s i = Ok s' -> bound s L -> bound s' L.
Proof.
  intros s i s' L H HB. unfold bump in H. bind_inv H. inversion H; subst.
  eapply bound_sset_in; eauto. apply deref_some. exact E.
Qed.

Lemma cpf_bound : forall w s i s' sf ln L, common_prefix_from s i w = Ok (s', sf, ln) -> bound s L ->
  bound s' L /\ (length sf <= length w)%nat.
Proof.
  induction w as [|c w IH]; intros s i s' sf ln L H HB; cbn [common_prefix_from] in H.
  - inversion H; subst. split; [exact HB|simpl; lia].
  - bind_inv H. destruct (index_of c (nlabels a)); [|inversion H; subst; split; [exact HB|lia]].
    destruct (nth_error (nkids a) n); [|discriminate]. bind_inv H.
    destruct (IH _ _ _ _ _ L H (bump_bound _ _ _ _ E0 HB)) as [H1 H2]. split; [exact H1|simpl; lia].
Qed.

Lemma ror_bound : forall fuel s t reg s' reg' L, replace_or_register fuel s t reg = Ok (s', reg') -> bound s L -> bound s' L.
Proof.
  induction fuel as [|f IH]; intros s t reg s' reg' L H HB; cbn [replace_or_register] in H; [discriminate|].
  bind_inv H. destruct (last_opt (nkids a)) as [lc|]; [|discriminate].
  bind_inv H. bind_inv H. destruct a1 as [s1 reg1].
  assert (HB1 : bound s1 L).
  { destruct (nkids a0); [inversion E1; subst; exact HB|]. eapply IH; eauto. }
  bind_inv H. bind_inv H. destruct a2 as [u|].
  - bind_inv H. inversion H; subst. eapply bound_sset_in; eauto. apply deref_some. exact E4.
  - inversion H; subst. exact HB1.
Qed.

Lemma add_suffix_bound : forall sf s cur L s' L', add_suffix s cur sf L = Ok (s', L') -> bound s L ->
  bound s' L' /\ L' = (L + N.of_nat (length sf))%N.
Proof.
  induction sf as [|b sf IH]; intros s cur L s' L' H HB; cbn [add_suffix] in H.
  - bind_inv H. inversion H; subst. split; [|simpl; lia]. eapply bound_sset_in; eauto. apply deref_some. exact E.
  - bind_inv H. apply IH in H.
    + destruct H as [H1 H2]. split; [exact H1|]. rewrite H2. cbn [length]. lia.
    + apply bound_sset; [|lia]. eapply bound_mono; [|apply N.le_succ_diag_r].
      eapply bound_sset_in; eauto. apply deref_some. exact E.
Qed.

Lemma add_bound : forall b w b' ok, add b w = Ok (b', ok) -> bound (bstore b) (blastid b) ->
  bound (bstore b') (blastid b') /\ (blastid b' <= blastid b + N.of_nat (length w))%N.
Proof.
  intros b w b' ok H HB. unfold add in H.
  destruct (bdone b); [inversion H; subst; split; [exact HB|lia]|].
  destruct (rejects b w); [inversion H; subst; split; [exact HB|lia]|].
  bind_inv H. destruct a as [[s1 sf] ln]. bind_inv H. bind_inv H. destruct a0 as [s2 reg2].
  bind_inv H. destruct a0 as [s3 l3]. inversion H; subst. cbn [bstore blastid].
  unfold common_prefix in E. bind_inv E.
  destruct (cpf_bound _ _ _ _ _ _ _ E (bump_bound _ _ _ _ E3 HB)) as [H1 Hlen].
  assert (H2 : bound s2 (blastid b)).
  { destruct (nkids a); [inversion E1; subst; exact H1|]. eapply ror_bound; eauto. }
  destruct (add_suffix_bound _ _ _ _ _ _ E2 H2) as [H3 ->]. split; [exact H3|lia].
Qed.

Lemma bound_initialise : bound (bstore initialise) (blastid initialise).
Proof.
  unfold initialise. cbn [bstore blastid]. intros i n H. destruct (N.eq_dec root i) as [<-|NE]; [unfold root; lia|].
  rewrite sget_sset_other, sget_sempty in H; [discriminate|exact NE].
Qed.

Lemma add_all_bound : forall ws b b', add_all b ws = Ok (Some b') -> bound (bstore b) (blastid b) ->
  bound (bstore b') (blastid b') /\ (blastid b' <= blastid b + total_letters ws)%N.
Proof.
  induction ws as [|w ws IH]; intros b b' H HB; cbn [add_all] in H.
  - inversion H; subst. split; [exact HB|simpl; lia].
  - bind_inv H. destruct a as [b1 ok]. destruct ok; [|discriminate].
    destruct (add_bound _ _ _ _ E HB) as [H1 H2]. destruct (IH _ _ H H1) as [H3 H4].
    split; [exact H3|]. cbn [total_letters]. lia.
Qed.

Lemma add_seq_bound : forall ws b b' oks, add_seq b ws = Ok (b', oks) -> bound (bstore b) (blastid b) ->
  bound (bstore b') (blastid b') /\ (blastid b' <= blastid b + total_letters ws)%N.
Proof.
  induction ws as [|w ws IH]; intros b b' oks H HB; cbn [add_seq] in H.
  - inversion H; subst. split; [exact HB|simpl; lia].
  - bind_inv H. destruct a as [b1 ok]. bind_inv H. destruct a as [b2 oks2]. inversion H; subst.
    destruct (add_bound _ _ _ _ E HB) as [H1 H2]. destruct (IH _ _ _ E0 H1) as [H3 H4].
    split; [exact H3|]. cbn [total_letters]. lia.
Qed.

Lemma finish_bound : forall b s L, finish b = Ok (Some s) -> bound (bstore b) L -> bound s L.
Proof.
  intros b s L H HB. unfold finish in H. destruct (bdone b); [discriminate|].
  bind_inv H. destruct (nkids a); [inversion H; subst; exact HB|].
  bind_inv H. destruct a0 as [s' reg']. inversion H; subst. eapply ror_bound; eauto.
Qed.

(* every key of the automaton New returns is at most the number of letters of its argument *)
Theorem new_dawg_keys_bound : forall ws s, new_dawg ws = Ok (Some s) ->
  forall i n, sget s i = Some n -> (i <= total_letters ws)%N.
Proof.
  intros ws s H. unfold new_dawg in H. bind_inv H. destruct a as [b|]; [|discriminate].
  destruct (add_all_bound _ _ _ E bound_initialise) as [H1 H2].
  pose proof (finish_bound _ _ _ H H1) as HB. intros i n Hi. specialize (HB i n Hi).
  unfold initialise in H2. cbn [blastid] in H2. lia.
Qed.
