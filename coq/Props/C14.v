(* C14 — DAWG serialisation round-trips.  This file contains only the property theorems,
   closed by [exact], and their assumptions.

   Vocabulary (coq/Dawg): a *Dawg is a key into a store of nodes (Model.v); [gob_encode],
   [gob_decode] model GobEncode / GobDecode (CodecModel.v; [fuel] bounds the turns of the
   iterative traversal, [NoFuel] is distinct from [Panic]); [wf_dawg s d] (CodecWf.v) says that
   the automaton reachable from d is one Go can hold and the exported API can produce: finitely
   many reachable nodes, every link leads to a node, as many links as labels, labels are bytes,
   ids are distinct uint64 values and the root has the least, numWords is an int, no cycle.
   [iso s d s2 d2 phi] (CodecIso.v): phi maps the root to the root and every reachable node to a
   node with the same id, numWords, final flag and labels whose links are the images of its
   links.  encoding/gob's framing around GobEncode/GobDecode is not modelled (trusted, and
   exercised by the harness on every case). *)
From Coq Require Import List NArith ZArith Sorted.
From Mamba Require Import Dawg.Model Dawg.Spec Dawg.CodecModel Dawg.CodecVarint Dawg.CodecWf
  Dawg.CodecEncode Dawg.CodecIso Dawg.CodecRoundtrip Dawg.CodecCheck Dawg.CodecStable.
Import ListNotations.
Local Open Scope N_scope.

(* The variable-length integers: decodeUint64 reads back exactly what encodeUint64 wrote, for
   every uint64 value and whatever follows in the stream. *)
Theorem C14_varint_roundtrip : forall x rest, x < 2 ^ 64 ->
  decode_u64 (encode_u64 x ++ rest) = DOk (x, rest).
Proof. exact decode_encode_u64. Qed.
Print Assumptions C14_varint_roundtrip.

(* Non-vacuity: the one-byte boundary and the full width. *)
Example C14_varint_nonvacuous :
  encode_u64 127 = [127] /\ encode_u64 128 = [129; 128] /\ encode_u64 65536 = [131; 1; 0; 0] /\
  length (encode_u64 (2 ^ 64 - 1)) = 9%nat /\
  decode_u64 (encode_u64 (2 ^ 64 - 1) ++ [7]) = DOk (2 ^ 64 - 1, [7]).
Proof. vm_compute. repeat split; reflexivity. Qed.

(* The traversal of GobEncode ends (for all fuel from some f0 on the result is the same [Ok]),
   does not panic, and writes: the number of nodes, the ids in strictly increasing order, then
   exactly one record for every reachable node, the root's first. *)
Theorem C14_encode_each_node_once : forall s d, wf_dawg s d ->
  exists f0 sorted order,
    (forall fuel, (f0 <= fuel)%nat ->
       gob_encode fuel s d = Ok (gob_header sorted ++ records s sorted order)) /\
    hd_error order = Some d /\ NoDup order /\ (forall k, In k order <-> reach s d k) /\
    StronglySorted N.lt sorted /\ length sorted = length order /\
    (forall x, In x sorted <-> exists k, reach s d k /\ x = nid (node_at s k)).
Proof. exact gob_encode_once. Qed.
Print Assumptions C14_encode_each_node_once.

(* Fuel only decides whether the traversal is cut short: for every amount of fuel GobEncode
   either runs out of it or returns the one result; it never panics. *)
Theorem C14_encode_never_panics : forall s d, wf_dawg s d ->
  exists b f0, forall fuel,
    ((f0 <= fuel)%nat -> gob_encode fuel s d = Ok b) /\
    (gob_encode fuel s d = Ok b \/ gob_encode fuel s d = NoFuel).
Proof. exact gob_encode_never_panics. Qed.
Print Assumptions C14_encode_never_panics.

(* The round trip, for every well-formed automaton, any byte alphabet and any number of links
   per node (the count is a varint): GobEncode succeeds, GobDecode of its output (into any
   receiver t0) succeeds — no error, no panic — and yields a copy: an injective map phi of the
   reachable nodes onto nodes with equal ids, numWords, final flags, labels and corresponding
   links, rooted at the receiver (key 0); the copy is again well-formed, and encoding it gives
   the same bytes. *)
Theorem C14_roundtrip : forall s d t0, wf_dawg s d ->
  exists f0 b s2 phi,
    (forall fuel, (f0 <= fuel)%nat -> gob_encode fuel s d = Ok b) /\
    gob_decode t0 b = DOk s2 /\
    iso s d s2 0 phi /\
    (forall k1 k2, reach s d k1 -> reach s d k2 -> phi k1 = phi k2 -> k1 = k2) /\
    wf_dawg s2 0 /\
    (forall fuel, (f0 <= fuel)%nat -> gob_encode fuel s2 0 = Ok b).
Proof. exact gob_roundtrip. Qed.
Print Assumptions C14_roundtrip.

(* Hence what a caller can observe is unchanged: Lookup (membership and rank of every word),
   NumberOfWords, the node count, the enumeration of the words in link order (with the ranks:
   everything Search reports, by C13), and GobEncode, for every fuel. *)
Theorem C14_roundtrip_observables : forall s d t0, wf_dawg s d ->
  exists f0 b s2,
    (forall fuel, (f0 <= fuel)%nat -> gob_encode fuel s d = Ok b) /\
    gob_decode t0 b = DOk s2 /\
    (forall w, lookup s2 0 w = lookup s d w) /\
    number_of_words s2 0 = number_of_words s d /\
    (forall fuel, number_of_nodes fuel s2 0 = number_of_nodes fuel s d) /\
    (forall fuel, words_from fuel s2 0 = words_from fuel s d) /\
    (forall fuel, gob_encode fuel s2 0 = gob_encode fuel s d).
Proof. exact gob_roundtrip_observables. Qed.
Print Assumptions C14_roundtrip_observables.

(* numberOfNodes counts the reachable nodes. *)
Theorem C14_node_count : forall s d, wf_dawg s d ->
  exists f0 order, NoDup order /\ (forall k, In k order <-> reach s d k) /\
    forall fuel, (f0 <= fuel)%nat -> number_of_nodes fuel s d = Ok (length order).
Proof. exact number_of_nodes_reachable. Qed.
Print Assumptions C14_node_count.

(* The domain check that the model driver runs on every generated automaton is sound: passing
   it (with any certificates univ, hl) puts the automaton in the domain of the theorems. *)
Theorem C14_domain_check_sound : forall s d univ hl,
  wf_checkb s d univ hl = true -> wf_dawg s d.
Proof. intros s d univ hl H. exists univ, (hof hl). exact (wf_checkb_sound s d univ hl H). Qed.
Print Assumptions C14_domain_check_sound.

(* Non-vacuity: the automaton of { c, c7 : c < 200 } as the builder model makes it — a root with
   200 links (the count takes two bytes) to one shared node; it is well-formed, and the round
   trip computes as stated. *)
Definition ex_words : list word := flat_map (fun c => [[N.of_nat c]; [N.of_nat c; 7]]) (seq 0 200).
Definition ex_store : store := match new_dawg ex_words with Ok (Some s) => s | _ => sempty end.
Definition ex_fuel : nat := (100 * 1000)%nat.

(* ... and [NoFuel] does occur below the threshold *)
Example C14_fuel_nonvacuous :
  gob_encode 10 ex_store 0 = NoFuel /\ exists b, gob_encode ex_fuel ex_store 0 = Ok b.
Proof. split; [vm_compute; reflexivity|]. eexists. vm_compute. reflexivity. Qed.

Example C14_roundtrip_nonvacuous :
  wf_dawg ex_store 0 /\
  match gob_encode ex_fuel ex_store 0 with
  | Ok b =>
    firstn 14 b = [3; 0; 1; 2; 0; 130; 1; 144; 0; 129; 200; 0; 1; 1] /\
    match gob_decode zero_node b with
    | DOk s2 =>
      lookup s2 0 [5; 7] = Ok (Some 11%Z) /\ number_of_words s2 0 = Ok 400%Z /\
      number_of_nodes ex_fuel s2 0 = Ok 3%nat /\ gob_encode ex_fuel s2 0 = Ok b
    | _ => False
    end
  | _ => False
  end.
Proof.
  split.
  - apply (C14_domain_check_sound ex_store 0 [0; 1; 2] [(0, 2%nat); (1, 1%nat); (2, 0%nat)]).
    vm_compute. reflexivity.
  - vm_compute. repeat split; reflexivity.
Qed.
