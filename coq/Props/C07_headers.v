(* C07 / C08 -- the size header N(n) of graph6 and sparse6, tied to TODAY's source.

   Gen/SizeHeaders.v is re-extracted from graph/encoding.go on every run (tools/gotrans/headers.go):
   the `if n <= 1 / 62 / 258047 / 68719476735 / panic` chains of Graph6Encode and Sparse6Encode
   with every `s[k] = <expr>`, and the `if s[0] != 126 ...` trees of Graph6Decode and
   Sparse6Decode with the expressions assigned to n.  [eval_echain] / [eval_dtree] give these
   terms Go's meaning (typing, wrap-around at byte / uint64 / int width, panics on bad indices:
   Codec/HeaderGenSyntax.v).  The theorems say that, for ALL n >= 0 and ALL strings of bytes in
   63..126 (the decoders reject every other string before they look at the size), this code
   computes exactly what the model's [enc_size] / [dec_size] compute -- the functions that
   C07_size_header, C07_graph6_format, C08_*_total ... are proved about.  They rest on the four
   obligations Codec/HeaderGenCheck.v:*_header_regenerated, closed by [vm_compute] of a proved
   decision procedure on the regenerated tables; a source whose header code differs from the
   model on some input breaks them (also where no test can run: graph6 with n >= 258048).

   Not covered here (it stays with the hand-written model and the correspondence runs): the
   capacity argument of make, everything before and after the chain / tree, and the value of
   the float test MaxN (recognised by its exact text only; 4294967296, computed in Model.v). *)
From Coq Require Import List ZArith Bool.
From Mamba Require Import Codec.Model Codec.Spec Codec.G6Header Codec.HeaderGenSyntax Codec.HeaderGenEnc
  Codec.HeaderGenDec Codec.HeaderGenExpected Codec.HeaderGenCheck Gen.SizeHeaders.
Import ListNotations.
Open Scope Z_scope.

(* The header chain of today's Graph6Encode: the early return for n <= 1, else enc_size n. *)
Theorem C07_headers_graph6_encode : forall n, 0 <= n ->
  eval_echain graph6_encode_chain n =
  (if n <=? 1 then ORet [n + 63] else match enc_size n with Ok h => OHdr h | _ => OPanic end).
Proof. exact graph6_encode_header_is_model. Qed.
Print Assumptions C07_headers_graph6_encode.
Example C07_headers_graph6_encode_nonvacuous :
  eval_echain graph6_encode_chain 258047 = OHdr [126; 125; 126; 126] /\
  eval_echain graph6_encode_chain 258048 = OHdr [126; 126; 63; 63; 63; 126; 63; 63] /\
  eval_echain graph6_encode_chain 68719476735 = OHdr [126; 126; 126; 126; 126; 126; 126; 126] /\
  eval_echain graph6_encode_chain 68719476736 = OPanic /\
  eval_echain graph6_encode_chain 1 = ORet [64].
Proof. vm_compute. repeat split; reflexivity. Qed.

(* The header chain of today's Sparse6Encode: ':' and then the same. *)
Theorem C07_headers_sparse6_encode : forall n, 0 <= n ->
  eval_echain sparse6_encode_chain n =
  (if n <=? 1 then ORet [58; byte_of (n + 63)]
   else match enc_size n with Ok h => OHdr (58 :: h) | _ => OPanic end).
Proof. exact sparse6_encode_header_is_model. Qed.
Print Assumptions C07_headers_sparse6_encode.
Example C07_headers_sparse6_encode_nonvacuous :
  eval_echain sparse6_encode_chain 1073741901 = OHdr [58; 126; 126; 64; 63; 63; 63; 64; 76] /\
  eval_echain sparse6_encode_chain 63 = OHdr [58; 126; 63; 63; 126].
Proof. vm_compute. repeat split; reflexivity. Qed.

(* The header tree of today's Graph6Decode (with the "Graph too large" test) is dec_size true
   on every string of bytes in 63..126, the empty string and too short ones included. *)
Theorem C07_headers_graph6_decode : forall s, Forall (fun c => 63 <= c <= 126) s ->
  eval_dtree s graph6_decode_tree = dec_size true s.
Proof. exact graph6_decode_header_is_model. Qed.
Print Assumptions C07_headers_graph6_decode.
Example C07_headers_graph6_decode_nonvacuous :
  eval_dtree [126; 126; 63; 63; 63; 126; 63; 63; 70] graph6_decode_tree = Ok (258048, 8) /\
  eval_dtree [126; 125; 126; 126] graph6_decode_tree = Ok (258047, 4) /\
  eval_dtree [126; 126; 70; 63; 63; 63; 63; 63] graph6_decode_tree = Err /\
  eval_dtree [126; 126; 63] graph6_decode_tree = Err /\
  eval_dtree [] graph6_decode_tree = Panic.
Proof. vm_compute. repeat split; reflexivity. Qed.

(* The header tree of today's Sparse6Decode is dec_size false. *)
Theorem C07_headers_sparse6_decode : forall s, Forall (fun c => 63 <= c <= 126) s ->
  eval_dtree s sparse6_decode_tree = dec_size false s.
Proof. exact sparse6_decode_header_is_model. Qed.
Print Assumptions C07_headers_sparse6_decode.
Example C07_headers_sparse6_decode_nonvacuous :
  eval_dtree [126; 126; 70; 63; 63; 63; 63; 63] sparse6_decode_tree = Ok (7516192768, 8) /\
  eval_dtree [100] sparse6_decode_tree = Ok (37, 1).
Proof. vm_compute. repeat split; reflexivity. Qed.

(* Hence the models of the four functions, with today's header code in the place of enc_size /
   dec_size, ARE the models every theorem of C07 and C08 is about. *)
Theorem C07_headers_models_regenerated : forall g s0,
  graph6_encode g = graph6_encode_from (eval_echain graph6_encode_chain) g /\
  sparse6_encode g = sparse6_encode_from (eval_echain sparse6_encode_chain) g /\
  graph6_decode s0 = graph6_decode_from (fun s => eval_dtree s graph6_decode_tree) s0 /\
  sparse6_decode s0 = sparse6_decode_from (fun s => eval_dtree s sparse6_decode_tree) s0.
Proof.
  exact (fun g s0 => conj (graph6_encode_regenerated g) (conj (sparse6_encode_regenerated g)
          (conj (graph6_decode_regenerated s0) (sparse6_decode_regenerated s0)))).
Qed.
Print Assumptions C07_headers_models_regenerated.
Example C07_headers_models_regenerated_nonvacuous :
  graph6_encode_from (eval_echain graph6_encode_chain) {| gn := 3; gadj := fun i j => negb (Nat.eqb i j) |}
    = Ok [66; 119] (* "Bw" *) /\
  graph6_decode_from (fun s => eval_dtree s graph6_decode_tree) [66; 119] = Ok (3, [true; true; true]).
Proof. vm_compute. repeat split; reflexivity. Qed.

(* The header round trip on today's source, for the whole range of the format: the bytes the
   regenerated encoder chains write for n are N(n) of the format text, and the regenerated
   decoder trees read them back (Graph6Decode up to its limit 2^32). *)
Theorem C07_headers_roundtrip : forall n rest, 2 <= n <= 68719476735 ->
  Forall (fun c => 63 <= c <= 126) rest ->
  exists h,
    eval_echain graph6_encode_chain n = OHdr h /\
    eval_echain sparse6_encode_chain n = OHdr (58 :: h) /\
    h = spec_N n /\
    eval_dtree (h ++ rest) sparse6_decode_tree = Ok (n, hdr_len n) /\
    (n <= 4294967296 -> eval_dtree (h ++ rest) graph6_decode_tree = Ok (n, hdr_len n)).
Proof. exact header_roundtrip_regenerated. Qed.
Print Assumptions C07_headers_roundtrip.
Example C07_headers_roundtrip_nonvacuous :
  2 <= 258048 <= 68719476735 /\ hdr_len 258048 = 8 /\ spec_N 258048 = [126; 126; 63; 63; 63; 126; 63; 63].
Proof. vm_compute. repeat split; discriminate. Qed.
