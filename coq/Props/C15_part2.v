(* C15, second part: the iterators of /repo/itertools other than Product, Combinations,
   CombinationsColex and RestrictedPrefixProduct (those are in Props/C15.v).

   Reading a statement: [drain next value fuel s0 = Some (l, e)] says that, started from the
   constructor's state s0, [Next] returned true exactly [length l] times and then false, that the
   values read after the successful calls are the list l, that no call panicked or ran out of
   internal fuel (the result is [Some]), and that e is the state after the call that returned
   false; it holds for every fuel above [length l].  [exhausted next e]: every further call
   returns false. *)
From Coq Require Import List ZArith Bool Sorted Permutation.
From Mamba Require Import Iter.Model Iter.Enum Iter.Lex Iter.PermUtil Iter.PermEnum
  Iter.IntPartOrder Iter.IntPart Iter.Part Iter.PartBlocks Iter.Colex Iter.MultisetComb
  Iter.HeapSafe Iter.HeapEnum Iter.TopoOrder Iter.TopoStep Iter.TopoEnum.
Import ListNotations.
Open Scope Z_scope.

(* LexicographicPermutations(n), every n >= 0: the permutations of 0..n-1, each once, in
   lexicographic order. *)
Theorem C15_lexicographic_permutations : forall n : nat,
  exists l e,
    (forall fuel, (length l < fuel)%nat ->
       drain lexperm_next lexperm_value fuel (lexperm_init n) = Some (l, e)) /\
    StronglySorted lex_lt l /\ NoDup l /\
    (forall x, In x l <-> Permutation x (iota n)) /\
    exhausted lexperm_next e.
Proof. exact lexperm_enumerates. Qed.
Print Assumptions C15_lexicographic_permutations.

Example C15_lexicographic_permutations_nonvacuous :
  option_map fst (drain lexperm_next lexperm_value 7 (lexperm_init 3))
  = Some [[0;1;2]; [0;2;1]; [1;0;2]; [1;2;0]; [2;0;1]; [2;1;0]].
Proof. vm_compute. reflexivity. Qed.

(* MultisetPermutations(freq), every freq with non-negative entries (including the empty slice
   and zero multiplicities): the arrangements of the multiset holding i exactly freq[i] times,
   each once, in lexicographic order. *)
Theorem C15_multiset_permutations : forall freq : list Z, Forall (fun v => 0 <= v) freq ->
  exists l e,
    (forall fuel, (length l < fuel)%nat ->
       drain lexperm_next lexperm_value fuel (mperm_init freq) = Some (l, e)) /\
    StronglySorted lex_lt l /\ NoDup l /\
    (forall x, In x l <-> Permutation x (expand 0 freq)) /\
    exhausted lexperm_next e.
Proof. exact mperm_enumerates. Qed.
Print Assumptions C15_multiset_permutations.

Example C15_multiset_permutations_nonvacuous :
  option_map fst (drain lexperm_next lexperm_value 13 (mperm_init [2;0;1;1]))
  = Some [[0;0;2;3]; [0;0;3;2]; [0;2;0;3]; [0;2;3;0]; [0;3;0;2]; [0;3;2;0];
          [2;0;0;3]; [2;0;3;0]; [2;3;0;0]; [3;0;0;2]; [3;0;2;0]; [3;2;0;0]].
Proof. vm_compute. reflexivity. Qed.

(* IntegerPartitions(n), every n >= 0: Value() never panics (every value is [Some x]) and the
   values are exactly the partitions of n - non-increasing lists of positive integers with sum
   n - each once, in reverse lexicographic order ([ip_lt (Some x) (Some y)] is [plt y x], and
   [plt] is the lexicographic order on lists of positive integers, see the next theorem). *)
Theorem C15_integer_partitions : forall n : nat,
  exists l e,
    (forall fuel, (length l < fuel)%nat ->
       drain intparts_next intparts_value fuel (intparts_init n) = Some (l, e)) /\
    StronglySorted ip_lt l /\ NoDup l /\
    (forall o, In o l <->
       exists x, o = Some x /\
         (forall v, In v x -> 1 <= v) /\
         (forall i, (S i < length x)%nat -> nth (S i) x 0 <= nth i x 0) /\
         fold_right Z.add 0 x = Z.of_nat n) /\
    exhausted intparts_next e.
Proof. exact intparts_enumerates. Qed.
Print Assumptions C15_integer_partitions.

(* the order used above is the textbook lexicographic order (a proper prefix is smaller) *)
Theorem C15_integer_partitions_order : forall x y : list Z,
  (forall v, In v x -> 1 <= v) -> (forall v, In v y -> 1 <= v) -> (plt x y <-> std_lex x y).
Proof. exact plt_std. Qed.
Print Assumptions C15_integer_partitions_order.

Example C15_integer_partitions_order_nonvacuous : std_lex [3;1;1] [3;2] /\ plt [3;1;1] [3;2].
Proof.
  split; [apply std_eq, std_lt; reflexivity|].
  exists 1%nat. split; [intros [|i] Hi; [reflexivity|inversion Hi as [|? H]; inversion H]|reflexivity].
Qed.

Example C15_integer_partitions_nonvacuous :
  option_map fst (drain intparts_next intparts_value 8 (intparts_init 5))
  = Some [Some [5]; Some [4;1]; Some [3;2]; Some [3;1;1]; Some [2;2;1]; Some [2;1;1;1]; Some [1;1;1;1;1]].
Proof. vm_compute. reflexivity. Qed.

(* Partitions(n), every n >= 1 (the constructor panics for n < 1 by design): the restricted
   growth strings held by the iterator are exactly the strings a of length n with
   0 <= a[j] <= 1 + max(a[0..j-1]) (so a[0] = 0), each once, in lexicographic order. *)
Theorem C15_partitions_rgs : forall n' : nat,
  exists s0, parts_init (S n') = Some s0 /\
  exists l e,
    (forall fuel, (length l < fuel)%nat -> drain parts_next parts_rgs fuel s0 = Some (l, e)) /\
    StronglySorted lex_lt l /\ NoDup l /\
    (forall x, In x l <->
       length x = S n' /\ forall j, (j < length x)%nat -> 0 <= nth j x 0 <= pmax x j + 1) /\
    exhausted parts_next e.
Proof. exact parts_enumerates. Qed.
Print Assumptions C15_partitions_rgs.

Example C15_partitions_rgs_nonvacuous :
  option_map (fun s => option_map fst (drain parts_next parts_rgs 6 s)) (parts_init 3)
  = Some (Some [[0;0;0]; [0;0;1]; [0;1;0]; [0;1;1]; [0;1;2]]).
Proof. vm_compute. reflexivity. Qed.

(* MultisetCombinations(m, k), every m with non-negative entries (empty m, zero and repeated
   multiplicities) and every k >= 0 (k = 0, k = sum m, k > sum m: nothing is yielded): the
   vectors returned by FreqValue() are exactly the v of length len(m) with 0 <= v[i] <= m[i] and
   sum k, each once, in colexicographic order (compare the last differing position). *)
Theorem C15_multiset_combinations : forall (m : list Z) (k : Z),
  Forall (fun v => 0 <= v) m -> 0 <= k ->
  exists l e,
    (forall fuel, (length l < fuel)%nat ->
       drain mcomb_next mcomb_freq fuel (mcomb_init m k) = Some (l, e)) /\
    StronglySorted colex_lt l /\ NoDup l /\
    (forall x, In x l <->
       length x = length m /\
       (forall i, (i < length m)%nat -> 0 <= nth i x 0 <= nth i m 0) /\
       fold_right Z.add 0 x = k) /\
    exhausted mcomb_next e.
Proof. exact mcomb_enumerates. Qed.
Print Assumptions C15_multiset_combinations.

Example C15_multiset_combinations_nonvacuous :
  option_map fst (drain mcomb_next mcomb_freq 6 (mcomb_init [2;0;1;2] 3))
  = Some [[2;0;1;0]; [2;0;0;1]; [1;0;1;1]; [1;0;0;2]; [0;0;1;2]].
Proof. vm_compute. reflexivity. Qed.

(* MultisetCombinations through Value(): the slices returned by Value() are [expand 0 v] (i
   repeated v[i] times, in increasing order of i) for the frequency vectors v of the previous
   theorem, in the same order, and no multiset is returned twice. *)
Theorem C15_multiset_combinations_value : forall (m : list Z) (k : Z),
  Forall (fun v => 0 <= v) m -> 0 <= k ->
  exists lf e,
    (forall fuel, (length lf < fuel)%nat ->
       drain mcomb_next mcomb_value fuel (mcomb_init m k) = Some (map (expand 0) lf, e)) /\
    (forall x, In x lf <-> mc_F m k x) /\ NoDup lf /\ NoDup (map (expand 0) lf) /\
    exhausted mcomb_next e.
Proof. exact mcomb_value_enumerates. Qed.
Print Assumptions C15_multiset_combinations_value.

Example C15_multiset_combinations_value_nonvacuous :
  option_map fst (drain mcomb_next mcomb_value 6 (mcomb_init [2;0;1;2] 3))
  = Some [[0;0;2]; [0;0;3]; [0;2;3]; [0;3;3]; [2;3;3]].
Proof. vm_compute. reflexivity. Qed.

(* Partitions(n), n >= 1, through Value(): with lr the list of restricted growth strings of the
   previous theorem, the values returned by Value() are [map rgs_blocks lr]; none is a panic
   ([Some p]), every p is a set partition of {0..n-1} (blocks non-empty, duplicate-free, inside
   the range, covering the range, pairwise disjoint, no block listed twice), and no partition
   is returned twice.  (That every set partition is the image of a restricted growth string is
   the classical bijection and is not proved here.) *)
Theorem C15_partitions_value : forall n' : nat,
  exists s0, parts_init (S n') = Some s0 /\
  exists lr e,
    (forall fuel, (length lr < fuel)%nat ->
       drain parts_next parts_value fuel s0 = Some (map rgs_blocks lr, e)) /\
    (forall r, In r lr <-> rgs_F (S n') r) /\ NoDup lr /\
    (forall o, In o (map rgs_blocks lr) -> exists p, o = Some p /\ is_setpart (S n') p) /\
    NoDup (map rgs_blocks lr) /\
    exhausted parts_next e.
Proof. exact parts_value_enumerates. Qed.
Print Assumptions C15_partitions_value.

Example C15_partitions_value_nonvacuous :
  option_map (fun s => option_map fst (drain parts_next parts_value 6 s)) (parts_init 3)
  = Some (Some [Some [[0;1;2]]; Some [[0;1];[2]]; Some [[0;2];[1]]; Some [[0];[1;2]]; Some [[0];[1];[2]]]).
Proof. vm_compute. reflexivity. Qed.

(* TopologicalSorts(n, less), every n >= 0 and every less that is a sub-relation of the natural
   order on 0..n-1 (transitivity is not needed): exactly the permutations x of 0..n-1 in which u
   stands before v whenever less u v, each once; [pos x v] is the index of v in x.  The order of
   generation is the lexicographic order of the inversion tables ([topo_lt]). *)
Theorem C15_topological_sorts : forall (n : nat) (less : Z -> Z -> bool),
  (forall u v, (u < n)%nat -> (v < n)%nat -> less (Z.of_nat u) (Z.of_nat v) = true -> (u < v)%nat) ->
  exists l e,
    (forall fuel, (length l < fuel)%nat ->
       drain (topo_next less) topo_value fuel (topo_init n) = Some (l, e)) /\
    StronglySorted (topo_lt n) l /\ NoDup l /\
    (forall x, In x l <->
       Permutation x (iota n) /\
       forall u v, (u < n)%nat -> (v < n)%nat -> less (Z.of_nat u) (Z.of_nat v) = true ->
         (pos x (Z.of_nat u) < pos x (Z.of_nat v))%nat) /\
    exhausted (topo_next less) e.
Proof. exact topo_enumerates. Qed.
Print Assumptions C15_topological_sorts.

Example C15_topological_sorts_nonvacuous :
  option_map fst (drain (topo_next (fun u v => (u =? 0) && (v =? 2))) topo_value 4 (topo_init 3))
  = Some [[0;1;2]; [0;2;1]; [1;0;2]].
Proof. vm_compute. reflexivity. Qed.

(* Permutations(n) (Heap's algorithm), every n >= 0: every permutation of 0..n-1 exactly once
   (no order is documented), then exhaustion for ever. *)
Theorem C15_permutations_heap : forall n : nat,
  exists l e,
    (forall fuel, (length l < fuel)%nat ->
       drain heap_next heap_value fuel (heap_init n) = Some (l, e)) /\
    NoDup l /\
    (forall x, In x l <-> Permutation x (iota n)) /\
    exhausted heap_next e.
Proof. exact heap_enumerates. Qed.
Print Assumptions C15_permutations_heap.

Example C15_permutations_heap_nonvacuous :
  option_map fst (drain heap_next heap_value 7 (heap_init 3))
  = Some [[0;1;2]; [1;0;2]; [2;0;1]; [0;2;1]; [1;2;0]; [2;1;0]].
Proof. vm_compute. reflexivity. Qed.

(* also: from every state reachable by calls of Next the next call is not a panic (safety,
   independent of the enumeration theorem) *)
Theorem C15_permutations_heap_safe : forall n : nat,
  forall s, reachable heap_next (heap_init n) s ->
    exists s' b, heap_next s = Some (s', b) /\
      (b = true -> Permutation (heap_value s') (iota n)) /\
      (b = false -> exhausted heap_next s').
Proof. exact heap_safe. Qed.
Print Assumptions C15_permutations_heap_safe.

Example C15_permutations_heap_safe_nonvacuous :
  exists s, reachable heap_next (heap_init 2) s /\ heap_next s = Some (s, false).
Proof.
  eexists. split.
  - eapply reach_step; [eapply reach_step; [eapply reach_step; [apply reach_init|]|]|]; vm_compute; reflexivity.
  - vm_compute. reflexivity.
Qed.
