(* C10 — BiconnectedComponents (graph/general.go:86-202): the Gallina model of the code as written
   (Invariants/BlockModel.v: per connected component an explicit DFS stack, depths / lowpoints /
   parents arrays, the stack of partial blocks, the neighbour list of the top of the stack scanned
   again from its beginning at every visit, blocks closed inside the scan when
   lowpoints[u] >= depths[v], the root treated by its child count) returns, for every simple
   graph, without bound on the size:

   * never Panic, never Fuel: the loop of a component with k vertices is given fuel 2k
     (k - 1 discoveries, k pops) and ends with the stack empty;
   * exactly the blocks of g — the inclusion-maximal ascending vertex lists S with G[S] connected
     and G[S - v] connected for every v in S (isolated vertices and bridges included, as the
     code and the property's reference treat them) — each once, each ascending;
   * exactly the articulation vertices — the vertices whose removal separates two other vertices
     that are joined in g — each once.

   The order of the blocks and of the articulation vertices in the result is left open (the
   driver compares sorted lists).  Proof: loop invariant over the DFS tree built so far
   (BlockProofsInv/Step*.v/Loop.v), graph theory of the finished DFS tree (BlockProofsGraph.v:
   low points, heads, blocks as maximal sets without cut vertex, articulation vertices), transport
   between g and its components as induced subgraphs (BlockProofsTransport.v). *)
From Coq Require Import List Arith Bool ZArith Sorted.
From Mamba Require Import Invariants.Graph Invariants.DistSpec Invariants.DistRef Invariants.DistModel
  Invariants.ConnModel Invariants.CycleCount Invariants.BlockRefProofs Invariants.BlockModel
  Invariants.BlockProofsTop.
Import ListNotations.

Theorem C10_blocks_model : forall g, wf g ->
  exists bl ar, biconnected_components_go g = Done (bl, ar) /\
    NoDup bl /\ (forall S, In S bl <-> is_block g S) /\
    NoDup ar /\ (forall v, In v ar <-> v < gn g /\ separates g v).
Proof. exact biconnected_components_go_correct. Qed.
Print Assumptions C10_blocks_model.

(* the same against the executable references run by the driver *)
Theorem C10_blocks_model_ref : forall g, wf g ->
  exists bl ar, biconnected_components_go g = Done (bl, ar) /\
    NoDup bl /\ (forall S, In S bl <-> In S (blocks_ref g)) /\ Forall (StronglySorted lt) bl /\
    NoDup ar /\ (forall v, In v ar <-> In v (artic_ref g)).
Proof. exact biconnected_components_go_ref. Qed.
Print Assumptions C10_blocks_model_ref.

(* the explicit fuel: the loop of the component c stops within 2 * |c| iterations *)
Theorem C10_blocks_fuel : forall g c out, wf g -> In c (comps_ref g) ->
  exists s, bc_loop (induced g c) c (2 * length c) (bc_init (length c) out) = Done s /\ b_stack s = [].
Proof. exact component_loop_fuel. Qed.
Print Assumptions C10_blocks_fuel.

(* non-vacuity: a triangle 0-1-2, a bridge 2-3, a triangle 3-4-5, the isolated vertex 6, and the
   separate edge 7-8 *)
Definition ex_blocks_graph : graph :=
  of_edges 9 [(0,1); (1,2); (2,0); (2,3); (3,4); (4,5); (5,3); (7,8)].

Example C10_blocks_nonvacuous :
  biconnected_components_go ex_blocks_graph =
    Done ([[7; 8]; [6]; [3; 4; 5]; [2; 3]; [0; 1; 2]], [2; 3]) /\
  artic_ref ex_blocks_graph = [2; 3] /\
  length (blocks_ref ex_blocks_graph) = 5.
Proof. vm_compute. repeat split. Qed.
