(* C19 — independent values do not interfere.

   No executable Gallina model can exhibit a Go data race, so this property is NOT proved in
   full.  What is proved, on the effect summary that tools/gotrans regenerates from the
   repository's current source on every run (so these theorems are re-checked against what the
   code says now), is the absence of the ingredients of interference:
     (i)   no function assigns a package-level variable or starts a goroutine;
     (ii)  everything reachable (through calls that pass on a possibly shared value) from the
           read-only queries of a finished Dawg, resp. from the observers of the four graph
           representations, writes through no value of those types; comb's functions are pure;
     (iii) channel operations occur in AllMaximalCliques only.
   Together with the functional models of the other properties (a result is a function of the
   value operated on) this gives sequential = concurrent *under the Go memory model's
   guarantee for programs without conflicting accesses*, which is assumed, not proved.  The
   summary itself is produced by the translator (trusted).  The -race scenarios of the harness
   are exploration.  Hence the names ..._partial. *)
From Coq Require Import List String.
From Mamba Require Import Gen.Effects Effects.Closure Effects.Instance.
Import ListNotations.
Open Scope string_scope.

Theorem C19_no_shared_globals_partial : forall f, In f funcs -> gwrites f = [] /\ gostmts f = 0.
Proof. exact no_global_writes. Qed.
Print Assumptions C19_no_shared_globals_partial.

Theorem C19_dawg_queries_readonly_partial : forall g, Reach funcs scalls dawg_queries g ->
  exists info, lookup funcs g = Some info /\ no_swrite_of dawg_types info = true.
Proof. exact dawg_queries_readonly. Qed.
Print Assumptions C19_dawg_queries_readonly_partial.

Theorem C19_graph_observers_readonly_partial : forall g, Reach funcs scalls graph_observers g ->
  exists info, lookup funcs g = Some info /\ no_swrite_of graph_types info = true.
Proof. exact graph_observers_readonly. Qed.
Print Assumptions C19_graph_observers_readonly_partial.

Theorem C19_comb_pure_partial : forall g, Reach funcs calls comb_queries g ->
  exists info, lookup funcs g = Some info /\
    match gwrites info, swrites info with [], [] => true | _, _ => false end = true.
Proof. exact comb_functions_pure. Qed.
Print Assumptions C19_comb_pure_partial.

Theorem C19_channels_partial : forall f, In f funcs -> chanops f <> 0 -> fname f = "graph.AllMaximalCliques".
Proof. exact channels_only_in_cliques. Qed.
Print Assumptions C19_channels_partial.

(* Non-vacuity: the table is non-empty, the closures are non-trivial, and the analysis does see
   writes where there are some (the builder's commonPrefix writes through a Dawg and is NOT in
   the query closure). *)
Example C19_nonvacuous :
  Nat.ltb 100 (List.length funcs) = true /\ Nat.ltb 3 (List.length graph_closure) = true /\
  mem "dawg.Dawg.commonPrefix" dawg_closure = false /\
  (exists info, lookup funcs "dawg.Dawg.commonPrefix" = Some info /\ no_swrite_of dawg_types info = false).
Proof. repeat split; try (vm_compute; reflexivity). eexists; split; vm_compute; reflexivity. Qed.
