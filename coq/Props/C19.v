(* C19 — independent values do not interfere.

   No executable Gallina model can exhibit a Go data race, so this property is NOT proved in
   full.  What is proved, on the effect summary that tools/gotrans regenerates from the
   repository's current source on every run (so these theorems are re-checked against what the
   code says now), is the absence of the ingredients of interference:
     (0)   the translator understood every construct of every function (no method values,
           reflection, unsafe, cgo, ...: such a function is marked "unknown" and breaks (0));
           callbacks are called by six named functions only;
     (i)   no function assigns a package-level variable (directly, through a local alias, or by
           handing it to a callee that writes its parameter) or starts a goroutine;
     (ii)  everything reachable (through calls that pass on a possibly shared value) from the
           read-only queries of a finished Dawg, resp. from the observers of the four graph
           representations, writes through no value of those types; comb's functions are pure;
     (iii) channel operations occur in AllMaximalCliques only, and on every path of its body
           the channel it was given is closed exactly once, with no send after the close;
     (iv)  transitively over the call graph, an exported function writes only through its
           receiver, values it allocated itself, and an explicit list of documented parameters
           (searcher, scratch buffers, in-place slices, io.Writer/io.Reader, editable graph);
           the read-only queries the property names (Lookup / Search / observers N, M, IsEdge,
           Neighbours, Degrees on the four representations / comb / encoders / ...) write
           through nothing at all, except Search through the searcher it was handed.
     (v)   a field that may hold a slice / map / pointer owned by a caller of the exported API
           (stored from a parameter without copying, or copied from such a field) is written
           through by no function: two iterators, views or searchers built from the same input
           slice do not interfere through it (and the input itself is left untouched);
   Together with the functional models of the other properties (a result is a function of the
   value operated on) this gives sequential = concurrent *under the Go memory model's
   guarantee for programs without conflicting accesses*, which is assumed, not proved.  The
   summary itself is produced by the translator (trusted: syntactic, flow-insensitive alias
   tracking through local variables; values stored into a receiver are from then on owned by
   it).  The -race scenarios of the harness are exploration.  Hence the names ..._partial. *)
From Coq Require Import List String.
From Mamba Require Import Gen.Effects Effects.Skel Effects.Closure Effects.Flow Effects.Fields Effects.Chan Effects.Instance.
Import ListNotations.
Open Scope string_scope.

Theorem C19_translator_understood_everything_partial :
  forall f, In f funcs -> unknown f = [] /\ (dyncalls f <> [] -> In (fname f) callback_users).
Proof. intros f Hf. split; [exact (all_understood f Hf) | exact (callbacks_only_in f Hf)]. Qed.
Print Assumptions C19_translator_understood_everything_partial.

Theorem C19_no_shared_globals_partial :
  (forall f, In f funcs -> gwrites f = [] /\ gostmts f = 0) /\
  (forall f r, MayWrite funcs f r -> is_global_root r = false).
Proof. split; [exact no_global_writes | exact no_deep_global_writes]. Qed.
Print Assumptions C19_no_shared_globals_partial.

Theorem C19_dawg_queries_readonly_partial : forall g, Reach funcs scalls dawg_queries g ->
  exists info, lookup funcs g = Some info /\ readonly_fn dawg_types info = true.
Proof. exact dawg_queries_readonly. Qed.
Print Assumptions C19_dawg_queries_readonly_partial.

Theorem C19_graph_observers_readonly_partial : forall g, Reach funcs scalls graph_observers g ->
  exists info, lookup funcs g = Some info /\ readonly_fn graph_types info = true.
Proof. exact graph_observers_readonly. Qed.
Print Assumptions C19_graph_observers_readonly_partial.

Theorem C19_comb_pure_partial : forall g, Reach funcs calls comb_queries g ->
  exists info, lookup funcs g = Some info /\ pure_fn info = true.
Proof. exact comb_functions_pure. Qed.
Print Assumptions C19_comb_pure_partial.

Theorem C19_channels_partial : forall f, In f funcs -> chanops f <> 0 -> fname f = "graph.AllMaximalCliques".
Proof. exact channels_only_in_cliques. Qed.
Print Assumptions C19_channels_partial.

Theorem C19_channel_closed_once_partial : forall f p dn body, In (f, p, dn, body) chanskels ->
  f = "graph.AllMaximalCliques" /\
  forall tr e, Exec body tr e -> e = ENormal \/ e = EReturn ->
    closes (tr ++ repeat EvClose dn) = 1 /\ no_send_after_close (tr ++ repeat EvClose dn).
Proof. exact channel_closed_once. Qed.
Print Assumptions C19_channel_closed_once_partial.

Theorem C19_exported_writes_documented_partial : forall f info r,
  lookup funcs f = Some info -> fexported info = true -> MayWrite funcs f r ->
  r = "recv" \/ In (f, r) documented_param_writes.
Proof. exact exported_writes_documented. Qed.
Print Assumptions C19_exported_writes_documented_partial.

Theorem C19_queries_write_nothing_shared_partial : forall q allowed r,
  In (q, allowed) query_spec -> MayWrite funcs q r -> In r allowed /\ r <> "recv".
Proof.
  intros q allowed r Hq H. pose proof (queries_write_nothing_shared q allowed r Hq H) as A.
  split; auto. intros ->. pose proof query_spec_no_recv as B. rewrite forallb_forall in B.
  specialize (B _ Hq). simpl in B. apply Bool.negb_true_iff in B.
  apply mem_In in A. rewrite A in B. discriminate.
Qed.
Print Assumptions C19_queries_write_nothing_shared_partial.

Theorem C19_borrowed_inputs_not_written_partial : forall tf,
  Borrowed funcs documented_param_writes tf -> FieldWritten funcs tf -> False.
Proof. intros tf Hb Hw. exact (borrowed_fields_not_written tf Hb Hw). Qed.
Print Assumptions C19_borrowed_inputs_not_written_partial.

(* Non-vacuity.  The table is non-empty, the closures are non-trivial, and the analysis does
   see writes where there are some: the builder's commonPrefix writes through a Dawg and is NOT
   in the query closure. *)
Example C19_nonvacuous :
  Nat.ltb 100 (List.length funcs) = true /\ Nat.ltb 3 (List.length graph_closure) = true /\
  mem "dawg.Dawg.commonPrefix" dawg_closure = false /\
  (exists info, lookup funcs "dawg.Dawg.commonPrefix" = Some info /\ no_swrite_of dawg_types info = false).
Proof. repeat split; try (vm_compute; reflexivity). eexists; split; vm_compute; reflexivity. Qed.

(* the closures contain what the property names: Search reaches the searchers' Step (which
   writes the searcher, not the Dawg); every observer of every representation is a root *)
Example C19_nonvacuous_closures :
  mem "dawg.PatternSearcher.Step" dawg_closure = true /\ mem "dawg.AnagramSearcher.Step" dawg_closure = true /\
  List.length graph_observers = 20 /\ mem "graph.inducedSubgraph.Degrees" graph_closure = true /\
  mem "sortints.IntersectionSize" graph_closure = true /\ mem "comb.addHasOverflowed" comb_closure = true.
Proof. repeat split; vm_compute; reflexivity. Qed.

(* MayWrite is inhabited where it should be: Search writes through the searcher it is handed
   (its parameter 0) because PatternSearcher.Step writes its receiver; Builder.Add writes its
   receiver; ints.Sort reaches the in-place writes of insertionSort through quickSort *)
Example C19_nonvacuous_maywrite :
  MayWrite funcs "dawg.Dawg.Search" "p0" /\ MayWrite funcs "dawg.Builder.Add" "recv" /\
  MayWrite funcs "ints.Sort" "p0" /\
  In ("dawg.Dawg.Search", ["p0"]) query_spec /\ In ("graph.complement.Degrees", []) query_spec /\
  Nat.ltb 90 (List.length query_spec) = true.
Proof.
  split; [|split; [|split; [|split; [|split]]]].
  - eapply mw_call with (g := "dawg.PatternSearcher.Step") (q := "recv");
      [vm_compute; reflexivity | vm_compute; tauto |].
    eapply mw_direct; [vm_compute; reflexivity | vm_compute; tauto].
  - eapply mw_direct; [vm_compute; reflexivity | vm_compute; tauto].
  - eapply mw_call with (g := "ints.quickSort") (q := "p0"); [vm_compute; reflexivity | vm_compute; tauto |].
    eapply mw_call with (g := "ints.insertionSort") (q := "p0"); [vm_compute; reflexivity | vm_compute; tauto |].
    eapply mw_direct; [vm_compute; reflexivity | vm_compute; tauto].
  - vm_compute. tauto.
  - vm_compute. tauto.
  - vm_compute. reflexivity.
Qed.

(* the channel theorem speaks about a real skeleton (it sends inside a loop and closes at the
   end), a simple body of that shape has the path send;close, and the checker rejects bodies
   that close twice, never, or send after the close *)
Example C19_nonvacuous_channel :
  List.length chanskels = 1 /\
  Exec (CSeq (CLoop (CIf (CSeq CSend CContinue) CSkip)) CClose) ([EvSend] ++ [] ++ [EvClose]) ENormal /\
  check_once 0 (CSeq (CLoop (CIf (CSeq CSend CContinue) CSkip)) CClose) = true /\
  check_once 1 (CLoop CSend) = true /\
  check_once 0 (CLoop CSend) = false /\
  check_once 0 (CSeq CClose CClose) = false /\
  check_once 0 (CSeq (CLoop (CIf CClose CSkip)) CClose) = false /\
  check_once 0 (CSeq CClose CSend) = false /\
  check_once 0 (CSeq (CIf CReturn CSkip) CClose) = false /\
  check_once 0 (CSeq CUnknown CClose) = false.
Proof.
  split; [vm_compute; reflexivity|]. split; [|repeat split; vm_compute; reflexivity].
  apply (ex_seq _ _ [EvSend] ([] ++ [EvClose]) ENormal).
  - apply (ex_loop_next _ [EvSend] [] EContinue ENormal); [| right; reflexivity | apply ex_loop_done].
    apply ex_if_l. apply (ex_seq _ _ [EvSend] [] EContinue); constructor.
  - constructor.
Qed.

(* there are borrowed fields (MultisetCombinations keeps the caller's maxima slice, the induced
   view keeps the caller's vertex list) and there are fields that are written through (the
   iterator's own state); the theorem says the two sets are disjoint *)
Example C19_nonvacuous_borrowed :
  Borrowed funcs documented_param_writes "itertools.MultisetCombinationIterator.m" /\
  Borrowed funcs documented_param_writes "graph.inducedSubgraph.verts" /\
  FieldWritten funcs "itertools.MultisetCombinationIterator.state" /\
  List.length borrowed_fields = 6.
Proof.
  split; [|split; [|split]].
  - apply bo_store with (f := "itertools.MultisetCombinations") (r := "p0"); [|vm_compute; reflexivity].
    eapply ms_direct; [vm_compute; reflexivity | vm_compute; tauto].
  - apply bo_store with (f := "graph.InducedSubgraph") (r := "p1"); [|vm_compute; reflexivity].
    eapply ms_direct; [vm_compute; reflexivity | vm_compute; tauto].
  - destruct (lookup funcs "itertools.MultisetCombinationIterator.Next") as [info|] eqn:E; [|vm_compute in E; discriminate].
    apply fw_direct with (info := info).
    + apply (lookup_some funcs) in E. tauto.
    + vm_compute in E. injection E as <-. vm_compute. tauto.
  - vm_compute. reflexivity.
Qed.
