(* C11 — IsPlanar decides planarity.  PARTIAL (level "other"): the theorems of this file are
   about the SPECIFICATION of planarity, [planar G := no K5 minor and no K3,3 minor] with
   minors given by branch sets (Planar/Spec.v), about the executable oracle extracted for the
   correspondence check (Planar/Model.v), and about the shortcut branches of an executable
   model of the procedure of graph/planar.go (Planar/DmpModel.v).

   Termination and panic-freedom of that model (it returns RT or RF for every graph value, never
   RPanic or RFuel) are proved in Props/C11_total.v.
   NOT proved, explored by the harness only: that the Demoucron-Malgrange-Pertuiset procedure
   (code or model) returns the specification's answer.  Also not proved: that the minor
   characterisation coincides with embeddability in the plane (Wagner/Kuratowski), and the Euler
   bound m <= 3n-6 for graphs without K5 / K3,3 minor (so the `m > 3n-6 => false` shortcut is
   tied to the code by correspondence and to the specification by exploration only). *)
From Coq Require Import List Arith Bool Lia.
From Mamba Require Import Planar.Model Planar.Spec Planar.SpecLemmas Planar.Invariance
  Planar.Constructors Planar.ExecProofs Planar.CertProofs Planar.MinorClosed Planar.DmpModel Planar.DmpProofs.
Import ListNotations.

Definition K4 : graph := mkG 4 [(0,1);(0,2);(0,3);(1,2);(1,3);(2,3)].
Definition C4 : graph := mkG 4 [(0,1);(1,2);(2,3);(3,0)].

(* ---- the n < 5 shortcut of IsPlanar agrees with the specification *)
Theorem C11_small_partial : forall G, gn G < 5 -> planar G.
Proof. exact planar_small. Qed.
Print Assumptions C11_small_partial.

Example C11_small_nonvacuous : gn K4 < 5 /\
  planar_b K4 = true /\ planar_b K5 = false /\ planar_b K33 = false.
Proof. repeat split; vm_compute; auto. Qed.

(* ---- the oracle of the correspondence check is a decision procedure for the specification *)
Theorem C11_oracle_correct : forall G,
  (k5_minor_b G = true <-> has_minor K5 G) /\
  (k33_minor_b G = true <-> has_minor K33 G) /\
  (planar_b G = true <-> planar G).
Proof.
  intros G. split; [apply k5_minor_b_correct|]. split; [apply k33_minor_b_correct|apply planar_b_correct].
Qed.
Print Assumptions C11_oracle_correct.

Example C11_oracle_nonvacuous : ~ planar K5 /\ ~ planar K33 /\ planar K4 /\
  planar (mkG 6 [(0,1);(0,2);(0,3);(0,4);(1,2);(1,3);(1,4);(2,3);(2,4);(3,5);(5,0)]) /\
  ~ planar (subdivide K5 3 4).
Proof.
  repeat split; first [apply planar_b_false | apply planar_b_correct]; vm_compute; reflexivity.
Qed.

(* a certificate (one branch set per vertex of K5 / K3,3) accepted by the checker proves
   non-planarity; used for the non-planar-by-construction families, at any size *)
Theorem C11_certificate_sound : forall H G Bs, check_model_b H G Bs = true ->
  is_model H G (fun h v => memb v (nth h Bs [])) /\
  ((H = K5 \/ H = K33) -> ~ planar G).
Proof.
  intros H G Bs C. split; [apply check_model_sound; exact C|].
  intros [-> | ->]; apply (check_model_nonplanar G Bs); auto.
Qed.
Print Assumptions C11_certificate_sound.

Example C11_certificate_nonvacuous :
  check_model_b K5 (subdivide K5 3 4) [[0];[1];[2];[3;5];[4]] = true /\
  check_model_b K5 (subdivide K5 3 4) [[0];[1];[2];[3];[4]] = false.
Proof. split; vm_compute; reflexivity. Qed.

(* ---- the specification is invariant under relabelling *)
Theorem C11_spec_relabel : forall G G', iso G G' -> (planar G <-> planar G').
Proof. exact planar_iso. Qed.
Print Assumptions C11_spec_relabel.

Theorem C11_spec_relabel_concrete : forall G p q, wf G -> perm_on (gn G) p q ->
  (planar G <-> planar (relabel G p)).
Proof. intros G p q W P. apply planar_iso. apply (relabel_iso G p q W P). Qed.
Print Assumptions C11_spec_relabel_concrete.

Example C11_spec_relabel_nonvacuous :
  let p := fun v => match v with 0 => 3 | 1 => 0 | 2 => 1 | 3 => 2 | _ => v end in
  let q := fun v => match v with 3 => 0 | 0 => 1 | 1 => 2 | 2 => 3 | _ => v end in
  perm_on 5 p q /\ relabel K5 p = mkG 5 [(3,0);(3,1);(3,2);(3,4);(0,1);(0,2);(0,4);(1,2);(1,4);(2,4)].
Proof.
  split; [|reflexivity]. split; intros v Hv; do 5 (destruct v as [|v]; [simpl; split; [lia|reflexivity]|]); lia.
Qed.

(* ---- monotone under subgraphs: every graph that embeds into a planar graph is planar
   (edge deletion, vertex deletion and arbitrary subgraphs are instances) *)
Theorem C11_spec_subgraph : forall G G', embeds G G' -> planar G' -> planar G.
Proof. exact planar_embeds. Qed.
Print Assumptions C11_spec_subgraph.

Theorem C11_spec_subgraph_concrete : forall G,
  (forall a b, planar G -> planar (del_edge G a b)) /\
  (forall a b, planar (add_edge G a b) -> planar G) /\
  (forall k, k < gn G -> planar G -> planar (del_vertex G k)) /\
  (forall G0, subgraph G0 G -> planar G -> planar G0).
Proof.
  intros G. split; [|split; [|split]].
  - intros a b. apply planar_embeds, subgraph_embeds, del_edge_subgraph.
  - intros a b. apply planar_embeds, subgraph_embeds, add_edge_subgraph.
  - intros k Lk. apply planar_embeds, del_vertex_embeds, Lk.
  - intros G0 S. apply planar_embeds, subgraph_embeds, S.
Qed.
Print Assumptions C11_spec_subgraph_concrete.

Example C11_spec_subgraph_nonvacuous :
  planar_b (del_edge K5 3 4) = true /\ planar_b (del_vertex K5 2) = true /\
  del_vertex K5 2 = mkG 4 [(0,1);(0,2);(0,3);(1,2);(1,3);(2,3)] /\ planar_b K5 = false.
Proof. repeat split; vm_compute; reflexivity. Qed.

(* ---- closed under minors (subsumes the subgraph statement; justifies the verdicts of the
   harness on edge contractions) *)
Theorem C11_spec_minor_closed : forall G' G, has_minor G' G -> planar G -> planar G'.
Proof. exact planar_minor. Qed.
Print Assumptions C11_spec_minor_closed.

Theorem C11_spec_contract_concrete : forall G a b, wf G -> adj G a b = true ->
  has_minor (contract G a b) G /\ (planar G -> planar (contract G a b)).
Proof. intros G a b W A. split; [apply contract_minor|apply planar_contract]; assumption. Qed.
Print Assumptions C11_spec_contract_concrete.

Example C11_spec_contract_nonvacuous :
  adj (subdivide K5 3 4) 3 5 = true /\
  contract (subdivide K5 3 4) 3 5 = mkG 5 [(3,3);(3,4);(0,1);(0,2);(0,3);(0,4);(1,2);(1,3);(1,4);(2,3);(2,4)] /\
  planar_b (contract (subdivide K5 3 4) 3 5) = false /\ planar_b (contract K33 0 3) = true.
Proof. repeat split; vm_compute; reflexivity. Qed.

(* ---- invariant under adding an isolated vertex, a pendant vertex, subdividing an edge *)
Theorem C11_spec_isolated : forall G G', adds_isolated G G' -> (planar G <-> planar G').
Proof. exact planar_isolated. Qed.
Print Assumptions C11_spec_isolated.

Theorem C11_spec_pendant : forall G G' w, adds_pendant G G' w -> (planar G <-> planar G').
Proof. exact planar_pendant. Qed.
Print Assumptions C11_spec_pendant.

Theorem C11_spec_subdivide : forall G G' a b, subdivides G G' a b -> (planar G <-> planar G').
Proof. exact planar_subdivide. Qed.
Print Assumptions C11_spec_subdivide.

Theorem C11_spec_extend_concrete : forall G, wf G ->
  (planar G <-> planar (add_isolated G)) /\
  (forall w, w < gn G -> (planar G <-> planar (add_pendant G w))) /\
  (forall a b, adj G a b = true -> (planar G <-> planar (subdivide G a b))).
Proof.
  intros G W. split; [|split].
  - apply planar_isolated, add_isolated_spec, W.
  - intros w Lw. apply (planar_pendant _ _ w), add_pendant_spec; assumption.
  - intros a b A. apply (planar_subdivide _ _ a b), subdivide_spec; assumption.
Qed.
Print Assumptions C11_spec_extend_concrete.

Example C11_spec_extend_nonvacuous :
  (forall e, In e (ge K33) -> fst e <? gn K33 = true /\ snd e <? gn K33 = true) /\
  adj K33 0 3 = true /\
  subdivide K33 0 3 = mkG 7 [(0,6);(6,3);(0,4);(0,5);(1,3);(1,4);(1,5);(2,3);(2,4);(2,5)] /\
  planar_b (subdivide K33 0 3) = false /\ planar_b (add_pendant K33 2) = false /\
  planar_b (add_isolated K4) = true /\ planar_b (subdivide K4 0 1) = true.
Proof.
  split; [|repeat split; vm_compute; reflexivity].
  intros e He. simpl in He. repeat (destruct He as [<-|He]; [split; reflexivity|]). destruct He.
Qed.

(* ---- the executable model of IsPlanar (Planar/DmpModel.v, tied to graph/planar.go by
   correspondence on t / f / panic for every graph of every case).  PARTIAL: the shortcut
   branches and the loop over the biconnected components are covered here, totality (never
   RPanic, never RFuel) in Props/C11_total.v; missing: that the embedding loop [dmp] returns RT
   exactly on planar blocks. *)
Theorem C11_model_shortcuts_partial : forall g,
  (gn g < 5 -> is_planar_model g = RT /\ planar g) /\
  (5 <= gn g -> forall b, In b (blocks (blk_of g)) -> 5 <= length b ->
     3 * length b - 6 < bm (induced (blk_of g) b) -> is_planar_model g <> RT).
Proof. exact model_shortcuts. Qed.
Print Assumptions C11_model_shortcuts_partial.

Theorem C11_model_blocks_partial : forall g, is_planar_model g = RT <->
  (gn g < 5 \/
   (b_fuel (blocks_st (blk_of g)) = false /\
    forall b, In b (blocks (blk_of g)) -> 5 <= length b ->
      bm (induced (blk_of g) b) <= 3 * length b - 6 /\ dmp (induced (blk_of g) b) = RT)).
Proof. exact model_true_iff. Qed.
Print Assumptions C11_model_blocks_partial.

Definition octahedron : graph := mkG 6 [(0,2);(0,3);(0,4);(0,5);(1,2);(1,3);(1,4);(1,5);(2,4);(2,5);(3,4);(3,5)].
(* K5 glued at vertex 4 to a 5-cycle with a chord: two blocks, the dense one is rejected by the count *)
Definition K5_plus : graph :=
  mkG 9 [(0,1);(0,2);(0,3);(0,4);(1,2);(1,3);(1,4);(2,3);(2,4);(3,4);(4,5);(5,6);(6,7);(7,8);(8,4);(5,7)].

Example C11_model_nonvacuous :
  blocks (blk_of K5_plus) = [[4;5;6;7;8]; [0;1;2;3;4]] /\
  bm (induced (blk_of K5_plus) [0;1;2;3;4]) = 10 /\ bm (induced (blk_of K5_plus) [4;5;6;7;8]) = 6 /\
  is_planar_model K5_plus = RF /\
  is_planar_model K33 = RF /\ bm (blk_of K33) = 9 /\       (* through the embedding loop *)
  is_planar_model octahedron = RT /\ planar_b octahedron = true /\
  is_planar_model K4 = RT.
Proof. repeat split; vm_compute; reflexivity. Qed.
