(* C11 — IsPlanar decides planarity.  PARTIAL: what is proved here is about the SPECIFICATION
   of planarity (no K5 and no K3,3 minor) and about the executable oracle used by the
   correspondence check.  NOT proved: that the Demoucron-Malgrange-Pertuiset procedure of
   graph/planar.go returns the specification's answer, that it terminates, and that its two
   panic branches are unreachable — those are explored by the harness only. *)
From Coq Require Import List Arith Bool.
From Mamba Require Import Planar.Model Planar.Spec Planar.SpecLemmas.
Import ListNotations.

(* the n < 5 shortcut of IsPlanar agrees with the specification *)
Theorem C11_small_partial : forall G, gn G < 5 -> planar G.
Proof. exact planar_small. Qed.
Print Assumptions C11_small_partial.

Example C11_small_nonvacuous : gn (mkG 4 [(0,1);(0,2);(0,3);(1,2);(1,3);(2,3)]) < 5 /\
  planar_b (mkG 4 [(0,1);(0,2);(0,3);(1,2);(1,3);(2,3)]) = true /\ planar_b K5 = false /\ planar_b K33 = false.
Proof. repeat split; vm_compute; auto. Qed.
