(* C07, Multicode and Pruefer part (a further property file of C07).
   This file contains only the property theorems, closed by [exact], and their assumptions.

   Models: Codec/MulticodeModel.v, Codec/PruferModel.v (self-contained, array level, a Go
   panic is [Panic]).  A graph value handed to an encoder is [graph] = (N(), IsEdge); [simple g]
   says IsEdge is symmetric and loop-free; Degrees() and M() are derived from IsEdge.
   [dense_of g] is the DenseGraph literal (n, m, degree sequence, triangle bytes) equal to g. *)
From Coq Require Import List ZArith Bool Arith.
From Mamba Require Import Codec.PruferMulticodeBase Codec.MulticodeModel Codec.PruferModel
  Codec.MulticodeProofs Codec.PruferTree Codec.PruferDecodeProofs Codec.PruferEncodeProofs
  Codec.PruferConnected Codec.PruferNewDense Codec.PruferProofs.
Import ListNotations.

(* ------------------------------------------------------------------ Multicode *)

(* For every graph with at most 255 vertices MulticodeEncode does not panic and returns exactly
   the record the format prescribes ([mc_spec]: the byte n, then for each of the vertices
   1..n-1 its larger neighbours, 1-based and ascending, closed by a 0 byte; the single byte 0
   for the empty graph). *)
Theorem C07_multicode_encode_format : forall g, gn g <= 255 ->
  multicode_encode g = Ok (if gn g =? 0 then [0%Z] else mc_spec g).
Proof. exact multicode_encode_spec. Qed.
Print Assumptions C07_multicode_encode_format.

(* Every byte of a record is between 0 and n (so it is a byte, and names a vertex or ends a list). *)
Theorem C07_multicode_bytes : forall g x, gn g <= 255 -> In x (mc_record g) -> (0 <= x <= Z.of_nat (gn g))%Z.
Proof. exact mc_record_bytes. Qed.
Print Assumptions C07_multicode_bytes.

(* Round trip: for every simple graph with at most 255 vertices, MulticodeDecode of the record
   is the DenseGraph equal to g (vertex count, edge count, degree sequence and edge bytes). *)
Theorem C07_multicode_roundtrip : forall g, simple g -> gn g <= 255 ->
  exists s, multicode_encode g = Ok s /\ multicode_decode s = Ok (dense_of g).
Proof.
  exact (fun g Hs Hn => ex_intro _ _ (conj (multicode_encode_spec g Hn) (multicode_decode_spec g Hs Hn))).
Qed.
Print Assumptions C07_multicode_roundtrip.

(* MulticodeDecodeMultiple of the concatenation of the records of any list of graphs (any
   number of them, including graphs with 0, 1 and 255 vertices) is the list of these graphs. *)
Theorem C07_multicode_multiple : forall gs, (forall g, In g gs -> simple g /\ gn g <= 255) ->
  multicode_decode_multiple (concat (map mc_record gs)) = Ok (map dense_of gs).
Proof. exact multicode_decode_multiple_spec. Qed.
Print Assumptions C07_multicode_multiple.

(* ------------------------------------------------------------------ Pruefer *)

(* For every n >= 2 and every code c in {0..n-1}^(n-2) (n = |c| + 2): PruferDecode (including
   its call of NewDense) does not panic and returns the DenseGraph equal to a graph
   [code_graph c] on n vertices that is a tree ([is_tree]: leaf elimination; theorems below
   relate it to connectedness and the edge count), and PruferEncode of that tree is c. *)
Theorem C07_prufer_decode_encode : forall c, valid_code c ->
  prufer_decode (map Z.of_nat c) = Ok (dense_of (code_graph c)) /\
  gn (code_graph c) = length c + 2 /\
  is_tree (code_graph c) /\
  prufer_encode (code_graph c) = Ok (map Z.of_nat c).
Proof. exact prufer_decode_encode. Qed.
Print Assumptions C07_prufer_decode_encode.

(* The same over Go ints: for every []int cz whose elements lie in [0, len(cz)+2), PruferDecode
   returns the DenseGraph of a simple graph on len(cz)+2 vertices that is a tree (by leaf
   elimination, and connected with n-1 edges), and PruferEncode of it returns cz. *)
Theorem C07_prufer_decode_encode_ints : forall cz : list Z,
  (forall x, In x cz -> (0 <= x < Z.of_nat (length cz) + 2)%Z) ->
  exists g, prufer_decode cz = Ok (dense_of g) /\ gn g = length cz + 2 /\ simple g /\
            is_tree g /\ connected_tree g /\ prufer_encode g = Ok cz.
Proof. exact prufer_decode_encode_Z. Qed.
Print Assumptions C07_prufer_decode_encode_ints.

(* The converse: for every labelled tree g on n >= 2 vertices PruferEncode does not panic, its
   result is a code in {0..n-1}^(n-2), and PruferDecode of it is the DenseGraph equal to g. *)
Theorem C07_prufer_encode_decode : forall g, simple g -> gn g >= 2 -> is_tree g ->
  exists c, prufer_encode g = Ok (map Z.of_nat c) /\ length c = gn g - 2 /\ valid_code c /\
            prufer_decode (map Z.of_nat c) = Ok (dense_of g).
Proof. exact prufer_encode_decode. Qed.
Print Assumptions C07_prufer_encode_decode.

(* Hence PruferDecode is injective on codes. *)
Theorem C07_prufer_decode_injective : forall c1 c2, valid_code c1 -> valid_code c2 ->
  prufer_decode (map Z.of_nat c1) = prufer_decode (map Z.of_nat c2) -> c1 = c2.
Proof. exact prufer_decode_injective. Qed.
Print Assumptions C07_prufer_decode_injective.

(* The tree notion in the usual terms.  [connected adj V]: any two vertices of V are joined by
   a walk inside V; [gm g] is M().  For every simple graph on n >= 1 vertices: tree by leaf
   elimination <-> connected with n - 1 edges. *)
Theorem C07_tree_characterisation : forall g, simple g -> gn g >= 1 ->
  (is_tree g <-> connected (gadj g) (seq 0 (gn g)) /\ gm g = (Z.of_nat (gn g) - 1)%Z).
Proof. exact is_tree_iff_connected_tree. Qed.
Print Assumptions C07_tree_characterisation.

(* PruferDecode of every code is connected and has n - 1 edges. *)
Theorem C07_prufer_decode_connected_tree : forall c, valid_code c ->
  connected (gadj (code_graph c)) (seq 0 (length c + 2)) /\
  gm (code_graph c) = (Z.of_nat (length c + 2) - 1)%Z.
Proof. exact prufer_decode_connected_tree. Qed.
Print Assumptions C07_prufer_decode_connected_tree.

(* The converse round trip for every connected simple graph with n >= 2 vertices and n - 1 edges. *)
Theorem C07_prufer_encode_decode_connected : forall g, simple g -> gn g >= 2 ->
  connected (gadj g) (seq 0 (gn g)) /\ gm g = (Z.of_nat (gn g) - 1)%Z ->
  exists c, prufer_encode g = Ok (map Z.of_nat c) /\ length c = gn g - 2 /\ valid_code c /\
            prufer_decode (map Z.of_nat c) = Ok (dense_of g).
Proof. exact prufer_encode_decode_connected. Qed.
Print Assumptions C07_prufer_encode_decode_connected.

(* ------------------------------------------------------------------ non-vacuity *)
Definition ex_graph : graph :=   (* the path 2 - 0 - 3 - 1 plus the edge 1 - 4 *)
  {| gn := 5; gadj := adjL [(2, 0); (0, 3); (3, 1); (1, 4)] |}.

Example C07_multicode_nonvacuous :
  multicode_encode ex_graph = Ok [5; 3; 4; 0; 4; 5; 0; 0; 0]%Z /\
  multicode_decode [5; 3; 4; 0; 4; 5; 0; 0; 0]%Z = Ok (dense_of ex_graph) /\
  multicode_decode_multiple ([0] ++ [5; 3; 4; 0; 4; 5; 0; 0; 0] ++ [1] ++ [2; 2; 0])%Z
  = Ok [dense_of {| gn := 0; gadj := fun _ _ => false |}; dense_of ex_graph;
        dense_of {| gn := 1; gadj := fun _ _ => false |};
        dense_of {| gn := 2; gadj := adjL [(0, 1)] |}].
Proof. vm_compute. repeat split. Qed.

Example C07_prufer_nonvacuous :
  valid_code [3; 3; 0; 4] /\
  prufer_decode [3; 3; 0; 4]%Z = Ok (dense_of (code_graph [3; 3; 0; 4])) /\
  prufer_encode (code_graph [3; 3; 0; 4]) = Ok [3; 3; 0; 4]%Z /\
  prufer_encode ex_graph = Ok [0; 3; 1]%Z /\
  prufer_decode [0; 3; 1]%Z = Ok (dense_of ex_graph).
Proof.
  split; [intros x Hx; repeat (destruct Hx as [<-|Hx]; [simpl; repeat constructor|]); destruct Hx|].
  vm_compute. repeat split.
Qed.

(* the hypotheses of the converse round trip are satisfiable: ex_graph is a simple tree *)
Example C07_tree_nonvacuous : simple ex_graph /\ is_tree ex_graph /\ gn ex_graph >= 2.
Proof.
  split; [split|split].
  - intros; apply adjL_sym.
  - intros; apply (adjL_irr 5). intros a b H; simpl in H.
    repeat (destruct H as [H|H]; [inversion H; subst; repeat split; auto 10 with arith; discriminate|]). destruct H.
  - unfold is_tree. cbn [gn gadj ex_graph seq].
    apply (lt_leaf _ _ 2 0); [simpl; auto 10|simpl; auto 10|reflexivity|reflexivity|cbn].
    apply (lt_leaf _ _ 0 3); [simpl; auto 10|simpl; auto 10|reflexivity|reflexivity|cbn].
    apply (lt_leaf _ _ 3 1); [simpl; auto 10|simpl; auto 10|reflexivity|reflexivity|cbn].
    apply (lt_leaf _ _ 1 4); [simpl; auto 10|simpl; auto 10|reflexivity|reflexivity|cbn].
    apply lt_one.
  - simpl. auto with arith.
Qed.
