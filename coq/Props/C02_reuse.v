(* C02 (reuse) — the history clause of C02: "CanonicalIsomorphAllocated with caller-owned storage and
   partition that are reset and reused across graphs of different sizes returns the same permutation,
   orbits and generators as a fresh call."

   Models: [canon_search] (Canon/SearchModel.v) = CanonicalIsomorphFull = the call on NewStorage(n, m) and
   NewOrderedPartition(n, m, classes); [canon_alloc] / [canon_alloc_reset] (Canon/SearchReuseModel.v) = the
   same function on a [storage] whose backing arrays hold ARBITRARY values (universally quantified: whatever
   earlier calls for other graphs left) and have at least the capacities of NewStorage(n, m), after
   op.Reset(n, m, classes) on an arbitrary old partition state of sufficient capacity (array-level model
   Canon/AutResetModel.v).  Only the property theorems, closed by [exact], and their assumptions.

   Proved: the result VALUES (permutation, raw orbit array, list of generators) are equal for every simple
   graph, admissible classes, fuel, storage contents and old partition state; for every call of every
   sequence through one storage (sizes going up and down within capacity); the call returns (enough fuel)
   and leaves the capacities intact.  The returned slices alias the storage: the next call overwrites them
   (the documented contract of "Allocated").

   Found by the proof (not a defect): the tails of currentBestPath / firstLeafPath beyond the length of the
   recorded leaf ARE read while stale (Heuristic 1 loop, ints.HasPrefix in Heuristic 2) — in a reused storage
   they hold paths of leaves of OTHER graphs.  The comparison is always decided before the tail is reached:
   the first entries of the recorded path lead to a leaf of the search tree and every stack node is an inner
   node (Canon/SearchReusePath.v, using the invariant of the fresh run).  Every other record is overwritten
   completely before it is read (a leaf certificate has exactly m entries, op.order is a permutation).

   Named _partial relative to the CODE: the theorems speak about the model.  Outside the search model (and
   therefore outside these theorems) are the six scratch arrays space/dws/nbs/timesSeen/maxCell/numberOfMax
   (capacities modelled, contents not: each is zeroed or written before it is read in every refinement
   round, also in a fresh call from the second round on) and the arrays of the partition DURING the search
   (the model keeps the list of bins; Reset itself is modelled on arrays).  Model = code is explored by
   exact outputs (C01 stream `search`, C02 `seq` cases and stream `reuse`), not proved. *)
From Coq Require Import List Arith ZArith.
From Mamba Require Import Disjoint.Model.
From Mamba Require Import Canon.Iso Canon.SearchModel Canon.SearchInit Canon.SearchProofs Canon.SearchReuseModel
  Canon.SearchReuse Canon.SearchReuseReset.
From Mamba Require Canon.AutResetModel Canon.AutReset.
Import ListNotations.
Open Scope nat_scope.

(* Noninterference: for ANY contents of the storage arrays (capacities at least those of NewStorage(n, m)),
   the call on the bins that Reset / NewOrderedPartition build returns the permutation, the orbit array and
   the generators of the fresh call — for every fuel (so also "out of fuel" coincides). *)
Theorem C02_reuse_noninterference_partial :
  forall (g : graph) (cls : option (list (list nat))) fuel (st : storage),
    simple g -> cls_ok (length g) cls ->
    storage_caps st (length g) (num_edges g) ->
    res_map fst (canon_alloc fuel st g cls) = canon_search fuel g cls.
Proof. intros g cls fuel st Hg Hc HS. exact (reuse_noninterference g cls Hg Hc fuel st HS). Qed.
Print Assumptions C02_reuse_noninterference_partial.

(* The whole reuse protocol: op.Reset(n, m, classes) on ANY old partition state [op] (arrays with arbitrary
   contents and lengths, capacities >= n, value >= m), then CanonicalIsomorphAllocated on ANY storage
   contents: the result of CanonicalIsomorphFull(g, classes). *)
Theorem C02_reuse_reset_noninterference_partial :
  forall (g : graph) (cls : option (list (list nat))) fuel (st : storage) (op : AutResetModel.opst),
    simple g -> cls_ok (length g) cls ->
    storage_caps st (length g) (num_edges g) ->
    AutReset.caps_ok op (length g) (num_edges g) ->
    res_map fst (canon_alloc_reset fuel st op g cls) = canon_search fuel g cls.
Proof. intros g cls fuel st op Hg Hc HS HO. exact (canon_alloc_reset_noninterference g cls fuel st op Hg Hc HS HO). Qed.
Print Assumptions C02_reuse_reset_noninterference_partial.

(* All histories: one storage (allocated for N vertices and M edges, any contents) pushed through a sequence
   of graphs of any sizes within capacity, the storage contents threaded from call to call ([write_back]),
   the partition before each Reset in any state: every call returns what the fresh call returns. *)
Theorem C02_reuse_sequence_partial :
  forall fuel N M (items : list (AutResetModel.opst * (graph * option (list (list nat))))) (st : storage),
    storage_caps st N M ->
    Forall (item_ok N M) items ->
    (forall it, In it items -> search_fuel (length (fst (snd it))) <= fuel) ->
    run_seq fuel st items = map (fun it => canon_search fuel (fst (snd it)) (snd (snd it))) items.
Proof. intros fuel N M items st HS HI HF. exact (run_seq_fresh fuel N M items st HS HI HF). Qed.
Print Assumptions C02_reuse_sequence_partial.

(* The call on the reused storage returns (no panic: no slice of the storage is cut beyond its capacity,
   no stale cell beyond a live length is exposed; enough fuel) and leaves the capacities intact. *)
Theorem C02_reuse_returns_partial :
  forall (g : graph) (cls : option (list (list nat))) fuel (st : storage) (op : AutResetModel.opst) N M,
    simple g -> cls_ok (length g) cls ->
    storage_caps st N M -> length g <= N -> num_edges g <= M ->
    AutReset.caps_ok op (length g) (num_edges g) ->
    search_fuel (length g) <= fuel ->
    exists r st', canon_alloc_reset fuel st op g cls = Ok (r, st') /\ canon_search fuel g cls = Ok r /\
      storage_caps st' N M.
Proof.
  intros g cls fuel st op N M Hg Hc HS HN HM HO Hf.
  exact (canon_alloc_reset_returns g cls fuel st op N M Hg Hc HS HN HM HO Hf).
Qed.
Print Assumptions C02_reuse_returns_partial.

(* Aliasing: the returned permutation and orbit array are the first cells of storage.currentBestPerm and
   storage.firstLeafOrbits after the call — results of an earlier call do not survive the next one. *)
Theorem C02_reuse_results_alias_storage_partial :
  forall fuel (st : storage) (g : graph) cs p o gs st',
    canon_alloc_cells fuel st g cs = Ok ((p, o, gs), st') ->
    firstn (length p) (st_cbPerm st') = p /\ firstn (length o) (st_flOrb st') = o.
Proof. intros fuel st g cs p o gs st' H. exact (canon_alloc_cells_alias fuel st g cs p o gs st' H). Qed.
Print Assumptions C02_reuse_results_alias_storage_partial.

(* NewStorage(n, m) meets the capacity condition: the fresh call is an instance. *)
Theorem C02_reuse_fresh_instance_partial :
  forall (g : graph) (cls : option (list (list nat))) fuel,
    simple g -> cls_ok (length g) cls ->
    res_map fst (canon_alloc fuel (new_storage (length g) (num_edges g)) g cls) = canon_search fuel g cls.
Proof.
  intros g cls fuel Hg Hc.
  exact (reuse_noninterference g cls Hg Hc fuel _ (new_storage_caps (length g) (num_edges g))).
Qed.
Print Assumptions C02_reuse_fresh_instance_partial.

(* Non-vacuity.  A storage of capacity 9 vertices / 12 edges filled with junk (paths 3 0 2 4 1 ..., junk
   parents in the orbit arrays, junk inner generator slices of capacity 7), a dirty partition: the 6-cycle
   with the classes {0,3} | {1,2,4,5} and without classes gives the results of the fresh call
   (C02_search_nonvacuous); then the sequence 6-cycle, path on 3 vertices, edgeless graph on 4 vertices with
   classes, 6-cycle again through ONE storage. *)
Definition ex_c6 : graph :=
  [[false;true;false;false;false;true];[true;false;true;false;false;false];
   [false;true;false;true;false;false];[false;false;true;false;true;false];
   [false;false;false;true;false;true];[true;false;false;false;true;false]].
Definition ex_p3 : graph := [[false;true;false];[true;false;true];[false;true;false]].
Definition ex_e4 : graph := [[false;false;false;false];[false;false;false;false];[false;false;false;false];[false;false;false;false]].
Definition ex_junk (k : nat) : list nat := map (fun i => Nat.modulo (i * 7 + 3) 5) (seq 0 k).
Definition ex_junkz (k : nat) : dset := map (fun i => Z.of_nat (Nat.modulo (i * 7 + 3) 5)) (seq 0 k).
Definition ex_dirty : storage :=
  mkSt (ex_junk 9) (ex_junk 9) (repeat (ex_junk 7) 8) (ex_junk 12) (ex_junk 9) (ex_junk 9) (ex_junk 9) (ex_junkz 9)
       (ex_junk 12) (ex_junk 9) (ex_junkz 9) (ex_junk 9)
       (ex_junk 9) (repeat (1, 1) 9) (ex_junk 9) (ex_junk 9) (ex_junk 9) (ex_junk 9).
Definition ex_op : AutResetModel.opst :=
  AutResetModel.mkop (AutResetModel.mk (ex_junk 9) 4) (AutResetModel.mk (ex_junk 9) 3) (AutResetModel.mk (ex_junk 9) 3)
                     (AutResetModel.mk (ex_junk 9) 2) (AutResetModel.mk (ex_junk 12) 5) (AutResetModel.mk (ex_junk 9) 4) 3 2.

Example C02_reuse_nonvacuous :
  let cls := Some [[0;3];[1;2;4;5]] in
  simpleb ex_c6 = true /\
  res_map fst (canon_alloc_reset 100 ex_dirty ex_op ex_c6 cls) =
    Ok ([3; 0; 4; 2; 5; 1], [3; 4; 4; -2; -3; 4]%Z, [[0; 5; 4; 3; 2; 1]; [3; 2; 1; 0; 5; 4]]) /\
  canon_search 100 ex_c6 cls =
    Ok ([3; 0; 4; 2; 5; 1], [3; 4; 4; -2; -3; 4]%Z, [[0; 5; 4; 3; 2; 1]; [3; 2; 1; 0; 5; 4]]) /\
  (* the storage afterwards: results in place, junk beyond the live lengths untouched *)
  option_map (fun rs => (st_cbPerm (snd rs), st_flPath (snd rs), st_gens (snd rs)))
    (match canon_alloc_reset 100 ex_dirty ex_op ex_c6 cls with Ok x => Some x | _ => None end) =
    Some ([3; 0; 4; 2; 5; 1; 0; 2; 4], [1; 1; 2; 4; 1; 3; 0; 2; 4],
          [[0; 5; 4; 3; 2; 1; 0]; [3; 2; 1; 0; 5; 4; 0]; [3; 0; 2; 4; 1; 3; 0]; [3; 0; 2; 4; 1; 3; 0];
           [3; 0; 2; 4; 1; 3; 0]; [3; 0; 2; 4; 1; 3; 0]; [3; 0; 2; 4; 1; 3; 0]; [3; 0; 2; 4; 1; 3; 0]]) /\
  (* a storage that is too small panics (slice bounds out of range), as the Go code does *)
  canon_alloc 100 (new_storage 5 6) ex_c6 cls = Panic.
Proof. vm_compute. repeat split. Qed.

Example C02_reuse_sequence_nonvacuous :
  let items := [(ex_op, (ex_c6, None)); (ex_op, (ex_p3, Some [[1]; [0; 2]])); (ex_op, (ex_e4, Some [[2; 0]; [3; 1]]));
                (ex_op, (ex_c6, Some [[0;3];[1;2;4;5]]))] in
  run_seq 100 ex_dirty items = map (fun it => canon_search 100 (fst (snd it)) (snd (snd it))) items /\
  run_seq 100 ex_dirty items =
    [Ok ([5; 4; 0; 3; 1; 2], [3; 3; 3; -3; 3; 3]%Z, [[4; 3; 2; 1; 0; 5]; [1; 0; 5; 4; 3; 2]; [1; 2; 3; 4; 5; 0]]);
     Ok ([1; 2; 0], [2; -1; -2]%Z, [[2; 1; 0]]);
     Ok ([0; 2; 1; 3], [-2; -2; 0; 1]%Z, [[2; 1; 0; 3]; [0; 3; 2; 1]]);
     Ok ([3; 0; 4; 2; 5; 1], [3; 4; 4; -2; -3; 4]%Z, [[0; 5; 4; 3; 2; 1]; [3; 2; 1; 0; 5; 4]])].
Proof. vm_compute. repeat split. Qed.

(* Non-vacuity of the stale-path argument: a cubic graph on 10 vertices (graph6 IKOeKO[KO) for which the code
   (instrumented clone, also in a fresh call) evaluates ints.HasPrefix(firstLeafPath, path[:len(path)-1])
   with len(path)-1 greater than the length of the recorded leaf, i.e. reads the stale tail, and finds a
   stale entry equal to the live one.  Storages whose arrays are all 0, all 1, or 0/1/2 junk give the
   result of the fresh call. *)
Definition ex_cubic : graph :=
  [[false;false;false;true;false;false;true;true;false;false];
   [false;false;true;false;true;false;true;false;false;false];
   [false;true;false;false;false;true;false;false;false;true];
   [true;false;false;false;false;false;false;false;true;true];
   [false;true;false;false;false;false;false;true;true;false];
   [false;false;true;false;false;false;true;false;true;false];
   [true;true;false;false;false;true;false;false;false;false];
   [true;false;false;false;true;false;false;false;false;true];
   [false;false;false;true;true;true;false;false;false;false];
   [false;false;true;true;false;false;false;true;false;false]].
Definition ex_fill (f : nat -> nat) : storage :=
  let a k := map f (seq 0 k) in
  let z k : dset := map (fun i => Z.of_nat (f i)) (seq 0 k) in
  mkSt (a 12) (a 12) (repeat (a 11) 11) (a 50) (a 12) (a 12) (a 12) (z 12) (a 50) (a 12) (z 12) (a 12)
       (a 12) (repeat (1, 1) 12) (a 12) (a 12) (a 12) (a 12).

Example C02_reuse_stale_path_nonvacuous :
  simpleb ex_cubic = true /\
  res_map fst (canon_alloc 200 (ex_fill (fun _ => 0)) ex_cubic None) = canon_search 200 ex_cubic None /\
  res_map fst (canon_alloc 200 (ex_fill (fun _ => 1)) ex_cubic None) = canon_search 200 ex_cubic None /\
  res_map fst (canon_alloc 200 (ex_fill (fun i => Nat.modulo (i * 5 + 1) 3)) ex_cubic None) = canon_search 200 ex_cubic None /\
  match canon_search 200 ex_cubic None with Ok (p, o, gs) => length gs = 3 | _ => False end.
Proof. vm_compute. repeat split. Qed.
