(* C09, the DSATUR branch and bound behind ChromaticNumber, IsKColorable and ChromaticIndex.
   The model (Invariants/DsaturModel.v) follows dfsDsatur of graph/colouring.go line by line:
   Go's container/heap on the uncoloured vertices, the counters seenColours, the three stacks,
   upperBound / lowerBound, binary fuel (n+1)^(n+1), [Panic] and [Fuel] distinct from [Ok].
   Every theorem quantifies over all simple graphs; [Ok] in a conclusion says that the search
   neither panics nor runs out of fuel.  Only property theorems, closed by [exact]. *)
From Coq Require Import List ZArith Arith Lia.
From Mamba Require Import Invariants.Graph Invariants.CliqueGraphOfEdges Invariants.ColourSpec Invariants.CliqueSpec
  Invariants.ColourRef Invariants.ColourIndexModel Invariants.CliqueIso
  Invariants.DsaturModel Invariants.DsaturProofsStep Invariants.DsaturProofsMain.
Import ListNotations.
Open Scope Z_scope.

(* ChromaticNumber (clique number as lower bound, n+1 as upper bound): for every simple graph
   the search returns; the number is the chromatic number (the least k admitting a proper
   colouring with colours 0..k-1, and equal to the proved oracle chromatic_number_ref); the
   colouring returned is proper, uses only the colours 0..chi-1 and uses every one of them. *)
Theorem C09_chromatic_number_dsatur : forall g, wf g ->
  exists chi col, chromatic_number_dsatur g = Ok (Z.of_nat chi, Some col) /\
    chromatic_number g chi /\ chi = chromatic_number_ref g /\
    proper g col /\
    (forall v, (v < gn g)%nat -> 0 <= colour_of col v < Z.of_nat chi) /\
    (forall j, 0 <= j < Z.of_nat chi -> exists v, (v < gn g)%nat /\ colour_of col v = j).
Proof. exact chromatic_number_dsatur_ok. Qed.
Print Assumptions C09_chromatic_number_dsatur.

Example C09_chromatic_number_dsatur_nonvacuous :
  let petersen := of_edges 10 [(0,1);(1,2);(2,3);(3,4);(4,0);(0,5);(1,6);(2,7);(3,8);(4,9);(5,7);(7,9);(9,6);(6,8);(8,5)]%nat in
  wf petersen /\ chromatic_number_dsatur petersen = Ok (3, Some [0; 1; 2; 0; 1; 1; 0; 0; 2; 2]).
Proof. split; [apply of_edges_wf|vm_compute; reflexivity]. Qed.

(* IsKColorable, for every k >= 0: the search returns; the answer is true exactly when a proper
   colouring with colours 0..k-1 exists (and equals the proved oracle k_colourable_ref); with
   true comes a proper colouring with colours 0..k-1, with false comes nil. *)
Theorem C09_is_k_colorable_dsatur : forall g k, wf g ->
  exists b c, is_k_colorable g (Z.of_nat k) = Ok (b, c) /\
    (b = true <-> exists f, k_colouring g k f) /\ b = k_colourable_ref g k /\
    (if b then exists col, c = Some col /\ k_colouring g k col else c = None).
Proof. exact is_k_colorable_ok. Qed.
Print Assumptions C09_is_k_colorable_dsatur.

Example C09_is_k_colorable_dsatur_nonvacuous :
  let g := of_edges 5 [(0,1); (1,2); (2,3); (3,4); (4,0); (0,2)]%nat in
  map (fun k => is_k_colorable g (Z.of_nat k)) (seq 0 5) =
  [Ok (false, None); Ok (false, None); Ok (false, None);
   Ok (true, Some [0; 2; 1; 0; 1]); Ok (true, Some [0; 2; 1; 0; 1])].
Proof. vm_compute. reflexivity. Qed.

(* ChromaticIndex = ChromaticNumber of the dense graph that LineGraphDense builds: the search
   returns, the number is the chromatic index of the exact edge list (= chromatic_index_ref);
   the edge array has one entry per pair in dense-array order, and as long as the index fits
   the element type of the []byte result (chi' <= 255) it holds 0 at the non-edges and a colour
   1..chi' at the edges, different for different edges sharing an end, every colour 1..chi'
   on some edge.  (For chi' >= 256 the
   conversion byte(colour+1) wraps: see notes/C09_dsatur.md, observed on K_{1,256}.) *)
Theorem C09_chromatic_index_dsatur : forall g,
  exists ci ce, chromatic_index_dsatur g = Ok (Z.of_nat ci, Some ce) /\
    chromatic_index (edges g) ci /\ ci = chromatic_index_ref g /\
    length ce = length (pairs (gn g)) /\
    ((ci <= 255)%nat ->
     forall p i j, nth_error (pairs (gn g)) p = Some (i, j) ->
      (gadj g i j = false -> nth p ce 0 = 0) /\
      (gadj g i j = true -> 1 <= nth p ce 0 <= Z.of_nat ci /\
         forall p' i' j', nth_error (pairs (gn g)) p' = Some (i', j') -> gadj g i' j' = true ->
           (i, j) <> (i', j') -> share_end (i, j) (i', j') -> nth p ce 0 <> nth p' ce 0)) /\
    ((ci <= 255)%nat -> forall c, 1 <= c <= Z.of_nat ci ->
       exists p i j, nth_error (pairs (gn g)) p = Some (i, j) /\ gadj g i j = true /\ nth p ce 0 = c).
Proof. exact chromatic_index_dsatur_ok. Qed.
Print Assumptions C09_chromatic_index_dsatur.

Example C09_chromatic_index_dsatur_nonvacuous :
  let g := of_edges 5 [(0,1); (1,2); (2,3); (3,4); (4,0); (0,2)]%nat in
  chromatic_index_dsatur g = Ok (3, Some [2; 1; 3; 0; 0; 2; 3; 0; 0; 1]).
Proof. vm_compute. reflexivity. Qed.

(* dfsDsatur itself, for every lower bound and every upper bound >= 0, on a graph with at least
   one vertex: it returns; either (-1, nil) and no proper colouring with at most upperBound
   colours exists, or (chi, c) with c proper using exactly the colours 0..chi-1, chi <= upperBound,
   and chi <= lowerBound or no proper colouring with fewer than chi colours exists. *)
Theorem C09_dfs_dsatur : forall g lb ub, wf g -> (0 < gn g)%nat -> 0 <= ub ->
  exists chi c, dfs_dsatur g lb ub = Ok (chi, c) /\
    ((chi = -1 /\ c = None /\ forall k f, k_colouring g k f -> Z.of_nat k <= ub -> False) \/
     (exists col, c = Some col /\ proper g col /\
        ((forall v, (v < gn g)%nat -> 0 <= colour_of col v < chi) /\
         (forall j, 0 <= j < chi -> exists v, (v < gn g)%nat /\ colour_of col v = j)) /\
        chi <= ub /\
        (chi <= lb \/ forall k f, k_colouring g k f -> Z.of_nat k <= chi - 1 -> False))).
Proof. exact dfs_dsatur_spec. Qed.
Print Assumptions C09_dfs_dsatur.

(* Relabelling: isomorphic simple graphs get the same number from ChromaticNumber and the same
   answer from IsKColorable for every k (the witnesses may differ). *)
Theorem C09_dsatur_relabelling : forall p q h g, wf h -> wf g -> iso p q h g ->
  (exists chi colh colg, chromatic_number_dsatur h = Ok (chi, colh) /\ chromatic_number_dsatur g = Ok (chi, colg)) /\
  (forall k, exists b ch cg, is_k_colorable h (Z.of_nat k) = Ok (b, ch) /\ is_k_colorable g (Z.of_nat k) = Ok (b, cg)).
Proof. exact dsatur_relabelling. Qed.
Print Assumptions C09_dsatur_relabelling.

Example C09_dsatur_relabelling_nonvacuous :
  let g := of_edges 5 [(0,1); (1,2); (2,3); (3,4); (4,0); (0,2)]%nat in
  let p := fun u => Nat.modulo (u + 1) 5 in
  chromatic_number_dsatur g = Ok (3, Some [0; 2; 1; 0; 1]) /\
  chromatic_number_dsatur (relabel g p) = Ok (3, Some [2; 0; 1; 0; 1]).
Proof. vm_compute. split; reflexivity. Qed.
