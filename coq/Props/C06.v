(* C06 — every graph the library constructs is well formed and matches its definition.
   This file contains only the property theorems, closed by [exact], and their assumptions.

   Vocabulary (coq/Graph/CtorSpec.v):
   [gwf g]: the value g of the Graph interface shows, through N, M, IsEdge, Degrees and
     Neighbours, one symmetric loop-free adjacency on {0..N-1}: IsEdge reports it, M is its
     number of edges, Degrees its degrees, Neighbours(v) its ascending neighbourhoods, and none
     of these observers panics.
   [dwf g]: the struct invariant of a DenseGraph (slice = packed triangle, cached M and
     DegreeSequence = the counts of the positive bytes).
   [builds c n def]: the constructor call c does not panic and returns a DenseGraph with [dwf],
     n vertices and x ~ y exactly when [def x y] (x, y < n).
   The models of the constructors (coq/Graph/CtorModel.v) follow the Go code statement by
   statement; a Go panic is None. *)
From Coq Require Import List ZArith Arith Bool Lia.
From Mamba Require Import Graph.Model Graph.Tri Graph.Abstract Graph.CtorModel Graph.CtorSpec
  Graph.CtorDense Graph.CtorFill Graph.CtorPartite Graph.CtorFamilies Graph.CtorFlower Graph.CtorViews
  Graph.CtorDecode Graph.CtorSparse Graph.CtorKneser Graph.CtorFolded Graph.CtorLine Graph.CtorLineDef Graph.CtorRook Graph.CtorInduced Graph.CtorAlias Graph.CtorEdit Graph.CtorMulticode Graph.CtorColex.
Import ListNotations.

(* ---------------------------------------------------------------- what the invariant gives *)
(* A DenseGraph under the struct invariant is well formed, and IsEdge reads the packed triangle. *)
Theorem C06_dense_wf : forall g, dwf g -> gwf (GD g) /\ grep (GD g) (dabs g).
Proof. intros g W. split; [apply dwf_gwf | apply dwf_grep]; exact W. Qed.
Print Assumptions C06_dense_wf.

(* ---------------------------------------------------------------- NewDense *)
(* NewDense(n, edges) for every byte slice of length n(n-1)/2 (no other length is accepted):
   the result satisfies the invariant, has n vertices, holds the bytes it was given, so {i,j},
   i<j, is an edge exactly when edges[j(j-1)/2+i] > 0; the recount loop computes M and the
   degrees of those bytes. *)
Theorem C06_new_dense : forall n e, length e = tri n ->
  exists g, new_dense n (Some e) = Some g /\ dwf g /\ dn g = n /\ darr g = e.
Proof. exact new_dense_ok. Qed.
Print Assumptions C06_new_dense.

Theorem C06_new_dense_domain : forall n e, length e <> tri n -> new_dense n (Some e) = None.
Proof. exact new_dense_rejects. Qed.
Print Assumptions C06_new_dense_domain.

(* NewDense(n, nil) followed by any list of AddEdge calls with arguments below n: well formed,
   and x ~ y exactly when some call named {x,y} with x <> y. *)
Theorem C06_add_edges : forall n es, (forall e, In e es -> fst e < n /\ snd e < n) ->
  exists g, add_edges (d_empty n) es = Some g /\ dwf g /\ dn g = n /\
    forall x y, dadj g x y = in_pairs es x y.
Proof. exact add_edges_empty. Qed.
Print Assumptions C06_add_edges.

(* ---------------------------------------------------------------- constructors that fill the struct by hand *)
Theorem C06_complete_graph : forall n, builds (complete_graph n) n complete_def.
Proof. exact complete_graph_ok. Qed.
Print Assumptions C06_complete_graph.

(* every list of part sizes, empty parts and the empty list included *)
Theorem C06_complete_partite : forall nums,
  builds (complete_partite nums) (list_sum nums) (partite_def nums).
Proof. exact complete_partite_ok. Qed.
Print Assumptions C06_complete_partite.

Theorem C06_path : forall n, builds (path n) n path_def.
Proof. exact path_ok. Qed.
Print Assumptions C06_path.

(* Cycle panics below 3 *)
Theorem C06_cycle : forall n, 3 <= n -> builds (cycle n) n (cycle_def n).
Proof. exact cycle_ok. Qed.
Print Assumptions C06_cycle.

Theorem C06_star : forall n, builds (star n) n star_def.
Proof. exact star_ok. Qed.
Print Assumptions C06_star.

(* ---------------------------------------------------------------- families built with AddEdge *)
Theorem C06_hypercube : forall dim, builds (hypercube dim) (2 ^ dim) (hypercube_def dim).
Proof. exact hypercube_ok. Qed.
Print Assumptions C06_hypercube.

Theorem C06_friendship : forall n, builds (friendship n) (2 * n + 1) friendship_def.
Proof. exact friendship_ok. Qed.
Print Assumptions C06_friendship.

(* accepted exactly for n >= 3 and k <= (n-1)/2 (k = 0 included: the inner "cycle" is empty) *)
Theorem C06_generalised_petersen : forall n k, 3 <= n -> k <= (n - 1) / 2 ->
  builds (generalised_petersen n k) (2 * n) (petersen_def n k).
Proof. exact generalised_petersen_ok. Qed.
Print Assumptions C06_generalised_petersen.

Theorem C06_generalised_petersen_domain : forall n k, n < 3 \/ (n - 1) / 2 < k ->
  generalised_petersen n k = None.
Proof. exact generalised_petersen_domain. Qed.
Print Assumptions C06_generalised_petersen_domain.

(* every n (0 included) and every list of integer differences *)
Theorem C06_circulant : forall n diffs, builds (circulant n diffs) n (circulant_def n diffs).
Proof. exact circulant_ok. Qed.
Print Assumptions C06_circulant.

(* accepted unless the remainder by m = 0 is actually computed *)
Theorem C06_circulant_bipartite : forall n m diffs, 0 < m \/ n = 0 \/ diffs = [] ->
  builds (circulant_bipartite n m diffs) (n + m) (circbip_def n m diffs).
Proof. exact circulant_bipartite_ok. Qed.
Print Assumptions C06_circulant_bipartite.

(* RandomGraph: well formed for every stream of draws *)
Theorem C06_random_graph : forall n draw,
  exists g, random_graph n draw = Some g /\ dwf g /\ dn g = n.
Proof. exact random_graph_ok. Qed.
Print Assumptions C06_random_graph.

(* FoldedHypercubeGraph panics for dim = 0; for dim >= 1: the (dim-1)-cube plus the antipodal pairs *)
Theorem C06_folded_hypercube : forall dim, 1 <= dim ->
  builds (folded_hypercube dim) (2 ^ (dim - 1)) (folded_def dim).
Proof. exact folded_hypercube_ok. Qed.
Print Assumptions C06_folded_hypercube.

(* KneserGraph(n,k) for all n, k (k > n gives the graph on 0 vertices): vertex x is the list
   [ksubset k x] that comb.Unrank returns for rank x, and x ~ y iff x <> y and the two lists
   have no common element. *)
Theorem C06_kneser : forall n k, builds (kneser n k) (binom n k) (kneser_set_def k).
Proof. exact kneser_set_ok. Qed.
Print Assumptions C06_kneser.

(* The vertices: x |-> ksubset k x is a bijection between {0..C(n,k)-1} and the k-subsets of
   {0..n-1} (as strictly ascending lists), with inverse the colexicographic rank sum C(c_t, t+1). *)
Theorem C06_kneser_vertices : forall n k x, x < binom n k ->
  length (ksubset k x) = k /\ Sorted.StronglySorted lt (ksubset k x) /\
  Forall (fun e => e < n) (ksubset k x) /\ crank (ksubset k x) = x.
Proof. exact ksubset_spec. Qed.
Print Assumptions C06_kneser_vertices.

Theorem C06_kneser_vertices_all : forall n c, Sorted.StronglySorted lt c -> Forall (fun x => x < n) c ->
  crank c < binom n (length c) /\ ksubset (length c) (crank c) = c.
Proof. exact ksubset_surj. Qed.
Print Assumptions C06_kneser_vertices_all.

(* BipartiteKneserGraph(n,k) for every n >= k >= 0 (for k > n it returns the graph on 0 vertices):
   x < N = C(n,k) is the x-th k-subset A, N + j the j-th (n-k)-subset B, and A ~ B iff one of the
   two sets contains the other (the code tests IntersectionSize = min(k, n-k)). *)
Theorem C06_bipartite_kneser : forall n k, k <= n ->
  builds (bipartite_kneser n k) (binom n k + binom n k) (bikneser_set_def n k (binom n k)).
Proof. exact bipartite_kneser_set_ok. Qed.
Print Assumptions C06_bipartite_kneser.

(* FlowerSnark panics for even n; for odd n >= 3 it is the flower snark J_n; for every odd n
   (n = 1 included, where the definition would prescribe a loop) the result is well formed *)
Theorem C06_flower_snark : forall n, Nat.odd n = true -> 3 <= n ->
  builds (flower_snark n) (4 * n) (flower_def n).
Proof. exact flower_snark_ok. Qed.
Print Assumptions C06_flower_snark.

Theorem C06_flower_snark_wf : forall n, Nat.odd n = true ->
  exists g, flower_snark n = Some g /\ dwf g /\ dn g = 4 * n.
Proof. exact flower_snark_wf. Qed.
Print Assumptions C06_flower_snark_wf.

Theorem C06_flower_snark_domain : forall n, Nat.even n = true -> flower_snark n = None.
Proof. exact flower_snark_domain. Qed.
Print Assumptions C06_flower_snark_domain.

(* RandomTree panics for n < 2; for n >= 2 and every stream of draws of r.Intn(n): well formed.
   PruferDecode: every code with entries below len+2. *)
Theorem C06_prufer_decode_wf : forall p, (forall v, In v p -> v < length p + 2) ->
  exists g, prufer_decode p = Some g /\ dwf g /\ dn g = length p + 2.
Proof. exact prufer_decode_ok. Qed.
Print Assumptions C06_prufer_decode_wf.

Theorem C06_random_tree : forall n draw, 2 <= n -> (forall k, draw k < n) ->
  exists g, random_tree n draw = Some g /\ dwf g /\ dn g = n.
Proof. exact random_tree_ok. Qed.
Print Assumptions C06_random_tree.

(* ---------------------------------------------------------------- NewSparse *)
(* NewSparse(n, lists) for every family of n neighbour lists, in any order and with repeats,
   that is symmetric, loop-free and in range (the Go code does not check this): no panic, the
   struct invariant (lists ascending and duplicate-free, degrees = lengths, M = number of
   edges), and x ~ y exactly when y occurs in the list of x.  A SparseGraph under the invariant
   is well formed through every observer. *)
Theorem C06_new_sparse : forall n nb, nbrs_valid n nb ->
  exists g, new_sparse n (Some nb) = Some g /\ swf g /\ sn g = n /\
    forall x y, x < n -> adj (sabs g) x y = mem y (nth x nb []).
Proof. exact new_sparse_ok. Qed.
Print Assumptions C06_new_sparse.

Theorem C06_new_sparse_nil : forall n,
  exists g, new_sparse n None = Some g /\ swf g /\ sn g = n /\ forall x y, adj (sabs g) x y = false.
Proof. exact new_sparse_nil. Qed.
Print Assumptions C06_new_sparse_nil.

Theorem C06_sparse_wf : forall g, swf g -> gwf (GS g) /\ grep (GS g) (sabs g).
Proof. intros g W. split; [apply swf_gwf | apply swf_grep]; exact W. Qed.
Print Assumptions C06_sparse_wf.

(* MulticodeDecode (the struct fields are accumulated by hand) on every valid Multicode: first
   byte n, then for each vertex in turn its larger neighbours + 1 in increasing order, each row
   closed by 0, exactly n-1 rows: no panic, struct invariant, n vertices. *)
Theorem C06_multicode_decode_wf : forall b0 rest, (0 <= b0)%Z -> mc_valid (Z.to_nat b0) 0 0 rest ->
  exists g, multicode_decode (b0 :: rest) = Some g /\ dwf g /\ dn g = Z.to_nat b0.
Proof. exact multicode_decode_ok. Qed.
Print Assumptions C06_multicode_decode_wf.

(* ---------------------------------------------------------------- views and transformations *)
(* The complement view of any well-formed Graph value (dense, sparse, another view) is well
   formed and shows exactly the complement: x ~ y iff x <> y and not x ~ y before. *)
Theorem C06_complement_view : forall g a, awf a -> grep g a ->
  awf (a_compl a) /\ grep (GC g) (a_compl a).
Proof. intros g a W R. split; [apply awf_compl | apply compl_view_ok]; assumption. Qed.
Print Assumptions C06_complement_view.

(* ComplementDense of any well-formed Graph value: no panic, struct invariant, the complement. *)
Theorem C06_complement_dense : forall g a, awf a -> grep g a ->
  exists h, complement_dense g = Some h /\ dwf h /\ aeq (dabs h) (a_compl a).
Proof. exact complement_dense_ok. Qed.
Print Assumptions C06_complement_dense.

(* The InducedSubgraph view of any well-formed Graph value, for every duplicate-free V with
   entries below N: well formed, and vertex x of the view is V[x]. *)
Theorem C06_induced_view : forall g a V, awf a -> grep g a -> NoDup V ->
  (forall x, In x V -> x < an a) ->
  awf (a_induced a V) /\ grep (induced_view g V) (a_induced a V).
Proof. intros g a V W R Nd Hr. split; [apply awf_induced | apply induced_view_ok]; assumption. Qed.
Print Assumptions C06_induced_view.

(* LineGraphDense of any well-formed Graph value: no panic (every cell written lies inside the
   triangle of M vertices), struct invariant, one vertex per edge of the input in the order
   01 02 12 03 13 23 ..., and two vertices adjacent exactly when the two edges are distinct and
   share an endpoint. *)
Theorem C06_line_graph : forall g a, awf a -> grep g a ->
  exists h, line_graph g = Some h /\ dwf h /\ dn h = length (edge_list a) /\
    Z.of_nat (dn h) = a_M a /\
    forall p q, p < dn h -> q < dn h -> dadj h p q = line_def (edge_list a) p q.
Proof. exact line_graph_def. Qed.
Print Assumptions C06_line_graph.

(* RookGraph(n, m) for all n, m (0 included): vertex c*n + r is the cell in row r, column c;
   adjacent iff same row or same column *)
Theorem C06_rook : forall n m, builds (rook n m) (n * m) (rook_def n).
Proof. exact rook_ok. Qed.
Print Assumptions C06_rook.

(* SplitEdge and Contract, partial: theorems about the composition of ABSTRACT edits they perform
   (RemoveEdge + AddVertex; AddEdge(i, v) for v in N(j) + RemoveVertex(j)): the result is a simple
   graph (Contract leaves no loop at i), with one vertex more / less and the documented adjacency.
   Missing: that the DenseGraph / SparseGraph edits refine the abstract edits (C05's refinement,
   not yet proved for RemoveVertex); the composed models are compared with the code on every run. *)
Theorem C06_split_edge_abstract_partial : forall a i j, awf a -> i < an a -> j < an a -> i <> j ->
  awf (a_split a i j) /\ an (a_split a i j) = S (an a) /\
  (forall x y, x < an a -> y < an a -> adj (a_split a i j) x y = adj a x y && negb (pairb x y i j)) /\
  (forall x, x < an a -> adj (a_split a i j) x (an a) = (x =? i) || (x =? j)).
Proof. exact split_awf. Qed.
Print Assumptions C06_split_edge_abstract_partial.

Theorem C06_contract_abstract_partial : forall a i j, awf a -> i < an a -> j < an a ->
  awf (a_contract a i j) /\ an (a_contract a i j) = an a - 1 /\
  forall x y, x < an a - 1 -> y < an a - 1 ->
    adj (a_contract a i j) x y =
      let x' := up j x in let y' := up j y in
      adj a x' y' || (negb (x' =? y') && (((x' =? i) && adj a j y') || ((y' =? i) && adj a j x'))).
Proof. exact contract_awf. Qed.
Print Assumptions C06_contract_abstract_partial.

(* ---------------------------------------------------------------- aliasing with caller-supplied slices *)
(* Heap model (buffers with addresses, coq/Graph/CtorModel.v): NewDense reads the caller's buffer
   at [src] and the graph it returns points into a buffer allocated by the call; it is the graph
   of the functional model; whatever the caller later writes to any buffer that existed before
   the call (its own slice included) leaves the graph, as every observer sees it, unchanged. *)
Theorem C06_new_dense_no_alias : forall H n src e, nth_error H src = Some e -> length e = tri n ->
  exists H' g d, h_new_dense H n src = Some (H', g) /\ new_dense n (Some e) = Some d /\
    h_view H' g = Some d /\ length H <= haddr g /\
    forall ws, (forall w, In w ws -> fst (fst w) < length H) -> h_view (h_writes H' ws) g = Some d.
Proof. exact h_new_dense_ok. Qed.
Print Assumptions C06_new_dense_no_alias.

(* the same for NewSparse and the caller's inner slices *)
Theorem C06_new_sparse_no_alias : forall H n srcs ls,
  mapM (nth_error H) srcs = Some ls -> length srcs = n ->
  exists H' g s, h_new_sparse H n srcs = Some (H', g) /\ new_sparse n (Some ls) = Some s /\
    hs_view H' g = Some s /\
    forall ws, (forall w, In w ws -> fst (fst w) < length H) -> hs_view (hn_writes H' ws) g = Some s.
Proof. exact h_new_sparse_ok. Qed.
Print Assumptions C06_new_sparse_no_alias.

(* ---------------------------------------------------------------- non-vacuity *)
Example C06_new_dense_nonvacuous :
  new_dense 4 (Some [1; 0; 2; 0; 0; 255]%Z) =
    Some (mkDense 4 3 [1; 2; 2; 1]%Z [1; 0; 2; 0; 0; 255]%Z 6).
Proof. vm_compute. reflexivity. Qed.

Example C06_families_nonvacuous :
  complete_partite [2; 0; 1] = Some (mkDense 3 2 [1; 1; 2]%Z [0; 1; 1]%Z 3) /\
  cycle 4 = Some (mkDense 4 4 [2; 2; 2; 2]%Z [1; 0; 1; 1; 0; 1]%Z 6) /\
  hypercube 2 = Some (mkDense 4 4 [2; 2; 2; 2]%Z [1; 1; 0; 0; 1; 1]%Z 6) /\
  circulant 5 [-1; 7]%Z = Some (mkDense 5 10 [4; 4; 4; 4; 4]%Z [1; 1; 1; 1; 1; 1; 1; 1; 1; 1]%Z 10) /\
  rook 2 2 = Some (mkDense 4 4 [2; 2; 2; 2]%Z [1; 1; 0; 0; 1; 1]%Z 6) /\
  edge_list (dabs (mkDense 3 2 [1; 1; 2]%Z [0; 1; 1]%Z 3)) = [(0, 2); (1, 2)] /\
  mc_valid 3 0 0 [2; 3; 0; 0]%Z /\
  multicode_decode [3; 2; 3; 0; 0]%Z = Some (mkDense 3 2 [2; 1; 1]%Z [1; 1; 0]%Z 3).
Proof.
  split; [vm_compute; reflexivity|]. split; [vm_compute; reflexivity|]. split; [vm_compute; reflexivity|].
  split; [vm_compute; reflexivity|]. split; [vm_compute; reflexivity|]. split; [vm_compute; reflexivity|].
  split; [cbn; repeat split; lia|vm_compute; reflexivity].
Qed.

(* the views on a sparse path 0-1-2 plus the isolated vertex 3, and the caller overwriting its slice *)
Example C06_views_nonvacuous :
  exists s, new_sparse 4 (Some [[1]; [2; 0; 2]; [1]; []]) = Some s /\
    g_neighbours (GC (GS s)) 1 = Some [3] /\ g_M (GC (GS s)) = Some 4%Z /\
    g_degrees (induced_view (GC (GS s)) [3; 0; 2]) = Some [2; 2; 2]%Z /\
    (exists H g, h_new_dense [[1; 0; 1]%Z] 3 0 = Some (H, g) /\
       h_view (h_write H 0 1 7%Z) g = Some (mkDense 3 2 [1; 2; 1]%Z [1; 0; 1]%Z 3)).
Proof. eexists. split; [vm_compute; reflexivity|]. vm_compute. repeat split. eexists. eexists. split; reflexivity. Qed.

(* ================================================================ round 3: SplitEdge and Contract in full *)
(* The two theorems above concern the composition of ABSTRACT edits only.  The theorems below are
   about the models [split_edge] / [contract] of transformation.go run on an EditableGraph value
   [ED d] (a *DenseGraph, array level, stale tail of the backing array included) or [ES s] (a
   *SparseGraph): the calls RemoveEdge, AddVertex([i j]) resp. Neighbours(j), AddEdge(i, v)...,
   RemoveVertex(j) as the code makes them.  They compose C05's representation-level refinement of
   every edit (coq/Graph/Dense*.v, Sparse*.v) and carry the result back to C06's struct invariants.
   [ewf g] is [dwf d] resp. [swf s]; [e_n], [e_m], [eadj] are N, the cached M and the adjacency
   (read from the packed triangle resp. the neighbour lists); [gwf (e_val g')] says that every
   observer of the result (N, M, Degrees, Neighbours, IsEdge) is that of one symmetric loop-free
   adjacency, so "M correct" and "Degrees/Neighbours correct" are part of the conclusion. *)
From Mamba Require Import Graph.CtorEditRep.

(* SplitEdge(g, i, j), for every well-formed dense or sparse g and all i <> j in range: no panic;
   the result is well formed with one more vertex; among the old vertices exactly the pair ij is
   no longer adjacent; the new vertex (index N) is adjacent to i and j and to nothing else; no
   loop; M grew by 1 if ij was an edge and by 2 otherwise. *)
Theorem C06_split_edge : forall g i j, ewf g -> i < e_n g -> j < e_n g -> i <> j ->
  exists g', split_edge g i j = Some g' /\ ewf g' /\ gwf (e_val g') /\
    e_n g' = S (e_n g) /\
    (forall x y, x < e_n g -> y < e_n g -> eadj g' x y = eadj g x y && negb (pairb x y i j)) /\
    (forall x, x < e_n g -> eadj g' x (e_n g) = (x =? i) || (x =? j)) /\
    (forall x, x < e_n g -> eadj g' (e_n g) x = (x =? i) || (x =? j)) /\
    (forall x, eadj g' x x = false) /\
    e_m g' = (e_m g + (if eadj g i j then 1 else 2))%Z.
Proof. exact split_edge_full. Qed.
Print Assumptions C06_split_edge.

(* SplitEdge(g, i, i) panics (explicit panic in the code) *)
Theorem C06_split_edge_domain : forall g i, split_edge g i i = None.
Proof. exact split_edge_same. Qed.
Print Assumptions C06_split_edge_domain.

(* Contract(g, i, j), for every well-formed dense or sparse g and all i, j in range (equal or
   not, adjacent or not): no panic; the result is well formed with one vertex less; new index x
   stands for the old vertex [up j x] (= x below j, x+1 from j on: RemoveVertex(j) renumbers);
   two vertices are adjacent iff they were, or one of them is i and the other was a neighbour
   of j; no loop (in particular none at i when ij was an edge). *)
Theorem C06_contract : forall g i j, ewf g -> i < e_n g -> j < e_n g ->
  exists g', contract g i j = Some g' /\ ewf g' /\ gwf (e_val g') /\
    e_n g' = e_n g - 1 /\
    (forall x y, x < e_n g - 1 -> y < e_n g - 1 ->
       eadj g' x y =
         let x' := up j x in let y' := up j y in
         eadj g x' y' || (negb (x' =? y') && (((x' =? i) && eadj g j y') || ((y' =? i) && eadj g j x')))) /\
    (forall x, eadj g' x x = false).
Proof. exact contract_full. Qed.
Print Assumptions C06_contract.

(* the same from the side of the surviving vertex: for i <> j it is i that survives, at index
   i (if i < j) or i - 1 (if i > j); it is adjacent to exactly the other vertices that were
   adjacent to i or to j; every pair not involving it keeps its adjacency *)
Theorem C06_contract_survivor : forall g i j, ewf g -> i < e_n g -> j < e_n g -> i <> j ->
  exists g', contract g i j = Some g' /\ ewf g' /\ e_n g' = e_n g - 1 /\
    let i' := down j i in
    i' < e_n g - 1 /\
    (forall y, y < e_n g - 1 -> y <> i' ->
       eadj g' i' y = eadj g i (up j y) || eadj g j (up j y)) /\
    (forall x y, x < e_n g - 1 -> y < e_n g - 1 -> x <> i' -> y <> i' ->
       eadj g' x y = eadj g (up j x) (up j y)).
Proof. exact contract_survivor. Qed.
Print Assumptions C06_contract_survivor.

(* the two struct invariants are C05's refinement relations to the graph they encode, so every
   graph C05's edit histories can produce is in the domain of the theorems above *)
Theorem C06_invariants_are_refinement : forall g a, Re g a <-> ewf g /\ aeq (eabs g) a.
Proof. exact Re_iff. Qed.
Print Assumptions C06_invariants_are_refinement.

(* non-vacuity: the path 0-1-2-3 as a DenseGraph and as a SparseGraph (both under their
   invariants); SplitEdge on an edge; Contract of a non-adjacent pair with j not the last vertex
   (the dense result keeps a stale tail in its backing array: slice length 3 of 6), and SplitEdge
   on that result re-slicing into the stale tail *)
Example C06_split_contract_nonvacuous :
  exists d s, new_dense 4 (Some [1; 0; 1; 0; 0; 1]%Z) = Some d /\ dwf d /\
    new_sparse 4 (Some [[1]; [0; 2]; [1; 3]; [2]]) = Some s /\ swf s /\
    split_edge (ED d) 1 2 =
      Some (ED (mkDense 5 4 [1; 2; 2; 1; 2]%Z [1; 0; 0; 0; 0; 1; 0; 1; 1; 0]%Z 10)) /\
    split_edge (ES s) 2 1 =
      Some (ES (mkSparse 5 4 [[1]; [0; 4]; [3; 4]; [2]; [1; 2]] [1; 2; 2; 1; 2]%Z)) /\
    contract (ED d) 3 1 = Some (ED (mkDense 3 2 [1; 1; 2]%Z [0; 1; 1; 1; 0; 1]%Z 3)) /\
    contract (ES s) 1 2 = Some (ES (mkSparse 3 2 [[1]; [0; 2]; [1]] [1; 2; 1]%Z)) /\
    split_edge (ED (mkDense 3 2 [1; 1; 2]%Z [0; 1; 1; 1; 0; 1]%Z 3)) 0 1 =
      Some (ED (mkDense 4 4 [2; 2; 2; 2]%Z [0; 1; 1; 1; 1; 0]%Z 6)).
Proof.
  destruct (new_dense_ok 4 [1; 0; 1; 0; 0; 1]%Z) as (d & Ed & Wd & _); [vm_compute; reflexivity|].
  destruct (new_sparse_ok 4 [[1]; [0; 2]; [1; 3]; [2]]) as (s & Es & Ws & _).
  { split; [reflexivity|]. intros x y Hx Hy.
    do 4 (destruct x as [|x]; [cbn in Hy; intuition (subst; cbn; auto; lia)|]). lia. }
  exists d, s. split; [exact Ed|]. split; [exact Wd|]. split; [exact Es|]. split; [exact Ws|].
  vm_compute in Ed. vm_compute in Es. inversion Ed; subst d. inversion Es; subst s.
  vm_compute. repeat split; reflexivity.
Qed.

(* ================================================================ live views over an edited base *)
(* Complement(g) and InducedSubgraph(g, V) are views whose observers are computed from g when
   they are called.  Along every history of edits with valid arguments (C05's alphabet: AddVertex
   with a duplicate-free in-range list, RemoveVertex of any vertex, AddEdge, RemoveEdge -- so also
   SplitEdge and Contract, [split_edge_is_edits], [contract_is_edits]) of a well-formed DenseGraph
   or SparseGraph g: no edit panics, the base g' stays well formed and represents the abstract
   graph a' after the same edits, and every view of g' -- complement, induced, complement of
   induced, induced of complement -- shows through N, M, Degrees, Neighbours, IsEdge exactly the
   complement / induced subgraph of a' (the CURRENT base), for every duplicate-free V with
   entries below the CURRENT number of vertices. *)
From Mamba Require Import Graph.CtorEditViews.

Theorem C06_views_after_edits : forall g ops, ewf g -> valid_edits (eabs g) ops ->
  exists g', foldM e_step ops g = Some g' /\ ewf g' /\
    let a' := a_run (eabs g) ops in
    aeq (eabs g') a' /\ awf a' /\ grep (e_val g') a' /\
    grep (GC (e_val g')) (a_compl a') /\ awf (a_compl a') /\
    forall V, NoDup V -> (forall x, In x V -> x < an a') ->
      awf (a_induced a' V) /\
      grep (induced_view (e_val g') V) (a_induced a' V) /\
      grep (GC (induced_view (e_val g') V)) (a_compl (a_induced a' V)) /\
      grep (induced_view (GC (e_val g')) V) (a_induced (a_compl a') V).
Proof. exact views_after_edits. Qed.
Print Assumptions C06_views_after_edits.

(* non-vacuity: the sparse path 0-1-2; AddVertex([2 0]), RemoveVertex(1) (not the last vertex),
   AddEdge(0,1); complement view and the induced view on V = [2 0] of the result *)
Example C06_views_after_edits_nonvacuous :
  exists g', foldM e_step [OAddV [2; 0]; ORemV 1; OAddE 0 1]
               (ES (mkSparse 3 2 [[1]; [0; 2]; [1]] [1; 2; 1]%Z)) = Some g' /\
    e_val g' = GS (mkSparse 3 3 [[1; 2]; [0; 2]; [0; 1]] [2; 2; 2]%Z) /\
    g_M (GC (e_val g')) = Some 0%Z /\ g_degrees (GC (e_val g')) = Some [0; 0; 0]%Z /\
    g_neighbours (induced_view (e_val g') [2; 0]) 0 = Some [1] /\
    g_M (induced_view (e_val g') [2; 0]) = Some 1%Z.
Proof. eexists. split; [vm_compute; reflexivity|]. vm_compute. repeat split. Qed.
