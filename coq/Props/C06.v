(* C06 — every graph the library constructs is well formed and matches its definition.
   This file contains only the property theorems, closed by [exact], and their assumptions.

   Vocabulary (coq/Graph/CtorSpec.v):
   [gwf g]: the value g of the Graph interface shows, through N, M, IsEdge, Degrees and
     Neighbours, one symmetric loop-free adjacency on {0..N-1}: IsEdge reports it, M is its
     number of edges, Degrees its degrees, Neighbours(v) its ascending neighbourhoods, and none
     of these observers panics.
   [dwf g]: the struct invariant of a DenseGraph (slice = packed triangle, cached M and
     DegreeSequence = the counts of the positive bytes).
   [builds c n def]: the constructor call c does not panic and returns a DenseGraph with [dwf],
     n vertices and x ~ y exactly when [def x y] (x, y < n).
   The models of the constructors (coq/Graph/CtorModel.v) follow the Go code statement by
   statement; a Go panic is None. *)
From Coq Require Import List ZArith Arith Bool.
From Mamba Require Import Graph.Model Graph.Tri Graph.Abstract Graph.CtorModel Graph.CtorSpec
  Graph.CtorDense Graph.CtorFill Graph.CtorPartite Graph.CtorFamilies.
Import ListNotations.

(* ---------------------------------------------------------------- what the invariant gives *)
(* A DenseGraph under the struct invariant is well formed, and IsEdge reads the packed triangle. *)
Theorem C06_dense_wf : forall g, dwf g -> gwf (GD g) /\ grep (GD g) (dabs g).
Proof. intros g W. split; [apply dwf_gwf | apply dwf_grep]; exact W. Qed.
Print Assumptions C06_dense_wf.

(* ---------------------------------------------------------------- NewDense *)
(* NewDense(n, edges) for every byte slice of length n(n-1)/2 (no other length is accepted):
   the result satisfies the invariant, has n vertices, holds the bytes it was given, so {i,j},
   i<j, is an edge exactly when edges[j(j-1)/2+i] > 0; the recount loop computes M and the
   degrees of those bytes. *)
Theorem C06_new_dense : forall n e, length e = tri n ->
  exists g, new_dense n (Some e) = Some g /\ dwf g /\ dn g = n /\ darr g = e.
Proof. exact new_dense_ok. Qed.
Print Assumptions C06_new_dense.

Theorem C06_new_dense_domain : forall n e, length e <> tri n -> new_dense n (Some e) = None.
Proof. exact new_dense_rejects. Qed.
Print Assumptions C06_new_dense_domain.

(* NewDense(n, nil) followed by any list of AddEdge calls with arguments below n: well formed,
   and x ~ y exactly when some call named {x,y} with x <> y. *)
Theorem C06_add_edges : forall n es, (forall e, In e es -> fst e < n /\ snd e < n) ->
  exists g, add_edges (d_empty n) es = Some g /\ dwf g /\ dn g = n /\
    forall x y, dadj g x y = in_pairs es x y.
Proof. exact add_edges_empty. Qed.
Print Assumptions C06_add_edges.

(* ---------------------------------------------------------------- constructors that fill the struct by hand *)
Theorem C06_complete_graph : forall n, builds (complete_graph n) n complete_def.
Proof. exact complete_graph_ok. Qed.
Print Assumptions C06_complete_graph.

(* every list of part sizes, empty parts and the empty list included *)
Theorem C06_complete_partite : forall nums,
  builds (complete_partite nums) (list_sum nums) (partite_def nums).
Proof. exact complete_partite_ok. Qed.
Print Assumptions C06_complete_partite.

Theorem C06_path : forall n, builds (path n) n path_def.
Proof. exact path_ok. Qed.
Print Assumptions C06_path.

(* Cycle panics below 3 *)
Theorem C06_cycle : forall n, 3 <= n -> builds (cycle n) n (cycle_def n).
Proof. exact cycle_ok. Qed.
Print Assumptions C06_cycle.

Theorem C06_star : forall n, builds (star n) n star_def.
Proof. exact star_ok. Qed.
Print Assumptions C06_star.

(* ---------------------------------------------------------------- families built with AddEdge *)
Theorem C06_hypercube : forall dim, builds (hypercube dim) (2 ^ dim) (hypercube_def dim).
Proof. exact hypercube_ok. Qed.
Print Assumptions C06_hypercube.

Theorem C06_friendship : forall n, builds (friendship n) (2 * n + 1) friendship_def.
Proof. exact friendship_ok. Qed.
Print Assumptions C06_friendship.

(* accepted exactly for n >= 3 and k <= (n-1)/2 (k = 0 included: the inner "cycle" is empty) *)
Theorem C06_generalised_petersen : forall n k, 3 <= n -> k <= (n - 1) / 2 ->
  builds (generalised_petersen n k) (2 * n) (petersen_def n k).
Proof. exact generalised_petersen_ok. Qed.
Print Assumptions C06_generalised_petersen.

Theorem C06_generalised_petersen_domain : forall n k, n < 3 \/ (n - 1) / 2 < k ->
  generalised_petersen n k = None.
Proof. exact generalised_petersen_domain. Qed.
Print Assumptions C06_generalised_petersen_domain.

(* every n (0 included) and every list of integer differences *)
Theorem C06_circulant : forall n diffs, builds (circulant n diffs) n (circulant_def n diffs).
Proof. exact circulant_ok. Qed.
Print Assumptions C06_circulant.

(* accepted unless the remainder by m = 0 is actually computed *)
Theorem C06_circulant_bipartite : forall n m diffs, 0 < m \/ n = 0 \/ diffs = [] ->
  builds (circulant_bipartite n m diffs) (n + m) (circbip_def n m diffs).
Proof. exact circulant_bipartite_ok. Qed.
Print Assumptions C06_circulant_bipartite.

(* RandomGraph: well formed for every stream of draws *)
Theorem C06_random_graph : forall n draw,
  exists g, random_graph n draw = Some g /\ dwf g /\ dn g = n.
Proof. exact random_graph_ok. Qed.
Print Assumptions C06_random_graph.

(* ---------------------------------------------------------------- non-vacuity *)
Example C06_new_dense_nonvacuous :
  new_dense 4 (Some [1; 0; 2; 0; 0; 255]%Z) =
    Some (mkDense 4 3 [1; 2; 2; 1]%Z [1; 0; 2; 0; 0; 255]%Z 6).
Proof. vm_compute. reflexivity. Qed.

Example C06_families_nonvacuous :
  complete_partite [2; 0; 1] = Some (mkDense 3 2 [1; 1; 2]%Z [0; 1; 1]%Z 3) /\
  cycle 4 = Some (mkDense 4 4 [2; 2; 2; 2]%Z [1; 0; 1; 1; 0; 1]%Z 6) /\
  hypercube 2 = Some (mkDense 4 4 [2; 2; 2; 2]%Z [1; 1; 0; 0; 1; 1]%Z 6) /\
  circulant 5 [-1; 7]%Z = Some (mkDense 5 10 [4; 4; 4; 4; 4]%Z [1; 1; 1; 1; 1; 1; 1; 1; 1; 1]%Z 10).
Proof. vm_compute. repeat split; reflexivity. Qed.
