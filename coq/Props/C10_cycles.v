(* C10 (part: girth and cycle counts) — property theorems about the Gallina models of Girth,
   NumberOfInducedCycles and NumberOfCycles.  Only theorems closed by [exact], their assumptions
   and non-vacuity examples; see notes/C10_cycles.md. *)
From Coq Require Import List ZArith Arith Lia.
From Mamba Require Import Invariants.Graph Invariants.DistSpec Invariants.DistRef Invariants.DistRefProofs
  Invariants.DistModel Invariants.CycleRefProofs Invariants.DistRelabel Invariants.GirthModel Invariants.GirthExact
  Invariants.CycleICModel Invariants.CycleICProofs Invariants.CycleICOrbit
  Invariants.BlockModel Invariants.CycleNCModel Invariants.CycleNCProofs.
Import ListNotations.

(* Girth: the model of the Go function (BFS from every root but the last two, one distances
   slice zeroed per root, parentVertices never reset so that the root's own entry is stale, early
   cut-off distances[k]+2 < girth) never panics or runs out of fuel and returns exactly the
   reference girth: the least number of vertices of a cycle, -1 for an acyclic graph
   (C10_girth_ref in Props/C10.v ties the reference to the definition). *)
Theorem C10_girth_model : forall g, wf g -> girth_go g = Done (zgirth g).
Proof. exact girth_go_exact. Qed.
Print Assumptions C10_girth_model.

(* Non-vacuity: K4 minus nothing with stale parents in play (root 1 has parent 0 from round 0),
   a 6-cycle with a chord (girth 4, found from a later root), a tree, and a graph whose only
   cycle avoids vertex 0. *)
Example C10_girth_model_nonvacuous :
  wf (of_edges 6 [(0,1); (1,2); (2,3); (3,4); (4,5); (5,0); (1,4)]) /\
  girth_go (of_edges 6 [(0,1); (1,2); (2,3); (3,4); (4,5); (5,0); (1,4)]) = Done 4%Z /\
  girth_go (of_edges 4 [(0,1); (1,2); (2,3)]) = Done (-1)%Z /\
  girth_go (of_edges 7 [(0,1); (1,2); (2,3); (3,4); (4,5); (5,1)]) = Done 5%Z /\
  zgirth (of_edges 7 [(0,1); (1,2); (2,3); (3,4); (4,5); (5,1)]) = 5%Z.
Proof. split; [apply of_edges_wf | vm_compute; repeat split]. Qed.

(* NumberOfInducedCycles(g, k): the model of the Go function (per component view, explicit-stack
   depth-first search over induced paths with bannedNeighbours and allowedEnds, r[length+2] +=
   |Neighbours(last) n allowedEnds|, division by 2L at the end) never panics or runs out of fuel
   and returns, for every simple graph and every bound k (negative, 0, 1, 2, > n included), the
   bounded reference vector: entry L = (number of induced-cycle vertex sequences with L
   vertices) / 2L for 3 <= L <= effective bound, 0 elsewhere (C10_induced_cycles_ref in
   Props/C10.v ties the sequences to the definition; C10_cycle_orbits below ties the division
   by 2L to the number of cycles as subgraphs). *)
Theorem C10_induced_cycles_model : forall g k, wf g ->
  number_of_induced_cycles_go g k = Done (icycles_bounded_ref g k).
Proof. exact number_of_induced_cycles_go_correct. Qed.
Print Assumptions C10_induced_cycles_model.

(* Non-vacuity: a hexagon with the chords 1-4 and 0-2 (one triangle, two induced 4-cycles, one
   induced 5-cycle), all bounds; two components; the empty graph. *)
Definition ex_ic : graph := of_edges 6 [(0,1); (1,2); (2,3); (3,4); (4,5); (5,0); (1,4); (0,2)].
Example C10_induced_cycles_model_nonvacuous :
  wf ex_ic /\
  number_of_induced_cycles_go ex_ic (-1) = Done [0; 0; 0; 1; 2; 1; 0] /\
  number_of_induced_cycles_go ex_ic 4 = Done [0; 0; 0; 1; 2; 0; 0] /\
  number_of_induced_cycles_go ex_ic 3 = Done [0; 0; 0; 1; 0; 0; 0] /\
  number_of_induced_cycles_go ex_ic 2 = Done [0; 0; 0; 0; 0; 0; 0] /\
  number_of_induced_cycles_go ex_ic 9 = Done [0; 0; 0; 1; 2; 1; 0] /\
  (number_of_induced_cycles_go (of_edges 7 [(0,1); (1,2); (2,0); (3,4); (4,5); (5,6); (6,3)]) (-1) =
     Done [0; 0; 0; 1; 1; 0; 0; 0]) /\
  number_of_induced_cycles_go (of_edges 0 []) 0 = Done [0].
Proof. split; [apply of_edges_wf | vm_compute; repeat split]. Qed.

(* The orbit count behind the division by 2L: entry L of the reference vectors cycles_ref /
   icycles_ref (hence, by C10_induced_cycles_model, of what the model of NumberOfInducedCycles
   returns within the bound) is the number of (induced) cycles with L vertices AS SUBGRAPHS:
   there is a duplicate-free list of (induced) cycle sequences with L vertices, no two with the
   same set of cyclic edges ([same_cycle]: the same unordered pairs of cyclically consecutive
   vertices), containing a representative of every (induced) cycle sequence with L vertices, and
   its length is the entry.  (Each class has exactly 2L sequences: CycleICOrbit.orbit_count.) *)
Theorem C10_cycle_orbits : forall g L, wf g -> L <= gn g ->
  exists reps, NoDup reps /\
    (forall r, In r reps -> is_cycle_seq g r /\ length r = L) /\
    (forall r r', In r reps -> In r' reps -> same_cycle r r' -> r = r') /\
    (forall p, is_cycle_seq g p -> length p = L -> exists r, In r reps /\ same_cycle r p) /\
    nth L (cycles_ref g) 0 = length reps.
Proof. exact cycles_ref_counts. Qed.
Print Assumptions C10_cycle_orbits.

Theorem C10_induced_cycle_orbits : forall g L, wf g -> L <= gn g ->
  exists reps, NoDup reps /\
    (forall r, In r reps -> is_induced_cycle_seq g r /\ length r = L) /\
    (forall r r', In r reps -> In r' reps -> same_cycle r r' -> r = r') /\
    (forall p, is_induced_cycle_seq g p -> length p = L -> exists r, In r reps /\ same_cycle r p) /\
    nth L (icycles_ref g) 0 = length reps.
Proof. exact icycles_ref_counts. Qed.
Print Assumptions C10_induced_cycle_orbits.

(* Non-vacuity: the 4-cycle 0-1-2-3 has 8 vertex sequences, all with the same edges as [0;1;2;3];
   [0;2;1;3] (a 4-cycle of K4) has other edges. *)
Example C10_cycle_orbits_nonvacuous :
  length (cycle_seqs (of_edges 4 [(0,1); (1,2); (2,3); (3,0)]) 4) = 8 /\
  dihedral [0; 1; 2; 3] = [[0;1;2;3]; [1;2;3;0]; [2;3;0;1]; [3;0;1;2]; [3;2;1;0]; [2;1;0;3]; [1;0;3;2]; [0;3;2;1]] /\
  uadj [0; 1; 2; 3] 3 0 /\ ~ same_cycle [0; 1; 2; 3] [0; 2; 1; 3] /\
  nth 4 (cycles_ref (of_edges 4 [(0,1); (1,2); (2,3); (3,0); (0,2); (1,3)])) 0 = 3.
Proof.
  split; [vm_compute; reflexivity|]. split; [vm_compute; reflexivity|].
  split; [left; right; exists [1; 2]; reflexivity|]. split; [|vm_compute; reflexivity].
  intro H. assert (Hu : uadj [0; 2; 1; 3] 0 2) by (left; left; exists [], [1; 3]; reflexivity).
  apply H in Hu.
  destruct Hu as [[[l1 [l2 E]] | [m E]] | [[l1 [l2 E]] | [m E]]];
    repeat (destruct l1 as [|? l1]; try discriminate E); repeat (destruct m as [|? m]; try discriminate E).
Qed.

(* NumberOfCycles: the model of the Go function — BiconnectedComponents (its model, proved in
   Props/C10_blocks.v), then per block with at least 3 vertices the induced subgraph, Paton's
   fundamental cycles found on a working copy from which every examined edge is removed (stack
   X, parent array T, depths, cycles as sorted lists of edge codes j(j-1)/2+i), Gibbs' algorithm
   over all XOR combinations (sortints.XOR / ContainsSorted as the merges they are, the removal
   by swapping with the last entry), and numberFound[len(V)]++ — never panics or runs out of
   fuel and returns exactly the reference vector: entry L = (number of cycle vertex sequences
   with L vertices) / 2L, L = 0..n, which by C10_cycle_orbits is the number of cycles with L
   vertices as subgraphs (C10_cycles_ref in Props/C10.v ties the sequences to the definition). *)
Theorem C10_cycles_model : forall g, wf g -> number_of_cycles_go g = Done (cycles_ref g).
Proof. exact number_of_cycles_go_correct. Qed.
Print Assumptions C10_cycles_model.

(* Non-vacuity: K5 (10 triangles, 15 four-cycles, 12 five-cycles from 6 fundamental cycles and
   63 combinations), a hexagon with two chords, two blocks joined by a bridge plus an isolated
   edge, a tree, the empty graph. *)
Example C10_cycles_model_nonvacuous :
  number_of_cycles_go (of_edges 5 [(0,1);(0,2);(0,3);(0,4);(1,2);(1,3);(1,4);(2,3);(2,4);(3,4)]) = Done [0; 0; 0; 10; 15; 12] /\
  number_of_cycles_go ex_ic = Done [0; 0; 0; 1; 2; 3; 1] /\
  number_of_cycles_go (of_edges 8 [(0,1); (1,2); (2,0); (2,3); (3,4); (4,5); (5,3); (6,7)]) = Done [0; 0; 0; 2; 0; 0; 0; 0; 0] /\
  number_of_cycles_go (of_edges 4 [(0,1); (1,2); (1,3)]) = Done [0; 0; 0; 0; 0] /\
  number_of_cycles_go (of_edges 0 []) = Done [0].
Proof. vm_compute. repeat split. Qed.
