(* C10 (part: girth and cycle counts) — property theorems about the Gallina models of Girth,
   NumberOfInducedCycles and NumberOfCycles.  Only theorems closed by [exact], their assumptions
   and non-vacuity examples; see notes/C10_cycles.md. *)
From Coq Require Import List ZArith Arith Lia.
From Mamba Require Import Invariants.Graph Invariants.DistSpec Invariants.DistRef Invariants.DistRefProofs
  Invariants.DistModel Invariants.CycleRefProofs Invariants.DistRelabel Invariants.GirthModel Invariants.GirthExact.
Import ListNotations.

(* Girth: the model of the Go function (BFS from every root but the last two, one distances
   slice zeroed per root, parentVertices never reset so that the root's own entry is stale, early
   cut-off distances[k]+2 < girth) never panics or runs out of fuel and returns exactly the
   reference girth: the least number of vertices of a cycle, -1 for an acyclic graph
   (C10_girth_ref in Props/C10.v ties the reference to the definition). *)
Theorem C10_girth_model : forall g, wf g -> girth_go g = Done (zgirth g).
Proof. exact girth_go_exact. Qed.
Print Assumptions C10_girth_model.

(* Non-vacuity: K4 minus nothing with stale parents in play (root 1 has parent 0 from round 0),
   a 6-cycle with a chord (girth 4, found from a later root), a tree, and a graph whose only
   cycle avoids vertex 0. *)
Example C10_girth_model_nonvacuous :
  wf (of_edges 6 [(0,1); (1,2); (2,3); (3,4); (4,5); (5,0); (1,4)]) /\
  girth_go (of_edges 6 [(0,1); (1,2); (2,3); (3,4); (4,5); (5,0); (1,4)]) = Done 4%Z /\
  girth_go (of_edges 4 [(0,1); (1,2); (2,3)]) = Done (-1)%Z /\
  girth_go (of_edges 7 [(0,1); (1,2); (2,3); (3,4); (4,5); (5,1)]) = Done 5%Z /\
  zgirth (of_edges 7 [(0,1); (1,2); (2,3); (3,4); (4,5); (5,1)]) = 5%Z.
Proof. split; [apply of_edges_wf | vm_compute; repeat split]. Qed.
