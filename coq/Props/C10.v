(* C10 — distance, connectivity and cycle-structure invariants equal their definitions.
   This file contains only the property theorems, closed by [exact], and their assumptions.

   Level "other": the theorems below are about the executable *references* (Invariants/DistRef.v)
   that are extracted and compared with the Go functions on every generated graph, and about
   Gallina models of some of the Go functions; see notes/C10.md for what is proved about which. *)
From Coq Require Import List ZArith Arith Sorted Lia.
From Mamba Require Import Invariants.Graph Invariants.DistSpec Invariants.DistRef Invariants.DistRefProofs
  Invariants.DistModel Invariants.DistModelProofs Invariants.CycleRefProofs
  Invariants.ConnModel Invariants.ConnProofs Invariants.BlockRefProofs
  Invariants.GirthModel Invariants.GirthProofs Invariants.DistRelabel
  Invariants.CycleCount Invariants.CycleIPModel Invariants.CycleIPProofs.
Import ListNotations.

(* Distance: the reference returns d exactly when there is a walk of length d and no shorter
   one, and -1 exactly when there is no walk at all (all simple graphs, all vertex pairs). *)
Theorem C10_distance_ref : forall g u v, wf g ->
  (forall d, zdist g u v = Z.of_nat d <-> shortest g u v d) /\
  (zdist g u v = (-1)%Z <-> ~ reach g u v).
Proof. exact zdist_spec. Qed.
Print Assumptions C10_distance_ref.

(* ConnectedComponent(g, v): ascending, exactly the vertices reachable from v. *)
Theorem C10_component_ref : forall g v, wf g ->
  StronglySorted lt (comp_ref g v) /\
  forall x, In x (comp_ref g v) <-> x < gn g /\ reach g v x.
Proof. exact comp_ref_spec. Qed.
Print Assumptions C10_component_ref.

(* ConnectedComponents(g): exactly the classes of reachability, every vertex in exactly one,
   each ascending, ordered by least element. *)
Theorem C10_components_ref : forall g, wf g ->
  (forall c, In c (comps_ref g) -> exists v, v < gn g /\ hd 0 c = v /\ c = comp_ref g v /\
      forall x, In x c <-> x < gn g /\ reach g v x) /\
  (forall v, v < gn g -> exists c, In c (comps_ref g) /\ In v c) /\
  (forall c1 c2 x, In c1 (comps_ref g) -> In c2 (comps_ref g) -> In x c1 -> In x c2 -> c1 = c2) /\
  Forall (StronglySorted lt) (comps_ref g) /\
  StronglySorted lt (map (hd 0) (comps_ref g)).
Proof. exact comps_ref_spec. Qed.
Print Assumptions C10_components_ref.

(* Distance: the model of the Go function (queue BFS with 0 as the unseen marker, the source
   enqueued a second time at "distance" 2) never panics or runs out of fuel and returns the
   reference value, for every simple graph and every source inside the graph. *)
Theorem C10_distance_model : forall g i j, wf g -> i < gn g ->
  distance_go g i j = Done (zdist g i j).
Proof. exact distance_go_correct. Qed.
Print Assumptions C10_distance_model.

(* Eccentricity / Diameter / Radius: the models return the reference values ... *)
Theorem C10_eccentricity_model : forall g, wf g -> eccentricity_go g = Done (ecc_ref g).
Proof. exact eccentricity_go_correct. Qed.
Print Assumptions C10_eccentricity_model.

Theorem C10_diameter_model : forall g, wf g -> diameter_go g = Done (diam_ref g).
Proof. exact diameter_go_correct. Qed.
Print Assumptions C10_diameter_model.

Theorem C10_radius_model : forall g, wf g -> radius_go g = Done (rad_ref g).
Proof. exact radius_go_correct. Qed.
Print Assumptions C10_radius_model.

(* ... and the reference values are the definitions: in a connected graph the eccentricity of u
   is the greatest distance from u (an upper bound that is attained), in a disconnected graph
   every entry is -1; *)
Theorem C10_eccentricity_ref : forall g, wf g ->
  length (ecc_ref g) = gn g /\
  (connected g -> forall u, u < gn g ->
     (forall v, v < gn g -> (zdist g u v <= nth u (ecc_ref g) 0)%Z) /\
     (exists v, v < gn g /\ zdist g u v = nth u (ecc_ref g) 0%Z)) /\
  (~ connected g -> forall u, u < gn g -> nth u (ecc_ref g) 0%Z = (-1)%Z).
Proof. exact ecc_ref_spec. Qed.
Print Assumptions C10_eccentricity_ref.

(* the diameter / radius is the greatest / least eccentricity (attained), 0 for the graph
   without vertices and -1 for a disconnected graph. *)
Theorem C10_diameter_radius_ref : forall g, wf g ->
  (gn g = 0 -> diam_ref g = 0%Z /\ rad_ref g = 0%Z) /\
  (gn g <> 0 -> ~ connected g -> diam_ref g = (-1)%Z /\ rad_ref g = (-1)%Z) /\
  (gn g <> 0 -> connected g ->
     (forall u, u < gn g -> (rad_ref g <= nth u (ecc_ref g) 0 <= diam_ref g)%Z) /\
     (exists u, u < gn g /\ nth u (ecc_ref g) 0%Z = diam_ref g) /\
     (exists u, u < gn g /\ nth u (ecc_ref g) 0%Z = rad_ref g)).
Proof. exact diam_rad_ref_spec. Qed.
Print Assumptions C10_diameter_radius_ref.

(* Relabelling: for every permutation p of the vertices (with inverse q) the distances and the
   components of the relabelled graph are those of the original graph read through p.  (For the
   other values invariance under relabelling and representation is explored only.) *)
Theorem C10_distance_relabel : forall g p q u v, wf g -> perm_on (gn g) p q -> u < gn g -> v < gn g ->
  zdist (relabel g p) u v = zdist g (p u) (p v).
Proof. exact zdist_relabel. Qed.
Print Assumptions C10_distance_relabel.

Theorem C10_component_relabel : forall g p q v x, wf g -> perm_on (gn g) p q -> v < gn g -> x < gn g ->
  (In x (comp_ref (relabel g p) v) <-> In (p x) (comp_ref g (p v))).
Proof. exact comp_relabel. Qed.
Print Assumptions C10_component_relabel.

(* ConnectedComponent / ConnectedComponents: the models of the Go functions (slice of unseen
   vertices with swap-removal under a downward index, stack of vertices to check, sort) never
   panic or run out of fuel; ConnectedComponent returns the reference component,
   ConnectedComponents returns exactly the reference components, each once (the order in which
   they are found is left open by the property; the harness compares them sorted). *)
Theorem C10_component_model : forall g v, wf g -> v < gn g ->
  connected_component_go g v = Done (comp_ref g v).
Proof. exact connected_component_go_correct. Qed.
Print Assumptions C10_component_model.

Theorem C10_components_model : forall g, wf g ->
  exists cs, connected_components_go g = Done cs /\ NoDup cs /\
    forall c, In c cs <-> In c (comps_ref g).
Proof. exact connected_components_go_correct. Qed.
Print Assumptions C10_components_model.

(* BiconnectedComponents (references only; the Go function is compared with them by
   exploration): the reference articulation vertices are, ascending, exactly the vertices v that
   separate two other vertices joined in g (not joined in the subgraph induced on V - v); the
   reference blocks are exactly the inclusion-maximal ascending vertex lists S with G[S]
   connected and G[S - v] connected for every v in S (isolated vertices and bridges included). *)
Theorem C10_articulation_ref : forall g, wf g ->
  StronglySorted lt (artic_ref g) /\
  forall v, In v (artic_ref g) <-> v < gn g /\ separates g v.
Proof. exact artic_ref_spec. Qed.
Print Assumptions C10_articulation_ref.

Theorem C10_blocks_ref : forall g, wf g -> forall S, In S (blocks_ref g) <-> is_block g S.
Proof. exact blocks_ref_spec. Qed.
Print Assumptions C10_blocks_ref.

(* The reference enumerators behind NumberOfCycles / NumberOfInducedCycles /
   NumberOfInducedPaths / Girth list exactly the vertex sequences of the definitions, each once:
   simple paths with k edges; cycle sequences with L vertices (a cycle with L vertices has 2L
   sequences: the references divide by 2L, and by 2 for paths; that orbit count is not proved);
   sequences whose induced subgraph is the path / the cycle itself. *)
Theorem C10_paths_ref : forall g, wf g -> forall k,
  NoDup (paths g k) /\ forall p, In p (paths g k) <-> is_path g p /\ length p = S k.
Proof. intros g H k. split; [apply paths_NoDup | apply paths_spec; exact H]. Qed.
Print Assumptions C10_paths_ref.

Theorem C10_cycles_ref : forall g L, wf g ->
  NoDup (cycle_seqs g L) /\ forall p, In p (cycle_seqs g L) <-> is_cycle_seq g p /\ length p = L.
Proof. intros g L H. split; [apply cycle_seqs_NoDup | intro p; apply cycle_seqs_spec; exact H]. Qed.
Print Assumptions C10_cycles_ref.

Theorem C10_induced_paths_ref : forall g L, wf g ->
  NoDup (induced_path_seqs g L) /\
  forall p, In p (induced_path_seqs g L) <-> is_induced_path g p /\ length p = S L.
Proof. intros g L H. split; [apply induced_path_seqs_NoDup | intro p; apply induced_path_seqs_spec; exact H]. Qed.
Print Assumptions C10_induced_paths_ref.

Theorem C10_induced_cycles_ref : forall g L, wf g ->
  NoDup (induced_cycle_seqs g L) /\
  forall p, In p (induced_cycle_seqs g L) <-> is_induced_cycle_seq g p /\ length p = L.
Proof. intros g L H. split; [apply induced_cycle_seqs_NoDup | intro p; apply induced_cycle_seqs_spec; exact H]. Qed.
Print Assumptions C10_induced_cycles_ref.

(* NumberOfInducedPaths, the Go function (model: per connected component the view
   InducedSubgraph(g, component) with its own numbering, per start vertex a depth-first search
   with an explicit stack of (path, length, bannedNeighbours), counts halved, r[0] = n, the bound
   normalised as in the code): for every simple graph and every bound (negative, 0, beyond n-1
   included) it never panics or runs out of fuel and returns the reference vector: entry L is
   the number of induced-path vertex sequences with L edges halved for 1 <= L <= the effective
   bound, n at index 0, and 0 above the bound. *)
Theorem C10_induced_paths_model : forall g k, wf g ->
  number_of_induced_paths_go g k = Done (ipaths_bounded_ref g k).
Proof. exact number_of_induced_paths_go_correct. Qed.
Print Assumptions C10_induced_paths_model.

(* Girth (reference): Some L exactly when there is a cycle with L vertices and none shorter;
   None (-1) exactly when the graph has no cycle. *)
Theorem C10_girth_ref : forall g, wf g ->
  (forall L, girth_ref g = Some L <-> girth_is g L) /\ (girth_ref g = None <-> acyclic g).
Proof. exact girth_ref_spec. Qed.
Print Assumptions C10_girth_ref.

(* Girth, the Go function (model with the one queue, the distances zeroed per root and the
   parentVertices slice that keeps stale entries of earlier roots): never panics or runs out of
   fuel; a returned value other than -1 is witnessed by a cycle of g with at most that many
   vertices, i.e. it is never below the girth.
   PARTIAL: that it is never above the girth (and that -1 is returned only for acyclic graphs)
   is not proved; the full statement would be
     forall g, wf g -> girth_go g = Done (zgirth g)
   and is explored by comparing Girth with the proved reference on every generated graph. *)
Theorem C10_girth_upper_partial : forall g, wf g ->
  exists r, girth_go g = Done r /\
    (r = (-1)%Z \/ exists p, is_cycle_seq g p /\ (Z.of_nat (length p) <= r)%Z).
Proof. exact girth_go_upper_partial. Qed.
Print Assumptions C10_girth_upper_partial.

Theorem C10_girth_ge_ref_partial : forall g r, wf g -> girth_go g = Done r -> r <> (-1)%Z ->
  exists L, girth_ref g = Some L /\ (Z.of_nat L <= r)%Z.
Proof. exact girth_go_ge_ref. Qed.
Print Assumptions C10_girth_ge_ref_partial.

Theorem C10_girth_acyclic : forall g, wf g -> acyclic g -> girth_go g = Done (-1)%Z.
Proof. exact girth_go_acyclic. Qed.
Print Assumptions C10_girth_acyclic.

(* Non-vacuity: a 5-cycle 0-1-2-3-4 with a pendant vertex 5 at 0, plus an isolated edge 6-7. *)
Definition ex_graph : graph :=
  of_edges 8 [(0,1); (1,2); (2,3); (3,4); (4,0); (0,5); (6,7)].
Example C10_nonvacuous :
  wf ex_graph /\
  map (zdist ex_graph 2) (vertices ex_graph) = [2; 1; 0; 1; 2; 3; -1; -1]%Z /\
  comps_ref ex_graph = [[0; 1; 2; 3; 4; 5]; [6; 7]] /\
  comp_ref ex_graph 7 = [6; 7].
Proof. split; [apply of_edges_wf | vm_compute; repeat split]. Qed.

Definition ex_swap (x : nat) : nat := if x =? 0 then 6 else if x =? 6 then 0 else x.
Example C10_nonvacuous_relabel :
  perm_on 8 ex_swap ex_swap /\
  map (zdist (relabel ex_graph ex_swap) 6) (vertices ex_graph) = [-1; 1; 2; 2; 1; 1; 0; -1]%Z /\
  comp_ref (relabel ex_graph ex_swap) 0 = [0; 7].
Proof.
  split; [|vm_compute; split; reflexivity].
  split; intros x Hx; do 8 (destruct x as [|x]; [vm_compute; split; (lia || reflexivity)|]); lia.
Qed.

Example C10_nonvacuous_components :
  connected_component_go ex_graph 3 = Done [0; 1; 2; 3; 4; 5] /\
  connected_components_go ex_graph = Done [[6; 7]; [0; 1; 2; 3; 4; 5]].
Proof. vm_compute. repeat split. Qed.

Example C10_nonvacuous_blocks :
  artic_ref ex_graph = [0] /\ blocks_ref ex_graph = [[0; 1; 2; 3; 4]; [0; 5]; [6; 7]].
Proof. vm_compute. repeat split. Qed.

Definition ex_conn : graph := of_edges 6 [(0,1); (1,2); (2,3); (3,4); (4,0); (0,5)].
Example C10_nonvacuous_cycles :
  girth_ref ex_graph = Some 5 /\ cycles_ref ex_conn = [0; 0; 0; 0; 0; 1; 0] /\
  icycles_ref ex_conn = [0; 0; 0; 0; 0; 1; 0] /\ ipaths_ref ex_conn = [6; 6; 7; 7; 2; 0] /\
  length (cycle_seqs ex_conn 5) = 10 /\ girth_ref (of_edges 4 [(0,1); (1,2); (2,3)]) = None.
Proof. vm_compute. repeat split. Qed.

Example C10_nonvacuous_induced_paths :
  number_of_induced_paths_go ex_conn (-1) = Done [6; 6; 7; 7; 2; 0] /\
  number_of_induced_paths_go ex_conn 2 = Done [6; 6; 7; 0; 0; 0] /\
  number_of_induced_paths_go ex_conn 0 = Done [6; 0; 0; 0; 0; 0] /\
  number_of_induced_paths_go ex_graph 9 = Done [8; 7; 7; 7; 2; 0; 0; 0] /\
  number_of_induced_paths_go (of_edges 1 []) 0 = Done [1].
Proof. vm_compute. repeat split. Qed.

Example C10_nonvacuous_girth :
  girth_go ex_graph = Done 5%Z /\ girth_go (of_edges 4 [(0,1); (1,2); (2,3)]) = Done (-1)%Z /\
  girth_go (of_edges 6 [(0,1); (1,2); (2,3); (3,4); (4,5); (5,0); (1,4)]) = Done 4%Z.
Proof. vm_compute. repeat split. Qed.

(* the connected part of it (vertices 0..5): the models run and give non-trivial values *)
Example C10_nonvacuous_models :
  distance_go ex_conn 2 5 = Done 3%Z /\ distance_go ex_graph 2 7 = Done (-1)%Z /\
  eccentricity_go ex_conn = Done [2; 2; 3; 3; 2; 3]%Z /\
  diameter_go ex_conn = Done 3%Z /\ radius_go ex_conn = Done 2%Z /\
  eccentricity_go ex_graph = Done [-1; -1; -1; -1; -1; -1; -1; -1]%Z /\
  diameter_go ex_graph = Done (-1)%Z /\ radius_go ex_graph = Done (-1)%Z.
Proof. vm_compute. repeat split. Qed.
