(* C15 — the iterators of package itertools enumerate exactly the advertised objects, once each,
   in the documented order, and then report exhaustion for ever.
   This file contains only the property theorems of the first half (Product, Combinations,
   CombinationsColex, RestrictedPrefixProduct, RestrictedPrefixPermutations,
   PermutationsByPattern), closed by [exact], and their assumptions.  The other iterators are
   in Props/C15_part2.v; that the i-th value of CombinationsColex is comb.Unrank(i, k) is
   Props/C16_colex.v (C16_combinations_colex_is_unrank, built on the theorem below).

   Reading the statements: [drain next value fuel init = Some (l, e)] says that calling Next
   repeatedly from the freshly constructed iterator, copying Value after every call that
   returns true, never panics (no index out of range, no exhausted fuel of an inner goto loop),
   produces the list l and stops at the first false in state e, using exactly |l| + 1 calls;
   [exhausted next e] says that every further call from e returns false.  [StronglySorted lt l]
   is "in the documented order" (and, the order being strict, "each once" — also stated as
   [NoDup l]); [In x l <-> F x] is "exactly the advertised family". *)
From Coq Require Import List ZArith Arith Bool Lia Sorted Permutation.
From Mamba Require Import Iter.Model Iter.Enum Iter.Lex Iter.Product Iter.ProductRP Iter.Comb Iter.Colex
  Iter.AlgX Iter.AlgXRun Iter.Pattern Iter.PatternRun Iter.AlgXFilter Iter.Part Iter.PartBlocks Iter.SetPartSurj.
Import ListNotations.
Open Scope Z_scope.

(* Product(ns...), for every list of factors (the empty list, zero and negative factors
   included): the tuples x with |x| = |ns| and 0 <= x[i] < ns[i], in lexicographic order. *)
Theorem C15_product : forall ns,
  exists l e, drain product_next product_value (S (length l)) (product_init ns) = Some (l, e) /\
    (StronglySorted lex_lt l /\ NoDup l /\ (forall x, In x l <-> in_product ns x) /\
     exhausted product_next e).
Proof. exact product_enumerates_exact. Qed.
Print Assumptions C15_product.

(* Combinations(n, k), for every integer n and every k >= 0 (k = 0, k = n, k > n, n <= 0
   included): the strictly increasing arrays of k elements of {0..n-1}, in lexicographic order. *)
Theorem C15_combinations : forall n k,
  exists l e, drain comb_next comb_value (S (length l)) (comb_init n k) = Some (l, e) /\
    (StronglySorted lex_lt l /\ NoDup l /\ (forall x, In x l <-> in_comb n k x) /\
     exhausted comb_next e).
Proof. exact comb_enumerates_exact. Qed.
Print Assumptions C15_combinations.

(* CombinationsColex(n, k), same domain: the same family in colexicographic order (arrays are
   compared from their last, i.e. largest, element). *)
Theorem C15_combinations_colex : forall n k,
  exists l e, drain colex_next colex_value (S (length l)) (colex_init n k) = Some (l, e) /\
    (StronglySorted colex_lt l /\ NoDup l /\ (forall x, In x l <-> in_comb n k x) /\
     exhausted colex_next e).
Proof. exact colex_enumerates_exact. Qed.
Print Assumptions C15_combinations_colex.

(* k > n >= 0: the very first call reports exhaustion. *)
Theorem C15_combinations_colex_k_gt_n : forall n k, 0 <= n < Z.of_nat k ->
  exists e, drain colex_next colex_value 1 (colex_init n k) = Some ([], e) /\ exhausted colex_next e.
Proof. exact colex_k_gt_n. Qed.
Print Assumptions C15_combinations_colex_k_gt_n.

(* RestrictedPrefixProduct(t, ns...), for every predicate t (a function of the prefix) and every
   list of factors: the tuples of the product all of whose non-empty prefixes are accepted, in
   lexicographic order; the goto machine of one call of Next terminates within the fuel
   3 * (number of nodes of the product tree) + 3 fixed by the model's constructor. *)
Theorem C15_restricted_prefix_product : forall t ns,
  exists l e, drain (rpprod_next t) rpprod_value (S (length l)) (rpprod_init ns) = Some (l, e) /\
    (StronglySorted lex_lt l /\ NoDup l /\ (forall x, In x l <-> in_rpp t ns x) /\
     exhausted (rpprod_next t) e).
Proof. exact rpprod_enumerates_exact. Qed.
Print Assumptions C15_restricted_prefix_product.

(* ... and it agrees with filtering the unrestricted enumeration: the drained list is the
   sublist of the drained list of Product(ns...) of the tuples passing all prefix tests. *)
Theorem C15_restricted_prefix_product_is_filter : forall t ns,
  exists l e lp ep,
    drain (rpprod_next t) rpprod_value (S (length l)) (rpprod_init ns) = Some (l, e) /\
    drain product_next product_value (S (length lp)) (product_init ns) = Some (lp, ep) /\
    l = filter (allok t) lp /\ exhausted (rpprod_next t) e.
Proof. exact rpprod_is_filter_exact. Qed.
Print Assumptions C15_restricted_prefix_product_is_filter.

(* RestrictedPrefixPermutations(n, f) (Knuth's Algorithm X with the linked list of unused
   elements and the undo array), for every n >= 0 and every predicate f (a function of the
   prefix): the permutations of 0..n-1 all of whose non-empty prefixes are accepted, in
   lexicographic order; the goto machine of one call of Next terminates within the fuel
   4 * (number of prefixes of permutations) + 4 fixed by the model's constructor and never
   indexes a, l or u out of range. *)
Theorem C15_restricted_prefix_permutations : forall f n,
  exists l e, drain (rpperm_next f) rpperm_value (S (length l)) (rpperm_init n) = Some (l, e) /\
    (StronglySorted lex_lt l /\ NoDup l /\ (forall x, In x l <-> in_rpperm f n x) /\
     exhausted (rpperm_next f) e).
Proof. exact rpperm_enumerates_exact. Qed.
Print Assumptions C15_restricted_prefix_permutations.

(* ... and it agrees with filtering the enumeration of LexicographicPermutations(n). *)
Theorem C15_restricted_prefix_permutations_is_filter : forall f n,
  exists l e lp ep,
    drain (rpperm_next f) rpperm_value (S (length l)) (rpperm_init n) = Some (l, e) /\
    drain lexperm_next lexperm_value (S (length lp)) (lexperm_init n) = Some (lp, ep) /\
    l = filter (allok f) lp /\ exhausted (rpperm_next f) e.
Proof. exact rpperm_is_filter. Qed.
Print Assumptions C15_restricted_prefix_permutations_is_filter.

(* PermutationsByPattern(n, f), for every n >= 0 and every predicate f: exactly the
   permutations z of 0..n-1 such that f accepts the standardisation (pattern) of every non-empty
   prefix of z, each once; no order is documented - the order produced is that of the
   depth-first search of the documentation, i.e. the image under [dec] of the lexicographic
   order on insertion codes (last clause); the goto machine never exhausts the fuel
   4 * (number of nodes of the insertion tree) + 4 and never indexes out of range. *)
Theorem C15_permutations_by_pattern : forall f n,
  exists l e, drain (pattern_next f) pattern_value (S (length l)) (pattern_init n) = Some (l, e) /\
    (NoDup l /\ (forall x, In x l <-> in_pattern f n x) /\ exhausted (pattern_next f) e /\
     exists lc, l = map dec lc /\ StronglySorted lex_lt lc).
Proof. exact pattern_enumerates. Qed.
Print Assumptions C15_permutations_by_pattern.

(* ... and it agrees, as a set, with filtering the enumeration of LexicographicPermutations(n). *)
Theorem C15_permutations_by_pattern_is_filter : forall f n,
  exists l e lp ep,
    drain (pattern_next f) pattern_value (S (length l)) (pattern_init n) = Some (l, e) /\
    drain lexperm_next lexperm_value (S (length lp)) (lexperm_init n) = Some (lp, ep) /\
    Permutation l (filter (patok f) lp) /\ exhausted (pattern_next f) e.
Proof. exact pattern_is_filter. Qed.
Print Assumptions C15_permutations_by_pattern_is_filter.

(* Partitions(n), n >= 1, completeness with respect to ALL set partitions (complements
   C15_partitions_rgs / C15_partitions_value of Props/C15_part2.v): the values returned by
   Value() are [map rgs_blocks lr] for a duplicate-free list lr of restricted growth strings,
   and for every set partition p of {0..n-1} - given in any representation: blocks and elements
   in any order - exactly one string of lr has a value that is the same partition as p
   ([same_partition]: the same pairs i, j lie in a common block). *)
Theorem C15_partitions_every_set_partition_once : forall n', exists s0, parts_init (S n') = Some s0 /\
  exists lr e,
    (forall fuel, (length lr < fuel)%nat ->
       drain parts_next parts_value fuel s0 = Some (map rgs_blocks lr, e)) /\
    NoDup lr /\ exhausted parts_next e /\
    forall p, is_setpart (S n') p ->
      exists r, In r lr /\ (exists p', rgs_blocks r = Some p' /\ same_partition (S n') p p') /\
        forall r2 p2, In r2 lr -> rgs_blocks r2 = Some p2 -> same_partition (S n') p p2 -> r2 = r.
Proof. exact parts_every_setpart_once. Qed.
Print Assumptions C15_partitions_every_set_partition_once.

(* ------------------------------------------------------------------ non-vacuity *)

Example C15_product_nonvacuous :
  (exists e, drain product_next product_value 7 (product_init [2; 1; 3]) =
     Some ([[0;0;0]; [0;0;1]; [0;0;2]; [1;0;0]; [1;0;1]; [1;0;2]], e)) /\
  (exists e, drain product_next product_value 2 (product_init []) = Some ([[]], e)) /\
  (exists e, drain product_next product_value 1 (product_init [2; 0; 2]) = Some ([], e)).
Proof. repeat split; eexists; vm_compute; reflexivity. Qed.

Example C15_combinations_nonvacuous :
  (exists e, drain comb_next comb_value 7 (comb_init 4 2) =
     Some ([[0;1]; [0;2]; [0;3]; [1;2]; [1;3]; [2;3]], e)) /\
  (exists e, drain comb_next comb_value 2 (comb_init 3 0) = Some ([[]], e)) /\
  (exists e, drain comb_next comb_value 2 (comb_init 3 3) = Some ([[0;1;2]], e)) /\
  (exists e, drain comb_next comb_value 1 (comb_init 2 3) = Some ([], e)).
Proof. repeat split; eexists; vm_compute; reflexivity. Qed.

Example C15_combinations_colex_nonvacuous :
  (exists e, drain colex_next colex_value 11 (colex_init 5 3) =
     Some ([[0;1;2]; [0;1;3]; [0;2;3]; [1;2;3]; [0;1;4]; [0;2;4]; [1;2;4]; [0;3;4]; [1;3;4]; [2;3;4]], e)) /\
  (exists e, drain colex_next colex_value 2 (colex_init 0 0) = Some ([[]], e)) /\
  (exists e, drain colex_next colex_value 1 (colex_init 2 3) = Some ([], e)).
Proof. repeat split; eexists; vm_compute; reflexivity. Qed.

(* the predicate "the last entry differs from the one before", which forces backtracking *)
Example C15_restricted_prefix_product_nonvacuous :
  let t := fun a : list Z => match rev a with x :: y :: _ => negb (x =? y) | _ => true end in
  (exists e, drain (rpprod_next t) rpprod_value 7 (rpprod_init [2; 2; 3]) =
     Some ([[0;1;0]; [0;1;2]; [1;0;1]; [1;0;2]], e)) /\
  filter (allok t) [[0;0;0]; [0;1;0]; [0;1;1]; [1;0;2]] = [[0;1;0]; [1;0;2]].
Proof. cbv zeta. split; [eexists|]; vm_compute; reflexivity. Qed.

(* "no two neighbours differ by one": deep backtracking; and the empty permutation for n = 0 *)
Example C15_restricted_prefix_permutations_nonvacuous :
  let f := fun a : list Z => match rev a with x :: y :: _ => negb (Z.abs (x - y) =? 1) | _ => true end in
  (exists e, drain (rpperm_next f) rpperm_value 3 (rpperm_init 4) = Some ([[1;3;0;2]; [2;0;3;1]], e)) /\
  (exists e, drain (rpperm_next f) rpperm_value 1 (rpperm_init 3) = Some ([], e)) /\
  (exists e, drain (rpperm_next f) rpperm_value 2 (rpperm_init 0) = Some ([[]], e)).
Proof. cbv zeta. repeat split; eexists; vm_compute; reflexivity. Qed.

(* 231-avoiding permutations of 0..3 (14 of them, a Catalan number): the predicate looks at the
   whole pattern and rejects when the last entry closes an occurrence of 231 *)
Example C15_permutations_by_pattern_nonvacuous :
  let f := fun a : list Z =>
    match rev a with
    | [] => true
    | c :: r => negb (existsb (fun ij => match ij with (bi, bj) => (c <? bi) && (bi <? bj) end)
                        (flat_map (fun j => map (fun i => (nth i (rev r) 0, nth j (rev r) 0)) (seq 0 j)) (seq 0 (length r))))
    end in
  (exists l e, drain (pattern_next f) pattern_value 15 (pattern_init 4) = Some (l, e) /\ length l = 14%nat
     /\ In [0;1;2;3] l /\ In [3;2;1;0] l /\ ~ In [1;2;0;3] l) /\
  std [5; 9; 2] = [1; 2; 0] /\ dec [0; 1; 0] = [1; 0; 2].
Proof.
  cbv zeta. split; [|split; vm_compute; reflexivity].
  eexists. eexists. split; [vm_compute; reflexivity|]. split; [reflexivity|].
  split; [simpl; tauto|]. split; [simpl; tauto|]. simpl. intros H.
  repeat (destruct H as [H|H]; [discriminate|]). exact H.
Qed.

(* the partition {{3,1},{2,0}} written with blocks and elements out of order is the value of
   the restricted growth string 0 1 0 1 *)
Example C15_partitions_every_set_partition_once_nonvacuous :
  is_setpart 4 [[3;1]; [2;0]] /\ rgs_blocks [0;1;0;1] = Some [[0;2]; [1;3]] /\
  build [[3;1]; [2;0]] 4 = [0;1;0;1].
Proof.
  split; [|split; vm_compute; reflexivity].
  split; [|split; [|split]].
  - intros b [<- | [<- | []]]; (split; [discriminate|split; [repeat constructor; simpl; intuition discriminate|]]);
      intros i Hi; simpl in Hi; intuition (subst; simpl; lia).
  - intros i Hi. assert (i = 0 \/ i = 1 \/ i = 2 \/ i = 3) as [-> | [-> | [-> | ->]]] by (simpl in Hi; lia);
      [exists [2;0]|exists [3;1]|exists [2;0]|exists [3;1]]; simpl; auto.
  - intros b1 b2 i [<- | [<- | []]] [<- | [<- | []]] H1 H2; auto; simpl in H1, H2; exfalso; intuition (subst; discriminate).
  - repeat constructor; simpl; intuition discriminate.
Qed.
