(* C15 — the iterators of package itertools enumerate exactly the advertised objects, once each,
   in the documented order, and then report exhaustion for ever.
   This file contains only the property theorems (lead's share: Product, Combinations,
   CombinationsColex, RestrictedPrefixProduct), closed by [exact], and their assumptions.
   The other iterators are in Props/C15_part2.v. *)
From Coq Require Import List ZArith Arith Sorted.
From Mamba Require Import Iter.Model Iter.Enum Iter.Lex Iter.Product.
Import ListNotations.
Open Scope Z_scope.

(* Product(ns...), for every list of factors (empty list, zero and negative factors included):
   draining the iterator never panics or runs out of fuel; the values produced are strictly
   increasing in lexicographic order (hence pairwise distinct), they are exactly the tuples x
   with |x| = |ns| and 0 <= x[i] < ns[i]; and from the state reached every further call of
   Next returns false. *)
Theorem C15_product : forall ns,
  exists fuel l e, drain product_next product_value fuel (product_init ns) = Some (l, e) /\
    StronglySorted lex_lt l /\ (forall x, In x l <-> in_product ns x) /\ exhausted product_next e.
Proof. exact product_enumerates. Qed.
Print Assumptions C15_product.

Example C15_product_nonvacuous :
  (exists e, drain product_next product_value 7 (product_init [2; 1; 3]) =
     Some ([[0;0;0]; [0;0;1]; [0;0;2]; [1;0;0]; [1;0;1]; [1;0;2]], e)) /\
  (exists e, drain product_next product_value 2 (product_init []) = Some ([[]], e)) /\
  (exists e, drain product_next product_value 1 (product_init [2; 0; 2]) = Some ([], e)).
Proof. repeat split; eexists; vm_compute; reflexivity. Qed.
