(* C13 — dawg.Search returns exactly the matching words with their ranks, in order, and
   leaves the searchers as it found them.
   This file contains only the property theorems, closed by [exact], and their assumptions.

   Vocabulary (coq/Dawg/SearchSpec.v, SearchConcrete.v):
   * [dawg_wf s d t]: the store node d unfolds to the finite tree t (so the automaton is
     acyclic), every numWords field is the size of the right language, the labels of every
     node are strictly increasing.  [tlang t] is the language in link order.  C12 is to show
     that dawg.New establishes this with [tlang t] = the words given; here it is a hypothesis,
     decided by the executable [check_wf] (sound and complete, below).
   * [contract ops E]: the searcher contract relative to a partial equivalence E on searcher
     states: AllowStep/AllowWord never panic on contract states and respect E; an allowed Step
     respects E; Backstep after an allowed Step leads back to an E-equivalent state; Backstep
     respects E; Chosen leaves an E-equivalent state.  (AllowStep/AllowWord are read-only by
     their type in the model.)
   * [accepts ops x w]: from state x every letter of w is allowed and stepped in turn and the
     word is allowed at the end.
   * [search_fuel t] = 2 * (number of links of t) + 1: the explicit fuel. *)
From Coq Require Import List NArith ZArith Bool Sorted Permutation.
From Mamba Require Import Dawg.Model Dawg.Tree Dawg.Spec Dawg.SearchModel Dawg.SearchSpec.
From Mamba Require Import Dawg.SearchPattern Dawg.SearchAnagram Dawg.SearchProofs Dawg.SearchConcrete.
From Mamba Require Import Dawg.SearchWf Dawg.SearchMain Dawg.SearchCount Dawg.SearchBuilt.
Import ListNotations.

(* The property for arbitrary searchers under the contract.  For every well-formed Dawg, every
   list of searchers in contract states and every fuel >= search_fuel: Search does not panic or
   run out of fuel; run a second time with the searcher objects as the first run left them it
   returns the same list; after each run the searchers are E-equivalent to the initial ones;
   the list is strictly increasing in bytes.Compare order and contains exactly the pairs
   (w, rank of w in the language) of the words accepted by every searcher. *)
Theorem C13_search_contract : forall {X} (ops : searcher_ops X) (E : X -> X -> Prop),
  contract ops E ->
  forall s d t, dawg_wf s d t ->
  forall xs, Forall2 E xs xs ->
  forall fuel, (search_fuel t <= fuel)%nat ->
  exists res xs1 xs2,
    search ops fuel s d xs = Ok (res, xs1) /\
    search ops fuel s d xs1 = Ok (res, xs2) /\
    Forall2 E xs1 xs /\ Forall2 E xs2 xs /\
    StronglySorted lex_lt (map fst res) /\
    forall w r, In (w, r) res <->
      (Forall (fun x => accepts ops x w = Ok true) xs /\
       rank_of w (tlang t) = Some (Z.to_nat r) /\ (0 <= r)%Z).
Proof. exact @search_abstract_full. Qed.
Print Assumptions C13_search_contract.

(* PatternSearcher and AnagramSearcher satisfy the contract, with E = [s_equiv]: equal pattern
   searchers with 0 <= index <= len(pattern); anagram searchers with the same blank byte,
   blanks, target, path, the same entry letters and the same multiset of available letters
   (not the same split over entries: Backstep re-credits the first entry of a letter). *)
Theorem C13_contract_pattern_anagram : contract concrete_ops s_equiv.
Proof. exact concrete_contract. Qed.
Print Assumptions C13_contract_pattern_anagram.

(* A fresh PatternSearcher accepts exactly the words of the pattern's length that agree with
   it outside the blanks. *)
Theorem C13_pattern_accepts : forall pattern blank w,
  accepts concrete_ops (SPattern (new_pattern_searcher pattern blank)) w
  = Ok (matches_pattern pattern blank w).
Proof. exact ps_accepts. Qed.
Print Assumptions C13_pattern_accepts.

(* NewAnagramSearcher, for whatever permutation tmp of the anagram its sort call leaves: the
   counting loop does not panic, the object is in a contract state, and it accepts exactly the
   rearrangements of the anagram with every blank replaced by some letter (the rule "use the
   letter before a blank" loses nothing). *)
Theorem C13_anagram_accepts : forall anagram blank tmp, Permutation tmp anagram ->
  exists a, new_anagram_searcher_from tmp blank (length anagram) = Ok a /\
    as_equiv a a /\
    forall w, exists r, accepts concrete_ops (SAnagram a) w = Ok r /\
      (r = true <-> exists fill, length fill = blanks_of anagram blank /\
                                 Permutation w (letters_of anagram blank ++ fill)).
Proof. exact new_anagram_searcher_from_spec. Qed.
Print Assumptions C13_anagram_accepts.

(* The rearrangement relation in executable counting form: equal lengths, and the letters of
   w not covered by the anagram's letters are at most as many as its blanks. *)
Theorem C13_anagram_counting : forall anagram blank w,
  matches_anagramb anagram blank w = true <-> matches_anagram anagram blank w.
Proof. exact matches_anagramb_iff. Qed.
Print Assumptions C13_anagram_counting.

(* The model's constructors (insertion sort with the comparator reading the original slice,
   the `i > 1` test as written) never panic and build such objects. *)
Theorem C13_constructors : forall sps,
  exists xs, new_searchers sps = Ok xs /\ Forall2 built sps xs.
Proof. exact new_searchers_built. Qed.
Print Assumptions C13_constructors.

(* The property for pattern and anagram searchers, end to end: any number of them in any
   combination, any patterns/anagrams/blank bytes, Search run twice with the same objects. *)
Theorem C13_search_pattern_anagram : forall s d t, dawg_wf s d t ->
  forall sps xs, Forall2 built sps xs ->
  forall fuel, (search_fuel t <= fuel)%nat ->
  exists res xs1 xs2,
    search_c fuel s d xs = Ok (res, xs1) /\
    search_c fuel s d xs1 = Ok (res, xs2) /\
    Forall2 s_equiv xs1 xs /\ Forall2 s_equiv xs2 xs /\
    StronglySorted lex_lt (map fst res) /\
    forall w r, In (w, r) res <->
      (Forall (fun sp => spec_matches sp w) sps /\
       rank_of w (tlang t) = Some (Z.to_nat r) /\ (0 <= r)%Z).
Proof. exact search_full. Qed.
Print Assumptions C13_search_pattern_anagram.

(* The property on the Dawgs dawg.New builds, with C12's theorem (LangStore.final_root: the
   store New returns for a strictly increasing word list unfolds to a well-formed, trimmed tree
   whose language is the list) discharging the hypothesis: for every strictly increasing word
   list ws, every list of pattern/anagram searchers and every fuel >= 2 * (total length of the
   words) + 1, Search on New(ws) never panics, returns twice the same list, leaves the
   searchers observationally equal to their initial states, and the list is strictly
   increasing and contains exactly the pairs (w, rank of w in ws) of the words of ws that
   every searcher's pattern/anagram matches. *)
Theorem C13_search_built : forall ws s, increasing ws -> new_dawg ws = Ok (Some s) ->
  forall sps xs, Forall2 built sps xs ->
  forall fuel, (2 * total_length ws + 1 <= fuel)%nat ->
  exists res xs1 xs2,
    search_c fuel s root xs = Ok (res, xs1) /\
    search_c fuel s root xs1 = Ok (res, xs2) /\
    Forall2 s_equiv xs1 xs /\ Forall2 s_equiv xs2 xs /\
    StronglySorted lex_lt (map fst res) /\
    forall w r, In (w, r) res <->
      (Forall (fun sp => spec_matches sp w) sps /\
       rank_of w ws = Some (Z.to_nat r) /\ (0 <= r)%Z).
Proof. exact search_built. Qed.
Print Assumptions C13_search_built.

(* The well-formedness hypothesis is decided by an executable check. *)
Theorem C13_check_wf_sound : forall fuel s d t, check_wf fuel s d = Some t -> dawg_wf s d t.
Proof. exact check_wf_sound. Qed.
Print Assumptions C13_check_wf_sound.

Theorem C13_check_wf_complete : forall s d t, dawg_wf s d t -> check_wf (theight t) s d = Some t.
Proof. exact check_wf_complete. Qed.
Print Assumptions C13_check_wf_complete.

(* The fuel in terms of the stored words: when every link leads to a word (trimmed, which
   holds for every automaton the builder makes), the number of links is at most the total
   length of the words, so 2 * total length + 1 is enough fuel. *)
Theorem C13_fuel_words : forall t, trimmed t -> (tedges t <= total_length (tlang t))%nat.
Proof. exact tedges_le_total_length. Qed.
Print Assumptions C13_fuel_words.

(* ------------------------------------------------------------------ non-vacuity *)
(* ex_words, ex_store, ex_tree are defined at the end of Dawg/SearchMain.v:
   a=97 b=98 o=111 p=112 s=115 t=116 ?=63; the nine words "", a, aa, ab, b, tap, taps, top, tops *)
(* the Dawg built from nine words (the suffixes "p", "ps" are shared nodes) passes the check,
   its language is the word list, and 23 is enough fuel *)
Example C13_wf_nonvacuous :
  check_wf 6 ex_store root = Some ex_tree /\ tlang ex_tree = ex_words /\
  search_fuel ex_tree = 23%nat /\ check_wf (theight ex_tree) ex_store root = Some ex_tree /\
  (tedges ex_tree <= total_length (tlang ex_tree))%nat.
Proof. vm_compute. repeat split. repeat constructor. Qed.

(* anagram "spo?" and pattern "t???" together select "tops", rank 8; alone the anagram "aa"
   selects "aa" (rank 2) and leaves its two entries (a,1),(a,1) as (a,2),(a,0): equivalent,
   not equal, and the second run returns the same list *)
Example C13_search_nonvacuous :
  (exists xs, new_searchers [SpecA [115; 112; 111; 63] 63; SpecP [116; 63; 63; 63] 63]%N = Ok xs /\
     exists xs1, search_c 23 ex_store root xs = Ok ([([116; 111; 112; 115]%N, 8%Z)], xs1)) /\
  (exists xs xs1 xs2, new_searchers [SpecA [97; 97] 63]%N = Ok xs /\
     search_c 23 ex_store root xs = Ok ([([97; 97]%N, 2%Z)], xs1) /\
     search_c 23 ex_store root xs1 = Ok ([([97; 97]%N, 2%Z)], xs2) /\
     xs1 <> xs /\
     xs1 = [SAnagram (mkAS [(97%N, 2%Z); (97%N, 0%Z)] 0%Z 63%N 2%Z [])]).
Proof.
  split.
  - eexists. split; [vm_compute; reflexivity|]. eexists. vm_compute. reflexivity.
  - do 3 eexists. split; [vm_compute; reflexivity|]. split; [vm_compute; reflexivity|].
    split; [vm_compute; reflexivity|]. split; [discriminate|reflexivity].
Qed.

Example C13_pattern_nonvacuous :
  matches_pattern [116; 63; 112]%N 63%N [116; 111; 112]%N = true /\
  matches_pattern [116; 63; 112]%N 63%N [116; 111; 112; 115]%N = false.
Proof. vm_compute. split; reflexivity. Qed.

(* "tops" is a rearrangement of "spo?" with the blank replaced by t *)
Example C13_anagram_nonvacuous :
  exists fill, length fill = blanks_of [115; 112; 111; 63]%N 63%N /\
    Permutation [116; 111; 112; 115]%N (letters_of [115; 112; 111; 63]%N 63%N ++ fill).
Proof.
  exists [116%N]. split; [reflexivity|]. vm_compute.
  apply (Permutation_cons_app [115; 112; 111]%N [] 116%N).
  apply (Permutation_cons_app [115; 112]%N [] 111%N).
  apply (Permutation_cons_app [115]%N [] 112%N).
  apply (Permutation_cons_app [] [] 115%N). constructor.
Qed.

Example C13_anagram_counting_nonvacuous :
  matches_anagramb [115; 112; 111; 63]%N 63%N [116; 111; 112; 115]%N = true /\
  matches_anagramb [115; 112; 111; 63]%N 63%N [116; 97; 112; 115]%N = false /\
  matches_anagramb [97; 97]%N 97%N [98; 116]%N = true.
Proof. vm_compute. repeat split. Qed.

(* the hypotheses of C13_search_built on the nine-word example *)
Example C13_built_nonvacuous :
  increasing ex_words /\ new_dawg ex_words = Ok (Some ex_store) /\
  (2 * total_length ex_words + 1 = 41)%nat.
Proof.
  split; [|split; [vm_compute; reflexivity|vm_compute; reflexivity]].
  vm_compute. repeat split.
Qed.
