(* C06, decoders — every graph returned by Graph6Decode / Sparse6Decode is well formed.
   This file contains only the property theorems, closed by [exact], and their assumptions.

   C08 (Props/C08.v, Codec/*.v) proves that the decoder models never panic and return an error or
   (n, bits) with |bits| = n(n-1)/2 (graph6) resp. (n, el) with 0 <= x < v < n for every (v, x) of
   el, strictly ascending (sparse6), n the declared size.  Here the decoders are completed to the
   VALUE the Go functions return, built as graph/encoding.go builds it:
     [graph6_decode_graph]  = C08's [graph6_decode], then NewDense(int(n), edges) with edges[j] the
                              byte 0/1 of bit j -- C06's model [new_dense] with its count loop;
     [sparse6_decode_graph] = the loop of C08's [sparse6_decode] run on the real SparseGraph:
                              NewSparse(int(n), nil) -- C06's [new_sparse] -- and g.AddEdge(v, x)
                              in stream order -- C05's [s_add_edge];
   an error return is the zero struct &DenseGraph{} / &SparseGraph{} and the flag true.
   [dwf] / [swf] are the struct invariants of Props/C06.v ([C06_dense_wf], [C06_sparse_wf]: they
   make N, M, Degrees, Neighbours, IsEdge those of one symmetric loop-free adjacency = [gwf]). *)
From Coq Require Import List ZArith Arith Bool.
From Mamba Require Import Graph.Model Graph.CtorModel Graph.CtorSpec Graph.CtorSparse
  Graph.CtorDecodeModel Graph.CtorDecodeG6 Graph.CtorDecodeS6.
From Mamba Require Codec.Model Codec.TotalG6 Codec.TotalS6.
Import ListNotations.

Module M := Mamba.Codec.Model.
Module TG := Mamba.Codec.TotalG6.
Module TS := Mamba.Codec.TotalS6.

(* Graph6Decode, for every string of fewer than 2^59 bytes (no Go string is longer; the bound
   only excludes wrap-around of the int expressions): no panic; the returned DenseGraph is well
   formed; it is the zero struct when an error is returned, otherwise it has the declared number
   of vertices and x ~ y (x < y) iff bit y(y-1)/2 + x of the decoded bit string is set. *)
Theorem C06_graph6_decode_wf : forall s0, (M.len s0 < 576460752303423488)%Z ->
  exists g err, graph6_decode_graph s0 = M.Ok (g, err) /\ dwf g /\ gwf (GD g) /\
    (err = true -> g = dense_zero /\ M.graph6_decode s0 = M.Err) /\
    (err = false -> exists n e, M.graph6_decode s0 = M.Ok (n, e) /\ TG.wf_dense n e /\
       dn g = Z.to_nat n /\
       (M.strip M.hdr_graph6 s0 = [] /\ n = 0%Z \/ TG.declared (M.strip M.hdr_graph6 s0) = Some n) /\
       forall x y, x < y -> y < dn g -> dadj g x y = nth (Graph.Model.tri y + x) e false).
Proof. exact graph6_decode_graph_wf. Qed.
Print Assumptions C06_graph6_decode_wf.

(* the bridge alone: whatever (n, e) satisfies C08's [wf_dense], NewDense(int(n), bytes of e)
   does not panic and satisfies the invariant with N = n *)
Theorem C06_graph6_build : forall n e, TG.wf_dense n e ->
  exists g, g6_build n e = Some g /\ dwf g /\ dn g = Z.to_nat n /\
    (forall x y, x < y -> y < Z.to_nat n -> dadj g x y = nth (Graph.Model.tri y + x) e false) /\
    (forall x y, dadj g x y = dadj g y x) /\ (forall x, dadj g x x = false).
Proof. exact g6_build_ok. Qed.
Print Assumptions C06_graph6_build.

(* Sparse6Decode, for every byte string: no panic, the loop terminates; the returned SparseGraph
   is well formed; it is the zero struct when an error is returned, otherwise it has the declared
   number n of vertices and x ~ y iff the pair (max x y, min x y) is in the edge list el that
   C08's model returns (loops, repeated edges and pairs naming vertices >= n of the stream are
   dropped by AddEdge / the guard v < n, and leave the invariant intact). *)
Theorem C06_sparse6_decode_wf : forall s0,
  exists g err, sparse6_decode_graph s0 = M.Ok (g, err) /\ swf g /\ gwf (GS g) /\
    (err = true -> g = sparse_zero /\ M.sparse6_decode s0 = M.Err) /\
    (err = false -> exists n el, M.sparse6_decode s0 = M.Ok (n, el) /\ TS.wf_sparse n el /\
       TS.s6_declared (M.strip M.hdr_sparse6 s0) = Some n /\ sn g = Z.to_nat n /\
       forall x y, x < sn g -> y < sn g -> sadj g x y = memz (zpair x y) el).
Proof. exact sparse6_decode_graph_wf. Qed.
Print Assumptions C06_sparse6_decode_wf.

(* the simulation behind it: whenever C08's loop returns el' from el, the loop carrying a
   SparseGraph that represents el returns a SparseGraph that represents el' (no panic) *)
Theorem C06_sparse6_loop_refines : forall N n, N = Z.to_nat (M.s64 n) ->
  forall fuel s k numBits p v el g el',
  Graph.Sparse.Rs g (aof N el) ->
  M.s6_loop fuel s n k numBits p v el = M.Ok el' ->
  exists g', s6_loop_g fuel s n k numBits p v g = M.Ok g' /\ Graph.Sparse.Rs g' (aof N el').
Proof. exact s6_loop_sim. Qed.
Print Assumptions C06_sparse6_loop_refines.

(* non-vacuity: "Cg" = graph6 of the path 1-0-2 plus the isolated vertex 3; a too short string;
   a sparse6 string whose stream holds a pair naming a vertex >= n, a loop and a repeated edge *)
Example C06_decoders_nonvacuous :
  graph6_decode_graph [67; 103]%Z =
    M.Ok (mkDense 4 2 [1; 2; 1; 0]%Z [1; 0; 1; 0; 0; 0]%Z 6, false) /\
  graph6_decode_graph [67]%Z = M.Ok (dense_zero, true) /\
  sparse6_decode_graph [58; 67; 111; 78; 111; 78]%Z =
    M.Ok (mkSparse 4 2 [[2]; [2]; [0; 1]; []] [1; 1; 2; 0]%Z, false) /\
  M.sparse6_decode [58; 67; 111; 78; 111; 78]%Z = M.Ok (4, [(2, 0); (2, 1)])%Z /\
  sparse6_decode_graph [58]%Z = M.Ok (sparse_zero, true).
Proof. vm_compute. repeat split; reflexivity. Qed.
