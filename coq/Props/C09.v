(* C09 — clique and colouring invariants are exact and come with valid witnesses.
   Level "other": this file holds the parts of the property that are proved over all inputs on
   models of the code (IsProperColouring, GreedyColor, ...); the rest is explored against
   proved reference oracles (see notes/C09.md).  Only property theorems, closed by [exact]. *)
From Coq Require Import List ZArith Arith Sorted Lia.
From Mamba Require Import Invariants.Graph Invariants.CliqueGraphOfEdges Invariants.ColourModel Invariants.ColourSpec
  Invariants.ColourProofs Invariants.ColourGreedy Invariants.DegenProofs
  Invariants.CliqueSpec Invariants.CliqueRef Invariants.CliqueRefProofs Invariants.ColourRef Invariants.ColourRefProofs
  Invariants.ChromPolyModel Invariants.ChromPolyProofs
  Invariants.CliqueModel Invariants.CliqueLoop Invariants.CliqueBK Invariants.CliqueNumbers
  Invariants.ColourIndexModel Invariants.ColourIndexProofs Invariants.CliqueIso.
Import ListNotations.
Open Scope Z_scope.

(* IsProperColouring: for every simple graph and every slice (any length, any values) the
   function does not panic and answers true exactly when the slice is a proper colouring
   (length n, no negative colour, ends of every edge coloured differently). *)
Theorem C09_is_proper_colouring_decides : forall g c, wf g ->
  exists b, is_proper_colouring g c = Some b /\ (b = true <-> proper g c).
Proof. exact is_proper_colouring_decides. Qed.
Print Assumptions C09_is_proper_colouring_decides.

(* GreedyColor: for every simple graph and every order of its vertices the function does not
   panic, the colouring returned is proper, every vertex has the least colour not used by its
   neighbours earlier in the order (first-fit), and the number returned is the largest colour
   used (-1 for the graph without vertices). *)
Theorem C09_greedy_color_first_fit : forall g order, wf g -> is_order g order ->
  exists mx c, greedy_color g order = Some (mx, c) /\
    proper g c /\ first_fit g order c /\ max_colour c mx.
Proof. exact greedy_color_first_fit. Qed.
Print Assumptions C09_greedy_color_first_fit.

(* Degeneracy: for every simple graph the function does not panic; the order returned lists
   every vertex once and every vertex has at most d neighbours before it; and no order of the
   vertices does better (in every order some vertex is preceded by at least d neighbours), so d
   is the degeneracy.  (The proof shows that the vertex removed in each round has minimum
   degree in the subgraph induced by the vertices not yet removed.) *)
Theorem C09_degeneracy : forall g, wf g ->
  exists d order, degeneracy g = Some (d, order) /\
    is_order g order /\ certifies g order d /\
    (forall order' d', is_order g order' -> certifies g order' d' -> (d <= d')%nat).
Proof. exact degeneracy_correct. Qed.
Print Assumptions C09_degeneracy.

Example C09_degeneracy_nonvacuous :
  let g := of_edges 6 [(0,1); (1,2); (2,0); (2,3); (3,4); (4,5); (5,3); (0,3)]%nat in
  wf g /\ degeneracy g = Some (2%nat, [0; 1; 2; 3; 4; 5]%nat).
Proof. split; [apply of_edges_wf|vm_compute; reflexivity]. Qed.

(* ChromaticPolynomial (deletion-contraction on the abstract editable graph, in the order of the
   explicit stack): for every simple graph the function does not panic or run out of fuel, returns
   n+1 coefficients, and the polynomial evaluates at every k to the number of proper colourings
   with colours 0..k-1 (the length of a duplicate-free list that holds exactly those colourings). *)
Theorem C09_chromatic_polynomial : forall g, wf g ->
  exists poly, chromatic_polynomial g = Some poly /\ length poly = S (gn g) /\
    forall k, exists l, NoDup l /\ (forall c, In c l <-> k_colouring g k c) /\
      eval_poly poly (Z.of_nat k) = Z.of_nat (length l).
Proof. exact chromatic_polynomial_correct. Qed.
Print Assumptions C09_chromatic_polynomial.

Example C09_chromatic_polynomial_nonvacuous :
  let g := of_edges 5 [(0,1); (1,2); (2,3); (3,4); (4,0); (0,2)]%nat in
  chromatic_polynomial g = Some [0; 6; -15; 14; -6; 1] /\
  map (eval_poly [0; 6; -15; 14; -6; 1]) [2; 3; 4] = [0; 18; 168].
Proof. vm_compute. split; reflexivity. Qed.

(* AllMaximalCliques (Bron-Kerbosch with pivoting and the swap-remove walk over P): for every
   simple graph the search does not panic or run out of fuel, everything it reports is a maximal
   clique, and every maximal clique s is reported exactly once ([count s L] is the number of
   entries of L that list the vertex set s). *)
Theorem C09_all_maximal_cliques : forall g, wf g ->
  exists L, all_maximal_cliques g = Some L /\
    (forall c, In c L -> maximal_clique g c) /\
    (forall s, maximal_clique g s -> count s L = 1%nat).
Proof. exact all_maximal_cliques_correct. Qed.
Print Assumptions C09_all_maximal_cliques.

(* CliqueNumber (the same search keeping the largest |R| reported) is the clique number, and
   IndependenceNumber (the same on the complement view) is the independence number. *)
Theorem C09_clique_number : forall g, wf g ->
  exists w, clique_number_bk g = Some w /\ clique_number g w.
Proof. exact clique_number_bk_correct. Qed.
Print Assumptions C09_clique_number.

Theorem C09_independence_number : forall g, wf g ->
  exists a, independence_number_bk g = Some a /\ independence_number g a.
Proof. exact independence_number_bk_correct. Qed.
Print Assumptions C09_independence_number.

Example C09_cliques_nonvacuous :
  let g := of_edges 6 [(0,1); (1,2); (2,0); (2,3); (3,4); (4,5); (5,3); (0,3)]%nat in
  all_maximal_cliques g = Some [[1; 0; 2]; [3; 0; 2]; [3; 5; 4]]%nat /\
  clique_number_bk g = Some 3%nat /\ independence_number_bk g = Some 2%nat.
Proof. vm_compute. repeat split. Qed.

(* ChromaticIndex, partial: what is proved is the mapping between the line graph's vertices and
   the edge array.  (1) LineGraphDense (three inner loops with early exits, rows of the triangular
   array) presents exactly [line_graph g]: vertex a is the a-th edge of the exact edge list
   [edges g] and a, b are adjacent iff the edges share an end.  (2) For every proper k-colouring
   of that line graph, the assembling loop of ChromaticIndex does not panic and returns one entry
   per pair in dense-array order: 0 at the non-edges, a colour in 1..k at the edges, different
   for different edges sharing an end.  MISSING for the full statement: that the colouring
   ChromaticNumber returns for the line graph is proper with exactly chi(line graph) colours
   (DSATUR branch and bound, not modelled); explored against [chromatic_index_ref]. *)
Theorem C09_line_graph_dense : forall g,
  let '(lower, upper, rows) := line_graph_rows g in
  lower = map fst (edges g) /\ upper = map snd (edges g) /\ length rows = length (edges g) /\
  forall b, (b < length (edges g))%nat -> length (nth b rows []) = b /\
    forall a, (a < b)%nat -> lg_adj rows a b = gadj (line_graph g) a b.
Proof. exact line_graph_rows_correct. Qed.
Print Assumptions C09_line_graph_dense.

Theorem C09_chromatic_index_mapping_partial : forall g k colouring, k_colouring (line_graph g) k colouring ->
  exists ce, chromatic_index_assemble g colouring = Some ce /\ length ce = length (pairs (gn g)) /\
    forall p i j, nth_error (pairs (gn g)) p = Some (i, j) ->
      (gadj g i j = false -> nth p ce 0 = 0) /\
      (gadj g i j = true -> 1 <= nth p ce 0 <= Z.of_nat k /\
         forall p' i' j', nth_error (pairs (gn g)) p' = Some (i', j') -> gadj g i' j' = true ->
           (i, j) <> (i', j') -> share_end (i, j) (i', j') -> nth p ce 0 <> nth p' ce 0).
Proof. exact chromatic_index_assemble_proper. Qed.
Print Assumptions C09_chromatic_index_mapping_partial.

Example C09_chromatic_index_nonvacuous :
  let g := of_edges 4 [(0,1); (1,2); (2,0); (2,3)]%nat in
  edges g = [(0,1); (0,2); (1,2); (2,3)]%nat /\
  snd (line_graph_rows g) = [[]; [true]; [true; true]; [false; true; true]] /\
  chromatic_index_assemble g [0; 1; 2; 0] = Some [1; 2; 3; 0; 0; 1].
Proof. vm_compute. repeat split. Qed.

(* ---- proved reference oracles: the model line of the correspondence for the values whose
   algorithms (Bron-Kerbosch with pivoting, DSATUR branch and bound) are not proved.  Each is an
   exhaustive search proved to return the value of the definition, for every simple graph. *)

(* maximal_cliques_ref lists every maximal clique exactly once (as an ascending list) *)
Theorem C09_maximal_cliques_ref : forall g,
  NoDup (maximal_cliques_ref g) /\
  forall s, In s (maximal_cliques_ref g) <-> StronglySorted lt s /\ maximal_clique g s.
Proof. exact maximal_cliques_ref_spec. Qed.
Print Assumptions C09_maximal_cliques_ref.

Theorem C09_clique_number_ref : forall g, clique_number g (clique_number_ref g).
Proof. exact clique_number_ref_spec. Qed.
Print Assumptions C09_clique_number_ref.

Theorem C09_independence_number_ref : forall g, wf g -> independence_number g (independence_number_ref g).
Proof. exact independence_number_ref_spec. Qed.
Print Assumptions C09_independence_number_ref.

Theorem C09_chromatic_number_ref : forall g, wf g -> chromatic_number g (chromatic_number_ref g).
Proof. exact chromatic_number_ref_spec. Qed.
Print Assumptions C09_chromatic_number_ref.

Theorem C09_k_colourable_ref : forall g k, wf g ->
  (k_colourable_ref g k = true <-> exists c, k_colouring g k c).
Proof. exact k_colourable_ref_spec. Qed.
Print Assumptions C09_k_colourable_ref.

(* the number of proper k-colourings: the length of a duplicate-free list holding exactly them *)
Theorem C09_count_colourings_ref : forall g k, wf g ->
  exists l, NoDup l /\ (forall c, In c l <-> k_colouring g k c) /\ count_colourings_ref g k = length l.
Proof. exact count_colourings_ref_spec. Qed.
Print Assumptions C09_count_colourings_ref.

(* edges g lists every edge once, and chromatic_index_ref is the least number of colours of a
   proper colouring of that list *)
Theorem C09_chromatic_index_ref : forall g,
  edge_list g (edges g) /\ chromatic_index (edges g) (chromatic_index_ref g).
Proof. intro g. split; [exact (edges_spec g)|exact (chromatic_index_ref_spec g)]. Qed.
Print Assumptions C09_chromatic_index_ref.

Example C09_ref_nonvacuous :
  let g := of_edges 5 [(0,1); (1,2); (2,3); (3,4); (4,0); (0,2)]%nat in
  maximal_cliques_ref g = [[0; 1; 2]; [0; 4]; [2; 3]; [3; 4]]%nat /\
  clique_number_ref g = 3%nat /\ independence_number_ref g = 2%nat /\ chromatic_number_ref g = 3%nat /\
  map (k_colourable_ref g) [0; 1; 2; 3; 4]%nat = [false; false; false; true; true] /\
  map (count_colourings_ref g) [2; 3; 4]%nat = [0; 18; 168]%nat /\
  chromatic_index_ref g = 3%nat.
Proof. vm_compute. repeat split. Qed.

(* ---- relabelling: the specification values are invariant under isomorphism (p a bijection of
   the vertices with inverse q that preserves adjacency; [relabel g p] of Graph.v is such an h).
   Together with the exactness theorems above this is the relabelling clause for CliqueNumber,
   IndependenceNumber, AllMaximalCliques, Degeneracy; for the DSATUR-based functions it holds on
   the explored inputs through agreement with the oracles.  Representation invariance is the
   statement that every representation presents the same abstract graph (C05/C06). *)
Theorem C09_relabelling_invariance : forall p q h g, wf h -> wf g -> iso p q h g ->
  (forall w, clique_number h w -> clique_number g w) /\
  (forall a, independence_number h a -> independence_number g a) /\
  (forall chi, chromatic_number h chi -> chromatic_number g chi) /\
  (forall d, is_degeneracy h d -> is_degeneracy g d) /\
  (forall s, maximal_clique h s -> maximal_clique g (map p s)).
Proof.
  intros p q h g Hh Hg Hiso. split; [|split; [|split; [|split]]].
  - intros w. exact (clique_number_iso p q h g w Hiso).
  - intros a. exact (independence_number_iso p q h g a Hiso).
  - intros chi. exact (chromatic_number_iso p q h g chi Hh Hg Hiso).
  - intros d. exact (degeneracy_iso p q h g d Hiso).
  - intros s. exact (maximal_clique_iso p q h g s Hiso).
Qed.
Print Assumptions C09_relabelling_invariance.

Example C09_relabelling_nonvacuous :
  let g := of_edges 5 [(0,1); (1,2); (2,3); (3,4); (4,0); (0,2)]%nat in
  let p := fun u => Nat.modulo (u + 1) 5 in
  let q := fun u => Nat.modulo (u + 4) 5 in
  iso p q (relabel g p) g.
Proof.
  apply relabel_iso; [apply of_edges_wf| |];
    intros u Hu; simpl in Hu; do 5 (destruct u as [|u]; [vm_compute; split; [repeat constructor|reflexivity]|]);
    lia.
Qed.

(* Non-vacuity: the 5-cycle with a chord, an order on which first-fit needs 3 colours, a proper
   and an improper colouring. *)
Example C09_nonvacuous :
  let g := of_edges 5 [(0,1); (1,2); (2,3); (3,4); (4,0); (0,2)]%nat in
  wf g /\ is_order g [0; 3; 1; 4; 2]%nat /\
  greedy_color g [0; 3; 1; 4; 2]%nat = Some (2, [0; 1; 2; 0; 1]) /\
  is_proper_colouring g [0; 1; 2; 0; 1] = Some true /\
  is_proper_colouring g [0; 1; 0; 2; 1] = Some false /\
  is_proper_colouring g [0; 1; 2; 0] = Some false.
Proof.
  split; [apply of_edges_wf|]. split.
  - split; [|split; [reflexivity|]].
    + repeat constructor; simpl; intuition discriminate.
    + simpl. intros v H. repeat (destruct H as [<-|H]; [auto with arith|]). contradiction.
  - vm_compute. auto.
Qed.
