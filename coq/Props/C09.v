(* C09 — clique and colouring invariants are exact and come with valid witnesses.
   Level "other": this file holds the parts of the property that are proved over all inputs on
   models of the code (IsProperColouring, GreedyColor, ...); the rest is explored against
   proved reference oracles (see notes/C09.md).  Only property theorems, closed by [exact]. *)
From Coq Require Import List ZArith Arith Sorted.
From Mamba Require Import Invariants.Graph Invariants.GraphOfEdges Invariants.ColourModel Invariants.ColourSpec
  Invariants.ColourProofs Invariants.ColourGreedy Invariants.DegenProofs
  Invariants.CliqueSpec Invariants.CliqueRef Invariants.CliqueRefProofs Invariants.ColourRef Invariants.ColourRefProofs
  Invariants.ChromPolyModel Invariants.ChromPolyProofs
  Invariants.CliqueModel Invariants.CliqueLoop Invariants.CliqueBK Invariants.CliqueNumbers.
Import ListNotations.
Open Scope Z_scope.

(* IsProperColouring: for every simple graph and every slice (any length, any values) the
   function does not panic and answers true exactly when the slice is a proper colouring
   (length n, no negative colour, ends of every edge coloured differently). *)
Theorem C09_is_proper_colouring_decides : forall g c, wf g ->
  exists b, is_proper_colouring g c = Some b /\ (b = true <-> proper g c).
Proof. exact is_proper_colouring_decides. Qed.
Print Assumptions C09_is_proper_colouring_decides.

(* GreedyColor: for every simple graph and every order of its vertices the function does not
   panic, the colouring returned is proper, every vertex has the least colour not used by its
   neighbours earlier in the order (first-fit), and the number returned is the largest colour
   used (-1 for the graph without vertices). *)
Theorem C09_greedy_color_first_fit : forall g order, wf g -> is_order g order ->
  exists mx c, greedy_color g order = Some (mx, c) /\
    proper g c /\ first_fit g order c /\ max_colour c mx.
Proof. exact greedy_color_first_fit. Qed.
Print Assumptions C09_greedy_color_first_fit.

(* Degeneracy: for every simple graph the function does not panic; the order returned lists
   every vertex once and every vertex has at most d neighbours before it; and no order of the
   vertices does better (in every order some vertex is preceded by at least d neighbours), so d
   is the degeneracy.  (The proof shows that the vertex removed in each round has minimum
   degree in the subgraph induced by the vertices not yet removed.) *)
Theorem C09_degeneracy : forall g, wf g ->
  exists d order, degeneracy g = Some (d, order) /\
    is_order g order /\ certifies g order d /\
    (forall order' d', is_order g order' -> certifies g order' d' -> (d <= d')%nat).
Proof. exact degeneracy_correct. Qed.
Print Assumptions C09_degeneracy.

Example C09_degeneracy_nonvacuous :
  let g := of_edges 6 [(0,1); (1,2); (2,0); (2,3); (3,4); (4,5); (5,3); (0,3)]%nat in
  wf g /\ degeneracy g = Some (2%nat, [0; 1; 2; 3; 4; 5]%nat).
Proof. split; [apply of_edges_wf|vm_compute; reflexivity]. Qed.

(* ChromaticPolynomial (deletion-contraction on the abstract editable graph, in the order of the
   explicit stack): for every simple graph the function does not panic or run out of fuel, returns
   n+1 coefficients, and the polynomial evaluates at every k to the number of proper colourings
   with colours 0..k-1 (the length of a duplicate-free list that holds exactly those colourings). *)
Theorem C09_chromatic_polynomial : forall g, wf g ->
  exists poly, chromatic_polynomial g = Some poly /\ length poly = S (gn g) /\
    forall k, exists l, NoDup l /\ (forall c, In c l <-> k_colouring g k c) /\
      eval_poly poly (Z.of_nat k) = Z.of_nat (length l).
Proof. exact chromatic_polynomial_correct. Qed.
Print Assumptions C09_chromatic_polynomial.

Example C09_chromatic_polynomial_nonvacuous :
  let g := of_edges 5 [(0,1); (1,2); (2,3); (3,4); (4,0); (0,2)]%nat in
  chromatic_polynomial g = Some [0; 6; -15; 14; -6; 1] /\
  map (eval_poly [0; 6; -15; 14; -6; 1]) [2; 3; 4] = [0; 18; 168].
Proof. vm_compute. split; reflexivity. Qed.

(* AllMaximalCliques (Bron-Kerbosch with pivoting and the swap-remove walk over P): for every
   simple graph the search does not panic or run out of fuel, everything it reports is a maximal
   clique, and every maximal clique s is reported exactly once ([count s L] is the number of
   entries of L that list the vertex set s). *)
Theorem C09_all_maximal_cliques : forall g, wf g ->
  exists L, all_maximal_cliques g = Some L /\
    (forall c, In c L -> maximal_clique g c) /\
    (forall s, maximal_clique g s -> count s L = 1%nat).
Proof. exact all_maximal_cliques_correct. Qed.
Print Assumptions C09_all_maximal_cliques.

(* CliqueNumber (the same search keeping the largest |R| reported) is the clique number, and
   IndependenceNumber (the same on the complement view) is the independence number. *)
Theorem C09_clique_number : forall g, wf g ->
  exists w, clique_number_bk g = Some w /\ clique_number g w.
Proof. exact clique_number_bk_correct. Qed.
Print Assumptions C09_clique_number.

Theorem C09_independence_number : forall g, wf g ->
  exists a, independence_number_bk g = Some a /\ independence_number g a.
Proof. exact independence_number_bk_correct. Qed.
Print Assumptions C09_independence_number.

Example C09_cliques_nonvacuous :
  let g := of_edges 6 [(0,1); (1,2); (2,0); (2,3); (3,4); (4,5); (5,3); (0,3)]%nat in
  all_maximal_cliques g = Some [[1; 0; 2]; [3; 0; 2]; [3; 5; 4]]%nat /\
  clique_number_bk g = Some 3%nat /\ independence_number_bk g = Some 2%nat.
Proof. vm_compute. repeat split. Qed.

(* ---- proved reference oracles: the model line of the correspondence for the values whose
   algorithms (Bron-Kerbosch with pivoting, DSATUR branch and bound) are not proved.  Each is an
   exhaustive search proved to return the value of the definition, for every simple graph. *)

(* maximal_cliques_ref lists every maximal clique exactly once (as an ascending list) *)
Theorem C09_maximal_cliques_ref : forall g,
  NoDup (maximal_cliques_ref g) /\
  forall s, In s (maximal_cliques_ref g) <-> StronglySorted lt s /\ maximal_clique g s.
Proof. exact maximal_cliques_ref_spec. Qed.
Print Assumptions C09_maximal_cliques_ref.

Theorem C09_clique_number_ref : forall g, clique_number g (clique_number_ref g).
Proof. exact clique_number_ref_spec. Qed.
Print Assumptions C09_clique_number_ref.

Theorem C09_independence_number_ref : forall g, wf g -> independence_number g (independence_number_ref g).
Proof. exact independence_number_ref_spec. Qed.
Print Assumptions C09_independence_number_ref.

Theorem C09_chromatic_number_ref : forall g, wf g -> chromatic_number g (chromatic_number_ref g).
Proof. exact chromatic_number_ref_spec. Qed.
Print Assumptions C09_chromatic_number_ref.

Theorem C09_k_colourable_ref : forall g k, wf g ->
  (k_colourable_ref g k = true <-> exists c, k_colouring g k c).
Proof. exact k_colourable_ref_spec. Qed.
Print Assumptions C09_k_colourable_ref.

(* the number of proper k-colourings: the length of a duplicate-free list holding exactly them *)
Theorem C09_count_colourings_ref : forall g k, wf g ->
  exists l, NoDup l /\ (forall c, In c l <-> k_colouring g k c) /\ count_colourings_ref g k = length l.
Proof. exact count_colourings_ref_spec. Qed.
Print Assumptions C09_count_colourings_ref.

(* edges g lists every edge once, and chromatic_index_ref is the least number of colours of a
   proper colouring of that list *)
Theorem C09_chromatic_index_ref : forall g,
  edge_list g (edges g) /\ chromatic_index (edges g) (chromatic_index_ref g).
Proof. intro g. split; [exact (edges_spec g)|exact (chromatic_index_ref_spec g)]. Qed.
Print Assumptions C09_chromatic_index_ref.

Example C09_ref_nonvacuous :
  let g := of_edges 5 [(0,1); (1,2); (2,3); (3,4); (4,0); (0,2)]%nat in
  maximal_cliques_ref g = [[0; 1; 2]; [0; 4]; [2; 3]; [3; 4]]%nat /\
  clique_number_ref g = 3%nat /\ independence_number_ref g = 2%nat /\ chromatic_number_ref g = 3%nat /\
  map (k_colourable_ref g) [0; 1; 2; 3; 4]%nat = [false; false; false; true; true] /\
  map (count_colourings_ref g) [2; 3; 4]%nat = [0; 18; 168]%nat /\
  chromatic_index_ref g = 3%nat.
Proof. vm_compute. repeat split. Qed.

(* Non-vacuity: the 5-cycle with a chord, an order on which first-fit needs 3 colours, a proper
   and an improper colouring. *)
Example C09_nonvacuous :
  let g := of_edges 5 [(0,1); (1,2); (2,3); (3,4); (4,0); (0,2)]%nat in
  wf g /\ is_order g [0; 3; 1; 4; 2]%nat /\
  greedy_color g [0; 3; 1; 4; 2]%nat = Some (2, [0; 1; 2; 0; 1]) /\
  is_proper_colouring g [0; 1; 2; 0; 1] = Some true /\
  is_proper_colouring g [0; 1; 0; 2; 1] = Some false /\
  is_proper_colouring g [0; 1; 2; 0] = Some false.
Proof.
  split; [apply of_edges_wf|]. split.
  - split; [|split; [reflexivity|]].
    + repeat constructor; simpl; intuition discriminate.
    + simpl. intros v H. repeat (destruct H as [<-|H]; [auto with arith|]). contradiction.
  - vm_compute. auto.
Qed.
