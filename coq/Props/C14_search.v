(* C14, second property file: Search on the decoded automaton.  Kept apart from Props/C14.v
   because it rests on the model of Search that belongs to C13 (Dawg/SearchModel.v). *)
From Coq Require Import List NArith ZArith.
From Mamba Require Import Dawg.Model Dawg.SearchModel Dawg.CodecModel Dawg.CodecWf Dawg.CodecIso
  Dawg.CodecRoundtrip Dawg.CodecSearchIso Dawg.CodecCheck.
Import ListNotations.
Local Open Scope N_scope.

(* For every well-formed automaton and any searchers (any implementation of the Searcher
   interface, any number of them): Search on GobDecode (GobEncode d) returns the same
   solutions with the same ranks, and leaves the searchers in the same states, as on d —
   for every fuel, so also the same panics and the same need of fuel. *)
Theorem C14_search_unchanged : forall (X : Type) (ops : searcher_ops X) s d t0, wf_dawg s d ->
  exists f0 b s2,
    (forall fuel, (f0 <= fuel)%nat -> gob_encode fuel s d = Ok b) /\
    gob_decode t0 b = DOk s2 /\
    forall fuel xs, search ops fuel s2 0 xs = search ops fuel s d xs.
Proof.
  intros X ops s d t0 Hwf.
  destruct (gob_roundtrip s d t0 Hwf) as [f0 [b [s2 [phi [Henc [Hdec [Hiso _]]]]]]].
  exists f0, b, s2. split; [exact Henc|]. split; [exact Hdec|].
  intros fuel xs. exact (iso_search ops s d s2 0 phi Hiso fuel xs).
Qed.
Print Assumptions C14_search_unchanged.

(* Non-vacuity: a pattern search with a blank on the decoded copy of the automaton of
   { a, ab, abc, b, bc } finds the two words of length 2 with their ranks. *)
Definition exs_store : store :=
  match new_dawg [[97]; [97; 98]; [97; 98; 99]; [98]; [98; 99]] with Ok (Some s) => s | _ => sempty end.

Definition fst_res {A B} (r : res (A * B)) : option A := match r with Ok p => Some (fst p) | _ => None end.

Example C14_search_nonvacuous :
  wf_checkb exs_store 0 [0; 1; 2; 3] [(0, 3%nat); (1, 2%nat); (2, 1%nat); (3, 0%nat)] = true /\
  match gob_encode 1000 exs_store 0 with
  | Ok b =>
    match gob_decode zero_node b with
    | DOk s2 =>
      fst_res (search_c 1000 s2 0 [SPattern (new_pattern_searcher [63; 99] 63)]) = Some [([98; 99], 4%Z)] /\
      fst_res (search_c 1000 s2 0 [SPattern (new_pattern_searcher [97; 63] 63)]) = Some [([97; 98], 1%Z)]
    | _ => False
    end
  | _ => False
  end.
Proof. split; [vm_compute; reflexivity|]. vm_compute. split; reflexivity. Qed.
