(* C16, last clause — Rank/Unrank agree with the order of itertools.CombinationsColex.
   This file contains only the property theorems, closed by [exact], and their assumptions.
   It reads the model of CombinationsColex and its enumeration theorem from the Iter area
   (Iter/Model.v, Iter/Colex.v: property C15, tied to /repo by C15's correspondence). *)
From Coq Require Import List ZArith Sorted.
From Mamba Require Import Gen.CombTables Comb.Model Comb.Spec Comb.RankProofs Comb.ColexEnum Comb.ColexIter.
From Mamba Require Iter.Model Iter.Enum.
Import ListNotations.
Open Scope Z_scope.

(* Any list that is strictly increasing in colex order and contains exactly the k-subsets of
   {0..n-1} (as increasing lists) has C(n,k) entries and its i-th entry is Unrank(i,k); for all n
   and k with C(n,k) - 1 <= MaxInt (every rank an int). *)
Theorem C16_colex_listing_is_unrank : forall n k l,
  Z.of_nat k <= maxInt -> binomz n (Z.of_nat k) <= maxInt + 1 ->
  StronglySorted colex_lt l -> (forall x, In x l <-> below n k x) ->
  Z.of_nat (length l) = binomz n (Z.of_nat k) /\
  forall i, (i < length l)%nat -> unrank (Z.of_nat i) (Z.of_nat k) = Ret (nth i l []).
Proof. exact colex_listing_is_unrank. Qed.
Print Assumptions C16_colex_listing_is_unrank.

(* The model of CombinationsColex(n,k), drained: exactly C(n,k) values, then exhaustion for
   ever, and the i-th value is Unrank(i,k). *)
Theorem C16_combinations_colex_is_unrank : forall n k, 0 <= n -> Z.of_nat k <= maxInt ->
  binomz n (Z.of_nat k) <= maxInt + 1 ->
  exists fuel l e,
    Iter.Enum.drain Iter.Model.colex_next Iter.Model.colex_value fuel (Iter.Model.colex_init n k) = Some (l, e) /\
    Iter.Enum.exhausted Iter.Model.colex_next e /\
    Z.of_nat (length l) = binomz n (Z.of_nat k) /\
    forall i, (i < length l)%nat -> unrank (Z.of_nat i) (Z.of_nat k) = Ret (nth i l []).
Proof. exact combinations_colex_is_unrank. Qed.
Print Assumptions C16_combinations_colex_is_unrank.

(* Non-vacuity: the 2-subsets of {0,1,2,3} in colex order; entry 4 is Unrank(4,2) = [1;3]. *)
Example C16_colex_nonvacuous :
  let l := [[0; 1]; [0; 2]; [1; 2]; [0; 3]; [1; 3]; [2; 3]] in
  Iter.Enum.drain Iter.Model.colex_next Iter.Model.colex_value 7 (Iter.Model.colex_init 4 2) =
    Some (l, snd (match Iter.Enum.drain Iter.Model.colex_next Iter.Model.colex_value 7 (Iter.Model.colex_init 4 2) with
                  | Some r => r | None => ([], Iter.Model.colex_init 4 2) end)) /\
  map (fun i => unrank i 2) [0; 1; 2; 3; 4; 5] = map Ret l /\
  binomz 4 2 = 6.
Proof. vm_compute. repeat split. Qed.
