(* C12, second property file (composition with C14's traversal theorem): the two things
   Props/C12.v left to the harness.

   1. Minimality through the library's own code path: numberOfNodes (the iterative traversal
      listNodesCountEdges with its sorted id slice and the push-before-seen-test loop, modelled
      array-level as [number_of_nodes] in Dawg/Model.v) returns on New(ws) exactly
      [minimal_size ws], the number of Myhill-Nerode classes (C12_minimal_size_is_myhill_nerode
      in Props/C12.v).  C12_minimal counted the keys reachable from the root; C14 proved that
      the traversal counts the reachable keys of any automaton in its domain [wf_dawg] and that
      built automata are in it; here the two are joined.
   2. The zero-value Builder: `var db Builder; db.Add(..)` calls Initialise on first use
      (db.d == nil); modelled in Dawg/ComposeZeroModel.v as [GZero]; it behaves as
      [initialise], so every C12 theorem about Add sequences holds for it.

   Kept apart from Props/C12.v because it rests on C14's files (Dawg/Codec*.v, read-only). *)
From Coq Require Import List NArith ZArith Bool.
From Mamba Require Import Dawg.Model Dawg.Spec Dawg.BuildIds Dawg.BuildSeq.
From Mamba Require Import Dawg.ComposeZeroModel Dawg.ComposeBuilder Dawg.ComposeNodes.
Import ListNotations.
Local Open Scope N_scope.

(* For every strictly increasing list of byte strings (letters < 256, fewer than 2^63 words,
   fewer than 2^64 - 1 letters in all: what Go's []byte, int and uint64 ids can hold):
   numberOfNodes on the automaton New returns never panics; for every fuel the model of its
   loop gives either out-of-fuel or [minimal_size ws], and from some fuel on [minimal_size ws]. *)
Theorem C12_number_of_nodes_minimal : forall ws s,
  increasing ws -> Forall (Forall (fun b => b < 256)) ws -> (Z.of_nat (length ws) < 2 ^ 63)%Z ->
  total_letters ws < 2 ^ 64 - 1 ->
  new_dawg ws = Ok (Some s) ->
  exists f0,
    (forall fuel, (f0 <= fuel)%nat -> number_of_nodes fuel s root = Ok (minimal_size ws)) /\
    (forall fuel, number_of_nodes fuel s root = Ok (minimal_size ws) \/
                  number_of_nodes fuel s root = NoFuel).
Proof. exact built_number_of_nodes. Qed.
Print Assumptions C12_number_of_nodes_minimal.

(* The same after any sequence of Add calls and Finish: the count is that of the minimal
   automaton of the accepted words. *)
Theorem C12_number_of_nodes_builder : forall args b oks s,
  add_seq initialise args = Ok (b, oks) -> finish b = Ok (Some s) ->
  Forall (Forall (fun c => c < 256)) (kept None args) ->
  (Z.of_nat (length (kept None args)) < 2 ^ 63)%Z ->
  total_letters (kept None args) < 2 ^ 64 - 1 ->
  exists f0,
    (forall fuel, (f0 <= fuel)%nat ->
       number_of_nodes fuel s root = Ok (minimal_size (kept None args))) /\
    (forall fuel, number_of_nodes fuel s root = Ok (minimal_size (kept None args)) \/
                  number_of_nodes fuel s root = NoFuel).
Proof. exact builder_number_of_nodes. Qed.
Print Assumptions C12_number_of_nodes_builder.

(* Non-vacuity: { "", a, ab, abc, b, bc, \255\000 } has 5 classes and the traversal says 5
   (with 40 turns of fuel; out of fuel with 5); the empty set and {""} have one node. *)
Definition exn_words : list word := [[]; [97]; [97; 98]; [97; 98; 99]; [98]; [98; 99]; [255; 0]].
Definition exn_store : store := match new_dawg exn_words with Ok (Some s) => s | _ => sempty end.

Example C12_number_of_nodes_nonvacuous :
  increasing exn_words /\ Forall (Forall (fun b => b < 256)) exn_words /\
  (Z.of_nat (length exn_words) < 2 ^ 63)%Z /\ total_letters exn_words < 2 ^ 64 - 1 /\
  new_dawg exn_words = Ok (Some exn_store) /\
  minimal_size exn_words = 5%nat /\
  number_of_nodes 40 exn_store root = Ok 5%nat /\
  number_of_nodes 5 exn_store root = NoFuel /\
  (exists s, new_dawg [] = Ok (Some s) /\ number_of_nodes 5 s root = Ok (minimal_size [])) /\
  (exists s, new_dawg [[]] = Ok (Some s) /\ number_of_nodes 5 s root = Ok (minimal_size [[]])).
Proof.
  split; [vm_compute; repeat split|]. split; [repeat constructor|].
  split; [vm_compute; reflexivity|]. split; [vm_compute; reflexivity|].
  split; [vm_compute; reflexivity|]. split; [vm_compute; reflexivity|].
  split; [vm_compute; reflexivity|]. split; [vm_compute; reflexivity|].
  split; eexists; (split; [vm_compute; reflexivity|]); vm_compute; reflexivity.
Qed.

(* ------------------------------------------------------------------ the zero-value Builder *)

(* Add and Finish on any Builder value are the model's add / finish behind the nil test;
   on the zero value they are add / finish of [initialise]. *)
Theorem C12_zero_builder_methods :
  g_ensure GZero = initialise /\
  (forall g w, g_add g w = do r <- add (g_ensure g) w; Ok (GInit (fst r), snd r)) /\
  (forall g, g_finish g = do r <- finish (g_ensure g); Ok (GInit (g_ensure g), r)).
Proof. exact (conj eq_refl (conj g_add_ensure g_finish_ensure)). Qed.
Print Assumptions C12_zero_builder_methods.

(* Hence the C12 statement about Add sequences for a fresh Builder (zero value, or any value
   after Initialise): any sequence of Add calls, no panic, a call is accepted exactly when its
   word is above the last accepted one, Finish succeeds and returns the automaton New builds
   from the accepted words alone, which are strictly increasing (so C12_language, C12_lookup,
   C12_minimal, ... apply to it). *)
Theorem C12_zero_builder_sequence : forall g0 ws, fresh g0 ->
  exists g s, g_add_seq g0 ws = Ok (g, accept_flags None ws) /\
              g_finish g = Ok (GInit (g_ensure g), Some s) /\
              new_dawg (kept None ws) = Ok (Some s) /\
              increasing (kept None ws).
Proof. exact fresh_builder_sequence. Qed.
Print Assumptions C12_zero_builder_sequence.

(* nothing is rejected from a strictly increasing list *)
Theorem C12_kept_of_increasing : forall ws, increasing ws -> kept None ws = ws.
Proof. exact kept_of_increasing. Qed.
Print Assumptions C12_kept_of_increasing.

(* Non-vacuity: Finish on the untouched zero value gives the one-node automaton of the empty
   set; Add(nil) twice on the zero value: accepted, then rejected (the corpus case of the
   harness); Initialise on a used builder makes it fresh again. *)
Example C12_zero_builder_nonvacuous :
  fresh GZero /\
  (exists s, g_finish GZero = Ok (GInit initialise, Some s) /\ new_dawg [] = Ok (Some s)) /\
  (exists g, g_add_seq GZero [[]; []] = Ok (g, [true; false])) /\
  (forall g, fresh (g_initialise g)).
Proof.
  split; [left; reflexivity|].
  split; [eexists; split; vm_compute; reflexivity|].
  split; [eexists; vm_compute; reflexivity|].
  intros g. right. exists g. reflexivity.
Qed.
