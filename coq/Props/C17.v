(* C17 — SortedInts implements finite-set algebra on its canonical representation.
   This file contains only the property theorems, closed by [exact], and their assumptions. *)
From Coq Require Import List ZArith.
From Mamba Require Import Sortints.Base Sortints.Model Sortints.Spec Sortints.Merge.
Import ListNotations.
Open Scope Z_scope.

(* A strictly increasing list is determined by its elements: "the strictly increasing slice
   representing the mathematical result" is unique, so the statements below fix the result. *)
Theorem C17_canonical_unique : forall l1 l2, SInc l1 -> SInc l2 ->
  (forall x, In x l1 <-> In x l2) -> l1 = l2.
Proof. exact SInc_unique. Qed.
Print Assumptions C17_canonical_unique.

Theorem C17_union : forall a b, SInc a -> SInc b ->
  exists r, union a b = Ret r /\ SInc r /\ forall z, In z r <-> In z a \/ In z b.
Proof. exact union_spec. Qed.
Print Assumptions C17_union.

Example C17_union_nonvacuous :
  SInc [-3; 1; 5] /\ SInc [1; 2; 9] /\ union [-3; 1; 5] [1; 2; 9] = Ret [-3; 1; 2; 5; 9].
Proof.
  split; [|split; [|vm_compute; reflexivity]];
  repeat (apply SInc_cons; [|simpl; intros y Hy; repeat (destruct Hy as [<-|Hy]; [reflexivity|]); destruct Hy]);
  apply SInc_nil.
Qed.
