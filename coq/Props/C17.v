(* C17 — SortedInts implements finite-set algebra on its canonical representation.
   This file contains only the property theorems, closed by [exact], and their assumptions.

   Reading guide.  [SInc l] = l increases strictly (StronglySorted Z.lt).  A SortedInts value is
   the list of its elements; the receiver of a mutator is [sl] = (backing array up to its
   capacity, length) with [view] = the elements and [wf] = "the length fits the array and the
   view increases strictly".  [res] = Ret value | Panic | OutOfFuel: every theorem excludes
   OutOfFuel and states exactly when the call panics.  By [C17_canonical_unique] a statement
   "the result is strictly increasing and has exactly these elements" fixes the result. *)
From Coq Require Import List ZArith.
From Mamba Require Import Sortints.Base Sortints.Model Sortints.Spec Sortints.Merge
  Sortints.Simple Sortints.UnionM Sortints.Add Sortints.History
  IntSort.Model IntSort.Perm IntSort.Sorted IntSort.Heap IntSort.Pivot IntSort.Quick.
From Coq Require Import Sorting.Permutation.
Import ListNotations.
Open Scope Z_scope.

Theorem C17_canonical_unique : forall l1 l2, SInc l1 -> SInc l2 ->
  (forall x, In x l1 <-> In x l2) -> l1 = l2.
Proof. exact SInc_unique. Qed.
Print Assumptions C17_canonical_unique.

Example C17_canonical_unique_nonvacuous :
  SInc [-1; 4; 9] /\ ~ SInc [4; 4] /\ (forall x, In x [4; 4] <-> In x [4]).
Proof.
  split; [sinc|]. split.
  - intros H. apply SInc_inv in H. destruct H as [_ H]. specialize (H 4 (or_introl eq_refl)). discriminate H.
  - intros x. simpl. tauto.
Qed.

(* ---------------------------------------------------------------- NewSortedInts *)
Theorem C17_new_sorted_ints : forall xs,
  exists r, new_sorted_ints xs = Ret r /\ SInc r /\ forall z, In z r <-> In z xs.
Proof. exact new_sorted_ints_set. Qed.
Print Assumptions C17_new_sorted_ints.

Example C17_new_sorted_ints_nonvacuous : new_sorted_ints [5; -2; 5; 3; -2; 9; 3] = Ret [-2; 3; 5; 9].
Proof. vm_compute. reflexivity. Qed.

(* ---------------------------------------------------------------- Add *)
(* every argument list: unsorted, with repeats, with elements already present; never panics *)
Theorem C17_add : forall s xs, SInc s ->
  exists r, add s xs = Ret r /\ SInc r /\ forall z, In z r <-> In z s \/ In z xs.
Proof. exact add_spec. Qed.
Print Assumptions C17_add.

Example C17_add_nonvacuous : SInc [-2; 3; 4] /\ add [-2; 3; 4] [-2; -2; 5; 4; 0; 5] = Ret [-2; 0; 3; 4; 5].
Proof. split; [sinc|vm_compute; reflexivity]. Qed.

(* ---------------------------------------------------------------- Remove *)
Theorem C17_remove : forall s x, wf s ->
  wf (remove_m s x) /\
  (forall z, In z (view (remove_m s x)) <-> In z (view s) /\ z <> x) /\
  length (fst (remove_m s x)) = length (fst s) /\
  skipn (snd s) (fst (remove_m s x)) = skipn (snd s) (fst s).
Proof. exact remove_m_spec. Qed.
Print Assumptions C17_remove.

Example C17_remove_nonvacuous :
  wf ([1; 4; 6; 77; 78], 3%nat) /\ remove_m ([1; 4; 6; 77; 78], 3%nat) 4 = ([1; 6; 6; 77; 78], 2%nat).
Proof. split; [split; [simpl; auto with arith|unfold view; simpl; sinc]|vm_compute; reflexivity]. Qed.

(* ---------------------------------------------------------------- the Union method *)
(* Both capacity branches return the same view, [union_loop (view s) b], which by [C17_union]
   below is the strictly increasing list of the union.  When the capacity suffices the merge
   happens inside the receiver's array: it keeps its length and all cells from the new length on. *)
Theorem C17_union_method : forall s b, wf s -> SInc b ->
  let r := union_loop (view s) b in
  exists s', union_m s b = Ret s' /\ wf s' /\ view s' = r /\ snd s' = length r /\
    (if (length r <=? length (fst s))%nat
     then length (fst s') = length (fst s) /\ skipn (length r) (fst s') = skipn (length r) (fst s)
     else fst s' = r).
Proof. exact union_m_spec. Qed.
Print Assumptions C17_union_method.

Theorem C17_union_method_elements : forall a b, SInc a -> SInc b ->
  SInc (union_loop a b) /\ forall z, In z (union_loop a b) <-> In z a \/ In z b.
Proof. exact (fun a b Ha Hb => conj (union_SInc a b Ha Hb) (union_In a b)). Qed.
Print Assumptions C17_union_method_elements.

Example C17_union_method_nonvacuous :
  wf ([1; 5; 88; 89; 90], 2%nat) /\ SInc [0; 5; 7] /\
  union_m ([1; 5; 88; 89; 90], 2%nat) [0; 5; 7] = Ret ([0; 1; 5; 7; 90], 4%nat) /\
  union_m ([1; 5; 88], 2%nat) [0; 5; 7] = Ret ([0; 1; 5; 7], 4%nat).
Proof.
  split; [split; [simpl; auto with arith|unfold view; simpl; sinc]|].
  split; [sinc|]. split; vm_compute; reflexivity.
Qed.

(* ---------------------------------------------------------------- sequences of mutations *)
(* [mrun] runs Add / Remove / the Union method one after the other on one backing array.
   [mop_ok]: the argument of the Union method is strictly increasing.  [hist_sem ops S] folds the
   set operations (S ∪ xs, S \ {x}, S ∪ b) over the initial set S. *)
Theorem C17_history : forall ops s, wf s -> Forall mop_ok ops ->
  exists s', mrun s ops = Ret s' /\ wf s' /\
             forall z, In z (view s') <-> hist_sem ops (fun y => In y (view s)) z.
Proof. exact mrun_spec. Qed.
Print Assumptions C17_history.

Example C17_history_nonvacuous :
  wf ([1; 5; 88; 89], 2%nat) /\ Forall mop_ok [MUnion [0; 5]; MRemove 1; MAdd [9; 0; 9]; MUnion [2]] /\
  mrun ([1; 5; 88; 89], 2%nat) [MUnion [0; 5]; MRemove 1; MAdd [9; 0; 9]; MUnion [2]] = Ret ([0; 2; 5; 9], 4%nat).
Proof.
  split; [split; [simpl; auto with arith|unfold view; simpl; sinc]|].
  split; [repeat constructor; simpl; sinc|vm_compute; reflexivity].
Qed.

(* ---------------------------------------------------------------- which cells the mutators touch *)
(* Remove writes only the cells from the position of x up to (not including) the old last cell of
   the receiver's own array (its length is kept by [C17_remove]).  Add builds its value in a fresh
   array without spare capacity.  For the Union method see [C17_union_method] (in place: only cells
   below the new length change).  The arguments b / xs are separate values that the models never
   write: there is no write to them in [um_loop], [add_back], [remove_m]. *)
Theorem C17_remove_frame : forall s x, wf s ->
  let i := search_ints (view s) x in
  firstn i (fst (remove_m s x)) = firstn i (fst s) /\
  skipn (snd s - 1) (fst (remove_m s x)) = skipn (snd s - 1) (fst s).
Proof. exact remove_m_frame. Qed.
Print Assumptions C17_remove_frame.

Theorem C17_add_fresh : forall s xs s', add_m s xs = Ret s' ->
  fst s' = view s' /\ snd s' = length (fst s').
Proof. exact add_m_fresh. Qed.
Print Assumptions C17_add_fresh.

Example C17_frames_nonvacuous :
  remove_m ([1; 4; 6; 9; 77; 78], 4%nat) 4 = ([1; 6; 9; 9; 77; 78], 3%nat) /\
  add_m ([1; 4; 6; 77; 78], 3%nat) [5; 4] = Ret ([1; 4; 5; 6], 4%nat).
Proof. split; vm_compute; reflexivity. Qed.

(* ---------------------------------------------------------------- the binary functions *)
Theorem C17_union : forall a b, SInc a -> SInc b ->
  exists r, union a b = Ret r /\ SInc r /\ forall z, In z r <-> In z a \/ In z b.
Proof. exact union_spec. Qed.
Print Assumptions C17_union.

Example C17_union_nonvacuous :
  SInc [-3; 1; 5] /\ SInc [1; 2; 9] /\ union [-3; 1; 5] [1; 2; 9] = Ret [-3; 1; 2; 5; 9].
Proof. split; [sinc|split; [sinc|vm_compute; reflexivity]]. Qed.

Theorem C17_intersection : forall a b, SInc a -> SInc b ->
  exists r, intersection a b = Ret r /\ SInc r /\ forall z, In z r <-> In z a /\ In z b.
Proof. exact intersection_spec. Qed.
Print Assumptions C17_intersection.

Example C17_intersection_nonvacuous : intersection [-3; 1; 5; 9] [1; 2; 9] = Ret [1; 9].
Proof. vm_compute. reflexivity. Qed.

(* the size is the length of a duplicate-free list of the common elements *)
Theorem C17_intersection_size : forall a b, SInc a -> SInc b ->
  exists r, isize a b = length r /\ NoDup r /\ forall z, In z r <-> In z a /\ In z b.
Proof. exact isize_spec. Qed.
Print Assumptions C17_intersection_size.

Example C17_intersection_size_nonvacuous : isize [-3; 1; 5; 9] [1; 2; 9] = 2%nat.
Proof. vm_compute. reflexivity. Qed.

Theorem C17_set_minus : forall a b, SInc a -> SInc b ->
  exists r, set_minus a b = Ret r /\ SInc r /\ forall z, In z r <-> In z a /\ ~ In z b.
Proof. exact set_minus_spec. Qed.
Print Assumptions C17_set_minus.

Example C17_set_minus_nonvacuous : set_minus [-3; 1; 5; 9] [1; 2; 9] = Ret [-3; 5].
Proof. vm_compute. reflexivity. Qed.

Theorem C17_xor : forall a b, SInc a -> SInc b ->
  exists r, xor a b = Ret r /\ SInc r /\
    forall z, In z r <-> (In z a /\ ~ In z b) \/ (In z b /\ ~ In z a).
Proof. exact xor_spec. Qed.
Print Assumptions C17_xor.

Example C17_xor_nonvacuous : xor [-3; 1; 5; 9] [1; 2; 9; 11] = Ret [-3; 2; 5; 11].
Proof. vm_compute. reflexivity. Qed.

(* ---------------------------------------------------------------- Complement *)
(* every n (also n <= 0) and every strictly increasing a (elements may lie outside 0..n-1, a may
   be longer than n): no panic, the result is {0..n-1} \ a *)
Theorem C17_complement : forall n a, SInc a ->
  exists r, complement n a = Ret r /\ SInc r /\ forall z, In z r <-> (0 <= z < n /\ ~ In z a).
Proof. exact complement_spec. Qed.
Print Assumptions C17_complement.

Example C17_complement_nonvacuous :
  complement 6 [-1; 2; 3; 8] = Ret [0; 1; 4; 5] /\ complement 2 [5; 6; 7] = Ret [0; 1] /\
  complement 0 [-3; 0] = Ret [] /\ complement (-4) [1] = Ret [].
Proof. repeat split; vm_compute; reflexivity. Qed.

(* ---------------------------------------------------------------- ContainsSingle / ContainsSorted *)
Theorem C17_contains_single : forall a x, SInc a -> (contains_single a x = true <-> In x a).
Proof. exact contains_single_spec. Qed.
Print Assumptions C17_contains_single.

Example C17_contains_single_nonvacuous :
  contains_single [-3; 1; 5] 5 = true /\ contains_single [-3; 1; 5] 2 = false.
Proof. split; vm_compute; reflexivity. Qed.

Theorem C17_contains_sorted : forall a b, SInc a -> SInc b ->
  (contains_sorted a b = true <-> forall z, In z b -> In z a).
Proof. exact contains_sorted_spec. Qed.
Print Assumptions C17_contains_sorted.

Example C17_contains_sorted_nonvacuous :
  contains_sorted [-3; 1; 5; 7] [1; 7] = true /\ contains_sorted [-3; 1; 5; 7] [1; 6] = false.
Proof. split; vm_compute; reflexivity. Qed.

(* ---------------------------------------------------------------- Range *)
(* The model follows the code's uint64 arithmetic ([u64] = wrap-around, [s64] = int(x)); the
   theorem is about ALL int64 arguments ([int64 x] = MinInt <= x <= MaxInt), so it says that no
   wrap-around ever shows in the result.
   [range_infinite start e step] = (e < start /\ step > 0) \/ (e > start /\ step < 0) \/
   (e <> start /\ step = 0): exactly the condition of panic("Infinite set").
   [range_count] = the number of elements, (|e - start| - 1) / |step| + 1: when it exceeds MaxInt,
   make([]int, count) panics (len out of range) - the only other non-Ret outcome.  (A count below
   MaxInt that does not fit into memory is outside the model: sizes are assumed to fit.)
   [in_range start e step z] = z = start + k*step for some k >= 0 and z lies in [start, e)
   (when start <= e) resp. in (e, start] (when e < start). *)
Theorem C17_range : forall start e step, int64 start -> int64 e -> int64 step ->
  (range_infinite start e step -> range start e step = Panic) /\
  (~ range_infinite start e step -> range_count start e step > max_int -> range start e step = Panic) /\
  (~ range_infinite start e step -> range_count start e step <= max_int ->
     exists r, range start e step = Ret r /\ SInc r /\ forall z, In z r <-> in_range start e step z).
Proof. exact range_spec. Qed.
Print Assumptions C17_range.

Example C17_range_nonvacuous :
  range 2 11 3 = Ret [2; 5; 8] /\ range 5 0 (-2) = Ret [1; 3; 5] /\ range 5 0 1 = Panic /\
  range (max_int - 5) max_int 10 = Ret [max_int - 5] /\
  range max_int (max_int - 3) (-1) = Ret [max_int - 2; max_int - 1; max_int] /\
  range 0 min_int min_int = Ret [0] /\
  range min_int max_int 4611686018427387904 = Ret [min_int; -4611686018427387904; 0; 4611686018427387904] /\
  range min_int max_int 1 = Panic /\
  int64 min_int /\ int64 max_int /\ ~ range_infinite 5 0 (-2).
Proof.
  repeat (split; [vm_compute; reflexivity|]).
  split; [unfold int64, min_int, max_int; split; discriminate|].
  split; [unfold int64, min_int, max_int; split; discriminate|].
  unfold range_infinite. intros [[? ?]|[[? ?]|[? ?]]]; discriminate || (compute in *; discriminate).
Qed.

(* ---------------------------------------------------------------- ints.Sort *)
(* "ints.Sort orders any slice like the standard library": [isort] is the model of sort.Ints
   (the weakly increasing permutation of its argument, see [C17_sort_Ints_model]).  The theorem
   holds for every input: the model never panics, never runs out of the fuel it passes itself
   (len d), whichever of insertionSort, quickSort/doPivot, heapSort it goes through. *)
Theorem C17_sort : forall d, sort d = Ret (isort d).
Proof. exact sort_ok. Qed.
Print Assumptions C17_sort.

Theorem C17_sort_Ints_model : forall d, Inc (isort d) /\ Permutation d (isort d).
Proof. exact (fun d => conj (isort_Inc d) (isort_perm d)). Qed.
Print Assumptions C17_sort_Ints_model.

Example C17_sort_nonvacuous :
  sort [5; -2; 9; 5; 0; 7; 7; 1] = Ret [-2; 0; 1; 5; 5; 7; 7; 9] /\
  sort [20; 19; 18; 17; 16; 15; 14; 13; 12; 11; 10; 9; 8; 7; 6; 5; 4; 3; 2; 1; 0] =
  Ret [0; 1; 2; 3; 4; 5; 6; 7; 8; 9; 10; 11; 12; 13; 14; 15; 16; 17; 18; 19; 20].
Proof. split; vm_compute; reflexivity. Qed.

(* The pieces.  [get d i] = data[i]; [sorted_seg d a b] = data[a..b-1] is weakly increasing;
   [same_out d d' a b] = every cell outside a..b-1 is unchanged. *)
Theorem C17_sort_permutation : forall d d', sort d = Ret d' -> Permutation d d'.
Proof. exact sort_perm. Qed.
Print Assumptions C17_sort_permutation.

Theorem C17_quick_sort : forall fuel d a b depth,
  0 <= a <= b -> b <= len d -> (Z.to_nat (b - a) <= fuel)%nat ->
  exists d', quick_sort fuel d a b depth = Ret d' /\ len d' = len d /\
             sorted_seg d' a b /\ same_out d d' a b.
Proof. exact quick_sort_ok. Qed.
Print Assumptions C17_quick_sort.

Theorem C17_do_pivot : forall d lo hi, 0 <= lo -> hi <= len d -> hi - lo > 12 ->
  exists d' mlo mhi pv, do_pivot d lo hi = Ret (d', mlo, mhi) /\
    len d' = len d /\ same_out d d' lo hi /\ lo <= mlo < mhi /\ mhi <= hi /\
    (forall k, lo <= k < mlo -> get d' k <= pv) /\
    (forall k, mlo <= k < mhi -> get d' k = pv) /\
    (forall k, mhi <= k < hi -> pv <= get d' k).
Proof. exact do_pivot_ok. Qed.
Print Assumptions C17_do_pivot.

Theorem C17_insertion_sort : forall d a b, 0 <= a <= b -> b <= len d ->
  exists d', insertion_sort d a b = Ret d' /\ len d' = len d /\
             sorted_seg d' a b /\ same_out d d' a b.
Proof. exact insertion_sort_ok. Qed.
Print Assumptions C17_insertion_sort.

Theorem C17_heap_sort : forall d a b, 0 <= a <= b -> b <= len d ->
  exists d', heap_sort d a b = Ret d' /\ len d' = len d /\
             sorted_seg d' a b /\ same_out d d' a b.
Proof. exact heap_sort_ok. Qed.
Print Assumptions C17_heap_sort.

Example C17_quick_sort_nonvacuous :
  quick_sort 14 [8; 3; 11; 3; 7; 1; 9; 2; 12; 6; 4; 10; 5; 0] 0 14 8 =
    Ret [0; 1; 2; 3; 3; 4; 5; 6; 7; 8; 9; 10; 11; 12] /\
  quick_sort 14 [8; 3; 11; 3; 7; 1; 9; 2; 12; 6; 4; 10; 5; 0] 0 14 0 =
    Ret [0; 1; 2; 3; 3; 4; 5; 6; 7; 8; 9; 10; 11; 12].
Proof. split; vm_compute; reflexivity. Qed.

Example C17_sort_pieces_nonvacuous :
  heap_sort [99; 5; -2; 9; 5; 0; 7; -50] 1 7 = Ret [99; -2; 0; 5; 5; 7; 9; -50] /\
  insertion_sort [99; 5; -2; 9; 5; 0; 7; -50] 1 7 = Ret [99; -2; 0; 5; 5; 7; 9; -50] /\
  do_pivot [8; 3; 11; 3; 7; 1; 9; 2; 12; 6; 4; 10; 5; 0] 0 14 =
    Ret ([1; 0; 2; 3; 7; 11; 9; 3; 12; 6; 4; 10; 5; 8], 2, 3).
Proof. split; [|split]; vm_compute; reflexivity. Qed.
