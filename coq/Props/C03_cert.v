(* C03, completeness certificate (mathcomp).  A labelled graph on n vertices is a set of
   edges E : {set {set 'I_n}}; [is_graph E]: every edge has exactly two ends;
   [relabel E s] = the image of E under the vertex permutation s;
   [iso E F] = some relabelling of E equals F;
   [aut_count E] = the number of permutations s with relabel E s = E.
   (Definitions: Search/Cert.v, 4 lines.) *)
From mathcomp Require Import all_ssreflect fingroup perm.
From Mamba Require Import Search.Cert.

(* If Y is a list of graphs on n vertices that are pairwise non-isomorphic and
       sum_{g in Y} n! / |Aut g| = 2^(n(n-1)/2)
   then every graph on n vertices is isomorphic to exactly one entry of Y.
   The harness evaluates exactly these hypotheses on the output of search.All for every n it
   explores (|Aut g| by backtracking over all permutations, non-isomorphism by a brute-force
   canonical form), so completeness of the explored outputs rests on this theorem and not on
   published counts. *)
Theorem C03_certificate : forall (n : nat) (Y : seq (lgraph n)),
  all (@is_graph n) Y ->
  pairwise (fun g h => ~~ iso g h) Y ->
  (\sum_(g <- Y) n`! %/ aut_count g = 2 ^ 'C(n, 2))%N ->
  forall x, is_graph x -> count (fun g => iso g x) Y = 1%N.
Proof. exact certificate. Qed.
Print Assumptions C03_certificate.

(* isomorphism is an equivalence on graphs, and the class of E has n!/|Aut E| members
   (orbit-stabiliser): the two facts behind the sum *)
Theorem C03_iso_equivalence : forall (n : nat) (E F H : lgraph n),
  iso E E /\ (iso E F = iso F E) /\ (iso E F -> iso F H -> iso E H) /\
  (is_graph E -> iso E F -> is_graph F).
Proof. exact iso_equivalence. Qed.
Print Assumptions C03_iso_equivalence.

Theorem C03_class_size : forall (n : nat) (E : lgraph n),
  #|[set F | iso E F]| = n`! %/ aut_count E.
Proof. exact class_card. Qed.
Print Assumptions C03_class_size.

(* Non-vacuity (n = 2: the empty and the complete graph; 2!/2 + 2!/2 = 2^1). *)
Example C03_certificate_nonvacuous :
  let Y := [:: empty_graph 2; complete_graph 2] in
  [/\ all (@is_graph 2) Y, pairwise (fun g h => ~~ iso g h) Y
    & (\sum_(g <- Y) 2`! %/ aut_count g = 2 ^ 'C(2, 2))%N].
Proof. exact certificate_example. Qed.
