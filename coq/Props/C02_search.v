(* C02 (search) — generators and orbits returned by the pruned search of
   CanonicalIsomorphAllocated, as modelled in Canon/SearchModel.v (canon_search; tied to the code by
   the correspondence stream "search" of C01 on exact outputs).  Only the property theorems, closed
   by [exact], and their assumptions.

   Named _partial relative to C02: for EVERY simple graph, every admissible vertex classes and
   every fuel, every returned generator is a class-preserving automorphism, and the returned array
   is a well-formed union-find forest whose classes are EXACTLY the orbits of the group generated
   by the returned generators; hence every returned orbit lies inside an orbit of Aut(g, classes)
   (soundness).  MISSING for the full property: completeness — that the returned generators
   generate the whole of Aut(g, classes), i.e. that no automorphism is lost by the pruning
   (the McKay-Piperno theorem); and the storage-reuse statement.  Those remain explored (C02).
   The model follows the code after commit a4bdb37; it never returns Panic and, from the fuel search_fuel n
   on, always returns (C02_search_returns_partial), so the statements below are not vacuous for any input. *)
From Coq Require Import List Arith ZArith.
From Mamba Require Import Disjoint.Model Disjoint.Proofs.
From Mamba Require Import Canon.AutBase Canon.Aut Canon.Group Canon.Orbit.
From Mamba Require Import Canon.Iso Canon.SearchModel Canon.SearchInit Canon.SearchProofs Canon.SearchAut Canon.SearchTotal.
Import ListNotations.
Open Scope nat_scope.

(* class of a vertex: the index of its vertex class (everything in class 0 without classes) *)
Definition class_of (g : graph) (cls : option (list (list nat))) : nat -> nat :=
  in_cell (init_cells (length g) cls).

(* Every generator returned is an automorphism of g preserving the vertex classes: it is recorded
   only when the certificate of the current leaf equals the one of the best (or first) leaf, and
   equal certificates of two leaves mean equal relabelled graphs. *)
Theorem C02_search_generators_are_automorphisms_partial :
  forall (g : graph) (cls : option (list (list nat))) fuel p o gs,
    simple g -> cls_ok (length g) cls ->
    canon_search fuel g cls = Ok (p, o, gs) ->
    Forall (Aut (length g) (adjb g) (class_of g cls)) gs.
Proof. intros g cls fuel p o gs Hg Hc H. exact (search_gens_aut g cls Hg Hc fuel p o gs H). Qed.
Print Assumptions C02_search_generators_are_automorphisms_partial.

(* The returned array is a forest of length n and two vertices have the same root exactly when
   some product of the returned generators and their inverses maps one to the other: nothing
   else is ever merged, and every cycle of every recorded generator is. *)
Theorem C02_search_orbits_are_generator_orbits_partial :
  forall (g : graph) (cls : option (list (list nat))) fuel p o gs,
    simple g -> cls_ok (length g) cls ->
    canon_search fuel g cls = Ok (p, o, gs) ->
    length o = length g /\ WF o /\
    forall x y, x < length g -> y < length g -> (same o x y <-> orbit (length g) gs x y).
Proof. intros g cls fuel p o gs Hg Hc H. exact (search_orbits g cls Hg Hc fuel p o gs H). Qed.
Print Assumptions C02_search_orbits_are_generator_orbits_partial.

(* Soundness half of C02: two vertices in the same returned orbit are mapped to one another by a
   class-preserving automorphism of g. *)
Theorem C02_search_orbits_sound_partial :
  forall (g : graph) (cls : option (list (list nat))) fuel p o gs,
    simple g -> cls_ok (length g) cls ->
    canon_search fuel g cls = Ok (p, o, gs) ->
    forall x y, x < length g -> y < length g -> same o x y ->
      exists a, Aut (length g) (adjb g) (class_of g cls) a /\ app a x = y.
Proof. intros g cls fuel p o gs Hg Hc H. exact (search_orbits_sound g cls Hg Hc fuel p o gs H). Qed.
Print Assumptions C02_search_orbits_sound_partial.

(* In the terms of the checker of Props/C02.v: the label vector of the returned array is the one
   orbits_of computes from the returned generators. *)
Theorem C02_search_labels_partial :
  forall (g : graph) (cls : option (list (list nat))) fuel p o gs sr,
    simple g -> cls_ok (length g) cls ->
    canon_search fuel g cls = Ok (p, o, gs) -> labels_of_ds o = Some sr ->
    orbits_of (length g) gs = Some sr.
Proof.
  intros g cls fuel p o gs sr Hg Hc H HL.
  destruct (search_orbits g cls Hg Hc fuel p o gs H) as (L & _ & HO).
  apply (labels_eq_iff_orbits (length g) gs o sr); [|exact L|exact HL|exact HO].
  pose proof (search_gens_aut g cls Hg Hc fuel p o gs H) as HA.
  eapply Forall_impl; [|exact HA]. intros a [Ha _]. exact Ha.
Qed.
Print Assumptions C02_search_labels_partial.

(* The model never panics and returns with enough fuel, for every simple graph and admissible vertex classes. *)
Theorem C02_search_returns_partial :
  forall (g : graph) (cls : option (list (list nat))) fuel,
    simple g -> cls_ok (length g) cls ->
    canon_search fuel g cls <> Panic /\
    (search_fuel (length g) <= fuel -> exists r, canon_search fuel g cls = Ok r).
Proof.
  intros g cls fuel Hg Hc. split; [exact (canon_search_total g cls Hg Hc fuel)|exact (canon_search_returns g cls Hg Hc fuel)].
Qed.
Print Assumptions C02_search_returns_partial.

(* Non-vacuity: the 6-cycle with the classes {0,3} | {1,2,4,5}: two generators, both automorphisms,
   orbits {0,3} and {1,2,4,5}. *)
Example C02_search_nonvacuous :
  let c6 := [[false;true;false;false;false;true];[true;false;true;false;false;false];
             [false;true;false;true;false;false];[false;false;true;false;true;false];
             [false;false;false;true;false;true];[true;false;false;false;true;false]] in
  let cls := Some [[0;3];[1;2;4;5]] in
  simpleb c6 = true /\
  canon_search 100 c6 cls =
    Ok ([3; 0; 4; 2; 5; 1], [3; 4; 4; -2; -3; 4]%Z, [[0; 5; 4; 3; 2; 1]; [3; 2; 1; 0; 5; 4]]) /\
  forallb (is_automorphism 6 (adjb c6) (class_of c6 cls)) [[0; 5; 4; 3; 2; 1]; [3; 2; 1; 0; 5; 4]] = true /\
  labels_of_ds [3; 4; 4; -2; -3; 4]%Z = Some [0; 1; 1; 0; 1; 1] /\
  orbits_of 6 [[0; 5; 4; 3; 2; 1]; [3; 2; 1; 0; 5; 4]] = Some [0; 1; 1; 0; 1; 1].
Proof. vm_compute. repeat split. Qed.
