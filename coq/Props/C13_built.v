(* C13 composed with C12: Search on every Dawg that dawg.New or a Builder can build, with no
   hypothesis left on the Dawg, on the success of New, or on the searcher objects.
   This file contains only property theorems closed by [exact], their assumptions and
   non-vacuity examples.  (Props/C13.v states the search theorems for any well-formed Dawg,
   [dawg_wf s d t]; here that hypothesis is discharged by C12's builder theorems.)

   Vocabulary:
   * [increasing ws] (Dawg/Spec.v): ws strictly increasing in bytes.Compare order ([], [""] too).
   * [new_dawg ws] (Dawg/Model.v): dawg.New; [Ok (Some s)] = the store whose key [root] is the
     automaton; [Ok None] = error return; [Panic]; [NoFuel].
   * [sspec] = [SpecP pattern blank | SpecA anagram blank]; [new_searchers] runs the
     constructors NewPatternSearcher / NewAnagramSearcher as written; [search_c] is Search on
     these searcher objects; [s_equiv] the observational equality of searcher states of
     Props/C13.v (C13_contract_pattern_anagram).
   * [spec_matchesb] (Dawg/ComposeSearch.v): [matches_pattern] / [matches_anagramb], the
     executable matching rules of Dawg/SearchSpec.v; [spec_matches] their Prop reading
     (anagram: w is a rearrangement of the anagram with each blank replaced by a letter);
     [number 0 ws] = ws paired with 0, 1, 2, ...
   * [trie_of ws] (Dawg/ComposeTrie.v): the words added one by one to the one-node tree.
   * [gbuilder], [GZero], [g_add_seq], [g_finish], [fresh] (Dawg/ComposeZeroModel.v,
     ComposeBuilder.v): a Go Builder value that may be the zero value (Add/Finish call
     Initialise when d == nil); fresh = zero value or just initialised.
   * [kept None args], [accept_flags None args] (Dawg/BuildSeq.v): the words of an arbitrary
     Add sequence that are above the last accepted one, and the accept/reject flags. *)
From Coq Require Import List NArith ZArith Bool Sorted.
From Mamba Require Import Dawg.Model Dawg.Tree Dawg.Spec Dawg.BuildSeq.
From Mamba Require Import Dawg.SearchModel Dawg.SearchSpec Dawg.SearchConcrete Dawg.SearchWf Dawg.SearchMain.
From Mamba Require Import Dawg.ComposeTrie Dawg.ComposeZeroModel Dawg.ComposeBuilder Dawg.ComposeSearch.
Import ListNotations.

(* The bridge: for every strictly increasing word list, the store New returns unfolds to the
   explicit tree [trie_of ws]; it is well-formed in the sense of C13 (finite unfolding, numWords
   = size of the right language at every node, labels strictly increasing at every node),
   every link leads to a word, and its language in link order is ws. *)
Theorem C13_built_wellformed : forall ws s, increasing ws -> new_dawg ws = Ok (Some s) ->
  dawg_wf s root (trie_of ws) /\ trimmed (trie_of ws) /\ tlang (trie_of ws) = ws.
Proof. exact built_dawg_wf. Qed.
Print Assumptions C13_built_wellformed.

(* The property, end to end, for dawg.New.  For every strictly increasing word list ws, every
   list of pattern/anagram descriptions and every fuel >= 2 * (total length of the words) + 1:
   New succeeds, the constructors succeed, Search returns exactly the list
       [(w, position of w in ws) | w <- ws, every description matches w]
   in the order of ws (no panic, fuel suffices), Search run again with the searcher objects
   as the first run left them returns the same list, and after each run the searchers are
   observationally equal to the freshly constructed ones. *)
Theorem C13_search_new : forall ws, increasing ws ->
  forall sps fuel, (2 * total_length ws + 1 <= fuel)%nat ->
  exists s xs xs1 xs2,
    new_dawg ws = Ok (Some s) /\
    new_searchers sps = Ok xs /\
    search_c fuel s root xs =
      Ok (filter (fun p => forallb (fun sp => spec_matchesb sp (fst p)) sps) (number 0 ws), xs1) /\
    search_c fuel s root xs1 =
      Ok (filter (fun p => forallb (fun sp => spec_matchesb sp (fst p)) sps) (number 0 ws), xs2) /\
    Forall2 s_equiv xs1 xs /\ Forall2 s_equiv xs2 xs.
Proof. exact search_new_exact. Qed.
Print Assumptions C13_search_new.

(* What that list is: its words are the matching words of ws in the order of ws -- strictly
   increasing lexicographically, so each once --, and (w, r) is in it exactly when w is a word
   of ws that every pattern/anagram matches and r is the rank of w in ws. *)
Theorem C13_search_result_meaning : forall sps ws, increasing ws ->
  map fst (search_result sps ws) = filter (all_match sps) ws /\
  StronglySorted lex_lt (map fst (search_result sps ws)) /\
  forall w r, In (w, r) (search_result sps ws) <->
    (In w ws /\ Forall (fun sp => spec_matches sp w) sps /\
     rank_of w ws = Some (Z.to_nat r) /\ (0 <= r)%Z).
Proof. exact search_result_spec. Qed.
Print Assumptions C13_search_result_meaning.

(* [search_result] is the list written out in C13_search_new, and [spec_matchesb] decides
   [spec_matches]. *)
Theorem C13_search_result_unfold : forall sps ws,
  search_result sps ws =
  filter (fun p => forallb (fun sp => spec_matchesb sp (fst p)) sps) (number 0 ws).
Proof. reflexivity. Qed.
Print Assumptions C13_search_result_unfold.

Theorem C13_spec_matchesb : forall sp w, spec_matchesb sp w = true <-> spec_matches sp w.
Proof. exact spec_matchesb_iff. Qed.
Print Assumptions C13_spec_matchesb.

(* The same for a Builder: any sequence of Add calls whatsoever (out of order, duplicates)
   on a fresh Builder -- the zero value `var db Builder` or one just initialised --, then
   Finish, then Search twice.  No call panics, a call is accepted exactly when its word is
   above the last accepted one, and Search answers for the accepted words [kept None args]. *)
Theorem C13_search_builder : forall g0 args, fresh g0 ->
  forall sps fuel, (2 * total_length (kept None args) + 1 <= fuel)%nat ->
  exists g s xs xs1 xs2,
    g_add_seq g0 args = Ok (g, accept_flags None args) /\
    g_finish g = Ok (GInit (g_ensure g), Some s) /\
    new_searchers sps = Ok xs /\
    search_c fuel s root xs = Ok (search_result sps (kept None args), xs1) /\
    search_c fuel s root xs1 = Ok (search_result sps (kept None args), xs2) /\
    Forall2 s_equiv xs1 xs /\ Forall2 s_equiv xs2 xs.
Proof. exact search_builder_exact. Qed.
Print Assumptions C13_search_builder.

(* ------------------------------------------------------------------ non-vacuity *)
(* ex_words (Dawg/SearchMain.v): "", a, aa, ab, b, tap, taps, top, tops;
   a=97 b=98 o=111 p=112 s=115 t=116 ?=63.  The tree of the list is the one check_wf finds in
   the built store. *)
Example C13_built_wellformed_nonvacuous :
  increasing ex_words /\ new_dawg ex_words = Ok (Some ex_store) /\ trie_of ex_words = ex_tree /\
  trie_of [] = Node false 0 [] /\ trie_of [[]] = Node true 1 [].
Proof.
  split; [vm_compute; repeat split|].
  split; [vm_compute; reflexivity|]. split; [vm_compute; reflexivity|].
  split; vm_compute; reflexivity.
Qed.

(* pattern "t???" and anagram "spo?" together: "tops", rank 8; pattern "?" alone: a, b with
   ranks 1, 4; pattern "" alone: the empty word, rank 0; computed by the model at the
   theorem's fuel 2*20+1 *)
Example C13_search_new_nonvacuous :
  search_result [SpecA [115; 112; 111; 63] 63; SpecP [116; 63; 63; 63] 63]%N ex_words
    = [([116; 111; 112; 115]%N, 8%Z)] /\
  search_result [SpecP [63] 63]%N ex_words = [([97]%N, 1%Z); ([98]%N, 4%Z)] /\
  search_result [SpecP [] 63]%N ex_words = [([], 0%Z)] /\
  search_result [] ex_words = number 0 ex_words /\
  (2 * total_length ex_words + 1 = 41)%nat /\
  exists xs xs1,
    new_searchers [SpecA [115; 112; 111; 63] 63; SpecP [116; 63; 63; 63] 63]%N = Ok xs /\
    search_c 41 ex_store root xs = Ok ([([116; 111; 112; 115]%N, 8%Z)], xs1).
Proof.
  split; [vm_compute; reflexivity|]. split; [vm_compute; reflexivity|].
  split; [vm_compute; reflexivity|]. split; [vm_compute; reflexivity|].
  split; [vm_compute; reflexivity|].
  eexists. eexists. split; [vm_compute; reflexivity|]. vm_compute. reflexivity.
Qed.

(* the zero-value Builder with the Adds "b", "a" (rejected), "b" (rejected), "ba", "" (rejected):
   Finish gives the automaton of {b, ba}; the pattern "b?" finds "ba" with rank 1 *)
Example C13_search_builder_nonvacuous :
  fresh GZero /\
  kept None [[98]; [97]; [98]; [98; 97]; []]%N = [[98]; [98; 97]]%N /\
  exists g s xs xs1,
    g_add_seq GZero [[98]; [97]; [98]; [98; 97]; []]%N = Ok (g, [true; false; false; true; false]) /\
    g_finish g = Ok (GInit (g_ensure g), Some s) /\
    new_searchers [SpecP [98; 63] 63]%N = Ok xs /\
    search_c 7 s root xs = Ok ([([98; 97]%N, 1%Z)], xs1).
Proof.
  split; [left; reflexivity|]. split; [vm_compute; reflexivity|].
  do 4 eexists. split; [vm_compute; reflexivity|]. split; [vm_compute; reflexivity|].
  split; [vm_compute; reflexivity|]. vm_compute. reflexivity.
Qed.
