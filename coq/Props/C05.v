(* C05 — editable graphs behave as an abstract simple graph under every edit history.

   Model (coq/Graph/Model.v): [dense] = DenseGraph at array level (one backing array [darr] whose
   length is the capacity, slice length [dlen], cached n, m, degree sequence), [sparse] =
   SparseGraph (neighbour lists, cached n, m, degrees), [agraph] = number of vertices plus an
   adjacency predicate.  A Go panic is [None].  A history is a list of (store index, operation)
   run by [run] over a store of graphs; Copy / InducedSubgraph append the returned graph.

   [Rd g a] / [Rs g a] (coq/Graph/Dense.v, Sparse.v): g represents the well-formed (symmetric,
   loop-free, in-range) abstract graph a; they say nothing about the stale part of the dense
   backing array beyond the slice.  [hvalid ast h] (coq/Graph/Refine.v): every operation of h
   addresses an existing store entry and has valid arguments for the graph it is applied to
   (vertices in range; the neighbour list of AddVertex and the list V of InducedSubgraph
   duplicate-free, in any order).  [d_obs], [s_obs]: N, M, Degrees, IsEdge, Neighbours of the
   implementation model return (without panic) exactly the abstract observers; [ds_obs]: the
   dense and the sparse observers agree and the common neighbour lists are strictly ascending.

   Not a theorem here: "Copy and InducedSubgraph share no state with their source" is a frame
   property that holds by construction in a functional model (the store entries are values);
   on the Go code it is decided only by the correspondence run, which edits source and copy
   alternately and compares all observers of every live graph after every operation. *)
From Coq Require Import List ZArith Arith Sorted.
From Mamba Require Import Graph.Model Graph.Tri Graph.Abstract Graph.Dense Graph.Sparse Graph.Refine.
Import ListNotations.

(* distinct vertex pairs occupy distinct cells of the packed triangle *)
Theorem C05_tri_index_injective : forall i j i' j', i < j -> i' < j' ->
  tri j + i = tri j' + i' -> i = i' /\ j = j'.
Proof. exact tri_inj. Qed.
Print Assumptions C05_tri_index_injective.

(* one operation with valid arguments on a graph that represents a: no panic, the receiver then
   represents the abstract result, and a graph is returned exactly when the abstract operation
   returns one, which it represents ([orel]).  This is independent of how a caller stores the
   returned graphs. *)
Theorem C05_dense_step : forall g a o, Rd g a -> op_valid (an a) o ->
  exists g' new, d_step g o = Some (g', new) /\
    Rd g' (fst (a_step a o)) /\ orel Rd new (snd (a_step a o)).
Proof. exact d_step_sim. Qed.
Print Assumptions C05_dense_step.

Theorem C05_sparse_step : forall g a o, Rs g a -> op_valid (an a) o ->
  exists g' new, s_step g o = Some (g', new) /\
    Rs g' (fst (a_step a o)) /\ orel Rs new (snd (a_step a o)).
Proof. exact s_step_sim. Qed.
Print Assumptions C05_sparse_step.

(* DenseGraph: from any store of graphs representing abstract graphs, every valid finite history
   runs without panic, the resulting graphs again represent the graphs of the abstract run, and
   all their observers equal the abstract observers *)
Theorem C05_dense_history : forall dst ast h, Forall2 Rd dst ast -> hvalid ast h ->
  exists dst', run d_step dst h = Some dst' /\
    run a_step' ast h = Some (arun ast h) /\
    Forall2 Rd dst' (arun ast h) /\ Forall2 d_obs dst' (arun ast h).
Proof. exact dense_history. Qed.
Print Assumptions C05_dense_history.

(* SparseGraph: the same *)
Theorem C05_sparse_history : forall sst ast h, Forall2 Rs sst ast -> hvalid ast h ->
  exists sst', run s_step sst h = Some sst' /\
    run a_step' ast h = Some (arun ast h) /\
    Forall2 Rs sst' (arun ast h) /\ Forall2 s_obs sst' (arun ast h).
Proof. exact sparse_history. Qed.
Print Assumptions C05_sparse_history.

(* the two representations agree with each other after every valid history *)
Theorem C05_dense_sparse_agree : forall dst sst ast h,
  Forall2 Rd dst ast -> Forall2 Rs sst ast -> hvalid ast h ->
  exists dst' sst', run d_step dst h = Some dst' /\ run s_step sst h = Some sst' /\
    Forall2 ds_obs dst' sst'.
Proof. exact dense_sparse_history. Qed.
Print Assumptions C05_dense_sparse_agree.

(* starting from NewDense(n, nil) / NewSparse(n, nil): no hypothesis but the validity of the
   history *)
Theorem C05_from_empty : forall n0 h, hvalid [a_empty n0] h ->
  exists dst sst, run d_step [d_empty n0] h = Some dst /\ run s_step [s_empty n0] h = Some sst /\
    run a_step' [a_empty n0] h = Some (arun [a_empty n0] h) /\
    Forall2 d_obs dst (arun [a_empty n0] h) /\ Forall2 s_obs sst (arun [a_empty n0] h) /\
    Forall2 ds_obs dst sst.
Proof. exact empty_history. Qed.
Print Assumptions C05_from_empty.

(* the abstract run is a plain adjacency-set model of a loop-free undirected graph: every graph
   stays symmetric, irreflexive and in range; Neighbours is the ascending list of the adjacent
   vertices, Degrees their number, and M half the degree sum (M itself is, by definition, the
   number of pairs i<j that are adjacent) *)
Theorem C05_abstract_is_simple_graph : forall ast h, Forall awf ast -> hvalid ast h ->
  Forall (fun a => awf a /\
     (forall v u, In u (a_neighbours a v) <-> adj a v u = true) /\
     (forall v, StronglySorted lt (a_neighbours a v)) /\
     (forall v, a_deg a v = Z.of_nat (length (a_neighbours a v))) /\
     (zsum (a_deg a) (an a) = 2 * a_M a)%Z) (arun ast h).
Proof. exact abstract_meaning. Qed.
Print Assumptions C05_abstract_is_simple_graph.

(* Copy returns the receiver unchanged and a graph representing the same abstract graph *)
Theorem C05_dense_copy : forall g a, Rd g a ->
  exists h, d_step g OCopy = Some (g, Some h) /\ Rd h a /\ d_obs h a.
Proof. exact dense_copy. Qed.
Print Assumptions C05_dense_copy.

Theorem C05_sparse_copy : forall g a, Rs g a ->
  exists h, s_step g OCopy = Some (g, Some h) /\ Rs h a /\ s_obs h a.
Proof. exact sparse_copy. Qed.
Print Assumptions C05_sparse_copy.

(* InducedSubgraph(V) returns the receiver unchanged and a graph on len(V) vertices in which
   vertex x stands for V[x] *)
Theorem C05_dense_induced_maps : forall g a V,
  Rd g a -> NoDup V -> (forall x, In x V -> x < an a) ->
  exists h, d_step g (OInduced V) = Some (g, Some h) /\ Rd h (a_induced a V) /\
    d_N h = length V /\
    forall x y vx vy, nth_error V x = Some vx -> nth_error V y = Some vy ->
      d_is_edge h x y = d_is_edge g vx vy /\ d_is_edge h x y = Some (adj a vx vy).
Proof. exact dense_induced_maps. Qed.
Print Assumptions C05_dense_induced_maps.

Theorem C05_sparse_induced_maps : forall g a V,
  Rs g a -> NoDup V -> (forall x, In x V -> x < an a) ->
  exists h, s_step g (OInduced V) = Some (g, Some h) /\ Rs h (a_induced a V) /\
    s_N h = length V /\
    forall x y vx vy, nth_error V x = Some vx -> nth_error V y = Some vy ->
      s_is_edge h x y = s_is_edge g vx vy /\ s_is_edge h x y = Some (adj a vx vy).
Proof. exact sparse_induced_maps. Qed.
Print Assumptions C05_sparse_induced_maps.

(* ------------------------------------------------------------------ non-vacuity *)
(* a valid history using every operation, a non-last RemoveVertex followed by an AddVertex into
   the stale capacity, edits of a copy and of its source, an induced subgraph that is edited *)
Definition h0 : list (nat * op) :=
  [(0, OAddE 0 1); (0, OAddE 1 2); (0, OAddE 2 3); (0, OAddE 0 3); (0, ORemV 1); (0, OAddV [2]);
   (0, OCopy); (1, ORemE 0 2); (0, OAddE 0 1); (1, OInduced [3; 1; 2]); (2, ORemV 0);
   (0, OAddE 1 1); (0, ORemE 2 0)].

Example C05_tri_index_nonvacuous : 1 < 3 /\ tri 3 + 1 = 4.
Proof. split; [repeat constructor | vm_compute; reflexivity]. Qed.

Example C05_history_nonvacuous :
  hvalid [a_empty 4] h0 /\ Forall2 Rd [d_empty 4] [a_empty 4] /\ Forall2 Rs [s_empty 4] [a_empty 4] /\
  option_map (map (fun g => (dn g, dm g, ddeg g, darr g, dlen g))) (run d_step [d_empty 4] h0) =
    Some [(4, 3%Z, [1%Z; 2%Z; 2%Z; 1%Z], [1%Z; 0%Z; 1%Z; 0%Z; 0%Z; 1%Z], 6);
          (4, 2%Z, [0%Z; 1%Z; 2%Z; 1%Z], [0%Z; 0%Z; 1%Z; 0%Z; 0%Z; 1%Z], 6);
          (2, 1%Z, [1%Z; 1%Z], [1%Z; 1%Z; 1%Z], 1)] /\
  option_map (map (fun g => (sn g, sm g, sdeg g, snbr g))) (run s_step [s_empty 4] h0) =
    Some [(4, 3%Z, [1%Z; 2%Z; 2%Z; 1%Z], [[1]; [0; 2]; [1; 3]; [2]]);
          (4, 2%Z, [0%Z; 1%Z; 2%Z; 1%Z], [[]; [2]; [1; 3]; [2]]);
          (2, 1%Z, [1%Z; 1%Z], [[1]; [0]])] /\
  map (fun a => (a_N a, a_M a, a_degrees a, map (a_neighbours a) (seq 0 (an a)))) (arun [a_empty 4] h0) =
    [(4, 3%Z, [1%Z; 2%Z; 2%Z; 1%Z], [[1]; [0; 2]; [1; 3]; [2]]);
     (4, 2%Z, [0%Z; 1%Z; 2%Z; 1%Z], [[]; [2]; [1; 3]; [2]]);
     (2, 1%Z, [1%Z; 1%Z], [[1]; [0]])].
Proof.
  split; [apply hvalidb_spec; vm_compute; reflexivity|].
  split; [constructor; [apply Rd_empty|constructor]|].
  split; [constructor; [apply Rs_empty|constructor]|].
  split; [vm_compute; reflexivity|]. split; vm_compute; reflexivity.
Qed.

Example C05_abstract_nonvacuous : Forall awf [a_empty 4] /\ hvalid [a_empty 4] h0.
Proof.
  split; [constructor; [apply awf_empty|constructor]|].
  apply hvalidb_spec; vm_compute; reflexivity.
Qed.

(* graphs with edges that represent an abstract graph, and a valid V in arbitrary order *)
Example C05_dense_graph_nonvacuous : exists g a,
  Rd g a /\ d_M g = 2%Z /\ NoDup [2; 0] /\ (forall x, In x [2; 0] -> x < an a) /\
  op_valid (an a) (ORemV 1) /\ op_valid (an a) (OAddV [2; 0]).
Proof.
  destruct (C05_dense_history [d_empty 3] [a_empty 3] [(0, OAddE 0 2); (0, OAddE 2 1)])
    as (dst & E & _ & F & _).
  - constructor; [apply Rd_empty|constructor].
  - apply hvalidb_spec; vm_compute; reflexivity.
  - vm_compute in E. inversion E; subst. inversion F; subst.
    eexists. eexists. split; [eassumption|]. split; [reflexivity|].
    split; [repeat constructor; simpl; intuition discriminate|].
    split; [simpl; intros x [<-|[<-|[]]]; repeat constructor|].
    split; apply op_validb_spec; vm_compute; reflexivity.
Qed.

Example C05_sparse_graph_nonvacuous : exists g a,
  Rs g a /\ s_M g = 2%Z /\ NoDup [2; 0] /\ (forall x, In x [2; 0] -> x < an a) /\
  op_valid (an a) (ORemV 1) /\ op_valid (an a) (OAddV [2; 0]).
Proof.
  destruct (C05_sparse_history [s_empty 3] [a_empty 3] [(0, OAddE 0 2); (0, OAddE 2 1)])
    as (sst & E & _ & F & _).
  - constructor; [apply Rs_empty|constructor].
  - apply hvalidb_spec; vm_compute; reflexivity.
  - vm_compute in E. inversion E; subst. inversion F; subst.
    eexists. eexists. split; [eassumption|]. split; [reflexivity|].
    split; [repeat constructor; simpl; intuition discriminate|].
    split; [simpl; intros x [<-|[<-|[]]]; repeat constructor|].
    split; apply op_validb_spec; vm_compute; reflexivity.
Qed.
