(* C05 — editable graphs behave as an abstract simple graph under every edit history.
   (stub of milestone 1: the index lemma; the refinement theorems follow) *)
From Coq Require Import List ZArith Arith.
From Mamba Require Import Graph.Model Graph.Tri.

(* distinct vertex pairs occupy distinct cells of the packed triangle *)
Theorem C05_tri_index_injective_partial : forall i j i' j', i < j -> i' < j' ->
  tri j + i = tri j' + i' -> i = i' /\ j = j'.
Proof. exact tri_inj. Qed.
Print Assumptions C05_tri_index_injective_partial.
