(* C01 (search) — the pruned depth-first search of CanonicalIsomorphAllocated, as modelled in
   Canon/SearchModel.v (canon_search: explicit stacks, first-leaf / current-best records, Heuristics 1
   and 2, partial-certificate cut-off, deage, generators, the m == 0 shortcut; tied to the code by
   the correspondence stream "search", which compares the returned permutation, the raw orbit
   array and the generators exactly).  This file contains only the property theorems, closed by
   [exact], and their assumptions.

   The theorems hold for EVERY simple graph, every admissible vertex classes and every fuel.
   The theorems named _partial give the first sentence of C01 for the search (the result is a
   permutation, so the canonical graph is isomorphic to g), that the returned labelling is one of
   the leaves of the unpruned tree over which the reference canon_ref of Props/C01.v minimises,
   and that the fuel suffices.  C01_search_maximal and C01_search_label_invariant are the
   soundness of the pruning (by orbits, by automorphism back-jump and by partial certificates: the
   McKay-Piperno argument, Canon/SearchInvP.v .. SearchMax.v): the leaf kept has the greatest
   certificate among ALL the leaves of the unpruned tree, hence the canonical graph computed by the
   model is the same for every relabelling of the input (vertex classes relabelled with it).
   The model follows the code after commit a4bdb37 (a cut-off in expandValue sets singletonPrefixLength to the
   position where it lost, plus one); before it, model and code panicked on some graphs with vertex classes
   (C01_search_former_panics_return).  C01_search_total: the model never returns Panic (every index and slice
   bound of the search is in range, in particular currentBest[:len(op.value)] and generators[:len+1]); with the
   fuel theorem the model returns Ok for every simple graph and admissible classes (C01_search_returns), so the
   theorems hold without the proviso "on runs returning Ok", and C01_search_iso_iff is the statement of C01 in
   full for the model: equal canonical graphs <=> isomorphic. *)
From Coq Require Import List Arith ZArith Permutation.
From Mamba Require Import Canon.Perm Canon.Iso Canon.Model Canon.Tree Canon.SearchModel Canon.SearchCells
  Canon.SearchTarget Canon.SearchOrder Canon.SearchEquiv Canon.SearchInit Canon.SearchProofs Canon.SearchMax Canon.SearchInvar
  Canon.SearchTotal Canon.SearchFull.
Import ListNotations.

(* Whatever the fuel: if the search returns, the returned permutation is a permutation of
   0..n-1 (every leaf of the pruned search is discrete, and a best leaf has been recorded before
   the search returns), hence the graph relabelled by it is isomorphic to g. *)
Theorem C01_search_returns_permutation_partial :
  forall (g : graph) (cls : option (list (list nat))) fuel p o gs,
    simple g -> cls_ok (length g) cls ->
    canon_search fuel g cls = Ok (p, o, gs) ->
    is_perm (length g) p = true /\ iso g (relabel g p).
Proof.
  intros g cls fuel p o gs Hg Hc H.
  assert (HP : is_perm (length g) p = true) by (apply is_perm_Permutation; exact (search_perm g cls Hg Hc fuel p o gs H)).
  split; [exact HP|exact (relabel_iso g p HP)].
Qed.
Print Assumptions C01_search_returns_permutation_partial.

(* The returned labelling is a leaf of the unpruned individualisation-refinement tree of
   Canon/Model.v rooted at the refined initial partition (vertex classes included): every
   partition the search visits is a node of that tree (splitBin = individualisation, refinement =
   refine of C01, deage = return to the parent node, exactly). *)
Theorem C01_search_returns_leaf_partial :
  forall (g : graph) (cls : option (list (list nat))) fuel p o gs,
    simple g -> cls_ok (length g) cls -> 0 < num_edges g ->
    canon_search fuel g cls = Ok (p, o, gs) ->
    exists root, refine g (erase (init_cells (length g) cls)) = Some root /\
                 In (Some p) (leaves (length g) g root).
Proof. intros g cls fuel p o gs Hg Hc Hm H. exact (search_leaf g cls Hg Hc fuel p o gs Hm H). Qed.
Print Assumptions C01_search_returns_leaf_partial.

(* Without vertex classes: the certificate of the returned leaf is never below the one of the
   reference labelling canon_ref (which is proved label-invariant in Props/C01.v); equality of the
   two is what the pruning theorem would add. *)
Theorem C01_search_vs_reference_partial :
  forall (g : graph) fuel p o gs q,
    simple g -> 0 < num_edges g ->
    canon_search fuel g None = Ok (p, o, gs) -> canon_ref g = Some q ->
    lexleb (key g q) (key g p) = true.
Proof.
  intros g fuel p o gs q Hg Hm H Hq.
  destruct (search_leaf g None Hg I fuel p o gs Hm H) as (root & HR & HIn).
  unfold canon_ref, all_leaves in Hq.
  assert (E : erase (init_cells (length g) None) = init_part (length g)).
  { unfold init_cells, erase. rewrite map_map. simpl. apply map_id. }
  rewrite E in HR. rewrite HR in Hq.
  destruct (all_some (leaves (length g) g root)) as [[|p0 l]|] eqn:EL; try discriminate.
  inversion Hq; subst q. apply best_le.
  apply all_some_map_Some in EL. rewrite EL in HIn. apply in_map_iff in HIn.
  destruct HIn as (x & Ex & Hx). inversion Ex; subst x. exact Hx.
Qed.
Print Assumptions C01_search_vs_reference_partial.

(* The fuel suffices (for every square or non-square matrix g, simple or not): there is a bound depending only on n (the number of nodes of a tree of depth n
   and degree n+1) from which on the model never returns the out-of-fuel result and its result no
   longer depends on the fuel; what the model returns with that fuel is Ok or the model of a Go panic. *)
Theorem C01_search_fuel_suffices_partial :
  forall (g : graph) (cls : option (list (list nat))) fuel,
    cls_ok (length g) cls -> search_fuel (length g) <= fuel ->
    canon_search fuel g cls <> Fuel /\ canon_search fuel g cls = canon_search (search_fuel (length g)) g cls.
Proof. intros g cls fuel Hc Hf. exact (search_terminates g cls Hc fuel Hf). Qed.
Print Assumptions C01_search_fuel_suffices_partial.

(* Soundness of the pruning: the certificate of the returned labelling (the sorted list of the
   positions of the edges in the upper triangle of the relabelled graph, compared as the code compares
   it) is the greatest among the certificates of all the leaves of the unpruned tree rooted at the
   refined initial partition; nothing that Heuristic 1, Heuristic 2 or the partial-certificate cut-off
   discards contains a better leaf. *)
Theorem C01_search_maximal :
  forall (g : graph) (cls : option (list (list nat))) fuel p o gs,
    simple g -> cls_ok (length g) cls -> 0 < num_edges g ->
    canon_search fuel g cls = Ok (p, o, gs) ->
    exists root, refine g (erase (init_cells (length g) cls)) = Some root /\
      In (Some p) (leaves (length g) g root) /\
      forall Q, rdesc g root Q -> target Q = None ->
        cmp_list (certp g (length g) (verts Q)) (certp g (length g) p) <> Gt.
Proof.
  intros g cls fuel p o gs Hg Hc Hm H.
  destruct (search_max g cls Hg Hc fuel p o gs Hm H) as (root & H1 & H2 & _ & H4 & _).
  exists root. split; [exact H1|]. split; [exact H2|]. exact H4.
Qed.
Print Assumptions C01_search_maximal.

(* Label invariance, general form: if f is an isomorphism from g to g' and the vertex classes of g'
   are the images of those of g, the two runs of the search return the same canonical graph (whatever
   the fuels, whenever both return). *)
Theorem C01_search_label_invariant :
  forall (g g' : graph) (f : nat -> nat) (cls : option (list (list nat))) fuel fuel' p o gs p' o' gs',
    simple g -> simple g' -> length g' = length g ->
    (forall u v, u < length g -> v < length g -> adjb g' (f u) (f v) = adjb g u v) ->
    Permutation (map f (seq 0 (length g))) (seq 0 (length g)) ->
    cls_ok (length g) cls ->
    canon_search fuel g cls = Ok (p, o, gs) ->
    canon_search fuel' g' (option_map (map (map f)) cls) = Ok (p', o', gs') ->
    relabel g p = relabel g' p'.
Proof.
  intros g g' f cls fuel fuel' p o gs p' o' gs' Hg Hg' HL Hadj Hperm Hc H H'.
  exact (search_invariant g g' f cls Hg Hg' HL (conj Hadj Hperm) Hc fuel fuel' p o gs p' o' gs' H H').
Qed.
Print Assumptions C01_search_label_invariant.

(* Label invariance for the canonical graph of the model: relabelling the input by any permutation
   (no vertex classes) does not change the result. *)
Theorem C01_search_canon_graph_invariant :
  forall (g : graph) (sigma : list nat) fuel fuel' h h',
    simple g -> is_perm (length g) sigma = true ->
    search_canon_graph fuel (relabel g sigma) None = Ok h ->
    search_canon_graph fuel' g None = Ok h' ->
    h = h'.
Proof. exact search_canon_graph_invariant. Qed.
Print Assumptions C01_search_canon_graph_invariant.

(* Totality: for every simple graph, all admissible vertex classes and every fuel the model does not return
   Panic, the model of a Go index / slice-bound panic.  op.value is always exactly the certificate entries of the
   first singletonPrefixLength positions (at most g.M() entries: currentBest[:len(op.value)] is within capacity);
   every recorded generator lowers the number of sets of firstLeafOrbits (at most n - 1 generators); paths,
   choices, permutations and union-find arrays are indexed within their lengths. *)
Theorem C01_search_total :
  forall (g : graph) (cls : option (list (list nat))) fuel,
    simple g -> cls_ok (length g) cls -> canon_search fuel g cls <> Panic.
Proof. intros g cls fuel Hg Hc. exact (canon_search_total g cls Hg Hc fuel). Qed.
Print Assumptions C01_search_total.

(* Hence, with the fuel theorem: from the fuel search_fuel n on, the model returns a result. *)
Theorem C01_search_returns :
  forall (g : graph) (cls : option (list (list nat))) fuel,
    simple g -> cls_ok (length g) cls -> search_fuel (length g) <= fuel ->
    exists p o gs, canon_search fuel g cls = Ok (p, o, gs).
Proof.
  intros g cls fuel Hg Hc Hf. destruct (canon_search_returns g cls Hg Hc fuel Hf) as [[[p o] gs] E]. exists p, o, gs. exact E.
Qed.
Print Assumptions C01_search_returns.

(* C01 in full for the model of CanonicalIsomorph (no vertex classes, fuel search_fuel n): the labelling is a
   permutation, the canonical graph is the same for every relabelling, and two simple graphs have the same
   canonical graph if and only if they are isomorphic. *)
Theorem C01_search_labelling_perm : forall g, simple g -> is_perm (length g) (search_labelling g) = true.
Proof. exact search_labelling_perm. Qed.
Print Assumptions C01_search_labelling_perm.

Theorem C01_search_labelling_invariant : forall g p, simple g -> is_perm (length g) p = true ->
  relabel (relabel g p) (search_labelling (relabel g p)) = relabel g (search_labelling g).
Proof. exact search_labelling_invariant. Qed.
Print Assumptions C01_search_labelling_invariant.

Theorem C01_search_iso_iff : forall g h, simple g -> simple h ->
  (relabel g (search_labelling g) = relabel h (search_labelling h) <-> iso g h).
Proof. exact search_iso_iff. Qed.
Print Assumptions C01_search_iso_iff.

(* Non-vacuity: the search on the 6-cycle, with and without vertex classes, returns (fuel 100
   suffices; with fuel 3 the distinct result Fuel is returned). *)
Example C01_search_nonvacuous :
  let c6 := [[false;true;false;false;false;true];[true;false;true;false;false;false];
             [false;true;false;true;false;false];[false;false;true;false;true;false];
             [false;false;false;true;false;true];[true;false;false;false;true;false]] in
  simpleb c6 = true /\ num_edges c6 = 6 /\
  canon_search 100 c6 None =
    Ok ([5; 4; 0; 3; 1; 2], [3; 3; 3; -3; 3; 3]%Z, [[4; 3; 2; 1; 0; 5]; [1; 0; 5; 4; 3; 2]; [1; 2; 3; 4; 5; 0]]) /\
  canon_search 100 c6 (Some [[0;3];[1;2;4;5]]) =
    Ok ([3; 0; 4; 2; 5; 1], [3; 4; 4; -2; -3; 4]%Z, [[0; 5; 4; 3; 2; 1]; [3; 2; 1; 0; 5; 4]]) /\
  canon_search 3 c6 None = Fuel /\
  canon_ref c6 = Some [0; 1; 5; 2; 4; 3] /\
  relabel c6 [5; 4; 0; 3; 1; 2] = relabel c6 [0; 1; 5; 2; 4; 3] /\
  (exists h, search_canon_graph 100 (relabel c6 [3;0;5;1;4;2]) None = Ok h /\ search_canon_graph 100 c6 None = Ok h).
Proof. vm_compute. repeat split. eexists. split; reflexivity. Qed.

(* The former panic (repaired in the code by commit a4bdb37 and in the model with it): before that commit a
   cut-off inside splitBin left singletonPrefixLength stale, op.value kept the entries of the aborted expansion
   and grew with every further sibling until currentBest[:len(op.value)] went beyond its capacity; on these
   three inputs (graph6 KOD[fB~~qOCO with classes 0..9|10,11; K`WkCf~~ogGO with 0..7|8,9|10,11;
   LaGQO]CgN~~}?g with 0..11|12) model and code panicked.  They now return; the three inputs are the first
   cases of the corpus of the stream `search`. *)
Example C01_search_former_panics_return :
  let g1 : graph :=
    [[false;false;true;false;false;false;true;true;true;true;false;false];
     [false;false;false;false;false;true;false;true;true;true;true;false];
     [true;false;false;false;false;false;false;true;true;true;false;true];
     [false;false;false;false;true;true;true;false;true;true;false;false];
     [false;false;false;true;false;true;false;false;true;true;true;false];
     [false;true;false;true;true;false;false;false;true;true;false;false];
     [true;false;false;true;false;false;false;false;true;true;false;true];
     [true;true;true;false;false;false;false;false;true;true;false;false];
     [true;true;true;true;true;true;true;true;false;false;false;false];
     [true;true;true;true;true;true;true;true;false;false;false;false];
     [false;true;false;false;true;false;false;false;false;false;false;false];
     [false;false;true;false;false;false;true;false;false;false;false;false]] in
  let g2 : graph :=
    [[false;true;false;false;false;false;true;true;true;true;false;false];
     [true;false;false;false;true;false;false;false;true;true;false;true];
     [false;false;false;true;true;true;false;false;true;true;false;false];
     [false;false;true;false;false;false;false;true;true;true;true;false];
     [false;true;true;false;false;true;false;false;true;true;false;false];
     [false;false;true;false;true;false;false;false;true;true;true;false];
     [true;false;false;false;false;false;false;true;true;true;false;true];
     [true;false;false;true;false;false;true;false;true;true;false;false];
     [true;true;true;true;true;true;true;true;false;false;false;false];
     [true;true;true;true;true;true;true;true;false;false;false;false];
     [false;false;false;true;false;true;false;false;false;false;false;false];
     [false;true;false;false;false;false;true;false;false;false;false;false]] in
  let g3 : graph :=
    [[false;true;false;false;false;false;false;false;true;true;true;true;false];
     [true;false;false;true;false;false;true;false;false;false;true;true;false];
     [false;false;false;false;true;false;false;false;false;true;true;true;false];
     [false;true;false;false;false;true;false;false;false;false;true;true;false];
     [false;false;true;false;false;false;true;true;false;false;true;true;false];
     [false;false;false;true;false;false;false;true;true;false;true;true;false];
     [false;true;false;false;true;false;false;true;false;false;true;true;true];
     [false;false;false;false;true;true;true;false;false;false;true;true;false];
     [true;false;false;false;false;true;false;false;false;true;true;true;true];
     [true;false;true;false;false;false;false;false;true;false;true;true;false];
     [true;true;true;true;true;true;true;true;true;true;false;false;false];
     [true;true;true;true;true;true;true;true;true;true;false;false;false];
     [false;false;false;false;false;false;true;false;true;false;false;false;false]] in
  simpleb g1 = true /\ simpleb g2 = true /\ simpleb g3 = true /\
  (exists p o gs, canon_search 200 g1 (Some [[0;1;2;3;4;5;6;7;8;9];[10;11]]) = Ok (p, o, gs) /\ is_perm 12 p = true) /\
  (exists p o gs, canon_search 200 g2 (Some [[0;1;2;3;4;5;6;7];[8;9];[10;11]]) = Ok (p, o, gs) /\ is_perm 12 p = true) /\
  (exists p o gs, canon_search 200 g3 (Some [[0;1;2;3;4;5;6;7;8;9;10;11];[12]]) = Ok (p, o, gs) /\ is_perm 13 p = true).
Proof.
  cbv zeta. split; [vm_compute; reflexivity|]. split; [vm_compute; reflexivity|]. split; [vm_compute; reflexivity|].
  split; [|split]; vm_compute; do 3 eexists; split; reflexivity.
Qed.
