(* C03 — graph search yields exactly one representative of every isomorphism class.
   PARTIAL: see the comment at each theorem and notes/C03.md for what is proved and what is
   only explored. *)
From Coq Require Import List Arith Bool.
From Mamba Require Import Search.Counting.
Import ListNotations.

(* The counting core of the completeness certificate applied by the harness: in a finite
   universe X with an equivalence R, a list Y of pairwise inequivalent members whose class
   sizes add up to |X| meets every class exactly once. *)
Theorem C03_counting_partial : forall (A : Type) (R : A -> A -> bool) (X : list A),
  (forall x y, In x X -> In y X -> R x y = true -> R y x = true) ->
  (forall x y z, In x X -> In y X -> In z X -> R x y = true -> R y z = true -> R x z = true) ->
  forall Y, NoDup X -> Forall (fun y => In y X) Y ->
  ForallOrdPairs (fun y y' => R y y' = false) Y ->
  sum_sizes R X Y = length X ->
  forall x, In x X -> hits R Y x = 1.
Proof. exact @representatives_complete. Qed.
Print Assumptions C03_counting_partial.

Example C03_counting_nonvacuous :
  let X := [0;1;2;3;4;5] in
  let R := fun a b => Nat.eqb (a mod 3) (b mod 3) in
  let Y := [4;2;3] in
  sum_sizes R X Y = length X /\ hits R Y 5 = 1 /\ hits R Y 0 = 1.
Proof. vm_compute. repeat split. Qed.
