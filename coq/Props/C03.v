(* C03 — graph search yields exactly one representative of every isomorphism class.

   PARTIAL.  What is proved here, on the model of GraphIterator.Next in Search/Model.v, for
   every n, a, m, every canonical labelling [canon] that does not read the stale ViableBits
   when CheckViability is false, every [ksub_reps], [grow]:
   - C03_shards_partition_partial: the outputs of the shards a = 0..m-1 together are a
     permutation of the output of the unsplit search (a = 0, m = 1), with any pruning;
   - C03_prune_is_filter_partial: a hereditary predicate as preprune, as prune or in both
     places yields the unpruned output filtered by the predicate, in the same order;
   - C03_yields_wellformed_partial: every yielded value is a well-formed graph on n vertices;
   - C03_recursive_presentation_partial: the iterative machine and the depth-first recursive
     presentation [spec] agree (both directions);
   - C03_shards_terminate_partial, C03_prune_terminates_partial: if the unsplit / unpruned run
     ends without panic then so do the shards / the pruned run;
   - C03_counting_partial (and Props/C03_cert.v): the orbit-counting certificate.
   The theorems are relative to the unsplit, unpruned run ending without panic
   ([outputs .. = Ok L]); that it always does (for a well-behaved [canon]) is not proved.
   NOT proved: that the unpruned, unsplit output is exactly one graph per isomorphism class
   (McKay's orderly generation relative to a correct [canon]); this is certified per n by the
   harness with the certificate theorem.  The model is tied to the code by co-simulation for
   n <= 5 (thorough: 6): the extracted [outputs], fed with a table of the real canonical
   labelling's answers, yields the same sequences as search.WithPruning (stream cosim). *)
From Coq Require Import List NArith ZArith Arith Bool Permutation.
From Mamba Require Import Disjoint.Model Search.Model Search.SaveModel.
From Mamba Require Import Search.Counting Search.ShardModel Search.ShardSim Search.Prune.
From Mamba Require Import Search.ShardTop Search.ShardExample.
Import ListNotations.
Local Open Scope nat_scope.

(* [outputs grow canon ksub_reps preprune prune calls fuel (init n a m) = Ok L]: the loop
   `for it.Next() { .. it.Value() .. }` on WithPruning(n, a, m, preprune, prune) ends without
   panic and L is the list of the graphs seen (ShardModel.v). *)

(* The shards partition the unsplit search (as multisets), for all pruning functions. *)
Theorem C03_shards_partition_partial :
  forall grow canon ksub_reps, canon_ignores_stale_bits canon ->
  forall preprune prune n m L (Ls : list (list vgraph)),
  1 <= m -> length Ls = m ->
  (exists calls fuel, outputs grow canon ksub_reps preprune prune calls fuel (init n 0 1) = Ok L) ->
  (forall a, a < m -> exists calls fuel,
     outputs grow canon ksub_reps preprune prune calls fuel (init n a m) = Ok (nth a Ls [])) ->
  Permutation (concat Ls) L.
Proof. exact shards_partition. Qed.
Print Assumptions C03_shards_partition_partial.

Example C03_shards_nonvacuous :
  canon_ignores_stale_bits canon0 /\
  len_res (outs0 no_prune no_prune 4 0 1) = 16 /\
  len_res (outs0 no_prune no_prune 4 0 2) = 7 /\
  len_res (outs0 no_prune no_prune 4 1 2) = 9.
Proof. exact (conj canon0_novb shards_example). Qed.

(* Pruning with a predicate that stays true when a vertex is added (P g = true: g is pruned)
   is filtering, wherever the predicate is placed. *)
Theorem C03_prune_is_filter_partial :
  forall grow canon ksub_reps, canon_ignores_stale_bits canon ->
  forall P pre post n a m L LP,
  grows_bad P ->
  (pre = P \/ pre = no_prune) -> (post = P \/ post = no_prune) -> (pre = P \/ post = P) ->
  (exists calls fuel, outputs grow canon ksub_reps no_prune no_prune calls fuel (init n a m) = Ok L) ->
  (exists calls fuel, outputs grow canon ksub_reps pre post calls fuel (init n a m) = Ok LP) ->
  LP = filter (fun g => negb (P g)) L.
Proof. exact prune_is_filter. Qed.
Print Assumptions C03_prune_is_filter_partial.

Example C03_prune_nonvacuous :
  grows_bad many_edges /\
  len_res (outs0 no_prune no_prune 4 0 1) = 16 /\
  len_res (outs0 many_edges no_prune 4 0 1) = 12 /\
  len_res (outs0 no_prune many_edges 4 0 1) = 12 /\
  outs0 many_edges no_prune 4 0 1 = outs0 no_prune many_edges 4 0 1.
Proof. exact (conj many_edges_grows prune_example). Qed.

(* Every value yielded is a well-formed graph on exactly n vertices: NumberOfVertices = n, the
   arrays have the right lengths, Edges holds 0/1, DegreeSequence[v] is the number of
   neighbours of v and NumberOfEdges the number of ones ([wf_graph], ShardModel.v). *)
Theorem C03_yields_wellformed_partial :
  forall grow canon ksub_reps, canon_ignores_stale_bits canon ->
  forall preprune prune n a m calls fuel L,
  outputs grow canon ksub_reps preprune prune calls fuel (init n a m) = Ok L ->
  Forall (wf_graph n) L.
Proof. exact outputs_wf. Qed.
Print Assumptions C03_yields_wellformed_partial.

Example C03_wellformed_nonvacuous :
  len_res (outs0 no_prune no_prune 4 1 2) = 9 /\
  wf_graph 4 (4, 5%Z, [3; 3; 2; 2]%Z, [1; 1; 1; 1; 1; 0]%N).
Proof. exact wf_example. Qed.

(* The iterative machine (explicit stacks choices / currentPath, in-place AddVertex /
   RemoveVertex, cached automorphism group, resumption between calls) and the recursive
   depth-first presentation [spec] of ShardModel.v agree: the caller's loop ends without panic
   with the list L, for some number of calls and fuel, exactly when spec = Some L. *)
Theorem C03_recursive_presentation_partial :
  forall grow canon ksub_reps, canon_ignores_stale_bits canon ->
  forall preprune prune n a m L,
  (exists calls fuel, outputs grow canon ksub_reps preprune prune calls fuel (init n a m) = Ok L) <->
  spec canon ksub_reps preprune prune n a m = Some L.
Proof. exact outputs_iff_spec. Qed.
Print Assumptions C03_recursive_presentation_partial.

Example C03_recursive_presentation_nonvacuous :
  spec canon0 ksub0 no_prune no_prune 4 1 2 =
  match outs0 no_prune no_prune 4 1 2 with Ok l => Some l | _ => None end /\
  len_res (outs0 no_prune no_prune 4 1 2) = 9.
Proof. exact spec_example. Qed.

(* If the unsplit search ends without panic then so does every shard; if the unpruned search
   ends without panic then the pruned one ends without panic with the filtered output. *)
Theorem C03_shards_terminate_partial :
  forall grow canon ksub_reps, canon_ignores_stale_bits canon ->
  forall preprune prune n m L a, 1 <= m -> a < m ->
  (exists calls fuel, outputs grow canon ksub_reps preprune prune calls fuel (init n 0 1) = Ok L) ->
  exists La calls fuel, outputs grow canon ksub_reps preprune prune calls fuel (init n a m) = Ok La.
Proof. exact shards_terminate. Qed.
Print Assumptions C03_shards_terminate_partial.

Theorem C03_prune_terminates_partial :
  forall grow canon ksub_reps, canon_ignores_stale_bits canon ->
  forall P pre post n a m L, grows_bad P ->
  (pre = P \/ pre = no_prune) -> (post = P \/ post = no_prune) -> (pre = P \/ post = P) ->
  (exists calls fuel, outputs grow canon ksub_reps no_prune no_prune calls fuel (init n a m) = Ok L) ->
  exists calls fuel, outputs grow canon ksub_reps pre post calls fuel (init n a m) =
                     Ok (filter (fun g => negb (P g)) L).
Proof. exact prune_terminates. Qed.
Print Assumptions C03_prune_terminates_partial.

(* The counting core of the completeness certificate applied by the harness: in a finite
   universe X with an equivalence R, a list Y of pairwise inequivalent members whose class
   sizes add up to |X| meets every class exactly once.  (Graph version: Props/C03_cert.v.) *)
Theorem C03_counting_partial : forall (A : Type) (R : A -> A -> bool) (X : list A),
  (forall x y, In x X -> In y X -> R x y = true -> R y x = true) ->
  (forall x y z, In x X -> In y X -> In z X -> R x y = true -> R y z = true -> R x z = true) ->
  forall Y, NoDup X -> Forall (fun y => In y X) Y ->
  ForallOrdPairs (fun y y' => R y y' = false) Y ->
  sum_sizes R X Y = length X ->
  forall x, In x X -> hits R Y x = 1.
Proof. exact @representatives_complete. Qed.
Print Assumptions C03_counting_partial.

Example C03_counting_nonvacuous :
  let X := [0;1;2;3;4;5] in
  let R := fun a b => Nat.eqb (a mod 3) (b mod 3) in
  let Y := [4;2;3] in
  sum_sizes R X Y = length X /\ hits R Y 5 = 1 /\ hits R Y 0 = 1.
Proof. vm_compute. repeat split. Qed.
