(* C03 — the tie between the specification [canon_spec] (Search/OrderlySpec.v), under which
   Props/C03_orderly.v proves the statement of C03 on the model, and the real code.

   1. An EXECUTABLE CHECKER of [canon_spec] ([check_upto], Search/OrderlyInstCheckModel.v) is
      extracted and evaluated by the co-simulation driver (ocaml/c03/driver.ml) on the table of
      answers that harness/cmd/c03sim computes with the REAL graph.CanonicalIsomorphAllocated and
      the REAL k-subset orbit loop, in every co-simulation run: all graphs on at most 5 vertices
      (quick) / 6 vertices (thorough), every ViableBits.  The theorems below say what the verdict
      [true] means: it IS the hypothesis [canon_spec canon ksub_reps n] for the tabulated
      functions (C03_spec_check_sound), so the model run with that table yields exactly one graph
      per isomorphism class, within explicit bounds (C03_checked_tables_run, .._full).  Above the
      exhaustive sizes the per-graph clauses are checked on sampled relabelled pairs of 7- and
      8-vertex graphs (C03_spec_check_graph_sound, C03_spec_check_pair_sound).
      Everything in the checker is brute force: all permutations for Aut(g) and for isomorphism,
      C02's proved certificate [check_full] for "the generators generate Aut(g) and the forest is
      its orbit partition", all masks for the k-subsets.
   2. The parameters of the k-subset orbit loop of addAugmentations ([ksub_loop]) instantiated
      with the proved models of itertools.CombinationsColex (C15), comb.Rank (C16) and ints.Sort
      (C17): no call panics and the loop returns one mask per orbit, for n <= 63
      (C03_ksub_loop_real_transversal).  The instantiated loop [ksub_real] is compared with the
      real loop's answers on every generator list of every co-simulation table (strict part).
   3. Explicit fuel: the existential [exists calls fuel] of C03_all_exactly_one_per_class is
      replaced by a function of the run ([spec_steps], C03_outputs_steps) and, under
      [canon_spec], by the closed bounds calls <= 2^(n(n-1)/2) + 1,
      fuel <= sum_{j=1..n} 2^(j(j-1)/2) (2^j + 4) (C03_outputs_fuel_bound).

   NOT proved: that the real functions meet [canon_spec] for all graphs (they are checked to, by
   the proved checker, on every graph with at most 6 vertices and on samples with 7 and 8). *)
From Coq Require Import List NArith ZArith Arith Bool Permutation.
From Mamba Require Import Disjoint.Model Disjoint.Proofs Search.Model Search.SaveModel Search.ShardModel Search.Prune.
From Mamba Require Import Canon.AutBase Canon.Aut Canon.Group.
From Mamba Require Canon.Iso.
From Mamba Require Import Search.OrderlyBase Search.OrderlyGraph Search.OrderlySpec Search.OrderlyTop.
From Mamba Require Import Search.OrderlyToyModel Search.OrderlyToy Search.OrderlyKsubModel Search.OrderlyKsub.
From Mamba Require Import Search.OrderlyInstCheckModel Search.OrderlyInstCheck Search.OrderlyInstTie.
From Mamba Require Import Search.OrderlyInstKsubModel Search.OrderlyInstKsub.
From Mamba Require Import Search.OrderlyFuelModel Search.OrderlyFuel Search.OrderlyFuel2.
Import ListNotations.
Local Open Scope nat_scope.

(* ---------------------------------------------------------------- 1. the checker *)

(* The checker on all graphs with at most n vertices, every viable set: its verdict [true] is the
   hypothesis of the orderly-generation theorem, for any [canon], [ksub_reps] and n. *)
Theorem C03_spec_check_sound : forall canon ksub_reps n,
  check_upto canon ksub_reps vbs_all n = true -> canon_spec canon ksub_reps n.
Proof. exact check_upto_sound. Qed.
Print Assumptions C03_spec_check_sound.

(* As the driver calls it ([vbs_mixed]: every viable set up to 6 vertices, which is what the
   tables of harness/cmd/c03sim hold). *)
Theorem C03_spec_check_sound_tables : forall canon ksub_reps n, n <= 6 ->
  check_upto canon ksub_reps vbs_mixed n = true -> canon_spec canon ksub_reps n.
Proof. exact check_upto_sound_mixed. Qed.
Print Assumptions C03_spec_check_sound_tables.

(* The parts, named as in [canon_parts_at] (permutation; exact orbit forest; generators generate
   Aut(g); early exit), the k-subset transversals and the canonical-form clause. *)
Theorem C03_spec_check_parts : forall canon ksub_reps n,
  check_upto canon ksub_reps vbs_all n = true ->
  canon_label_ok canon n /\
  forall g c, wfv g -> 1 <= nv_of g <= n -> answer canon g = Some c ->
    canon_parts_at canon g c /\
    forall k, 2 <= k <= nv_of g -> transversal (nv_of g) (vadj g) k (ksub_reps (nv_of g) k (CGens c)).
Proof. exact check_upto_parts. Qed.
Print Assumptions C03_spec_check_parts.

(* One graph (any number of vertices; used on the sampled 7- and 8-vertex graphs): the clauses of
   [canon_ok_at] / [canon_parts_at], the early-exit clause for the viable sets in vbs. *)
Theorem C03_spec_check_graph_sound : forall canon ksub_reps vbs g,
  1 <= nv_of g -> check_graph canon ksub_reps vbs g = true ->
  exists c, answer canon g = Some c /\
    (exists p, CPerm c = Some p /\ is_perm (nv_of g) p) /\
    orb_exact g (COrb c) /\
    ((forall s, In s (CGens c) -> autP (nv_of g) (vadj g) s) /\
     (forall a, autP (nv_of g) (vadj g) a -> generated (nv_of g) (CGens c) a)) /\
    (forall k, 2 <= k <= nv_of g -> transversal (nv_of g) (vadj g) k (ksub_reps (nv_of g) k (CGens c))) /\
    (forall vb c', In vb vbs -> get_aut canon g true vb = Some c' ->
       c' = c \/
       (CPerm c' = None /\
        forall p u, CPerm c = Some p -> first_hit (nv_of g - 1) vb p = Some u ->
                    ~ same (COrb c) u (nv_of g - 1))).
Proof. exact check_graph_sound_flat. Qed.
Print Assumptions C03_spec_check_graph_sound.

(* One relabelled pair: h is g relabelled by q and both get the same canonical form. *)
Theorem C03_spec_check_pair_sound : forall canon g h q, label_pair_check canon g h q = true ->
  nv_of g = nv_of h /\ isoP (nv_of g) (vadj g) (vadj h) q /\
  exists cg ch pg ph, answer canon g = Some cg /\ answer canon h = Some ch /\
    CPerm cg = Some pg /\ CPerm ch = Some ph /\
    forall i j, i < nv_of g -> j < nv_of g -> vadj g (app pg i) (app pg j) = vadj h (app ph i) (app ph j).
Proof. exact label_pair_check_sound. Qed.
Print Assumptions C03_spec_check_pair_sound.

(* What a co-simulation run with verdict [spec:ok] is, for the tabulated functions (n <= 6): the
   unsplit unpruned run of the model ends without panic, for every number of calls and fuel above
   the closed bounds, with one graph of every isomorphism class. *)
Theorem C03_checked_tables_run : forall grow canon ksub_reps,
  canon_ignores_stale_bits canon ->
  forall n, n <= 6 -> check_upto canon ksub_reps vbs_mixed n = true ->
  exists L,
    (forall calls fuel, calls_bound n <= calls -> fuel_bound n <= fuel ->
       outputs grow canon ksub_reps (fun _ => false) (fun _ => false) calls fuel (init n 0 1) = Ok L) /\
    Forall (wf_graph n) L /\
    (forall H, Iso.simple H -> length H = n -> exists g, In g L /\ Iso.iso (matrix_of g) H) /\
    ForallOrdPairs (fun g h => ~ Iso.iso (matrix_of g) (matrix_of h)) L.
Proof. exact checked_tables_run. Qed.
Print Assumptions C03_checked_tables_run.

(* ... and the whole statement of C03 (shards, hereditary pruning) for that table. *)
Theorem C03_checked_tables_full : forall grow canon ksub_reps,
  canon_ignores_stale_bits canon ->
  forall n, n <= 6 -> check_upto canon ksub_reps vbs_mixed n = true ->
  exists L, one_per_class n L /\
    (exists calls fuel, outputs grow canon ksub_reps no_prune no_prune calls fuel (init n 0 1) = Ok L) /\
    (forall m, 1 <= m -> exists Ls, length Ls = m /\ Permutation (concat Ls) L /\
       forall a, a < m -> exists calls fuel,
         outputs grow canon ksub_reps no_prune no_prune calls fuel (init n a m) = Ok (nth a Ls [])) /\
    (forall P pre post, grows_bad P ->
       (pre = P \/ pre = no_prune) -> (post = P \/ post = no_prune) -> (pre = P \/ post = P) ->
       forall m, 1 <= m -> exists Ls, length Ls = m /\
         Permutation (concat Ls) (filter (fun g => negb (P g)) L) /\
         forall a, a < m -> exists calls fuel,
           outputs grow canon ksub_reps pre post calls fuel (init n a m) = Ok (nth a Ls [])).
Proof. exact checked_tables_full. Qed.
Print Assumptions C03_checked_tables_full.

(* Non-vacuity: the checker accepts the brute-force labelling (all graphs on at most 4 vertices)
   and rejects a labelling that answers the identity permutation for every graph, at n = 3 (the
   path 0-1-2 and the path 1-0-2 are isomorphic and keep different forms). *)
Definition id_canon (n : nat) (m : Z) (nb : list (list nat)) (cv : bool) (vb : N) : cache :=
  let c := toy_canon n m nb cv vb in mkCache (Some (seq 0 n)) (COrb c) (CGens c).

Example C03_spec_check_nonvacuous :
  check_upto toy_canon toy_ksub vbs_all 4 = true /\
  check_upto toy_canon toy_ksub vbs_mixed 4 = true /\
  check_upto id_canon toy_ksub vbs_all 2 = true /\
  check_upto id_canon toy_ksub vbs_all 3 = false /\
  label_check id_canon 3 (all_graphs 3) = false.
Proof. vm_compute. repeat split. Qed.

(* ---------------------------------------------------------------- 2. the k-subset loop, instantiated *)

(* The models of CombinationsColex (C15), Rank (C16), Sort (C17) as parameters of the loop, n <= 63:
   no call panics on what the loop passes; the iterator lists exactly the ascending k-subsets once
   each; Rank of the i-th is i; Sort sorts. *)
Theorem C03_ksub_loop_real_params : forall n k, n <= 63 -> 2 <= k <= n ->
  exists cs, cs_real n k = Some cs /\
    (forall c, In c cs <-> sorted_ksub n k c) /\ NoDup cs /\
    (forall i, i < length cs -> rk_real (nth i cs []) = Some i /\ rk_tot (nth i cs []) = i) /\
    (forall c, sorted_ksub n k c -> exists i, rk_real c = Some i) /\
    (forall l, sort_real l = Some (sort_tot l)) /\
    (forall l, NoDup l -> Sorted.StronglySorted lt (sort_tot l) /\ forall v, In v (sort_tot l) <-> In v l) /\
    (forall gens, Forall (is_perm n) gens -> calls_ok cs gens = true).
Proof. exact ksub_real_params_ok. Qed.
Print Assumptions C03_ksub_loop_real_params.

(* Hence the loop over the models of the code that is actually called does not panic and returns
   one mask per orbit of the generated group on the k-subsets. *)
Theorem C03_ksub_loop_real_transversal : forall n k gens, n <= 63 -> 2 <= k <= n ->
  Forall (is_perm n) gens ->
  exists R, ksub_real n k gens = Some R /\ transversal_gen n gens k R.
Proof. exact ksub_real_transversal. Qed.
Print Assumptions C03_ksub_loop_real_transversal.

(* [canon_spec] holds for the brute-force labelling with THIS loop, for n <= 63. *)
Theorem C03_ksub_loop_real_instance : forall n, n <= 63 -> canon_spec toy_canon ksub_real_fn n.
Proof. exact toy_real_canon_spec. Qed.
Print Assumptions C03_ksub_loop_real_instance.

Example C03_ksub_loop_real_nonvacuous :
  cs_real 4 2 = Some [[0; 1]; [0; 2]; [1; 2]; [0; 3]; [1; 3]; [2; 3]] /\
  ksub_real 4 2 [[1; 0; 2; 3]; [0; 1; 3; 2]] = Some [3%N; 6%N; 12%N] /\
  ksub_real 4 2 [[1; 0; 2; 3]; [0; 1; 3; 2]] = Some (ksub_ref 4 2 [[1; 0; 2; 3]; [0; 1; 3; 2]]) /\
  ksub_real 4 2 [[1; 0; 2; 7]] = None.
Proof. vm_compute. repeat split. Qed.

(* ---------------------------------------------------------------- 3. explicit fuel *)

(* For every canon (ignoring stale bits), pruning, n, a, m: if the recursive presentation gives L
   then the caller's loop ends with L for every calls >= |L| + 1 and every
   fuel >= spec_steps (a structural function of the run, Search/OrderlyFuelModel.v). *)
Theorem C03_outputs_steps : forall grow canon ksub_reps preprune prune,
  canon_ignores_stale_bits canon ->
  forall n a m L, spec canon ksub_reps preprune prune n a m = Some L ->
  forall calls fuel, S (length L) <= calls -> spec_steps canon ksub_reps preprune prune n a m <= fuel ->
  outputs grow canon ksub_reps preprune prune calls fuel (init n a m) = Ok L.
Proof. exact spec_outputs_fuel. Qed.
Print Assumptions C03_outputs_steps.

(* C03_all_exactly_one_per_class with the closed bounds. *)
Theorem C03_outputs_fuel_bound : forall canon ksub_reps grow,
  canon_ignores_stale_bits canon ->
  forall n, canon_spec canon ksub_reps n ->
  exists L,
    (forall calls fuel, calls_bound n <= calls -> fuel_bound n <= fuel ->
       outputs grow canon ksub_reps (fun _ => false) (fun _ => false) calls fuel (init n 0 1) = Ok L) /\
    Forall (wf_graph n) L /\
    (forall H, Iso.simple H -> length H = n -> exists g, In g L /\ Iso.iso (matrix_of g) H) /\
    ForallOrdPairs (fun g h => ~ Iso.iso (matrix_of g) (matrix_of h)) L.
Proof. exact outputs_orderly_fuel. Qed.
Print Assumptions C03_outputs_fuel_bound.

Theorem C03_spec_steps_bound : forall canon ksub_reps n, canon_spec canon ksub_reps n ->
  spec_steps canon ksub_reps no_prune no_prune n 0 1 <= fuel_bound n.
Proof. exact spec_steps_bound. Qed.
Print Assumptions C03_spec_steps_bound.

(* Non-vacuity: n = 4 with the brute-force labelling: 11 graphs within 12 calls of 82 steps; the
   closed bounds are 65 calls of 1398 steps. *)
Example C03_outputs_fuel_nonvacuous :
  match spec toy_canon toy_ksub no_prune no_prune 4 0 1 with
  | Some L =>
      length L = 11 /\
      outputs (fun k => k) toy_canon toy_ksub no_prune no_prune (S (length L))
              (spec_steps toy_canon toy_ksub no_prune no_prune 4 0 1) (init 4 0 1) = Ok L
  | None => False
  end /\
  N.of_nat (spec_steps toy_canon toy_ksub no_prune no_prune 4 0 1) = 82%N /\
  N.of_nat (fuel_bound 4) = 1398%N /\ N.of_nat (calls_bound 4) = 65%N.
Proof. vm_compute. repeat split. Qed.
