(* C19 (schedules) — "every goroutine obtains exactly the result it would obtain running alone", for ALL
   interleavings, on an abstract heap machine (Effects/Sched.v): operations with read and write sets that
   their transitions respect; a schedule is any list of operations tagged with goroutine ids.  If no
   operation of one goroutine writes into the footprint of an operation of another goroutine (reads of
   shared locations are free), then under every schedule each goroutine's results, in order, and the final
   contents of its footprint are those of running alone from the initial heap; two schedules of the same
   goroutines give every goroutine the same results; locations nobody writes (a shared finished Dawg or
   graph) keep their contents.

   Named _partial relative to the CODE: that the library's operations have such footprints is the content
   of the regenerated effect summary (Props/C19.v: no package-level writes, queries write nothing
   reachable from a shared value, borrowed inputs never written, distinct values own their storage), a
   trusted syntactic analysis; and sequential consistency of race-free executions is the Go memory
   model's DRF-SC guarantee (assumed).  Only property theorems, closed by [exact]. *)
From Coq Require Import List Arith Bool ZArith.
From Mamba Require Import Effects.Sched.
Import ListNotations.

Theorem C19_every_schedule_as_alone_partial :
  forall (val out : Type) (s : list (nat * op val out)) (h0 : heap val) (i : nat),
    (forall j a, In (j, a) s -> op_ok val out a) -> conflict_free val out s ->
    proj i (snd (exec val out h0 s)) = snd (exec1 val out h0 (proj i s)) /\
    forall l, tfp val out i s l -> fst (exec val out h0 s) l = fst (exec1 val out h0 (proj i s)) l.
Proof. exact sched_alone. Qed.
Print Assumptions C19_every_schedule_as_alone_partial.

Theorem C19_schedules_agree_partial :
  forall (val out : Type) (s s' : list (nat * op val out)) (h0 : heap val) (i : nat),
    (forall j a, In (j, a) s -> op_ok val out a) -> conflict_free val out s ->
    (forall j a, In (j, a) s' -> op_ok val out a) -> conflict_free val out s' ->
    proj i s = proj i s' ->
    proj i (snd (exec val out h0 s)) = proj i (snd (exec val out h0 s')).
Proof. exact sched_independent. Qed.
Print Assumptions C19_schedules_agree_partial.

Theorem C19_shared_readonly_unchanged_partial :
  forall (val out : Type) (s : list (nat * op val out)) (h : heap val) (l : loc),
    (forall j a, In (j, a) s -> op_ok val out a) -> (forall j a, In (j, a) s -> wr val out a l = false) ->
    fst (exec val out h s) l = h l.
Proof. exact exec_frame. Qed.
Print Assumptions C19_shared_readonly_unchanged_partial.

(* Non-vacuity: two goroutines, each adding the shared read-only cell 0 into its own cell (1 resp. 2) and
   reporting the new value; the operations respect their sets, the schedule [0;1;1;0;1] is conflict free,
   and each goroutine sees what it sees alone (5, 10 resp. 5, 10, 15). *)
Definition ex_add (own : nat) : op nat nat :=
  mkOp nat nat (fun h => let v := h own + h 0 in ((fun l => if l =? own then v else h l), v))
       (fun l => (l =? 0) || (l =? own)) (fun l => l =? own).
Definition ex_h0 : heap nat := fun l => if l =? 0 then 5 else 0.
Definition ex_s : list (nat * op nat nat) := [(0, ex_add 1); (1, ex_add 2); (1, ex_add 2); (0, ex_add 1); (1, ex_add 2)].

Lemma ex_add_ok : forall own, own <> 0 -> op_ok nat nat (ex_add own).
Proof.
  intros own Hown. split.
  - intros h l W. unfold ex_add in *. cbn [run wr fst] in *. rewrite W. reflexivity.
  - intros h h' E.
    assert (E0 : h 0 = h' 0) by (apply E; reflexivity).
    assert (E1 : h own = h' own).
    { apply E. unfold fp, ex_add. cbn [rd wr]. rewrite Nat.eqb_refl, !orb_true_r. reflexivity. }
    unfold ex_add. cbn [run wr fst snd].
    split; [rewrite E0, E1; reflexivity|]. intros l W. rewrite W, E0, E1. reflexivity.
Qed.

Example C19_sched_nonvacuous :
  (forall j a, In (j, a) ex_s -> op_ok nat nat a) /\ conflict_free nat nat ex_s /\
  snd (exec nat nat ex_h0 ex_s) = [(0, 5); (1, 5); (1, 10); (0, 10); (1, 15)] /\
  snd (exec1 nat nat ex_h0 (proj 0 ex_s)) = [5; 10] /\ snd (exec1 nat nat ex_h0 (proj 1 ex_s)) = [5; 10; 15].
Proof.
  split; [|split; [|vm_compute; repeat split]].
  - intros j a H. cbn in H.
    repeat (destruct H as [H|H]; [inversion H; subst; apply ex_add_ok; discriminate|]). destruct H.
  - intros i a j b l Ha Hb Hne W. cbn in Ha, Hb.
    repeat (destruct Ha as [Ha|Ha]; [inversion Ha; subst; clear Ha|]); try destruct Ha;
    repeat (destruct Hb as [Hb|Hb]; [inversion Hb; subst; clear Hb|]); try destruct Hb;
    try (exfalso; apply Hne; reflexivity);
    cbn in W |- *; apply Nat.eqb_eq in W; subst l; reflexivity.
Qed.

(* The shape of C19 itself: values are locations holding their whole state; a goroutine mutates and queries
   only the values it owns, and anybody may query (read-only) the values that nobody owns.  Every schedule in
   this discipline is conflict free, hence: under every interleaving every goroutine obtains exactly the
   results it obtains alone, and its own values end in the state they reach alone.  S and the transformers /
   queries are arbitrary: in particular the step functions of the models of this development (iterators,
   builders, canonical-labelling storage, disjoint sets). *)
Theorem C19_distinct_values_and_shared_queries_partial :
  forall (S R : Type) (owner : loc -> option nat) (s : list (nat * op S R)) (h0 : heap S) (i : nat),
    Forall (disciplined S R owner) s ->
    proj i (snd (exec S R h0 s)) = snd (exec1 S R h0 (proj i s)) /\
    forall l, tfp S R i s l -> fst (exec S R h0 s) l = fst (exec1 S R h0 (proj i s)) l.
Proof. exact values_alone. Qed.
Print Assumptions C19_distinct_values_and_shared_queries_partial.

(* Non-vacuity with a model of this development: the array-level model of disjoint.Set (Disjoint/Model.v, the
   model of C18).  Value 0 is a finished shared Set that both goroutines only inspect with Roots (read-only:
   Find is NOT — it compresses paths — and is therefore used on owned values only); goroutine 0 owns value 1,
   goroutine 1 owns value 2; unions and finds interleaved: everybody sees what they see alone. *)
From Mamba Require Disjoint.Model.
Definition ds_state := option Disjoint.Model.dset.
Definition ds_mut (v : loc) (o : Disjoint.Model.op) : op ds_state (list nat) :=
  mut_op ds_state (list nat) v
    (fun s => match s with
              | Some ds => match o with
                           | Disjoint.Model.OFind x | Disjoint.Model.OFindB x =>
                               match Disjoint.Model.find ds x with Some (d, r) => (Some d, [r]) | None => (None, []) end
                           | _ => (Disjoint.Model.step ds o, [])
                           end
              | None => (None, [])
              end).
Definition ds_roots (v : loc) : op ds_state (list nat) :=
  query_op ds_state (list nat) v (fun s => match s with Some ds => Disjoint.Model.roots ds | None => [] end).
Definition ds_owner (v : loc) : option nat := match v with 1 => Some 0 | 2 => Some 1 | _ => None end.
Definition ds_h0 : heap ds_state :=
  fun l => match l with
           | 0 => Disjoint.Model.run 4 [Disjoint.Model.OUnion 0 1; Disjoint.Model.OUnion 2 3]
           | _ => Some (Disjoint.Model.new 5)
           end.
Definition ds_sched : list (nat * op ds_state (list nat)) :=
  [(0, ds_mut 1 (Disjoint.Model.OUnion 0 1)); (1, ds_mut 2 (Disjoint.Model.OUnion 3 4)); (1, ds_roots 0);
   (0, ds_mut 1 (Disjoint.Model.OUnion 1 2)); (1, ds_mut 2 (Disjoint.Model.OUnion 2 3)); (0, ds_roots 0);
   (1, ds_mut 2 (Disjoint.Model.OFind 4)); (0, ds_mut 1 (Disjoint.Model.OFind 0)); (1, ds_roots 2); (0, ds_roots 1)].

Example C19_values_nonvacuous :
  Forall (disciplined ds_state (list nat) ds_owner) ds_sched /\
  proj 0 (snd (exec _ _ ds_h0 ds_sched)) = snd (exec1 _ _ ds_h0 (proj 0 ds_sched)) /\
  proj 1 (snd (exec _ _ ds_h0 ds_sched)) = snd (exec1 _ _ ds_h0 (proj 1 ds_sched)) /\
  proj 1 (snd (exec _ _ ds_h0 ds_sched)) <> proj 0 (snd (exec _ _ ds_h0 ds_sched)) /\
  length (proj 0 (snd (exec _ _ ds_h0 ds_sched))) = 5.
Proof.
  split.
  - unfold ds_sched, ds_mut, ds_roots.
    repeat (apply Forall_cons; [first [apply d_mut; reflexivity | apply d_own_query; reflexivity | apply d_shared_query; reflexivity]|]).
    apply Forall_nil.
  - vm_compute. repeat split; discriminate.
Qed.

(* Why Find / Sets / SmallestRep on a SHARED disjoint.Set are outside the discipline (a finding recorded in
   notes/C19.md, not a defect of C19: the property speaks of read-only queries): Find writes its receiver. *)
Example C19_find_writes_its_receiver :
  exists ds x d r, Disjoint.Model.find ds x = Some (d, r) /\ d <> ds.
Proof. exists [1; 2; -1]%Z, 0, [2; 2; -1]%Z, 2. split; [vm_compute; reflexivity|discriminate]. Qed.
