(* C01 (reuse) — C01 for CanonicalIsomorphAllocated on caller-owned storage that has been used before.

   Props/C01_search.v states C01 for the model of a FRESH call (canon_search = CanonicalIsomorphFull on
   NewStorage / NewOrderedPartition).  The library's fast path — and the one graph/search uses for every
   augmentation — is CanonicalIsomorphAllocated on one storage and one partition that are reset and reused
   for graph after graph, so the arrays the search reads hold whatever earlier calls left there.  This file
   composes the C01 theorems with the stale-storage noninterference theorem of Props/C02_reuse.v
   (Canon/SearchReuse.v, Canon/SearchReuseReset.v): for ARBITRARY contents of the storage (capacities at
   least those of NewStorage(n, m)) and an ARBITRARY old partition state of sufficient capacity, the
   labelling returned by the model of the reused call is a permutation, gives the same canonical graph for
   every relabelling of the input, and two simple graphs — each labelled on its OWN arbitrary dirty storage —
   have equal canonical graphs if and only if they are isomorphic.

   Only the property theorems, closed by [exact], and their assumptions.  The theorems are about the models
   canon_alloc / canon_alloc_reset (Canon/SearchReuseModel.v), tied to the code by the stream `reuse` of C02
   (exact storage contents after every call of a sequence) and the `seq` cases of C01/C02. *)
From Coq Require Import List Arith ZArith.
From Mamba Require Import Canon.Perm Canon.Iso Canon.Model Canon.SearchModel Canon.SearchInit Canon.SearchProofs
  Canon.SearchReuseModel Canon.SearchReuse Canon.SearchReuseReset Canon.SearchFull Canon.SearchReuseC01.
From Mamba Require Canon.AutResetModel Canon.AutReset.
Import ListNotations.
Open Scope nat_scope.

(* The labelling of the reused call is the labelling of the fresh call, whatever the storage holds. *)
Theorem C01_reuse_labelling_is_fresh :
  forall (g : graph) (st : storage), simple g -> storage_caps st (length g) (num_edges g) ->
    alloc_labelling st g = search_labelling g.
Proof. exact alloc_labelling_fresh. Qed.
Print Assumptions C01_reuse_labelling_is_fresh.

Theorem C01_reuse_reset_labelling_is_fresh :
  forall (g : graph) (st : storage) (op : AutResetModel.opst), simple g ->
    storage_caps st (length g) (num_edges g) -> AutReset.caps_ok op (length g) (num_edges g) ->
    alloc_reset_labelling st op g = search_labelling g.
Proof. exact alloc_reset_labelling_fresh. Qed.
Print Assumptions C01_reuse_reset_labelling_is_fresh.

(* First sentence of C01 on a dirty storage: a permutation. *)
Theorem C01_reuse_labelling_perm :
  forall (g : graph) (st : storage) (op : AutResetModel.opst), simple g ->
    storage_caps st (length g) (num_edges g) -> AutReset.caps_ok op (length g) (num_edges g) ->
    is_perm (length g) (alloc_reset_labelling st op g) = true.
Proof. exact alloc_reset_labelling_perm. Qed.
Print Assumptions C01_reuse_labelling_perm.

(* Label invariance across two different dirty storages / old partition states. *)
Theorem C01_reuse_labelling_invariant :
  forall (g : graph) (p : list nat) (st st' : storage) (op op' : AutResetModel.opst),
    simple g -> is_perm (length g) p = true ->
    storage_caps st (length g) (num_edges g) -> AutReset.caps_ok op (length g) (num_edges g) ->
    storage_caps st' (length (relabel g p)) (num_edges (relabel g p)) ->
    AutReset.caps_ok op' (length (relabel g p)) (num_edges (relabel g p)) ->
    relabel (relabel g p) (alloc_reset_labelling st' op' (relabel g p)) = relabel g (alloc_reset_labelling st op g).
Proof. exact alloc_reset_labelling_invariant. Qed.
Print Assumptions C01_reuse_labelling_invariant.

(* C01 in full for the reused call: equal canonical graphs <=> isomorphic, each graph labelled on its own
   arbitrary storage contents and old partition state. *)
Theorem C01_reuse_iso_iff :
  forall (g h : graph) (st st' : storage) (op op' : AutResetModel.opst),
    simple g -> simple h ->
    storage_caps st (length g) (num_edges g) -> AutReset.caps_ok op (length g) (num_edges g) ->
    storage_caps st' (length h) (num_edges h) -> AutReset.caps_ok op' (length h) (num_edges h) ->
    (relabel g (alloc_reset_labelling st op g) = relabel h (alloc_reset_labelling st' op' h) <-> iso g h).
Proof. exact alloc_reset_iso_iff. Qed.
Print Assumptions C01_reuse_iso_iff.

(* A whole history through ONE storage (allocated for N vertices and M edges, any contents), pushed through any
   sequence of graphs within the capacities, the storage contents threaded from call to call, the partition
   before each Reset in any state: ANY two answers of the history (positions i and j, at any distance, with
   whatever graphs labelled in between) compare as C01 says: equal canonical graphs <=> isomorphic. *)
Theorem C01_reuse_history_iso_iff :
  forall fuel N M (items : list (AutResetModel.opst * (graph * option (list (list nat))))) (st : storage)
         i j opi gi opj gj,
    storage_caps st N M -> Forall (item_ok N M) items ->
    (forall it, In it items -> search_fuel (length (fst (snd it))) <= fuel) ->
    nth_error items i = Some (opi, (gi, None)) -> nth_error items j = Some (opj, (gj, None)) ->
    (relabel gi (seq_lab (run_seq fuel st items) i) = relabel gj (seq_lab (run_seq fuel st items) j) <-> iso gi gj).
Proof. exact run_seq_iso_iff. Qed.
Print Assumptions C01_reuse_history_iso_iff.

(* Any sufficient fuel gives the same complete invariant (the labelling itself may not depend on it either, but
   only the canonical graph matters for C01). *)
Theorem C01_search_iso_iff_at_fuel : forall F g h, simple g -> simple h ->
  search_fuel (length g) <= F -> search_fuel (length h) <= F ->
  (relabel g (lab_at F g) = relabel h (lab_at F h) <-> iso g h).
Proof. intros F g h Hg Hh Fg Fh. exact (lab_at_iso_iff F g h (conj Hg Fg) (conj Hh Fh)). Qed.
Print Assumptions C01_search_iso_iff_at_fuel.

(* Non-vacuity: ONE dirty storage (capacity 9 vertices / 12 edges, junk everywhere) and a dirty partition pushed
   through the history 6-cycle, path on 3 vertices, the 6-cycle relabelled by [3;0;5;1;4;2], edgeless graph on 4
   vertices: the answers at positions 0 and 2 are different permutations giving the SAME canonical graph; positions
   0 and 1 give different canonical graphs; every call returns (fuel 100 is enough
   for these runs; the theorems take the fuel search_fuel n, which always suffices and beyond which the result no
   longer depends on the fuel: search_terminates). *)
From Mamba Require Props.C02_reuse.
Example C01_reuse_nonvacuous :
  let c6 := Props.C02_reuse.ex_c6 in
  let c6' := relabel c6 [3;0;5;1;4;2] in
  let op := Props.C02_reuse.ex_op in
  let items := [(op, (c6, None)); (op, (Props.C02_reuse.ex_p3, None)); (op, (c6', None));
                (op, (Props.C02_reuse.ex_e4, None))] in
  let rs := run_seq 100 Props.C02_reuse.ex_dirty items in
  simpleb c6 = true /\ simpleb c6' = true /\ c6 <> c6' /\ length rs = 4 /\
  seq_lab rs 0 <> seq_lab rs 2 /\
  relabel c6 (seq_lab rs 0) = relabel c6' (seq_lab rs 2) /\
  relabel c6 (seq_lab rs 0) <> relabel Props.C02_reuse.ex_p3 (seq_lab rs 1) /\
  Forall (fun r => match r with Ok _ => True | _ => False end) rs.
Proof. vm_compute. repeat split; try discriminate; repeat constructor. Qed.
