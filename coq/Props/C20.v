(* C20 — TSPLIB output is well formed, faithful, and write failures are reported.
   Only the property theorems, closed by [exact], and their assumptions. *)
From Coq Require Import List ZArith Arith.
From Mamba Require Import Tsp.Model Tsp.Proofs.
Import ListNotations.

(* For every n, weight function, writer (any function from call index to success/failure:
   transient, permanent, with or without short count) and every chunking of the tabwriter's
   flush: LIB reports success exactly when every one of the 4 + c writes of the complete
   output was attempted and succeeded.  Hence a failing write at whatever position gives a
   non-nil error, never success for truncated output. *)
Theorem C20_failure_reported : forall chunks w n wt,
  err (lib chunks w n wt) = false <-> forall k, k < 4 + chunks (rows wt n) -> w k = true.
Proof. exact lib_reports_failure. Qed.
Print Assumptions C20_failure_reported.

Theorem C20_failing_write_gives_error : forall chunks w n wt k,
  k < 4 + chunks (rows wt n) -> w k = false -> err (lib chunks w n wt) = true.
Proof. exact lib_failing_write_gives_error. Qed.
Print Assumptions C20_failing_write_gives_error.

(* weights is called only with 0 <= j < i < n, whatever the writer does ... *)
Theorem C20_weights_domain : forall chunks w n wt i j,
  In (i, j) (wcalls (lib chunks w n wt)) -> j < i < n.
Proof. exact lib_weights_domain. Qed.
Print Assumptions C20_weights_domain.

(* ... and, once the header is written, on every such pair exactly once, row by row. *)
Theorem C20_weights_calls : forall chunks w n wt,
  w 0 = true -> w 1 = true -> w 2 = true ->
  wcalls (lib chunks w n wt) = calls n /\ NoDup (calls n) /\
  forall i j, In (i, j) (calls n) <-> j < i < n.
Proof.
  exact (fun chunks w n wt E0 E1 E2 =>
           conj (lib_weights_calls chunks w n wt E0 E1 E2)
                (conj (calls_nodup n) (calls_domain n))).
Qed.
Print Assumptions C20_weights_calls.

(* The complete output (token view): DIMENSION is n; the LOWER_DIAG_ROW section has n rows,
   row i being weights(i,0) .. weights(i,i-1) followed by the diagonal 0; then EOF. *)
Theorem C20_output_shape : forall n wt,
  exists rs, output n wt = [[TWord 0; TWord 1]; [TWord 2; TNum (Z.of_nat n)]] ++ header3 ++ rs ++ [[TWord 10]] /\
    length rs = n /\
    forall i, i < n -> nth i rs [] = map (fun j => TNum (wt i j)) (seq 0 i) ++ [TNum 0].
Proof. exact output_shape. Qed.
Print Assumptions C20_output_shape.

(* Non-vacuity: a writer whose 6th call (inside the weight section) fails once. *)
Example C20_nonvacuous :
  let chunks := fun ls : list line => length (concat ls) in
  let w := fun k => negb (Nat.eqb k 5) in
  let wt := fun i j => Z.of_nat (10 * i + j) in
  5 < 4 + chunks (rows wt 3) /\ err (lib chunks w 3 wt) = true /\
  err (lib chunks (fun _ => true) 3 wt) = false /\
  wcalls (lib chunks w 3 wt) = [(1, 0); (2, 0); (2, 1)].
Proof. vm_compute. repeat split; auto. Qed.
