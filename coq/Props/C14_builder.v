(* C14, third property file: the automata made by Builder/New are in the domain of the C14
   theorems, so the round trip holds for them outright.  Kept apart from Props/C14.v because it
   rests on the builder theorems of C12 (Dawg/Build*.v, Lang*.v, Minimal*.v, imported
   read-only). *)
From Coq Require Import List NArith ZArith.
From Mamba Require Import Dawg.Model Dawg.Spec Dawg.BuildIds Dawg.CodecModel Dawg.CodecWf Dawg.CodecIso
  Dawg.CodecRoundtrip Dawg.CodecBuilt.
Import ListNotations.
Local Open Scope N_scope.

(* New on a strictly increasing list of byte strings (fewer than 2^63 of them, fewer than
   2^64 - 1 letters in all, so that ids and node count fit a uint64) gives a well-formed
   automaton. *)
Theorem C14_builder_in_domain : forall ws s,
  increasing ws -> Forall (Forall (fun b => b < 256)) ws -> (Z.of_nat (length ws) < 2 ^ 63)%Z ->
  total_letters ws < 2 ^ 64 - 1 ->
  new_dawg ws = Ok (Some s) ->
  wf_dawg s root.
Proof. exact built_wf_letters. Qed.
Print Assumptions C14_builder_in_domain.

(* Hence, for every automaton New makes: GobEncode succeeds, GobDecode of the result succeeds
   and gives a copy (same ids, numWords, final flags, labels, corresponding links) that
   encodes to the same bytes — and the copy is again in the domain, so this repeats. *)
Theorem C14_roundtrip_of_built : forall ws s t0,
  increasing ws -> Forall (Forall (fun b => b < 256)) ws -> (Z.of_nat (length ws) < 2 ^ 63)%Z ->
  total_letters ws < 2 ^ 64 - 1 ->
  new_dawg ws = Ok (Some s) ->
  exists f0 b s2 phi,
    (forall fuel, (f0 <= fuel)%nat -> gob_encode fuel s root = Ok b) /\
    gob_decode t0 b = DOk s2 /\
    iso s root s2 0 phi /\
    wf_dawg s2 0 /\
    (forall fuel, (f0 <= fuel)%nat -> gob_encode fuel s2 0 = Ok b).
Proof.
  intros ws s t0 H1 H2 H3 H4 H5.
  destruct (gob_roundtrip s root t0 (built_wf_letters ws s H1 H2 H3 H4 H5)) as [f0 [b [s2 [phi [A [B [C [_ [D E]]]]]]]]].
  exists f0, b, s2, phi. auto.
Qed.
Print Assumptions C14_roundtrip_of_built.

(* Non-vacuity: the hypotheses hold for { "", a, ab, abc, b, bc, \255\000 }. *)
Definition exb_words : list word := [[]; [97]; [97; 98]; [97; 98; 99]; [98]; [98; 99]; [255; 0]].

Example C14_builder_nonvacuous :
  exists s, increasing exb_words /\ Forall (Forall (fun b => b < 256)) exb_words /\
    (Z.of_nat (length exb_words) < 2 ^ 63)%Z /\ total_letters exb_words < 2 ^ 64 - 1 /\
    new_dawg exb_words = Ok (Some s).
Proof.
  eexists. split; [vm_compute; repeat split|]. split; [repeat constructor|]. split; [vm_compute; reflexivity|].
  split; [vm_compute; reflexivity|]. vm_compute. reflexivity.
Qed.
