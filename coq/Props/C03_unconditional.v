(* C03 — orderly generation with NO hypothesis about the canonical labelling left: the theorems
   of Props/C03_orderly.v (relative to [canon_spec canon ksub_reps n], Search/OrderlySpec.v) for
   the COMPOSED MODEL of the code:

     the iterator    Search/Model.v            GraphIterator.Next, addAugmentations, isCanonical
     canon        := [canon_real]              Search/ComposeModel.v: the model of the WHOLE of
                                               graph.CanonicalIsomorphAllocated (Canon/SearchModel.v
                                               [canon_search]: pruned depth-first search, Heuristics
                                               1 and 2, certificate cut-off, generators, orbits, the
                                               m == 0 shortcut) as getAutomorphismGroup calls it
                                               (neighbour lists of the graph under construction, no
                                               vertex classes, options.CheckViability / ViableBits),
                                               including the early viability exit of the first
                                               refinement ([canon_search_v], canonical.go:409-428,
                                               606-612: returns nil, nil, nil)
     ksub_reps    := [ksub_real_fn]            Search/OrderlyInstKsubModel.v: the k-subset loop of
                                               addAugmentations over the models of
                                               itertools.CombinationsColex (C15), comb.Rank (C16),
                                               ints.Sort (C17) and disjoint.UnionBuffered (C18)

   [canon_spec canon_real ksub_real_fn n] is PROVED for every n <= 63 (C03_canon_spec_real; 63 is
   the bound of the Rank-based loop: Coeff(63, 31) overflows) from
     C01_search_labelling_perm / C01_search_label_invariant   (the labelling is canonical),
     C02_search_orbits_exact / C02_search_generators_complete (orbits and generators are Aut(g)),
     C01_search_total / C01_search_returns                    (no panic, fuel),
     C03_ksub_loop_real_transversal                           (the k-subset loop),
   and a new proof of the early-exit clause (C03_check_viability_sound: every partition met during
   the first refinement is refined IN PLACE by the root of the search tree and by every leaf, and
   automorphisms fix the root bin by bin; Search/ComposeRefine.v, ComposeEarly.v).
   [canon_ignores_stale_bits canon_real] holds by reflexivity (ViableBits is read only under
   CheckViability).  Hence C03_all_exactly_one_per_class_real and C03_full_real: for every
   n <= 63 the composed model run for All(n, a, m) / WithPruning ends without panic and yields
   exactly one representative of every isomorphism class; shards partition; pruning filters.

   The type of [canon] in Search/Model.v is a total function into [cache]; a Panic or exhausted
   fuel of the labelling model is mapped to the empty cache in [canon_real] and excluded by
   theorem for every graph the search can pass (C03_canon_real_returns).  [canon_real] computes
   the number of edges from the neighbour lists where the Go code is given m: they agree
   (first clause of C03_canon_real_returns).

   What remains outside: model = code (Search/Model.v by C03's co-simulation, Canon/SearchModel.v
   by C01's stream `search` on exact outputs, the k-subset loop by the strict part of the
   co-simulation); the labelling model runs on fresh storage (reuse of the CanonicalStorage /
   CanonicalOrderedPartition: Props/C02_reuse.v and exploration); n < 64 (masks are words). *)
From Coq Require Import List NArith ZArith Arith Bool Permutation.
From Mamba Require Import Disjoint.Model Disjoint.Proofs Search.Model Search.SaveModel Search.ShardModel Search.Prune.
From Mamba Require Import Canon.AutBase Canon.Aut Canon.Group.
From Mamba Require Canon.Iso Canon.SearchModel.
From Mamba Require Import Search.OrderlyBase Search.OrderlyGraph Search.OrderlySpec Search.OrderlyTop.
From Mamba Require Import Search.OrderlyInstKsubModel Search.OrderlyInstKsub Search.OrderlyInstCheckModel.
From Mamba Require Import Search.OrderlyFuelModel Search.OrderlyFuel2.
From Mamba Require Import Search.ComposeModel Search.ComposeRefine Search.ComposeEarly Search.Compose Search.ComposeEdges.
Import ListNotations.
Local Open Scope nat_scope.

(* The specification of the labelling and of the k-subset representatives holds for the models
   of the real functions: no hypothesis left. *)
Theorem C03_canon_spec_real :
  forall n, n <= 63 -> canon_spec canon_real ksub_real_fn n /\ canon_ignores_stale_bits canon_real.
Proof. intros n Hn. split; [exact (real_canon_spec n Hn)|exact canon_real_novb]. Qed.
Print Assumptions C03_canon_spec_real.

(* The early viability exit, on adjacency matrices (Canon/Iso.v): for every simple graph G with at
   least one vertex and every ViableBits below n, the call with CheckViability = true returns what
   the call with CheckViability = false returns, or nil, and then the first vertex, in the order
   of the canonical labelling, that is n-1 or viable is not in the orbit of n-1 under Aut(G) —
   so isCanonical may answer false. *)
Theorem C03_check_viability_sound :
  forall G vb fuel p o gs,
  Iso.simple G -> 0 < length G -> (forall v, In v (bits_of vb) -> v < length G) ->
  SearchModel.canon_search fuel G None = SearchModel.Ok (p, o, gs) ->
  canon_search_v fuel G vb = SearchModel.Ok (Some (p, o, gs)) \/
  (canon_search_v fuel G vb = SearchModel.Ok None /\
   forall u, List.find (fun u => (u =? length G - 1) || N.testbit vb (N.of_nat u)) p = Some u ->
     ~ exists a, Aut (length G) (Iso.adjb G)
                     (SearchModel.in_cell (SearchModel.init_cells (length G) None)) a /\
                 app a u = length G - 1).
Proof. exact early_exit_sound. Qed.
Print Assumptions C03_check_viability_sound.

(* The adapter never takes its stand-in for a Panic / exhausted fuel: on every well-formed graph
   with at least one vertex getAutomorphismGroup with CheckViability = false stores a full
   answer (p, o, gs) of the labelling model; with CheckViability = true and viable bits below
   the number of vertices it stores that answer, or nil after the early exit.  And the m that
   getAutomorphismGroup passes (G.NumberOfEdges) is the number of edges the labelling model
   computes from the graph it is given. *)
Theorem C03_canon_real_returns :
  forall g vb, wfv g -> 1 <= nv_of g ->
  ne_of g = Z.of_nat (SearchModel.num_edges (matrix_of g)) /\
  exists p o gs,
    SearchModel.canon_search (real_fuel (nv_of g)) (matrix_of g) None = SearchModel.Ok (p, o, gs) /\
    get_aut canon_real g false vb = Some (mkCache (Some p) o gs) /\
    ((forall v, In v (bits_of vb) -> v < nv_of g) ->
     (canon_search_v (real_fuel (nv_of g)) (matrix_of g) vb = SearchModel.Ok (Some (p, o, gs)) /\
      get_aut canon_real g true vb = Some (mkCache (Some p) o gs)) \/
     (canon_search_v (real_fuel (nv_of g)) (matrix_of g) vb = SearchModel.Ok None /\
      get_aut canon_real g true vb = Some no_cache)).
Proof. intros g vb W Hn. split; [exact (wfv_num_edges g W)|exact (canon_real_returns g vb W Hn)]. Qed.
Print Assumptions C03_canon_real_returns.

(* All(n, 0, 1) on the composed model: ends without panic — for some number of calls and steps, and
   in fact for every calls >= 2^(n(n-1)/2) + 1 and steps >= sum_j 2^(j(j-1)/2) (2^j + 4) —; every
   entry is a well-formed graph on n vertices; every simple graph on n vertices is isomorphic to
   an entry; entries at different positions are not isomorphic. *)
Theorem C03_all_exactly_one_per_class_real :
  forall grow n, n <= 63 ->
  exists L,
    (exists calls fuel, outputs grow canon_real ksub_real_fn no_prune no_prune calls fuel (init n 0 1) = Ok L) /\
    (forall calls fuel, calls_bound n <= calls -> fuel_bound n <= fuel ->
       outputs grow canon_real ksub_real_fn no_prune no_prune calls fuel (init n 0 1) = Ok L) /\
    Forall (wf_graph n) L /\
    (forall H, Iso.simple H -> length H = n -> exists g, In g L /\ Iso.iso (matrix_of g) H) /\
    ForallOrdPairs (fun g h => ~ Iso.iso (matrix_of g) (matrix_of h)) L.
Proof.
  intros grow n Hn.
  destruct (outputs_orderly_fuel canon_real ksub_real_fn grow canon_real_novb n (real_canon_spec n Hn))
    as (L & B & W & C & U).
  exists L. split; [exists (calls_bound n), (fuel_bound n); apply B; apply le_n|].
  split; [exact B|]. split; [exact W|]. split; [exact C|exact U].
Qed.
Print Assumptions C03_all_exactly_one_per_class_real.

(* The whole of C03 on the composed model: the unsplit unpruned run is one graph per class; for
   every m >= 1 the shards a = 0..m-1 end without panic and yield together a permutation of it;
   with a predicate P that stays true when a vertex is added (implied by hereditary), placed as
   preprune, as prune or both, every shard ends without panic and together they yield a
   permutation of the representatives not satisfying P. *)
Theorem C03_full_real :
  forall grow n, n <= 63 ->
  exists L, one_per_class n L /\
    (exists calls fuel, outputs grow canon_real ksub_real_fn no_prune no_prune calls fuel (init n 0 1) = Ok L) /\
    (forall m, 1 <= m -> exists Ls, length Ls = m /\ Permutation (concat Ls) L /\
       forall a, a < m -> exists calls fuel,
         outputs grow canon_real ksub_real_fn no_prune no_prune calls fuel (init n a m) = Ok (nth a Ls [])) /\
    (forall P pre post, grows_bad P ->
       (pre = P \/ pre = no_prune) -> (post = P \/ post = no_prune) -> (pre = P \/ post = P) ->
       forall m, 1 <= m -> exists Ls, length Ls = m /\
         Permutation (concat Ls) (filter (fun g => negb (P g)) L) /\
         forall a, a < m -> exists calls fuel,
           outputs grow canon_real ksub_real_fn pre post calls fuel (init n a m) = Ok (nth a Ls [])).
Proof.
  intros grow n Hn.
  exact (search_full canon_real ksub_real_fn grow canon_real_novb n (real_canon_spec n Hn)).
Qed.
Print Assumptions C03_full_real.

(* Non-vacuity, by computation on the composed model: 1, 1, 2, 4, 11, 34 graphs on 0..5
   vertices (recursive presentation), the eleven graphs on 4 vertices from the model of Next
   itself within 12 calls of 100 steps, the four graphs on 3 vertices.  The early exit is live:
   on the star K_{1,2} with centre 2 and ViableBits = {0} the labelling returns nil (the leaves lie
   in an earlier cell than the centre) while the full answer has 2 alone in its orbit; and it is
   what isCanonical meets from 6 vertices on: for the graph below (vertex 5 adjacent to 0 and 1,
   degrees 4,2,2,2,2,2; the degree filters leave the viable set {1,3,4} = 26) isCanonical answers
   false through the nil answer.  Independent of the proof: the executable checker of canon_spec
   of Props/C03_spec_tie.v (brute-force Aut and isomorphism, every ViableBits) accepts
   canon_real / ksub_real_fn on all graphs with at most 4 vertices (5 vertices: true as well, 40 s,
   not run here). *)
Definition real_count (n : nat) : option nat :=
  option_map (@length _) (spec canon_real ksub_real_fn no_prune no_prune n 0 1).

Example C03_unconditional_nonvacuous :
  map real_count [0; 1; 2; 3; 4; 5] = [Some 1; Some 1; Some 2; Some 4; Some 11; Some 34] /\
  match outputs (fun k => k) canon_real ksub_real_fn no_prune no_prune 12 100 (init 4 0 1) with
  | Ok L => length L = 11 /\ spec canon_real ksub_real_fn no_prune no_prune 4 0 1 = Some L
  | _ => False
  end /\
  outputs (fun k => k) canon_real ksub_real_fn no_prune no_prune 5 40 (init 3 0 1) =
    Ok [(3, 3%Z, [2; 2; 2]%Z, [1; 1; 1]%N); (3, 2%Z, [1; 2; 1]%Z, [1; 0; 1]%N);
        (3, 1%Z, [1; 1; 0]%Z, [1; 0; 0]%N); (3, 0%Z, [0; 0; 0]%Z, [0; 0; 0]%N)] /\
  get_aut canon_real (3, 2%Z, [1; 1; 2]%Z, [0; 1; 1]%N) true 1%N = Some no_cache /\
  get_aut canon_real (3, 2%Z, [1; 1; 2]%Z, [0; 1; 1]%N) false 1%N =
    Some (mkCache (Some [1; 0; 2]) [1; -2; -1]%Z [[1; 0; 2]]) /\
  is_canonical canon_real
    (6, 7%Z, [4; 2; 2; 2; 2; 2]%Z, [1; 0; 0; 1; 0; 1; 1; 0; 1; 0; 1; 1; 0; 0; 0]%N) [0; 1] no_cache 0%N =
    Some (false, no_cache, 26%N) /\
  check_upto canon_real ksub_real_fn vbs_all 4 = true.
Proof. vm_compute. repeat split. Qed.
