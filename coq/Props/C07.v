(* C07 — the graph codecs round-trip every graph and follow their format definitions:
   the graph6 and sparse6 parts (Multicode and Pruefer are in their own property files).
   This file contains only the property theorems, closed by [exact], and their assumptions.

   [graph] is a value of the Go interface Graph (N() and IsEdge; Neighbours, Degrees, M derived),
   [g6_spec] is the graph6 string written from the published format text (Codec/Spec.v), the
   decoders return the vertex count and the triangle bit vector of the DenseGraph they build.
   The bound 3037000500 on N() is the one under which the int product n*(n-1) of the capacity
   computation in Graph6Encode and of NewDense does not wrap (such a graph needs > 10^17 bytes);
   it covers the 1-, 4- and 8-byte size headers. *)
From Coq Require Import List ZArith Bool.
From Mamba Require Import Codec.Model Codec.Spec Codec.G6Header Codec.G6Proofs
  Codec.S6Decode Codec.S6Encode Codec.S6Round.
Import ListNotations.
Open Scope Z_scope.

(* a path 0-1-2 plus the vertex 3: used for the non-vacuity examples *)
Definition ex_graph : graph :=
  {| gn := 4; gadj := fun i j => (Nat.eqb i (S j) || Nat.eqb j (S i)) && Nat.ltb i 3 && Nat.ltb j 3 |}.

(* Graph6Encode produces exactly the string the format definition prescribes. *)
Theorem C07_graph6_format : forall g, Z.of_nat (gn g) <= 3037000500 ->
  graph6_encode g = Ok (g6_spec g).
Proof. exact graph6_encode_spec. Qed.
Print Assumptions C07_graph6_format.
Example C07_graph6_format_nonvacuous :
  Z.of_nat (gn ex_graph) <= 3037000500 /\ graph6_encode ex_graph = Ok [67; 103] (* "Cg" *).
Proof. split; [vm_compute; discriminate|vm_compute; reflexivity]. Qed.

(* Decoding the encoding gives the graph back, with and without the optional header. *)
Theorem C07_graph6_roundtrip : forall g s, Z.of_nat (gn g) <= 3037000500 ->
  graph6_encode g = Ok s ->
  graph6_decode s = Ok (Z.of_nat (gn g), tri_bits g) /\
  graph6_decode (hdr_graph6 ++ s) = Ok (Z.of_nat (gn g), tri_bits g).
Proof. exact graph6_roundtrip. Qed.
Print Assumptions C07_graph6_roundtrip.
Example C07_graph6_roundtrip_nonvacuous :
  graph6_decode (hdr_graph6 ++ [67; 103]) = Ok (4, [true; false; true; false; false; false]).
Proof. vm_compute. reflexivity. Qed.

(* Encodings use only the bytes 63..126. *)
Theorem C07_graph6_bytes : forall g s, Z.of_nat (gn g) <= 3037000500 ->
  graph6_encode g = Ok s -> Forall (fun c => 63 <= c <= 126) s.
Proof. exact graph6_encode_bytes. Qed.
Print Assumptions C07_graph6_bytes.

(* The format's own reader inverts the format's writer (the specification is consistent), for
   every n the format allows. *)
Theorem C07_graph6_spec_consistent : forall g, Z.of_nat (gn g) <= 68719476735 ->
  g6_spec_decode (g6_spec g) = Some (Z.of_nat (gn g), tri_bits g).
Proof. exact g6_spec_decode_spec. Qed.
Print Assumptions C07_graph6_spec_consistent.
Example C07_graph6_spec_consistent_nonvacuous :
  g6_spec_decode (g6_spec ex_graph) = Some (4, [true; false; true; false; false; false]).
Proof. vm_compute. reflexivity. Qed.

(* Above the largest n the format can express the encoder panics ("Graph too large"). *)
Theorem C07_graph6_too_large : forall g, 68719476735 < Z.of_nat (gn g) -> graph6_encode g = Panic.
Proof. exact graph6_encode_panic. Qed.
Print Assumptions C07_graph6_too_large.

(* The size header in isolation, for the whole range of the format (1, 4 and 8 bytes): the
   encoders' shifts and masks give N(n), and the decoders' chain reads it back. *)
Theorem C07_size_header : forall chk n rest, 0 <= n <= 68719476735 ->
  (chk = true -> n <= 4294967296) -> Forall (fun c => 63 <= c <= 126) rest ->
  enc_size n = Ok (spec_N n) /\ dec_size chk (spec_N n ++ rest) = Ok (n, hdr_len n).
Proof. intros chk n rest H1 H2 H3. split; [exact (enc_size_spec n H1)|exact (dec_size_spec_N chk n rest H1 H2 H3)]. Qed.
Print Assumptions C07_size_header.
Example C07_size_header_nonvacuous :
  enc_size 258048 = Ok [126; 126; 63; 63; 63; 126; 63; 63] /\
  dec_size true [126; 126; 63; 63; 63; 126; 63; 63] = Ok (258048, 8) /\
  enc_size 258047 = Ok [126; 125; 126; 126].
Proof. vm_compute. repeat split; reflexivity. Qed.

(* ------------------------------------------------------------------ sparse6 *)
(* the vertices 0,1 joined to 2, and the isolated vertex 3: n = 4 is a power of two, vertex n-2
   has an edge, n-1 has none and exactly k+1 = 3 bits of padding remain — the padding exception *)
Definition ex_graph2 : graph :=
  {| gn := 4; gadj := fun i j => (Nat.eqb i 2 && Nat.ltb j 2) || (Nat.eqb j 2 && Nat.ltb i 2) |}.

Lemma ex_graph2_simple : simple ex_graph2.
Proof.
  split.
  - intros i j. cbn [gadj ex_graph2]. apply orb_comm.
  - intros i. cbn [gadj ex_graph2]. destruct i as [|[|[|i]]]; reflexivity.
Qed.

(* Read by the published format definition, the string Sparse6Encode returns denotes exactly g:
   the declared n and the edges {i,u}, u < i, each once, in ascending order.  (sparse6 strings
   are not unique; what interoperability needs is that the string is a valid sparse6 string of
   g — in particular that the padding is never read as an edge or a loop.)  [simple g]: the
   Graph value is symmetric and irreflexive; fewer than 10^17 edges keeps the int expression
   (k+1)*2*m of the capacity from wrapping. *)
Theorem C07_sparse6_format : forall g s, simple g -> Z.of_nat (gn g) <= 68719476735 ->
  gm g < 100000000000000000 -> sparse6_encode g = Ok s ->
  s6_spec_decode s = Some (Z.of_nat (gn g), edgesZ g).
Proof. exact sparse6_encode_valid. Qed.
Print Assumptions C07_sparse6_format.
Example C07_sparse6_format_nonvacuous :
  simple ex_graph2 /\ gm ex_graph2 < 100000000000000000 /\
  sparse6_encode ex_graph2 = Ok [58; 67; 111; 74] (* ":CoJ", padding 0 1 1 *) /\
  s6_spec_decode [58; 67; 111; 74] = Some (4, [(2, 0); (2, 1)]) /\
  s6_spec_decode [58; 67; 111; 78] (* padding 1 1 1 *) = Some (4, [(2, 0); (2, 1); (3, 3)]).
Proof. split; [exact ex_graph2_simple|]. vm_compute. repeat split; reflexivity. Qed.

(* Decoding the encoding gives the graph back, with and without the optional header, for every
   n the format can express (n = 0, 1, powers of two, edgeless graphs included). *)
Theorem C07_sparse6_roundtrip : forall g s, simple g -> Z.of_nat (gn g) <= 68719476735 ->
  gm g < 100000000000000000 -> sparse6_encode g = Ok s ->
  sparse6_decode s = Ok (Z.of_nat (gn g), edgesZ g) /\
  sparse6_decode (hdr_sparse6 ++ s) = Ok (Z.of_nat (gn g), edgesZ g).
Proof. exact sparse6_roundtrip. Qed.
Print Assumptions C07_sparse6_roundtrip.
Example C07_sparse6_roundtrip_nonvacuous :
  sparse6_decode (hdr_sparse6 ++ [58; 67; 111; 74]) = Ok (4, [(2, 0); (2, 1)]) /\
  edgesZ ex_graph2 = [(2, 0); (2, 1)].
Proof. vm_compute. split; reflexivity. Qed.

(* The encoder does not panic in that range; the string is ':' followed by bytes in 63..126. *)
Theorem C07_sparse6_bytes : forall g, simple g -> Z.of_nat (gn g) <= 68719476735 ->
  gm g < 100000000000000000 ->
  exists s, sparse6_encode g = Ok s /\ Forall (fun c => 63 <= c <= 126) (tl s) /\ hd 0 s = 58.
Proof. exact sparse6_encode_ok. Qed.
Print Assumptions C07_sparse6_bytes.

Theorem C07_sparse6_too_large : forall g, 68719476735 < Z.of_nat (gn g) -> sparse6_encode g = Panic.
Proof. exact sparse6_encode_panic. Qed.
Print Assumptions C07_sparse6_too_large.
